import Thm.C01Count2
/-!
C01 — the counting WHILE loop with an INTEGER counter.

`Thm.C01Count` proves the family for a LONG counter.  This file ports it to an INTEGER one: for EVERY `n ≤ 32767`

    V% = n : WHILE V% : PRINT "w" : V% = V% - 1 : WEND : PRINT "end"

prints `w` exactly `n` times and then `end` on the VM model running the generated code (`vm_while_counts_int`).  The
condition is the bare INTEGER variable; `V% - 1` is INTEGER − INTEGER, typed INTEGER by the operator table, computed by
`Variant::minus` with the INTEGER range check (never Overflow here: `0 ≤ k`), stored without a conversion.  The literal
`n` is an INTEGER literal (`n ≤ 32767`), stored without a conversion.

Method as in `C01Count`: `stOf`, `rounds`, `replicateLines` are reused (they do not depend on the type of the
counter); the loop lemma `while_counts_int` is an induction on the value of the variable (fuel `k + 3`),
`countProgInt_ref` has fuel `n + 5`, `countProgInt_wf` holds for every `n`, and the VM statement goes through
`vmPrints_of_ref`.

The hypothesis `n ≤ 32767` is the range of the type (`V% = 32768` has a LONG literal whose conversion to INTEGER
overflows), so the family ends there.
-/
namespace RbThm.C01Count
open RbModel RbModel.Num RbModel.Ast RbModel.Src RbModel.Core RbModel.CoreVm RbModel.Ref RbModel.CoreWf
open RbThm.C01Sim RbThm.C01Cond RbThm.C01Cond2

set_option linter.unusedSimpArgs false
set_option linter.unusedVariables false

/-! ### the program -/

/-- the largest INTEGER -/
def boundInt : Nat := 32767

/-- `V% - 1`: INTEGER − INTEGER, statically INTEGER -/
def decrInt : Ast.Expr := .bin .minus (.var 0 .int ⟨4, 8⟩) (.lit (.int 1) ⟨4, 13⟩) .int ⟨4, 11⟩

/-- `PRINT "w" : V% = V% - 1` -/
def loopBodyInt : SStmt :=
  .seq (printS ['w'] ⟨3, 3⟩ ⟨3, 9⟩) (.seq (.assign 0 .int decrInt ⟨4, 3⟩) .skip)

/-- `WHILE V% : PRINT "w" : V% = V% - 1 : WEND` -/
def loopIntS : SStmt := .while (.var 0 .int ⟨2, 7⟩) loopBodyInt ⟨2, 1⟩

/-- `V% = n : WHILE V% : PRINT "w" : V% = V% - 1 : WEND : PRINT "end"` -/
def countProgInt (n : Nat) : SProgram :=
  { slots := [.int],
    body :=
      .seq (.assign 0 .int (.lit (.int n) ⟨1, 6⟩) ⟨1, 1⟩)
      (.seq loopIntS
      (.seq (printS ['e', 'n', 'd'] ⟨6, 1⟩ ⟨6, 7⟩) .skip)) }

/-! ### 1. accepted by the checker, for every `n` -/

theorem countProgInt_wf (n : Nat) : wfTopB (countProgInt n).slots (countProgInt n).body = true := by
  simp [countProgInt, loopIntS, loopBodyInt, decrInt, printS, wfTopB, wfB, wfElifsB, condB, slotsB, exprWtB, itemsB,
    isSkipB, Ast.Expr.ty, litS]
  decide

/-! ### 2. the loop, over the reference semantics -/

/-- `V% - 1` at `V% = k + 1`: the INTEGER `k`; no Overflow, no conversion -/
theorem evalTo_decrInt (k : Nat) (hk : k + 1 ≤ boundInt) :
    Ref.evalTo [.int ((k + 1 : Nat) : Int)] decrInt .int = .ok (.int (k : Int)) := by
  have hr : inIntRange ((k : Int) + 1 - 1) = true := by
    simp only [inIntRange, Bool.and_eq_true, decide_eq_true_eq, boundInt] at hk ⊢
    omega
  have hb : Gen.NumTables.binType .minus .int .int = some .int := by decide +kernel
  simp only [Ref.evalTo, decrInt, Ref.eval, ERes.bind, List.getD_cons_zero, Ref.binStep, vmBin, minus, arith,
    intResult, Arith.onInt, Int.natCast_add, Int.cast_ofNat_Int, Int.natCast_one, hr, if_true, Ref.lift, Ast.Expr.ty,
    storeCast]
  simp

/-- one round: the body at `V% = k + 1` prints one line and leaves `V% = k` -/
theorem body_round_int (fuel k : Nat) (hk : k + 1 ≤ boundInt) (p : Print.WritePrinter) (d : List Val) (i : Nat) :
    Ref.exec (fuel + 3) (desugar loopBodyInt) (stOf (.int ((k + 1 : Nat) : Int)) p d i) =
      (stOf (.int (k : Int)) ((p.print ['w']).println) d i, .normal) := by
  simp only [loopBodyInt, printS, desugar, Ref.exec, stOf, printItems, Ref.eval, litS, printValue, endsInSeparator,
    evalTo_decrInt k hk, St.set, List.set, Print.valueText, Bool.false_eq_true, if_false]

/-- **`while_counts_int`** — the loop lemma: from `V% = k` (any `k` up to the largest INTEGER) and any output device,
data and READ cursor, `WHILE V% : PRINT "w" : V% = V% - 1 : WEND` with fuel `k + 3` ends normally with `V% = 0` after
exactly `k` rounds -/
theorem while_counts_int (k : Nat) (hk : k ≤ boundInt) (p : Print.WritePrinter) (d : List Val) (i : Nat) :
    Ref.exec (k + 3) (desugar loopIntS) (stOf (.int (k : Int)) p d i) = (stOf (.int 0) (rounds p k) d i, .normal) := by
  induction k generalizing p with
  | zero =>
    simp only [loopIntS, desugar]
    rw [while_bare_condition _ _ _ _ _ (.int 0) rfl trivial, if_pos (by decide)]
    rfl
  | succ k ih =>
    have hz : ¬ IsZero (.int ((k + 1 : Nat) : Int)) := by rw [isZero_int]; omega
    have hb := body_round_int k k hk p d i
    have hi := ih (by omega) ((p.print ['w']).println)
    simp only [loopIntS, desugar] at hb hi ⊢
    rw [while_bare_condition _ _ _ _ _ (.int ((k + 1 : Nat) : Int)) rfl trivial, if_neg hz, hb, thenIfNormal_normal,
      hi]
    rfl

/-- every larger fuel gives the same -/
theorem while_counts_int_any_fuel (k : Nat) (hk : k ≤ boundInt) (p : Print.WritePrinter) (d : List Val) (i : Nat)
    (j : Nat) :
    Ref.exec (k + 3 + j) (desugar loopIntS) (stOf (.int (k : Int)) p d i) =
      (stOf (.int 0) (rounds p k) d i, .normal) :=
  C01.exec_fuel_mono _ _ _ _ _ _ (while_counts_int k hk p d i) rfl

/-! ### 3. the whole program, over the reference semantics -/

/-- `V% = n`: the INTEGER literal is stored as it is -/
theorem evalTo_intLit (env : List Val) (n : Nat) (q : Pos) :
    Ref.evalTo env (.lit (.int n) q) .int = .ok (.int (n : Int)) := by
  simp only [Ref.evalTo, Ref.eval, ERes.bind, Ast.Expr.ty, Val.tag, storeCast]
  rfl

theorem countProgInt_ref (n : Nat) (hn : n ≤ boundInt) :
    refPrintsB (Ref.run (n + 5) (countProgInt n).toAst) (replicateLines n ++ ['e', 'n', 'd', '\r', '\n']) = true := by
  apply refPrintsB_complete
  have hl := while_counts_int n hn Print.WritePrinter.new [] 0
  simp only [stOf] at hl
  simp only [Ref.run, countProgInt, SProgram.toAst, desugar, dataOf, List.map, List.append_nil]
  rw [show n + 5 = (n + 2) + 1 + 1 + 1 from rfl]
  simp only [Ref.exec, evalTo_intLit, St.set, List.set, Ref.zeroOf]
  have hd : dataOf loopIntS = [] := rfl
  simp only [hd, printS, dataOf, List.append_nil, hl, desugar, Ref.exec, printItems, Ref.eval, litS, printValue,
    endsInSeparator, Print.valueText, Bool.false_eq_true, if_false]
  refine ⟨trivial, ?_⟩
  simp [rounds_out, Print.WritePrinter.print, Print.WritePrinter.println, Print.WritePrinter.printAsIs,
    Print.WritePrinter.printRest, Print.splitCrLf, Print.isCrLf, Print.WritePrinter.new]

/-! ### 4. the VM model running the generated code -/

/-- **`vm_while_counts_int`** — `V% = n : WHILE V% : PRINT "w" : V% = V% - 1 : WEND : PRINT "end"`: for every `n` up to
the largest INTEGER the VM model running the generated code halts (for every sufficient step budget) having printed `w`
exactly `n` times and then `end`. -/
theorem vm_while_counts_int (n : Nat) (hn : n ≤ 32767) :
    VmPrints (countProgInt n) (replicateLines n ++ ['e', 'n', 'd', '\r', '\n']) :=
  vmPrints_of_ref _ (n + 5) _ (countProgInt_wf n) (countProgInt_ref n hn)

/-- the VM model's output has `3 * n + 5` characters, for every `n` -/
theorem vm_while_counts_int_length (n : Nat) (hn : n ≤ 32767) :
    ∃ n₀ υ, (∀ m, n₀ ≤ m → CoreVm.run (compile (countProgInt n)) m (Vm.init (countProgInt n).slots) = .halted υ) ∧
      υ.out.out.length = 3 * n + 5 := by
  obtain ⟨n₀, υ, hr, ho⟩ := vm_while_counts_int n hn
  refine ⟨n₀, υ, hr, ?_⟩
  rw [ho, List.length_append, replicateLines_length]
  rfl

/-! evaluated instances -/

/-- `n = 0`: the body never runs -/
example : VmPrints (countProgInt 0) ['e', 'n', 'd', '\r', '\n'] := vm_while_counts_int 0 (by decide)
/-- `n = 3` -/
example : VmPrints (countProgInt 3) ['w', '\r', '\n', 'w', '\r', '\n', 'w', '\r', '\n', 'e', 'n', 'd', '\r', '\n'] :=
  vm_while_counts_int 3 (by decide)
/-- the largest INTEGER -/
example : VmPrints (countProgInt 32767) (replicateLines 32767 ++ ['e', 'n', 'd', '\r', '\n']) :=
  vm_while_counts_int 32767 (by decide)
/-- the reference side of `n = 3` again, by evaluation (fuel `n + 5`) -/
example : refPrintsB (Ref.run 8 (countProgInt 3).toAst)
    ['w', '\r', '\n', 'w', '\r', '\n', 'w', '\r', '\n', 'e', 'n', 'd', '\r', '\n'] = true := by decide +kernel

end RbThm.C01Count
