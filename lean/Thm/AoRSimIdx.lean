import Thm.AoRSimBase
/-!
Layer AoR (arrays of records / of fixed-length strings), simulation part — subscript evaluation onto the var-path
(`compileIdx` vs `AoR.Ref.evalIdx`; port of `Thm/ArrLSimIdx.lean`): every subscript is
`PushAToValueStack · ⟦e⟧ [Cast %] · VarPathIndex · PopValueStackIntoA`; the path on top of the path stack (no field
appended yet) grows by the converted subscript, register A (the value to be stored, when the path is an assignment
target: possibly a whole record) is saved and restored.  `Cast %` is emitted iff the static type of the subscript is not
INTEGER; the reference semantics converts with `storeCast (idxTy e.ty) .int`.

Also here, for the element read and the element assignment: `idx_path_correct` (`VarPathName a` + the subscripts),
`idx_evalIdx_length` / `idx_evalIdx_ne_nil`, `idx_props_steps` (the `VarPathProperty` steps below an element).
-/
namespace RbThm.AoRSim
set_option linter.unusedVariables false
set_option linter.unusedSimpArgs false
open RbModel RbModel.Num RbModel.AoR RbModel.AoR.Compile RbModel.AoR.Vm
open RbModel.Ast (Pos)
open RbModel.RecL (ETy FTy FFields expand zeroOf)
open RbModel.RecL.Vm (allocTy defaultVar)
open RbThm.AoRLen RbThm.ArrLNum RbThm.RecLTy RbThm.AoRTy

theorem idx_nil (code : Code) (sc : Scope) : IdxSpec code sc .nil := by
  intro off s σ pth rest hc hpc hr hw hp hprops
  simp only [AoR.Ref.evalIdx, IdxPost, compileIdx, List.length_nil, Nat.add_zero]
  exact ⟨σ, Steps.refl σ, hpc, rfl, hr, by rw [hp]; simp, rfl, rfl, rfl, rfl, id⟩

/-- the length of the optional `Cast %` -/
theorem idx_len_cast (t : ETy) (p : Pos) :
    (if t = ETy.sc .int then ([] : Code) else [(CInstr.cast .int, p)]).length = if t = ETy.sc .int then 0 else 1 := by
  by_cases h : t = ETy.sc .int <;> simp [h]

theorem idx_cons (code : Code) (sc : Scope) (e : AoR.Expr) (rest : Exprs) (hE : RvSpec code sc e)
    (hI : IdxSpec code sc rest) : IdxSpec code sc (.cons e rest) := by
  intro off s σ pth prest hc hpc hr hw hpaths hprops
  simp only [IdxTyped] at hw
  obtain ⟨hwe, ⟨q, hq, hqs⟩, hwr⟩ := hw
  simp only [compileIdx] at hc
  have hpush : code[σ.pc]? = some (CInstr.pushA, e.pos) := by
    rw [hpc]; exact hc.append_left.append_left.append_left.append_left.head
  have hce : CodeAt code (off + 1) (compileExpr e) := by
    have := hc.append_left.append_left.append_left.append_right
    simpa using this
  have hcc : CodeAt code (off + 1 + (compileExpr e).length)
      (if e.ty = ETy.sc .int then [] else [(CInstr.cast .int, e.pos)]) := by
    have := hc.append_left.append_left.append_right
    simp only [List.length_append, List.length_singleton] at this
    exact this.at (by omega)
  -- push A
  let σ1 : Vm := Vm.advance { σ with vals := σ.regs.a :: σ.vals }
  have s1 : Vm.step code σ = .next σ1 := by simp only [Vm.step, hpush]; rfl
  have hr1 : Rel sc s σ1 := hr.same rfl rfl rfl rfl rfl rfl rfl rfl
  -- what follows the conversion: VarPathIndex, PopValueStackIntoA, the remaining subscripts
  have cont : ∀ (υ : Vm) (i : Int), Steps code σ υ →
      υ.pc = off + 1 + (compileExpr e).length + (if e.ty = ETy.sc .int then 0 else 1) →
      υ.regs.a = .leaf (.int i) → Rel sc s υ → υ.paths = pth :: prest → υ.vals = σ.regs.a :: σ.vals →
      υ.regStack = σ.regStack → υ.ctx = σ.ctx → υ.trace = σ.trace →
      (σ.skipNewline = false → υ.skipNewline = false) →
      IdxPost code sc (compileIdx (.cons e rest)).length off s σ pth prest
        ((AoR.Ref.evalIdx s.env s.arrs rest).bind fun is => .ok (i :: is)) := by
    intro υ i pre hp2 ha2 hrel2 hpaths2 hvals2 hregs2 hctx2 htr2 hsk2
    have hpi : code[υ.pc]? = some (CInstr.pathIndex, e.pos) := by
      have := hc.append_left.append_right.head
      simp only [List.length_append, List.length_singleton, idx_len_cast] at this
      rw [hp2, ← this]; congr 1; omega
    have hpop : code[υ.pc + 1]? = some (CInstr.popA, e.pos) := by
      have := hc.append_left.append_right.tail.head
      simp only [List.length_append, List.length_singleton, idx_len_cast] at this
      rw [hp2, ← this]; congr 1; omega
    let υ1 : Vm := Vm.advance { υ with paths := { pth with idx := pth.idx ++ [i] } :: prest }
    let υ2 : Vm := Vm.advance { Vm.setRA υ1 σ.regs.a with vals := σ.vals }
    have hpe : pth.props.isEmpty = true := by rw [hprops]; rfl
    have s2 : Vm.step code υ = .next υ1 := by
      simp only [Vm.step, hpi, ha2, hpaths2, hpe, if_true]; rfl
    have s3 : Vm.step code υ1 = .next υ2 := by
      simp only [Vm.step, υ1, Vm.advance, hpop, hvals2]; rfl
    have hr3 : Rel sc s υ2 := hrel2.same rfl rfl rfl rfl rfl rfl rfl rfl
    have hcr : CodeAt code υ2.pc (compileIdx rest) := by
      have := hc.append_right
      simp only [List.length_append, List.length_singleton, List.length_cons, List.length_nil, idx_len_cast] at this
      refine this.at ?_
      simp only [υ2, υ1, Vm.advance, Vm.setRA, hp2]; omega
    have hrest := hI υ2.pc s υ2 { pth with idx := pth.idx ++ [i] } prest hcr rfl hr3 hwr rfl hprops
    have pre2 : Steps code σ υ2 := pre.trans (Steps.cons s2 (Steps.one s3))
    generalize AoR.Ref.evalIdx s.env s.arrs rest = rr at hrest ⊢
    cases rr with
    | err c p => exact ErrsWith.of_steps pre2 hrest
    | inexact => trivial
    | illFormed => trivial
    | ok is =>
      obtain ⟨ω, st4, hp4, ha4, hrel4, hpaths4, hvals4, hregs4, hctx4, htr4, hsk4⟩ := hrest
      refine ⟨ω, pre2.trans st4, ?_, ?_, hrel4, ?_, ?_, ?_, ?_, ?_, ?_⟩
      · rw [hp4]
        simp only [υ2, υ1, Vm.advance, Vm.setRA, hp2, compileIdx, List.length_append, List.length_singleton,
          List.length_cons, List.length_nil, idx_len_cast]
        omega
      · rw [ha4]; rfl
      · rw [hpaths4]; simp [List.append_assoc]
      · rw [hvals4]; rfl
      · rw [hregs4]; exact hregs2
      · rw [hctx4]; exact hctx2
      · rw [htr4]; exact htr2
      · intro hk; exact hsk4 (hsk2 hk)
  have he := hE (off + 1) s σ1 hce (by simp [σ1, Vm.advance, hpc]) hr1 hwe
  simp only [AoR.Ref.evalIdx]
  generalize AoR.Ref.eval s.env s.arrs e = r at he ⊢
  cases r with
  | err c p => exact ErrsWith.of_steps (Steps.one s1) he
  | inexact => trivial
  | illFormed => trivial
  | ok v =>
    obtain ⟨τ, st, hp, ha, hrel, hss⟩ := he
    have pre : Steps code σ τ := (Steps.one s1).trans st
    cases v with
    | udt fs => simp only [RecL.Ref.ERes.bind, RecL.Ref.asScalar, IdxPost]
    | sc a =>
      simp only [ValRel, RecL.Spec.ValRel] at ha
      simp only [RecL.Ref.ERes.bind, RecL.Ref.asScalar]
      have hpathsτ : τ.paths = pth :: prest := by rw [hss.paths]; exact hpaths
      have hvalsτ : τ.vals = σ.regs.a :: σ.vals := by rw [hss.vals]; rfl
      by_cases hqi : q = .int
      · -- the subscript is an INTEGER expression: no conversion
        subst hqi
        have hs : storeCast (AoR.Ref.idxTy e.ty) .int a = .ok a := by
          rw [hq]; simp only [AoR.Ref.idxTy, storeCast, if_true]
        rw [hs]
        cases a with
        | int i =>
          simp only [AoR.Ref.toIndex, RecL.Ref.ERes.bind]
          exact cont τ i pre (by rw [hp, hq]; simp) ha hrel hpathsτ hvalsτ hss.regStack hss.ctx hss.trace hss.skip
        | long _ => simp only [AoR.Ref.toIndex, RecL.Ref.ERes.bind, IdxPost]
        | sgl _ => simp only [AoR.Ref.toIndex, RecL.Ref.ERes.bind, IdxPost]
        | dbl _ => simp only [AoR.Ref.toIndex, RecL.Ref.ERes.bind, IdxPost]
        | str _ => simp only [AoR.Ref.toIndex, RecL.Ref.ERes.bind, IdxPost]
      · -- Cast %
        have hne : ¬ (e.ty = ETy.sc .int) := by
          rw [hq]; intro h; injection h with h; exact hqi h
        have hs : storeCast (AoR.Ref.idxTy e.ty) .int a = cast a .int := by
          rw [hq]; simp only [AoR.Ref.idxTy, storeCast, hqi, if_false]
        rw [hs]
        simp only [hne, if_false] at hcc
        have h0 : code[τ.pc]? = some (CInstr.cast .int, e.pos) := by rw [hp]; exact hcc.head
        have hst : Vm.step code τ = Vm.resA τ e.pos (cast a .int) := by simp only [Vm.step, h0, onA, ha]
        cases hcst : cast a .int with
        | err er =>
          simp only [AoR.Ref.toIndex, RecL.Ref.ERes.bind, IdxPost]
          rw [← hrel.out]
          exact ErrsWith.of_steps pre (resA_err hst hcst)
        | inexact => simp only [AoR.Ref.toIndex, RecL.Ref.ERes.bind, IdxPost]
        | ok w =>
          cases w with
          | int i =>
            simp only [AoR.Ref.toIndex, RecL.Ref.ERes.bind]
            refine cont (Vm.advance (Vm.setA τ (.int i))) i (pre.trans (resA_ok hst hcst)) ?_ rfl
              (hrel.setA _).advance hpathsτ hvalsτ hss.regStack hss.ctx hss.trace hss.skip
            simp only [Vm.advance, Vm.setA, hp, hne, if_false]
          | long _ => simp only [AoR.Ref.toIndex, RecL.Ref.ERes.bind, IdxPost]
          | sgl _ => simp only [AoR.Ref.toIndex, RecL.Ref.ERes.bind, IdxPost]
          | dbl _ => simp only [AoR.Ref.toIndex, RecL.Ref.ERes.bind, IdxPost]
          | str _ => simp only [AoR.Ref.toIndex, RecL.Ref.ERes.bind, IdxPost]

/-- as many converted subscripts as subscript expressions -/
theorem idx_evalIdx_length (env : AoR.Ref.Env) (arrs : List (Option RArr)) : ∀ (idx : Exprs) (is : List Int),
    AoR.Ref.evalIdx env arrs idx = .ok is → is.length = idx.length
  | .nil, is, h => by simp only [AoR.Ref.evalIdx] at h; cases h; rfl
  | .cons e rest, is, h => by
    simp only [AoR.Ref.evalIdx] at h
    obtain ⟨v, _, h⟩ := eres_bind_ok h
    obtain ⟨a, _, h⟩ := eres_bind_ok h
    obtain ⟨i, _, h⟩ := eres_bind_ok h
    obtain ⟨js, hr, h⟩ := eres_bind_ok h
    cases h
    simp [Exprs.length, idx_evalIdx_length env arrs rest js hr]

theorem idx_evalIdx_ne_nil {env : AoR.Ref.Env} {arrs : List (Option RArr)} {idx : Exprs} {is : List Int}
    (h : AoR.Ref.evalIdx env arrs idx = .ok is) (hne : ¬ Exprs.isNilP idx) : is ≠ [] := by
  have hl := idx_evalIdx_length env arrs idx is h
  cases idx with
  | nil => exact absurd trivial hne
  | cons e rest =>
    intro hn; rw [hn] at hl; simp [Exprs.length] at hl

/-- `VarPathName a` followed by the subscripts: the path of the element is on top of the path stack -/
theorem idx_path_correct (code : Code) (sc : Scope) (a : Nat) (idx : Exprs) (p : Pos) (hI : IdxSpec code sc idx)
    (off : Nat) (s : St) (σ : Vm) (hc : CodeAt code off ([(CInstr.arrPath a, p)] ++ compileIdx idx))
    (hpc : σ.pc = off) (hr : Rel sc s σ) (hw : IdxTyped sc.types sc.slots sc.arrs idx) :
    IdxPost code sc (1 + (compileIdx idx).length) off s σ ⟨.arr a, [], []⟩ σ.paths
      (AoR.Ref.evalIdx s.env s.arrs idx) := by
  have h0 : code[σ.pc]? = some (CInstr.arrPath a, p) := by rw [hpc]; exact hc.append_left.head
  let σ1 : Vm := Vm.advance { σ with paths := ⟨.arr a, [], []⟩ :: σ.paths }
  have s1 : Vm.step code σ = .next σ1 := by simp only [Vm.step, h0]; rfl
  have hci : CodeAt code (off + 1) (compileIdx idx) := by simpa using hc.append_right
  have h := hI (off + 1) s σ1 ⟨.arr a, [], []⟩ σ.paths hci (by simp [σ1, Vm.advance, hpc])
    (hr.same rfl rfl rfl rfl rfl rfl rfl rfl) hw rfl rfl
  generalize AoR.Ref.evalIdx s.env s.arrs idx = r at h ⊢
  cases r with
  | err c q => exact ErrsWith.of_steps (Steps.one s1) h
  | inexact => trivial
  | illFormed => trivial
  | ok is =>
    obtain ⟨τ, st, hp, ha, hrel, hpaths, hvals, hregs, hctx, htr, hsk⟩ := h
    exact ⟨τ, (Steps.one s1).trans st, by rw [hp]; omega, ha, hrel, hpaths, hvals, hregs, hctx, htr, hsk⟩

/-- the state after the `VarPathProperty` instructions of `path`, the path on top of the stack being
`⟨root, is, pre⟩` -/
def idxPropsSt (σ : Vm) (root : Root) (is : List Int) (pre path : List String) (rest : List Path) : Vm :=
  { σ with pc := σ.pc + path.length, paths := ⟨root, is, pre ++ path⟩ :: rest }

/-- `VarPathProperty f1 · … · VarPathProperty fk`: the field names are appended to the path on top of the path stack;
nothing else changes -/
theorem idx_props_steps (code : Code) (root : Root) (is : List Int) (p : Pos) :
    ∀ (path pre : List String) (rest : List Path) (σ : Vm),
      CodeAt code σ.pc (compileProps path p) → σ.paths = ⟨root, is, pre⟩ :: rest →
      Steps code σ (idxPropsSt σ root is pre path rest)
  | [], pre, rest, σ, _, hp => by
    have : idxPropsSt σ root is pre [] rest = σ := by
      unfold idxPropsSt
      cases σ
      simp at hp ⊢
      exact hp.symm
    rw [this]; exact Steps.refl σ
  | f :: path, pre, rest, σ, hc, hp => by
    simp only [compileProps, List.map_cons] at hc
    have h0 : code[σ.pc]? = some (CInstr.prop f, p) := hc.head
    let σ1 : Vm := Vm.advance { σ with paths := ⟨root, is, pre ++ [f]⟩ :: rest }
    have s1 : Vm.step code σ = .next σ1 := by simp only [Vm.step, h0, hp]; rfl
    have ih := idx_props_steps code root is p path (pre ++ [f]) rest σ1 hc.tail rfl
    have e : idxPropsSt σ1 root is (pre ++ [f]) path rest = idxPropsSt σ root is pre (f :: path) rest := by
      simp only [idxPropsSt, σ1, Vm.advance, List.length_cons, List.append_assoc, List.singleton_append]
      congr 1; omega
    rw [e] at ih
    exact Steps.cons s1 ih

theorem Rel.idxPropsSt {sc : Scope} {s : St} {σ : Vm} (h : Rel sc s σ) (root : Root) (is : List Int)
    (pre path : List String) (rest : List Path) : Rel sc s (idxPropsSt σ root is pre path rest) :=
  h.same rfl rfl rfl rfl rfl rfl rfl rfl

theorem idx_len_props (path : List String) (p : Pos) : (compileProps path p).length = path.length := by
  simp [compileProps]

end RbThm.AoRSim
