import RbModel.Ty
/-!
# C12: the verdicts of the static checker are stable under consistent renaming

`lint_rename_invariant`: for an injective renaming `ρ : κ → κ'` of the resolved names (variables, arrays,
functions, subs, labels: the model has one key type for all of them) and a type assignment `ty'` of the
renamed names that agrees with the old one (`ty' (ρ k) = Γ.ty k`: a consistent renaming keeps the suffix /
the DEFtype letter), the whole model checker `RbModel.Ty.lint` — converter (`typeOf`, `convLine`,
`convUnit` with its duplicate-DIM test), the two expression walkers (`biCheck`, `fnCheck` over `nodes`), the
statement rules (`forNextLine`, `subLine`, `selectLine`, `condLine`, `dupLabelsU`, `jumpLine`) and the order of
the passes — answers the same verdict on the renamed program in the renamed environment: same accept /
reject, same `LintErr`, same row.  A `Verdict` is `Option (LintErr × Nat)` and carries no name, so "the
diagnostics are renamed" is the identity on it.

The model functions are the ones the driver request `ty.lint` runs (`RbModel/Drv/Ty.lean`: `lint Γ us` with
`Γ.ty = keyTy` on `Key = (letter × rest) × qualifier`); the renaming the harness applies to its requests
(`c12.rs`, `Id::sx`: `rest ↦ rest * 1000 + 777`, letter and qualifier unchanged) is `harnessRho` below, an
instance of the theorem (`lint_harness_rename`).

Where the hypotheses are used (every lemma below carries exactly the ones it needs):

* injectivity: `contains_map` (`isArray`: array element or function call; the duplicate tests of `convUnit`,
  `dupDims`, `dupLabels`; the label test of `jumpLine`), `lookup_map` (signatures of functions and subs),
  the comparison `NEXT n` against the counter in `forNextLine`;
* types agree: `typeOf` of a variable / call, the numeric counter of `convLine` / `forNextLine`;
* neither: the traversal (`nodes_map`), the shape of a by-reference argument up to `isArray`.

Both are necessary: `not_injective_changes_verdict` (two labels merged: accept becomes DuplicateLabel; an
array and an undefined function merged: accept becomes a TypeMismatch) and `type_change_changes_verdict`.
-/
namespace RbThm.C12Rename
open RbModel.Num RbModel.Ty Gen.NumTables Gen.TyTables

section Rename
variable {κ κ' : Type} [DecidableEq κ] [DecidableEq κ']

/-! ## Lists of keys -/

theorem contains_map {ρ : κ → κ'} (hinj : Function.Injective ρ) (l : List κ) (k : κ) :
    (l.map ρ).contains (ρ k) = l.contains k := by
  induction l with
  | nil => rfl
  | cons b bs ih => simp [hinj.eq_iff]

theorem lookup_map {ρ : κ → κ'} (hinj : Function.Injective ρ) (l : List (κ × List Ty)) (k : κ) :
    lookup (ρ k) (l.map (fun p => (ρ p.1, p.2))) = lookup k l := by
  induction l with
  | nil => rfl
  | cons b bs ih =>
    obtain ⟨k', v⟩ := b
    simp only [List.map_cons, lookup, hinj.eq_iff, ih]

omit [DecidableEq κ] [DecidableEq κ'] in
@[simp] theorem envMap_ty (ρ : κ → κ') (ty' : κ' → Ty) (Γ : Env κ) : (Env.map ρ ty' Γ).ty = ty' := rfl

theorem isArray_map {ρ : κ → κ'} (hinj : Function.Injective ρ) (ty' : κ' → Ty) (Γ : Env κ) (f : κ) :
    isArray (Env.map ρ ty' Γ) (ρ f) = isArray Γ f := by
  simp only [isArray, Env.map, contains_map hinj]

/-! ## The converter on expressions -/

mutual
theorem typeOf_map {ρ : κ → κ'} (hinj : Function.Injective ρ) {ty' : κ' → Ty} {Γ : Env κ}
    (hty : ∀ k, ty' (ρ k) = Γ.ty k) : ∀ e : Expr κ, typeOf (Env.map ρ ty' Γ) (e.map ρ) = typeOf Γ e
  | .lit v => by simp only [Expr.map, typeOf]
  | .var x => by simp only [Expr.map, typeOf, envMap_ty, hty]
  | .paren e => by simp only [Expr.map, typeOf, typeOf_map hinj hty e]
  | .un op e => by simp only [Expr.map, typeOf, typeOf_map hinj hty e]
  | .bin op l r => by simp only [Expr.map, typeOf, typeOf_map hinj hty l, typeOf_map hinj hty r]
  | .call f args => by
    simp only [Expr.map, typeOf, typesOf_map hinj hty args, isArray_map hinj, envMap_ty, hty]
  | .bi b args => by simp only [Expr.map, typeOf, typesOf_map hinj hty args]
theorem typesOf_map {ρ : κ → κ'} (hinj : Function.Injective ρ) {ty' : κ' → Ty} {Γ : Env κ}
    (hty : ∀ k, ty' (ρ k) = Γ.ty k) : ∀ es : Exprs κ, typesOf (Env.map ρ ty' Γ) (es.map ρ) = typesOf Γ es
  | .nil => by simp only [Exprs.map, typesOf]
  | .cons e es => by simp only [Exprs.map, typesOf, typeOf_map hinj hty e, typesOf_map hinj hty es]
end

/-! ## The walkers: the traversal commutes with renaming (no hypothesis on `ρ`) -/

omit [DecidableEq κ] [DecidableEq κ'] in
mutual
theorem nodes_map (ρ : κ → κ') : ∀ e : Expr κ, nodes (e.map ρ) = (nodes e).map (Expr.map ρ)
  | .lit v => by simp [Expr.map, nodes]
  | .var x => by simp [Expr.map, nodes]
  | .paren e => by simp [Expr.map, nodes, nodes_map ρ e]
  | .un op e => by simp [Expr.map, nodes, nodes_map ρ e]
  | .bin op l r => by simp [Expr.map, nodes, nodes_map ρ l, nodes_map ρ r]
  | .call f args => by simp [Expr.map, nodes, nodesL_map ρ args]
  | .bi b args => by simp [Expr.map, nodes, nodesL_map ρ args]
theorem nodesL_map (ρ : κ → κ') : ∀ es : Exprs κ, nodesL (es.map ρ) = (nodesL es).map (Expr.map ρ)
  | .nil => by simp [Exprs.map, nodesL]
  | .cons e es => by simp [Exprs.map, nodesL, nodes_map ρ e, nodesL_map ρ es]
end

theorem firstSome_map {α β γ : Type} (f : β → Option γ) (g : α → β) (l : List α) :
    firstSome f (l.map g) = firstSome (fun a => f (g a)) l := by
  induction l with
  | nil => rfl
  | cons a as ih => simp only [List.map_cons, firstSome, ih]

omit [DecidableEq κ] [DecidableEq κ'] in
/-- A walker whose node check commutes with the renaming commutes with it. -/
theorem walk_map (ρ : κ → κ') {chk : Expr κ → Option LintErr} {chk' : Expr κ' → Option LintErr}
    (h : ∀ e, chk' (e.map ρ) = chk e) (e : Expr κ) : walk chk' (e.map ρ) = walk chk e := by
  simp only [walk, nodes_map, firstSome_map, h]

omit [DecidableEq κ] [DecidableEq κ'] in
theorem walkL_map (ρ : κ → κ') {chk : Expr κ → Option LintErr} {chk' : Expr κ' → Option LintErr}
    (h : ∀ e, chk' (e.map ρ) = chk e) (es : Exprs κ) : walkL chk' (es.map ρ) = walkL chk es := by
  simp only [walkL, nodesL_map, firstSome_map, h]

omit [DecidableEq κ] [DecidableEq κ'] in
theorem length_map (ρ : κ → κ') : ∀ es : Exprs κ, (es.map ρ).length = es.length
  | .nil => rfl
  | .cons _ es => by simp only [Exprs.map, Exprs.length, length_map ρ es]

theorem isRef_map {ρ : κ → κ'} (hinj : Function.Injective ρ) (ty' : κ' → Ty) (Γ : Env κ) (e : Expr κ) :
    isRef (Env.map ρ ty' Γ) (e.map ρ) = isRef Γ e := by
  cases e <;> simp only [Expr.map, isRef, isArray_map hinj]

theorem firstIsRef_map {ρ : κ → κ'} (hinj : Function.Injective ρ) (ty' : κ' → Ty) (Γ : Env κ) (es : Exprs κ) :
    firstIsRef (Env.map ρ ty' Γ) (es.map ρ) = firstIsRef Γ es := by
  cases es <;> simp only [Exprs.map, firstIsRef, isRef_map hinj]

/-- `BuiltInLinter::visit_expression` at one node. -/
theorem biCheck_map {ρ : κ → κ'} (hinj : Function.Injective ρ) {ty' : κ' → Ty} {Γ : Env κ}
    (hty : ∀ k, ty' (ρ k) = Γ.ty k) (e : Expr κ) : biCheck (Env.map ρ ty' Γ) (e.map ρ) = biCheck Γ e := by
  cases e <;> simp only [Expr.map, biCheck, typesOf_map hinj hty, firstIsRef_map hinj]

theorem argOk_map {ρ : κ → κ'} (hinj : Function.Injective ρ) {ty' : κ' → Ty} {Γ : Env κ}
    (hty : ∀ k, ty' (ρ k) = Γ.ty k) (e : Expr κ) (p : Ty) :
    argOk (Env.map ρ ty' Γ) (e.map ρ) p = argOk Γ e p := by
  simp only [argOk, typeOf_map hinj hty, isRef_map hinj]

theorem argsOk_map {ρ : κ → κ'} (hinj : Function.Injective ρ) {ty' : κ' → Ty} {Γ : Env κ}
    (hty : ∀ k, ty' (ρ k) = Γ.ty k) : ∀ (es : Exprs κ) (ps : List Ty),
    argsOk (Env.map ρ ty' Γ) (es.map ρ) ps = argsOk Γ es ps
  | .nil, [] => by simp only [Exprs.map, argsOk]
  | .nil, _ :: _ => by simp only [Exprs.map, argsOk]
  | .cons _ _, [] => by simp only [Exprs.map, argsOk]
  | .cons e es, p :: ps => by simp only [Exprs.map, argsOk, argOk_map hinj hty, argsOk_map hinj hty es ps]

/-- `lint_call_args`. -/
theorem callArgsCheck_map {ρ : κ → κ'} (hinj : Function.Injective ρ) {ty' : κ' → Ty} {Γ : Env κ}
    (hty : ∀ k, ty' (ρ k) = Γ.ty k) (es : Exprs κ) (ps : List Ty) :
    callArgsCheck (Env.map ρ ty' Γ) (es.map ρ) ps = callArgsCheck Γ es ps := by
  simp only [callArgsCheck, length_map, argsOk_map hinj hty]

theorem allNumeric_map {ρ : κ → κ'} (hinj : Function.Injective ρ) {ty' : κ' → Ty} {Γ : Env κ}
    (hty : ∀ k, ty' (ρ k) = Γ.ty k) : ∀ es : Exprs κ,
    allNumeric (Env.map ρ ty' Γ) (es.map ρ) = allNumeric Γ es
  | .nil => by simp only [Exprs.map, allNumeric]
  | .cons e es => by simp only [Exprs.map, allNumeric, typeOf_map hinj hty, allNumeric_map hinj hty es]

omit [DecidableEq κ] [DecidableEq κ'] in
theorem envMap_fns (ρ : κ → κ') (ty' : κ' → Ty) (Γ : Env κ) :
    (Env.map ρ ty' Γ).fns = Γ.fns.map (fun p => (ρ p.1, p.2)) := rfl
omit [DecidableEq κ] [DecidableEq κ'] in
theorem envMap_subs (ρ : κ → κ') (ty' : κ' → Ty) (Γ : Env κ) :
    (Env.map ρ ty' Γ).subs = Γ.subs.map (fun p => (ρ p.1, p.2)) := rfl

/-- `UserDefinedFunctionLinter::visit_expression` at one node. -/
theorem fnCheck_map {ρ : κ → κ'} (hinj : Function.Injective ρ) {ty' : κ' → Ty} {Γ : Env κ}
    (hty : ∀ k, ty' (ρ k) = Γ.ty k) (e : Expr κ) : fnCheck (Env.map ρ ty' Γ) (e.map ρ) = fnCheck Γ e := by
  cases e <;>
    simp only [Expr.map, fnCheck, isArray_map hinj, envMap_fns, lookup_map hinj, callArgsCheck_map hinj hty,
      allNumeric_map hinj hty]

/-! ## Lines -/

/-- The converter on one line. -/
theorem convLine_map {ρ : κ → κ'} (hinj : Function.Injective ρ) {ty' : κ' → Ty} {Γ : Env κ}
    (hty : ∀ k, ty' (ρ k) = Γ.ty k) (l : Line κ) : convLine (Env.map ρ ty' Γ) (l.map ρ) = convLine Γ l := by
  cases l <;>
    simp only [Line.map, convLine, allTyped, typeOf_map hinj hty, typesOf_map hinj hty, envMap_ty, hty]

/-- `ForNextCounterMatch`: `NEXT n` is compared with the counter — injectivity. -/
theorem forNextLine_map {ρ : κ → κ'} (hinj : Function.Injective ρ) {ty' : κ' → Ty} {Γ : Env κ}
    (hty : ∀ k, ty' (ρ k) = Γ.ty k) (l : Line κ) :
    forNextLine (Env.map ρ ty' Γ) (l.map ρ) = forNextLine Γ l := by
  cases l with
  | forHead row v bounds nextRow next =>
    cases next <;> simp only [Line.map, forNextLine, envMap_ty, hty, Option.map, hinj.eq_iff]
  | _ => simp only [Line.map, forNextLine]

omit [DecidableEq κ] [DecidableEq κ'] in
/-- A walker over the expressions of one line. -/
theorem walkLine_map (ρ : κ → κ') {chk : Expr κ → Option LintErr} {chk' : Expr κ' → Option LintErr}
    (h : ∀ e, chk' (e.map ρ) = chk e) (l : Line κ) : walkLine chk' (l.map ρ) = walkLine chk l := by
  cases l with
  | assign row lhs rhs =>
    cases lhs <;> simp only [Line.map, Expr.map, walkLine, walk_map ρ h, walkL_map ρ h]
  | _ => simp only [Line.map, walkLine, walk_map ρ h, walkL_map ρ h]

/-- `UserDefinedSubLinter::visit_sub_call`. -/
theorem subLine_map {ρ : κ → κ'} (hinj : Function.Injective ρ) {ty' : κ' → Ty} {Γ : Env κ}
    (hty : ∀ k, ty' (ρ k) = Γ.ty k) (l : Line κ) : subLine (Env.map ρ ty' Γ) (l.map ρ) = subLine Γ l := by
  cases l <;> simp only [Line.map, subLine, envMap_subs, lookup_map hinj, callArgsCheck_map hinj hty]

theorem castableAll_map {ρ : κ → κ'} (hinj : Function.Injective ρ) {ty' : κ' → Ty} {Γ : Env κ}
    (hty : ∀ k, ty' (ρ k) = Γ.ty k) (sel : Ty) : ∀ es : Exprs κ,
    castableAll (Env.map ρ ty' Γ) sel (es.map ρ) = castableAll Γ sel es
  | .nil => by simp only [Exprs.map, castableAll]
  | .cons e es => by simp only [Exprs.map, castableAll, typeOf_map hinj hty, castableAll_map hinj hty sel es]

/-- `SelectCaseLinter::visit_case_expression`. -/
theorem selectLine_map {ρ : κ → κ'} (hinj : Function.Injective ρ) {ty' : κ' → Ty} {Γ : Env κ}
    (hty : ∀ k, ty' (ρ k) = Γ.ty k) (l : Line κ) :
    selectLine (Env.map ρ ty' Γ) (l.map ρ) = selectLine Γ l := by
  cases l <;> simp only [Line.map, selectLine, typeOf_map hinj hty, castableAll_map hinj hty]

/-- `ConditionTypeLinter`. -/
theorem condLine_map {ρ : κ → κ'} (hinj : Function.Injective ρ) {ty' : κ' → Ty} {Γ : Env κ}
    (hty : ∀ k, ty' (ρ k) = Γ.ty k) (l : Line κ) : condLine (Env.map ρ ty' Γ) (l.map ρ) = condLine Γ l := by
  cases l <;> simp only [Line.map, condLine, typeOf_map hinj hty]

/-- `LabelLinter`: the target is looked up among the labels of the unit — injectivity. -/
theorem jumpLine_map {ρ : κ → κ'} (hinj : Function.Injective ρ) (labels : List κ) (l : Line κ) :
    jumpLine (labels.map ρ) (l.map ρ) = jumpLine labels l := by
  cases l <;> simp only [Line.map, jumpLine, contains_map hinj]

omit [DecidableEq κ] [DecidableEq κ'] in
theorem labelsOf_map (ρ : κ → κ') : ∀ ls : List (Line κ), labelsOf (ls.map (Line.map ρ)) = (labelsOf ls).map ρ
  | [] => rfl
  | l :: rest => by
    cases l <;> simp only [List.map_cons, Line.map, labelsOf, labelsOf_map ρ rest]

/-! ## Units and passes -/

theorem firstV_map {α β : Type} {f : α → Verdict} {f' : β → Verdict} (g : α → β) (h : ∀ a, f' (g a) = f a)
    (l : List α) : firstV f' (l.map g) = firstV f l := by
  induction l with
  | nil => rfl
  | cons a as ih => simp only [List.map_cons, firstV, h, ih]

omit [DecidableEq κ] [DecidableEq κ'] in
theorem pass_map (ρ : κ → κ') {f : Line κ → Verdict} {f' : Line κ' → Verdict} (h : ∀ l, f' (l.map ρ) = f l)
    (us : List (Part κ)) : pass f' (us.map (Part.map ρ)) = pass f us := by
  unfold pass
  apply firstV_map
  intro u
  exact firstV_map (Line.map ρ) h u.lines

/-- The converter over one unit, with the duplicate-`DIM` test — injectivity (`seen.contains`). -/
theorem convUnit_map {ρ : κ → κ'} (hinj : Function.Injective ρ) {ty' : κ' → Ty} {Γ : Env κ}
    (hty : ∀ k, ty' (ρ k) = Γ.ty k) : ∀ (ls : List (Line κ)) (seen : List κ),
    convUnit (Env.map ρ ty' Γ) (seen.map ρ) (ls.map (Line.map ρ)) = convUnit Γ seen ls
  | [], _ => rfl
  | l :: rest, seen => by
    have hl := convLine_map hinj hty l
    have ih := convUnit_map hinj hty rest
    cases l with
    | dim row a bounds =>
      have ih' := ih (a :: seen)
      simp only [List.map_cons] at ih'
      simp only [Line.map] at hl
      simp only [List.map_cons, Line.map, convUnit, contains_map hinj, hl, ih']
    | _ =>
      simp only [Line.map] at hl
      simp only [List.map_cons, Line.map, convUnit, hl, ih seen]

/-- The stand-alone duplicate-`DIM` pass (not used by `lint`, which runs it inside `convUnit`). -/
theorem dupDims_map {ρ : κ → κ'} (hinj : Function.Injective ρ) : ∀ (ls : List (Line κ)) (seen : List κ),
    dupDims (seen.map ρ) (ls.map (Line.map ρ)) = dupDims seen ls
  | [], _ => rfl
  | l :: rest, seen => by
    have ih := dupDims_map hinj rest
    cases l with
    | dim row a bounds =>
      have ih' := ih (a :: seen)
      simp only [List.map_cons] at ih'
      simp only [List.map_cons, Line.map, dupDims, contains_map hinj, ih']
    | _ => simp only [List.map_cons, Line.map, dupDims, ih seen]

/-- `LabelCollector` on one unit: same verdict, the set of seen labels renamed — injectivity. -/
theorem dupLabels_map {ρ : κ → κ'} (hinj : Function.Injective ρ) : ∀ (ls : List (Line κ)) (seen : List κ),
    dupLabels (seen.map ρ) (ls.map (Line.map ρ)) = ((dupLabels seen ls).1, (dupLabels seen ls).2.map ρ)
  | [], _ => rfl
  | l :: rest, seen => by
    have ih := dupLabels_map hinj rest
    cases l with
    | label row l =>
      have ih' := ih (l :: seen)
      simp only [List.map_cons] at ih'
      simp only [List.map_cons, Line.map, dupLabels, contains_map hinj]
      split
      · rfl
      · exact ih'
    | _ => simp only [List.map_cons, Line.map, dupLabels, ih seen]

theorem dupLabelsU_map {ρ : κ → κ'} (hinj : Function.Injective ρ) : ∀ (us : List (Part κ)) (seen : List κ),
    dupLabelsU (seen.map ρ) (us.map (Part.map ρ)) = dupLabelsU seen us
  | [], _ => rfl
  | u :: us, seen => by
    have h := dupLabels_map hinj u.lines seen
    simp only [List.map_cons, Part.map, dupLabelsU, h]
    cases hd : dupLabels seen u.lines with
    | mk v seen' =>
      cases v with
      | some e => rfl
      | none => exact dupLabelsU_map hinj us seen'

/-! ## The whole checker -/

/-- **lint_rename_invariant.** The verdict of the model checker (accept, or the error variant and its row)
does not change under an injective, type-preserving renaming of the names. -/
theorem lint_rename_invariant {ρ : κ → κ'} (hinj : Function.Injective ρ) {ty' : κ' → Ty} {Γ : Env κ}
    (hty : ∀ k, ty' (ρ k) = Γ.ty k) (us : List (Part κ)) :
    lint (Env.map ρ ty' Γ) (us.map (Part.map ρ)) = lint Γ us := by
  have h1 : firstV (fun u => convUnit (Env.map ρ ty' Γ) [] u.lines) (us.map (Part.map ρ))
      = firstV (fun u => convUnit Γ [] u.lines) us :=
    firstV_map (Part.map ρ) (fun u => convUnit_map hinj hty u.lines []) us
  have h9 : firstV (fun u => firstV (jumpLine (labelsOf u.lines)) u.lines) (us.map (Part.map ρ))
      = firstV (fun u => firstV (jumpLine (labelsOf u.lines)) u.lines) us := by
    apply firstV_map (Part.map ρ)
    intro u
    simp only [Part.map, labelsOf_map]
    exact firstV_map (Line.map ρ) (jumpLine_map hinj _) u.lines
  have h8 := dupLabelsU_map hinj us []
  simp only [List.map_nil] at h8
  unfold lint
  rw [h1, h9, h8,
    pass_map ρ (forNextLine_map hinj hty), pass_map ρ (walkLine_map ρ (biCheck_map hinj hty)),
    pass_map ρ (walkLine_map ρ (fnCheck_map hinj hty)), pass_map ρ (subLine_map hinj hty),
    pass_map ρ (selectLine_map hinj hty), pass_map ρ (condLine_map hinj hty)]

/-- The expression request `ty.type` of the driver: the static type is stable as well. -/
theorem type_rename_invariant {ρ : κ → κ'} (hinj : Function.Injective ρ) {ty' : κ' → Ty} {Γ : Env κ}
    (hty : ∀ k, ty' (ρ k) = Γ.ty k) (e : Expr κ) : typeOf (Env.map ρ ty' Γ) (e.map ρ) = typeOf Γ e :=
  typeOf_map hinj hty e

end Rename

/-! ## The renaming of the harness is an instance -/

/-- The renaming `c12.rs` applies to the identifiers of its `ty.lint` requests (`Id::sx` with `ren = true`):
the rest of the bare name becomes another number, first letter and qualifier are kept. -/
def harnessRho (k : Key) : Key := ((k.1.1, k.1.2 * 1000 + 777), k.2)

def renIdent (x : Ident) : Ident := ⟨x.letter, x.rest * 1000 + 777, x.sfx⟩

/-- Resolving the renamed identifier (what the driver does with the renamed request) is renaming the resolved key. -/
theorem resolve_renIdent (deft : Nat → Ty) (x : Ident) : resolve deft (renIdent x) = harnessRho (resolve deft x) := rfl

theorem harnessRho_injective : Function.Injective harnessRho := by
  intro a b h
  obtain ⟨⟨a1, a2⟩, a3⟩ := a
  obtain ⟨⟨b1, b2⟩, b3⟩ := b
  simp only [harnessRho, Prod.mk.injEq] at h
  obtain ⟨⟨h1, h2⟩, h3⟩ := h
  have : a2 = b2 := by omega
  subst h1 h3 this; rfl

/-- The driver's environment has `ty = keyTy` (the qualifier of the key), which `harnessRho` keeps. -/
theorem lint_harness_rename (Γ : Env Key) (hΓ : Γ.ty = keyTy) (us : List (Part Key)) :
    lint (Env.map harnessRho keyTy Γ) (us.map (Part.map harnessRho)) = lint Γ us :=
  lint_rename_invariant harnessRho_injective (fun k => by rw [hΓ]; rfl) us

/-! ## Non-vacuity, and necessity of the two hypotheses -/

section Examples

/-- a non-trivial renaming of `Nat` keys -/
def rho (n : Nat) : Nat := 3 * n + 7

theorem rho_injective : Function.Injective rho := by
  intro a b h; simp only [rho] at h; omega

/-- key 1 is a string variable, 9 a string function, everything else INTEGER -/
def Γ0 : Env Nat :=
  { ty := fun k => if k = 1 ∨ k = 9 then .str else .int,
    arrays := [0], fns := [(6, [.int]), (9, [.str])], subs := [(8, [.int, .str])] }

def ty0' (n : Nat) : Ty := if n = 10 ∨ n = 34 then .str else .int

theorem ty0_agrees : ∀ k, ty0' (rho k) = Γ0.ty k := by
  intro k
  have h1 : (rho k = 10) = (k = 1) := by simp only [rho, eq_iff_iff]; omega
  have h2 : (rho k = 34) = (k = 9) := by simp only [rho, eq_iff_iff]; omega
  simp only [ty0', Γ0, h1, h2]

/-- ```
DIM A(5)            ' 0 = A, 4 = I, 1 = S$, 2 = label L, 6 = F, 8 = sub P, 9 = G$
L:
FOR I = 1 TO A(2) : NEXT I
S$ = UCASE$(G$(S$)) + "x"
IF F(I) < LEN(S$) THEN : P I, S$ : END IF
GOTO L
``` -/
def accepted0 : List (Part Nat) :=
  [⟨[.dim 1 0 (.cons (.lit (.int 5)) .nil),
     .label 2 2,
     .forHead 3 4 (.cons (.lit (.int 1)) (.cons (.call 0 (.cons (.lit (.int 2)) .nil)) .nil)) 3 (some 4),
     .assign 4 (.var 1) (.bin .plus (.bi .ucase (.cons (.call 9 (.cons (.var 1) .nil)) .nil)) (.lit (.str ['x']))),
     .cond 5 (.bin .less (.call 6 (.cons (.var 4) .nil)) (.bi .len (.cons (.var 1) .nil))),
     .callSub 5 8 (.cons (.var 4) (.cons (.var 1) .nil)),
     .condEnd 5 (.bin .less (.call 6 (.cons (.var 4) .nil)) (.bi .len (.cons (.var 1) .nil))),
     .jump 6 2]⟩]

/-- the same program with `GOTO M` (key 3, no such label) in row 6 and a second unit -/
def rejected0 : List (Part Nat) :=
  [⟨[.dim 1 0 (.cons (.lit (.int 5)) .nil), .label 2 2, .jump 6 3]⟩, ⟨[.label 8 3]⟩]

/-- The hypotheses of `lint_rename_invariant` hold of a renaming that moves every key, and of an accepted
program that uses every kind of name; the conclusion (by the theorem) and the direct evaluation of the renamed
program agree. -/
example :
    Function.Injective rho ∧ (∀ k, ty0' (rho k) = Γ0.ty k) ∧ (∀ k, rho k ≠ k) ∧
    lint Γ0 accepted0 = none ∧
    lint (Env.map rho ty0' Γ0) (accepted0.map (Part.map rho)) = none := by
  refine ⟨rho_injective, ty0_agrees, fun k => by simp only [rho]; omega, by decide +kernel, ?_⟩
  rw [lint_rename_invariant rho_injective ty0_agrees]; decide +kernel

example : lint (Env.map rho ty0' Γ0) (accepted0.map (Part.map rho)) = none := by decide +kernel

/-- … and of a rejected one: same error, same row. -/
example :
    lint Γ0 rejected0 = some (.labelNotDefined, 6) ∧
    lint (Env.map rho ty0' Γ0) (rejected0.map (Part.map rho)) = some (.labelNotDefined, 6) := by
  refine ⟨by decide +kernel, ?_⟩
  rw [lint_rename_invariant rho_injective ty0_agrees]; decide +kernel

example : lint (Env.map rho ty0' Γ0) (rejected0.map (Part.map rho)) = some (.labelNotDefined, 6) := by
  decide +kernel

/-- the harness renaming on a program over `Key` -/
example :
    let Γ : Env Key := ⟨keyTy, [], [], []⟩
    let us : List (Part Key) := [⟨[.assign 1 (.var ((0, 5), .int)) (.lit (.str []))]⟩]
    lint Γ us = some (.typeMismatch, 1) ∧
    lint (Env.map harnessRho keyTy Γ) (us.map (Part.map harnessRho)) = some (.typeMismatch, 1) := by
  intro Γ us
  refine ⟨by decide +kernel, ?_⟩
  rw [lint_harness_rename Γ rfl]; decide +kernel

/-- **Injectivity is necessary.** (1) Two labels merged by a constant renaming: an accepted program becomes
DuplicateLabel. (2) An array and a user defined function merged: the accepted call `G$("a")` becomes an array
element with a string index, TypeMismatch. Types agree in both. -/
theorem not_injective_changes_verdict :
    (let ρ : Nat → Nat := fun _ => 0
     let Γ : Env Nat := ⟨fun _ => .int, [], [], []⟩
     let us : List (Part Nat) := [⟨[.label 1 1, .label 2 2]⟩]
     (∀ k, (fun _ => Ty.int) (ρ k) = Γ.ty k) ∧ lint Γ us = none ∧
       lint (Env.map ρ (fun _ => .int) Γ) (us.map (Part.map ρ)) = some (.duplicateLabel, 2)) ∧
    (let ρ : Nat → Nat := fun _ => 0
     let Γ : Env Nat := ⟨fun _ => .str, [0], [(1, [.str])], []⟩
     let us : List (Part Nat) := [⟨[.print 1 (.cons (.call 1 (.cons (.lit (.str ['a'])) .nil)) .nil)]⟩]
     (∀ k, (fun _ => Ty.str) (ρ k) = Γ.ty k) ∧ lint Γ us = none ∧
       lint (Env.map ρ (fun _ => .str) Γ) (us.map (Part.map ρ)) = some (.typeMismatch, 1)) := by
  refine ⟨⟨fun _ => rfl, ?_, ?_⟩, ⟨fun _ => rfl, ?_, ?_⟩⟩ <;> decide +kernel

/-- **Agreement of the types is necessary.** The identity renaming with another type for the renamed name:
`X$ = "a"` is accepted, with `X` an INTEGER it is a TypeMismatch. -/
theorem type_change_changes_verdict :
    let Γ : Env Nat := ⟨fun _ => .str, [], [], []⟩
    let us : List (Part Nat) := [⟨[.assign 1 (.var 0) (.lit (.str ['a']))]⟩]
    Function.Injective (id : Nat → Nat) ∧ lint Γ us = none ∧
      lint (Env.map id (fun _ => .int) Γ) (us.map (Part.map id)) = some (.typeMismatch, 1) := by
  refine ⟨fun _ _ h => h, ?_, ?_⟩ <;> decide +kernel

end Examples

end RbThm.C12Rename
