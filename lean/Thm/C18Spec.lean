import Thm.C18Hist
/-!
C18, part 3 — a small abstract specification of one text file ("a file is the list of its lines") and a
refinement theorem: programs built from rewrite / append / read-everything, compiled to histories of the
model, show exactly the observations of the abstract machine, for every sequence of abstract operations.
-/
namespace RbThm.C18
open RbModel.Files

/-! ## Helpers: reading never changes the store -/

theorem doScan_fs (s : State) (h : Nat) (sc : List Nat → Scan) : (doScan s h sc).1.fs = s.fs := by
  unfold doScan
  split
  · rfl
  · split <;> rfl

theorem doRead_fs (s : State) (h v : Nat) (sc : List Nat → Scan) : (doRead s h sc v).1.fs = s.fs := by
  unfold doRead
  split
  · rfl
  · have := doScan_fs s h sc
    split <;> rename_i heq <;> rw [heq] at this <;> exact this

theorem doEof_fs (s : State) (h : Nat) : (doEof s h).1.fs = s.fs := by
  unfold doEof
  split
  · rfl
  · have := doScan_fs s h scanEof
    split <;> rename_i heq <;> rw [heq] at this <;> exact this

theorem run_fs (ops : List Op) (hops : ∀ op ∈ ops, ∀ s, (step s op).1.fs = s.fs) (s : State) :
    (run s ops).1.fs = s.fs := by
  induction ops generalizing s with
  | nil => rfl
  | cons op rest ih =>
    simp only [run]
    rw [ih (fun o ho => hops o (by simp [ho])), hops op (by simp)]

/-- `write_phase` with the inode still in range afterwards (so that the file can be written again). -/
theorem write_phase_wf (s : State) (h k : Nat) (app : Bool) (hv : validHandle h = true)
    (hc : alGet s.handles h = none) (hnd : alGet s.fs.dir k ≠ some .dir)
    (hwf : ∀ j, alGet s.fs.dir k = some (.file j) → j < s.fs.inodes.length)
    (prints : List (List (List Nat) × Bool)) :
    ∃ i, alGet (run s (writeOps h k app prints)).1.fs.dir k = some (.file i) ∧
      i < (run s (writeOps h k app prints)).1.fs.inodes.length := by
  obtain ⟨i, _, ho2, ho3, _⟩ := open_write_at s h k app hv hc hnd hwf
  have hp := prints_at h i hv prints _ ho2
  have hcl := close_one_closes
    (run (step s (.open h (.plain k) (if app then .append else .output) 0)).1
      (prints.map fun p => Op.print h p.1 p.2)).1 h hv
  refine ⟨i, ?_, ?_⟩
  · unfold writeOps
    rw [run_append, run_append]
    simp only [run]
    rw [hcl.2.2.1, hp.2.2.2, ho3]
  · unfold writeOps
    rw [run_append, run_append]
    simp only [run]
    rw [hcl.2.2.1]
    exact hp.2.1.1

/-! ## The abstract machine -/

/-- Abstract operations on one text file whose state is the list of its lines. -/
inductive AOp where
  | rewrite (lines : List (List Nat))
  | append (lines : List (List Nat))
  | readAll

def wroteOk (ls : List (List Nat)) : List Out := [.ok] ++ ls.map (fun _ => Out.ok) ++ [.ok]

/-- Abstract step: new contents and what the program observes. -/
def astep (a : List (List Nat)) : AOp → List (List Nat) × List Out
  | .rewrite ls => (ls, wroteOk ls)
  | .append ls => (a ++ ls, wroteOk ls)
  | .readAll => (a, [.ok] ++ (a.flatMap fun l => [.flag false, .val l])
      ++ [.flag true, .err .inputPastEnd, .flag true] ++ [.ok])

def arun (a : List (List Nat)) : List AOp → List (List Nat) × List Out
  | [] => (a, [])
  | op :: ops => ((arun (astep a op).1 ops).1, (astep a op).2 ++ (arun (astep a op).1 ops).2)

/-- The history that implements an abstract operation on file `k` through handle `h` (the read loop is
unrolled for the current number of lines: `WHILE NOT EOF(h)` is not part of the model). -/
def compile (h k v : Nat) (a : List (List Nat)) : AOp → List Op
  | .rewrite ls => writeOps h k false (ls.map fun l => ([l], true))
  | .append ls => writeOps h k true (ls.map fun l => ([l], true))
  | .readAll => ([.open h (.plain k) .input 0] ++ (a.flatMap fun _ => [.eof h, .lineInput h v])
      ++ [.eof h, .lineInput h v, .eof h]) ++ [.close [h]]

def compileAll (h k v : Nat) : List (List Nat) → List AOp → List Op
  | _, [] => []
  | a, op :: ops => compile h k v a op ++ compileAll h k v (astep a op).1 ops

def linesOf : AOp → List (List Nat)
  | .rewrite ls => ls
  | .append ls => ls
  | .readAll => []

/-- The model state implements the abstract file `a`: handle `h` is free and `k` names a file holding the
lines of `a`, each followed by CR LF. -/
def Implements (s : State) (h k : Nat) (a : List (List Nat)) : Prop :=
  alGet s.handles h = none ∧ ∃ i, alGet s.fs.dir k = some (.file i) ∧ i < s.fs.inodes.length ∧
    s.fs.data i = encodeLines a

/-- One abstract operation is implemented by its compiled history: same observations, and the resulting
model state implements the resulting abstract file. -/
theorem refines_step (s : State) (h k v : Nat) (a : List (List Nat)) (op : AOp) (hv : validHandle h = true)
    (hi : Implements s h k a) (ha : ∀ l ∈ a, NoCrLf l) (hl : ∀ l ∈ linesOf op, NoCrLf l) :
    (run s (compile h k v a op)).2 = (astep a op).2 ∧
      Implements (run s (compile h k v a op)).1 h k (astep a op).1 := by
  obtain ⟨hc, i, hd, hlt, hdata⟩ := hi
  have hnd : alGet s.fs.dir k ≠ some .dir := by rw [hd]; simp
  have hwf : ∀ j, alGet s.fs.dir k = some (.file j) → j < s.fs.inodes.length := by
    intro j hj; rw [hd] at hj; simp only [Option.some.injEq, Node.file.injEq] at hj; subst hj; exact hlt
  have hold : oldContent s k = encodeLines a := by simp [oldContent, hd, hdata]
  cases op with
  | rewrite ls =>
    obtain ⟨h1, h2, j, h3, h4⟩ := write_phase s h k false hv hc hnd hwf (ls.map fun l => ([l], true))
    obtain ⟨j', h5, h6⟩ := write_phase_wf s h k false hv hc hnd hwf (ls.map fun l => ([l], true))
    rw [h3] at h5
    simp only [Option.some.injEq, Node.file.injEq] at h5
    subst h5
    rw [printBytes_lines ls hl] at h4
    refine ⟨by simpa [compile, astep, wroteOk, Function.comp_def] using h1, h2, j, h3, h6, ?_⟩
    simpa [compile, astep] using h4
  | append ls =>
    obtain ⟨h1, h2, j, h3, h4⟩ := write_phase s h k true hv hc hnd hwf (ls.map fun l => ([l], true))
    obtain ⟨j', h5, h6⟩ := write_phase_wf s h k true hv hc hnd hwf (ls.map fun l => ([l], true))
    rw [h3] at h5
    simp only [Option.some.injEq, Node.file.injEq] at h5
    subst h5
    rw [printBytes_lines ls hl] at h4
    refine ⟨by simpa [compile, astep, wroteOk, Function.comp_def] using h1, h2, j, h3, h6, ?_⟩
    simp only [compile, astep, ↓reduceIte, hold] at h4 ⊢
    rw [h4, encodeLines_append]
  | readAll =>
    have hch := chain_lines a ha []
    rw [List.append_nil, ← hdata] at hch
    have hr := read_back_chain scanLine scanLine_looked (by simp [scanLine]) (by simp [scanLine]) Op.lineInput
      (fun _ _ _ => rfl) s h k i v a hv hc hd hch
    have hfs : (run s ([.open h (.plain k) .input 0] ++ (a.flatMap fun _ => [.eof h, .lineInput h v])
        ++ [.eof h, .lineInput h v, .eof h])).1.fs = s.fs := by
      rw [List.append_assoc, run_append]
      simp only [run]
      rw [run_fs _ ?_ _]
      · exact (open_input_at s h k i 0 hv hc hd).2.2.1
      · intro o ho s'
        simp only [List.mem_append, List.mem_flatMap, List.mem_cons, List.mem_nil_iff, or_false] at ho
        rcases ho with ⟨_, _, rfl | rfl⟩ | rfl | rfl | rfl
        · exact doEof_fs s' h
        · exact doRead_fs s' h v scanLine
        · exact doEof_fs s' h
        · exact doRead_fs s' h v scanLine
        · exact doEof_fs s' h
    simp only [compile, astep]
    rw [run_append]
    have hcl := close_one_closes (run s ([.open h (.plain k) .input 0]
      ++ (a.flatMap fun _ => [.eof h, .lineInput h v]) ++ [.eof h, .lineInput h v, .eof h])).1 h hv
    simp only [run]
    refine ⟨by rw [hr, hcl.1], hcl.2.1, i, ?_, ?_, ?_⟩
    · rw [hcl.2.2.1, hfs]; exact hd
    · rw [hcl.2.2.1, hfs]; exact hlt
    · rw [hcl.2.2.1, hfs]; exact hdata

/-- **Refinement**: every sequence of abstract operations on the file, compiled to a history of the model,
shows exactly the abstract observations and ends in a state that implements the abstract result. -/
theorem refines_run (h k v : Nat) (hv : validHandle h = true) (ops : List AOp)
    (hl : ∀ op ∈ ops, ∀ l ∈ linesOf op, NoCrLf l) (s : State) (a : List (List Nat))
    (hi : Implements s h k a) (ha : ∀ l ∈ a, NoCrLf l) :
    (run s (compileAll h k v a ops)).2 = (arun a ops).2 ∧
      Implements (run s (compileAll h k v a ops)).1 h k (arun a ops).1 := by
  induction ops generalizing s a with
  | nil => exact ⟨rfl, hi⟩
  | cons op rest ih =>
    have h1 := refines_step s h k v a op hv hi ha (hl op (by simp))
    have ha' : ∀ l ∈ (astep a op).1, NoCrLf l := by
      cases op with
      | rewrite ls => exact hl (.rewrite ls) (by simp)
      | append ls =>
        intro l hl'
        simp only [astep, List.mem_append] at hl'
        rcases hl' with hl' | hl'
        · exact ha l hl'
        · exact hl (.append ls) (by simp) l hl'
      | readAll => exact ha
    have h2 := ih (fun o ho => hl o (by simp [ho])) _ _ h1.2 ha'
    simp only [compileAll, arun]
    rw [run_append]
    exact ⟨by rw [h1.1, h2.1], h2.2⟩

example : Implements { emptyState with fs := { inodes := [[97, 13, 10]], dir := [(0, .file 0)] } } 1 0 [[97]] :=
  ⟨rfl, 0, rfl, by decide, rfl⟩

example : (arun [[97]] [.append [[98]], .readAll, .rewrite [[99]], .readAll]).1 = [[99]] := by decide

end RbThm.C18
