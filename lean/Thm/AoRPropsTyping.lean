import RbModel.AoR.Ref
import Thm.AoRTyping
import Thm.AoRProps
/-!
Layer AoR — the typing invariant over the reference semantics `AoR.Ref` ALONE: **"a STRING * n variable, field or ELEMENT
always holds exactly n characters (padded with spaces or truncated) however it was assigned"**.

`Good types slots al s`: the state carries the type table, every existing variable has its declared type (`EnvTyped`) and
every dimensioned array has the element type of the array table and EVERY element — stored or never touched, inside or
outside the index box — has that type (`ArrsTyped`; `HasTy`: every `STRING * n` location at any depth holds exactly `n`
characters).  `exec_preserves_typing`: one statically typed statement keeps `Good`, however it ends (normal, END, error,
out of fuel); `fixed_string_always_n_chars`: for every statically typed program, every fuel and however the run ends, the
final state is `Good`, and every `STRING * n`-typed location — `x.path`, `a(i…).path` with ANY subscripts that evaluate —
reads as a string of exactly `n` characters.  Port of the second half of `Thm/RecLProps.lean` with the two array statements
(`DIM a(…) AS T`: every element fresh, hence typed; `a(i…).path = e`: `hasTy_setPath` on the element).
-/
namespace RbThm.AoRProps
set_option linter.unusedVariables false
set_option linter.unusedSimpArgs false
open RbModel RbModel.Num RbModel.AoR
open RbModel.Ast (Pos)
open RbModel.RecL (ETy FTy FFields expand)
open RbModel.RecL.Spec (HasTy FieldsHaveTy EnvTyped TypesWf PathTyped)
open RbThm.ArrLNum RbThm.RecLTy RbThm.AoRTy

/-! ### the static typing of statements (what the linter establishes; `AoR.progWfB` implies it) -/

def CaseTyped (types : List FFields) (slots al : List ETy) : CaseExpr → Prop
  | .simple e => ExprTyped types slots al e
  | .is _ e => ExprTyped types slots al e
  | .range lo hi => ExprTyped types slots al lo ∧ ExprTyped types slots al hi

mutual
def StmtTyped (types : List FFields) (slots al : List ETy) : Stmt → Prop
  | .skip => True
  | .seq a b => StmtTyped types slots al a ∧ StmtTyped types slots al b
  | .dim x t _ => slots[x]? = some t ∧ (expand types t).isSome
  | .dimArr a t _ _ => al[a]? = some t
  | .assign x path t e _ => PathTyped types slots x path t ∧ ExprTyped types slots al e ∧ True
  | .assignElem a _ path t e _ => ElemTyped types al a path t ∧ ExprTyped types slots al e
  | .print items _ => ∀ it ∈ items, match it with | .expr e => ExprTyped types slots al e | _ => True
  | .read tg _ => slots[tg.x]? = some (.sc tg.t)
  | .ifs c thn els _ => ExprTyped types slots al c ∧ StmtTyped types slots al thn ∧ StmtTyped types slots al els
  | .select e cases _ => ExprTyped types slots al e ∧ CasesTyped types slots al cases
  | .forLoop x t lo hi step body _ =>
    slots[x]? = some (.sc t) ∧ t ≠ .str ∧ ExprTyped types slots al lo ∧ ExprTyped types slots al hi ∧
      (∀ se, step = some se → ExprTyped types slots al se) ∧ StmtTyped types slots al body
  | .while c body _ => ExprTyped types slots al c ∧ StmtTyped types slots al body
  | .doLoop c _ _ body _ => ExprTyped types slots al c ∧ StmtTyped types slots al body
  | .end_ _ => True
def CasesTyped (types : List FFields) (slots al : List ETy) : Cases → Prop
  | .nil => True
  | .else_ body => StmtTyped types slots al body
  | .case conds body rest =>
    (∀ c ∈ conds, CaseTyped types slots al c) ∧ StmtTyped types slots al body ∧ CasesTyped types slots al rest
end

/-- a statically typed program -/
def ProgTyped (P : Program) : Prop := TypesWf P.types ∧ StmtTyped P.types P.slots P.arrs P.body

/-! ### arrays -/

theorem arrsTyped_set {types : List FFields} {al : List ETy} {ra : List (Option RArr)} (h : ArrsTyped types al ra)
    {a : Nat} {et : ETy} {A : RArr} (ha : al[a]? = some et) (he : expand types et = some A.ty)
    (hty : ∀ is, HasTy A.ty (A.get is)) : ArrsTyped types al (ra.set a (some A)) := by
  refine ⟨by rw [List.length_set]; exact h.1, ?_⟩
  intro b B hB
  by_cases hab : a = b
  · subst hab
    have hlt : a < ra.length := by rw [h.1]; exact (List.getElem?_eq_some_iff.mp ha).1
    rw [List.getElem?_set_self hlt] at hB
    injection hB with hB; injection hB with hB; subst hB
    exact ⟨et, ha, he, hty⟩
  · rw [List.getElem?_set_ne hab] at hB
    exact h.2 b B hB

/-- a `DIM` that succeeds yields an array of the expanded element type whose every element is fresh -/
theorem dimArray_fresh {s : St} {t : ETy} {dims : Dims} {p : Pos} {A : RArr}
    (h : AoR.Ref.dimArray s t dims p = .ok A) :
    ∃ ft, expand s.types t = some ft ∧ A.ty = ft ∧ ∀ is, A.get is = RecL.Ref.fresh ft := by
  unfold AoR.Ref.dimArray at h
  cases hexp : expand s.types t with
  | none => simp [hexp] at h
  | some ft =>
    simp only [hexp] at h
    split at h
    · split at h
      · cases h
      · split at h
        · cases h
        · injection h with h; subst h
          exact ⟨ft, rfl, rfl, fun is => rfl⟩
    · cases h

/-- an element store that does not end normally leaves the state as it was -/
theorem assignElem_keeps {fuel : Nat} {a : Nat} {idx : Exprs} {path : List String} {t : ETy} {e : AoR.Expr} {p : Pos}
    {s s' : St} {o : AoR.Ref.Outcome} (h : AoR.Ref.exec fuel (.assignElem a idx path t e p) s = (s', o))
    (ho : o ≠ .normal) : s' = s := by
  cases fuel with
  | zero => simp only [AoR.Ref.exec] at h; injection h with h1 _; exact h1.symm
  | succ f =>
    simp only [AoR.Ref.exec] at h
    split at h
    · split at h
      · split at h
        · split at h
          · injection h with _ h2; exact absurd h2.symm ho
          · injection h with h1 _; exact h1.symm
        · injection h with h1 _; exact h1.symm
      · injection h with h1 _; exact h1.symm
    · injection h with h1 _; exact h1.symm

/-! ### typing is preserved by execution -/

/-- the state carries the type table `types` and every existing variable has its declared type -/
def Good (types : List FFields) (slots al : List ETy) (s : AoR.Ref.St) : Prop :=
  s.types = types ∧ EnvTyped types slots s.env ∧ ArrsTyped types al s.arrs

theorem Good.congr {types : List FFields} {slots al : List ETy} {s s' : AoR.Ref.St} (h : Good types slots al s)
    (he : s'.env = s.env) (ht : s'.types = s.types) (ha : s'.arrs = s.arrs := by rfl) : Good types slots al s' :=
  ⟨by rw [ht]; exact h.1, by rw [he]; exact h.2.1, by rw [ha]; exact h.2.2⟩

theorem Good.set {types : List FFields} {slots al : List ETy} {s : AoR.Ref.St} (h : Good types slots al s)
    {x : Nat} {t : Ty} {w : Val} (hx : slots[x]? = some (.sc t)) (hw : w.tag = t) : Good types slots al (s.set x w) :=
  ⟨h.1, envTyped_setRV (ft := .sc t) h.2.1 hx rfl (by simp only [HasTy]; exact ⟨w, rfl, hw⟩), h.2.2⟩

theorem printItems_keeps : ∀ (items : List PrintItem) (s : AoR.Ref.St),
    (AoR.Ref.printItems s items).1.env = s.env ∧ (AoR.Ref.printItems s items).1.types = s.types ∧
      (AoR.Ref.printItems s items).1.arrs = s.arrs
  | [], s => ⟨rfl, rfl, rfl⟩
  | .comma :: rest, s => by
    simp only [AoR.Ref.printItems]
    exact printItems_keeps rest _
  | .semicolon :: rest, s => by
    simp only [AoR.Ref.printItems]
    exact printItems_keeps rest _
  | .expr e :: rest, s => by
    simp only [AoR.Ref.printItems]
    cases AoR.Ref.evalS s.env s.arrs e with
    | ok v =>
      simp only
      cases AoR.Ref.printValue v with
      | none => exact ⟨rfl, rfl, rfl⟩
      | some pv => exact printItems_keeps rest _
    | err c p => exact ⟨rfl, rfl, rfl⟩
    | inexact => exact ⟨rfl, rfl, rfl⟩
    | illFormed => exact ⟨rfl, rfl, rfl⟩

theorem readItem_tag {s : AoR.Ref.St} {t : Ty} {p : Pos} {w : Val} (h : AoR.Ref.readItem s t p = .ok w) :
    w.tag = t := by
  simp only [AoR.Ref.readItem] at h
  cases hd : s.data[s.dataIdx]? with
  | none => simp [hd] at h
  | some v =>
    simp only [hd] at h
    cases hc : Num.cast v t with
    | ok w' => simp only [hc] at h; injection h with h; subst h; exact cast_tag v t w' hc
    | err e => simp [hc] at h
    | inexact => simp [hc] at h

/-- the three mutually recursive functions of the reference semantics keep the state well typed -/
def ExecOk (types : List FFields) (slots al : List ETy) (fuel : Nat) : Prop :=
  (∀ (st : Stmt) (s : AoR.Ref.St), StmtTyped types slots al st → Good types slots al s →
    Good types slots al (AoR.Ref.exec fuel st s).1) ∧
  (∀ (p : Pos) (subj : Val) (cs : Cases) (s : AoR.Ref.St), CasesTyped types slots al cs → Good types slots al s →
    Good types slots al (AoR.Ref.execCases fuel p subj cs s).1) ∧
  (∀ (x : Nat) (t : Ty) (h sv : Val) (up : Bool) (body : Stmt) (p : Pos) (s : AoR.Ref.St),
    slots[x]? = some (.sc t) → StmtTyped types slots al body → Good types slots al s →
    Good types slots al (AoR.Ref.forIter fuel x t h sv up body p s).1)

theorem execOk_zero (types : List FFields) (slots al : List ETy) : ExecOk types slots al 0 :=
  ⟨fun _ _ _ hg => by simpa only [AoR.Ref.exec] using hg,
   fun _ _ _ _ _ hg => by simpa only [AoR.Ref.execCases] using hg,
   fun _ _ _ _ _ _ _ _ _ _ hg => by simpa only [AoR.Ref.forIter] using hg⟩

theorem exec_succ {types : List FFields} {slots al : List ETy} (hw : TypesWf types) {fuel : Nat}
    (ih : ExecOk types slots al fuel) (st : Stmt) (s : AoR.Ref.St) (ht : StmtTyped types slots al st)
    (hg : Good types slots al s) : Good types slots al (AoR.Ref.exec (fuel + 1) st s).1 := by
  cases st with
  | skip => simpa only [AoR.Ref.exec] using hg
  | end_ p => simpa only [AoR.Ref.exec] using hg
  | seq a b =>
    simp only [StmtTyped] at ht
    simp only [AoR.Ref.exec]
    have h1 := ih.1 a s ht.1 hg
    generalize AoR.Ref.exec fuel a s = ra at h1 ⊢
    obtain ⟨s1, o1⟩ := ra
    cases o1 <;> first | exact ih.1 b s1 ht.2 h1 | exact h1
  | dim x t p =>
    simp only [StmtTyped] at ht
    simp only [AoR.Ref.exec]
    cases hexp : expand s.types t with
    | none => exact hg
    | some ft =>
      simp only
      rw [hg.1] at hexp
      exact ⟨hg.1, envTyped_setRV hg.2.1 ht.1 hexp (RbThm.RecLTy.fresh_typed ft), hg.2.2⟩
  | assign x path t e p =>
    simp only [StmtTyped] at ht
    obtain ⟨hpt, hte, _⟩ := ht
    obtain ⟨st0, root, ft, h1, h2, h3, h4⟩ := pathTyped_expand hw hpt
    simp only [AoR.Ref.exec]
    cases hev : AoR.Ref.evalTo s.env s.arrs e t with
    | err c q => exact hg
    | inexact => exact hg
    | illFormed => exact hg
    | ok v =>
      simp only
      have hvt := AoRTy.evalTo_typed hw hg.2.1 hg.2.2 hte h4 hev
      cases path with
      | nil =>
        simp only [FTy.at] at h3
        injection h3 with h3; subst h3
        cases hx : s.env[x]? with
        | none => exact hg
        | some o => exact ⟨hg.1, envTyped_setRV hg.2.1 h1 h2 hvt, hg.2.2⟩
      | cons f rest =>
        cases hx : s.env[x]? with
        | none => exact hg
        | some o =>
          cases o with
          | none => exact hg
          | some old =>
            simp only
            obtain ⟨v', hs, hv'⟩ := hasTy_setPath (f :: rest) root ft old v (envTyped_lookup hg.2.1 h1 h2 hx) h3 hvt
            simp only [hs]
            exact ⟨hg.1, envTyped_setRV hg.2.1 h1 h2 hv', hg.2.2⟩
  | dimArr a t dims p =>
    simp only [StmtTyped] at ht
    simp only [AoR.Ref.exec]
    cases hd : AoR.Ref.dimArray s t dims p with
    | error o => exact hg
    | ok A =>
      simp only
      obtain ⟨ft, hexp, hty, hfresh⟩ := dimArray_fresh hd
      rw [hg.1] at hexp
      exact ⟨hg.1, hg.2.1, arrsTyped_set hg.2.2 ht (by rw [hty]; exact hexp)
        (fun is => by rw [hfresh is, hty]; exact RbThm.RecLTy.fresh_typed ft)⟩
  | assignElem a idx path t e p =>
    simp only [StmtTyped] at ht
    obtain ⟨⟨et, root, ft, h1, h2, h3, h4⟩, hte⟩ := ht
    have hft : expand types t = some ft := by
      rw [← h4]; exact expand_flat (tyIn_at hw path root ft (tyIn_expand h2) h3)
    cases hx : AoR.Ref.exec (fuel + 1) (.assignElem a idx path t e p) s with
    | mk s' o =>
      cases o with
      | normal =>
        obtain ⟨v, is, A, new, hv, hi, hA, hb, hs, rfl⟩ := assignElem_normal hx
        have hvt := AoRTy.evalTo_typed hw hg.2.1 hg.2.2 hte hft hv
        obtain ⟨et', he1, he2, htyA⟩ := hg.2.2.2 a A hA
        rw [h1] at he1; injection he1 with he1; subst he1
        rw [h2] at he2; injection he2 with he2
        obtain ⟨new', hs', hnew⟩ := hasTy_setPath path root ft (A.get is) v (by rw [he2]; exact htyA is) h3 hvt
        rw [hs] at hs'; injection hs' with hs'; subst hs'
        refine ⟨hg.1, hg.2.1, arrsTyped_set (A := A.set is new) hg.2.2 h1 (by rw [he2] at h2; exact h2) ?_⟩
        intro js
        by_cases hj : js = is
        · subst hj; rw [get_set_same]; rw [he2] at hnew; exact hnew
        · rw [get_set_other _ _ _ _ hj]; exact htyA js
      | halted => rw [assignElem_keeps hx (by simp)]; exact hg
      | error c q => rw [assignElem_keeps hx (by simp)]; exact hg
      | inexact => rw [assignElem_keeps hx (by simp)]; exact hg
      | outOfFuel => rw [assignElem_keeps hx (by simp)]; exact hg
      | illFormed => rw [assignElem_keeps hx (by simp)]; exact hg
      | tooBig => rw [assignElem_keeps hx (by simp)]; exact hg
  | print items p =>
    simp only [AoR.Ref.exec]
    have hk := printItems_keeps items s
    generalize AoR.Ref.printItems s items = r at hk ⊢
    obtain ⟨s1, o1⟩ := r
    have hg1 : Good types slots al s1 := hg.congr hk.1 hk.2.1 hk.2.2
    cases o1 with
    | normal =>
      simp only
      split
      · exact hg1
      · exact hg1.congr rfl rfl
    | halted => exact hg1
    | error c q => exact hg1
    | inexact => exact hg1
    | outOfFuel => exact hg1
    | illFormed => exact hg1
    | tooBig => exact hg1
  | read tg p =>
    simp only [StmtTyped] at ht
    simp only [AoR.Ref.exec]
    cases hr : AoR.Ref.readItem s tg.t p with
    | error o => exact hg
    | ok w => exact (hg.set ht (readItem_tag hr)).congr rfl rfl
  | ifs c thn els p =>
    simp only [StmtTyped] at ht
    simp only [AoR.Ref.exec]
    cases AoR.Ref.evalCond s c with
    | error o => exact hg
    | ok b =>
      cases b with
      | true => exact ih.1 thn s ht.2.1 hg
      | false => exact ih.1 els s ht.2.2 hg
  | select e cases p =>
    simp only [StmtTyped] at ht
    simp only [AoR.Ref.exec]
    cases AoR.Ref.evalE s e with
    | error o => exact hg
    | ok subj => exact ih.2.1 p subj cases s ht.2 hg
  | forLoop x t lo hi step body p =>
    simp only [StmtTyped] at ht
    obtain ⟨hx, _, hlo, hhi, hstep, hbody⟩ := ht
    simp only [AoR.Ref.exec]
    cases hl : AoR.Ref.evalToS s.env s.arrs lo t with
    | err c q => exact hg
    | inexact => exact hg
    | illFormed => exact hg
    | ok l =>
      simp only
      have hg1 : Good types slots al (s.set x l) := hg.set hx (AoRTy.evalToS_tag hw hg.2.1 hg.2.2 hlo hl)
      cases AoR.Ref.evalToS (s.set x l).env (s.set x l).arrs hi t with
      | err c q => exact hg1
      | inexact => exact hg1
      | illFormed => exact hg1
      | ok h =>
        simp only
        cases step with
        | none => exact ih.2.2 x t h (.int 1) true body p _ hx hbody hg1
        | some se =>
          simp only
          cases AoR.Ref.evalE (s.set x l) se with
          | error o => exact hg1
          | ok sv =>
            simp only
            cases AoR.Ref.stepSign p sv with
            | error o => exact hg1
            | ok sg =>
              cases sg with
              | neg => exact ih.2.2 x t h sv false body p _ hx hbody hg1
              | pos => exact ih.2.2 x t h sv true body p _ hx hbody hg1
              | zero => exact hg1
  | «while» c body p =>
    have ht' := ht
    simp only [StmtTyped] at ht
    simp only [AoR.Ref.exec]
    cases AoR.Ref.evalCond s c with
    | error o => exact hg
    | ok b =>
      cases b with
      | false => exact hg
      | true =>
        simp only
        have h1 := ih.1 body s ht.2 hg
        generalize AoR.Ref.exec fuel body s = rb at h1 ⊢
        obtain ⟨s1, o1⟩ := rb
        cases o1 <;> first | exact ih.1 (.while c body p) s1 ht' h1 | exact h1
  | doLoop c top until_ body p =>
    have ht' := ht
    simp only [StmtTyped] at ht
    simp only [AoR.Ref.exec]
    cases top with
    | true =>
      simp only [if_true]
      cases AoR.Ref.evalCond s c with
      | error o => exact hg
      | ok b =>
        simp only
        split
        · have h1 := ih.1 body s ht.2 hg
          generalize AoR.Ref.exec fuel body s = rb at h1 ⊢
          obtain ⟨s1, o1⟩ := rb
          cases o1 <;> first | exact ih.1 (.doLoop c true until_ body p) s1 ht' h1 | exact h1
        · exact hg
    | false =>
      simp only [Bool.false_eq_true, if_false]
      have h1 := ih.1 body s ht.2 hg
      generalize AoR.Ref.exec fuel body s = rb at h1 ⊢
      obtain ⟨s1, o1⟩ := rb
      cases o1 with
      | normal =>
        simp only
        cases AoR.Ref.evalCond s1 c with
        | error o => exact h1
        | ok b =>
          simp only
          split
          · exact ih.1 (.doLoop c false until_ body p) s1 ht' h1
          · exact h1
      | halted => exact h1
      | error c q => exact h1
      | inexact => exact h1
      | outOfFuel => exact h1
      | illFormed => exact h1
      | tooBig => exact h1

theorem execOk_succ {types : List FFields} {slots al : List ETy} (hw : TypesWf types) {fuel : Nat}
    (ih : ExecOk types slots al fuel) : ExecOk types slots al (fuel + 1) := by
  refine ⟨fun st s ht hg => exec_succ hw ih st s ht hg, ?_, ?_⟩
  · intro p subj cs s ht hg
    cases cs with
    | nil => simpa only [AoR.Ref.execCases] using hg
    | else_ body =>
      simp only [CasesTyped] at ht
      simp only [AoR.Ref.execCases]
      exact ih.1 body s ht hg
    | case conds body rest =>
      simp only [CasesTyped] at ht
      simp only [AoR.Ref.execCases]
      cases AoR.Ref.anyMatches s p subj conds with
      | error o => exact hg
      | ok b =>
        cases b with
        | true => exact ih.1 body s ht.2.1 hg
        | false => exact ih.2.1 p subj rest s ht.2.2 hg
  · intro x t h sv up body p s hx hb hg
    simp only [AoR.Ref.forIter]
    cases AoR.Ref.relTest p (if up then .lessOrEqual else .greaterOrEqual) (s.getS x t) h with
    | error o => exact hg
    | ok b =>
      cases b with
      | false => exact hg
      | true =>
        simp only
        have h1 := ih.1 body s hb hg
        generalize AoR.Ref.exec fuel body s = rb at h1 ⊢
        obtain ⟨s1, o1⟩ := rb
        cases o1 with
        | normal =>
          simp only
          cases hinc : (plus (s1.getS x t) sv).bind (fun v => Num.cast v t) with
          | ok v =>
            simp only
            have hv : v.tag = t := by
              obtain ⟨w, _, hc⟩ := res_bind_ok hinc
              exact cast_tag w t v hc
            exact ih.2.2 x t h sv up body p _ hx hb (h1.set hx hv)
          | err e => exact h1
          | inexact => exact h1
        | halted => exact h1
        | error c q => exact h1
        | inexact => exact h1
        | outOfFuel => exact h1
        | illFormed => exact h1
        | tooBig => exact h1

theorem execOk_all {types : List FFields} {slots al : List ETy} (hw : TypesWf types) : ∀ fuel, ExecOk types slots al fuel
  | 0 => execOk_zero types slots al
  | fuel + 1 => execOk_succ hw (execOk_all hw fuel)

/-- **one statically typed statement keeps the state well typed** — every existing variable and EVERY element of every
dimensioned array at its declared type — however it ends (normally, END, error, out of fuel) -/
theorem exec_preserves_typing (fuel : Nat) (types : List FFields) (slots al : List ETy) (st : Stmt) (s s' : St)
    (o : AoR.Ref.Outcome) (hw : TypesWf types) (ht : StmtTyped types slots al st) (hg : Good types slots al s)
    (h : AoR.Ref.exec fuel st s = (s', o)) : Good types slots al s' := by
  have := (execOk_all (slots := slots) (al := al) hw fuel).1 st s ht hg
  rw [h] at this
  exact this

theorem good_init (P : Program) : Good P.types P.slots P.arrs (AoR.Ref.St.init P) := by
  refine ⟨rfl, typed_init P.types P.slots, ?_, ?_⟩
  · simp [AoR.Ref.St.init]
  · intro a A hA
    simp only [AoR.Ref.St.init, List.getElem?_map] at hA
    cases hx : P.arrs[a]? <;> simp [hx] at hA

/-- **"A STRING * n variable, field or element always holds exactly n characters (padded with spaces or truncated)
however it was assigned"**: for every statically typed program, every fuel and however the run ends, (1) the final state
is well typed; (2) every `STRING * n`-typed variable / field `x.path` that evaluates yields `n` characters; (3) every
`STRING * n`-typed element / element field `a(idx).path` that evaluates — whatever the subscripts — yields `n` characters;
(4) every element of every dimensioned array, stored or never touched, has the array's element type.  Since the statement
holds for every fuel it holds at every intermediate state of the run. -/
theorem fixed_string_always_n_chars (P : Program) (fuel : Nat) (s' : St) (o : AoR.Ref.Outcome)
    (hp : ProgTyped P) (h : AoR.Ref.run fuel P = (s', o)) :
    Good P.types P.slots P.arrs s' ∧
    (∀ (x : Nat) (path : List String) (n : Nat) (q : Pos) (v : RV),
      PathTyped P.types P.slots x path (.fix n) → AoR.Ref.eval s'.env s'.arrs (.var x path (.fix n) q) = .ok v →
      ∃ cs, v = .sc (.str cs) ∧ cs.length = n) ∧
    (∀ (a : Nat) (idx : Exprs) (path : List String) (n : Nat) (q : Pos) (v : RV),
      ElemTyped P.types P.arrs a path (.fix n) → AoR.Ref.eval s'.env s'.arrs (.elem a idx path (.fix n) q) = .ok v →
      ∃ cs, v = .sc (.str cs) ∧ cs.length = n) ∧
    (∀ (a : Nat) (A : RArr) (is : List Int), s'.arrs[a]? = some (some A) → HasTy A.ty (A.get is)) := by
  obtain ⟨hw, hst⟩ := hp
  have hg := (execOk_all (slots := P.slots) (al := P.arrs) hw fuel).1 P.body (AoR.Ref.St.init P) hst (good_init P)
  simp only [AoR.Ref.run] at h
  rw [h] at hg
  refine ⟨hg, ?_, ?_, ?_⟩
  · intro x path n q v hpt hev
    obtain ⟨ft, hft, hv⟩ := AoRTy.eval_typed hw hg.2.1 hg.2.2 (.var x path (.fix n) q) v
      (by simpa only [ExprTyped] using hpt) hev
    simp only [AoR.Expr.ty, expand] at hft
    injection hft with hft; subst hft
    exact hasTy_fix hv
  · intro a idx path n q v ⟨et, root, ft, h1, h2, h3, h4⟩ hev
    simp only [AoR.Ref.eval] at hev
    obtain ⟨is, _, hev⟩ := eres_bind_ok hev
    obtain ⟨A, hA, hev⟩ := eres_bind_ok hev
    by_cases hb : A.inBounds is = true
    · simp only [hb, if_true] at hev
      obtain ⟨et', he1, he2, hty⟩ := hg.2.2.2 a A (AoRTy.getArr_ok hA)
      rw [h1] at he1; injection he1 with he1; subst he1
      rw [h2] at he2; injection he2 with he2
      obtain ⟨v', hv', hvt⟩ := hasTy_getPath path root ft (A.get is) (by rw [he2]; exact hty is) h3
      simp only [hv'] at hev
      injection hev with hev; subst hev
      cases ft with
      | fix m =>
        simp only [FTy.flat] at h4; injection h4 with h4; subst h4
        exact hasTy_fix hvt
      | sc t => simp [FTy.flat] at h4
      | udt k fs => simp [FTy.flat] at h4
    · simp [hb] at hev
  · intro a A is hA
    obtain ⟨_, _, _, hty⟩ := hg.2.2.2 a A hA
    exact hty is

/-- non-vacuity: a typed two-statement program — `DIM a(1 TO 2) AS STRING * 3 : a(2) = "abcdef"` -/
example :
    let P : Program := ⟨[], [], [.fix 3], [],
      .seq (.dimArr 0 (.fix 3) (.cons (some (.lit (.int 1) ⟨1, 7⟩)) (.lit (.int 2) ⟨1, 12⟩) .nil) ⟨1, 5⟩)
        (.assignElem 0 (.cons (.lit (.int 2) ⟨2, 3⟩) .nil) [] (.fix 3) (.lit (.str "abcdef".toList) ⟨2, 8⟩) ⟨2, 1⟩)⟩
    ProgTyped P ∧ (AoR.Ref.run 5 P).2 = .normal := by
  refine ⟨⟨?_, ?_⟩, rfl⟩
  · intro k fs hk; simp at hk
  · simp only [StmtTyped, ExprTyped, RecL.Spec.NoNulVal, ElemTyped]
    refine ⟨rfl, ⟨.fix 3, .fix 3, .fix 3, rfl, rfl, rfl, rfl⟩, ?_⟩
    decide

end RbThm.AoRProps
