import Thm.ArrLSimFor
/-!
Arrays layer, simulation part — `READ` with scalar and array-element targets.

`READ a, b, …` is generated as `READ a : READ b : …` (one call of the built-in per target, repo fix fd1c771), which is what
the reference semantics does (`desugar (.read tgs p) = readSeq p tgs`): every target is resolved, read and stored before
the next one is looked at.  One target:

    BeginCollectArguments · <push the target by reference> · PushStack · BuiltInSub(Read) · EnqueueToReturnStack 0 ·
    PopStack · <write-back>

For a variable the write-back is `DequeueFromReturnStack · VarPathName · CopyAToVarPath`; for an element the path resolved
before the call (subscripts evaluated, bounds checked: Subscript out of range at the target's position) was queued with the
value and `DequeueFromReturnStackWithPath · CopyAToVarPath` stores through it.
-/
namespace RbThm.ArrLSim
set_option linter.unusedVariables false
set_option linter.unusedSimpArgs false
open RbModel RbModel.Num RbModel.ArrL RbModel.ArrL.Compile RbModel.ArrL.Vm
open RbModel.Ast (Pos)
open RbThm.ArrLLen RbThm.ArrLNum

namespace SimRead

/-- the call of the built-in with one collected by-reference argument holding `cur`: the next DATA item converted to the
type of `cur` is queued for the write-back, the DATA cursor advances; errors are reported at the `PushStack` -/
theorem read_call (code : Code) (p q : Pos) (τ : Vm) (cur : Val) (pth : Path) (ctx0 : List Call)
    (hc : CodeAt code τ.pc [(CInstr.pushStack, p), (CInstr.builtInRead, p), (CInstr.enqueue 0, q),
      (CInstr.popStack, p)])
    (hctx : τ.ctx = ⟨[(.sc cur, some pth)], none⟩ :: ctx0) (hq : τ.queue = []) :
    match τ.data[τ.dataIdx]? with
    | none => ErrsWith code τ ArrL.Ref.codeOutOfData p τ.out
    | some v =>
      match cast v cur.tag with
      | .ok w =>
        Steps code τ { τ with pc := τ.pc + 4, ctx := ctx0, dataIdx := τ.dataIdx + 1, queue := [(.sc w, some pth)] }
      | .err e => ErrsWith code τ (ArrL.Ref.codeOf e) p τ.out
      | .inexact => True := by
  have h0 : code[τ.pc]? = some (CInstr.pushStack, p) := hc.head
  have h1 : code[τ.pc + 1]? = some (CInstr.builtInRead, p) := hc.tail.head
  have h2 : code[τ.pc + 1 + 1]? = some (CInstr.enqueue 0, q) := hc.tail.tail.head
  have h3 : code[τ.pc + 1 + 1 + 1]? = some (CInstr.popStack, p) := hc.tail.tail.tail.head
  let τ1 : Vm := Vm.advance { τ with trace := p :: τ.trace }
  have s1 : Vm.step code τ = .next τ1 := by simp only [Vm.step, h0]; rfl
  cases hd : τ.data[τ.dataIdx]? with
  | none =>
    simp only
    refine ⟨τ1, τ1, Steps.one s1, ?_, rfl⟩
    simp only [Vm.step, τ1, Vm.advance, h1, hctx, readArgs, hd]; rfl
  | some v =>
    simp only
    cases hcst : cast v cur.tag with
    | inexact => trivial
    | err e =>
      simp only
      refine ⟨τ1, τ1, Steps.one s1, ?_, rfl⟩
      simp only [Vm.step, τ1, Vm.advance, h1, hctx, readArgs, hd, hcst]; rfl
    | ok w =>
      simp only
      let τ2 : Vm := Vm.advance { τ1 with ctx := ⟨[(.sc w, some pth)], none⟩ :: ctx0, dataIdx := τ.dataIdx + 1 }
      let τ3 : Vm := Vm.advance { τ2 with queue := [(.sc w, some pth)] }
      have s2 : Vm.step code τ1 = .next τ2 := by
        simp only [Vm.step, τ1, Vm.advance, h1, hctx, readArgs, hd, hcst]; rfl
      have s3 : Vm.step code τ2 = .next τ3 := by
        simp only [Vm.step, τ2, τ1, Vm.advance, h2, List.getElem?_cons_zero, hq, List.nil_append]; rfl
      refine Steps.cons s1 (Steps.cons s2 (Steps.cons s3 (Steps.one ?_)))
      simp only [Vm.step, τ3, τ2, τ1, Vm.advance, h3]

/-- `Ref.readItem` against the VM's data (the two states hold the same DATA and cursor) -/
theorem readItem_eq {sc : Scope} {s : St} {τ : Vm} (h : Rel sc s τ) (t : Ty) (p : Pos) :
    ArrL.Ref.readItem s t p =
      match τ.data[τ.dataIdx]? with
      | none => .error (.error ArrL.Ref.codeOutOfData p)
      | some v =>
        match cast v t with
        | .ok w => .ok w
        | .err e => .error (.error (ArrL.Ref.codeOf e) p)
        | .inexact => .error .inexact := by
  simp only [ArrL.Ref.readItem, h.data, h.dataIdx]
  cases s.data[s.dataIdx]? with
  | none => rfl
  | some v => simp only; cases cast v t <;> rfl

/-- one target -/
theorem read_one (code : Code) (sc : Scope) (p : Pos) (tg : ReadTarget) (f : Nat) (off : Nat) (s : St) (σ : Vm)
    (hc : CodeAt code off (readOne p tg)) (hpc : σ.pc = off) (hr : Rel sc s σ) (hw : TargetWf sc tg) :
    StmtPost code sc (sizeRead tg) off σ (ArrL.Ref.exec (f + 1) (.read tg p) s) := by
  subst hpc
  cases tg with
  | var x t q =>
    simp only [TargetWf] at hw
    simp only [readOne, pushTarget, writeTarget, ReadTarget.pos] at hc
    have h0 : code[σ.pc]? = some (CInstr.beginArgs, p) := hc.append_left.append_left.append_left.head
    let σ1 : Vm := Vm.advance { σ with ctx := ⟨[], none⟩ :: σ.ctx }
    have s1 : Vm.step code σ = .next σ1 := by simp only [Vm.step, h0]; rfl
    have hr1 : Rel sc s σ1 := hr.same rfl rfl rfl rfl rfl rfl rfl
    let cur : Val := s.env.getD x (zeroOf t)
    have hcpv : CodeAt code (σ.pc + 1) [(CInstr.varPath x, q), (CInstr.copyVarPathToA, q), (CInstr.pushByRef, q)] := by
      simpa using hc.append_left.append_left.append_right
    have st2 := push_var_steps code x q σ1 ⟨[], none⟩ σ.ctx cur hcpv rfl (hr1.getVar hw)
    let σ2 : Vm := { σ1 with pc := σ1.pc + 3, regs := { σ1.regs with a := .sc cur },
                             ctx := ⟨[(.sc cur, some ⟨.var x, []⟩)], none⟩ :: σ.ctx }
    have hcall := read_call code p q σ2 cur ⟨.var x, []⟩ σ.ctx
      (by
        have := hc.append_left.append_right
        simp only [List.length_append, List.length_cons, List.length_nil] at this
        exact this.at (by simp only [σ2, σ1, Vm.advance]))
      rfl hr.queue
    have htag : cur.tag = t := typed_getD_tag hr.typed hw _
    have pre : Steps code σ σ2 := (Steps.one s1).trans st2
    simp only [ArrL.Ref.exec, readItem_eq (τ := σ2) (hr.same rfl rfl rfl rfl rfl rfl rfl) t p, sizeRead]
    rw [htag] at hcall
    cases hd : σ2.data[σ2.dataIdx]? with
    | none =>
      simp only [hd] at hcall ⊢
      simp only [StmtPost]
      rw [← hr.out]; exact ErrsWith.of_steps pre hcall
    | some v =>
      simp only [hd] at hcall ⊢
      cases hcst : cast v t with
      | inexact => simp only [StmtPost]
      | err e =>
        simp only [hcst] at hcall ⊢
        simp only [StmtPost]
        rw [← hr.out]; exact ErrsWith.of_steps pre hcall
      | ok w =>
        simp only [hcst] at hcall ⊢
        let σ3 : Vm := { σ2 with pc := σ2.pc + 4, ctx := σ.ctx, dataIdx := σ2.dataIdx + 1,
                                 queue := [(.sc w, some ⟨.var x, []⟩)] }
        have st4 := deq_var_steps code x q σ3 w _ []
          (by
            have := hc.append_right
            simp only [List.length_append, List.length_cons, List.length_nil] at this
            exact this.at (by simp only [σ3, σ2, σ1, Vm.advance]))
          rfl (hr.lt hw)
        refine ⟨_, pre.trans (hcall.trans st4), ?_, ?_, ?_⟩
        · simp only [σ3, σ2, σ1, Vm.advance, readOne, pushTarget, writeTarget, List.length_append, List.length_cons,
            List.length_nil]
        · refine ⟨?_, typed_set hr.typed hw (cast_tag _ _ _ hcst), hr.arrs, hr.out, hr.data, ?_, rfl, hr.funRes⟩
          · show σ.env.set x w = s.env.set x w
            rw [hr.env]
          · show σ.dataIdx + 1 = s.dataIdx + 1
            rw [hr.dataIdx]
        · exact ⟨rfl, rfl, rfl, rfl, rfl, id⟩
  | elem a t idx q =>
    simp only [TargetWf] at hw
    obtain ⟨hwa, hne, hwi⟩ := hw
    simp only [readOne, pushTarget, writeTarget, ReadTarget.pos] at hc
    have h0 : code[σ.pc]? = some (CInstr.beginArgs, p) := hc.append_left.append_left.append_left.head
    let σ1 : Vm := Vm.advance { σ with ctx := ⟨[], none⟩ :: σ.ctx }
    have s1 : Vm.step code σ = .next σ1 := by simp only [Vm.step, h0]; rfl
    have hr1 : Rel sc s σ1 := hr.same rfl rfl rfl rfl rfl rfl rfl
    have hcp : CodeAt code (σ.pc + 1) ([(CInstr.arrPath a, q)] ++ compileIdx idx) := by
      have := hc.append_left.append_left.append_right.append_left
      simpa using this
    have hpath := path_correct code sc a idx q (idx_correct code sc idx) (σ.pc + 1) s σ1 hcp rfl hr1 hwi
    simp only [ArrL.Ref.exec, sizeRead]
    cases hev : ArrL.Ref.evalIdx s.env s.arrs idx with
    | err c r => rw [hev] at hpath; exact ErrsWith.of_steps (Steps.one s1) hpath
    | inexact => trivial
    | illFormed => trivial
    | ok is =>
      rw [hev] at hpath
      obtain ⟨τ, st, hp, ha, hrel, hpaths, hvals, hregs, hctx, htr, hsk⟩ := hpath
      simp only [ArrL.Ref.ERes.bind, ArrL.Ref.getArr]
      cases hA : s.arrs[a]? with
      | none => trivial
      | some oA =>
        cases oA with
        | none => trivial
        | some A =>
          simp only
          have hisne := evalIdx_ne_nil hev hne
          have hpaths' : τ.paths = ⟨.arr a, is⟩ :: σ.paths := by rw [hpaths]; rfl
          have hcv : CodeAt code τ.pc [(CInstr.copyVarPathToA, q), (CInstr.pushByRef, q)] := by
            have h1 := hc.append_left.append_left.append_right
            have e : ([(CInstr.arrPath a, q)] ++ compileIdx idx ++ [(CInstr.copyVarPathToA, q), (CInstr.pushByRef, q)]) =
                ([(CInstr.arrPath a, q)] ++ compileIdx idx) ++ [(CInstr.copyVarPathToA, q), (CInstr.pushByRef, q)] := by
              simp
            rw [e] at h1
            refine h1.append_right.cast ?_ rfl
            rw [hp]; simp only [List.length_append, List.length_cons, List.length_nil] <;> omega
          obtain ⟨V, hV, hAV⟩ := hrel.arrs.lookup hwa hA
          have pre0 : Steps code σ τ := (Steps.one s1).trans st
          by_cases hb : A.inBounds is = true
          · simp only [hb, if_true]
            have hg : Arr.getElem V is = some (A.get is) := hAV.get is ((inBox_iff _ _).mp hb)
            let cur : Val := A.get is
            have st2 := push_elem_steps code a is q τ _ σ.ctx σ.paths V cur hcv hctx hpaths' hV hisne hg
            let σ2 : Vm := { τ with pc := τ.pc + 2, regs := { τ.regs with a := .sc cur }, paths := σ.paths,
                                    ctx := ⟨[(.sc cur, some ⟨.arr a, is⟩)], none⟩ :: σ.ctx }
            have hσ2pc : σ2.pc = σ.pc + (1 + (1 + (compileIdx idx).length + 2)) := by
              simp only [σ2, hp]; omega
            have hcall := read_call code p q σ2 cur ⟨.arr a, is⟩ σ.ctx
              (by
                have := hc.append_left.append_right
                refine this.cast ?_ rfl
                rw [hσ2pc]; simp only [List.length_append, List.length_cons, List.length_nil] <;> omega)
              rfl hrel.queue
            have htag : cur.tag = t := hAV.get_tag hb
            have pre : Steps code σ σ2 := pre0.trans st2
            rw [readItem_eq (τ := σ2) (hrel.same rfl rfl rfl rfl rfl rfl rfl) t p]
            rw [htag] at hcall
            cases hd : σ2.data[σ2.dataIdx]? with
            | none =>
              simp only [hd] at hcall ⊢
              simp only [StmtPost]
              rw [← hrel.out]; exact ErrsWith.of_steps pre hcall
            | some v =>
              simp only [hd] at hcall ⊢
              cases hcst : cast v t with
              | inexact => simp only [StmtPost]
              | err e =>
                simp only [hcst] at hcall ⊢
                simp only [StmtPost]
                rw [← hrel.out]; exact ErrsWith.of_steps pre hcall
              | ok w =>
                simp only [hcst] at hcall ⊢
                have hwt : w.tag = t := cast_tag _ _ _ hcst
                have hstore := hAV.store is w hwt
                simp only [hb, if_true] at hstore
                obtain ⟨V', hs, hAV'⟩ := hstore
                let σ3 : Vm := { σ2 with pc := σ2.pc + 4, ctx := σ.ctx, dataIdx := σ2.dataIdx + 1,
                                         queue := [(.sc w, some ⟨.arr a, is⟩)] }
                have st4 := deq_elem_steps code a is q σ3 w [] V V'
                  (by
                    have := hc.append_right
                    refine this.cast ?_ rfl
                    show _ = σ2.pc + 4
                    rw [hσ2pc]; simp only [List.length_append, List.length_cons, List.length_nil] <;> omega)
                  rfl hV hisne hs
                refine ⟨_, pre.trans (hcall.trans st4), ?_, ?_, ?_⟩
                · show σ2.pc + 4 + 2 = _
                  rw [hσ2pc]
                  simp only [readOne, pushTarget, writeTarget, List.length_append, List.length_cons, List.length_nil]
                  omega
                · refine ⟨hrel.env, hrel.typed, hrel.arrs.set hwa hAV', hrel.out, hrel.data, ?_, rfl, hrel.funRes⟩
                  show τ.dataIdx + 1 = s.dataIdx + 1
                  rw [hrel.dataIdx]
                · exact ⟨hvals, rfl, hregs, rfl, htr, hsk⟩
          · simp only [hb, Bool.false_eq_true, if_false]
            have hstep := elem_read_step code sc s τ a t is A σ.paths q hrel hwa hA hisne hpaths' hcv.head
            simp only [hb, Bool.false_eq_true, if_false] at hstep
            simp only [StmtPost]
            rw [← hrel.out]
            exact ⟨τ, τ, pre0, hstep, rfl⟩

/-- the targets one after the other -/
theorem reads_correct (code : Code) (sc : Scope) (p : Pos) : ∀ (tgs : List ReadTarget) (f : Nat) (off : Nat) (s : St)
    (σ : Vm), CodeAt code off (compileReads p tgs) → σ.pc = off → Rel sc s σ → (∀ tg ∈ tgs, TargetWf sc tg) →
    StmtPost code sc (sizeReads tgs) off σ (ArrL.Ref.exec f (readSeq p tgs) s)
  | _, 0, _, _, _, _, _, _, _ => by simp only [ArrL.Ref.exec, StmtPost]
  | [], f + 1, off, s, σ, hc, hpc, hr, hw => by
    simp only [readSeq, ArrL.Ref.exec, StmtPost, sizeReads, Nat.add_zero]
    exact ⟨σ, Steps.refl σ, hpc, hr, SameStacks.refl σ⟩
  | tg :: rest, f + 1, off, s, σ, hc, hpc, hr, hw => by
    simp only [compileReads] at hc
    simp only [readSeq, ArrL.Ref.exec, sizeReads]
    cases f with
    | zero => simp only [ArrL.Ref.exec, StmtPost]
    | succ g =>
      have h1 := read_one code sc p tg g off s σ hc.append_left hpc hr (hw tg (by simp))
      generalize ArrL.Ref.exec (g + 1) (.read tg p) s = r1 at h1 ⊢
      obtain ⟨s1, o1⟩ := r1
      cases o1 with
      | normal =>
        obtain ⟨τ, st, hp, hrel, hss⟩ := h1
        have hcr : CodeAt code (off + sizeRead tg) (compileReads p rest) := by
          have := hc.append_right
          rwa [len_readOne] at this
        have h2 := reads_correct code sc p rest (g + 1) _ s1 τ hcr hp hrel (fun t ht => hw t (by simp [ht]))
        simp only
        exact StmtPost.of_steps st hss (h2.addr (by omega))
      | halted => exact h1
      | error c q => exact h1
      | inexact => trivial
      | outOfFuel => trivial
      | illFormed => trivial
      | tooBig => trivial

end SimRead

open SimRead in
/-- **READ** -/
theorem case_read (code : Code) (fuel : Nat) (ih : IHle code fuel) (tgs : List ReadTarget) (p : Pos)
    (sc : Scope) (sfx : String) (off : Nat) (s : St) (σ : Vm)
    (hc : CodeAt code off (compileStmt sfx off (.read tgs p))) (hpc : σ.pc = off)
    (hr : Rel sc s σ) (hw : Wf sc (.read tgs p)) (ha : ActInv σ) :
    StmtPost code sc (sizeStmt (.read tgs p)) off σ (ArrL.Ref.exec (fuel + 1) (desugar (.read tgs p)) s) := by
  simp only [Wf] at hw
  simp only [compileStmt] at hc
  cases tgs with
  | nil =>
    simp only [List.isEmpty_nil, if_true] at hc
    simp only [desugar, readSeq, ArrL.Ref.exec, sizeStmt, List.isEmpty_nil, if_true, StmtPost]
    subst hpc
    have h0 : code[σ.pc]? = some (CInstr.beginArgs, p) := hc.head
    have h1 : code[σ.pc + 1]? = some (CInstr.pushStack, p) := hc.tail.head
    have h2 : code[σ.pc + 1 + 1]? = some (CInstr.builtInRead, p) := hc.tail.tail.head
    have h3 : code[σ.pc + 1 + 1 + 1]? = some (CInstr.popStack, p) := hc.tail.tail.tail.head
    let σ1 : Vm := Vm.advance { σ with ctx := ⟨[], none⟩ :: σ.ctx }
    let σ2 : Vm := Vm.advance { σ1 with trace := p :: σ.trace }
    let σ3 : Vm := Vm.advance σ2
    let σ4 : Vm := Vm.advance { σ3 with ctx := σ.ctx, trace := σ.trace }
    have s1 : Vm.step code σ = .next σ1 := by simp only [Vm.step, h0]; rfl
    have s2 : Vm.step code σ1 = .next σ2 := by simp only [Vm.step, σ1, Vm.advance, h1]; rfl
    have s3 : Vm.step code σ2 = .next σ3 := by simp only [Vm.step, σ2, σ1, Vm.advance, h2, readArgs]; rfl
    have s4 : Vm.step code σ3 = .next σ4 := by simp only [Vm.step, σ3, σ2, σ1, Vm.advance, h3]; rfl
    exact ⟨σ4, Steps.cons s1 (Steps.cons s2 (Steps.cons s3 (Steps.one s4))), rfl,
      hr.same rfl rfl rfl rfl rfl rfl rfl, ⟨rfl, rfl, rfl, rfl, rfl, id⟩⟩
  | cons tg rest =>
    simp only [List.isEmpty_cons, Bool.false_eq_true, if_false] at hc
    simp only [desugar, sizeStmt, List.isEmpty_cons, Bool.false_eq_true, if_false]
    exact reads_correct code sc p (tg :: rest) (fuel + 1) off s σ hc hpc hr hw

end RbThm.ArrLSim
