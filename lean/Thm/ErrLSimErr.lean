import Thm.ErrLSimBase
/-!
Error layer, simulation part: the six new statements.

* `ON ERROR GOTO L` / `ON ERROR RESUME NEXT` / `ON ERROR GOTO 0`: one instruction that sets the handler register.
* `RESUME` / `RESUME NEXT` / `RESUME L` inside a handler: the instruction is *reached* (answer `resumed k`); what it does is the
  business of the unit that failed (`raise_correct`).  Outside a handler they are one-unit statements that fail with error 20
  (`simple_unit`).
-/
namespace RbThm.ErrLSim
set_option linter.unusedVariables false
set_option linter.unusedSimpArgs false
open RbModel RbModel.Num RbModel.ErrL RbModel.ErrL.Compile RbModel.ErrL.Vm
open RbModel.JmpL.Compile (CInstr Code Dp)
open RbModel.JmpL.Vm (Vm truncTop)
open RbModel.Ast (Pos PrintItem CaseExpr)
open RbModel.Ref (St)
open RbModel.ErrL.Ref
open RbThm.ErrLLen

/-- the three ON ERROR statements: the handler register follows the handler mode -/
theorem on_error_spec {C : Ctx} {d e vb gd off nx : Nat} {σ : EVm} {s : ESt} {i : EInstr} {p : Pos} {md : HMode}
    (h0 : C.prog.code[σ.b.pc]? = some (i, p)) (hpc : σ.b.pc = off)
    (hstep : step C.prog σ = .next { σ with handler := hOf C.env md, b := { σ.b with pc := σ.b.pc + 1 } })
    (hfd : ∀ L, md = .goto L → C.env.dp.fd L = 0 ∧ C.env.dp.sd L = 0)
    (hr : ERel C.sl C.env s σ) (hi : Inv C d e vb gd σ) :
    StmtSpec C d e vb (off + 1) nx σ ({ s with mode := md }, .normal) := by
  refine ⟨_, Steps.one hstep, .inl (by show σ.b.pc + 1 = off + 1; rw [hpc]), ?_, rfl, ⟨hi.he, fun _ => by simp⟩, rfl, rfl, rfl⟩
  exact { base := hr.base.setPc _, handler := rfl, hfd := hfd, inH := hr.inH, err := hr.err }

theorem case_onErrorGoto (C : Ctx) (hC : C.Ok) (fuel : Nat) (L : Nat) (p : Pos)
    (sfx : String) (d e off nx vb gd : Nat) (m : Mode) (σ : EVm) (s : ESt)
    (hc : CodeAt C.prog.code off (compileStmt C.env sfx d e off (.onErrorGoto L p)))
    (hw : Wf C.sl C.env.dp C.rl d e (.onErrorGoto L p))
    (hen : Entry C.env off (.onErrorGoto L p) m σ) (hr : ERel C.sl C.env s σ) (hi : Inv C d e vb gd σ) :
    StmtSpec C d e vb (off + sizeStmt C.env.dp d e (.onErrorGoto L p)) nx σ
      (exec (fuel + 1) C.P gd (desugar (.onErrorGoto L p)) m s) := by
  obtain ⟨rfl, hpc⟩ := hen.of_nolabels rfl
  simp only [compileStmt] at hc
  have h0 : C.prog.code[σ.b.pc]? = some (.onErrorGoto (C.env.addr L), p) := by rw [hpc]; exact hc.head
  simp only [desugar, exec, sizeStmt]
  refine on_error_spec (md := .goto L) h0 hpc (by simp only [step, h0, hOf]) ?_ hr hi
  intro L' hL'
  cases hL'
  exact hw

theorem case_onErrorResumeNext (C : Ctx) (hC : C.Ok) (fuel : Nat) (p : Pos)
    (sfx : String) (d e off nx vb gd : Nat) (m : Mode) (σ : EVm) (s : ESt)
    (hc : CodeAt C.prog.code off (compileStmt C.env sfx d e off (.onErrorResumeNext p)))
    (hen : Entry C.env off (.onErrorResumeNext p) m σ) (hr : ERel C.sl C.env s σ) (hi : Inv C d e vb gd σ) :
    StmtSpec C d e vb (off + sizeStmt C.env.dp d e (.onErrorResumeNext p)) nx σ
      (exec (fuel + 1) C.P gd (desugar (.onErrorResumeNext p)) m s) := by
  obtain ⟨rfl, hpc⟩ := hen.of_nolabels rfl
  simp only [compileStmt] at hc
  have h0 : C.prog.code[σ.b.pc]? = some (.onErrorResumeNext, p) := by rw [hpc]; exact hc.head
  simp only [desugar, exec, sizeStmt]
  exact on_error_spec (md := .resumeNext) h0 hpc (by simp only [step, h0, hOf]) (fun _ h => by cases h) hr hi

theorem case_onErrorGoto0 (C : Ctx) (hC : C.Ok) (fuel : Nat) (p : Pos)
    (sfx : String) (d e off nx vb gd : Nat) (m : Mode) (σ : EVm) (s : ESt)
    (hc : CodeAt C.prog.code off (compileStmt C.env sfx d e off (.onErrorGoto0 p)))
    (hen : Entry C.env off (.onErrorGoto0 p) m σ) (hr : ERel C.sl C.env s σ) (hi : Inv C d e vb gd σ) :
    StmtSpec C d e vb (off + sizeStmt C.env.dp d e (.onErrorGoto0 p)) nx σ
      (exec (fuel + 1) C.P gd (desugar (.onErrorGoto0 p)) m s) := by
  obtain ⟨rfl, hpc⟩ := hen.of_nolabels rfl
  simp only [compileStmt] at hc
  have h0 : C.prog.code[σ.b.pc]? = some (.onErrorGoto0, p) := by rw [hpc]; exact hc.head
  simp only [desugar, exec, sizeStmt]
  exact on_error_spec (md := .none) h0 hpc (by simp only [step, h0, hOf]) (fun _ h => by cases h) hr hi

/-- a RESUME statement reached inside a handler: answer `resumed k` at the instruction -/
theorem resumed_spec {C : Ctx} {d e vb fin nx : Nat} {σ : EVm} {s : ESt} {k : Resumed} {p : Pos}
    (h0 : C.prog.code[σ.b.pc]? = some (resInstr C.env k, p)) (hr : ERel C.sl C.env s σ) (hin : s.inH = true)
    (hk : ∀ L, k = .label L → C.rl = true ∧ L ∈ C.B.labels ∧ C.env.dp.fd L = 0 ∧ C.env.dp.sd L = 0) :
    StmtSpec C d e vb fin nx σ ({ s with inH := false, err := none }, .resumed k) := by
  have hne : σ.errAddr ≠ none := by
    have := hr.inH; rw [hin] at this
    intro hn; rw [hn] at this; cases this
  exact ⟨σ, p, Steps.refl σ, h0, { base := hr.base, handler := hr.handler, hfd := hr.hfd }, rfl, rfl, hne, rfl, rfl, rfl,
    ⟨σ.b.regStack.take d, (List.take_append_drop d σ.b.regStack).symm⟩,
    ⟨σ.b.vals.take e, (List.take_append_drop e σ.b.vals).symm⟩, hk⟩

/-- a RESUME statement reached outside a handler fails with error 20 (`ResumeWithoutError`): one resume unit -/
theorem resume_without_error {C : Ctx} (hC : C.Ok) {fuel : Nat} (ih : StmtIHle C fuel) {stmt : SStmt} {sfx : String}
    {d e off nx vb gd : Nat} {σ : EVm} {s : ESt} {p : Pos}
    (hc : CodeAt C.prog.code off (compileStmt C.env sfx d e off stmt)) (hl : LabAt C.env d e off stmt)
    (hw : Wf C.sl C.env.dp C.rl d e stmt) (hm : MarksAt C.prog.marks (marksStmt C.env.dp d e off stmt) nx)
    (hms : marksStmt C.env.dp d e off stmt = [off]) (hsz : sizeStmt C.env.dp d e stmt = 1)
    (hnx : off + sizeStmt C.env.dp d e stmt ≤ nx) (hpc : σ.b.pc = off)
    (hstep : σ.errAddr = none → step C.prog σ = Vm.raise C.prog { σ with errCode := none } Vm.codeResumeWithoutError p)
    (hr : ERel C.sl C.env s σ) (hin : s.inH = false) (hi : Inv C d e vb gd σ) :
    StmtSpec C d e vb (off + sizeStmt C.env.dp d e stmt) nx σ
      (match Ref.raise fuel C.P gd Ref.codeResumeWithoutError p s with
       | (s', .again) => exec fuel C.P gd (desugar stmt) .run s'
       | (s', .next) => (s', .normal)
       | (s', .out o) => (s', o)) := by
  have hea : σ.errAddr = none := by
    have := hr.inH; rw [hin] at this
    cases h : σ.errAddr with
    | none => rfl
    | some a => rw [h] at this; cases this
  refine simple_unit hC ih hc hl hw hm hms hnx (Steps.refl σ) (y := { σ with errCode := none })
    (by show off ≤ σ.b.pc; omega) (by show σ.b.pc < _; omega) (hstep hea) ⟨rfl, rfl, rfl, rfl, rfl⟩ rfl hi.he rfl rfl rfl ?_ hi
  exact { base := hr.base, handler := hr.handler, hfd := hr.hfd, inH := hr.inH,
          err := fun h => by rw [hin] at h; cases h }

theorem case_resume (C : Ctx) (hC : C.Ok) (fuel : Nat) (ih : StmtIHle C fuel) (p : Pos)
    (sfx : String) (d e off nx vb gd : Nat) (m : Mode) (σ : EVm) (s : ESt)
    (hc : CodeAt C.prog.code off (compileStmt C.env sfx d e off (.resume p)))
    (hl : LabAt C.env d e off (.resume p)) (hw : Wf C.sl C.env.dp C.rl d e (.resume p))
    (hm : MarksAt C.prog.marks (marksStmt C.env.dp d e off (.resume p)) nx)
    (hnx : off + sizeStmt C.env.dp d e (.resume p) ≤ nx)
    (hen : Entry C.env off (.resume p) m σ) (hr : ERel C.sl C.env s σ) (hi : Inv C d e vb gd σ) :
    StmtSpec C d e vb (off + sizeStmt C.env.dp d e (.resume p)) nx σ
      (exec (fuel + 1) C.P gd (desugar (.resume p)) m s) := by
  obtain ⟨rfl, hpc⟩ := hen.of_nolabels rfl
  have hc' := hc
  simp only [compileStmt] at hc'
  have h0 : C.prog.code[σ.b.pc]? = some (.resume, p) := by rw [hpc]; exact hc'.head
  simp only [desugar, exec]
  cases hin : s.inH with
  | true =>
    simp only [if_true]
    exact resumed_spec (k := .again) h0 hr hin (fun _ h => by cases h)
  | false =>
    simp only [Bool.false_eq_true, if_false]
    exact resume_without_error hC ih hc hl hw hm rfl rfl hnx hpc
      (fun hea => by simp only [step, h0, hea]) hr hin hi

theorem case_resumeNext (C : Ctx) (hC : C.Ok) (fuel : Nat) (ih : StmtIHle C fuel) (p : Pos)
    (sfx : String) (d e off nx vb gd : Nat) (m : Mode) (σ : EVm) (s : ESt)
    (hc : CodeAt C.prog.code off (compileStmt C.env sfx d e off (.resumeNext p)))
    (hl : LabAt C.env d e off (.resumeNext p)) (hw : Wf C.sl C.env.dp C.rl d e (.resumeNext p))
    (hm : MarksAt C.prog.marks (marksStmt C.env.dp d e off (.resumeNext p)) nx)
    (hnx : off + sizeStmt C.env.dp d e (.resumeNext p) ≤ nx)
    (hen : Entry C.env off (.resumeNext p) m σ) (hr : ERel C.sl C.env s σ) (hi : Inv C d e vb gd σ) :
    StmtSpec C d e vb (off + sizeStmt C.env.dp d e (.resumeNext p)) nx σ
      (exec (fuel + 1) C.P gd (desugar (.resumeNext p)) m s) := by
  obtain ⟨rfl, hpc⟩ := hen.of_nolabels rfl
  have hc' := hc
  simp only [compileStmt] at hc'
  have h0 : C.prog.code[σ.b.pc]? = some (.resumeNext, p) := by rw [hpc]; exact hc'.head
  simp only [desugar, exec]
  cases hin : s.inH with
  | true =>
    simp only [if_true]
    exact resumed_spec (k := .next) h0 hr hin (fun _ h => by cases h)
  | false =>
    simp only [Bool.false_eq_true, if_false]
    exact resume_without_error hC ih hc hl hw hm rfl rfl hnx hpc
      (fun hea => by simp only [step, h0, hea]) hr hin hi

theorem case_resumeLabel (C : Ctx) (hC : C.Ok) (fuel : Nat) (ih : StmtIHle C fuel) (L : Nat) (p : Pos)
    (sfx : String) (d e off nx vb gd : Nat) (m : Mode) (σ : EVm) (s : ESt)
    (hc : CodeAt C.prog.code off (compileStmt C.env sfx d e off (.resumeLabel L p)))
    (hl : LabAt C.env d e off (.resumeLabel L p)) (hw : Wf C.sl C.env.dp C.rl d e (.resumeLabel L p))
    (hm : MarksAt C.prog.marks (marksStmt C.env.dp d e off (.resumeLabel L p)) nx)
    (hnx : off + sizeStmt C.env.dp d e (.resumeLabel L p) ≤ nx)
    (hen : Entry C.env off (.resumeLabel L p) m σ) (hr : ERel C.sl C.env s σ) (hi : Inv C d e vb gd σ) :
    StmtSpec C d e vb (off + sizeStmt C.env.dp d e (.resumeLabel L p)) nx σ
      (exec (fuel + 1) C.P gd (desugar (.resumeLabel L p)) m s) := by
  obtain ⟨rfl, hpc⟩ := hen.of_nolabels rfl
  have hc' := hc
  simp only [compileStmt] at hc'
  have h0 : C.prog.code[σ.b.pc]? = some (.resumeLabel (C.env.addr L), p) := by rw [hpc]; exact hc'.head
  simp only [desugar, exec]
  cases hin : s.inH with
  | true =>
    simp only [if_true]
    obtain ⟨w1, w2, w3⟩ := hw
    exact resumed_spec (k := .label L) h0 hr hin (fun L' h => by cases h; exact ⟨w3, hC.gosubOk L w1, w1, w2⟩)
  | false =>
    simp only [Bool.false_eq_true, if_false]
    exact resume_without_error hC ih hc hl hw hm rfl rfl hnx hpc
      (fun hea => by simp only [step, h0, hea]) hr hin hi

end RbThm.ErrLSim
