import Thm.C08Layers2
/-!
# C11 (run-time half) for the combined procedures + arrays layer — the reported position is the prescribed one

`Thm/C11Layers.lean` proves for the procedures, arrays and records layers that the position reported with a run-time
error is a position carried by a node of the program.  This file does the same for the combined layer
`RbModel.ProcArr` (core language + SUB / FUNCTION + arrays of scalars in every ordinary scope + array elements as
by-reference actuals), from the layer's simulation theorem (`RbThm.ProcArrSim.compile_correct_checked`, through
`RbThm.C08Layers2.ProcArrs.ends`) and an induction over the layer's reference semantics `ProcArr.Ref`:

* `runtime_error_pos_is_ref_pos` — for a program the layer's premise checker `progWfB` accepts on which the layer's
  reference run finishes, whatever error the VM model stops with, at any step budget, is the reference's: same code,
  same position (`step` is a function).
* `ref_error_pos_within_program` — the position the reference semantics prescribes for an error is a position carried
  by a node of the source tree (`SStmt`): of the main module or of the body of a procedure.  By induction on fuel over
  the fifteen mutually recursive functions of `ProcArr.Ref` (`errPos_all`), then through `desugar` (`desugar_posns`:
  desugaring adds no positions).  No premise: this holds of every tree.
* `runtime_error_pos_within_program` — both together.
* `error_in_procedure_at_body_pos` — an error raised while the body of a procedure runs is reported at the failing
  position inside that body (or inside a procedure it calls), never at the call site.

Positions the model uses for the array constructs (all carried by a node):
* a subscript that does not convert to INTEGER: the subscript expression's own position (`evalIdx` → `evalTo`);
* element read out of range / array not dimensioned (9): the element expression's position (`Expr.elem … p`);
* element assignment out of range (9): the statement's position (`assignElem … p`);
* an element passed by reference: read error 9 and the (never failing, types agree) conversion to the parameter type
  at the element expression's position (`evalArg`);
* `DIM`: a bound that does not convert to INTEGER and `u < l` (9) at the statement's position (`dimArr … p`); an error
  inside a bound expression at its own position.

Whether a node's position lies inside the node's *text* is the parser fact `PosNested` (checked by the fault-injection
run, not proved), as for the other layers.
-/

namespace RbThm.C11Layers2.ProcArrs
set_option linter.unusedVariables false
open RbModel RbModel.Num RbModel.ProcArr RbModel.ProcArr.Compile RbModel.ProcArr.Vm RbModel.ProcArr.Ref
open RbModel.Ast (Pos)

/-! ### positions that occur in a piece of syntax -/

mutual
def exprPosns : ProcArr.Expr → List Pos
  | .lit _ p => [p]
  | .var _ _ p => [p]
  | .un _ e p => p :: exprPosns e
  | .bin _ l r _ p => p :: (exprPosns l ++ exprPosns r)
  | .paren e p => p :: exprPosns e
  | .callFn _ args _ p => p :: argsPosns args
  | .elem _ idx _ p => p :: exprsPosns idx
def exprsPosns : Exprs → List Pos
  | .nil => []
  | .cons e rest => exprPosns e ++ exprsPosns rest
def argsPosns : Args → List Pos
  | .nil => []
  | .cons e _ _ rest => exprPosns e ++ argsPosns rest
end

def itemPosns : PrintItem → List Pos
  | .expr e => exprPosns e
  | _ => []

def caseExprPosns : CaseExpr → List Pos
  | .simple e => exprPosns e
  | .is _ e => exprPosns e
  | .range lo hi => exprPosns lo ++ exprPosns hi

def optExprPosns : Option ProcArr.Expr → List Pos
  | none => []
  | some e => exprPosns e

def dimsPosns : Dims → List Pos
  | .nil => []
  | .cons lo hi rest => optExprPosns lo ++ exprPosns hi ++ dimsPosns rest

mutual
/-- every position that occurs in a statement of the reference syntax -/
def stmtPosns : Stmt → List Pos
  | .skip => []
  | .seq a b => stmtPosns a ++ stmtPosns b
  | .assign _ _ e p => p :: exprPosns e
  | .dimArr _ _ dims p => p :: dimsPosns dims
  | .assignElem _ _ idx e p => p :: (exprsPosns idx ++ exprPosns e)
  | .print items p => p :: items.flatMap itemPosns
  | .read _ _ p => [p]
  | .ifs c thn els p => p :: (exprPosns c ++ stmtPosns thn ++ stmtPosns els)
  | .select e cs p => p :: (exprPosns e ++ casesPosns cs)
  | .forLoop _ _ lo hi step body p => p :: (exprPosns lo ++ exprPosns hi ++ optExprPosns step ++ stmtPosns body)
  | .while c body p => p :: (exprPosns c ++ stmtPosns body)
  | .doLoop c _ _ body p => p :: (exprPosns c ++ stmtPosns body)
  | .end_ p => [p]
  | .callSub _ args p => p :: argsPosns args
  | .exitProc p => [p]
def casesPosns : Cases → List Pos
  | .nil => []
  | .else_ body => stmtPosns body
  | .case conds body rest => conds.flatMap caseExprPosns ++ stmtPosns body ++ casesPosns rest
end

theorem pos_mem_exprPosns (e : ProcArr.Expr) : e.pos ∈ exprPosns e := by
  cases e <;> simp [Expr.pos, exprPosns]

/-! ### the leaves -/

theorem liftR_err {s s' : St} {q : Pos} {r : Res Val} {c : Nat} {p : Pos}
    (h : liftR s q r = (s', .error (.error c p))) : p = q := by
  cases r <;> simp [liftR] at h
  exact h.2.2.symm

theorem relTest_err {q : Pos} {op : Op} {a b : Val} {c : Nat} {p : Pos}
    (h : relTest q op a b = .error (.error c p)) : p = q := by
  unfold relTest at h
  split at h
  · cases h
  · simp only [Except.error.injEq, Outcome.error.injEq] at h; exact h.2.symm
  · cases h

theorem stepSign_err {q : Pos} {v : Val} {c : Nat} {p : Pos} (h : stepSign q v = .error (.error c p)) : p = q := by
  unfold stepSign at h
  split at h
  · rename_i o ho; cases h; exact relTest_err ho
  · cases h
  · split at h
    · rename_i o ho; cases h; exact relTest_err ho
    · cases h
    · cases h

/-- Subscript out of range (the only error of an element access) is raised at the position handed in -/
theorem readElem_err {s : St} {a : Nat} {is : List Int} {q : Pos} {c : Nat} {p : Pos}
    (h : s.readElem a is q = .error (.error c p)) : p = q := by
  unfold St.readElem at h
  split at h
  · split at h
    · cases h
    · simp only [Except.error.injEq, Outcome.error.injEq] at h; exact h.2.symm
  · simp only [Except.error.injEq, Outcome.error.injEq] at h; exact h.2.symm

theorem convDims_err {q : Pos} {c : Nat} {p : Pos} :
    ∀ vs, convDims q vs = .error (.error c p) → p = q
  | [], h => by simp [convDims] at h
  | (l, hv) :: rest, h => by
    simp only [convDims] at h
    split at h
    · simp only [Except.error.injEq, Outcome.error.injEq] at h; exact h.2.symm
    · cases h
    · split at h
      · simp only [Except.error.injEq, Outcome.error.injEq] at h; exact h.2.symm
      · cases h
      · split at h
        · cases h
        · rename_i o ho
          simp only [Except.error.injEq] at h
          subst h
          exact convDims_err rest ho
      · cases h
    · cases h

theorem dimArray_err {t : Ty} {bs : List (Val × Val)} {q : Pos} {c : Nat} {p : Pos}
    (h : dimArray t bs q = .error (.error c p)) : p = q := by
  unfold dimArray at h
  split at h
  · rename_i o ho
    simp only [Except.error.injEq] at h
    subst h
    exact convDims_err bs ho
  · split at h
    · simp only [Except.error.injEq, Outcome.error.injEq] at h; exact h.2.symm
    · split at h <;> cases h

/-! ### the fifteen mutually recursive functions -/

/-- the claim at a given amount of fuel.  `Q` is any property of positions that holds of every position occurring in
the body of every procedure of the program (`hG` below); then an error raised while a piece of syntax runs — inside it
or inside a procedure it calls, to any depth — is reported at a position with property `Q`, provided every position
occurring in that piece of syntax has it. -/
structure ErrPos (P : Program) (Q : Pos → Prop) (fuel : Nat) : Prop where
  eval : ∀ e s s' c p, ProcArr.Ref.eval P fuel e s = (s', .error (.error c p)) → (∀ q ∈ exprPosns e, Q q) → Q p
  evalIdx : ∀ idx s s' c p, ProcArr.Ref.evalIdx P fuel idx s = (s', .error (.error c p)) → (∀ q ∈ exprsPosns idx, Q q) → Q p
  evalElem : ∀ a idx q0 s s' c p, ProcArr.Ref.evalElem P fuel a idx q0 s = (s', .error (.error c p)) →
    Q q0 → (∀ q ∈ exprsPosns idx, Q q) → Q p
  evalTo : ∀ e t s s' c p, ProcArr.Ref.evalTo P fuel e t s = (s', .error (.error c p)) → (∀ q ∈ exprPosns e, Q q) → Q p
  evalArg : ∀ e t s s' c p, ProcArr.Ref.evalArg P fuel e t s = (s', .error (.error c p)) → (∀ q ∈ exprPosns e, Q q) → Q p
  evalArgs : ∀ args s s' c p, ProcArr.Ref.evalArgs P fuel args s = (s', .error (.error c p)) →
    (∀ q ∈ argsPosns args, Q q) → Q p
  evalDims : ∀ dims s s' c p, ProcArr.Ref.evalDims P fuel dims s = (s', .error (.error c p)) →
    (∀ q ∈ dimsPosns dims, Q q) → Q p
  call : ∀ f args s s' c p, ProcArr.Ref.call P fuel f args s = (s', .error (.error c p)) → (∀ q ∈ argsPosns args, Q q) → Q p
  printItems : ∀ items s s' c p, ProcArr.Ref.printItems P fuel items s = (s', .error c p) →
    (∀ q ∈ items.flatMap itemPosns, Q q) → Q p
  evalCond : ∀ e s s' c p, ProcArr.Ref.evalCond P fuel e s = (s', .error (.error c p)) → (∀ q ∈ exprPosns e, Q q) → Q p
  caseMatches : ∀ q0 subj ce s s' c p, ProcArr.Ref.caseMatches P fuel q0 subj ce s = (s', .error (.error c p)) →
    Q q0 → (∀ q ∈ caseExprPosns ce, Q q) → Q p
  anyMatches : ∀ q0 subj conds s s' c p, ProcArr.Ref.anyMatches P fuel q0 subj conds s = (s', .error (.error c p)) →
    Q q0 → (∀ q ∈ conds.flatMap caseExprPosns, Q q) → Q p
  exec : ∀ st s s' c p, ProcArr.Ref.exec P fuel st s = (s', .error c p) → (∀ q ∈ stmtPosns st, Q q) → Q p
  execCases : ∀ q0 subj cs s s' c p, ProcArr.Ref.execCases P fuel q0 subj cs s = (s', .error c p) →
    Q q0 → (∀ q ∈ casesPosns cs, Q q) → Q p
  forIter : ∀ x t hv sv up body q0 s s' c p, ProcArr.Ref.forIter P fuel x t hv sv up body q0 s = (s', .error c p) →
    Q q0 → (∀ q ∈ stmtPosns body, Q q) → Q p

theorem errPos_zero (P : Program) (Q : Pos → Prop) : ErrPos P Q 0 := by
  refine ⟨?_, ?_, ?_, ?_, ?_, ?_, ?_, ?_, ?_, ?_, ?_, ?_, ?_, ?_, ?_⟩
  · intro e s s' c p h; simp [ProcArr.Ref.eval] at h
  · intro idx s s' c p h; simp [ProcArr.Ref.evalIdx] at h
  · intro a idx q0 s s' c p h; simp [ProcArr.Ref.evalElem] at h
  · intro e t s s' c p h; simp [ProcArr.Ref.evalTo] at h
  · intro e t s s' c p h; simp [ProcArr.Ref.evalArg] at h
  · intro args s s' c p h; simp [ProcArr.Ref.evalArgs] at h
  · intro dims s s' c p h; simp [ProcArr.Ref.evalDims] at h
  · intro f args s s' c p h; simp [ProcArr.Ref.call] at h
  · intro items s s' c p h; simp [ProcArr.Ref.printItems] at h
  · intro e s s' c p h; simp [ProcArr.Ref.evalCond] at h
  · intro q0 subj ce s s' c p h; simp [ProcArr.Ref.caseMatches] at h
  · intro q0 subj conds s s' c p h; simp [ProcArr.Ref.anyMatches] at h
  · intro st s s' c p h; simp [ProcArr.Ref.exec] at h
  · intro q0 subj cs s s' c p h; simp [ProcArr.Ref.execCases] at h
  · intro x t hv sv up body q0 s s' c p h; simp [ProcArr.Ref.forIter] at h

section succ
variable {P : Program} {Q : Pos → Prop} (hG : ∀ d, d ∈ P.procs → ∀ q ∈ stmtPosns d.body, Q q)
variable {n : Nat} (ih : ErrPos P Q n)
include ih

theorem succ_eval : ∀ e s s' c p, ProcArr.Ref.eval P (n + 1) e s = (s', .error (.error c p)) →
    (∀ q ∈ exprPosns e, Q q) → Q p := by
  intro e s s' c p h hQ
  cases e with
  | lit v q => simp [ProcArr.Ref.eval] at h
  | var x t q => simp [ProcArr.Ref.eval] at h
  | un op e q =>
    simp only [ProcArr.Ref.eval] at h
    split at h
    · rw [liftR_err h]; exact hQ _ (by simp [exprPosns])
    · exact ih.eval e _ _ c p h (fun x hx => hQ x (by simp [exprPosns, hx]))
  | bin op l r t q =>
    simp only [ProcArr.Ref.eval] at h
    split at h
    · split at h
      · rw [liftR_err h]; exact hQ _ (by simp [exprPosns])
      · exact ih.eval r _ _ c p h (fun x hx => hQ x (by simp [exprPosns, hx]))
    · exact ih.eval l _ _ c p h (fun x hx => hQ x (by simp [exprPosns, hx]))
  | paren e q =>
    simp only [ProcArr.Ref.eval] at h
    exact ih.eval e _ _ c p h (fun x hx => hQ x (by simp [exprPosns, hx]))
  | callFn f args t q =>
    simp only [ProcArr.Ref.eval] at h
    exact ih.call f args _ _ c p h (fun x hx => hQ x (by simp [exprPosns, hx]))
  | elem a idx t q =>
    simp only [ProcArr.Ref.eval] at h
    split at h
    · simp at h
    · rename_i s1 o ho
      simp only [Prod.mk.injEq, Except.error.injEq] at h
      obtain ⟨rfl, rfl⟩ := h
      exact ih.evalElem a idx q _ _ c p ho (hQ _ (by simp [exprPosns]))
        (fun x hx => hQ x (by simp [exprPosns, hx]))

theorem succ_evalIdx : ∀ idx s s' c p, ProcArr.Ref.evalIdx P (n + 1) idx s = (s', .error (.error c p)) →
    (∀ q ∈ exprsPosns idx, Q q) → Q p := by
  intro idx s s' c p h hQ
  cases idx with
  | nil => simp [ProcArr.Ref.evalIdx] at h
  | cons e rest =>
    simp only [ProcArr.Ref.evalIdx] at h
    split at h
    · rename_i s1 o ho
      simp only [Prod.mk.injEq, Except.error.injEq] at h
      obtain ⟨rfl, rfl⟩ := h
      exact ih.evalTo e .int _ _ c p ho (fun x hx => hQ x (by simp [exprsPosns, hx]))
    · split at h
      · rename_i s2 o ho
        simp only [Prod.mk.injEq, Except.error.injEq] at h
        obtain ⟨rfl, rfl⟩ := h
        exact ih.evalIdx rest _ _ c p ho (fun x hx => hQ x (by simp [exprsPosns, hx]))
      · simp at h
    · simp at h

theorem succ_evalElem : ∀ a idx q0 s s' c p, ProcArr.Ref.evalElem P (n + 1) a idx q0 s = (s', .error (.error c p)) →
    Q q0 → (∀ q ∈ exprsPosns idx, Q q) → Q p := by
  intro a idx q0 s s' c p h h0 hQ
  simp only [ProcArr.Ref.evalElem] at h
  split at h
  · rename_i s1 o ho
    simp only [Prod.mk.injEq, Except.error.injEq] at h
    obtain ⟨rfl, rfl⟩ := h
    exact ih.evalIdx idx _ _ c p ho hQ
  · split at h
    · simp at h
    · rename_i o ho
      simp only [Prod.mk.injEq, Except.error.injEq] at h
      obtain ⟨_, rfl⟩ := h
      rw [readElem_err ho]; exact h0

theorem succ_evalTo : ∀ e t s s' c p, ProcArr.Ref.evalTo P (n + 1) e t s = (s', .error (.error c p)) →
    (∀ q ∈ exprPosns e, Q q) → Q p := by
  intro e t s s' c p h hQ
  simp only [ProcArr.Ref.evalTo] at h
  split at h
  · rw [liftR_err h]; exact hQ _ (pos_mem_exprPosns e)
  · exact ih.eval e _ _ c p h hQ

theorem succ_evalArg : ∀ e t s s' c p, ProcArr.Ref.evalArg P (n + 1) e t s = (s', .error (.error c p)) →
    (∀ q ∈ exprPosns e, Q q) → Q p := by
  intro e t s s' c p h hQ
  have other : ∀ e : ProcArr.Expr, (∀ q ∈ exprPosns e, Q q) →
      (match ProcArr.Ref.evalTo P n e t s with
        | (s1, .error o) => (s1, Except.error o)
        | (s1, .ok v) => (s1, .ok (v, (none : Option Loc)))) = (s', .error (.error c p)) → Q p := by
    intro e hQ h
    split at h
    · rename_i s1 o ho
      simp only [Prod.mk.injEq, Except.error.injEq] at h
      obtain ⟨rfl, rfl⟩ := h
      exact ih.evalTo e t _ _ c p ho hQ
    · simp at h
  cases e with
  | elem a idx te q =>
    simp only [ProcArr.Ref.evalArg] at h
    split at h
    · rename_i s1 o ho
      simp only [Prod.mk.injEq, Except.error.injEq] at h
      obtain ⟨rfl, rfl⟩ := h
      exact ih.evalElem a idx q _ _ c p ho (hQ _ (by simp [exprPosns]))
        (fun x hx => hQ x (by simp [exprPosns, hx]))
    · split at h
      · simp at h
      · rename_i s2 o ho
        simp only [Prod.mk.injEq, Except.error.injEq] at h
        obtain ⟨rfl, rfl⟩ := h
        rw [liftR_err ho]; exact hQ _ (by simp [exprPosns])
  | lit v q => simp only [ProcArr.Ref.evalArg] at h; exact other _ hQ h
  | var x tv q => simp only [ProcArr.Ref.evalArg] at h; exact other _ hQ h
  | un op e q => simp only [ProcArr.Ref.evalArg] at h; exact other _ hQ h
  | bin op l r tb q => simp only [ProcArr.Ref.evalArg] at h; exact other _ hQ h
  | paren e q => simp only [ProcArr.Ref.evalArg] at h; exact other _ hQ h
  | callFn f args tf q => simp only [ProcArr.Ref.evalArg] at h; exact other _ hQ h

theorem succ_evalArgs : ∀ args s s' c p, ProcArr.Ref.evalArgs P (n + 1) args s = (s', .error (.error c p)) →
    (∀ q ∈ argsPosns args, Q q) → Q p := by
  intro args s s' c p h hQ
  cases args with
  | nil => simp [ProcArr.Ref.evalArgs] at h
  | cons e pn pt rest =>
    simp only [ProcArr.Ref.evalArgs] at h
    split at h
    · rename_i s1 o ho
      simp only [Prod.mk.injEq, Except.error.injEq] at h
      obtain ⟨rfl, rfl⟩ := h
      exact ih.evalArg e pt _ _ c p ho (fun x hx => hQ x (by simp [argsPosns, hx]))
    · split at h
      · rename_i s2 o ho
        simp only [Prod.mk.injEq, Except.error.injEq] at h
        obtain ⟨rfl, rfl⟩ := h
        exact ih.evalArgs rest _ _ c p ho (fun x hx => hQ x (by simp [argsPosns, hx]))
      · simp at h

theorem succ_evalDims : ∀ dims s s' c p, ProcArr.Ref.evalDims P (n + 1) dims s = (s', .error (.error c p)) →
    (∀ q ∈ dimsPosns dims, Q q) → Q p := by
  intro dims s s' c p h hQ
  cases dims with
  | nil => simp [ProcArr.Ref.evalDims] at h
  | cons lo hi rest =>
    simp only [ProcArr.Ref.evalDims] at h
    split at h
    · rename_i s1 o ho
      simp only [Prod.mk.injEq, Except.error.injEq] at h
      obtain ⟨rfl, rfl⟩ := h
      cases lo with
      | none => simp at ho
      | some e =>
        simp only at ho
        exact ih.eval e _ _ c p ho (fun x hx => hQ x (by simp [dimsPosns, optExprPosns, hx]))
    · split at h
      · rename_i s2 o ho
        simp only [Prod.mk.injEq, Except.error.injEq] at h
        obtain ⟨rfl, rfl⟩ := h
        exact ih.eval hi _ _ c p ho (fun x hx => hQ x (by simp [dimsPosns, hx]))
      · split at h
        · rename_i s3 o ho
          simp only [Prod.mk.injEq, Except.error.injEq] at h
          obtain ⟨rfl, rfl⟩ := h
          exact ih.evalDims rest _ _ c p ho (fun x hx => hQ x (by simp [dimsPosns, hx]))
        · simp at h

include hG in
theorem succ_call : ∀ f args s s' c p, ProcArr.Ref.call P (n + 1) f args s = (s', .error (.error c p)) →
    (∀ q ∈ argsPosns args, Q q) → Q p := by
  intro f args s s' c p h hQ
  simp only [ProcArr.Ref.call] at h
  split at h
  · simp at h
  · rename_i d hd
    split at h
    · rename_i s1 o ho
      simp only [Prod.mk.injEq, Except.error.injEq] at h
      obtain ⟨rfl, rfl⟩ := h
      exact ih.evalArgs args _ _ c p ho hQ
    · split at h
      · simp at h
      · simp only [Prod.mk.injEq, Except.error.injEq] at h
        exact ih.exec d.body _ _ c p (Prod.ext rfl h.2) (hG d (List.mem_of_getElem? hd))

theorem succ_printItems : ∀ items s s' c p, ProcArr.Ref.printItems P (n + 1) items s = (s', .error c p) →
    (∀ q ∈ items.flatMap itemPosns, Q q) → Q p := by
  intro items s s' c p h hQ
  cases items with
  | nil => simp [ProcArr.Ref.printItems] at h
  | cons it rest =>
    cases it with
    | comma =>
      simp only [ProcArr.Ref.printItems] at h
      exact ih.printItems rest _ _ c p h (fun x hx => hQ x (by simp [itemPosns, hx]))
    | semicolon =>
      simp only [ProcArr.Ref.printItems] at h
      exact ih.printItems rest _ _ c p h (fun x hx => hQ x (by simp [itemPosns, hx]))
    | expr e =>
      simp only [ProcArr.Ref.printItems] at h
      split at h
      · rename_i s1 o ho
        simp only [Prod.mk.injEq] at h
        obtain ⟨rfl, rfl⟩ := h
        exact ih.eval e _ _ c p ho (fun x hx => hQ x (by simp [itemPosns, hx]))
      · split at h
        · simp at h
        · exact ih.printItems rest _ _ c p h (fun x hx => hQ x (by simp [itemPosns, hx]))

theorem succ_evalCond : ∀ e s s' c p, ProcArr.Ref.evalCond P (n + 1) e s = (s', .error (.error c p)) →
    (∀ q ∈ exprPosns e, Q q) → Q p := by
  intro e s s' c p h hQ
  simp only [ProcArr.Ref.evalCond] at h
  split at h
  · rename_i s1 o ho
    simp only [Prod.mk.injEq, Except.error.injEq] at h
    obtain ⟨rfl, rfl⟩ := h
    exact ih.eval e _ _ c p ho hQ
  · split at h
    · simp at h
    · simp only [Prod.mk.injEq, Except.error.injEq, Outcome.error.injEq] at h
      rw [← h.2.2]; exact hQ _ (pos_mem_exprPosns e)

theorem succ_caseMatches : ∀ q0 subj ce s s' c p,
    ProcArr.Ref.caseMatches P (n + 1) q0 subj ce s = (s', .error (.error c p)) →
    Q q0 → (∀ q ∈ caseExprPosns ce, Q q) → Q p := by
  intro q0 subj ce s s' c p h h0 hQ
  cases ce with
  | simple e =>
    simp only [ProcArr.Ref.caseMatches] at h
    split at h
    · rename_i s1 o ho
      simp only [Prod.mk.injEq, Except.error.injEq] at h
      obtain ⟨rfl, rfl⟩ := h
      exact ih.eval e _ _ c p ho (fun x hx => hQ x (by simpa [caseExprPosns] using hx))
    · simp only [Prod.mk.injEq] at h
      rw [relTest_err h.2]; exact h0
  | is op e =>
    simp only [ProcArr.Ref.caseMatches] at h
    split at h
    · rename_i s1 o ho
      simp only [Prod.mk.injEq, Except.error.injEq] at h
      obtain ⟨rfl, rfl⟩ := h
      exact ih.eval e _ _ c p ho (fun x hx => hQ x (by simpa [caseExprPosns] using hx))
    · simp only [Prod.mk.injEq] at h
      rw [relTest_err h.2]; exact h0
  | range lo hi =>
    simp only [ProcArr.Ref.caseMatches] at h
    split at h
    · rename_i s1 o ho
      simp only [Prod.mk.injEq, Except.error.injEq] at h
      obtain ⟨rfl, rfl⟩ := h
      exact ih.eval lo _ _ c p ho (fun x hx => hQ x (by simp [caseExprPosns, hx]))
    · split at h
      · rename_i o ho
        simp only [Prod.mk.injEq, Except.error.injEq] at h
        obtain ⟨_, rfl⟩ := h
        rw [relTest_err ho]; exact h0
      · simp at h
      · split at h
        · rename_i s2 o ho
          simp only [Prod.mk.injEq, Except.error.injEq] at h
          obtain ⟨rfl, rfl⟩ := h
          exact ih.eval hi _ _ c p ho (fun x hx => hQ x (by simp [caseExprPosns, hx]))
        · simp only [Prod.mk.injEq] at h
          rw [relTest_err h.2]; exact h0

theorem succ_anyMatches : ∀ q0 subj conds s s' c p,
    ProcArr.Ref.anyMatches P (n + 1) q0 subj conds s = (s', .error (.error c p)) →
    Q q0 → (∀ q ∈ conds.flatMap caseExprPosns, Q q) → Q p := by
  intro q0 subj conds s s' c p h h0 hQ
  cases conds with
  | nil => simp [ProcArr.Ref.anyMatches] at h
  | cons ce rest =>
    simp only [ProcArr.Ref.anyMatches] at h
    split at h
    · rename_i s1 o ho
      simp only [Prod.mk.injEq, Except.error.injEq] at h
      obtain ⟨rfl, rfl⟩ := h
      exact ih.caseMatches q0 subj ce _ _ c p ho h0 (fun x hx => hQ x (by simp [hx]))
    · simp at h
    · exact ih.anyMatches q0 subj rest _ _ c p h h0 (fun x hx => hQ x (by simp [hx]))

theorem succ_exec : ∀ st s s' c p, ProcArr.Ref.exec P (n + 1) st s = (s', .error c p) →
    (∀ q ∈ stmtPosns st, Q q) → Q p := by
  intro st s s' c p h hQ
  cases st with
  | skip => simp [ProcArr.Ref.exec] at h
  | end_ q => simp [ProcArr.Ref.exec] at h
  | exitProc q => simp [ProcArr.Ref.exec] at h
  | seq a b =>
    simp only [ProcArr.Ref.exec] at h
    split at h
    · exact ih.exec b _ _ c p h (fun x hx => hQ x (by simp [stmtPosns, hx]))
    · exact ih.exec a _ _ c p h (fun x hx => hQ x (by simp [stmtPosns, hx]))
  | assign x t e q =>
    simp only [ProcArr.Ref.exec] at h
    split at h
    · simp at h
    · rename_i s1 o ho
      simp only [Prod.mk.injEq] at h
      obtain ⟨rfl, rfl⟩ := h
      exact ih.evalTo e t _ _ c p ho (fun x hx => hQ x (by simp [stmtPosns, hx]))
  | dimArr a t dims q =>
    simp only [ProcArr.Ref.exec] at h
    split at h
    · rename_i s1 o ho
      simp only [Prod.mk.injEq] at h
      obtain ⟨rfl, rfl⟩ := h
      exact ih.evalDims dims _ _ c p ho (fun x hx => hQ x (by simp [stmtPosns, hx]))
    · split at h
      · simp at h
      · rename_i o ho
        simp only [Prod.mk.injEq] at h
        obtain ⟨_, rfl⟩ := h
        rw [dimArray_err ho]; exact hQ _ (by simp [stmtPosns])
  | assignElem a t idx e q =>
    simp only [ProcArr.Ref.exec] at h
    split at h
    · rename_i s1 o ho
      simp only [Prod.mk.injEq] at h
      obtain ⟨rfl, rfl⟩ := h
      exact ih.evalTo e t _ _ c p ho (fun x hx => hQ x (by simp [stmtPosns, hx]))
    · split at h
      · rename_i s2 o ho
        simp only [Prod.mk.injEq] at h
        obtain ⟨rfl, rfl⟩ := h
        exact ih.evalIdx idx _ _ c p ho (fun x hx => hQ x (by simp [stmtPosns, hx]))
      · split at h
        · simp at h
        · rename_i o ho
          simp only [Prod.mk.injEq] at h
          obtain ⟨_, rfl⟩ := h
          rw [readElem_err ho]; exact hQ _ (by simp [stmtPosns])
  | print items q =>
    simp only [ProcArr.Ref.exec] at h
    split at h
    · split at h <;> simp at h
    · exact ih.printItems items _ _ c p h (fun x hx => hQ x (by simp [stmtPosns, hx]))
  | read x t q =>
    simp only [ProcArr.Ref.exec] at h
    split at h
    · simp only [Prod.mk.injEq, Outcome.error.injEq] at h
      rw [← h.2.2]; exact hQ _ (by simp [stmtPosns])
    · split at h
      · simp at h
      · simp only [Prod.mk.injEq, Outcome.error.injEq] at h
        rw [← h.2.2]; exact hQ _ (by simp [stmtPosns])
      · simp at h
  | ifs cnd thn els q =>
    simp only [ProcArr.Ref.exec] at h
    split at h
    · rename_i s1 o ho
      simp only [Prod.mk.injEq] at h
      obtain ⟨rfl, rfl⟩ := h
      exact ih.evalCond cnd _ _ c p ho (fun x hx => hQ x (by simp [stmtPosns, hx]))
    · exact ih.exec thn _ _ c p h (fun x hx => hQ x (by simp [stmtPosns, hx]))
    · exact ih.exec els _ _ c p h (fun x hx => hQ x (by simp [stmtPosns, hx]))
  | select e cs q =>
    simp only [ProcArr.Ref.exec] at h
    split at h
    · rename_i s1 o ho
      simp only [Prod.mk.injEq] at h
      obtain ⟨rfl, rfl⟩ := h
      exact ih.eval e _ _ c p ho (fun x hx => hQ x (by simp [stmtPosns, hx]))
    · exact ih.execCases q _ cs _ _ c p h (hQ _ (by simp [stmtPosns])) (fun x hx => hQ x (by simp [stmtPosns, hx]))
  | forLoop x t lo hi step body q =>
    have hq : Q q := hQ _ (by simp [stmtPosns])
    have hb : ∀ y ∈ stmtPosns body, Q y := fun y hy => hQ y (by simp [stmtPosns, hy])
    simp only [ProcArr.Ref.exec] at h
    split at h
    · rename_i s1 o ho
      simp only [Prod.mk.injEq] at h
      obtain ⟨rfl, rfl⟩ := h
      exact ih.evalTo lo t _ _ c p ho (fun y hy => hQ y (by simp [stmtPosns, hy]))
    · split at h
      · rename_i s2 o ho
        simp only [Prod.mk.injEq] at h
        obtain ⟨rfl, rfl⟩ := h
        exact ih.evalTo hi t _ _ c p ho (fun y hy => hQ y (by simp [stmtPosns, hy]))
      · split at h
        · exact ih.forIter _ _ _ _ _ body q _ _ c p h hq hb
        · rename_i se
          split at h
          · rename_i s3 o ho
            simp only [Prod.mk.injEq] at h
            obtain ⟨rfl, rfl⟩ := h
            exact ih.eval se _ _ c p ho (fun y hy => hQ y (by simp [stmtPosns, optExprPosns, hy]))
          · split at h
            · rename_i o ho
              simp only [Prod.mk.injEq] at h
              obtain ⟨_, rfl⟩ := h
              rw [stepSign_err ho]; exact hq
            · exact ih.forIter _ _ _ _ _ body q _ _ c p h hq hb
            · exact ih.forIter _ _ _ _ _ body q _ _ c p h hq hb
            · simp only [Prod.mk.injEq, Outcome.error.injEq] at h
              rw [← h.2.2]; exact hQ _ (by simp [stmtPosns, optExprPosns, pos_mem_exprPosns])
  | «while» cnd body q =>
    simp only [ProcArr.Ref.exec] at h
    split at h
    · rename_i s1 o ho
      simp only [Prod.mk.injEq] at h
      obtain ⟨rfl, rfl⟩ := h
      exact ih.evalCond cnd _ _ c p ho (fun x hx => hQ x (by simp [stmtPosns, hx]))
    · simp at h
    · split at h
      · exact ih.exec _ _ _ c p h hQ
      · exact ih.exec body _ _ c p h (fun x hx => hQ x (by simp [stmtPosns, hx]))
  | doLoop cnd top u body q =>
    simp only [ProcArr.Ref.exec] at h
    split at h
    · split at h
      · rename_i s1 o ho
        simp only [Prod.mk.injEq] at h
        obtain ⟨rfl, rfl⟩ := h
        exact ih.evalCond cnd _ _ c p ho (fun x hx => hQ x (by simp [stmtPosns, hx]))
      · split at h
        · split at h
          · exact ih.exec _ _ _ c p h hQ
          · exact ih.exec body _ _ c p h (fun x hx => hQ x (by simp [stmtPosns, hx]))
        · simp at h
    · split at h
      · split at h
        · rename_i s1 o ho
          simp only [Prod.mk.injEq] at h
          obtain ⟨rfl, rfl⟩ := h
          exact ih.evalCond cnd _ _ c p ho (fun x hx => hQ x (by simp [stmtPosns, hx]))
        · split at h
          · exact ih.exec _ _ _ c p h hQ
          · simp at h
      · exact ih.exec body _ _ c p h (fun x hx => hQ x (by simp [stmtPosns, hx]))
  | callSub f args q =>
    simp only [ProcArr.Ref.exec] at h
    split at h
    · simp at h
    · rename_i s1 o ho
      simp only [Prod.mk.injEq] at h
      obtain ⟨rfl, rfl⟩ := h
      exact ih.call f args _ _ c p ho (fun x hx => hQ x (by simp [stmtPosns, hx]))

theorem succ_execCases : ∀ q0 subj cs s s' c p, ProcArr.Ref.execCases P (n + 1) q0 subj cs s = (s', .error c p) →
    Q q0 → (∀ q ∈ casesPosns cs, Q q) → Q p := by
  intro q0 subj cs s s' c p h h0 hQ
  cases cs with
  | nil => simp [ProcArr.Ref.execCases] at h
  | else_ body =>
    simp only [ProcArr.Ref.execCases] at h
    exact ih.exec body _ _ c p h (fun x hx => hQ x (by simpa [casesPosns] using hx))
  | case conds body rest =>
    simp only [ProcArr.Ref.execCases] at h
    split at h
    · rename_i s1 o ho
      simp only [Prod.mk.injEq] at h
      obtain ⟨rfl, rfl⟩ := h
      exact ih.anyMatches q0 subj conds _ _ c p ho h0 (fun x hx => hQ x (by
        simp only [casesPosns, List.mem_append]; exact .inl (.inl hx)))
    · exact ih.exec body _ _ c p h (fun x hx => hQ x (by simp [casesPosns, hx]))
    · exact ih.execCases q0 subj rest _ _ c p h h0 (fun x hx => hQ x (by simp [casesPosns, hx]))

theorem succ_forIter : ∀ x t hv sv up body q0 s s' c p,
    ProcArr.Ref.forIter P (n + 1) x t hv sv up body q0 s = (s', .error c p) →
    Q q0 → (∀ q ∈ stmtPosns body, Q q) → Q p := by
  intro x t hv sv up body q0 s s' c p h h0 hQ
  simp only [ProcArr.Ref.forIter] at h
  split at h
  · rename_i o ho
    simp only [Prod.mk.injEq] at h
    obtain ⟨_, rfl⟩ := h
    rw [relTest_err ho]; exact h0
  · simp at h
  · split at h
    · split at h
      · exact ih.forIter _ _ _ _ _ body q0 _ _ c p h h0 hQ
      · simp only [Prod.mk.injEq, Outcome.error.injEq] at h
        rw [← h.2.2]; exact h0
      · simp at h
    · exact ih.exec body _ _ c p h hQ

end succ

theorem errPos_all {P : Program} {Q : Pos → Prop} (hG : ∀ d, d ∈ P.procs → ∀ q ∈ stmtPosns d.body, Q q) :
    ∀ n, ErrPos P Q n
  | 0 => errPos_zero P Q
  | n + 1 =>
    have ih := errPos_all hG n
    ⟨succ_eval ih, succ_evalIdx ih, succ_evalElem ih, succ_evalTo ih, succ_evalArg ih, succ_evalArgs ih,
      succ_evalDims ih, succ_call hG ih, succ_printItems ih, succ_evalCond ih, succ_caseMatches ih,
      succ_anyMatches ih, succ_exec ih, succ_execCases ih, succ_forIter ih⟩

/-! ### the source tree (`SStmt`, what the front end delivers) and its desugaring -/

mutual
/-- every position that occurs in a statement of the source syntax -/
def sstmtPosns : SStmt → List Pos
  | .skip => []
  | .seq a b => sstmtPosns a ++ sstmtPosns b
  | .comment => []
  | .dim _ _ p => [p]
  | .sdim _ _ p => [p]
  | .assign _ _ e p => p :: exprPosns e
  | .dimArr _ _ dims p => p :: dimsPosns dims
  | .assignElem _ _ idx e p => p :: (exprsPosns idx ++ exprPosns e)
  | .print items p => p :: items.flatMap itemPosns
  | .data items p => p :: items.map (·.2)
  | .read vars p => p :: vars.map (·.2.2)
  | .ifBlock c thn elifs _ els p => p :: (exprPosns c ++ sstmtPosns thn ++ elifsPosns elifs ++ sstmtPosns els)
  | .select e cases _ els p => p :: (exprPosns e ++ scasesPosns cases ++ sstmtPosns els)
  | .forLoop _ _ lo hi step body p => p :: (exprPosns lo ++ exprPosns hi ++ optExprPosns step ++ sstmtPosns body)
  | .while c body p => p :: (exprPosns c ++ sstmtPosns body)
  | .doLoop c _ _ body p => p :: (exprPosns c ++ sstmtPosns body)
  | .end_ p => [p]
  | .callSub _ args p => p :: argsPosns args
  | .exitProc p => [p]
def elifsPosns : ElseIfs → List Pos
  | .nil => []
  | .cons c body rest => exprPosns c ++ sstmtPosns body ++ elifsPosns rest
def scasesPosns : SCases → List Pos
  | .nil => []
  | .cons conds body rest => conds.flatMap caseExprPosns ++ sstmtPosns body ++ scasesPosns rest
end

theorem readSeq_posns (p q : Pos) : ∀ vars : List (Var × Ty × Pos), q ∈ stmtPosns (readSeq p vars) → q = p
  | [], h => by simp [readSeq, stmtPosns] at h
  | (x, t, r) :: rest, h => by
    simp only [readSeq, stmtPosns, List.mem_append, List.mem_cons, List.not_mem_nil, or_false] at h
    rcases h with h | h
    · exact h
    · exact readSeq_posns p q rest h

mutual
/-- desugaring adds no positions -/
theorem desugar_posns (q : Pos) : ∀ s : SStmt, q ∈ stmtPosns (desugar s) → q ∈ sstmtPosns s
  | .skip, h => by simp [desugar, stmtPosns] at h
  | .comment, h => by simp [desugar, stmtPosns] at h
  | .data _ _, h => by simp [desugar, stmtPosns] at h
  | .sdim _ _ _, h => by simp [desugar, stmtPosns] at h
  | .seq a b, h => by
    simp only [desugar, stmtPosns, List.mem_append] at h
    rcases h with h | h
    · simp [sstmtPosns, desugar_posns q a h]
    · simp [sstmtPosns, desugar_posns q b h]
  | .dim x t p, h => by simpa [desugar, stmtPosns, exprPosns, sstmtPosns] using h
  | .assign x t e p, h => by simpa [desugar, stmtPosns, sstmtPosns] using h
  | .dimArr a t dims p, h => by simpa [desugar, stmtPosns, sstmtPosns] using h
  | .assignElem a t idx e p, h => by simpa [desugar, stmtPosns, sstmtPosns] using h
  | .print items p, h => by simpa [desugar, stmtPosns, sstmtPosns] using h
  | .read vars p, h => by
    simp only [desugar] at h
    simp [sstmtPosns, readSeq_posns p q vars h]
  | .ifBlock c thn elifs he els p, h => by
    simp only [desugar, stmtPosns, List.mem_append, List.mem_cons] at h
    rcases h with h | (h | h) | h
    · simp [sstmtPosns, h]
    · simp [sstmtPosns, h]
    · simp [sstmtPosns, desugar_posns q thn h]
    · rcases desugarElifs_posns q elifs (desugar els) p h with h1 | h1 | h1
      · simp [sstmtPosns, h1]
      · simp [sstmtPosns, h1]
      · simp [sstmtPosns, desugar_posns q els h1]
  | .select e cases he els p, h => by
    simp only [desugar, stmtPosns, List.mem_append, List.mem_cons] at h
    rcases h with h | h | h
    · simp [sstmtPosns, h]
    · simp [sstmtPosns, h]
    · rcases desugarCases_posns q cases _ h with h1 | h1
      · simp [sstmtPosns, h1]
      · cases he with
        | true =>
          simp only [if_true, casesPosns] at h1
          simp [sstmtPosns, desugar_posns q els h1]
        | false => simp [casesPosns] at h1
  | .forLoop x t lo hi step body p, h => by
    simp only [desugar, stmtPosns, List.mem_append, List.mem_cons] at h
    rcases h with h | ((h | h) | h) | h
    · simp [sstmtPosns, h]
    · simp [sstmtPosns, h]
    · simp [sstmtPosns, h]
    · simp [sstmtPosns, h]
    · simp [sstmtPosns, desugar_posns q body h]
  | .while c body p, h => by
    simp only [desugar, stmtPosns, List.mem_append, List.mem_cons] at h
    rcases h with h | h | h
    · simp [sstmtPosns, h]
    · simp [sstmtPosns, h]
    · simp [sstmtPosns, desugar_posns q body h]
  | .doLoop c top u body p, h => by
    simp only [desugar, stmtPosns, List.mem_append, List.mem_cons] at h
    rcases h with h | h | h
    · simp [sstmtPosns, h]
    · simp [sstmtPosns, h]
    · simp [sstmtPosns, desugar_posns q body h]
  | .end_ p, h => by simpa [desugar, stmtPosns, sstmtPosns] using h
  | .callSub f args p, h => by simpa [desugar, stmtPosns, sstmtPosns] using h
  | .exitProc p, h => by simpa [desugar, stmtPosns, sstmtPosns] using h
theorem desugarElifs_posns (q : Pos) : ∀ (e : ElseIfs) (els : Stmt) (p : Pos),
    q ∈ stmtPosns (desugarElifs e els p) → q = p ∨ q ∈ elifsPosns e ∨ q ∈ stmtPosns els
  | .nil, els, p, h => by simp only [desugarElifs] at h; exact .inr (.inr h)
  | .cons c body rest, els, p, h => by
    simp only [desugarElifs, stmtPosns, List.mem_append, List.mem_cons] at h
    rcases h with h | (h | h) | h
    · exact .inl h
    · exact .inr (.inl (by simp [elifsPosns, h]))
    · exact .inr (.inl (by simp [elifsPosns, desugar_posns q body h]))
    · rcases desugarElifs_posns q rest els p h with h1 | h1 | h1
      · exact .inl h1
      · exact .inr (.inl (by simp [elifsPosns, h1]))
      · exact .inr (.inr h1)
theorem desugarCases_posns (q : Pos) : ∀ (cs : SCases) (tail : Cases),
    q ∈ casesPosns (desugarCases cs tail) → q ∈ scasesPosns cs ∨ q ∈ casesPosns tail
  | .nil, tail, h => by simp only [desugarCases] at h; exact .inr h
  | .cons conds body rest, tail, h => by
    simp only [desugarCases, casesPosns, List.mem_append] at h
    rcases h with (h | h) | h
    · exact .inl (by simp [scasesPosns, h])
    · exact .inl (by simp [scasesPosns, desugar_posns q body h])
    · rcases desugarCases_posns q rest tail h with h1 | h1
      · exact .inl (by simp [scasesPosns, h1])
      · exact .inr h1
end

/-- the positions of a program: those of the main module and of every procedure body -/
def InProgram (prog : SProgram) (p : Pos) : Prop :=
  p ∈ sstmtPosns prog.body ∨ ∃ d, d ∈ prog.procs ∧ p ∈ sstmtPosns d.body

/-! ### the property theorems -/

open RbThm.C08Layers2.ProcArrs (Finished finished run_of_steps_halt run_of_steps_err ends demo)

/-- **`ref_error_pos_within_program`** (combined procedures + arrays layer) — the position the reference semantics
prescribes for a run-time error is a position carried by a node of the program: of the main module, or of the body of
one of its procedures (an error raised inside a procedure is *not* moved to the call site).  No premise. -/
theorem ref_error_pos_within_program (prog : SProgram) (fuel c : Nat) (p : Pos)
    (h : (ProcArr.Ref.run fuel prog.toAst).2 = .error c p) : InProgram prog p := by
  unfold ProcArr.Ref.run at h
  generalize hr : ProcArr.Ref.exec prog.toAst fuel prog.toAst.body (St.init prog.toAst) = r at h
  obtain ⟨s', o⟩ := r
  simp only at h
  subst h
  have hG : ∀ d, d ∈ prog.toAst.procs → ∀ q ∈ stmtPosns d.body, InProgram prog q := by
    intro d hd q hq
    simp only [SProgram.toAst, List.mem_map] at hd
    obtain ⟨d0, hd0, rfl⟩ := hd
    exact .inr ⟨d0, hd0, desugar_posns q d0.body hq⟩
  exact (errPos_all hG fuel).exec _ _ _ c p hr (fun q hq => .inl (desugar_posns q prog.body hq))

/-- **an error inside a procedure is reported at the failing statement inside the procedure.**  If the arguments of a
call of procedure `f` evaluate (array elements among them read, their locations fixed) and the body of `f` then fails
with error `c` at `p`, the call fails with exactly `(c, p)` — not at the call site — and `p` is a position occurring
in the body of `f`, or in the body of a procedure called (to any depth) while that body ran. -/
theorem error_in_procedure_at_body_pos (P : Program) (fuel f : Nat) (args : Args) (s s1 s2 : St) (d : ProcDecl Stmt)
    (avs : List (Val × Option Loc)) (c : Nat) (p : Pos)
    (hd : P.procs[f]? = some d) (ha : ProcArr.Ref.evalArgs P fuel args s = (s1, .ok avs))
    (hb : ProcArr.Ref.exec P fuel d.body (enter d f (avs.map (·.1)) s1) = (s2, .error c p)) :
    ProcArr.Ref.call P (fuel + 1) f args s = (s2, .error (.error c p)) ∧
      (p ∈ stmtPosns d.body ∨ ∃ d', d' ∈ P.procs ∧ p ∈ stmtPosns d'.body) := by
  refine ⟨by simp [ProcArr.Ref.call, hd, ha, hb, returns], ?_⟩
  exact (errPos_all (P := P) (Q := fun p => p ∈ stmtPosns d.body ∨ ∃ d', d' ∈ P.procs ∧ p ∈ stmtPosns d'.body)
    (fun d' hd' q hq => .inr ⟨d', hd', hq⟩) fuel).exec _ _ _ c p hb (fun q hq => .inl hq)

/-- **`runtime_error_pos_is_ref_pos`** (combined layer) — for a program the premise checker accepts on which the
reference run finishes, whatever error the VM model stops with — at any step budget — is the reference's: same code,
same position. -/
theorem runtime_error_pos_is_ref_pos (prog : SProgram) (fuel : Nat) (hw : progWfB prog = true)
    (hfin : Finished (ProcArr.Ref.run fuel prog.toAst).2) :
    ∀ (m c : Nat) (p : Pos) (ω : Vm), Vm.run (compile prog) m Vm.init = .error c p ω →
      (ProcArr.Ref.run fuel prog.toAst).2 = .error c p := by
  intro m c p ω hrun
  rcases ends prog fuel hw hfin with ⟨τ, υ, hs, hh, _⟩ | ⟨τ, υ, c', p', hs, hh, _, hr⟩
  · rcases run_of_steps_halt _ hs hh m with h1 | h1 <;> rw [h1] at hrun <;> cases hrun
  · rcases run_of_steps_err _ hs hh m with h1 | h1 <;> rw [h1] at hrun <;> cases hrun
    exact hr

/-- **`runtime_error_pos_within_program`** (combined layer) — hence the position reported with a run-time error of the
VM run is a position carried by a node of the main module or of a procedure body. -/
theorem runtime_error_pos_within_program (prog : SProgram) (fuel : Nat) (hw : progWfB prog = true)
    (hfin : Finished (ProcArr.Ref.run fuel prog.toAst).2) :
    ∀ (m c : Nat) (p : Pos) (ω : Vm), Vm.run (compile prog) m Vm.init = .error c p ω → InProgram prog p :=
  fun m c p ω hrun =>
    ref_error_pos_within_program prog fuel c p (runtime_error_pos_is_ref_pos prog fuel hw hfin m c p ω hrun)

/-! ### non-vacuity

`demo k j` = `DIM A%(1 TO 3) : FOR I% = 1 TO k : A%(I%) = I% * 2 : NEXT : Inc A%(2) : PRINT A%(2)` with
`SUB Inc (N%) : N% = N% + j : END SUB`. -/

/-- `demo 4 1` is accepted, its reference run finishes, with Subscript out of range (9) at row 3 col 3 — the element
assignment `A%(4) = …` in the main module's FOR body -/
example : progWfB (demo 4 1) = true ∧ Finished (ProcArr.Ref.run 100 (demo 4 1).toAst).2 ∧
    (match (ProcArr.Ref.run 100 (demo 4 1).toAst).2 with | .error 9 ⟨3, 3⟩ => true | _ => false) = true := by
  decide +kernel

/-- … and that is a position of the main module -/
example : InProgram (demo 4 1) ⟨3, 3⟩ := .inl (by decide +kernel)

/-- `demo 3 32767` is accepted, its reference run finishes, with Overflow (6) at row 8 col 11 — the `+` inside the SUB
(working on an array element passed by reference), not the call at row 5 col 1 -/
example : progWfB (demo 3 32767) = true ∧ Finished (ProcArr.Ref.run 100 (demo 3 32767).toAst).2 ∧
    (match (ProcArr.Ref.run 100 (demo 3 32767).toAst).2 with | .error 6 ⟨8, 11⟩ => true | _ => false) = true := by
  decide +kernel

/-- … and that is a position of the SUB's body -/
example : InProgram (demo 3 32767) ⟨8, 11⟩ :=
  .inr ⟨_, List.mem_cons_self .., by decide +kernel⟩

/-- … which does not occur in the main module (where the call site ⟨5, 1⟩ is) -/
example : (⟨8, 11⟩ : Pos) ∉ sstmtPosns (demo 3 32767).body ∧ (⟨5, 1⟩ : Pos) ∈ sstmtPosns (demo 3 32767).body := by
  decide +kernel

/-- the premises of `runtime_error_pos_within_program` are satisfiable, with an erroring run: whatever error the VM
model reports on `demo 4 1`, at any budget, is error 9 at ⟨3, 3⟩ -/
example (m c : Nat) (p : Pos) (ω : Vm) (h : Vm.run (compile (demo 4 1)) m Vm.init = .error c p ω) :
    c = 9 ∧ p = ⟨3, 3⟩ ∧ InProgram (demo 4 1) p := by
  have h1 := runtime_error_pos_is_ref_pos (demo 4 1) 100 (by decide +kernel) (by decide +kernel) m c p ω h
  have h2 : (match (ProcArr.Ref.run 100 (demo 4 1).toAst).2 with | .error 9 ⟨3, 3⟩ => true | _ => false) = true := by
    decide +kernel
  rw [h1] at h2
  have h3 : c = 9 ∧ p = ⟨3, 3⟩ := by
    split at h2
    · rename_i heq
      simp only [Outcome.error.injEq] at heq
      exact heq
    · cases h2
  exact ⟨h3.1, h3.2, ref_error_pos_within_program _ 100 c p h1⟩

/-- the same for the error inside the SUB: error 6 at ⟨8, 11⟩, a position of a procedure body -/
example (m c : Nat) (p : Pos) (ω : Vm) (h : Vm.run (compile (demo 3 32767)) m Vm.init = .error c p ω) :
    c = 6 ∧ p = ⟨8, 11⟩ ∧ InProgram (demo 3 32767) p := by
  have h1 := runtime_error_pos_is_ref_pos (demo 3 32767) 100 (by decide +kernel) (by decide +kernel) m c p ω h
  have h2 : (match (ProcArr.Ref.run 100 (demo 3 32767).toAst).2 with
      | .error 6 ⟨8, 11⟩ => true | _ => false) = true := by
    decide +kernel
  rw [h1] at h2
  have h3 : c = 6 ∧ p = ⟨8, 11⟩ := by
    split at h2
    · rename_i heq
      simp only [Outcome.error.injEq] at heq
      exact heq
    · cases h2
  exact ⟨h3.1, h3.2, ref_error_pos_within_program _ 100 c p h1⟩

end RbThm.C11Layers2.ProcArrs
