import Thm.ErrLNoIllRef
import Thm.ErrLSim
/-!
Error layer (property C05): **under the premise `ProgWf` (what `progWfXB` decides) the reference run never answers
`illFormed`** — `ErrL.Ref.run` reports as `illFormed` an `illFormed` of `exec` itself (a seek that would have to enter a FOR
body or a SELECT block, a GOSUB routine or a handler whose nested run of the program answers `jump` / `notHere`) and the answers
`ret`, `jump`, `notHere`, `resumed` of the outermost run; none of them occurs.  So `ErrLSim.compile_correct`, whose
specification claims nothing for that answer, is silent only where the *property* is (`unspec`), on the fuel and on float
exactness.

* `disc_desugar`: `Wf` + the depth half of `LabAt` give the discipline `Disc` of `Thm/ErrLNoIllRef.lean` on the desugared
  statement (GOSUB labels, handler labels and RESUME labels are recorded at depth 0 / 0, and a label recorded at FOR depth 0 is
  defined: `Ctx.Ok.gosubOk`);
* `run_never_illFormed` (+ `_checked`), `run_outcome`, `compile_correct_total`, `run_correct_total`.  No premise beyond `ProgWf`.
-/
namespace RbThm.ErrLNoIll
set_option linter.unusedVariables false
set_option linter.unusedSimpArgs false
set_option linter.unusedSectionVars false
open RbModel RbModel.Num RbModel.ErrL RbModel.ErrL.Compile RbModel.ErrL.Vm
open RbModel.JmpL.Compile (CInstr Code Dp)
open RbModel.Ast (Pos PrintItem CaseExpr)
open RbModel.Ref (St)
open RbModel.ErrL.Ref
open RbThm.ErrLSim

/-! ### from the premise on the faithful syntax to the discipline on the lean syntax -/

/-- the recorded depths of the labels listed in a depth table are those of the table -/
def DepIn (dp : Dp) (tbl : List (Nat × Nat × Nat)) : Prop := ∀ L d' e', (L, d', e') ∈ tbl → dp.fd L = d' ∧ dp.sd L = e'

theorem DepIn.left {dp : Dp} {a b : List (Nat × Nat × Nat)} (h : DepIn dp (a ++ b)) : DepIn dp a :=
  fun L d' e' hm => h L d' e' (List.mem_append_left _ hm)

theorem DepIn.right {dp : Dp} {a b : List (Nat × Nat × Nat)} (h : DepIn dp (a ++ b)) : DepIn dp b :=
  fun L d' e' hm => h L d' e' (List.mem_append_right _ hm)

section
variable (sl : List Ty) (dp : Dp) (rl : Bool) (P : Stmt) (hZ : ∀ L, dp.fd L = 0 → L ∈ P.labels)
include hZ

mutual
theorem disc_desugar : ∀ (s : SStmt) (d e : Nat), Wf sl dp rl d e s → DepIn dp (depthTable d e s) →
    Disc dp.fd dp.sd P d e (desugar s)
  | .skip, _, _, _, _ => by simp only [desugar, Disc]
  | .comment, _, _, _, _ => by simp only [desugar, Disc]
  | .seq a b, d, e, hw, hd => by
    simp only [depthTable] at hd
    simp only [desugar, Disc]
    exact ⟨disc_desugar a d e hw.1 hd.left, disc_desugar b d e hw.2 hd.right⟩
  | .dim _ _ _, _, _, _, _ => by simp only [desugar, Disc]
  | .assign _ _ _ _, _, _, _, _ => by simp only [desugar, Disc]
  | .print _ _, _, _, _, _ => by simp only [desugar, Disc]
  | .data _ _, _, _, hw, _ => by simp only [desugar, Disc]
  | .read vars p, _, _, _, _ => by simp only [desugar, Disc]
  | .ifBlock c thn elifs hasElse els p, d, e, hw, hd => by
    obtain ⟨_, _, h1, h2, h3, _⟩ := hw
    simp only [depthTable] at hd
    simp only [desugar, Disc]
    exact ⟨disc_desugar thn d e h1 hd.left.left,
      disc_desugarElifs elifs d e h2 hd.left.right (desugar els) p (disc_desugar els d e h3 hd.right)⟩
  | .select sel cases hasElse els p, d, e, hw, hd => by
    have hw0 := hw
    obtain ⟨_, h1, h2, h3, h4⟩ := hw
    simp only [depthTable] at hd
    have hl := labels_desugar sl dp rl _ d e hw0
    simp only [desugar, Stmt.labels, SStmt.labels] at hl
    simp only [desugar, Disc]
    refine ⟨disc_desugarCases cases d (e + 1) h1 hd.left _ ?_, ?_⟩
    · cases hasElse with
      | false => simp only [Bool.false_eq_true, if_false, DiscC]
      | true => simp only [if_true, DiscC]; exact disc_desugar els d (e + 1) h2 hd.right
    · intro L hg
      have hg' : L ∈ cases.gotos ++ els.gotos := by
        rcases sh_gotos_desugarCases cases _ L hg with hg | hg
        · exact List.mem_append_left _ hg
        · cases hasElse with
          | false => simp [shGotosC] at hg
          | true => simp only [if_true, shGotosC] at hg; exact List.mem_append_right _ (sh_gotos_desugar els L hg)
      rcases h4 L hg' with h | h
      · left; rw [hl]; exact h
      · exact .inr h
  | .forLoop x t lo hi step body p, d, e, hw, hd => by
    obtain ⟨_, _, _, _, _, h1, h2, _⟩ := hw
    simp only [depthTable] at hd
    simp only [desugar, Disc]
    refine ⟨disc_desugar body (d + 1) e h1 hd, ?_⟩
    intro L hg
    rcases h2 L (sh_gotos_desugar body L hg) with h | h
    · left; rw [labels_desugar sl dp rl body (d + 1) e h1]; exact h
    · exact .inr h
  | .while c body p, d, e, hw, hd => by
    simp only [depthTable] at hd
    simp only [desugar, Disc]
    exact disc_desugar body d e hw.2.2 hd
  | .doLoop c top u body p, d, e, hw, hd => by
    simp only [depthTable] at hd
    simp only [desugar, Disc]
    exact disc_desugar body d e hw.2.2 hd
  | .end_ _, _, _, _, _ => by simp only [desugar, Disc]
  | .label L _ _, d, e, _, hd => by
    simp only [desugar, Disc]
    exact hd L d e (by simp [depthTable])
  | .goto L _, d, e, hw, _ => by
    simp only [desugar, Disc]
    exact hw
  | .gosub L _, d, e, hw, _ => by
    have hw' : dp.fd L = 0 ∧ dp.sd L = 0 := hw
    simp only [desugar, Disc]
    exact ⟨hw'.1, hw'.2, hZ L hw'.1⟩
  | .ret _, _, _, _, _ => by simp only [desugar, Disc]
  | .onErrorGoto L _, d, e, hw, _ => by
    have hw' : dp.fd L = 0 ∧ dp.sd L = 0 := hw
    simp only [desugar, Disc]
    exact ⟨hw'.1, hw'.2, hZ L hw'.1⟩
  | .onErrorResumeNext _, _, _, _, _ => by simp only [desugar, Disc]
  | .onErrorGoto0 _, _, _, _, _ => by simp only [desugar, Disc]
  | .resume _, _, _, _, _ => by simp only [desugar, Disc]
  | .resumeNext _, _, _, _, _ => by simp only [desugar, Disc]
  | .resumeLabel L _, d, e, hw, _ => by
    have hw' : dp.fd L = 0 ∧ dp.sd L = 0 ∧ rl = true := hw
    simp only [desugar, Disc]
    exact ⟨hw'.1, hw'.2.1, hZ L hw'.1⟩
theorem disc_desugarElifs : ∀ (el : ElseIfs) (d e : Nat), WfElifs sl dp rl d e el → DepIn dp (depthElifs d e el) →
    ∀ (els : Stmt) (p : Pos), Disc dp.fd dp.sd P d e els → Disc dp.fd dp.sd P d e (desugarElifs el els p)
  | .nil, _, _, _, _, _, _, h => by simp only [desugarElifs]; exact h
  | .cons c body rest, d, e, hw, hd, els, p, h => by
    obtain ⟨_, _, h1, h2⟩ := hw
    simp only [depthElifs] at hd
    simp only [desugarElifs, Disc]
    exact ⟨disc_desugar body d e h1 hd.left, disc_desugarElifs rest d e h2 hd.right els p h⟩
theorem disc_desugarCases : ∀ (cs : SCases) (d e : Nat), WfCases sl dp rl d e cs → DepIn dp (depthCases d e cs) →
    ∀ (tail : Cases), DiscC dp.fd dp.sd P d e tail → DiscC dp.fd dp.sd P d e (desugarCases cs tail)
  | .nil, _, _, _, _, _, h => by simp only [desugarCases]; exact h
  | .cons conds body rest, d, e, hw, hd, tail, h => by
    obtain ⟨_, _, _, h1, h2⟩ := hw
    simp only [depthCases] at hd
    simp only [desugarCases, DiscC]
    exact ⟨disc_desugar body d e h1 hd.left, disc_desugarCases rest d e h2 hd.right tail h⟩
end

end

/-! ### whole programs -/

/-- a label recorded at FOR depth 0 is a label of the desugared body -/
theorem prog_zero (prog : SProgram) (hw : ProgWf prog) :
    ∀ L, (dpOf prog).fd L = 0 → L ∈ (desugar prog.body).labels := by
  have hC := progCtx_ok' prog hw
  have hdp := envOf_dp prog
  have hwf : Wf prog.slots (envOf (reorder prog.body)).dp true 0 0 (strip prog.body) := hC.wf
  have hgs : ∀ L, (envOf (reorder prog.body)).dp.fd L = 0 → L ∈ (strip prog.body).labels := hC.gosubOk
  intro L h0
  rw [← desugar_strip, labels_desugar _ _ _ _ 0 0 hwf]
  exact hgs L (by rw [hdp]; exact h0)

/-- the desugared body of a program in the premise keeps the jump discipline at depth 0 / 0 -/
theorem prog_disc (prog : SProgram) (hw : ProgWf prog) :
    Disc (dpOf prog).fd (dpOf prog).sd (desugar prog.body) 0 0 (desugar prog.body) := by
  have hC := progCtx_ok' prog hw
  have hdp := envOf_dp prog
  have hwf : Wf prog.slots (envOf (reorder prog.body)).dp true 0 0 (strip prog.body) := hC.wf
  have hlab : LabAt (envOf (reorder prog.body)) 0 0 (progCtx prog).base (strip prog.body) := hC.lab
  rw [hdp] at hwf
  have hdep : DepIn (dpOf prog) (depthTable 0 0 (strip prog.body)) := by
    intro L d' e' hm
    have := hlab.2 L d' e' hm
    rwa [hdp] at this
  have := disc_desugar prog.slots (dpOf prog) true (desugar prog.body) (prog_zero prog hw) (strip prog.body) 0 0 hwf hdep
  rwa [desugar_strip] at this

/-- the body of a program in the premise, run from its first statement with no GOSUB pending in the start state: none of the
five answers `ErrL.Ref.run` reports as `illFormed` -/
theorem body_never (prog : SProgram) (hw : ProgWf prog) (fuel : Nat) :
    (exec fuel (desugar prog.body) 0 (desugar prog.body) .run (startSt prog)).2 ≠ .illFormed ∧
    (∀ p, (exec fuel (desugar prog.body) 0 (desugar prog.body) .run (startSt prog)).2 ≠ .ret p) ∧
    (∀ L, (exec fuel (desugar prog.body) 0 (desugar prog.body) .run (startSt prog)).2 ≠ .jump L) ∧
    (exec fuel (desugar prog.body) 0 (desugar prog.body) .run (startSt prog)).2 ≠ .notHere ∧
    (∀ k, (exec fuel (desugar prog.body) 0 (desugar prog.body) .run (startSt prog)).2 ≠ .resumed k) :=
  top_never (prog_disc prog hw) (prog_zero prog hw) fuel (startSt prog) (fun L h => by cases h) rfl

/-- **`run_never_illFormed`** — for every program of the error layer that satisfies the premise `ProgWf` of the simulation
theorem and every amount of fuel the reference semantics does not answer `illFormed`.  No further premise. -/
theorem run_never_illFormed (prog : SProgram) (fuel : Nat) (hw : ProgWf prog) :
    (ErrL.Ref.run fuel prog.toAst).2 ≠ .illFormed := by
  obtain ⟨h1, h2, h3, h4, h5⟩ := body_never prog hw fuel
  rw [run_eq]
  generalize exec fuel (desugar prog.body) 0 (desugar prog.body) .run (startSt prog) = r at h1 h2 h3 h4 h5
  obtain ⟨s', o⟩ := r
  cases o with
  | illFormed => exact absurd rfl h1
  | ret p => exact absurd rfl (h2 p)
  | jump L => exact absurd rfl (h3 L)
  | notHere => exact absurd rfl h4
  | resumed k => exact absurd rfl (h5 k)
  | _ => simp

/-- the same with the premise replaced by the boolean check the driver evaluates on every explored program (`errl.wf`) -/
theorem run_never_illFormed_checked (prog : SProgram) (fuel : Nat) (hw : progWfXB prog = true) :
    (ErrL.Ref.run fuel prog.toAst).2 ≠ .illFormed :=
  run_never_illFormed prog fuel (progWfB_sound prog hw)

/-- **what a run can answer** under the premise: `normal`, END, a BASIC error with its position, `unspec` (the property does not
say: an error inside an active handler, a RETURN that leaves a handler's run, a RESUME inside a routine called from the
handler), `inexact` or `outOfFuel` -/
theorem run_outcome (prog : SProgram) (fuel : Nat) (hw : ProgWf prog) :
    (ErrL.Ref.run fuel prog.toAst).2 = .normal ∨ (ErrL.Ref.run fuel prog.toAst).2 = .halted ∨
    (∃ c p, (ErrL.Ref.run fuel prog.toAst).2 = .error c p) ∨ (ErrL.Ref.run fuel prog.toAst).2 = .unspec ∨
    (ErrL.Ref.run fuel prog.toAst).2 = .inexact ∨ (ErrL.Ref.run fuel prog.toAst).2 = .outOfFuel := by
  have hill := run_never_illFormed prog fuel hw
  revert hill
  rw [run_eq]
  generalize exec fuel (desugar prog.body) 0 (desugar prog.body) .run (startSt prog) = r
  obtain ⟨s', o⟩ := r
  cases o <;> simp

/-- **`compile_correct_total`** — the simulation theorem without its silent case `illFormed`: for every program in the premise
and every fuel at which the reference run is none of `outOfFuel`, `inexact`, `unspec`, EITHER the reference ended normally or
with END and the VM model on the generated code (with marks and label depths) reaches a `Halt` with the reference's variables
and output, OR the reference stopped with BASIC error `c` at position `p` and the VM stops with exactly that error at that
position with the reference's output. -/
theorem compile_correct_total (prog : SProgram) (fuel : Nat) (hw : ProgWf prog)
    (hf : (ErrL.Ref.run fuel prog.toAst).2 ≠ .outOfFuel) (hi : (ErrL.Ref.run fuel prog.toAst).2 ≠ .inexact)
    (hu : (ErrL.Ref.run fuel prog.toAst).2 ≠ .unspec) :
    (((ErrL.Ref.run fuel prog.toAst).2 = .normal ∨ (ErrL.Ref.run fuel prog.toAst).2 = .halted) ∧
      ∃ τ υ, Steps (Prog.ofProgram prog) (EVm.init prog.slots) τ ∧ step (Prog.ofProgram prog) τ = .halt υ ∧
        υ.b.env = (ErrL.Ref.run fuel prog.toAst).1.st.env ∧ υ.b.out = (ErrL.Ref.run fuel prog.toAst).1.st.out) ∨
    (∃ c p, (ErrL.Ref.run fuel prog.toAst).2 = .error c p ∧
      ∃ τ υ, Steps (Prog.ofProgram prog) (EVm.init prog.slots) τ ∧ step (Prog.ofProgram prog) τ = .error c p υ ∧
        υ.b.out = (ErrL.Ref.run fuel prog.toAst).1.st.out) := by
  have hs := compile_correct prog fuel hw
  have ho := run_outcome prog fuel hw
  generalize ErrL.Ref.run fuel prog.toAst = r at hs ho hf hi hu ⊢
  obtain ⟨s', o⟩ := r
  rcases ho with ho | ho | ⟨c, p, ho⟩ | ho | ho | ho
  · simp only at ho; subst ho; exact .inl ⟨.inl rfl, hs⟩
  · simp only at ho; subst ho; exact .inl ⟨.inr rfl, hs⟩
  · simp only at ho; subst ho; exact .inr ⟨c, p, rfl, hs⟩
  · exact absurd ho hu
  · exact absurd ho hi
  · exact absurd ho hf

/-- the same for the bounded interpreter `ErrL.Vm.run` that the correspondence check executes against the real VM -/
theorem run_correct_total (prog : SProgram) (fuel : Nat) (hw : ProgWf prog)
    (hf : (ErrL.Ref.run fuel prog.toAst).2 ≠ .outOfFuel) (hi : (ErrL.Ref.run fuel prog.toAst).2 ≠ .inexact)
    (hu : (ErrL.Ref.run fuel prog.toAst).2 ≠ .unspec) :
    (((ErrL.Ref.run fuel prog.toAst).2 = .normal ∨ (ErrL.Ref.run fuel prog.toAst).2 = .halted) ∧
      ∃ n υ, (∀ m, n ≤ m → Vm.run (Prog.ofProgram prog) m (EVm.init prog.slots) = .halted υ) ∧
        υ.b.env = (ErrL.Ref.run fuel prog.toAst).1.st.env ∧ υ.b.out = (ErrL.Ref.run fuel prog.toAst).1.st.out) ∨
    (∃ c p, (ErrL.Ref.run fuel prog.toAst).2 = .error c p ∧
      ∃ n υ, (∀ m, n ≤ m → Vm.run (Prog.ofProgram prog) m (EVm.init prog.slots) = .error c p υ) ∧
        υ.b.out = (ErrL.Ref.run fuel prog.toAst).1.st.out) := by
  rcases compile_correct_total prog fuel hw hf hi hu with ⟨ho, τ, υ, st, hh, he, hout⟩ | ⟨c, p, ho, τ, υ, st, hh, hout⟩
  · obtain ⟨n, hn⟩ := run_of_steps _ st hh
    exact .inl ⟨ho, n, υ, hn, he, hout⟩
  · obtain ⟨n, hn⟩ := run_of_steps_error _ st hh
    exact .inr ⟨c, p, ho, n, υ, hn, hout⟩

theorem compile_correct_total_checked (prog : SProgram) (fuel : Nat) (hw : progWfXB prog = true)
    (hf : (ErrL.Ref.run fuel prog.toAst).2 ≠ .outOfFuel) (hi : (ErrL.Ref.run fuel prog.toAst).2 ≠ .inexact)
    (hu : (ErrL.Ref.run fuel prog.toAst).2 ≠ .unspec) :
    (((ErrL.Ref.run fuel prog.toAst).2 = .normal ∨ (ErrL.Ref.run fuel prog.toAst).2 = .halted) ∧
      ∃ τ υ, Steps (Prog.ofProgram prog) (EVm.init prog.slots) τ ∧ step (Prog.ofProgram prog) τ = .halt υ ∧
        υ.b.env = (ErrL.Ref.run fuel prog.toAst).1.st.env ∧ υ.b.out = (ErrL.Ref.run fuel prog.toAst).1.st.out) ∨
    (∃ c p, (ErrL.Ref.run fuel prog.toAst).2 = .error c p ∧
      ∃ τ υ, Steps (Prog.ofProgram prog) (EVm.init prog.slots) τ ∧ step (Prog.ofProgram prog) τ = .error c p υ ∧
        υ.b.out = (ErrL.Ref.run fuel prog.toAst).1.st.out) :=
  compile_correct_total prog fuel (progWfB_sound prog hw) hf hi hu

/-! ### non-vacuity (slots: `Z%`, `A%`, `I%`) -/

private def tenModZ : Ast.Expr := .bin .modulo (.lit (.int 10) ⟨3, 8⟩) (.var 0 .int ⟨3, 15⟩) .int ⟨3, 11⟩

/-- an error inside a GOSUB routine called from a FOR body; the handler ends with a RESUME label to a label inside the
routine; a second handler mode is set afterwards (labels 0 = H, 1 = R, 2 = Back):
```
ON ERROR GOTO H
FOR I% = 1 TO 2
  GOSUB R
NEXT
ON ERROR RESUME NEXT
A% = A% + 10 MOD Z%
PRINT A%
END
R:
A% = 10 MOD Z%
Back:
A% = A% + 1
RETURN
H:
RESUME Back
``` -/
def demo : SProgram :=
  ⟨[.int, .int, .int],
   .seq (.onErrorGoto 0 ⟨1, 1⟩)
   (.seq (.forLoop 2 .int (.lit (.int 1) ⟨2, 10⟩) (.lit (.int 2) ⟨2, 15⟩) none
      (.seq (.gosub 1 ⟨3, 3⟩) .skip) ⟨2, 1⟩)
   (.seq (.onErrorResumeNext ⟨5, 1⟩)
   (.seq (.assign 1 .int (.bin .plus (.var 1 .int ⟨6, 6⟩) tenModZ .int ⟨6, 9⟩) ⟨6, 1⟩)
   (.seq (.print [.expr (.var 1 .int ⟨7, 7⟩)] ⟨7, 1⟩)
   (.seq (.end_ ⟨8, 1⟩)
   (.seq (.label 1 "R" ⟨9, 1⟩)
   (.seq (.assign 1 .int tenModZ ⟨10, 1⟩)
   (.seq (.label 2 "Back" ⟨11, 1⟩)
   (.seq (.assign 1 .int (.bin .plus (.var 1 .int ⟨12, 6⟩) (.lit (.int 1) ⟨12, 11⟩) .int ⟨12, 9⟩) ⟨12, 1⟩)
   (.seq (.ret ⟨13, 1⟩)
   (.seq (.label 0 "H" ⟨14, 1⟩)
   (.seq (.resumeLabel 2 ⟨15, 1⟩) .skip))))))))))))⟩

/-- no handler set: the division by zero ends the run with error 11 at the operator -/
def demoErr : SProgram :=
  ⟨[.int, .int, .int], .seq (.assign 1 .int tenModZ ⟨3, 1⟩) .skip⟩

/-- the premise holds; the runs end with END after three handled errors / with error 11: the hypotheses of
`compile_correct_total` are satisfiable and both disjuncts of its conclusion occur -/
example : progWfXB demo = true ∧ (ErrL.Ref.run 80 demo.toAst).2 = .halted := by decide +kernel
example : progWfXB demoErr = true ∧ (ErrL.Ref.run 20 demoErr.toAst).2 = .error 11 ⟨3, 11⟩ := by decide +kernel

example (fuel : Nat) : (ErrL.Ref.run fuel demo.toAst).2 ≠ .illFormed :=
  run_never_illFormed_checked demo fuel (by decide +kernel)

example : ∃ τ υ, Steps (Prog.ofProgram demo) (EVm.init demo.slots) τ ∧ step (Prog.ofProgram demo) τ = .halt υ ∧
    υ.b.env = (ErrL.Ref.run 80 demo.toAst).1.st.env ∧ υ.b.out = (ErrL.Ref.run 80 demo.toAst).1.st.out := by
  have h : (ErrL.Ref.run 80 demo.toAst).2 = .halted := by decide +kernel
  rcases compile_correct_total_checked demo 80 (by decide +kernel) (by rw [h]; simp) (by rw [h]; simp) (by rw [h]; simp)
    with h1 | ⟨c, p, h1, _⟩
  · exact h1.2
  · rw [h] at h1; cases h1

/-- a handler label inside a FOR body: `ON ERROR GOTO H : A% = 10 MOD Z% : FOR I% = 1 TO 2 : H: : NEXT` -/
def handlerInFor : SProgram :=
  ⟨[.int, .int, .int],
   .seq (.onErrorGoto 0 ⟨1, 1⟩)
   (.seq (.assign 1 .int tenModZ ⟨3, 1⟩)
   (.seq (.forLoop 2 .int (.lit (.int 1) ⟨4, 10⟩) (.lit (.int 2) ⟨4, 15⟩) none (.seq (.label 0 "H" ⟨5, 3⟩) .skip) ⟨4, 1⟩)
    .skip))⟩

/-- a RESUME label into a FOR body: `ON ERROR GOTO H : A% = 10 MOD Z% : FOR I% = 1 TO 2 : L: : NEXT : END : H: RESUME L` -/
def resumeIntoFor : SProgram :=
  ⟨[.int, .int, .int],
   .seq (.onErrorGoto 0 ⟨1, 1⟩)
   (.seq (.assign 1 .int tenModZ ⟨3, 1⟩)
   (.seq (.forLoop 2 .int (.lit (.int 1) ⟨4, 10⟩) (.lit (.int 2) ⟨4, 15⟩) none (.seq (.label 1 "L" ⟨5, 3⟩) .skip) ⟨4, 1⟩)
   (.seq (.end_ ⟨7, 1⟩)
   (.seq (.label 0 "H" ⟨8, 1⟩)
   (.seq (.resumeLabel 1 ⟨9, 1⟩) .skip)))))⟩

/-- a RETURN with no GOSUB pending … is error 3, not `illFormed`; a RESUME outside a handler is error 20 -/
example : (ErrL.Ref.run 20 (SProgram.toAst ⟨[], .seq (.ret ⟨1, 1⟩) .skip⟩)).2 = .error 3 ⟨1, 1⟩ := by decide +kernel
example : (ErrL.Ref.run 20 (SProgram.toAst ⟨[], .seq (.resume ⟨1, 1⟩) .skip⟩)).2 = .error 20 ⟨1, 1⟩ := by decide +kernel

/-- **the premise is what excludes `illFormed`**: outside it the reference semantics does answer it -/
example : progWfXB handlerInFor = false ∧ (ErrL.Ref.run 30 handlerInFor.toAst).2 = .illFormed := by decide +kernel
example : progWfXB resumeIntoFor = false ∧ (ErrL.Ref.run 30 resumeIntoFor.toAst).2 = .illFormed := by decide +kernel

end RbThm.ErrLNoIll
