import Thm.ProcArrSimBase
/-!
Combined layer, simulation part — subscripts onto the var-path and element access.

* `idx_correct`: `compileIdx` vs `Ref.evalIdx` — every subscript is `PushAToValueStack · ⟦e⟧ [Cast %] · VarPathIndex ·
  PopValueStackIntoA`; the path on top of the path stack grows by the converted subscript, register A (the value to be
  stored, when the path is an assignment target) is saved and restored.  A subscript may call a function: the state is
  threaded, so the lemma is an induction on the list that takes its expressions from `IHle` (at smaller fuel).
* `elem_read_step` / `elem_store_step`: `CopyVarPathToA` / `CopyAToVarPath` on a resolved element path vs `St.readElem` /
  `St.setElem` (Subscript out of range at the instruction's position iff the array is not dimensioned or the tuple lies
  outside the box).
* `path_correct` (`VarPathName a · subscripts`), `case_elem` (element read), `elemArg_correct` (an element ACTUAL: value in
  A, path left on the path stack for `PushNamedByRef`), `case_assignElem`.
-/
namespace RbThm.ProcArrSim
set_option linter.unusedVariables false
set_option linter.unusedSimpArgs false
open RbModel RbModel.Num RbModel.ProcArr RbModel.ProcArr.Compile RbModel.ProcArr.Vm
open RbModel.Ast (Pos)
open RbThm.ProcArrLen

theorem int_of_tag {v : Val} (h : v.tag = .int) : ∃ i, v = .int i := by
  cases v with
  | int i => exact ⟨i, rfl⟩
  | long _ => cases h
  | sgl _ => cases h
  | dbl _ => cases h
  | str _ => cases h

/-- subscript lists at any amount of fuel, from the hypothesis at all smaller or equal amounts -/
theorem idx_correct (W : World) : ∀ (idx : Exprs) (fuel : Nat), IHle W fuel →
    ∀ (sc : Scope) (off : Nat) (pre below : List CtxState) (s : St) (σ : Vm) (a : Nat) (is0 : List Int) (rest : List Path),
    CodeAt W.code off (compileIdx W.lay off idx) → σ.pc = off → Rel W sc pre below s σ → IdxWf W.sg sc.slots idx →
    σ.paths = .elem a is0 :: rest →
    IdxPost W sc pre below (sizeIdx idx) off σ a is0 rest (ProcArr.Ref.evalIdx W.P fuel idx s)
  | idx, 0, _ => by
    intro sc off pre below s σ a is0 rest _ _ _ _ _
    simp only [ProcArr.Ref.evalIdx, IdxPost, ErrPost]
  | .nil, fuel + 1, _ => by
    intro sc off pre below s σ a is0 rest hc hpc hr hw hp
    simp only [ProcArr.Ref.evalIdx, IdxPost, sizeIdx, Nat.add_zero, List.append_nil]
    refine ⟨σ, Steps.refl σ, hpc, rfl, hr, ⟨rfl, by rw [hp], rfl, rfl, rfl, rfl, id⟩⟩
  | .cons e erest, fuel + 1, ih => by
    intro sc off pre below s σ a is0 rest hc hpc hr hw hpaths
    simp only [IdxWf] at hw
    obtain ⟨hwe, hns, hwr⟩ := hw
    simp only [compileIdx] at hc
    have ihm : IHle W fuel := ih.mono (Nat.le_succ fuel)
    have hpush : W.code[σ.pc]? = some (CInstr.pushA, e.pos) := by
      rw [hpc]; exact hc.append_left.append_left.append_left.append_left.head
    have hce : CodeAt W.code (off + 1) (compileExprTo W.lay (off + 1) e .int) := by
      have := hc.append_left.append_left
      rw [List.append_assoc] at this
      have := this.append_right
      simpa [compileExprTo] using this
    -- push A
    let σ1 : Vm := Vm.advance { σ with vals := σ.regs.a :: σ.vals }
    have s1 : Vm.step W.code σ = .next σ1 := by simp only [Vm.step, hpush]; rfl
    have hr1 : Rel W sc pre below s σ1 := hr.same rfl rfl rfl rfl rfl rfl
    have he := exprTo_correct' W fuel ihm sc e .int (off + 1) pre below s σ1 hce (by simp [σ1, Vm.advance, hpc]) hr1 hwe
    simp only [ProcArr.Ref.evalIdx]
    generalize ProcArr.Ref.evalTo W.P fuel e .int s = r at he ⊢
    obtain ⟨s1', rv⟩ := r
    cases rv with
    | error o => exact ErrPost.of_steps (Steps.one s1) he
    | ok v =>
      obtain ⟨τ, st, hp, ha, hrel, hss, htag⟩ := he
      obtain ⟨i, hi⟩ := int_of_tag htag
      subst hi
      simp only
      have hsz : sizeExprTo e .int = sizeExpr e + (if e.ty = .int then 0 else 1) := rfl
      have hpi : W.code[τ.pc]? = some (CInstr.pathIndex, e.pos) := by
        have := hc.append_left.append_right.head
        simp only [List.length_append, List.length_singleton, len_expr] at this
        have hl : (if e.ty = .int then ([] : Code) else [(CInstr.cast .int, e.pos)]).length =
            if e.ty = .int then 0 else 1 := by
          by_cases h : e.ty = .int <;> simp [h]
        rw [hl] at this
        rw [hp, hsz, ← this]; congr 1; omega
      have hpop : W.code[τ.pc + 1]? = some (CInstr.popA, e.pos) := by
        have := hc.append_left.append_right.tail.head
        simp only [List.length_append, List.length_singleton, len_expr] at this
        have hl : (if e.ty = .int then ([] : Code) else [(CInstr.cast .int, e.pos)]).length =
            if e.ty = .int then 0 else 1 := by
          by_cases h : e.ty = .int <;> simp [h]
        rw [hl] at this
        rw [hp, hsz, ← this]; congr 1; omega
      have hpaths2 : τ.paths = .elem a is0 :: rest := by rw [hss.paths]; exact hpaths
      have hvals2 : τ.vals = σ.regs.a :: σ.vals := hss.vals
      let τ2 : Vm := Vm.advance { τ with paths := .elem a (is0 ++ [i]) :: rest }
      have s2 : Vm.step W.code τ = .next τ2 := by
        simp only [Vm.step, hpi, ha, hpaths2]; rfl
      let τ3 : Vm := Vm.advance { Vm.setA τ2 σ.regs.a with vals := σ.vals }
      have s3 : Vm.step W.code τ2 = .next τ3 := by
        have hpc2 : τ2.pc = τ.pc + 1 := rfl
        have hv2 : τ2.vals = σ.regs.a :: σ.vals := hvals2
        simp only [Vm.step, hpc2, hpop, hv2]; rfl
      have hr3 : Rel W sc pre below s1' τ3 := hrel.same rfl rfl rfl rfl rfl rfl
      have hcr : CodeAt W.code (off + 1 + sizeExpr e + (if e.ty = .int then 0 else 1) + 2)
          (compileIdx W.lay (off + 1 + sizeExpr e + (if e.ty = .int then 0 else 1) + 2) erest) := by
        have := hc.append_right
        simp only [List.length_append, List.length_singleton, List.length_cons, List.length_nil, len_expr] at this
        have hl : (if e.ty = .int then ([] : Code) else [(CInstr.cast .int, e.pos)]).length =
            if e.ty = .int then 0 else 1 := by
          by_cases h : e.ty = .int <;> simp [h]
        rw [hl] at this
        exact this.at (by omega)
      have hpc3 : τ3.pc = off + 1 + sizeExpr e + (if e.ty = .int then 0 else 1) + 2 := by
        show τ.pc + 1 + 1 = _
        rw [hp, hsz]; omega
      have hI := idx_correct W erest fuel ihm sc _ pre below s1' τ3 a (is0 ++ [i]) rest hcr hpc3 hr3 hwr rfl
      have pre3 : Steps W.code σ τ3 := ((Steps.one s1).trans st).trans (Steps.cons s2 (Steps.one s3))
      generalize ProcArr.Ref.evalIdx W.P fuel erest s1' = r2 at hI ⊢
      obtain ⟨s2', rv2⟩ := r2
      cases rv2 with
      | error o => exact ErrPost.of_steps pre3 hI
      | ok is =>
        obtain ⟨υ, st4, hp4, ha4, hrel4, hss4⟩ := hI
        simp only [IdxPost]
        refine ⟨υ, pre3.trans st4, ?_, ha4.trans rfl, hrel4, ?_⟩
        · rw [hp4]; simp only [sizeIdx]; generalize (if e.ty = Ty.int then 0 else 1) = k; omega
        · have e1 : is0 ++ i :: is = is0 ++ [i] ++ is := by simp
          rw [e1]
          exact ⟨hss4.vals, hss4.paths, by rw [hss4.regStack]; exact hss.regStack, by rw [hss4.rets]; exact hss.rets,
            by rw [hss4.marks]; exact hss.marks, by rw [hss4.trace]; exact hss.trace,
            fun h => hss4.skip (hss.skip h)⟩

/-- `IdxIH` at every amount of fuel covered by the hypothesis -/
theorem idx_ih (W : World) (fuel : Nat) (ih : IHle W fuel) : IdxIH W fuel :=
  fun sc idx off pre below s σ a is0 rest hc hpc hr hw hp =>
    idx_correct W idx fuel ih sc off pre below s σ a is0 rest hc hpc hr hw hp

theorem exprs_ne_nil_length {idx : Exprs} (h : idx ≠ .nil) : idx.length ≠ 0 := by
  cases idx with
  | nil => exact absurd rfl h
  | cons _ _ => simp [Exprs.length]

/-- `CopyVarPathToA` on the resolved element path `a(is)`: the value `St.readElem` reads, or Subscript out of range at
the instruction's position -/
theorem elem_read_step (W : World) (sc : Scope) (pre below : List CtxState) (s : St) (τ : Vm) (a : Nat) (t : Ty)
    (i : Int) (is : List Int) (rest : List Path) (p : Pos)
    (hr : Rel W sc pre below s τ) (ha : sc.slots.arrs[a]? = some t)
    (h0 : W.code[τ.pc]? = some (CInstr.copyVarPathToA, p)) (hp : τ.paths = .elem a (i :: is) :: rest) :
    match s.readElem a (i :: is) p with
    | .ok v => Vm.step W.code τ = .next (Vm.advance (Vm.setA τ v)) ∧ v.tag = t ∧
        ∃ A, s.arrs[a]? = some (some A) ∧ A.inBounds (i :: is) = true
    | .error o => o = .error ProcArr.Ref.codeSubscript p ∧ Vm.step W.code τ = .error ProcArr.Ref.codeSubscript p τ := by
  unfold ProcArr.Ref.St.readElem
  rcases hr.curArr ha with ⟨e1, e2⟩ | ⟨A, V, e1, e2, e3⟩
  · simp only [e1]
    exact ⟨trivial, by simp only [Vm.step, h0, hp, e2]⟩
  · simp only [e1]
    have hrd := e3.read (i :: is)
    by_cases hb : A.inBounds (i :: is) = true
    · simp only [hb, if_true] at hrd ⊢
      exact ⟨by simp only [Vm.step, h0, hp, e2, hrd], e3.get_tag hb, A, rfl, hb⟩
    · simp only [hb] at hrd ⊢
      exact ⟨rfl, by simp only [Vm.step, h0, hp, e2, hrd]; rfl⟩

/-- `CopyAToVarPath` on the resolved element path `a(is)` with a value of the element type in A: `St.setElem` when
`St.readElem` succeeds, Subscript out of range at the instruction's position otherwise -/
theorem elem_store_step (W : World) (sc : Scope) (pre below : List CtxState) (s : St) (τ : Vm) (a : Nat) (t : Ty)
    (i : Int) (is : List Int) (rest : List Path) (p : Pos)
    (hr : Rel W sc pre below s τ) (ha : sc.slots.arrs[a]? = some t) (hv : τ.regs.a.tag = t)
    (h0 : W.code[τ.pc]? = some (CInstr.copyAToVarPath, p)) (hp : τ.paths = .elem a (i :: is) :: rest) :
    match s.readElem a (i :: is) p with
    | .ok _ => ∃ υ, Vm.step W.code τ = .next υ ∧ υ.pc = τ.pc + 1 ∧ υ.paths = rest ∧ υ.regs = τ.regs ∧
        Rel W sc pre below (s.setElem a (i :: is) τ.regs.a) υ ∧ υ.vals = τ.vals ∧ υ.regStack = τ.regStack ∧
        υ.rets = τ.rets ∧ υ.marks = τ.marks ∧ υ.trace = τ.trace ∧ υ.skipNewline = τ.skipNewline
    | .error o => o = .error ProcArr.Ref.codeSubscript p ∧ Vm.step W.code τ = .error ProcArr.Ref.codeSubscript p τ := by
  unfold ProcArr.Ref.St.readElem
  rcases hr.curArr ha with ⟨e1, e2⟩ | ⟨A, V, e1, e2, e3⟩
  · simp only [e1]
    exact ⟨trivial, by simp only [Vm.step, h0, hp, e2]⟩
  · simp only [e1]
    have hst := e3.store (i :: is) τ.regs.a hv
    by_cases hb : A.inBounds (i :: is) = true
    · simp only [hb, if_true] at hst ⊢
      obtain ⟨V', hs, hrel'⟩ := hst
      refine ⟨Vm.advance { τ with ctx := modArr a V' τ.ctx, paths := rest }, by simp only [Vm.step, h0, hp, e2, hs],
        rfl, rfl, rfl, ?_, rfl, rfl, rfl, rfl, rfl, rfl⟩
      rw [setElem_eq e1]
      exact hr.storeArr ha hrel' rfl rfl rfl rfl rfl rfl hr.arrA
    · simp only [hb] at hst ⊢
      exact ⟨rfl, by simp only [Vm.step, h0, hp, e2]; rw [hst]⟩

/-- `VarPathName a · subscripts`: the resolved path of `a(idx)` is on top of the path stack, register A is as before -/
theorem path_correct (W : World) (fuel : Nat) (ih : IHle W fuel) (sc : Scope) (a : Nat) (idx : Exprs) (p : Pos) (off : Nat)
    (pre below : List CtxState) (s : St) (σ : Vm)
    (hc : CodeAt W.code off ([(CInstr.arrPath a, p)] ++ compileIdx W.lay (off + 1) idx)) (hpc : σ.pc = off)
    (hr : Rel W sc pre below s σ) (hw : IdxWf W.sg sc.slots idx) :
    IdxPost W sc pre below (1 + sizeIdx idx) off σ a [] σ.paths (ProcArr.Ref.evalIdx W.P fuel idx s) := by
  have h0 : W.code[σ.pc]? = some (CInstr.arrPath a, p) := by rw [hpc]; exact hc.append_left.head
  let σ1 : Vm := Vm.advance { σ with paths := .elem a [] :: σ.paths }
  have s1 : Vm.step W.code σ = .next σ1 := by simp only [Vm.step, h0]; rfl
  have hr1 : Rel W sc pre below s σ1 := hr.same rfl rfl rfl rfl rfl rfl
  have hci : CodeAt W.code (off + 1) (compileIdx W.lay (off + 1) idx) := by
    have := hc.append_right; simpa using this
  have hI := idx_correct W idx fuel ih sc (off + 1) pre below s σ1 a [] σ.paths hci (by simp [σ1, Vm.advance, hpc]) hr1 hw rfl
  generalize ProcArr.Ref.evalIdx W.P fuel idx s = r at hI ⊢
  obtain ⟨s', rv⟩ := r
  cases rv with
  | error o => exact ErrPost.of_steps (Steps.one s1) hI
  | ok is =>
    obtain ⟨τ, st, hp, ha, hrel, hss⟩ := hI
    exact ⟨τ, (Steps.one s1).trans st, by rw [hp]; omega, ha, hrel,
      ⟨hss.vals, hss.paths, hss.regStack, hss.rets, hss.marks, hss.trace, hss.skip⟩⟩

/-- a non-empty subscript list yields a non-empty index tuple -/
theorem evalIdx_ne_nil (P : Program) : ∀ (fuel : Nat) (idx : Exprs) (s s' : St) (is : List Int), idx ≠ .nil →
    ProcArr.Ref.evalIdx P fuel idx s = (s', .ok is) → is ≠ [] := by
  intro fuel idx s s' is hne h
  cases fuel with
  | zero => simp [ProcArr.Ref.evalIdx] at h
  | succ n =>
    cases idx with
    | nil => exact absurd rfl hne
    | cons e rest =>
      simp only [ProcArr.Ref.evalIdx] at h
      generalize ProcArr.Ref.evalTo P n e .int s = r at h
      obtain ⟨s1, rv⟩ := r
      cases rv with
      | error o => simp at h
      | ok w =>
        cases w with
        | int i =>
          simp only at h
          generalize ProcArr.Ref.evalIdx P n rest s1 = r2 at h
          obtain ⟨s2, rv2⟩ := r2
          cases rv2 with
          | error o => simp at h
          | ok js =>
            simp only [Prod.mk.injEq, Except.ok.injEq] at h
            rw [← h.2]; simp
        | long _ => simp at h
        | sgl _ => simp at h
        | dbl _ => simp at h
        | str _ => simp at h

/-- the value of an element in A with its resolved path still on the path stack (`consume_var_path = false`): what both
the element read (followed by `PopVarPath`) and the element actual (followed by `PushNamedByRef`) start with -/
theorem elemVal_correct (W : World) (fuel : Nat) (ih : IHle W fuel) (sc : Scope) (a : Nat) (idx : Exprs) (t : Ty) (p : Pos)
    (off : Nat) (pre below : List CtxState) (s : St) (σ : Vm)
    (hc : CodeAt W.code off ([(CInstr.arrPath a, p)] ++ compileIdx W.lay (off + 1) idx ++ [(CInstr.copyVarPathToA, p)]))
    (hpc : σ.pc = off) (hr : Rel W sc pre below s σ) (hw : EWf W.sg sc.slots (.elem a idx t p)) :
    match ProcArr.Ref.evalElem W.P (fuel + 1) a idx p s with
    | (s', .ok (v, is)) => ∃ τ, Steps W.code σ τ ∧ τ.pc = off + 1 + sizeIdx idx + 1 ∧ τ.regs.a = v ∧ Rel W sc pre below s' τ ∧
        SameStacks { σ with paths := .elem a is :: σ.paths } τ ∧ v.tag = t ∧ is ≠ [] ∧
        ∃ A, s'.arrs[a]? = some (some A) ∧ A.inBounds is = true
    | (s', .error o) => ErrPost W.code σ s' o := by
  simp only [EWf] at hw
  obtain ⟨hat, hne, hwi⟩ := hw
  have hP := path_correct W fuel ih sc a idx p off pre below s σ hc.append_left hpc hr hwi
  simp only [ProcArr.Ref.evalElem]
  generalize hev : ProcArr.Ref.evalIdx W.P fuel idx s = r at hP ⊢
  obtain ⟨s', rv⟩ := r
  cases rv with
  | error o => exact hP
  | ok is =>
    obtain ⟨τ, st, hp, ha, hrel, hss⟩ := hP
    simp only [List.nil_append] at hss
    have hisne := evalIdx_ne_nil W.P fuel idx s s' is hne hev
    obtain ⟨i, is', his⟩ : ∃ i is', is = i :: is' := by
      cases is with
      | nil => exact absurd rfl hisne
      | cons i is' => exact ⟨i, is', rfl⟩
    subst his
    have h0 : W.code[τ.pc]? = some (CInstr.copyVarPathToA, p) := by
      have := hc.append_right.head
      simp only [List.length_append, List.length_singleton, len_idx] at this
      rw [hp, ← this]
    have hrd := elem_read_step W sc pre below s' τ a t i is' σ.paths p hrel hat h0 hss.paths
    simp only
    cases hre : s'.readElem a (i :: is') p with
    | error o =>
      rw [hre] at hrd
      obtain ⟨ho, hstep⟩ := hrd
      subst ho
      simp only [ErrPost]
      exact ⟨τ, τ, st, hstep, hrel.out⟩
    | ok v =>
      rw [hre] at hrd
      obtain ⟨hstep, htag, hA⟩ := hrd
      simp only
      exact ⟨Vm.advance (Vm.setA τ v), st.trans (Steps.one hstep), by simp only [Vm.advance, Vm.setA]; rw [hp]; omega, rfl,
        (hrel.setA v).advance, ⟨hss.vals, hss.paths, hss.regStack, hss.rets, hss.marks, hss.trace, hss.skip⟩, htag,
        by simp, hA⟩

/-- element read `a(idx)` -/
theorem case_elem (W : World) (fuel : Nat) (ih : IHle W fuel) (a : Nat) (idx : Exprs) (t : Ty) (p : Pos)
    (sc : Scope) (off : Nat) (pre below : List CtxState) (s : St) (σ : Vm)
    (hc : CodeAt W.code off (compileExpr W.lay off (.elem a idx t p))) (hpc : σ.pc = off)
    (hr : Rel W sc pre below s σ) (hw : EWf W.sg sc.slots (.elem a idx t p)) :
    ExprPost W sc pre below (sizeExpr (.elem a idx t p)) (ProcArr.Expr.elem a idx t p).ty off σ
      (ProcArr.Ref.eval W.P (fuel + 1) (.elem a idx t p) s) := by
  simp only [compileExpr] at hc
  simp only [ProcArr.Ref.eval, ProcArr.Expr.ty, sizeExpr]
  cases fuel with
  | zero => simp only [ProcArr.Ref.evalElem, ExprPost, ErrPost]
  | succ n =>
    have hcv : CodeAt W.code off ([(CInstr.arrPath a, p)] ++ compileIdx W.lay (off + 1) idx ++ [(CInstr.copyVarPathToA, p)]) := by
      have : [(CInstr.arrPath a, p)] ++ compileIdx W.lay (off + 1) idx ++ [(CInstr.copyVarPathToA, p), (CInstr.popVarPath, p)] =
          ([(CInstr.arrPath a, p)] ++ compileIdx W.lay (off + 1) idx ++ [(CInstr.copyVarPathToA, p)]) ++ [(CInstr.popVarPath, p)] := by
        simp
      rw [this] at hc
      exact hc.append_left
    have hE := elemVal_correct W n (ih.mono (Nat.le_succ n)) sc a idx t p off pre below s σ hcv hpc hr hw
    generalize ProcArr.Ref.evalElem W.P (n + 1) a idx p s = r at hE ⊢
    obtain ⟨s', rv⟩ := r
    cases rv with
    | error o => exact hE
    | ok vi =>
      obtain ⟨v, is⟩ := vi
      obtain ⟨τ, st, hp, ha, hrel, hss, htag, _, _⟩ := hE
      have h1 : W.code[τ.pc]? = some (CInstr.popVarPath, p) := by
        have := hc.append_right.tail.head
        simp only [List.length_append, List.length_singleton, len_idx] at this
        rw [hp, ← this]; congr 1; omega
      have hpth : τ.paths = .elem a is :: σ.paths := hss.paths
      refine ⟨Vm.advance { τ with paths := σ.paths }, st.trans (Steps.one ?_), ?_, ha, hrel.same rfl rfl rfl rfl rfl rfl,
        ⟨hss.vals, rfl, hss.regStack, hss.rets, hss.marks, hss.trace, hss.skip⟩, htag⟩
      · simp only [Vm.step, h1, hpth]
      · simp only [Vm.advance]; rw [hp]; omega

/-- an element ACTUAL bound to a parameter of type `pt`: `⟦a(idx)⟧path · CopyVarPathToA [Cast pt]` leaves the converted
value in A and the resolved path on the path stack; the location is valid in the resulting state -/
theorem elemArg_correct (W : World) (fuel : Nat) (ih : IHle W fuel) (sc : Scope) (a : Nat) (idx : Exprs) (t pt : Ty) (p : Pos)
    (off : Nat) (pre below : List CtxState) (s : St) (σ : Vm)
    (hc : CodeAt W.code off (compileArg W.lay off (.elem a idx t p) ++ (if t = pt then [] else [(CInstr.cast pt, p)])))
    (hpc : σ.pc = off) (hr : Rel W sc pre below s σ) (hw : EWf W.sg sc.slots (.elem a idx t p)) :
    match ProcArr.Ref.evalArg W.P (fuel + 1) (.elem a idx t p) pt s with
    | (s', .ok (v, l)) => ∃ τ is, l = some (a, is) ∧ Steps W.code σ τ ∧
        τ.pc = off + sizeArg (.elem a idx t p) + (if t = pt then 0 else 1) ∧ τ.regs.a = v ∧ Rel W sc pre below s' τ ∧
        SameStacks { σ with paths := .elem a is :: σ.paths } τ ∧ v.tag = pt ∧
        LocOk sc.slots s' (.elem a idx t p) l
    | (s', .error o) => ErrPost W.code σ s' o := by
  simp only [compileArg] at hc
  simp only [ProcArr.Ref.evalArg, sizeArg]
  cases fuel with
  | zero => simp only [ProcArr.Ref.evalElem, ErrPost]
  | succ n =>
    have hE := elemVal_correct W n (ih.mono (Nat.le_succ n)) sc a idx t p off pre below s σ hc.append_left hpc hr hw
    generalize ProcArr.Ref.evalElem W.P (n + 1) a idx p s = r at hE ⊢
    obtain ⟨s', rv⟩ := r
    cases rv with
    | error o => exact hE
    | ok vi =>
      obtain ⟨v, is⟩ := vi
      obtain ⟨τ, st, hp, ha, hrel, hss, htag, hisne, A, hA, hin⟩ := hE
      simp only
      have hct : CodeAt W.code τ.pc (if t = pt then [] else [(CInstr.cast pt, p)]) := by
        have := hc.append_right
        simp only [List.length_append, List.length_singleton, len_idx] at this
        rw [hp]; exact this.at (by omega)
      have hcast := cast_tail W sc pre below s' t pt p τ hct hrel (by rw [ha]; exact htag)
      rw [ha] at hcast
      generalize hl : ProcArr.Ref.liftR s' p (storeCast t pt v) = r2 at hcast ⊢
      obtain ⟨s2, rv2⟩ := r2
      have hs2 : s2 = s' := by
        have : (ProcArr.Ref.liftR s' p (storeCast t pt v)).1 = s' := by
          cases storeCast t pt v <;> rfl
        rw [hl] at this; exact this
      subst hs2
      cases rv2 with
      | error o => exact ErrPost.of_steps st hcast
      | ok w =>
        obtain ⟨υ, st2, hp2, ha2, hrel2, hss2, htag2⟩ := hcast
        simp only [EWf] at hw
        refine ⟨υ, is, rfl, st.trans st2, by rw [hp2, hp]; omega, ha2, hrel2, ?_, htag2, ?_⟩
        · exact ⟨by rw [hss2.vals]; exact hss.vals, by rw [hss2.paths]; exact hss.paths,
            by rw [hss2.regStack]; exact hss.regStack, by rw [hss2.rets]; exact hss.rets,
            by rw [hss2.marks]; exact hss.marks, by rw [hss2.trace]; exact hss.trace, fun h => hss2.skip (hss.skip h)⟩
        · exact ⟨is, A, rfl, hisne, hw.1, hA, hin⟩

/-- element assignment `a(idx) = e`: right-hand side (converted) first, then the path, then the store -/
theorem case_assignElem (W : World) (fuel : Nat) (ih : IHle W fuel) (a : Nat) (t : Ty) (idx : Exprs) (e : ProcArr.Expr) (p : Pos)
    (sc : Scope) (sfx : String) (fd sd off : Nat) (below : List CtxState) (s : St) (σ : Vm)
    (hc : CodeAt W.code off (compileStmt W.lay sfx fd sd off (.assignElem a t idx e p))) (hpc : σ.pc = off)
    (hr : Rel W sc [] below s σ) (hw : Wf W.sg sc (.assignElem a t idx e p)) (ha : ActInv sc fd sd σ) :
    StmtPost W sc below fd sd (sizeStmt fd sd (.assignElem a t idx e p)) off σ
      (ProcArr.Ref.exec W.P (fuel + 1) (desugar (.assignElem a t idx e p)) s) := by
  simp only [compileStmt] at hc
  simp only [Wf] at hw
  obtain ⟨hat, hne, hwi, hwe⟩ := hw
  have he := exprTo_correct' W fuel ih sc e t off [] below s σ hc.append_left.append_left.append_left hpc hr hwe
  simp only [desugar, ProcArr.Ref.exec, sizeStmt]
  generalize ProcArr.Ref.evalTo W.P fuel e t s = r at he ⊢
  obtain ⟨s1, rv⟩ := r
  cases rv with
  | error o => exact StmtPost.of_err he
  | ok v =>
    obtain ⟨τ, st, hp, hav, hrel, hss, htag⟩ := he
    have hcp : CodeAt W.code τ.pc ([(CInstr.arrPath a, p)] ++ compileIdx W.lay (τ.pc + 1) idx) := by
      have h1 := hc.append_left
      rw [List.append_assoc] at h1
      have := h1.append_right
      rw [len_exprTo] at this
      rw [hp]; exact this
    have hP := path_correct W fuel ih sc a idx p τ.pc [] below s1 τ hcp rfl hrel hwi
    simp only
    generalize hev : ProcArr.Ref.evalIdx W.P fuel idx s1 = r2 at hP ⊢
    obtain ⟨s2, rv2⟩ := r2
    cases rv2 with
    | error o => exact StmtPost.of_err (ErrPost.of_steps st hP)
    | ok is =>
      obtain ⟨υ, st2, hp2, ha2, hrel2, hss2⟩ := hP
      simp only [List.nil_append] at hss2
      have hisne := evalIdx_ne_nil W.P fuel idx s1 s2 is hne hev
      obtain ⟨i, is', his⟩ : ∃ i is', is = i :: is' := by
        cases is with
        | nil => exact absurd rfl hisne
        | cons i is' => exact ⟨i, is', rfl⟩
      subst his
      have h0 : W.code[υ.pc]? = some (CInstr.copyAToVarPath, p) := by
        have := hc.append_right.head
        simp only [List.length_append, List.length_singleton, len_idx, len_exprTo] at this
        rw [hp2, hp, ← this]; congr 1; omega
      have hst := elem_store_step W sc [] below s2 υ a t i is' τ.paths p hrel2 hat (by rw [ha2, hav]; exact htag) h0 hss2.paths
      simp only
      cases hre : s2.readElem a (i :: is') p with
      | error o =>
        rw [hre] at hst
        obtain ⟨ho, hstep⟩ := hst
        subst ho
        simp only [StmtPost]
        exact ⟨υ, υ, st.trans st2, hstep, hrel2.out⟩
      | ok w =>
        rw [hre] at hst
        obtain ⟨φ, hstep, hpc', hpa, hrg, hrel3, hv3, hrs3, hre3, hm3, ht3, hsk3⟩ := hst
        simp only [StmtPost]
        rw [ha2, hav] at hrel3
        refine ⟨φ, (st.trans st2).trans (Steps.one hstep), ?_, hrel3, ?_⟩
        · rw [hpc', hp2, hp]; omega
        · exact ⟨by rw [hv3, hss2.vals]; exact hss.vals, by rw [hpa]; exact hss.paths,
            by rw [hrs3, hss2.regStack]; exact hss.regStack, by rw [hre3, hss2.rets]; exact hss.rets,
            by rw [hm3, hss2.marks]; exact hss.marks, by rw [ht3, hss2.trace]; exact hss.trace,
            fun h => by rw [hsk3]; exact hss2.skip (hss.skip h)⟩

end RbThm.ProcArrSim
