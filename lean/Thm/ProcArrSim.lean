import Thm.ProcArrSimBase
import Thm.ProcArrSimExpr
import Thm.ProcArrSimIdx
import Thm.ProcArrSimStmt
import Thm.ProcArrSimDim
import Thm.ProcArrSimArgs
import Thm.ProcArrSimCall
import Thm.ProcArrSimIf
import Thm.ProcArrSimDo
import Thm.ProcArrSimSelect
import Thm.ProcArrSimFor
import Thm.ProcArrSimRead
import Thm.ProcArrSimPrint
import Thm.ProcArrSimProg
import Thm.ProcArrWf
import RbModel.ProcArr.Spec
/-!
Combined layer (core language + SUB / FUNCTION + arrays of scalars in every ordinary scope + array elements as
by-reference actuals), simulation part — the assembly.

`expr_succ` / `stmt_succ` dispatch to the case lemmas (`Thm/ProcArrSim{Expr,Idx,Stmt,Dim,Args,Call,If,Do,Select,For,Read,
Print}.lean`), `ih_all` is the induction on fuel, `compile_correct` the whole-program theorem (`Thm/ProcArrSimProg.lean`),
`run_correct` its form for the bounded interpreter, `compile_correct_checked` its form with the decidable premise
(`Thm/ProcArrWf.lean`), `compileCorrect_spec` the statement proposed in `RbModel/ProcArr/Spec.lean`, verbatim.
-/
namespace RbThm.ProcArrSim
set_option linter.unusedVariables false
open RbModel RbModel.Num RbModel.ProcArr RbModel.ProcArr.Compile RbModel.ProcArr.Vm
open RbModel.Ast (Pos)
open RbThm.ProcArrLen

/-- the expression part of the induction step -/
theorem expr_succ (W : World) (fuel : Nat) (ih : IHle W fuel) : ExprIH W (fuel + 1) := by
  intro sc e off pre below s σ hc hpc hr hw
  cases e with
  | lit v p => exact case_lit W fuel v p sc off pre below s σ hc hpc hr
  | var x t p => exact case_var W fuel x t p sc off pre below s σ hc hpc hr hw
  | un op e p => exact case_un W fuel ih op e p sc off pre below s σ hc hpc hr hw
  | bin op l r t p => exact case_bin W fuel ih op l r t p sc off pre below s σ hc hpc hr hw
  | paren e p => exact case_paren W fuel ih e p sc off pre below s σ hc hpc hr hw
  | callFn f args t p => exact case_callFn W fuel ih f args t p sc off pre below s σ hc hpc hr hw
  | elem a idx t p => exact case_elem W fuel ih a idx t p sc off pre below s σ hc hpc hr hw

/-- one more unit of fuel: every statement of the language, given the hypothesis at all smaller amounts -/
theorem stmt_succ (W : World) (fuel : Nat) (ih : IHle W fuel) : StmtIH W (fuel + 1) := by
  intro sc stmt sfx fd sd off below s σ hc hpc hr hw ha
  cases stmt with
  | skip =>
    simp only [desugar, ProcArr.Ref.exec, StmtPost, sizeStmt, Nat.add_zero]
    exact ⟨σ, Steps.refl σ, hpc, hr, SameStacks.refl σ⟩
  | comment =>
    simp only [desugar, ProcArr.Ref.exec, StmtPost, sizeStmt, Nat.add_zero]
    exact ⟨σ, Steps.refl σ, hpc, hr, SameStacks.refl σ⟩
  | seq a b => exact case_seq W fuel ih a b sc sfx fd sd off below s σ hc hpc hr hw ha
  | dim x t p => exact case_dim W fuel ih x t p sc sfx fd sd off below s σ hc hpc hr hw ha
  | sdim x t p => exact case_sdim W fuel x t p sc sfx fd sd off below s σ hc hpc hr hw ha
  | assign x t e p => exact case_assign W fuel ih x t e p sc sfx fd sd off below s σ hc hpc hr hw ha
  | dimArr a t dims p => exact case_dimArr W fuel ih a t dims p sc sfx fd sd off below s σ hc hpc hr hw ha
  | assignElem a t idx e p => exact case_assignElem W fuel ih a t idx e p sc sfx fd sd off below s σ hc hpc hr hw ha
  | print items p => exact case_print W fuel ih items p sc sfx fd sd off below s σ hc hpc hr hw ha
  | data items p => simp only [Wf] at hw
  | read vars p => exact case_read W fuel ih vars p sc sfx fd sd off below s σ hc hpc hr hw ha
  | ifBlock c thn elifs hasElse els p =>
    exact case_if W fuel ih c thn elifs hasElse els p sc sfx fd sd off below s σ hc hpc hr hw ha
  | select e cases hasElse els p =>
    exact case_select W fuel ih e cases hasElse els p sc sfx fd sd off below s σ hc hpc hr hw ha
  | forLoop x t lo hi step body p =>
    exact case_for W fuel ih x t lo hi step body p sc sfx fd sd off below s σ hc hpc hr hw ha
  | «while» c body p => exact case_while W fuel ih c body p sc sfx fd sd off below s σ hc hpc hr hw ha
  | doLoop c top u body p => exact case_do W fuel ih c top u body p sc sfx fd sd off below s σ hc hpc hr hw ha
  | end_ p => exact case_end W fuel p sc sfx fd sd off below s σ hc hpc hr
  | callSub f args p => exact case_callSub W fuel ih f args p sc sfx fd sd off below s σ hc hpc hr hw ha
  | exitProc p => exact case_exitProc W fuel p sc sfx fd sd off below s σ hc hpc hr hw ha

/-- one more unit of fuel: expressions, argument lists, calls and statements -/
theorem ih_succ (W : World) (procs : List (ProcDecl SStmt)) (hp : ProcsOk W procs) (fuel : Nat) (ih : IHle W fuel) :
    IH W (fuel + 1) :=
  ⟨expr_succ W fuel ih, case_args W fuel ih, call_correct W procs hp fuel ih, stmt_succ W fuel ih⟩

theorem ihle_all (W : World) (procs : List (ProcDecl SStmt)) (hp : ProcsOk W procs) : ∀ fuel, IHle W fuel := by
  intro fuel
  induction fuel with
  | zero =>
    intro f hf
    have : f = 0 := by omega
    subst this
    exact ih_zero W
  | succ n ih =>
    intro f hf
    by_cases h : f ≤ n
    · exact ih f h
    · have : f = n + 1 := by omega
      subst this
      exact ih_succ W procs hp n ih

/-- **the simulation theorem for the procedures layer at the level of constructs**: in a world whose procedures are
well formed and placed at their layout addresses, for every amount of fuel the code of every well-formed expression,
argument list, call and statement does on the VM model what the reference semantics prescribes -/
theorem ih_all (W : World) (procs : List (ProcDecl SStmt)) (hp : ProcsOk W procs) (fuel : Nat) : IH W fuel :=
  (ihle_all W procs hp fuel).self

/-- **`ProcArr.compile_correct`** — whole programs with SUBs and FUNCTIONs: for every well-formed program (`ProgWf`) and
every amount of fuel, if the reference semantics `ProcArr.Ref.run` ends normally or with END (anywhere, also inside a
procedure), the VM model `ProcArr.Vm` running the code the generator model `ProcArr.Compile.compile` emits reaches a `Halt`
from the initial state with the same output; if it ends with BASIC error `c` at position `p`, the VM stops with error
`c` at `p` with the same output; and the reference semantics never answers `exited` (EXIT SUB outside a procedure) or
`illFormed` (call of a missing procedure) for such a program.  No bound on program size, nesting or recursion depth or
run length. -/
theorem compile_correct (prog : SProgram) (fuel : Nat) (hw : ProgWf prog) :
    match ProcArr.Ref.run fuel prog.toAst with
    | (s', .normal) => HaltsWith (compile prog) Vm.init s'.out
    | (s', .halted) => HaltsWith (compile prog) Vm.init s'.out
    | (s', .error c p) => ErrsWith (compile prog) Vm.init c p s'.out
    | (_, .inexact) => True
    | (_, .outOfFuel) => True
    | (_, .tooBig) => True
    | (_, .exited) => False
    | (_, .illFormed) => False :=
  compile_correct_of prog fuel hw (fun f => (ih_all (world prog) prog.procs (procsOk_world prog hw) f).stmt)

/-- `Steps` is what `ProcArr.Vm.run` does: a run that takes the steps and then halts is a halted run of the bounded
interpreter the correspondence check executes, for every sufficient step budget -/
theorem run_of_steps (code : Code) {σ τ υ : Vm} (h : Steps code σ τ) (hh : Vm.step code τ = .halt υ) :
    ∃ n, ∀ m, n ≤ m → ∃ ω, Vm.run code m σ = .halted ω ∧ ω = υ := by
  induction h with
  | refl σ =>
    refine ⟨1, fun m hm => ?_⟩
    obtain ⟨k, rfl⟩ : ∃ k, m = k + 1 := ⟨m - 1, by omega⟩
    exact ⟨υ, by simp [Vm.run, hh], rfl⟩
  | cons hs _ ih =>
    obtain ⟨n, hn⟩ := ih hh
    refine ⟨n + 1, fun m hm => ?_⟩
    obtain ⟨k, rfl⟩ : ∃ k, m = k + 1 := ⟨m - 1, by omega⟩
    obtain ⟨ω, h1, h2⟩ := hn k (by omega)
    exact ⟨ω, by simp [Vm.run, hs, h1], h2⟩

theorem run_of_steps_error (code : Code) {σ τ υ : Vm} {c : Nat} {p : Pos} (h : Steps code σ τ)
    (hh : Vm.step code τ = .error c p υ) :
    ∃ n, ∀ m, n ≤ m → Vm.run code m σ = .error c p υ := by
  induction h with
  | refl σ =>
    refine ⟨1, fun m hm => ?_⟩
    obtain ⟨k, rfl⟩ : ∃ k, m = k + 1 := ⟨m - 1, by omega⟩
    simp [Vm.run, hh]
  | cons hs _ ih =>
    obtain ⟨n, hn⟩ := ih hh
    refine ⟨n + 1, fun m hm => ?_⟩
    obtain ⟨k, rfl⟩ : ∃ k, m = k + 1 := ⟨m - 1, by omega⟩
    simp [Vm.run, hs, hn k (by omega)]

/-- **`ProcArr.run_correct`** — `ProcArr.compile_correct` restated for the bounded interpreter `ProcArr.Vm.run` that the
correspondence check executes against the real VM: for every sufficient step budget the run of the generated code ends
as the reference semantics prescribes -/
theorem run_correct (prog : SProgram) (fuel : Nat) (hw : ProgWf prog) :
    match ProcArr.Ref.run fuel prog.toAst with
    | (s', .normal) => ∃ n υ, (∀ m, n ≤ m → Vm.run (compile prog) m Vm.init = .halted υ) ∧ υ.out = s'.out
    | (s', .halted) => ∃ n υ, (∀ m, n ≤ m → Vm.run (compile prog) m Vm.init = .halted υ) ∧ υ.out = s'.out
    | (s', .error c p) => ∃ n υ, (∀ m, n ≤ m → Vm.run (compile prog) m Vm.init = .error c p υ) ∧ υ.out = s'.out
    | (_, .inexact) => True
    | (_, .outOfFuel) => True
    | (_, .tooBig) => True
    | (_, .exited) => False
    | (_, .illFormed) => False := by
  have h := compile_correct prog fuel hw
  generalize ProcArr.Ref.run fuel prog.toAst = r at h ⊢
  obtain ⟨s', o⟩ := r
  cases o with
  | normal =>
    obtain ⟨τ, υ, st, hh, ho⟩ := h
    obtain ⟨n, hn⟩ := run_of_steps _ st hh
    exact ⟨n, υ, fun m hm => by obtain ⟨ω, h1, h2⟩ := hn m hm; rw [h1, h2], ho⟩
  | halted =>
    obtain ⟨τ, υ, st, hh, ho⟩ := h
    obtain ⟨n, hn⟩ := run_of_steps _ st hh
    exact ⟨n, υ, fun m hm => by obtain ⟨ω, h1, h2⟩ := hn m hm; rw [h1, h2], ho⟩
  | error c p =>
    obtain ⟨τ, υ, st, hh, ho⟩ := h
    obtain ⟨n, hn⟩ := run_of_steps_error _ st hh
    exact ⟨n, υ, hn, ho⟩
  | inexact => trivial
  | outOfFuel => trivial
  | tooBig => trivial
  | exited => exact h
  | illFormed => exact h

/-- `ProcArr.compile_correct` with the premise in its decidable form (`Thm/ProcArrWf.lean`): what a driver can evaluate on a
concrete linted program -/
theorem compile_correct_checked (prog : SProgram) (fuel : Nat) (hw : progWfB prog = true) :
    match ProcArr.Ref.run fuel prog.toAst with
    | (s', .normal) => HaltsWith (compile prog) Vm.init s'.out
    | (s', .halted) => HaltsWith (compile prog) Vm.init s'.out
    | (s', .error c p) => ErrsWith (compile prog) Vm.init c p s'.out
    | (_, .inexact) => True
    | (_, .outOfFuel) => True
    | (_, .tooBig) => True
    | (_, .exited) => False
    | (_, .illFormed) => False :=
  compile_correct prog fuel (progWfB_sound prog hw)

/-! #### the statement proposed in `RbModel.ProcArr.Spec` -/

theorem steps_spec {code : Code} {σ τ : Vm} (h : Steps code σ τ) : RbModel.ProcArr.Spec.Steps code σ τ := by
  induction h with
  | refl σ => exact .refl σ
  | cons hs _ ih => exact .cons hs ih

/-- **the proposed statement `ProcArr.Spec.CompileCorrect` holds, verbatim** (premise: the executable checker `progWfB`) -/
theorem compileCorrect_spec : RbModel.ProcArr.Spec.CompileCorrect := by
  intro prog fuel hw
  have h := compile_correct_checked prog fuel hw
  generalize ProcArr.Ref.run fuel prog.toAst = r at h ⊢
  obtain ⟨s', o⟩ := r
  cases o with
  | normal =>
    obtain ⟨τ, υ, st, hh, ho⟩ := h
    exact ⟨τ, υ, steps_spec st, hh, ho⟩
  | halted =>
    obtain ⟨τ, υ, st, hh, ho⟩ := h
    exact ⟨τ, υ, steps_spec st, hh, ho⟩
  | error c p =>
    obtain ⟨τ, υ, st, hh, ho⟩ := h
    exact ⟨τ, υ, steps_spec st, hh, ho⟩
  | inexact => trivial
  | outOfFuel => trivial
  | tooBig => trivial
  | exited => exact h
  | illFormed => exact h

/-- the collected arguments / queue entries `case_args` and `enq_phase` produce (`argEntry`) satisfy the relation
`QueueRel` proposed in `RbModel/ProcArr/Spec.lean`: same values, a path `elem a is` exactly for a location `(a, is)` -/
theorem queueRel_argEntry (avs : List (Val × Option Loc)) : RbModel.ProcArr.Spec.QueueRel (avs.map argEntry) avs := by
  refine ⟨by rw [List.map_map]; rfl, ?_⟩
  rw [List.map_map]
  apply List.map_congr_left
  intro av _
  obtain ⟨v, l⟩ := av
  cases l with
  | none => rfl
  | some l => obtain ⟨a, is⟩ := l; rfl

/-! #### non-vacuity: a concrete program with an array, an element assignment and an array ELEMENT passed by reference
whose subscript variable the callee changes

    DIM A%(1 TO 3)
    I% = 2
    A%(I%) = 5
    S A%(I%), I%
    PRINT A%(2); I%
    SUB S(X%, K%) : K% = 3 : X% = X% + 1 : END SUB

(the real interpreter prints ` 6  3`: the element selected by the subscript as evaluated BEFORE the call received the
callee's final value)
-/

private def demoProg : SProgram :=
  { slots := [.int],
    gslots := [],
    arrs := [.int],
    body :=
      .seq (.dimArr 0 .int (.cons (some (.lit (.int 1) ⟨1, 9⟩)) (.lit (.int 3) ⟨1, 14⟩) .nil) ⟨1, 5⟩)
      (.seq (.assign ⟨false, 0⟩ .int (.lit (.int 2) ⟨2, 6⟩) ⟨2, 1⟩)
      (.seq (.assignElem 0 .int (.cons (.var ⟨false, 0⟩ .int ⟨3, 4⟩) .nil) (.lit (.int 5) ⟨3, 10⟩) ⟨3, 1⟩)
      (.seq (.callSub 0 (.cons (.elem 0 (.cons (.var ⟨false, 0⟩ .int ⟨4, 6⟩) .nil) .int ⟨4, 3⟩) "X" .int
              (.cons (.var ⟨false, 0⟩ .int ⟨4, 11⟩) "K" .int .nil)) ⟨4, 1⟩)
      (.seq (.print [.expr (.elem 0 (.cons (.lit (.int 2) ⟨5, 10⟩) .nil) .int ⟨5, 7⟩), .semicolon,
              .expr (.var ⟨false, 0⟩ .int ⟨5, 14⟩)] ⟨5, 1⟩) .skip)))),
    procs :=
      [ { result := none, name := "S", params := [("X", .int), ("K", .int)], slots := [.int, .int],
          body :=
            .seq (.assign ⟨false, 1⟩ .int (.lit (.int 3) ⟨6, 20⟩) ⟨6, 15⟩)
            (.seq (.assign ⟨false, 0⟩ .int (.bin .plus (.var ⟨false, 0⟩ .int ⟨6, 29⟩) (.lit (.int 1) ⟨6, 34⟩) .int ⟨6, 32⟩) ⟨6, 24⟩) .skip),
          pos := ⟨6, 1⟩ } ] }

/-- the premise of `ProcArr.compile_correct` is satisfiable: the demo program passes the checker -/
example : progWfB demoProg = true := by decide

/-- … and the theorem applies to it at every fuel -/
example (fuel : Nat) :
    match ProcArr.Ref.run fuel demoProg.toAst with
    | (s', .normal) => HaltsWith (compile demoProg) Vm.init s'.out
    | (s', .halted) => HaltsWith (compile demoProg) Vm.init s'.out
    | (s', .error c p) => ErrsWith (compile demoProg) Vm.init c p s'.out
    | (_, .inexact) => True
    | (_, .outOfFuel) => True
    | (_, .tooBig) => True
    | (_, .exited) => False
    | (_, .illFormed) => False :=
  compile_correct_checked demoProg fuel (by decide)

end RbThm.ProcArrSim
