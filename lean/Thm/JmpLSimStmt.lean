import Thm.JmpLSimBase
/-!
Jump layer, simulation part: the simple statements of the core language (`assign`, `dim`, `END`, `PRINT`), ported from
`Thm/C01SimBase.lean`.  None of them defines a label, so they are only ever entered from their first instruction
(`Entry.of_nolabels`), and they leave the four stacks alone.
-/
namespace RbThm.JmpLSim
set_option linter.unusedVariables false
set_option linter.unusedSimpArgs false
open RbModel RbModel.Num RbModel.JmpL RbModel.JmpL.Compile RbModel.JmpL.Vm
open RbModel.Ast (Pos PrintItem CaseExpr)
open RbModel.Ref (St ERes eval evalTo codeOf codeOutOfData codeZeroStep zeroOf truthy printValue endsInSeparator StepSign
  binStep lift)
open RbModel.JmpL.Ref
open RbThm.JmpLLen
open RbThm.C01Sim (Typed SlotsBelow ExprWt NumericAt NumericCond ItemsSlots CaseSlots CondsSlots zeroOf_eq flagAfter
  flagAfter_eq isSep)

theorem case_assign (C : Ctx) (fuel : Nat) (x : Nat) (t : Ty) (ex : Ast.Expr) (p : Pos) (sfx : String) (d e off : Nat)
    (m : Mode) (σ : Vm) (s : St)
    (hc : CodeAt C.code off (compileStmt C.env sfx d e off (.assign x t ex p)))
    (hw : Wf C.sl C.env.dp d e (.assign x t ex p))
    (hen : Entry C.env off (.assign x t ex p) m σ) (hr : Rel C.sl s σ) :
    StmtSpec C d e (off + sizeStmt C.env.dp d e (.assign x t ex p)) σ
      (exec (fuel + 1) C.P (desugar (.assign x t ex p)) m s) := by
  obtain ⟨rfl, hpc⟩ := hen.of_nolabels rfl
  simp only [compileStmt] at hc
  obtain ⟨hx, hse, hwt⟩ := hw
  have he := exprTo_correct C.code ex t off σ hc.append_left hpc (by rw [hr.len]; exact hse)
  simp only [desugar, exec, sizeStmt]
  rw [hr.env] at he
  cases hev : evalTo s.env ex t with
  | err c q =>
    simp only [hev] at he
    simp only [StmtSpec]
    rw [← hr.out]; exact ⟨_, he⟩
  | inexact => simp [StmtSpec]
  | ok v =>
    simp only [hev] at he
    obtain ⟨b, st⟩ := he
    simp only [StmtSpec]
    have hst := store_steps C.code x p (off + (compileExprTo ex t).length)
      (afterExpr σ (off + (compileExprTo ex t).length) v b) hc.append_right rfl
    refine ⟨_, st.trans hst, by simp; omega, ?_, ⟨rfl, rfl, rfl, rfl⟩⟩
    exact hr.store hx (RbThm.C01Sim.SimRead.evalTo_tag C.sl s.env hr.typed ex t v hwt hev) rfl rfl rfl rfl rfl rfl

theorem case_dim (C : Ctx) (fuel : Nat) (x : Nat) (t : Ty) (p : Pos) (sfx : String) (d e off : Nat)
    (m : Mode) (σ : Vm) (s : St)
    (hc : CodeAt C.code off (compileStmt C.env sfx d e off (.dim x t p)))
    (hw : Wf C.sl C.env.dp d e (.dim x t p))
    (hen : Entry C.env off (.dim x t p) m σ) (hr : Rel C.sl s σ) :
    StmtSpec C d e (off + sizeStmt C.env.dp d e (.dim x t p)) σ (exec (fuel + 1) C.P (desugar (.dim x t p)) m s) := by
  obtain ⟨rfl, hpc⟩ := hen.of_nolabels rfl
  simp only [compileStmt] at hc
  subst hpc
  have h0 : C.code[σ.pc]? = some (CInstr.allocate t, p) := hc.head
  have h1 : C.code[σ.pc + 1]? = some (CInstr.varPath x, p) := hc.tail.head
  have h2 : C.code[σ.pc + 1 + 1]? = some (CInstr.copyAToVarPath, p) := hc.tail.tail.head
  have hev : evalTo s.env (Ast.Expr.lit (Src.zeroOf t) p) t = .ok (Ref.zeroOf t) := by
    simp only [evalTo, eval, ERes.bind, storeCast, Ast.Expr.ty, zeroOf_eq]
    cases t <;> rfl
  simp only [desugar, exec, hev, StmtSpec, sizeStmt]
  let σ1 : Vm := advance (setA σ (Ref.zeroOf t))
  let σ2 : Vm := advance { σ1 with paths := x :: σ1.paths }
  let σ3 : Vm := advance { σ2 with env := σ2.env.set x σ2.regs.a, paths := σ.paths }
  have s1 : Vm.step C.code σ = .next σ1 := by simp only [Vm.step, h0]; rfl
  have s2 : Vm.step C.code σ1 = .next σ2 := by simp only [Vm.step, σ1, advance, setA, h1]; rfl
  have s3 : Vm.step C.code σ2 = .next σ3 := by simp only [Vm.step, σ2, σ1, advance, setA, h2]; rfl
  refine ⟨σ3, Steps.cons s1 (Steps.cons s2 (Steps.one s3)), rfl, ?_, ⟨rfl, rfl, rfl, rfl⟩⟩
  exact hr.store hw (by cases t <;> rfl) rfl rfl rfl rfl rfl rfl

theorem case_end (C : Ctx) (fuel : Nat) (p : Pos) (sfx : String) (d e off : Nat) (m : Mode) (σ : Vm) (s : St)
    (hc : CodeAt C.code off (compileStmt C.env sfx d e off (.end_ p)))
    (hen : Entry C.env off (.end_ p) m σ) (hr : Rel C.sl s σ) :
    StmtSpec C d e (off + sizeStmt C.env.dp d e (.end_ p)) σ (exec (fuel + 1) C.P (desugar (.end_ p)) m s) := by
  obtain ⟨rfl, hpc⟩ := hen.of_nolabels rfl
  simp only [compileStmt] at hc
  subst hpc
  have h0 : C.code[σ.pc]? = some (CInstr.halt, p) := hc.head
  simp only [desugar, exec, StmtSpec]
  exact ⟨σ, σ, Steps.refl σ, by simp only [Vm.step, h0], hr⟩

theorem printItems_outcome (items : List PrintItem) : ∀ (s : St),
    (printItems s items).2 = .normal ∨ (∃ c q, (printItems s items).2 = .error c q) ∨
      (printItems s items).2 = .inexact := by
  induction items with
  | nil => intro s; left; rfl
  | cons it rest ih =>
    intro s
    cases it with
    | comma => simp only [printItems]; exact ih _
    | semicolon => simp only [printItems]; exact ih _
    | expr e =>
      simp only [printItems]
      cases eval s.env e with
      | err c q => right; left; exact ⟨c, q, rfl⟩
      | inexact => right; right; rfl
      | ok v =>
        simp only
        cases printValue v with
        | none => right; right; rfl
        | some pv => simp only; exact ih _

theorem case_print (C : Ctx) (fuel : Nat) (items : List PrintItem) (p : Pos) (sfx : String) (d e off : Nat)
    (m : Mode) (σ : Vm) (s : St)
    (hc : CodeAt C.code off (compileStmt C.env sfx d e off (.print items p)))
    (hw : Wf C.sl C.env.dp d e (.print items p))
    (hen : Entry C.env off (.print items p) m σ) (hr : Rel C.sl s σ) :
    StmtSpec C d e (off + sizeStmt C.env.dp d e (.print items p)) σ
      (exec (fuel + 1) C.P (desugar (.print items p)) m s) := by
  obtain ⟨rfl, hpc⟩ := hen.of_nolabels rfl
  simp only [compileStmt] at hc
  subst hpc
  have h0 : C.code[σ.pc]? = some (CInstr.printSetPrinter, p) := hc.append_left.append_left.head
  have h1 : C.code[σ.pc + 1]? = some (CInstr.loadA (.int 0), p) := hc.append_left.append_left.tail.head
  have h2 : C.code[σ.pc + 1 + 1]? = some (CInstr.printSetFormat, p) := hc.append_left.append_left.tail.tail.head
  let σ1 : Vm := advance { σ with skipNewline := false }
  let σ2 : Vm := advance (setA σ1 (.int 0))
  let σ3 : Vm := advance σ2
  have s1 : Vm.step C.code σ = .next σ1 := by simp only [Vm.step, h0]; rfl
  have s2 : Vm.step C.code σ1 = .next σ2 := by simp only [Vm.step, σ1, advance, h1]; rfl
  have s3 : Vm.step C.code σ2 = .next σ3 := by simp only [Vm.step, σ2, σ1, advance, setA, h2]; rfl
  have pre : Steps C.code σ σ3 := Steps.cons s1 (Steps.cons s2 (Steps.one s3))
  have hci : CodeAt C.code (σ.pc + 3) (compileItems p items) := by
    have := hc.append_left.append_right
    simpa using this
  have hit := items_correct C.code p items (σ.pc + 3) σ3 s hci rfl
    (by simp [σ3, σ2, σ1, advance, setA, hr.env]) (by simp [σ3, σ2, σ1, advance, setA, hr.out])
    (by have := hr.typed.len; rw [this]; exact hw)
  have hend : C.code[σ.pc + 3 + sizeItems items]? = some (CInstr.printEnd, p) := by
    have := hc.append_right.head
    simp only [List.length_append, List.length_cons, List.length_nil, len_items] at this
    rw [show σ.pc + 3 + sizeItems items = σ.pc + (0 + 1 + 1 + 1 + sizeItems items) by omega]
    exact this
  have hout := printItems_outcome items s
  simp only [desugar, exec, sizeStmt]
  generalize hr' : printItems s items = r at hit ⊢
  obtain ⟨s', o⟩ := r
  cases o with
  | normal =>
    obtain ⟨τ, st, hp, e1, e2, e3, e4, e5, e6, e7, e8⟩ := hit
    have hd3 : τ.data = s'.data := by rw [e6.1, e7]; exact hr.data
    have hi3 : τ.dataIdx = s'.dataIdx := by rw [e6.2.1, e8]; exact hr.dataIdx
    have hq3 : τ.queue = [] := by rw [e6.2.2]; exact hr.queue
    have hty3 : Typed C.sl s'.env := by rw [e3]; exact hr.typed
    have hflag : τ.skipNewline = endsInSeparator items ∨ (items = [] ∧ τ.skipNewline = false) := by
      rw [e4, flagAfter_eq]
      by_cases hi : items = []
      · right; exact ⟨hi, by simp [hi, σ3, σ2, σ1, advance, setA, hr.skip]⟩
      · left; simp [hi]
    have hpe : C.code[τ.pc]? = some (CInstr.printEnd, p) := by rw [hp]; exact hend
    have hss : SameStacks σ τ := SameStacks.trans ⟨rfl, rfl, rfl, rfl⟩ e5
    by_cases hsep : endsInSeparator items = true
    · have hk : τ.skipNewline = true := by
        rcases hflag with h | ⟨h, _⟩
        · rw [h, hsep]
        · subst h; simp [endsInSeparator] at hsep
      simp only [hsep, if_true, StmtSpec]
      refine ⟨advance { τ with skipNewline := false }, (pre.trans st).trans (Steps.one ?_), ?_, ?_, ?_⟩
      · simp only [Vm.step, hpe, hk, if_true]
      · simp [advance, hp]; omega
      · exact ⟨e1, hty3, e2, rfl, hd3, hi3, hq3⟩
      · exact SameStacks.trans hss ⟨rfl, rfl, rfl, rfl⟩
    · have hk : τ.skipNewline = false := by
        rcases hflag with h | ⟨_, h⟩
        · rw [h]; simpa using hsep
        · exact h
      simp only [hsep, StmtSpec]
      refine ⟨advance { τ with out := τ.out.println }, (pre.trans st).trans (Steps.one ?_), ?_, ?_, ?_⟩
      · simp only [Vm.step, hpe, hk]; rfl
      · simp [advance, hp]; omega
      · exact ⟨e1, hty3, by simp [advance, e2], hk, hd3, hi3, hq3⟩
      · exact SameStacks.trans hss ⟨rfl, rfl, rfl, rfl⟩
  | error c q =>
    simp only [StmtSpec]
    exact ⟨_, ErrsWith.of_steps pre hit⟩
  | inexact => simp [StmtSpec]
  | halted => rw [hr'] at hout; simp at hout
  | outOfFuel => rw [hr'] at hout; simp at hout
  | jump L => rw [hr'] at hout; simp at hout
  | ret q => rw [hr'] at hout; simp at hout
  | illFormed => rw [hr'] at hout; simp at hout
  | notHere => rw [hr'] at hout; simp at hout

end RbThm.JmpLSim
