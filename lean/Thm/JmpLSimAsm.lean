import Thm.JmpLSimBase
import Thm.JmpLSimJump
import Thm.JmpLSimSeq
import Thm.JmpLSimStmt
import Thm.JmpLSimWhile
import Thm.JmpLSimRead
import Thm.JmpLSimDo
import Thm.JmpLSimIf
import Thm.JmpLSimProg
/-!
Jump layer, simulation part: the statement theorem assembled by strong induction on the fuel.  The case lemmas of SELECT CASE
and FOR live in their own files and enter here as the two hypotheses `SelectCase` / `ForCase` (exactly the statements of those
case lemmas), which `Thm/JmpLSim.lean` discharges.
-/
namespace RbThm.JmpLSim
set_option linter.unusedVariables false
set_option linter.unusedSimpArgs false
open RbModel RbModel.Num RbModel.JmpL RbModel.JmpL.Compile RbModel.JmpL.Vm
open RbModel.Ast (Pos PrintItem CaseExpr)
open RbModel.Ref (St)
open RbModel.JmpL.Ref
open RbThm.JmpLLen

/-- the statement of the case lemma for SELECT CASE -/
def SelectCase (C : Ctx) : Prop :=
  ∀ (fuel : Nat), StmtIHle C fuel → ∀ (sel : Ast.Expr) (cases : SCases) (hasElse : Bool) (els : SStmt) (p : Pos)
    (sfx : String) (d e off : Nat) (m : Mode) (σ : Vm) (s : St),
    CodeAt C.code off (compileStmt C.env sfx d e off (.select sel cases hasElse els p)) →
    LabAt C.env d e off (.select sel cases hasElse els p) → Wf C.sl C.env.dp d e (.select sel cases hasElse els p) →
    Entry C.env off (.select sel cases hasElse els p) m σ → Rel C.sl s σ →
    d ≤ σ.regStack.length → e ≤ σ.vals.length →
    StmtSpec C d e (off + sizeStmt C.env.dp d e (.select sel cases hasElse els p)) σ
      (exec (fuel + 1) C.P (desugar (.select sel cases hasElse els p)) m s)

/-- the statement of the case lemma for FOR -/
def ForCase (C : Ctx) : Prop :=
  ∀ (fuel : Nat), StmtIHle C fuel → ∀ (x : Nat) (t : Ty) (lo hi : Ast.Expr) (step : Option Ast.Expr) (body : SStmt)
    (p : Pos) (sfx : String) (d e off : Nat) (m : Mode) (σ : Vm) (s : St),
    CodeAt C.code off (compileStmt C.env sfx d e off (.forLoop x t lo hi step body p)) →
    LabAt C.env d e off (.forLoop x t lo hi step body p) → Wf C.sl C.env.dp d e (.forLoop x t lo hi step body p) →
    Entry C.env off (.forLoop x t lo hi step body p) m σ → Rel C.sl s σ →
    d ≤ σ.regStack.length → e ≤ σ.vals.length →
    StmtSpec C d e (off + sizeStmt C.env.dp d e (.forLoop x t lo hi step body p)) σ
      (exec (fuel + 1) C.P (desugar (.forLoop x t lo hi step body p)) m s)

/-- one more unit of fuel: every construct of the layer, given the theorem at all smaller amounts -/
theorem stmtIH_succ (C : Ctx) (hC : C.Ok) (hsel : SelectCase C) (hfor : ForCase C) (fuel : Nat) (ih : StmtIHle C fuel) :
    StmtIH C (fuel + 1) := by
  intro stmt sfx d e off m σ s hc hl hw hen hr hd he
  have ih0 : StmtIH C fuel := ih.self
  cases stmt with
  | skip => exact case_skip C fuel sfx d e off m σ s hen hr
  | comment => exact case_comment C fuel sfx d e off m σ s hen hr
  | seq a b => exact case_seq C fuel ih0 a b sfx d e off m σ s hc hl hw hen hr hd he
  | dim x t p => exact case_dim C fuel x t p sfx d e off m σ s hc hw hen hr
  | assign x t ex p => exact case_assign C fuel x t ex p sfx d e off m σ s hc hw hen hr
  | print items p => exact case_print C fuel items p sfx d e off m σ s hc hw hen hr
  | «while» c body p => exact case_while C fuel ih0 c body p sfx d e off m σ s hc hl hw hen hr hd he
  | end_ p => exact case_end C fuel p sfx d e off m σ s hc hen hr
  | data _ _ => exact hw.elim
  | read vars p => exact case_read C fuel vars p sfx d e off m σ s hc hw hen hr
  | ifBlock c thn elifs hasElse els p =>
    exact case_if C fuel ih c thn elifs hasElse els p sfx d e off m σ s hc hl hw hen hr hd he
  | select sel cases hasElse els p => exact hsel fuel ih sel cases hasElse els p sfx d e off m σ s hc hl hw hen hr hd he
  | forLoop x t lo hi step body p => exact hfor fuel ih x t lo hi step body p sfx d e off m σ s hc hl hw hen hr hd he
  | doLoop c top u body p => exact case_do C fuel ih0 c top u body p sfx d e off m σ s hc hl hw hen hr hd he
  | label L name p => exact case_label C fuel L name p sfx d e off m σ s hc hl hen hr
  | goto L p => exact case_goto C fuel L p sfx d e off m σ s hc hen hr hd he
  | gosub L p => exact case_gosub C hC fuel ih0 L p sfx d e off m σ s hc hw hen hr
  | ret p => exact case_ret C fuel p sfx d e off m σ s hc hen hr

theorem stmtIHle_all (C : Ctx) (hC : C.Ok) (hsel : SelectCase C) (hfor : ForCase C) : ∀ fuel, StmtIHle C fuel := by
  intro fuel
  induction fuel with
  | zero =>
    intro f hf
    have : f = 0 := by omega
    subst this
    exact stmtIH_zero C
  | succ n ih =>
    intro f hf
    by_cases h : f ≤ n
    · exact ih f h
    · have : f = n + 1 := by omega
      subst this
      exact stmtIH_succ C hC hsel hfor n ih

/-- the statement theorem, modulo the two case lemmas that are proved in their own files -/
theorem compileStmt_correct_of (C : Ctx) (hC : C.Ok) (hsel : SelectCase C) (hfor : ForCase C) : ∀ fuel, StmtIH C fuel :=
  fun fuel => stmtIHle_all C hC hsel hfor fuel fuel (Nat.le_refl _)

end RbThm.JmpLSim
