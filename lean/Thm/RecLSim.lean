import Thm.RecLSimBase
import Thm.RecLSimExpr
import Thm.RecLSimStmt
import Thm.RecLSimIf
import Thm.RecLSimDo
import Thm.RecLSimPrint
import Thm.RecLSimSelect
import Thm.RecLSimFor
import Thm.RecLSimRead
import Thm.RecLSimProg
import Thm.RecLWf
import RbModel.RecL.Spec
/-!
Records layer (core language + TYPE records with nesting + `STRING * n`), simulation part — the induction on fuel and the
whole-program theorem `RecL.compile_correct`.

`Thm/RecLTyping.lean` holds the facts about the reference semantics alone (typing, no-NUL); `Thm/RecLSimBase.lean` the
infrastructure, the representation lemmas (finite-map record vs `Variant` tree) and the specifications;
`Thm/RecLSimExpr.lean` the expression cases (field reads) and `expr_correct`; `Thm/RecLSimStmt.lean` sequencing, assignment
of every kind (scalar, field, fixed-length string, whole record), DIM of every kind, END;
`Thm/RecLSim{If,Do,Print,Select,For,Read}.lean` the control-flow constructs, PRINT and READ (ports of the arrays layer);
`Thm/RecLSimProg.lean` the lift to whole programs; `Thm/RecLWf.lean` the decidable premise.  Here they are put together.
-/
namespace RbThm.RecLSim
set_option linter.unusedVariables false
open RbModel RbModel.Num RbModel.RecL RbModel.RecL.Compile RbModel.RecL.Vm
open RbModel.Ast (Pos)
open RbThm.RecLLen RbThm.ArrLNum RbThm.RecLTy

/-- one more unit of fuel: every statement of the language, given the hypothesis at all smaller amounts -/
theorem stmt_succ (code : Code) (fuel : Nat) (ih : IHle code fuel) : StmtIH code (fuel + 1) := by
  intro sc stmt sfx off s σ hc hpc hr hw ha
  cases stmt with
  | skip =>
    simp only [desugar, RecL.Ref.exec, StmtPost, sizeStmt, Nat.add_zero]
    exact ⟨σ, Steps.refl σ, hpc, hr, SameStacks.refl σ⟩
  | comment =>
    simp only [desugar, RecL.Ref.exec, StmtPost, sizeStmt, Nat.add_zero]
    exact ⟨σ, Steps.refl σ, hpc, hr, SameStacks.refl σ⟩
  | seq a b => exact case_seq code fuel ih a b sc sfx off s σ hc hpc hr hw ha
  | dim x t p => exact case_dim code fuel ih x t p sc sfx off s σ hc hpc hr hw ha
  | assign x path t e p => exact case_assign code fuel ih x path t e p sc sfx off s σ hc hpc hr hw ha
  | print items p => exact case_print code fuel ih items p sc sfx off s σ hc hpc hr hw ha
  | data items p => simp only [Wf] at hw
  | read tgs p => exact case_read code fuel ih tgs p sc sfx off s σ hc hpc hr hw ha
  | ifBlock c thn elifs hasElse els p =>
    exact case_if code fuel ih c thn elifs hasElse els p sc sfx off s σ hc hpc hr hw ha
  | select e cases hasElse els p =>
    exact case_select code fuel ih e cases hasElse els p sc sfx off s σ hc hpc hr hw ha
  | forLoop x t lo hi step body p =>
    exact case_for code fuel ih x t lo hi step body p sc sfx off s σ hc hpc hr hw ha
  | «while» c body p => exact case_while code fuel ih c body p sc sfx off s σ hc hpc hr hw ha
  | doLoop c top u body p => exact case_do code fuel ih c top u body p sc sfx off s σ hc hpc hr hw ha
  | end_ p => exact case_end code fuel p sc sfx off s σ hc hpc hr

theorem ihle_all (code : Code) : ∀ fuel, IHle code fuel := by
  intro fuel
  induction fuel with
  | zero =>
    intro f hf
    have : f = 0 := by omega
    subst this
    exact ih_zero code
  | succ n ih =>
    intro f hf
    by_cases h : f ≤ n
    · exact ih f h
    · have : f = n + 1 := by omega
      subst this
      exact ⟨stmt_succ code n ih⟩

/-- **the simulation theorem for the records layer at the level of statements**: for every amount of fuel the code of
every well-formed statement does on the VM model what the reference semantics prescribes -/
theorem ih_all (code : Code) (fuel : Nat) : IH code fuel := (ihle_all code fuel).self

/-- **`RecL.compile_correct`** — whole programs with records and fixed-length strings: for every well-formed program (`ProgWf`) and every
amount of fuel, if the reference semantics `RecL.Ref.run` ends normally or with END, the VM model `RecL.Vm` running the
code the generator model `RecL.Compile.compile` emits reaches a `Halt` from the initial state with the same output; if it
ends with BASIC error `c` at position `p`, the VM stops with error `c` at `p` with the same output.  Nothing is claimed
for the outcomes outside the modelled language: `illFormed` (a record / `STRING * n` variable used although its DIM did not run), `inexact` (a float outside the exact domain), `outOfFuel`.  No bound on
program size, nesting depth of statements or of record types, string lengths or run length. -/
theorem compile_correct (prog : SProgram) (fuel : Nat) (hw : ProgWf prog) :
    match RecL.Ref.run fuel prog.toAst with
    | (s', .normal) => HaltsWith (compile prog) (Vm.init prog.types prog.slots) s'.out
    | (s', .halted) => HaltsWith (compile prog) (Vm.init prog.types prog.slots) s'.out
    | (s', .error c p) => ErrsWith (compile prog) (Vm.init prog.types prog.slots) c p s'.out
    | (_, .inexact) => True
    | (_, .outOfFuel) => True
    | (_, .illFormed) => True :=
  compile_correct_of prog fuel hw (fun f => (ih_all (compile prog) f).stmt)

/-- `Steps` is what `RecL.Vm.run` does: a run that takes the steps and then halts is a halted run of the bounded
interpreter the correspondence check executes, for every sufficient step budget -/
theorem run_of_steps (code : Code) {σ τ υ : Vm} (h : Steps code σ τ) (hh : Vm.step code τ = .halt υ) :
    ∃ n, ∀ m, n ≤ m → Vm.run code m σ = .halted υ := by
  induction h with
  | refl σ =>
    refine ⟨1, fun m hm => ?_⟩
    obtain ⟨k, rfl⟩ : ∃ k, m = k + 1 := ⟨m - 1, by omega⟩
    simp [Vm.run, hh]
  | cons hs _ ih =>
    obtain ⟨n, hn⟩ := ih hh
    refine ⟨n + 1, fun m hm => ?_⟩
    obtain ⟨k, rfl⟩ : ∃ k, m = k + 1 := ⟨m - 1, by omega⟩
    simp [Vm.run, hs, hn k (by omega)]

theorem run_of_steps_error (code : Code) {σ τ υ : Vm} {c : Nat} {p : Pos} (h : Steps code σ τ)
    (hh : Vm.step code τ = .error c p υ) :
    ∃ n, ∀ m, n ≤ m → Vm.run code m σ = .error c p υ := by
  induction h with
  | refl σ =>
    refine ⟨1, fun m hm => ?_⟩
    obtain ⟨k, rfl⟩ : ∃ k, m = k + 1 := ⟨m - 1, by omega⟩
    simp [Vm.run, hh]
  | cons hs _ ih =>
    obtain ⟨n, hn⟩ := ih hh
    refine ⟨n + 1, fun m hm => ?_⟩
    obtain ⟨k, rfl⟩ : ∃ k, m = k + 1 := ⟨m - 1, by omega⟩
    simp [Vm.run, hs, hn k (by omega)]

/-- **`RecL.run_correct`** — `RecL.compile_correct` restated for the bounded interpreter `RecL.Vm.run` that the
correspondence check executes against the real VM: for every sufficient step budget the run of the generated code ends
as the reference semantics prescribes -/
theorem run_correct (prog : SProgram) (fuel : Nat) (hw : ProgWf prog) :
    match RecL.Ref.run fuel prog.toAst with
    | (s', .normal) =>
      ∃ n υ, (∀ m, n ≤ m → Vm.run (compile prog) m (Vm.init prog.types prog.slots) = .halted υ) ∧ υ.out = s'.out
    | (s', .halted) =>
      ∃ n υ, (∀ m, n ≤ m → Vm.run (compile prog) m (Vm.init prog.types prog.slots) = .halted υ) ∧ υ.out = s'.out
    | (s', .error c p) =>
      ∃ n υ, (∀ m, n ≤ m → Vm.run (compile prog) m (Vm.init prog.types prog.slots) = .error c p υ) ∧ υ.out = s'.out
    | (_, .inexact) => True
    | (_, .outOfFuel) => True
    | (_, .illFormed) => True := by
  have h := compile_correct prog fuel hw
  generalize RecL.Ref.run fuel prog.toAst = r at h ⊢
  obtain ⟨s', o⟩ := r
  cases o with
  | normal =>
    obtain ⟨τ, υ, st, hh, ho⟩ := h
    obtain ⟨n, hn⟩ := run_of_steps _ st hh
    exact ⟨n, υ, hn, ho⟩
  | halted =>
    obtain ⟨τ, υ, st, hh, ho⟩ := h
    obtain ⟨n, hn⟩ := run_of_steps _ st hh
    exact ⟨n, υ, hn, ho⟩
  | error c p =>
    obtain ⟨τ, υ, st, hh, ho⟩ := h
    obtain ⟨n, hn⟩ := run_of_steps_error _ st hh
    exact ⟨n, υ, hn, ho⟩
  | inexact => trivial
  | outOfFuel => trivial
  | illFormed => trivial

/-- `RecL.compile_correct` with the premise in its decidable form (`Thm/RecLWf.lean`): what a driver can evaluate on a
concrete linted program -/
theorem compile_correct_checked (prog : SProgram) (fuel : Nat) (hw : progWfB prog = true) :
    match RecL.Ref.run fuel prog.toAst with
    | (s', .normal) => HaltsWith (compile prog) (Vm.init prog.types prog.slots) s'.out
    | (s', .halted) => HaltsWith (compile prog) (Vm.init prog.types prog.slots) s'.out
    | (s', .error c p) => ErrsWith (compile prog) (Vm.init prog.types prog.slots) c p s'.out
    | (_, .inexact) => True
    | (_, .outOfFuel) => True
    | (_, .illFormed) => True :=
  compile_correct prog fuel (progWfB_sound prog hw)

/-! #### the statement proposed in `RbModel.RecL.Spec` -/

theorem steps_spec {code : Code} {σ τ : Vm} (h : Steps code σ τ) : RbModel.RecL.Spec.Steps code σ τ := by
  induction h with
  | refl σ => exact .refl σ
  | cons hs _ ih => exact .cons hs ih

/-- **the proposed statement `RecL.Spec.CompileCorrect` holds with the premise `ProgWf`** (and with its decidable form) -/
theorem compileCorrect_spec : RbModel.RecL.Spec.CompileCorrect ProgWf := by
  intro prog fuel hw
  have h := compile_correct prog fuel hw
  generalize RecL.Ref.run fuel prog.toAst = r at h ⊢
  obtain ⟨s', o⟩ := r
  cases o with
  | normal =>
    obtain ⟨τ, υ, st, hh, ho⟩ := h
    exact ⟨τ, υ, steps_spec st, hh, ho⟩
  | halted =>
    obtain ⟨τ, υ, st, hh, ho⟩ := h
    exact ⟨τ, υ, steps_spec st, hh, ho⟩
  | error c p =>
    obtain ⟨τ, υ, st, hh, ho⟩ := h
    exact ⟨τ, υ, steps_spec st, hh, ho⟩
  | inexact => trivial
  | outOfFuel => trivial
  | illFormed => trivial

theorem compileCorrect_spec_checked : RbModel.RecL.Spec.CompileCorrect (fun prog => progWfB prog = true) := by
  intro prog fuel hw
  exact compileCorrect_spec prog fuel (progWfB_sound prog hw)

/-! #### non-vacuity: a concrete program

    TYPE T : A AS INTEGER : S AS STRING * 3 : END TYPE
    DIM V AS T : V.S = "abcdef" : PRINT V.S; V.A
-/

private def demoProg : SProgram :=
  { types := [.cons "A" (.sc .int) (.cons "S" (.fix 3) .nil)],
    slots := [.udt 0],
    body :=
      .seq (.dim 0 (.udt 0) ⟨2, 5⟩)
      (.seq (.assign 0 ["S"] (.fix 3) (.lit (.str ['a', 'b', 'c', 'd', 'e', 'f']) ⟨3, 7⟩) ⟨3, 1⟩)
      (.seq (.print [.expr (.var 0 ["S"] (.fix 3) ⟨4, 7⟩), .semicolon, .expr (.var 0 ["A"] (.sc .int) ⟨4, 12⟩)] ⟨4, 1⟩)
        .skip)) }

/-- the premise of `RecL.compile_correct` is satisfiable: the demo program passes the checker -/
example : progWfB demoProg = true := by decide

end RbThm.RecLSim
