import Thm.C18Multi
import Thm.C18Fields
/-!
C18, part 7 — PUT n ... GET n with operations on OTHER handles in between.

`Thm.C18Fields.put_get_all_lists` allows, between `PUT #h, n` and `GET #h, n`, only operations on the handle
itself (LSET, PUT of other records, GET, FIELD, prints of variables).  Here ANY operations through other
handles are allowed as well — OPEN (for writing: of other file names; FOR INPUT: of any name, the record's own
file included), PRINT #, INPUT #, LINE INPUT #, EOF, FIELD, PUT, GET, CLOSE of other handles — in any
interleaving with the operations on `h`, under the hypothesis that no OTHER handle is open for writing on the
file of `h` (`Sep`: "different names").  The hypothesis is needed: a second handle open FOR APPEND on the same
file does change the record (`same_file_append_changes_record`, the model run of a program that behaves the
same way on the real interpreter).

The proof goes through the multi-handle abstraction of `Thm.C18Multi` (`Abs`, `frame_step`).
-/
namespace RbThm.C18Others
open RbModel.Files RbThm.C18Multi
open RbThm.C18 hiding MOp mstep mrun refines_step refines_run

/-- What other handles may do between the PUT and the GET on handle `h`, whose file is `k`. -/
def OtherHandleOp (h k : Nat) : MOp → Prop
  | .open h' k' m _ => h' ≠ h ∧ (k' ≠ k ∨ m = .input)
  | .close hs => hs ≠ [] ∧ h ∉ hs
  | .print h' _ _ => h' ≠ h
  | .lineInput h' _ => h' ≠ h
  | .input h' _ => h' ≠ h
  | .eof h' => h' ≠ h
  | .field h' _ => h' ≠ h
  | .put h' _ => h' ≠ h
  | .get h' _ => h' ≠ h
  | .lset _ _ => False
  | .show _ => True

/-- Between the PUT and the GET: the operations on `h` itself that `put_get_all_lists` allows (`QuietOp`), or
anything through another handle. -/
def Between (h n k : Nat) (op : Op) : Prop := QuietOp h n op ∨ ∃ m : MOp, op = m.toOp ∧ OtherHandleOp h k m

theorem OtherHandleOp.foreign {h k : Nat} {m : MOp} (ho : OtherHandleOp h k m) : Foreign (· = h) k m := by
  cases m <;> trivial

/-- An operation through another handle leaves handle `h` of the `Files` model exactly as it is. -/
theorem step_other_handle (s : State) (h k : Nat) (m : MOp) (ho : OtherHandleOp h k m) :
    alGet (step s m.toOp).1.handles h = alGet s.handles h := by
  cases m with
  | «open» h' k' md l =>
    have hne : h ≠ h' := Ne.symm ho.1
    simp only [MOp.toOp, step, doOpen]
    split
    · rfl
    split
    · rfl
    cases md <;> simp only <;> split <;> first | rfl | exact alGet_alSet_ne _ _ _ _ hne
  | close hs =>
    obtain ⟨h1, h2⟩ := ho
    simp only [MOp.toOp, step, doClose]
    split
    · rfl
    · have : hs.isEmpty = false := by cases hs <;> simp_all
      simp only [this, Bool.false_eq_true, ↓reduceIte, closeAll, alGet_foldl_alDel, h2]
  | print h' items nl =>
    have hne : h ≠ h' := Ne.symm ho
    simp only [MOp.toOp, step]
    split
    · rfl
    · unfold doPrint
      split
      · rfl
      · exact alGet_alSet_ne _ _ _ _ hne
  | lineInput h' v =>
    have hne : h ≠ h' := Ne.symm ho
    have := doScan_handles s h' h scanLine hne
    simp only [MOp.toOp, step, doRead]
    split
    · rfl
    · split <;> rename_i heq <;> rw [heq] at this <;> exact this
  | input h' v =>
    have hne : h ≠ h' := Ne.symm ho
    have := doScan_handles s h' h scanField hne
    simp only [MOp.toOp, step, doRead]
    split
    · rfl
    · split <;> rename_i heq <;> rw [heq] at this <;> exact this
  | eof h' =>
    have hne : h ≠ h' := Ne.symm ho
    have := doScan_handles s h' h scanEof hne
    simp only [MOp.toOp, step, doEof]
    split
    · rfl
    · split <;> rename_i heq <;> rw [heq] at this <;> exact this
  | field h' fl =>
    have hne : h ≠ h' := Ne.symm ho
    simp only [MOp.toOp, step, doField]
    split
    · rfl
    split
    · rfl
    split
    · rfl
    · split
      · rfl
      · exact alGet_alSet_ne _ _ _ _ hne
  | lset v val => exact absurd ho id
  | put h' n => simp only [MOp.toOp, step, doPut]; repeat (first | rfl | split)
  | get h' n => simp only [MOp.toOp, step, doGet]; repeat (first | rfl | split)
  | «show» v => rfl

/-- The `QuietOp`s are operations of the abstract machine; none of them opens a file. -/
theorem quiet_is_mop (h n : Nat) (op : Op) (hq : QuietOp h n op) :
    ∃ m : MOp, op = m.toOp ∧ (∀ P k, Respects P k m) ∧ ∀ h' k' md l, m ≠ .open h' k' md l := by
  rcases hq with ⟨v, val, rfl⟩ | ⟨m, rfl, _⟩ | ⟨m, rfl⟩ | ⟨fl, rfl⟩ | ⟨v, rfl⟩
  · exact ⟨.lset v val, rfl, fun _ _ => trivial, fun _ _ _ _ e => by cases e⟩
  · exact ⟨.put h m, rfl, fun _ _ => trivial, fun _ _ _ _ e => by cases e⟩
  · exact ⟨.get h m, rfl, fun _ _ => trivial, fun _ _ _ _ e => by cases e⟩
  · exact ⟨.field h fl, rfl, fun _ _ => trivial, fun _ _ _ _ e => by cases e⟩
  · exact ⟨.show v, rfl, fun _ _ => trivial, fun _ _ _ _ e => by cases e⟩

/-- The invariant carried from the PUT to the GET: the state implements an abstract state in which handle
`h` is on file `k` and is the only handle open for writing on `k`; concretely `h` is RANDOM on inode `i`
with the FIELD lists `lists`. -/
def Inv (s : State) (h i L k : Nat) (lists : List (List (Nat × Nat))) (cur : Nat) : Prop :=
  ∃ A a, Abs s A ∧ alGet A.handles h = some a ∧ a.name = k ∧ Sep A (· = h) k ∧ RandomLists s h i L lists cur

/-- In a state that satisfies the invariant the name `k` points to the inode of `h`. -/
theorem Inv.dir {s : State} {h i L k : Nat} {lists : List (List (Nat × Nat))} {cur : Nat}
    (hI : Inv s h i L k lists cur) : alGet s.fs.dir k = some (.file i) := by
  obtain ⟨A, a, hR, ha, hn, _, hr⟩ := hI
  obtain ⟨_, _, _, _, fi, hg, hk, _, _⟩ := hr
  rcases hR.handles.get h with ⟨e1, _⟩ | ⟨fi', a', e1, e2, k0, i0, rfl, hi0, hd⟩
  · rw [hg] at e1; exact absurd e1 (by simp)
  · rw [hg] at e1
    rw [ha] at e2
    simp only [Option.some.injEq] at e1 e2
    subst e1 e2
    simp only [hk, kindIno, Option.some.injEq] at hi0
    subst hi0
    have : k0 = k := hn
    rw [← this]
    exact hd

/-- After one abstract step the invariant holds again, given what the step does to handle `h`. -/
theorem Inv.step {s : State} {h i L k : Nat} {lists lists' : List (List (Nat × Nat))} {cur cur' : Nat}
    (hI : Inv s h i L k lists cur) (m : MOp) (hresp : Respects (· = h) k m)
    (hnot : ∀ h' k' md l, m = .open h' k' md l → h' ≠ h)
    (hr' : RandomLists (step s m.toOp).1 h i L lists' cur') : Inv (step s m.toOp).1 h i L k lists' cur' := by
  obtain ⟨A, a, hR, ha, hn, hS, hr⟩ := hI
  have hR' := (refines_step s A m hR).2
  have hS' := sep_step A (· = h) k m hS hresp
  -- the abstract handle `h` is still there, with the same name
  obtain ⟨_, _, _, _, fi', hg', _⟩ := id hr'
  rcases hR'.handles.get h with ⟨e1, _⟩ | ⟨fi2, a', e1, e2, _⟩
  · rw [hg'] at e1; exact absurd e1 (by simp)
  · refine ⟨_, a', hR', e2, ?_, hS', hr'⟩
    rcases mstep_sig A m h with e | e | ⟨k', md, l, rfl, _⟩
    · rw [e2] at e; exact absurd e (by simp)
    · rw [e2, ha] at e
      simp only [Option.map_some, Option.some.injEq, sig, Prod.mk.injEq] at e
      rw [e.1]; exact hn
    · exact absurd rfl (hnot _ _ _ _ rfl)

/-- One step between the PUT and the GET keeps the invariant (the FIELD lists may grow) and leaves the bytes
of record `n` alone. -/
theorem between_step (h i L n k : Nat) (hv : validHandle h = true) (hn : 1 ≤ n) (lists : List (List (Nat × Nat)))
    (cur : Nat) (s : State) (hI : Inv s h i L k lists cur) (op : Op) (hb : Between h n k op) :
    (∃ more cur', Inv (step s op).1 h i L k (lists ++ more) cur') ∧
      getRecord ((step s op).1.fs.data i) L n = getRecord (s.fs.data i) L n := by
  have hr : RandomLists s h i L lists cur := by obtain ⟨_, _, _, _, _, _, hr⟩ := hI; exact hr
  rcases hb with hq | ⟨m, rfl, ho⟩
  · obtain ⟨⟨more, cur', hr'⟩, hrec⟩ := quiet_step h i L n hv hn lists cur s hr op hq
    obtain ⟨m, rfl, hresp, hnop⟩ := quiet_is_mop h n op hq
    exact ⟨⟨more, cur', Inv.step hI m (hresp _ _) (fun h' k' md l e => absurd e (hnop h' k' md l)) hr'⟩, hrec⟩
  · -- an operation through another handle
    have hdir := Inv.dir hI
    obtain ⟨A, a, hR, ha, hna, hS, _⟩ := hI
    have hR' := (refines_step s A m hR).2
    have hfb := frame_step_files s A hR (· = h) k m hS ho.foreign
    have hh := step_other_handle s h k m ho
    -- the concrete handle is untouched, so it is still on inode `i`, and so is the name `k`
    obtain ⟨h1, h2, h3, h4, fi, hg, hk, hfl, hcur⟩ := hr
    have hg' : alGet (step s m.toOp).1.handles h = some fi := by rw [hh]; exact hg
    have hdir' : alGet (step s m.toOp).1.fs.dir k = some (.file i) := by
      rcases hR'.handles.get h with ⟨e1, _⟩ | ⟨fi2, a', e1, e2, k0, i0, rfl, hi0, hd⟩
      · rw [hg'] at e1; exact absurd e1 (by simp)
      · rw [hg'] at e1
        simp only [Option.some.injEq] at e1
        subst e1
        simp only [hk, kindIno, Option.some.injEq] at hi0
        subst hi0
        rcases mstep_sig A m h with e | e | ⟨k', md, l, rfl, _⟩
        · rw [e2] at e; exact absurd e (by simp)
        · rw [e2, ha] at e
          simp only [Option.map_some, Option.some.injEq, sig, Prod.mk.injEq, absInfo] at e
          have : k0 = k := by rw [e.1]; exact hna
          rw [← this]; exact hd
        · exact absurd rfl ho.1
    have hdata : (step s m.toOp).1.fs.data i = s.fs.data i := by
      simp only [fileBytes, hdir', hdir, Option.bind_some, nodeData, Option.some.injEq] at hfb
      exact hfb
    have hi' : i < (step s m.toOp).1.fs.inodes.length := hR'.wf.1 k i hdir'
    have hr' : RandomLists (step s m.toOp).1 h i L lists cur := ⟨hi', h2, h3, h4, fi, hg', hk, hfl, hcur⟩
    refine ⟨⟨[], cur, ?_⟩, by rw [hdata]⟩
    rw [List.append_nil]
    have hI0 : Inv s h i L k lists cur := ⟨A, a, hR, ha, hna, hS, ⟨h1, h2, h3, h4, fi, hg, hk, hfl, hcur⟩⟩
    refine Inv.step hI0 m ho.foreign.respects ?_ hr'
    intro h' k' md l e
    subst e
    exact ho.1

theorem run_between (h i L n k : Nat) (hv : validHandle h = true) (hn : 1 ≤ n) (ops : List Op)
    (hops : ∀ op ∈ ops, Between h n k op) (lists : List (List (Nat × Nat))) (cur : Nat) (s : State)
    (hI : Inv s h i L k lists cur) :
    (∃ more cur', Inv (run s ops).1 h i L k (lists ++ more) cur') ∧
      getRecord ((run s ops).1.fs.data i) L n = getRecord (s.fs.data i) L n := by
  induction ops generalizing s lists cur with
  | nil => exact ⟨⟨[], cur, by rw [List.append_nil]; exact hI⟩, rfl⟩
  | cons op rest ih =>
    simp only [run]
    obtain ⟨⟨more, cur', hI'⟩, hrec⟩ := between_step h i L n k hv hn lists cur s hI op (hops op (by simp))
    obtain ⟨⟨more2, cur2, hI2⟩, hrec2⟩ := ih (fun o ho => hops o (by simp [ho])) _ _ _ hI'
    refine ⟨⟨more ++ more2, cur2, ?_⟩, by rw [hrec2, hrec]⟩
    rw [← List.append_assoc]
    exact hI2

/-- **PUT n ... GET n with arbitrary operations on other handles in between.**  State `s` implements an
abstract state `A` (true of every state reached from the empty one by operations of the abstract machine:
`abs_empty`, `refines_run`) in which handle `h` is on file `k` and no OTHER handle is open for writing on `k`;
`h` is RANDOM with FIELD lists `lists` that fit the record.  `PUT #h, n`; then any sequence of
* LSETs, PUTs of other record numbers, GETs, FIELDs on `h`, prints of variables (`QuietOp`), and
* operations through OTHER handles: OPEN of other names in any mode and of any name (`k` included) FOR INPUT,
  PRINT #, LINE INPUT #, INPUT #, EOF, FIELD, PUT, GET, CLOSE of other handles;
then `GET #h, n`.  Conclusion as in `put_get_all_lists`: PUT and GET succeed and EVERY variable of every FIELD
list of `h` holds its slice (last occurrence) of the record the PUT stored. -/
theorem put_get_all_lists_others (s : State) (A : AState) (h i L n cur k : Nat) (lists : List (List (Nat × Nat)))
    (others : List Op) (hv : validHandle h = true) (hn : 1 ≤ n) (hR : Abs s A)
    (hk : ∃ a, alGet A.handles h = some a ∧ a.name = k) (hS : Sep A (· = h) k)
    (hr : RandomLists s h i L lists cur) (hops : ∀ op ∈ others, Between h n k op) :
    (step s (.put h n)).2 = .ok ∧
      (step (run (step s (.put h n)).1 others).1 (.get h n)).2 = .ok ∧
      ∃ more cur', RandomLists (run (step s (.put h n)).1 others).1 h i L (lists ++ more) cur' ∧
        ∀ v, (run s ([.put h n] ++ others ++ [.get h n])).1.var v =
          match lastSlice (lists ++ more) v with
          | some (off, w) => ((storedRecord s i L n (lists.getD cur [])).drop off).take w
          | none => (run (step s (.put h n)).1 others).1.var v := by
  obtain ⟨a, ha, hna⟩ := hk
  have hI : Inv s h i L k lists cur := ⟨A, a, hR, ha, hna, hS, hr⟩
  have hp := put_lists_at s h i L n cur lists hv hn hr
  have hi := hr.1
  have hfit : (recordOf s (lists.getD cur [])).length ≤ L := by
    rw [recordOf_length]
    obtain ⟨_, _, h3, h4, _⟩ := hr
    rw [List.getD_eq_getElem?_getD, List.getElem?_eq_getElem h4]
    exact h3 _ (List.getElem_mem h4)
  have hr1 : RandomLists (step s (.put h n)).1 h i L lists cur := by
    rw [hp]
    exact RandomLists.same_fs s _ h i L cur lists hr (by simp [Fs.setData]) rfl
  have hI1 : Inv (step s (.put h n)).1 h i L k lists cur :=
    Inv.step hI (.put h n) trivial (fun _ _ _ _ e => by cases e) hr1
  obtain ⟨⟨more, cur', hI2⟩, hrec⟩ := run_between h i L n k hv hn others hops lists cur _ hI1
  have hr2 : RandomLists (run (step s (.put h n)).1 others).1 h i L (lists ++ more) cur' := by
    obtain ⟨_, _, _, _, _, _, hr2⟩ := hI2; exact hr2
  refine ⟨by rw [hp], ?_, more, cur', hr2, ?_⟩
  · exact (get_every_variable _ h i L n cur' _ hv hn hr2 0).1
  · intro v
    rw [run_append, run_append]
    simp only [run]
    rw [(get_every_variable _ h i L n cur' _ hv hn hr2 v).2, hrec, hp]
    simp only [data_setData _ _ _ hi]
    rw [get_put_same_full _ _ L n hfit, recordOf_length]
    rfl

/-- Per field, as `put_get_every_field`: whenever the final FIELD lists are `pre ++ [a ++ (w, v) :: b] ++ post`
and `v` does not occur again, `v` holds the `w` bytes at offset `sumWidths a` of the stored record. -/
theorem put_get_every_field_others (s : State) (A : AState) (h i L n cur k : Nat) (lists : List (List (Nat × Nat)))
    (others : List Op) (hv : validHandle h = true) (hn : 1 ≤ n) (hR : Abs s A)
    (hk : ∃ a, alGet A.handles h = some a ∧ a.name = k) (hS : Sep A (· = h) k)
    (hr : RandomLists s h i L lists cur) (hops : ∀ op ∈ others, Between h n k op) :
    ∃ more cur', RandomLists (run (step s (.put h n)).1 others).1 h i L (lists ++ more) cur' ∧
      ∀ pre post a b w v, lists ++ more = pre ++ (a ++ (w, v) :: b) :: post → v ∉ varsOf b →
        (∀ fl ∈ post, v ∉ varsOf fl) →
        (run s ([.put h n] ++ others ++ [.get h n])).1.var v
          = ((storedRecord s i L n (lists.getD cur [])).drop (sumWidths a)).take w := by
  obtain ⟨_, _, more, cur', hr2, hall⟩ := put_get_all_lists_others s A h i L n cur k lists others hv hn hR hk hS hr hops
  refine ⟨more, cur', hr2, ?_⟩
  intro pre post a b w v hdec hb hpost
  rw [hall v, hdec, lastSlice_last pre post a b w v hb hpost]

/-- **The values of the PUT come back, whatever other handles did meanwhile** (as `put_get_current_values`). -/
theorem put_get_current_values_others (s : State) (A : AState) (h i L n cur k : Nat)
    (lists : List (List (Nat × Nat))) (others : List Op) (hv : validHandle h = true) (hn : 1 ≤ n) (hR : Abs s A)
    (hk : ∃ a, alGet A.handles h = some a ∧ a.name = k) (hS : Sep A (· = h) k)
    (hr : RandomLists s h i L lists cur) (hops : ∀ op ∈ others, Between h n k op) :
    ∃ more cur', RandomLists (run (step s (.put h n)).1 others).1 h i L (lists ++ more) cur' ∧
      ∀ a b w v, lists.getD cur [] = a ++ (w, v) :: b → v ∉ varsOf b →
        (∀ fl ∈ (lists ++ more).drop (cur + 1), v ∉ varsOf fl) →
        (run s ([.put h n] ++ others ++ [.get h n])).1.var v = fixLength (s.var v) w := by
  obtain ⟨more, cur', hr2, hall⟩ := put_get_every_field_others s A h i L n cur k lists others hv hn hR hk hS hr hops
  refine ⟨more, cur', hr2, ?_⟩
  intro a b w v hcur hb hpost
  have hlt : cur < lists.length := hr.2.2.2.1
  have hlt2 : cur < (lists ++ more).length := by simp; omega
  have hget : (lists ++ more)[cur] = a ++ (w, v) :: b := by
    rw [List.getElem_append_left hlt, ← hcur, List.getD_eq_getElem?_getD, List.getElem?_eq_getElem hlt]
    rfl
  have hdec : lists ++ more = (lists ++ more).take cur ++ (a ++ (w, v) :: b) :: (lists ++ more).drop (cur + 1) := by
    rw [← hget, List.getElem_cons_drop, List.take_append_drop]
  rw [hall _ _ a b w v hdec hb hpost, hcur]
  exact recordOf_slice s a b w v _

/-! ## Non-vacuity, and why "no other writer on the same file" is needed -/

/-- `OPEN "A" FOR RANDOM AS #1 LEN = 4 : FIELD #1, 2 AS V0$, 2 AS V1$ : LSET V0$ = "ab" : LSET V1$ = "cd"`. -/
def demoOps : List MOp :=
  [.open 1 0 .random 4, .field 1 [(2, 0), (2, 1)], .lset 0 [97, 98], .lset 1 [99, 100]]

def demoS : State := (run emptyState (demoOps.map MOp.toOp)).1
def demoA : AState := (mrun AState.empty demoOps).1

theorem demo_abs : Abs demoS demoA := (refines_run demoOps emptyState AState.empty abs_empty).2

theorem demo_sep : Sep demoA (· = 1) 0 := by
  intro h a ha _ _
  have : demoA.handles = [(1, { name := 0, mode := .random 4, fieldLists := [[(2, 0), (2, 1)]], current := some 0 })] :=
    rfl
  rw [this] at ha
  simp only [alGet] at ha
  split at ha
  · rename_i e; exact e.symm
  · exact absurd ha (by simp)

theorem demo_lists : RandomLists demoS 1 0 4 [[(2, 0), (2, 1)]] 0 :=
  ⟨by decide, by decide, by decide, by decide, _, rfl, rfl, rfl, rfl⟩

/-- In between: `OPEN "B" FOR OUTPUT AS #2 : PRINT #2, "zz" : OPEN "A" FOR INPUT AS #3 : x = EOF(3) :
LSET V0$ = "QQ" : PUT #1, 2 : OPEN "C" FOR RANDOM AS #4 LEN = 2 : FIELD #4, 2 AS V5$ : PUT #4, 1 : GET #4, 1 :
CLOSE #2 : LINE INPUT #3, V7$ : CLOSE #3, #4`. -/
def demoBetween : List Op :=
  [.open 2 (.plain 1) .output 0, .print 2 [[122, 122]] true, .open 3 (.plain 0) .input 0, .eof 3,
    .lset 0 [81, 81], .put 1 2, .open 4 (.plain 2) .random 2, .field 4 [(2, 5)], .put 4 1, .get 4 1, .close [2],
    .lineInput 3 7, .close [3, 4]]

theorem demo_between : ∀ op ∈ demoBetween, Between 1 1 0 op := by
  intro op hop
  simp only [demoBetween, List.mem_cons, List.mem_nil_iff, or_false] at hop
  rcases hop with h | h | h | h | h | h | h | h | h | h | h | h | h <;> subst h
  · exact Or.inr ⟨.open 2 1 .output 0, rfl, by decide, Or.inl (by decide)⟩
  · exact Or.inr ⟨.print 2 [[122, 122]] true, rfl, by simp [OtherHandleOp]⟩
  · exact Or.inr ⟨.open 3 0 .input 0, rfl, by decide, Or.inr rfl⟩
  · exact Or.inr ⟨.eof 3, rfl, by simp [OtherHandleOp]⟩
  · exact Or.inl (Or.inl ⟨_, _, rfl⟩)
  · exact Or.inl (Or.inr (Or.inl ⟨2, rfl, by decide⟩))
  · exact Or.inr ⟨.open 4 2 .random 2, rfl, by decide, Or.inl (by decide)⟩
  · exact Or.inr ⟨.field 4 [(2, 5)], rfl, by simp [OtherHandleOp]⟩
  · exact Or.inr ⟨.put 4 1, rfl, by simp [OtherHandleOp]⟩
  · exact Or.inr ⟨.get 4 1, rfl, by simp [OtherHandleOp]⟩
  · exact Or.inr ⟨.close [2], rfl, by decide, by decide⟩
  · exact Or.inr ⟨.lineInput 3 7, rfl, by simp [OtherHandleOp]⟩
  · exact Or.inr ⟨.close [3, 4], rfl, by decide, by decide⟩

/-- The hypotheses of `put_get_all_lists_others` hold for the demo history. -/
example := put_get_all_lists_others demoS demoA 1 0 4 1 0 0 _ demoBetween (by decide) (by decide) demo_abs
  ⟨_, rfl, rfl⟩ demo_sep demo_lists demo_between

/-- What it says here, computed: record 1 comes back as it was PUT ("ab", "cd"), although `V0$` was LSET again,
record 2 was PUT, and three other handles (one of them reading the same file) were busy in between. -/
example :
    let s := (run demoS ([.put 1 1] ++ demoBetween ++ [.get 1 1])).1
    s.var 0 = [97, 98] ∧ s.var 1 = [99, 100] := by decide

/-- **The hypothesis is needed.**  `OPEN "A" FOR RANDOM AS #1 LEN = 4 : FIELD #1, 2 AS V0$ : LSET V0$ = "ab" :
PUT #1, 1`, then a second handle appends one byte to the SAME file (`OPEN "A" FOR APPEND AS #2 : PRINT #2, "z";`),
then `FIELD #1, 4 AS V1$ : GET #1, 1`: the record read back is "abz" + NUL, not "ab" + two NULs as without the
other handle.  (The real interpreter prints the same: see DESIGN.md / the builder's report.) -/
theorem same_file_append_changes_record :
    ((run emptyState [.open 1 (.plain 0) .random 4, .field 1 [(2, 0)], .lset 0 [97, 98], .put 1 1,
        .open 2 (.plain 0) .append 0, .print 2 [[122]] false, .field 1 [(4, 1)], .get 1 1]).1.var 1 = [97, 98, 122, 0]) ∧
      ((run emptyState [.open 1 (.plain 0) .random 4, .field 1 [(2, 0)], .lset 0 [97, 98], .put 1 1,
        .field 1 [(4, 1)], .get 1 1]).1.var 1 = [97, 98, 0, 0]) := by decide

end RbThm.C18Others
