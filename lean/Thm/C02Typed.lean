import Thm.C02For
/-!
C02 — the context lemma for the *typed* simulation (`SimT`), and FOR ≡ WHILE inside any enclosing construct.

`exec_congr` (`Thm/C02Core.lean`) is stated for the untyped `Equiv`: the two statements simulate each other from
*all* related states.  `for_eq_while` (`Thm/C02For.lean`) is an `EquivT`: it relates runs between states whose
variables hold values of their declared types (`Typed sl`), because the counter arithmetic of the WHILE spelling
(`x = x + step` with the static type of the sum) equals FOR's only on values of the declared types.  This file
proves the typed context lemma `simT_fill` / `exec_congr_typed`: typedness is an invariant of every run of a
well-typed statement (`pres_all`, C01's type preservation), so it can be threaded through sequences, IF branches, CASE
blocks and the rounds of WHILE / DO / FOR loops exactly where the untyped proof threads `StEq`.  The extra premises are
that the two filled contexts are well typed (`WfA`, which `wfTopB` gives for whole programs).

`for_eq_while_in_context` then lifts `for_eq_while` to every context.  One premise does not lift for free: `EquivT`
carries `StepNonZero` as a premise on the state in which the loop is *entered* (a zero step is error 258 in FOR, the
WHILE spelling has no such error).  At a nested site that state is not the start state of the program, so the lifted
theorem asks for `StepNonZero` in every well-typed state — which holds statically for the two shapes without a step
temporary (no STEP; a non-zero whole-number literal STEP: `stepNonZero_static` in `Thm/C02Vm.lean`) and is a genuine
semantic premise for a computed step.
-/
set_option linter.unusedVariables false
set_option linter.unusedSimpArgs false

namespace RbThm.C02
open RbModel RbModel.Num RbModel.Ast RbModel.Ref RbModel.Rewrite RbThm.C01
open RbThm.C01Sim RbThm.C01Sim.SimRead

/-- typed simulation with no extra premise on the start state -/
abbrev SimTy (sl : List Ty) (zs : List Nat) (a b : Stmt) : Prop := SimT sl (fun _ => True) zs a b

/-- the same for CASE lists -/
def SimTyC (sl : List Ty) (zs : List Nat) (a b : Cases) : Prop :=
  ∀ fuel p subj s1 s2 s1' o, Typed sl s1.env → Typed sl s2.env → StEq zs s1 s2 →
    execCases fuel p subj a s1 = (s1', o) → Outcome.isFuel o = false →
    ∃ fuel' s2' o', execCases fuel' p subj b s2 = (s2', o') ∧ StEq zs s1' s2' ∧ OEq o o'

/-- typed equivalence with no extra premise -/
abbrev EquivTy (sl : List Ty) (zs : List Nat) (a b : Stmt) : Prop := EquivT sl (fun _ => True) zs a b

theorem Sim.toSimTy {zs : List Nat} {a b : Stmt} (h : Sim zs a b) (sl : List Ty) : SimTy sl zs a b :=
  fun fuel s1 s2 s1' o _ _ _ hs he ho => h fuel s1 s2 s1' o hs he ho

theorem SimC.toSimTyC {zs : List Nat} {a b : Cases} (h : SimC zs a b) (sl : List Ty) : SimTyC sl zs a b :=
  fun fuel p subj s1 s2 s1' o _ _ hs he ho => h fuel p subj s1 s2 s1' o hs he ho

/-- a premise that holds of every well-typed state can be dropped -/
theorem SimT.drop {sl : List Ty} {P : St → Prop} {zs : List Nat} {a b : Stmt} (h : SimT sl P zs a b)
    (hP : ∀ s, Typed sl s.env → P s) : SimTy sl zs a b :=
  fun fuel s1 s2 s1' o t1 t2 _ hs he ho => h fuel s1 s2 s1' o t1 t2 (hP s1 t1) hs he ho

theorem pres {sl : List Ty} {fuel : Nat} {st : Stmt} {s s' : St} (w : WfA sl st) (t : Typed sl s.env)
    (h : exec fuel st s = (s', .normal)) : Typed sl s'.env := (pres_all sl fuel).1 st s s' w t h

theorem typed_St_set {sl : List Ty} {s : St} (h : Typed sl s.env) {x : Nat} {t : Ty} {v : Val}
    (hx : sl[x]? = some t) (hv : v.tag = t) : Typed sl (s.set x v).env := typed_set h hx hv

/-! ### the typed simulation is a congruence -/

theorem SimTy.seq {sl : List Ty} {zs : List Nat} {a a' b b' : Stmt} (wa : WfA sl a) (wa' : WfA sl a')
    (ha : SimTy sl zs a a') (hb : SimTy sl zs b b') : SimTy sl zs (.seq a b) (.seq a' b') := by
  intro fuel s1 s2 s1' o t1 t2 _ hs h ho
  obtain ⟨n, rfl⟩ := fuel_pos h ho
  rw [exec_seq] at h
  rcases andThen_inv h with ⟨sa, hra, hk⟩ | ⟨hne, hr⟩
  · obtain ⟨fa, sa2, oa', hea, hsa, hoa⟩ := ha n s1 s2 sa .normal t1 t2 trivial hs hra rfl
    cases hoa.normal_left
    obtain ⟨fb, s2', o', heb, hsb, hob⟩ := hb n sa sa2 s1' o (pres wa t1 hra) (pres wa' t2 hea) trivial hsa hk ho
    refine ⟨max fa fb + 1, s2', o', ?_, hsb, hob⟩
    rw [exec_seq, exec_le (Nat.le_max_left fa fb) hea rfl, andThen_normal]
    exact exec_le (Nat.le_max_right fa fb) heb (by rw [hob.isFuel]; exact ho)
  · rw [hr] at hne
    obtain ⟨fa, sa2, oa', hea, hsa, hoa⟩ := ha n s1 s2 s1' o t1 t2 trivial hs hr ho
    refine ⟨fa + 1, sa2, oa', ?_, hsa, hoa⟩
    rw [exec_seq, hea, andThen_abort _ (hoa.ne_normal hne)]

theorem SimTy.ifs {sl : List Ty} {zs : List Nat} {c : Ast.Expr} {a a' b b' : Stmt} {p : Pos}
    (hc : usesE zs c = false) (ha : SimTy sl zs a a') (hb : SimTy sl zs b b') :
    SimTy sl zs (.ifs c a b p) (.ifs c a' b' p) := by
  intro fuel s1 s2 s1' o t1 t2 _ hs h ho
  obtain ⟨n, rfl⟩ := fuel_pos h ho
  simp only [exec] at h
  have hcond := evalCond_agree hs hc
  cases hev : evalCond s1.env c with
  | error oe =>
    rw [hev] at h; cases h
    exact ⟨1, s2, _, by simp only [exec, ← hcond, hev], hs, OEq.refl _⟩
  | ok bb =>
    rw [hev] at h
    cases bb with
    | true =>
      obtain ⟨f, s2', o', he, hs', ho'⟩ := ha n s1 s2 s1' o t1 t2 trivial hs h ho
      exact ⟨f + 1, s2', o', by simp only [exec, ← hcond, hev]; exact he, hs', ho'⟩
    | false =>
      obtain ⟨f, s2', o', he, hs', ho'⟩ := hb n s1 s2 s1' o t1 t2 trivial hs h ho
      exact ⟨f + 1, s2', o', by simp only [exec, ← hcond, hev]; exact he, hs', ho'⟩

theorem SimTy.doLoop {sl : List Ty} {zs : List Nat} {c : Ast.Expr} {top u : Bool} {body body' : Stmt} {p : Pos}
    (hc : usesE zs c = false) (wb : WfA sl body) (wb' : WfA sl body') (hb : SimTy sl zs body body') :
    SimTy sl zs (.doLoop c top u body p) (.doLoop c top u body' p) := by
  intro fuel
  induction fuel with
  | zero => intro s1 s2 s1' o t1 t2 _ hs h ho; rw [exec_zero_isFuel h] at ho; cases ho
  | succ n ih =>
    intro s1 s2 s1' o t1 t2 _ hs h ho
    cases top with
    | true =>
      rw [exec_doTop] at h
      have hcond := evalCond_agree hs hc
      cases hev : evalCond s1.env c with
      | error oe =>
        rw [hev] at h; cases h
        exact ⟨1, s2, _, by rw [exec_doTop, ← hcond, hev], hs, OEq.refl _⟩
      | ok bb =>
        rw [hev] at h; simp only at h
        by_cases hbu : (bb != u) = true
        · rw [if_pos hbu] at h
          rcases andThen_inv h with ⟨sa, hra, hk⟩ | ⟨hne, hr⟩
          · obtain ⟨fa, sa2, oa', hea, hsa, hoa⟩ := hb n s1 s2 sa .normal t1 t2 trivial hs hra rfl
            cases hoa.normal_left
            obtain ⟨fb, s2', o', heb, hsb, hob⟩ :=
              ih sa sa2 s1' o (pres wb t1 hra) (pres wb' t2 hea) trivial hsa hk ho
            refine ⟨max fa fb + 1, s2', o', ?_, hsb, hob⟩
            rw [exec_doTop, ← hcond, hev]; simp only
            rw [if_pos hbu, exec_le (Nat.le_max_left fa fb) hea rfl, andThen_normal]
            exact exec_le (Nat.le_max_right fa fb) heb (by rw [hob.isFuel]; exact ho)
          · rw [hr] at hne
            obtain ⟨fa, sa2, oa', hea, hsa, hoa⟩ := hb n s1 s2 s1' o t1 t2 trivial hs hr ho
            refine ⟨fa + 1, sa2, oa', ?_, hsa, hoa⟩
            rw [exec_doTop, ← hcond, hev]; simp only
            rw [if_pos hbu, hea, andThen_abort _ (hoa.ne_normal hne)]
        · rw [if_neg hbu] at h; cases h
          refine ⟨1, s2, .normal, ?_, hs, trivial⟩
          rw [exec_doTop, ← hcond, hev]; simp only; rw [if_neg hbu]
    | false =>
      rw [exec_doBottom] at h
      rcases andThen_inv h with ⟨sa, hra, hk⟩ | ⟨hne, hr⟩
      · obtain ⟨fa, sa2, oa', hea, hsa, hoa⟩ := hb n s1 s2 sa .normal t1 t2 trivial hs hra rfl
        cases hoa.normal_left
        have hcond := evalCond_agree hsa hc
        cases hev : evalCond sa.env c with
        | error oe =>
          rw [hev] at hk; cases hk
          refine ⟨fa + 1, sa2, _, ?_, hsa, OEq.refl _⟩
          rw [exec_doBottom, hea, andThen_normal, ← hcond, hev]
        | ok bb =>
          rw [hev] at hk; simp only at hk
          by_cases hbu : (bb != u) = true
          · rw [if_pos hbu] at hk
            obtain ⟨fb, s2', o', heb, hsb, hob⟩ :=
              ih sa sa2 s1' o (pres wb t1 hra) (pres wb' t2 hea) trivial hsa hk ho
            refine ⟨max fa fb + 1, s2', o', ?_, hsb, hob⟩
            rw [exec_doBottom, exec_le (Nat.le_max_left fa fb) hea rfl, andThen_normal, ← hcond, hev]
            simp only; rw [if_pos hbu]
            exact exec_le (Nat.le_max_right fa fb) heb (by rw [hob.isFuel]; exact ho)
          · rw [if_neg hbu] at hk; cases hk
            refine ⟨fa + 1, sa2, .normal, ?_, hsa, trivial⟩
            rw [exec_doBottom, hea, andThen_normal, ← hcond, hev]; simp only; rw [if_neg hbu]
      · rw [hr] at hne
        obtain ⟨fa, sa2, oa', hea, hsa, hoa⟩ := hb n s1 s2 s1' o t1 t2 trivial hs hr ho
        refine ⟨fa + 1, sa2, oa', ?_, hsa, hoa⟩
        rw [exec_doBottom, hea, andThen_abort _ (hoa.ne_normal hne)]

theorem SimTy.while {sl : List Ty} {zs : List Nat} {c : Ast.Expr} {body body' : Stmt} {p : Pos}
    (hc : usesE zs c = false) (wb : WfA sl body) (wb' : WfA sl body') (hb : SimTy sl zs body body') :
    SimTy sl zs (.while c body p) (.while c body' p) := by
  intro fuel s1 s2 s1' o t1 t2 _ hs h ho
  rw [while_doTop_exec c body p p] at h
  obtain ⟨f, s2', o', he, hs', ho'⟩ :=
    SimTy.doLoop (top := true) (u := false) (p := p) hc wb wb' hb fuel s1 s2 s1' o t1 t2 trivial hs h ho
  exact ⟨f, s2', o', by rw [while_doTop_exec c body' p p]; exact he, hs', ho'⟩

/-- the rounds of a FOR loop, related between well-typed states -/
def SimTyF (sl : List Ty) (zs : List Nat) (x : Nat) (t : Ty) (up : Bool) (body body' : Stmt) (p : Pos) : Prop :=
  ∀ fuel hv sv s1 s2 s1' o, Typed sl s1.env → Typed sl s2.env → StEq zs s1 s2 →
    forIter fuel x t hv sv up body p s1 = (s1', o) → Outcome.isFuel o = false →
    ∃ fuel' s2' o', forIter fuel' x t hv sv up body' p s2 = (s2', o') ∧ StEq zs s1' s2' ∧ OEq o o'

theorem simTyF {sl : List Ty} {zs : List Nat} {x : Nat} {t : Ty} {up : Bool} {body body' : Stmt} {p : Pos}
    (hx : x ∉ zs) (hxt : sl[x]? = some t) (wb : WfA sl body) (wb' : WfA sl body') (hb : SimTy sl zs body body') :
    SimTyF sl zs x t up body body' p := by
  intro fuel
  induction fuel with
  | zero => intro hv sv s1 s2 s1' o t1 t2 hs h ho; rw [forIter_zero_isFuel h] at ho; cases ho
  | succ n ih =>
    intro hv sv s1 s2 s1' o t1 t2 hs h ho
    rw [forIter_succ] at h
    have hcur := getD_agree hs hx (zeroOf t)
    cases hrt : relTest p (if up then .lessOrEqual else .greaterOrEqual) (s1.env.getD x (zeroOf t)) hv with
    | error oe =>
      rw [hrt] at h; cases h
      exact ⟨1, s2, _, by rw [forIter_succ, ← hcur, hrt], hs, OEq.refl _⟩
    | ok bb =>
      rw [hrt] at h
      cases bb with
      | false =>
        cases h
        exact ⟨1, s2, _, by rw [forIter_succ, ← hcur, hrt], hs, OEq.refl _⟩
      | true =>
        simp only at h
        rcases andThen_inv h with ⟨sa, hra, hk⟩ | ⟨hne, hr⟩
        · obtain ⟨fa, sa2, oa', hea, hsa, hoa⟩ := hb n s1 s2 sa .normal t1 t2 trivial hs hra rfl
          cases hoa.normal_left
          have ta := pres wb t1 hra
          have ta2 := pres wb' t2 hea
          have hcur' := getD_agree hsa hx (zeroOf t)
          cases hpl : (plus (sa.env.getD x (zeroOf t)) sv).bind (fun v => Num.cast v t) with
          | ok v =>
            rw [hpl] at hk; simp only at hk
            have hvt : v.tag = t := bind_cast_tag hpl
            obtain ⟨fb, s2', o', heb, hsb, hob⟩ :=
              ih hv sv (sa.set x v) (sa2.set x v) s1' o (typed_St_set ta hxt hvt) (typed_St_set ta2 hxt hvt)
                (hsa.set x v) hk ho
            refine ⟨max fa fb + 1, s2', o', ?_, hsb, hob⟩
            rw [forIter_succ, ← hcur, hrt]; simp only
            rw [exec_le (Nat.le_max_left fa fb) hea rfl, andThen_normal, ← hcur', hpl]
            exact forIter_le (Nat.le_max_right fa fb) heb (by rw [hob.isFuel]; exact ho)
          | err e =>
            rw [hpl] at hk; cases hk
            refine ⟨fa + 1, sa2, _, ?_, hsa, OEq.refl _⟩
            rw [forIter_succ, ← hcur, hrt]; simp only
            rw [hea, andThen_normal, ← hcur', hpl]
          | inexact =>
            rw [hpl] at hk; cases hk
            refine ⟨fa + 1, sa2, _, ?_, hsa, OEq.refl _⟩
            rw [forIter_succ, ← hcur, hrt]; simp only
            rw [hea, andThen_normal, ← hcur', hpl]
        · rw [hr] at hne
          obtain ⟨fa, sa2, oa', hea, hsa, hoa⟩ := hb n s1 s2 s1' o t1 t2 trivial hs hr ho
          refine ⟨fa + 1, sa2, oa', ?_, hsa, hoa⟩
          rw [forIter_succ, ← hcur, hrt]; simp only
          rw [hea, andThen_abort _ (hoa.ne_normal hne)]

theorem SimTy.forLoop {sl : List Ty} {zs : List Nat} {x : Nat} {t : Ty} {lo hi : Ast.Expr} {step : Option Ast.Expr}
    {body body' : Stmt} {p : Pos}
    (hx : zs.contains x = false) (hlo : usesE zs lo = false) (hhi : usesE zs hi = false)
    (hst : usesStep zs step = false) (hxt : sl[x]? = some t) (hwlo : ExprWt sl lo)
    (wb : WfA sl body) (wb' : WfA sl body') (hb : SimTy sl zs body body') :
    SimTy sl zs (.forLoop x t lo hi step body p) (.forLoop x t lo hi step body' p) := by
  intro fuel s1 s2 s1' o t1 t2 _ hs h ho
  obtain ⟨n, rfl⟩ := fuel_pos h ho
  have hx' := not_mem_of_contains hx
  simp only [exec] at h
  have e1 := evalTo_agree hs hlo t
  cases hl : evalTo s1.env lo t with
  | err c q => rw [hl] at h; cases h; exact ⟨1, s2, _, by simp only [exec, ← e1, hl], hs, OEq.refl _⟩
  | inexact => rw [hl] at h; cases h; exact ⟨1, s2, _, by simp only [exec, ← e1, hl], hs, OEq.refl _⟩
  | ok l =>
    rw [hl] at h; simp only at h
    have hs1 := hs.set x l
    have hlt : l.tag = t := evalTo_tag sl s1.env t1 lo t l hwlo hl
    have t1' := typed_St_set t1 hxt hlt
    have t2' := typed_St_set t2 hxt hlt
    have e2 := evalTo_agree hs1 hhi t
    cases hh : evalTo (s1.set x l).env hi t with
    | err c q => rw [hh] at h; cases h; exact ⟨1, _, _, by simp only [exec, ← e1, hl, ← e2, hh], hs1, OEq.refl _⟩
    | inexact => rw [hh] at h; cases h; exact ⟨1, _, _, by simp only [exec, ← e1, hl, ← e2, hh], hs1, OEq.refl _⟩
    | ok hv =>
      rw [hh] at h; simp only at h
      cases step with
      | none =>
        simp only at h
        obtain ⟨f, s2', o', he, hs', ho'⟩ :=
          simTyF (t := t) (up := true) (p := p) hx' hxt wb wb' hb n hv (.int 1) _ _ s1' o t1' t2' hs1 h ho
        exact ⟨f + 1, s2', o', by simp only [exec, ← e1, hl, ← e2, hh]; exact he, hs', ho'⟩
      | some se =>
        simp only at h
        have e3 := evalE_agree hs1 (show usesE zs se = false from hst)
        cases hse : evalE (s1.set x l).env se with
        | error oe => rw [hse] at h; cases h; exact ⟨1, _, _, by simp only [exec, ← e1, hl, ← e2, hh, ← e3, hse], hs1, OEq.refl _⟩
        | ok sv =>
          rw [hse] at h; simp only at h
          cases hsg : stepSign p sv with
          | error oe => rw [hsg] at h; cases h; exact ⟨1, _, _, by simp only [exec, ← e1, hl, ← e2, hh, ← e3, hse, hsg], hs1, OEq.refl _⟩
          | ok sg =>
            rw [hsg] at h
            cases sg with
            | neg =>
              obtain ⟨f, s2', o', he, hs', ho'⟩ :=
                simTyF (t := t) (up := false) (p := p) hx' hxt wb wb' hb n hv sv _ _ s1' o t1' t2' hs1 h ho
              exact ⟨f + 1, s2', o', by simp only [exec, ← e1, hl, ← e2, hh, ← e3, hse, hsg]; exact he, hs', ho'⟩
            | pos =>
              obtain ⟨f, s2', o', he, hs', ho'⟩ :=
                simTyF (t := t) (up := true) (p := p) hx' hxt wb wb' hb n hv sv _ _ s1' o t1' t2' hs1 h ho
              exact ⟨f + 1, s2', o', by simp only [exec, ← e1, hl, ← e2, hh, ← e3, hse, hsg]; exact he, hs', ho'⟩
            | zero => cases h; exact ⟨1, _, _, by simp only [exec, ← e1, hl, ← e2, hh, ← e3, hse, hsg], hs1, OEq.refl _⟩

/-! CASE lists -/

theorem SimTyC.else_ {sl : List Ty} {zs : List Nat} {b b' : Stmt} (hb : SimTy sl zs b b') :
    SimTyC sl zs (.else_ b) (.else_ b') := by
  intro fuel p subj s1 s2 s1' o t1 t2 hs h ho
  obtain ⟨n, rfl⟩ := execCases_pos h ho
  simp only [execCases] at h
  obtain ⟨f, s2', o', he, hs', ho'⟩ := hb n s1 s2 s1' o t1 t2 trivial hs h ho
  exact ⟨f + 1, s2', o', by simp only [execCases]; exact he, hs', ho'⟩

theorem SimTyC.case {sl : List Ty} {zs : List Nat} {conds : List CaseExpr} {b b' : Stmt} {rest rest' : Cases}
    (hc : conds.any (usesCase zs) = false) (hb : SimTy sl zs b b') (hr : SimTyC sl zs rest rest') :
    SimTyC sl zs (.case conds b rest) (.case conds b' rest') := by
  intro fuel p subj s1 s2 s1' o t1 t2 hs h ho
  obtain ⟨n, rfl⟩ := execCases_pos h ho
  simp only [execCases] at h
  have hm := anyMatches_agree hs p subj conds hc
  cases hev : anyMatches s1.env p subj conds with
  | error oe => rw [hev] at h; cases h; exact ⟨1, s2, _, by simp only [execCases, ← hm, hev], hs, OEq.refl _⟩
  | ok bb =>
    rw [hev] at h
    cases bb with
    | true =>
      obtain ⟨f, s2', o', he, hs', ho'⟩ := hb n s1 s2 s1' o t1 t2 trivial hs h ho
      exact ⟨f + 1, s2', o', by simp only [execCases, ← hm, hev]; exact he, hs', ho'⟩
    | false =>
      obtain ⟨f, s2', o', he, hs', ho'⟩ := hr n p subj s1 s2 s1' o t1 t2 hs h ho
      exact ⟨f + 1, s2', o', by simp only [execCases, ← hm, hev]; exact he, hs', ho'⟩

theorem SimTy.select {sl : List Ty} {zs : List Nat} {e : Ast.Expr} {cs cs' : Cases} {p : Pos}
    (he : usesE zs e = false) (hc : SimTyC sl zs cs cs') : SimTy sl zs (.select e cs p) (.select e cs' p) := by
  intro fuel s1 s2 s1' o t1 t2 _ hs h ho
  obtain ⟨n, rfl⟩ := fuel_pos h ho
  simp only [exec] at h
  have hm := evalE_agree hs he
  cases hev : evalE s1.env e with
  | error oe => rw [hev] at h; cases h; exact ⟨1, s2, _, by simp only [exec, ← hm, hev], hs, OEq.refl _⟩
  | ok subj =>
    rw [hev] at h
    obtain ⟨f, s2', o', he', hs', ho'⟩ := hc n p subj s1 s2 s1' o t1 t2 hs h ho
    exact ⟨f + 1, s2', o', by simp only [exec, ← hm, hev]; exact he', hs', ho'⟩

/-! ### the typed context lemma -/

mutual
/-- **Typed context lemma.** If `b` simulates `a` between well-typed states, then in every context that does not
mention the temporaries and is well typed around either statement, `C[b]` simulates `C[a]` between well-typed
states. -/
theorem simT_fill {sl : List Ty} {zs : List Nat} {a b : Stmt} (hab : SimTy sl zs a b) :
    (C : Ctx) → C.uses zs = false → WfA sl (C.fill a) → WfA sl (C.fill b) → SimTy sl zs (C.fill a) (C.fill b)
  | .hole, _, _, _ => hab
  | .seqL c k, h, w, w' => by
      have h' : c.uses zs = false ∧ usesS zs k = false := by simpa [Ctx.uses] using h
      simp only [Ctx.fill, WfA] at w w'
      exact SimTy.seq w.1 w'.1 (simT_fill hab c h'.1 w.1 w'.1) ((sim_self zs k h'.2).toSimTy sl)
  | .seqR k c, h, w, w' => by
      have h' : usesS zs k = false ∧ c.uses zs = false := by simpa [Ctx.uses] using h
      simp only [Ctx.fill, WfA] at w w'
      exact SimTy.seq w.1 w'.1 ((sim_self zs k h'.1).toSimTy sl) (simT_fill hab c h'.2 w.2 w'.2)
  | .ifThen cond c els p, h, w, w' => by
      have h' : (usesE zs cond = false ∧ c.uses zs = false) ∧ usesS zs els = false := by simpa [Ctx.uses] using h
      simp only [Ctx.fill, WfA] at w w'
      exact SimTy.ifs h'.1.1 (simT_fill hab c h'.1.2 w.1 w'.1) ((sim_self zs els h'.2).toSimTy sl)
  | .ifElse cond thn c p, h, w, w' => by
      have h' : (usesE zs cond = false ∧ usesS zs thn = false) ∧ c.uses zs = false := by simpa [Ctx.uses] using h
      simp only [Ctx.fill, WfA] at w w'
      exact SimTy.ifs h'.1.1 ((sim_self zs thn h'.1.2).toSimTy sl) (simT_fill hab c h'.2 w.2 w'.2)
  | .whileBody cond c p, h, w, w' => by
      have h' : usesE zs cond = false ∧ c.uses zs = false := by simpa [Ctx.uses] using h
      simp only [Ctx.fill, WfA] at w w'
      exact SimTy.while h'.1 w w' (simT_fill hab c h'.2 w w')
  | .doBody cond top u c p, h, w, w' => by
      have h' : usesE zs cond = false ∧ c.uses zs = false := by simpa [Ctx.uses] using h
      simp only [Ctx.fill, WfA] at w w'
      exact SimTy.doLoop h'.1 w w' (simT_fill hab c h'.2 w w')
  | .forBody x t lo hi step c p, h, w, w' => by
      have h' : (((zs.contains x = false ∧ usesE zs lo = false) ∧ usesE zs hi = false) ∧ usesStep zs step = false)
          ∧ c.uses zs = false := by simpa [Ctx.uses] using h
      simp only [Ctx.fill, WfA] at w w'
      exact SimTy.forLoop h'.1.1.1.1 h'.1.1.1.2 h'.1.1.2 h'.1.2 w.1 w.2.1 w.2.2 w'.2.2
        (simT_fill hab c h'.2 w.2.2 w'.2.2)
  | .selectIn e cc p, h, w, w' => by
      have h' : usesE zs e = false ∧ cc.uses zs = false := by simpa [Ctx.uses] using h
      simp only [Ctx.fill, WfA] at w w'
      exact SimTy.select h'.1 (simTC_fill hab cc h'.2 w w')
theorem simTC_fill {sl : List Ty} {zs : List Nat} {a b : Stmt} (hab : SimTy sl zs a b) :
    (C : CasesCtx) → C.uses zs = false → WfAC sl (C.fill a) → WfAC sl (C.fill b) → SimTyC sl zs (C.fill a) (C.fill b)
  | .elseBody c, h, w, w' => by
      simp only [CasesCtx.fill, WfAC] at w w'
      exact SimTyC.else_ (simT_fill hab c (by simpa [CasesCtx.uses] using h) w w')
  | .caseBody conds c rest, h, w, w' => by
      have h' : (conds.any (usesCase zs) = false ∧ c.uses zs = false) ∧ usesC zs rest = false := by
        simpa [CasesCtx.uses] using h
      simp only [CasesCtx.fill, WfAC] at w w'
      exact SimTyC.case h'.1.1 (simT_fill hab c h'.1.2 w.1 w'.1) ((simC_self zs rest h'.2).toSimTyC sl)
  | .caseRest conds body cc, h, w, w' => by
      have h' : (conds.any (usesCase zs) = false ∧ usesS zs body = false) ∧ cc.uses zs = false := by
        simpa [CasesCtx.uses] using h
      simp only [CasesCtx.fill, WfAC] at w w'
      exact SimTyC.case h'.1.1 ((sim_self zs body h'.1.2).toSimTy sl) (simTC_fill hab cc h'.2 w.2 w'.2)
end

/-- **Compositionality for the typed equivalence** (clause (a) for `EquivT`): statements equivalent between
well-typed states are equivalent between well-typed states in every well-typed context that does not mention the
temporaries. -/
theorem exec_congr_typed {sl : List Ty} {zs : List Nat} {a b : Stmt} (h : EquivTy sl zs a b) (C : Ctx)
    (hC : C.uses zs = false) (w : WfA sl (C.fill a)) (w' : WfA sl (C.fill b)) :
    EquivTy sl zs (C.fill a) (C.fill b) :=
  ⟨simT_fill h.1 C hC w w', simT_fill h.2 C hC w' w⟩

mutual
/-- the statement in the hole of a well-typed filled context is well typed -/
theorem wfA_of_fill {sl : List Ty} {a : Stmt} : (C : Ctx) → WfA sl (C.fill a) → WfA sl a
  | .hole, w => w
  | .seqL c k, w => by simp only [Ctx.fill, WfA] at w; exact wfA_of_fill c w.1
  | .seqR k c, w => by simp only [Ctx.fill, WfA] at w; exact wfA_of_fill c w.2
  | .ifThen cond c els p, w => by simp only [Ctx.fill, WfA] at w; exact wfA_of_fill c w.1
  | .ifElse cond thn c p, w => by simp only [Ctx.fill, WfA] at w; exact wfA_of_fill c w.2
  | .whileBody cond c p, w => by simp only [Ctx.fill, WfA] at w; exact wfA_of_fill c w
  | .doBody cond top u c p, w => by simp only [Ctx.fill, WfA] at w; exact wfA_of_fill c w
  | .forBody x t lo hi step c p, w => by simp only [Ctx.fill, WfA] at w; exact wfA_of_fill c w.2.2
  | .selectIn e cc p, w => by simp only [Ctx.fill, WfA] at w; exact wfAC_of_fill cc w
theorem wfAC_of_fill {sl : List Ty} {a : Stmt} : (C : CasesCtx) → WfAC sl (C.fill a) → WfA sl a
  | .elseBody c, w => by simp only [CasesCtx.fill, WfAC] at w; exact wfA_of_fill c w
  | .caseBody conds c rest, w => by simp only [CasesCtx.fill, WfAC] at w; exact wfA_of_fill c w.1
  | .caseRest conds body cc, w => by simp only [CasesCtx.fill, WfAC] at w; exact wfAC_of_fill cc w.2
end

/-- **FOR ≡ WHILE inside any enclosing construct.**  `for_eq_while` lifted through the typed context lemma: the FOR
statement at a site of a well-typed tree `C[FOR …]` and the tree `C[st']` with `st'` its `forToWhile` spelling are
equivalent between well-typed states, modulo the temporaries `zl`, `zs`, which the context does not mention.
`hnz`: the step is not zero whenever the loop is entered — in *every* well-typed state, because at a nested site the
loop is entered from states the enclosing constructs produce; static for the shapes without a step temporary
(`RbThm.C02Vm.stepNonZero_static`). -/
theorem for_eq_while_in_context {sl : List Ty} {x : Nat} {t : Ty} {lo hi : Ast.Expr} {step : Option Ast.Expr}
    {body : Stmt} {p : Pos} {zl zs : Nat} {tres : Ty} {st' : Stmt}
    (hft : forToWhile zl zs tres (.forLoop x t lo hi step body p) = some st')
    (hne : zl ≠ zs)
    (hfresh : usesS [zl, zs] (.forLoop x t lo hi step body p) = false)
    (hwhi : ExprWt sl hi) (hwst : ∀ se, step = some se → ExprWt sl se)
    (hzl : sl[zl]? = some t) (hzs : sl[zs]? = some (stepTy step))
    (htres : Gen.NumTables.binType .plus t (stepTy step) = some tres)
    (hnz : ∀ s, Typed sl s.env → StepNonZero x t lo (stepE step p) p s)
    (C : Ctx) (hC : C.uses [zl, zs] = false)
    (w : WfA sl (C.fill (.forLoop x t lo hi step body p))) (w' : WfA sl (C.fill st')) :
    EquivTy sl [zl, zs] (C.fill (.forLoop x t lo hi step body p)) (C.fill st') := by
  have heq := for_eq_while hft hne hfresh (wfA_of_fill C w) hwhi hwst hzl hzs htres
  have hnz' : ∀ s, Typed sl s.env → StepNonZero x t lo (stepE step p) p s := hnz
  -- in the direction WHILE → FOR the premise is asked of the WHILE side's state: the same statement
  exact exec_congr_typed ⟨heq.1.drop hnz', heq.2.drop hnz'⟩ C hC w w'

end RbThm.C02
