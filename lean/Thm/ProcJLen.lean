import RbModel.ProcJ.Compile
/-!
Lengths of the code the generator model of the layer "procedures ∪ jumps" emits: `(compileExpr lay off e).length = sizeExpr e`,
`(compileStmt lay sfx fd sd off s).length = sizeStmt fd sd s`, … (`RbModel.ProcJ.Compile` places forward labels with the
`size*` functions; these lemmas make those addresses the right ones.)
-/
set_option linter.unusedSimpArgs false
set_option linter.unusedVariables false
namespace RbThm.ProcJLen
open RbModel RbModel.ProcJ RbModel.ProcJ.Compile
open RbModel.Num hiding Expr
open RbModel.Ast (Pos)
open RbModel.Proc (Var Expr Args PrintItem CaseExpr ProcDecl)
open RbModel.Proc.Compile (Layout Layout.addr sizeExpr sizePush refCount sizeExprTo sizeSubCall sizeItems sizeCaseExpr sizeConds
  sizeExit labelName stepSuffix maxPos)

theorem len_enqueues : ∀ (args : Args) (i : Nat), (enqueues i args).length = refCount args
  | .nil, _ => by simp [enqueues, refCount]
  | .cons e _ _ rest, i => by
    simp only [enqueues, refCount, List.length_append, len_enqueues rest]
    cases e.isRef <;> simp

theorem len_writeBacks : ∀ (args : Args), (writeBacks args).length = 3 * refCount args
  | .nil => by simp [writeBacks, refCount]
  | .cons e _ _ rest => by
    cases e <;> simp [writeBacks, refCount, Expr.isRef, len_writeBacks rest] <;> omega

mutual
theorem len_expr (lay : Layout) : ∀ (e : Expr) (off : Nat), (compileExpr lay off e).length = sizeExpr e
  | .lit _ _, _ => by simp [compileExpr, sizeExpr]
  | .var _ _ _, _ => by simp [compileExpr, sizeExpr]
  | .un op e _, off => by cases op <;> simp [compileExpr, sizeExpr, len_expr lay e]
  | .bin op l r _ _, off => by
    simp only [compileExpr, sizeExpr, List.length_append, List.length_singleton, List.length_cons, List.length_nil,
      len_expr lay l, len_expr lay r]
    by_cases h : op = .divide <;> simp [h] <;> omega
  | .paren e _, off => by simp [compileExpr, sizeExpr, len_expr lay e]
  | .callFn f args t p, off => by
    simp only [compileExpr, sizeExpr, List.length_append, List.length_singleton, List.length_cons, List.length_nil,
      len_pushArgs lay args, len_enqueues, len_writeBacks]
    (try omega)
theorem len_pushArgs (lay : Layout) : ∀ (args : Args) (off : Nat), (pushArgs lay off args).length = sizePush args
  | .nil, _ => by simp [pushArgs, sizePush]
  | .cons e _ pt rest, off => by
    simp only [pushArgs, sizePush, List.length_append, List.length_singleton, len_expr lay e, len_pushArgs lay rest]
    by_cases h : e.ty = pt <;> simp [h] <;> omega
end

theorem len_exprTo (lay : Layout) (off : Nat) (e : Expr) (t : Ty) :
    (compileExprTo lay off e t).length = sizeExprTo e t := by
  simp only [compileExprTo, sizeExprTo, List.length_append, len_expr]
  by_cases h : e.ty = t <;> simp [h]

theorem len_subCall (lay : Layout) (off f : Nat) (args : Args) (p : Pos) :
    (compileSubCall lay off f args p).length = sizeSubCall args := by
  simp only [compileSubCall, sizeSubCall, List.length_append, List.length_singleton, List.length_cons, List.length_nil,
    len_pushArgs, len_enqueues, len_writeBacks]
  (try omega)

theorem len_caseExpr (lay : Layout) (p : Pos) (next off : Nat) (c : CaseExpr) :
    (compileCaseExpr lay p next off c).length = sizeCaseExpr c := by
  cases c <;> simp [compileCaseExpr, sizeCaseExpr, len_expr] <;> try omega

theorem len_items (lay : Layout) (p : Pos) : ∀ (items : List PrintItem) (off : Nat),
    (compileItems lay p off items).length = sizeItems items
  | [], _ => rfl
  | it :: rest, off => by
    cases it <;> simp [compileItems, sizeItems, len_items lay p rest, len_expr] <;> try omega

theorem len_conds (lay : Layout) (p : Pos) (sfx : String) (bi nextCase stmts : Nat) :
    ∀ (conds : List CaseExpr) (off ei : Nat),
      (compileConds lay p sfx bi nextCase stmts off ei conds).length = sizeConds conds
  | [], _, _ => rfl
  | [c], _, _ => by simp [compileConds, sizeConds, len_caseExpr]
  | c :: d :: rest, off, ei => by
    have ih := len_conds lay p sfx bi nextCase stmts (d :: rest) (off + sizeCaseExpr c + 1 + 1) (ei + 1)
    simp only [compileConds, sizeConds, List.length_append, List.length_singleton, len_caseExpr, ih]
    (try omega)

theorem flatMap_const_len {α β : Type} (f : α → List β) (k : Nat) (h : ∀ a, (f a).length = k) (l : List α) :
    (l.flatMap f).length = k * l.length := by
  induction l with
  | nil => simp
  | cons a rest ih => simp [List.flatMap_cons, ih, h, Nat.mul_succ] <;> (try omega)

theorem len_forBody (sfx : String) (x : Var) (t : Ty) (bodyCode : Code) (up : Bool) (p : Pos) (off outOff : Nat) :
    (forBody sfx x t bodyCode up p off outOff).length = bodyCode.length + 18 := by
  simp [forBody, loadVar, storeVar] <;> try omega

mutual
theorem len_stmt (lay : Layout) (env : LEnv) : ∀ (s : SStmt) (sfx : String) (fd sd off : Nat),
    (compileStmt lay env sfx fd sd off s).length = sizeStmt env.dp fd sd s
  | .skip, _, _, _, _ => by simp [compileStmt, sizeStmt]
  | .seq a b, sfx, fd, sd, off => by simp [compileStmt, sizeStmt, len_stmt lay env a, len_stmt lay env b]
  | .comment, _, _, _, _ => by simp [compileStmt, sizeStmt]
  | .dim _ _ _, _, _, _, _ => by simp [compileStmt, sizeStmt]
  | .sdim _ _ _, _, _, _, _ => by simp [compileStmt, sizeStmt]
  | .assign x t e p, _, _, _, _ => by simp [compileStmt, sizeStmt, storeVar, len_exprTo]
  | .print items p, _, _, _, _ => by simp [compileStmt, sizeStmt, len_items] <;> try omega
  | .data items p, _, _, _, _ => by
    simp only [compileStmt, sizeStmt, List.length_append, List.length_cons, List.length_nil]
    rw [flatMap_const_len _ 2 (fun _ => rfl)] <;> (try omega)
  | .read vars p, _, _, _, _ => by
    simp only [compileStmt, sizeStmt]
    split
    · rfl
    · exact flatMap_const_len _ 11 (fun _ => rfl) vars
  | .ifBlock c thn elifs hasElse els p, sfx, fd, sd, off => by
    simp only [compileStmt, sizeStmt, List.length_append, List.length_singleton, len_stmt lay env thn,
      len_elifs lay env elifs, len_expr]
    cases hasElse <;> simp [len_stmt lay env els] <;> try omega
  | .select e cases hasElse els p, sfx, fd, sd, off => by
    simp only [compileStmt, sizeStmt, List.length_append, List.length_singleton, List.length_cons, List.length_nil,
      len_cases lay env cases, len_expr]
    cases hasElse <;> simp [len_stmt lay env els] <;> try omega
  | .forLoop x t lo hi step body p, sfx, fd, sd, off => by
    cases step with
    | none =>
      simp only [compileStmt, sizeStmt, sizeForBody, List.length_append, List.length_singleton, List.length_cons,
        List.length_nil, len_forBody, len_stmt lay env body, storeVar, len_exprTo, len_expr]
      (try omega)
    | some s =>
      simp only [compileStmt, sizeStmt, sizeForBody, List.length_append, List.length_singleton, List.length_cons,
        List.length_nil, len_forBody, len_stmt lay env body, storeVar, len_exprTo, len_expr]
      (try omega)
  | .while c body p, sfx, fd, sd, off => by
    simp only [compileStmt, sizeStmt, List.length_append, List.length_singleton, List.length_cons, List.length_nil,
      len_stmt lay env body, len_expr]
    (try omega)
  | .doLoop c top u body p, sfx, fd, sd, off => by
    cases top <;> cases u <;>
      simp [compileStmt, sizeStmt, len_stmt lay env body, len_expr] <;> try omega
  | .end_ _, _, _, _, _ => by simp [compileStmt, sizeStmt]
  | .callSub f args p, _, _, _, off => by simp only [compileStmt, sizeStmt, len_subCall]
  | .exitProc p, _, fd, sd, _ => by simp [compileStmt, sizeStmt, sizeExit]; omega
  | .label _ _ _, _, _, _, _ => by simp [compileStmt, sizeStmt]
  | .goto L p, _, fd, sd, _ => by simp [compileStmt, sizeStmt, compileGoto, sizeGoto]; omega
  | .gosub _ _, _, _, _, _ => by simp [compileStmt, sizeStmt]
  | .ret _, _, _, _, _ => by simp [compileStmt, sizeStmt]
theorem len_elifs (lay : Layout) (env : LEnv) : ∀ (e : ElseIfs) (sfx : String) (fd sd : Nat) (p : Pos) (endOff off i : Nat),
    (compileElifs lay env sfx fd sd p endOff off i e).length = sizeElifs env.dp fd sd e
  | .nil, _, _, _, _, _, _, _ => by simp [compileElifs, sizeElifs]
  | .cons c body rest, sfx, fd, sd, p, endOff, off, i => by
    simp only [compileElifs, sizeElifs, List.length_append, List.length_singleton, len_stmt lay env body,
      len_elifs lay env rest, len_expr]
    (try omega)
theorem len_cases (lay : Layout) (env : LEnv) : ∀ (cs : SCases) (sfx : String) (fd sd : Nat) (p : Pos) (endOff off i : Nat),
    (compileCases lay env sfx fd sd p endOff off i cs).length = sizeCases env.dp fd sd cs
  | .nil, _, _, _, _, _, _, _ => by simp [compileCases, sizeCases]
  | .cons conds body rest, sfx, fd, sd, p, endOff, off, i => by
    simp only [compileCases, sizeCases, List.length_append, List.length_singleton, len_conds, len_stmt lay env body,
      len_cases lay env rest]
    by_cases h : conds.length > 1
    · simp [h] <;> (try omega)
    · simp [h] <;> (try omega)
end

theorem len_proc (lay : Layout) (env : LEnv) (off : Nat) (d : ProcDecl SStmt) :
    (compileProc lay env off d).length = sizeProc env.dp d := by
  unfold compileProc sizeProc headerSize
  cases d.result <;> cases d.static <;> simp [len_stmt] <;> omega

end RbThm.ProcJLen
