import Thm.AoRSimExpr0
/-!
Layer AoR (port of the records-layer file `Thm/RecLSimStmt.lean`), simulation part — the simple statement cases: sequencing and END (ports of `Thm/ArrLSimStmt.lean`);
assignment `x.path = e` of every kind — scalar variable, field, `STRING * n` variable or field (with the `Cast` /
`FixLength` conversion), whole record `a = b` / `a.f = b.g` — as ONE case: the converted right-hand side stays in A while
the path is built, then `CopyAToVarPath` stores it (`store_path_steps`; `path_set_rel` relates `RV.setPath` on the finite
map to `ArrPath.modAt` on the tree and keeps the typing invariant); `DIM` of a built-in type, of `STRING * n` and of a
record type (`fresh_rel`: the allocated tree represents the fresh value).
-/
namespace RbThm.AoRSim
set_option linter.unusedVariables false
set_option linter.unusedSimpArgs false
open RbModel RbModel.Num RbModel.AoR RbModel.AoR.Compile RbModel.AoR.Vm
open RbModel.Ast (Pos)
open RbModel.RecL (ETy FTy FFields expand zeroOf)
open RbModel.RecL.Vm (allocTy defaultVar)
open RbThm.AoRLen RbThm.ArrLNum RbThm.RecLTy RbThm.AoRTy

set_option linter.unusedSectionVars false
variable [ExprOk]

theorem case_seq (code : Code) (fuel : Nat) (ih : IHle code fuel) (a b : SStmt) (sc : Scope) (sfx : String)
    (off : Nat) (s : St) (σ : Vm)
    (hc : CodeAt code off (compileStmt sfx off (.seq a b))) (hpc : σ.pc = off)
    (hr : Rel sc s σ) (hw : Wf sc (.seq a b)) (ha : ActInv σ) :
    StmtPost code sc (sizeStmt (.seq a b)) off σ (AoR.Ref.exec (fuel + 1) (desugar (.seq a b)) s) := by
  simp only [compileStmt] at hc
  simp only [Wf] at hw
  obtain ⟨hwa, hwb⟩ := hw
  have h1 := ih.self.stmt sc a sfx off s σ hc.append_left hpc hr hwa ha
  simp only [desugar, AoR.Ref.exec, sizeStmt]
  generalize AoR.Ref.exec fuel (desugar a) s = ra at h1 ⊢
  obtain ⟨s1, o1⟩ := ra
  cases o1 with
  | normal =>
    obtain ⟨τ, st, hp, hrel, hss⟩ := h1
    have hcb : CodeAt code (off + sizeStmt a) (compileStmt sfx (off + sizeStmt a) b) := by
      have := hc.append_right
      rwa [len_stmt] at this
    have h2 := ih.self.stmt sc b sfx _ s1 τ hcb hp hrel hwb (ha.of_same hss)
    simp only
    exact StmtPost.of_steps st hss (h2.addr (by omega))
  | halted => exact h1
  | error c p => exact h1
  | inexact => trivial
  | outOfFuel => trivial
  | illFormed => trivial
  | tooBig => trivial

/-- the state after `⟦x.path⟧path · CopyAToVarPath` -/
def storePathSt (τ : Vm) (x : Nat) (path : List String) (w' : RV) : Vm :=
  { τ with pc := τ.pc + (1 + path.length) + 1, vars := τ.vars.set x w' }

/-- `⟦x.path⟧path · CopyAToVarPath`: the tree in A is stored at the end of the path below variable `x`; registers and
stacks are as they were -/
theorem store_path_steps (code : Code) (x : Nat) (path : List String) (p : Pos) (τ : Vm) (w0 w' : RV)
    (hc : CodeAt code τ.pc (compilePath x path p ++ [(CInstr.copyAToVarPath, p)]))
    (hv : τ.vars[x]? = some w0)
    (hm : ArrPath.modAt w0 (stepsOf path) (fun _ => some τ.regs.a) = some w') :
    Steps code τ (storePathSt τ x path w') := by
  have st1 := path_steps code x path p τ hc.append_left
  have hcp : code[τ.pc + (1 + path.length)]? = some (CInstr.copyAToVarPath, p) := by
    have := hc.append_right.head
    simp only [len_path] at this
    exact this
  refine st1.trans (Steps.one ?_)
  have hwp : writePath (pathSt τ x path) ⟨.var x, [], path⟩ τ.regs.a =
      .ok { pathSt τ x path with vars := τ.vars.set x w' } := by
    have hm' : ArrPath.modAt w0 (List.map (fun f => ArrPath.Step.fld f.toList) path) (fun _ => some τ.regs.a) =
        some w' := hm
    simp only [writePath, pathSt, hv, Path.flds, hm']
  simp only [pathSt] at hwp ⊢
  simp only [Vm.step, hcp, hwp, storePathSt, Vm.advance]

theorem SameStacks.storePathSt (τ : Vm) (x : Nat) (path : List String) (w' : RV) :
    SameStacks τ (storePathSt τ x path w') := ⟨rfl, rfl, rfl, rfl, rfl, id⟩

/-- **assignment** `x.path = e`: scalar, field, fixed-length string, whole record -/
theorem case_assign (code : Code) (fuel : Nat) (ih : IHle code fuel) (x : Nat) (path : List String) (t : ETy)
    (e : AoR.Expr) (p : Pos)
    (sc : Scope) (sfx : String) (off : Nat) (s : St) (σ : Vm)
    (hc : CodeAt code off (compileStmt sfx off (.assign x path t e p))) (hpc : σ.pc = off)
    (hr : Rel sc s σ) (hw : Wf sc (.assign x path t e p)) (ha : ActInv σ) :
    StmtPost code sc (sizeStmt (.assign x path t e p)) off σ
      (AoR.Ref.exec (fuel + 1) (desugar (.assign x path t e p)) s) := by
  simp only [compileStmt] at hc
  simp only [Wf] at hw
  obtain ⟨hpt, hwe⟩ := hw
  obtain ⟨st0, root, ft, h1, h2, h3, h4⟩ := pathTyped_expand hr.twf hpt
  have he := exprToE_correct' code sc e t off s σ hc.append_left.append_left hpc hr hwe
  simp only [desugar, AoR.Ref.exec, sizeStmt]
  cases hev : AoR.Ref.evalTo s.env s.arrs e t with
  | err c q => rw [hev] at he; exact he
  | inexact => trivial
  | illFormed => trivial
  | ok v =>
    rw [hev] at he
    obtain ⟨τ, st, hp, hav, hrel, hss⟩ := he
    have hvt := AoRTy.evalTo_typed hr.twf hr.typed hr.arrsTyped hwe h4 hev
    have hvn := AoRTy.evalTo_noNul hr.nonul hr.arrsNoNul hwe hev
    have hcs' : CodeAt code τ.pc (compilePath x path p ++ [(CInstr.copyAToVarPath, p)]) := by
      have h := hc
      rw [List.append_assoc] at h
      have := h.append_right
      rw [hp]; exact this
    have hlt : x < s.env.length := by rw [hrel.vars.lenR]; exact (List.getElem?_eq_some_iff.mp h1).1
    cases path with
    | nil =>
      simp only [FTy.at] at h3
      injection h3 with h3; subst h3
      obtain ⟨o, ho⟩ : ∃ o, s.env[x]? = some o := ⟨_, List.getElem?_eq_getElem hlt⟩
      obtain ⟨w0, hvx⟩ : ∃ w0, τ.vars[x]? = some w0 := ⟨_, List.getElem?_eq_getElem (hrel.lt h1)⟩
      have hst := store_path_steps code x [] p τ w0 τ.regs.a hcs' hvx rfl
      simp only [ho, StmtPost]
      refine ⟨_, st.trans hst, by simp only [storePathSt, hp, List.length_nil]; omega, ?_,
        hss.trans (SameStacks.storePathSt τ x [] _)⟩
      exact hrel.storeVar h1 h2 hvt hav hvn rfl rfl rfl rfl rfl rfl rfl rfl
    | cons f rest =>
      rcases hrel.vars.at_ x st0 h1 with ⟨e1, _⟩ | ⟨rv, w, e1, e2, e3⟩
      · simp only [e1, StmtPost]
      · have hty := envTyped_lookup hrel.typed h1 h2 e1
        obtain ⟨v', w', g1, g2, g3, g4⟩ :=
          RbThm.RecLSim.path_set_rel hrel.twf (f :: rest) root ft rv w v τ.regs.a (tyIn_expand h2) hty e3 h3 hvt hav
        have hst := store_path_steps code x (f :: rest) p τ w w' hcs' e2 g2
        simp only [e1, g1, StmtPost]
        refine ⟨_, st.trans hst, by simp only [storePathSt, hp, List.length_cons]; omega, ?_,
          hss.trans (SameStacks.storePathSt τ x _ _)⟩
        exact hrel.storeVar h1 h2 g4 g3 (noNul_setPath _ rv v v' (hrel.nonul x rv e1) hvn g1) rfl rfl rfl rfl rfl rfl rfl rfl

/-- `DIM x AS <type>`: the variable becomes the fresh value of its type — zero / `n` spaces / a record of fresh fields -/
theorem case_dim (code : Code) (fuel : Nat) (ih : IHle code fuel) (x : Nat) (t : ETy) (p : Pos) (sc : Scope)
    (sfx : String) (off : Nat) (s : St) (σ : Vm)
    (hc : CodeAt code off (compileStmt sfx off (.dim x t p))) (hpc : σ.pc = off)
    (hr : Rel sc s σ) (hw : Wf sc (.dim x t p)) (ha : ActInv σ) :
    StmtPost code sc (sizeStmt (.dim x t p)) off σ (AoR.Ref.exec (fuel + 1) (desugar (.dim x t p)) s) := by
  simp only [compileStmt] at hc
  simp only [Wf] at hw
  obtain ⟨hx, hsome⟩ := hw
  subst hpc
  obtain ⟨ft, hft⟩ := Option.isSome_iff_exists.mp hsome
  simp only [desugar, sizeStmt, AoR.Ref.exec, hr.types, hft, StmtPost]
  -- the allocation puts the tree of the type into A
  have h0 := hc.head
  let σ1 : Vm := Vm.advance (Vm.setRA σ (allocTy ft))
  have s1 : Vm.step code σ = .next σ1 := by
    cases t with
    | sc q =>
      simp only [expand] at hft; injection hft with hft; subst hft
      simp only [Vm.step, h0]; rfl
    | fix n =>
      simp only [expand] at hft; injection hft with hft; subst hft
      simp only [Vm.step, h0]; rfl
    | udt k =>
      simp only [expand] at hft
      cases hk : sc.types[k]? with
      | none => simp [hk] at hft
      | some fs =>
        simp only [hk, Option.map_some] at hft; injection hft with hft; subst hft
        have hk' : σ.types[k]? = some fs := by rw [hr.vtypes]; exact hk
        simp only [Vm.step, h0, hk']; rfl
  have hcs : CodeAt code σ1.pc (compilePath x [] p ++ [(CInstr.copyAToVarPath, p)]) := hc.tail
  have hrel1 : Rel sc s σ1 := (hr.setRA _).advance
  obtain ⟨w0, hvx⟩ : ∃ w0, σ1.vars[x]? = some w0 := ⟨_, List.getElem?_eq_getElem (hrel1.lt hx)⟩
  have hst := store_path_steps code x [] p σ1 w0 (allocTy ft) hcs hvx rfl
  refine ⟨_, Steps.cons s1 hst, by simp only [storePathSt, σ1, Vm.advance, Vm.setRA, List.length_nil], ?_,
    ⟨rfl, rfl, rfl, rfl, rfl, id⟩⟩
  exact hrel1.storeVar hx hft (fresh_typed ft) (RbThm.RecLSim.fresh_rel hr.twf ft (tyIn_expand hft)) (noNul_fresh ft)
    rfl rfl rfl rfl rfl rfl rfl rfl

theorem case_end (code : Code) (fuel : Nat) (p : Pos)
    (sc : Scope) (sfx : String) (off : Nat) (s : St) (σ : Vm)
    (hc : CodeAt code off (compileStmt sfx off (.end_ p))) (hpc : σ.pc = off)
    (hr : Rel sc s σ) :
    StmtPost code sc (sizeStmt (.end_ p)) off σ (AoR.Ref.exec (fuel + 1) (desugar (.end_ p)) s) := by
  simp only [compileStmt] at hc
  subst hpc
  have h0 : code[σ.pc]? = some (CInstr.halt, p) := hc.head
  simp only [desugar, AoR.Ref.exec, StmtPost]
  exact ⟨σ, σ, Steps.refl σ, by simp only [Vm.step, h0], hr.out⟩

end RbThm.AoRSim
