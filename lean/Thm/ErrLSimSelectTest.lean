import Thm.ErrLSimExpr
import Thm.JmpLSimSelect
/-!
Error layer, simulation part, SELECT CASE, first half (jump-layer level): **the state in which a failing expression / CASE
item fails**.

The jump layer's expression lemmas (`compileExpr_correct`, `caseExpr_correct`, `conds_correct`) say of a failing run only
that it fails (`ErrsWith`: the failing state is hidden behind an existential).  The error layer *continues* after a failure
(`RESUME` runs the unit again on the stacks the failing instruction left), so it has to know the four stacks of the failing
state:

* `esel_expr_fails_np`: a `NoPending` expression (premise clause P2) whose evaluation is an error fails in a state that differs
  from the start state in the program counter and the registers only: no operand is pending on the value stack (the
  refinement `X = []` of `ErrLSim.expr_fails` in `Thm/ErrLSimExpr.lean`, whose pieces `fail_resA` / `bin_tail_fails` it reuses);
* `esel_conds_fails`: the items of a CASE (all `CaseNoPending`) fail with every stack as at the start of the items: the
  selector is still on top of the value stack.

Stated over the jump layer's `Steps code` for an arbitrary `code` (instantiated with `ErrLSim.pad` in `Thm/ErrLSimSelect.lean`).
-/
namespace RbThm.JmpLSim
set_option linter.unusedVariables false
set_option linter.unusedSimpArgs false
open RbModel RbModel.Num RbModel.JmpL RbModel.JmpL.Compile RbModel.JmpL.Vm
open RbModel.Ast (Pos PrintItem CaseExpr)
open RbModel.Ref (St ERes eval evalTo codeOf codeOutOfData codeZeroStep zeroOf truthy printValue endsInSeparator StepSign
  binStep lift)
open RbModel.JmpL.Ref
open RbThm.JmpLLen
open RbThm.C01Sim (Typed SlotsBelow ExprWt NumericAt NumericCond ItemsSlots CaseSlots CondsSlots)
open RbThm.ErrLSim (Atomic NoPending CaseNoPending)

/-- an atomic expression (a literal or a variable) has a value -/
theorem esel_atomic_ok (env : List Val) : ∀ e : Ast.Expr, Atomic e → ∃ v, eval env e = .ok v
  | .lit v _, _ => ⟨v, rfl⟩
  | .var x t _, _ => ⟨_, rfl⟩
  | .paren e _, h => by
    obtain ⟨v, hv⟩ := esel_atomic_ok env e h
    exact ⟨v, by simpa [eval] using hv⟩
  | .un _ _ _, h => by simp [Atomic] at h
  | .bin _ _ _ _ _, h => by simp [Atomic] at h

/-- **where a `NoPending` expression fails** (premise clause P2): when `eval e` is an error the run reaches the failing
instruction with every stack as at the start — the refinement `X = []` of `ErrLSim.expr_fails` (the right operand of every
operator is atomic and cannot fail, so no left operand is pending when something fails) -/
theorem esel_expr_fails_np (code : Code) (e : Ast.Expr) :
    ∀ (off : Nat) (σ : Vm) (c : Nat) (q : Pos), CodeAt code off (compileExpr e) → σ.pc = off →
      SlotsBelow σ.env.length e → NoPending e → eval σ.env e = .err c q →
      ∃ τ, Steps code σ τ ∧ Vm.step code τ = .error c q τ ∧ SelKeeps σ τ := by
  induction e with
  | lit v p => intro off σ c q _ _ _ _ hev; simp [eval] at hev
  | var x t p => intro off σ c q _ _ _ _ hev; simp [eval] at hev
  | paren e p ih =>
    intro off σ c q hc hpc hs hnp hev
    exact ih off σ c q (by simpa [compileExpr] using hc) hpc hs hnp (by simpa [eval] using hev)
  | un op e p ih =>
    intro off σ c q hc hpc hs hnp hev
    have key : ∀ (i : CInstr) (f : Val → Res Val), CodeAt code off (compileExpr e ++ [(i, p)]) →
        (∀ τ : Vm, τ.pc = off + (compileExpr e).length → Vm.step code τ = resA τ p (f τ.regs.a)) →
        ((eval σ.env e).bind fun v => lift p (f v)) = .err c q →
        ∃ τ, Steps code σ τ ∧ Vm.step code τ = .error c q τ ∧ SelKeeps σ τ := by
      intro i f hc' hstep hev'
      cases he : eval σ.env e with
      | err c' q' =>
        rw [he] at hev'
        simp only [ERes.bind] at hev'
        injection hev' with e1 e2
        subst e1; subst e2
        exact ih off σ c' q' hc'.append_left hpc hs hnp he
      | inexact => rw [he] at hev'; simp [ERes.bind] at hev'
      | ok v =>
        rw [he] at hev'
        simp only [ERes.bind] at hev'
        have hce := compileExpr_correct code e off σ hc'.append_left hpc hs
        simp only [ExprSpec, he] at hce
        obtain ⟨b, st⟩ := hce
        exact ⟨afterExpr σ (off + (compileExpr e).length) v b, st,
          RbThm.ErrLSim.fail_resA (r := f v) (hstep _ rfl) hev', SelKeeps.afterExpr _ _ _ _⟩
    cases op with
    | neg =>
      simp only [compileExpr] at hc
      have hi : code[off + (compileExpr e).length]? = some (CInstr.negateA, p) := hc.append_right.head
      exact key CInstr.negateA negate hc (by intro τ h1; simp only [Vm.step, h1, hi]) (by simpa [eval] using hev)
    | not =>
      simp only [compileExpr] at hc
      have hi : code[off + (compileExpr e).length]? = some (CInstr.notA, p) := hc.append_right.head
      exact key CInstr.notA unaryNot hc (by intro τ h1; simp only [Vm.step, h1, hi]) (by simpa [eval] using hev)
  | bin op l r t p ihl ihr =>
    intro off σ c q hc hpc hs hnp hev
    simp only [compileExpr] at hc
    obtain ⟨hsl, hsr⟩ := hs
    obtain ⟨hnl, har⟩ := hnp
    have hcl : CodeAt code off (compileExpr l) := hc.append_left.append_left.append_left.append_left
    have hpush : code[off + (compileExpr l).length]? = some (CInstr.pushA, p) :=
      hc.append_left.append_left.append_left.append_right.head
    have hcr : CodeAt code (off + (compileExpr l).length + 1) (compileExpr r) := by
      have := hc.append_left.append_left.append_right
      simpa [Nat.add_assoc] using this
    have hct : CodeAt code (off + (compileExpr l).length + 1 + (compileExpr r).length)
        ([(CInstr.copyAToB, p), (CInstr.popA, p), (CInstr.bin op, p)] ++
          (if op = .divide then [(CInstr.cast t, p)] else [])) := by
      have h1 := hc.append_left.append_right
      have h2 := hc.append_right
      intro i hi
      by_cases h3 : i < 3
      · have := h1 i (by simpa using h3)
        simp only [List.length_append, List.length_singleton] at this
        rw [List.getElem?_append_left (by simpa using h3)]
        rw [← this]; congr 1; omega
      · have := h2 (i - 3) (by simp at hi ⊢; omega)
        simp only [List.length_append, List.length_cons, List.length_nil] at this
        rw [List.getElem?_append_right (by simp; omega)]
        simp only [List.length_cons, List.length_nil]
        rw [← this]; congr 1; omega
    simp only [eval] at hev
    cases hl : eval σ.env l with
    | err c' q' =>
      rw [hl] at hev
      simp only [ERes.bind] at hev
      injection hev with e1 e2
      subst e1; subst e2
      exact ihl off σ c' q' hcl hpc hsl hnl hl
    | inexact => rw [hl] at hev; simp [ERes.bind] at hev
    | ok a =>
      rw [hl] at hev
      simp only [ERes.bind] at hev
      have ihl' := compileExpr_correct code l off σ hcl hpc hsl
      simp only [ExprSpec, hl] at ihl'
      obtain ⟨b1, st1⟩ := ihl'
      let σ2 : Vm := { afterExpr σ (off + (compileExpr l).length) a b1 with
        pc := off + (compileExpr l).length + 1, vals := a :: σ.vals }
      have spush : Vm.step code (afterExpr σ (off + (compileExpr l).length) a b1) = .next σ2 := by
        simp only [Vm.step, afterExpr, hpush]; rfl
      have henv : σ2.env = σ.env := rfl
      -- the right operand is atomic: it has a value
      obtain ⟨bv, hr⟩ := esel_atomic_ok σ.env r har
      rw [hr] at hev
      simp only [ERes.bind] at hev
      have ihr' := compileExpr_correct code r (off + (compileExpr l).length + 1) σ2 hcr rfl hsr
      simp only [ExprSpec] at ihr'
      rw [henv, hr] at ihr'
      obtain ⟨b2, st2⟩ := ihr'
      let σ3 : Vm := afterExpr σ2 (off + (compileExpr l).length + 1 + (compileExpr r).length) bv b2
      obtain ⟨τ', st', hs', f1, f2, f3, f4, f5, f6, f7, f8, f9, f10⟩ :=
        RbThm.ErrLSim.bin_tail_fails code op t p _ σ3 a bv σ.vals hct rfl rfl rfl hev
      have pre : Steps code σ σ3 := (st1.trans (Steps.one spush)).trans st2
      exact ⟨τ', pre.trans st', hs', ⟨f7, f10, f8, f9, f1, f2, f3, f4, f5, f6⟩⟩

/-- the comparison of the selector with an item's value fails with the selector back on the value stack -/
theorem esel_cmp_tail_fails (code : Code) (op : Op) (hop : SelRelOp op) (p : Pos) (next q : Nat) (τ : Vm) (subj v : Val)
    (vs : List Val)
    (hc : CodeAt code q [(CInstr.copyAToB, p), (CInstr.popA, p), (CInstr.pushA, p), (CInstr.bin op, p),
      (CInstr.jumpIfFalse next, p)])
    (hpc : τ.pc = q) (ha : τ.regs.a = v) (hv : τ.vals = subj :: vs) {c : Nat} {r : Pos}
    (hf : relTest p op subj v = .error (.error c r)) :
    ∃ τ', Steps code τ τ' ∧ Vm.step code τ' = .error c r τ' ∧ SelKeeps τ τ' := by
  subst hpc
  have h0 : code[τ.pc]? = some (CInstr.copyAToB, p) := hc.head
  have h1 : code[τ.pc + 1]? = some (CInstr.popA, p) := hc.tail.head
  have h2 : code[τ.pc + 1 + 1]? = some (CInstr.pushA, p) := hc.tail.tail.head
  have h3 : code[τ.pc + 1 + 1 + 1]? = some (CInstr.bin op, p) := hc.tail.tail.tail.head
  let τ1 : Vm := advance { τ with regs := { τ.regs with b := τ.regs.a } }
  let τ2 : Vm := advance { setA τ1 subj with vals := vs }
  let τ3 : Vm := advance { τ2 with vals := subj :: vs }
  have s1 : Vm.step code τ = .next τ1 := by simp only [Vm.step, h0]; rfl
  have s2 : Vm.step code τ1 = .next τ2 := by simp only [Vm.step, τ1, advance, h1, hv]; rfl
  have s3 : Vm.step code τ2 = .next τ3 := by simp only [Vm.step, τ2, τ1, advance, setA, h2]; rfl
  have s4 : Vm.step code τ3 = resA τ3 p (binInstr op subj v) := by
    simp only [Vm.step, τ3, τ2, τ1, advance, setA, h3, ha]
  have st : Steps code τ τ3 := Steps.cons s1 (Steps.cons s2 (Steps.one s3))
  rw [sel_binInstr_rel hop] at s4
  simp only [relTest] at hf
  cases ht : tryCmp subj v with
  | ok o => rw [ht] at hf; simp at hf
  | inexact => rw [ht] at hf; simp at hf
  | err e =>
    rw [ht] at hf
    simp only [Except.error.injEq, Outcome.error.injEq] at hf
    obtain ⟨e1, e2⟩ := hf
    subst e1; subst e2
    refine ⟨τ3, st, ?_, ⟨rfl, hv.symm, rfl, rfl, rfl, rfl, rfl, rfl, rfl, rfl⟩⟩
    rw [s4, ht]; rfl

/-- one comparison of the selector with a `NoPending` expression -/
theorem esel_item_fails (code : Code) (op : Op) (hop : SelRelOp op) (p : Pos) (next off : Nat) (τ : Vm) (subj : Val)
    (vs : List Val) (e : Ast.Expr)
    (hc : CodeAt code off (compileExpr e ++ [(CInstr.copyAToB, p), (CInstr.popA, p), (CInstr.pushA, p),
      (CInstr.bin op, p), (CInstr.jumpIfFalse next, p)]))
    (hpc : τ.pc = off) (hv : τ.vals = subj :: vs) (hs : SlotsBelow τ.env.length e) (hnp : NoPending e) {c : Nat} {r : Pos}
    (hf : selItemTest τ.env p op subj e = .error (.error c r)) :
    ∃ τ', Steps code τ τ' ∧ Vm.step code τ' = .error c r τ' ∧ SelKeeps τ τ' := by
  simp only [selItemTest, evalE] at hf
  cases hev : eval τ.env e with
  | err c' q' =>
    rw [hev] at hf
    simp only [Except.error.injEq, Outcome.error.injEq] at hf
    obtain ⟨e1, e2⟩ := hf
    subst e1; subst e2
    exact esel_expr_fails_np code e off τ c' q' hc.append_left hpc hs hnp hev
  | inexact => rw [hev] at hf; simp at hf
  | ok v =>
    rw [hev] at hf
    simp only at hf
    have he := compileExpr_correct code e off τ hc.append_left hpc hs
    simp only [ExprSpec, hev] at he
    obtain ⟨b, st⟩ := he
    obtain ⟨τ', st', hs', hk⟩ := esel_cmp_tail_fails code op hop p next (off + (compileExpr e).length)
      (afterExpr τ (off + (compileExpr e).length) v b) subj v vs hc.append_right rfl rfl hv hf
    exact ⟨τ', st.trans st', hs', (SelKeeps.afterExpr _ _ _ _).trans hk⟩

/-- one CASE item -/
theorem esel_caseExpr_fails (code : Code) (p : Pos) (next off : Nat) (τ : Vm) (subj : Val) (vs : List Val)
    (c : CaseExpr) (hc : CodeAt code off (compileCaseExpr p next c))
    (hpc : τ.pc = off) (hv : τ.vals = subj :: vs) (hs : CaseSlots τ.env.length c) (hnp : CaseNoPending c) {cd : Nat} {r : Pos}
    (hf : caseMatches τ.env p subj c = .error (.error cd r)) :
    ∃ τ', Steps code τ τ' ∧ Vm.step code τ' = .error cd r τ' ∧ SelKeeps τ τ' := by
  cases c with
  | simple e =>
    simp only [compileCaseExpr] at hc
    rw [caseMatches_simple] at hf
    exact esel_item_fails code .equal (.inr (.inr (.inl rfl))) p next off τ subj vs e hc hpc hv hs hnp hf
  | is op e =>
    simp only [compileCaseExpr] at hc
    rw [caseMatches_is] at hf
    exact esel_item_fails code op hs.1 p next off τ subj vs e hc hpc hv hs.2 hnp hf
  | range lo hi =>
    simp only [compileCaseExpr] at hc
    rw [caseMatches_range] at hf
    obtain ⟨hslo, hshi⟩ := hs
    obtain ⟨hnlo, hnhi⟩ := hnp
    cases ht1 : selItemTest τ.env p .greaterOrEqual subj lo with
    | error o =>
      rw [ht1] at hf
      simp only [Except.error.injEq] at hf
      subst hf
      exact esel_item_fails code .greaterOrEqual (.inr (.inr (.inr (.inl rfl)))) p next off τ subj vs lo
        hc.append_left.append_left hpc hv hslo hnlo ht1
    | ok b =>
      rw [ht1] at hf
      cases b with
      | false => simp at hf
      | true =>
        simp only at hf
        have h1 := sel_item_correct code .greaterOrEqual (.inr (.inr (.inr (.inl rfl)))) p next off τ subj vs lo
          hc.append_left.append_left hpc hv hslo
        rw [ht1] at h1
        simp only [SelTestSpec] at h1
        obtain ⟨τ', st, hp', hk⟩ := h1
        have hc2 : CodeAt code (off + (compileExpr lo).length + 5)
            (compileExpr hi ++ [(CInstr.copyAToB, p), (CInstr.popA, p), (CInstr.pushA, p),
              (CInstr.bin .lessOrEqual, p), (CInstr.jumpIfFalse next, p)]) := by
          have h' : CodeAt code off ((compileExpr lo ++ [(CInstr.copyAToB, p), (CInstr.popA, p), (CInstr.pushA, p),
              (CInstr.bin .greaterOrEqual, p), (CInstr.jumpIfFalse next, p)]) ++
              (compileExpr hi ++ [(CInstr.copyAToB, p), (CInstr.popA, p), (CInstr.pushA, p),
              (CInstr.bin .lessOrEqual, p), (CInstr.jumpIfFalse next, p)])) := by
            simpa only [List.append_assoc] using hc
          have := h'.append_right
          simp only [List.length_append, List.length_cons, List.length_nil] at this
          have e : off + ((compileExpr lo).length + (0 + 1 + 1 + 1 + 1 + 1)) = off + (compileExpr lo).length + 5 := by
            omega
          rw [e] at this
          exact this
        obtain ⟨τ'', st2, hs2, hk2⟩ := esel_item_fails code .lessOrEqual (.inr (.inl rfl)) p next _ τ' subj vs hi hc2 hp'
          (by rw [hk.vals]; exact hv) (by rw [hk.env]; exact hshi) hnhi (by rw [hk.env]; exact hf)
        exact ⟨τ'', st.trans st2, hs2, hk.trans hk2⟩

/-- **where the items of a CASE fail**: with every stack as at the start of the items (the selector on top of the value
stack); needs premise clause P2 (`CaseNoPending`) -/
theorem esel_conds_fails (code : Code) (p : Pos) (sfx : String) (bi nextCase stmts : Nat) (subj : Val) (vs : List Val) :
    ∀ (conds : List CaseExpr) (off ei : Nat) (τ : Vm), conds ≠ [] →
      CodeAt code off (compileConds p sfx bi nextCase stmts off ei conds) → stmts = off + sizeConds conds →
      τ.pc = off → τ.vals = subj :: vs → CondsSlots τ.env.length conds → (∀ c ∈ conds, CaseNoPending c) →
      ∀ (cd : Nat) (r : Pos), anyMatches τ.env p subj conds = .error (.error cd r) →
      ∃ τ', Steps code τ τ' ∧ Vm.step code τ' = .error cd r τ' ∧ SelKeeps τ τ'
  | [], _, _, _, hne, _, _, _, _, _, _, _, _, _ => absurd rfl hne
  | [c], off, ei, τ, _, hc, hst, hpc, hv, hs, hnp, cd, r, hf => by
    simp only [compileConds] at hc
    rw [anyMatches_cons] at hf
    cases hm : caseMatches τ.env p subj c with
    | error o =>
      rw [hm] at hf
      simp only [Except.error.injEq] at hf
      subst hf
      obtain ⟨τ', st, hs', hk⟩ := esel_caseExpr_fails code p nextCase off τ subj vs c hc hpc hv hs.1
        (hnp c (by simp)) hm
      exact ⟨τ', st, hs', hk⟩
    | ok b =>
      rw [hm] at hf
      cases b with
      | true => simp at hf
      | false => simp [anyMatches, pure, Except.pure] at hf
  | c :: d :: rest, off, ei, τ, _, hc, hst, hpc, hv, hs, hnp, cd, r, hf => by
    simp only [compileConds] at hc
    simp only [sizeConds] at hst
    have hcc : CodeAt code off (compileCaseExpr p (off + sizeCaseExpr c + 1) c) :=
      hc.append_left.append_left.append_left
    have hlab : code[off + sizeCaseExpr c + 1]? =
        some (CInstr.label (labelName ("case-multi-expr-" ++ toString bi ++ "-" ++ toString (ei + 1)) p sfx), p) := by
      have := hc.append_left.append_right.head
      simp only [List.length_append, List.length_singleton, len_caseExpr] at this
      exact this
    have hrest : CodeAt code (off + sizeCaseExpr c + 1 + 1)
        (compileConds p sfx bi nextCase stmts (off + sizeCaseExpr c + 1 + 1) (ei + 1) (d :: rest)) := by
      have := hc.append_right
      simp only [List.length_append, List.length_singleton, len_caseExpr] at this
      exact this
    rw [anyMatches_cons] at hf
    cases hm : caseMatches τ.env p subj c with
    | error o =>
      rw [hm] at hf
      simp only [Except.error.injEq] at hf
      subst hf
      exact esel_caseExpr_fails code p _ off τ subj vs c hcc hpc hv hs.1 (hnp c (by simp)) hm
    | ok b =>
      rw [hm] at hf
      cases b with
      | true => simp at hf
      | false =>
        simp only at hf
        have h := caseExpr_correct code p (off + sizeCaseExpr c + 1) off τ subj vs c hcc hpc hv hs.1
        rw [hm] at h
        simp only [SelTestSpec] at h
        obtain ⟨τ', st, hp', hk⟩ := h
        have hl' : code[τ'.pc]? = some (CInstr.label
            (labelName ("case-multi-expr-" ++ toString bi ++ "-" ++ toString (ei + 1)) p sfx), p) := by
          rw [hp']; exact hlab
        have s1 : Vm.step code τ' = .next (advance τ') := by simp only [Vm.step, hl']
        have hk1 : SelKeeps τ (advance τ') := hk.trans ⟨rfl, rfl, rfl, rfl, rfl, rfl, rfl, rfl, rfl, rfl⟩
        obtain ⟨τ'', st2, hs2, hk2⟩ := esel_conds_fails code p sfx bi nextCase stmts subj vs (d :: rest)
          (off + sizeCaseExpr c + 1 + 1) (ei + 1) (advance τ') (by simp) hrest (by omega) (by simp only [advance, hp'])
          (by rw [hk1.vals]; exact hv) (by rw [hk1.env]; exact hs.2) (fun c' hc' => hnp c' (by simp [hc']))
          cd r (by rw [hk1.env]; exact hf)
        exact ⟨τ'', (st.trans (Steps.one s1)).trans st2, hs2, hk1.trans hk2⟩

end RbThm.JmpLSim
