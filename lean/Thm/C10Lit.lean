import RbModel.Expr
/-!
C10, literals in `&H` / `&O` notation: `hex_oct_value`.

The model (`RbModel.Expr.hexLit` / `octLit` / `convertBits`, `RbModel.Bits.toInt`) transcribes
`process_hex` / `process_oct`, `BitVec::push_hex` / `push_oct`, `find_first_non_zero_bit`,
`convert_to_int_or_long_expr` and `bits_to_i32` / `bits_to_i64`.  The theorems say that for *every* digit
string the result is the two's-complement reading, by width, of the number the digits denote.

Helper lemmas first (section "bit lists"), property theorems at the end.
-/
namespace RbThm.C10
open RbModel.Expr RbModel

/-! ## Specification -/

/-- The property for `&H` / `&O`: the value `n` of the digit string, read as a 16-bit two's-complement
INTEGER if it has at most 16 significant bits, as a 32-bit two's-complement LONG if it has 17 to 32,
`Overflow` beyond. -/
def twosComplement (n : Nat) : Lit :=
  if n < 65536 then .int (if n < 32768 then (n : Int) else (n : Int) - 65536)
  else if n < 4294967296 then .long (if n < 2147483648 then (n : Int) else (n : Int) - 4294967296)
  else .overflow

/-! ## Bit lists (helper lemmas) -/

/-- Value of a bit list, most significant bit first, continuing from `acc`. -/
def bvalFrom (acc : Nat) (bs : List Bool) : Nat :=
  bs.foldl (fun a b => 2 * a + (if b then 1 else 0)) acc

/-- Value of a bit list, most significant bit first. -/
def bval (bs : List Bool) : Nat := bvalFrom 0 bs

theorem bvalFrom_cons (acc : Nat) (b : Bool) (bs : List Bool) :
    bvalFrom acc (b :: bs) = bvalFrom (2 * acc + (if b then 1 else 0)) bs := rfl

theorem bvalFrom_append (acc : Nat) (a b : List Bool) :
    bvalFrom acc (a ++ b) = bvalFrom (bvalFrom acc a) b := by
  simp [bvalFrom, List.foldl_append]

theorem bvalFrom_eq (bs : List Bool) : ∀ acc, bvalFrom acc bs = acc * 2 ^ bs.length + bval bs := by
  induction bs with
  | nil => intro acc; simp [bvalFrom, bval]
  | cons b bs ih =>
    intro acc
    have e1 := ih (2 * acc + (if b then 1 else 0))
    have e2 := ih (2 * 0 + (if b then 1 else 0))
    show bvalFrom (2 * acc + (if b then 1 else 0)) bs
        = acc * 2 ^ (bs.length + 1) + bvalFrom (2 * 0 + (if b then 1 else 0)) bs
    rw [e1, e2, Nat.pow_succ]
    have e3 : 2 * acc * 2 ^ bs.length = acc * (2 ^ bs.length * 2) := by
      rw [Nat.mul_comm 2 acc, Nat.mul_assoc, Nat.mul_comm 2]
    generalize 2 ^ bs.length = p at e3 ⊢
    cases b <;> simp only [Bool.false_eq_true, if_false, if_true, Nat.add_mul, Nat.zero_mul,
      Nat.mul_zero, Nat.one_mul, Nat.zero_add, Nat.add_zero] <;> omega

theorem bval_false_cons (bs : List Bool) : bval (false :: bs) = bval bs := by
  simp [bval, bvalFrom_cons]

theorem bval_true_cons (bs : List Bool) : bval (true :: bs) = 2 ^ bs.length + bval bs := by
  rw [bval, bvalFrom_cons, bvalFrom_eq]; simp

theorem bval_lt (bs : List Bool) : bval bs < 2 ^ bs.length := by
  induction bs with
  | nil => simp [bval, bvalFrom]
  | cons b bs ih =>
    cases b
    · rw [bval_false_cons, List.length_cons, Nat.pow_succ]; omega
    · rw [bval_true_cons, List.length_cons, Nat.pow_succ]; omega

/-- Complementing every bit complements the value. -/
theorem bval_not (bs : List Bool) : bval (bs.map (!·)) + bval bs + 1 = 2 ^ bs.length := by
  induction bs with
  | nil => simp [bval, bvalFrom]
  | cons b bs ih =>
    cases b
    · simp only [List.map_cons, Bool.not_false, bval_true_cons, bval_false_cons, List.length_map,
        List.length_cons, Nat.pow_succ]; omega
    · simp only [List.map_cons, Bool.not_true, bval_true_cons, bval_false_cons,
        List.length_cons, Nat.pow_succ]; omega

/-- `bits_to_i32` / `bits_to_i64`'s loop computes the value of the bits xor-ed with the sign. -/
theorem accLoop_eq (sign : Bool) (bs : List Bool) :
    ∀ x : Nat, Bits.accLoop sign bs (x : Int) = (bvalFrom x (bs.map (· != sign)) : Nat) := by
  induction bs with
  | nil => intro x; simp [Bits.accLoop, bvalFrom]
  | cons b bs ih =>
    intro x
    simp only [Bits.accLoop, List.map_cons, bvalFrom_cons]
    have : (2 * (x : Int) + if (b != sign) = true then 1 else 0)
        = ((2 * x + (if (b != sign) = true then 1 else 0) : Nat) : Int) := by
      split <;> simp
    rw [this, ih]

/-- A vector with a 0 in front reads as the plain value. -/
theorem toInt_false_cons (bs : List Bool) : Bits.toInt (false :: bs) = (bval bs : Int) := by
  have h := accLoop_eq false bs 0
  simp only [Int.natCast_zero] at h
  have e : bs.map (· != false) = bs := by
    induction bs with
    | nil => rfl
    | cons b bs ih => simp
  simp only [Bits.toInt, Bool.false_eq_true, if_false, h, e, bval]

/-- A vector with a 1 in front reads as the value minus 2^length (two's complement). -/
theorem toInt_true_cons (bs : List Bool) :
    Bits.toInt (true :: bs) = (bval (true :: bs) : Int) - (2 ^ (bs.length + 1) : Nat) := by
  have h := accLoop_eq true bs 0
  simp only [Int.natCast_zero] at h
  have e : bs.map (· != true) = bs.map (!·) := by
    apply List.map_congr_left; intro b _; cases b <;> rfl
  have hn := bval_not bs
  simp only [Bits.toInt, if_true, h, e]
  rw [bval_true_cons, Nat.pow_succ]
  change -((bval (bs.map (!·)) : Nat) : Int) - 1 = _
  omega

/-- `find_first_non_zero_bit` answers `None` only on all-zero vectors. -/
theorem firstNonZero_none (v : List Bool) (h : firstNonZero v = none) : bval v = 0 := by
  induction v with
  | nil => rfl
  | cons b v ih =>
    cases b
    · simp only [firstNonZero, Option.map_eq_none_iff] at h
      rw [bval_false_cons, ih h]
    · simp [firstNonZero] at h

/-- ... and otherwise the index of the first 1: the slice from there starts with `true`, has the same
value as the whole vector, and the slice of the vector with one 0 pushed in front is that slice with
a 0 in front. -/
theorem firstNonZero_some (v : List Bool) :
    ∀ i, firstNonZero v = some i →
      ∃ w, v.drop i = true :: w ∧ (false :: v).drop i = false :: true :: w
        ∧ bval v = bval (true :: w) ∧ v.length - i = w.length + 1 := by
  induction v with
  | nil => intro i h; simp [firstNonZero] at h
  | cons b v ih =>
    intro i h
    cases b
    · simp only [firstNonZero, Option.map_eq_some_iff] at h
      obtain ⟨j, hj, rfl⟩ := h
      obtain ⟨w, h1, h2, h3, h4⟩ := ih j hj
      refine ⟨w, ?_, ?_, ?_, ?_⟩
      · simpa using h1
      · simpa using h2
      · rw [bval_false_cons, h3]
      · simp only [List.length_cons]; omega
    · simp only [firstNonZero, Option.some.injEq] at h
      subst h
      exact ⟨v, rfl, rfl, rfl, by simp⟩

theorem two_pow_le {a b : Nat} (h : a ≤ b) : 2 ^ a ≤ 2 ^ b := Nat.pow_le_pow_right (by decide) h

/-- **`convert_to_int_or_long_expr` is the two's-complement reading by width**, for every bit vector. -/
theorem convertBits_value (v : List Bool) : convertBits v = twosComplement (bval v) := by
  unfold convertBits
  cases hf : firstNonZero v with
  | none =>
    simp only [firstNonZero_none v hf, twosComplement]
    rfl
  | some i =>
    obtain ⟨w, h1, h2, h3, h4⟩ := firstNonZero_some v i hf
    have hlt := bval_lt w
    have hv : bval v = 2 ^ w.length + bval w := by rw [h3, bval_true_cons]
    simp only [h4]
    have hne : ¬ (w.length + 1 = 0) := by omega
    rw [if_neg hne]
    by_cases c16 : w.length + 1 ≤ 16
    · rw [if_pos c16]
      by_cases c15 : w.length + 1 < 16
      · -- fewer than 16 significant bits: a 0 is pushed in front
        simp only [c15, if_true, h2, toInt_false_cons]
        have hp : 2 ^ (w.length + 1) ≤ 2 ^ 15 := two_pow_le (by omega)
        rw [Nat.pow_succ] at hp
        have hb : bval v < 32768 := by rw [hv]; omega
        unfold twosComplement
        rw [if_pos (by omega), if_pos hb, h3]
      · -- exactly 16: the leading 1 is the sign
        have hw : w.length = 15 := by omega
        rw [if_neg c15, h1, toInt_true_cons, hw]
        rw [hw] at hv hlt
        have hb1 : 32768 ≤ bval v := by rw [hv]; omega
        have hb2 : bval v < 65536 := by rw [hv]; omega
        unfold twosComplement
        rw [if_pos hb2, if_neg (by omega), ← h3]
        congr 1
    · rw [if_neg c16]
      by_cases c32 : w.length + 1 ≤ 32
      · rw [if_pos c32]
        have hlo : 2 ^ 16 ≤ 2 ^ w.length := two_pow_le (by omega)
        by_cases c31 : w.length + 1 < 32
        · simp only [c31, if_true, h2, toInt_false_cons]
          have hp : 2 ^ (w.length + 1) ≤ 2 ^ 31 := two_pow_le (by omega)
          rw [Nat.pow_succ] at hp
          have hb : bval v < 2147483648 := by rw [hv]; omega
          unfold twosComplement
          rw [if_neg (by omega), if_pos (by omega), if_pos hb, h3]
        · have hw : w.length = 31 := by omega
          rw [if_neg c31, h1, toInt_true_cons, hw]
          rw [hw] at hv hlt
          have hb1 : 2147483648 ≤ bval v := by rw [hv]; omega
          have hb2 : bval v < 4294967296 := by rw [hv]; omega
          unfold twosComplement
          rw [if_neg (by omega), if_pos hb2, if_neg (by omega), ← h3]
          congr 1
      · rw [if_neg c32]
        have hlo : 2 ^ 32 ≤ 2 ^ w.length := two_pow_le (by omega)
        unfold twosComplement
        rw [if_neg (by omega), if_neg (by omega)]

/-! ## Digits to bits (helper lemmas) -/

theorem pushHex_value : ∀ d, d < 16 → bval (pushHex d) = d := by decide
theorem pushOct_value : ∀ d, d < 8 → bval (pushOct d) = d := by decide

/-- Value of a digit string continuing from `acc` (Horner). -/
def digitsValFrom (base acc : Nat) (ds : List Nat) : Nat := ds.foldl (fun a d => base * a + d) acc

theorem digitsVal_eq (base : Nat) (ds : List Nat) : digitsVal base ds = digitsValFrom base 0 ds := rfl

/-- Pushing the bits of each digit computes the digit string's value. -/
theorem bvalFrom_flatMap (k base : Nat) (push : Nat → List Bool) (hb : base = 2 ^ k)
    (hlen : ∀ d, (push d).length = k) (hval : ∀ d, d < base → bval (push d) = d) (ds : List Nat) :
    ∀ acc, (∀ d ∈ ds, d < base) → bvalFrom acc (ds.flatMap push) = digitsValFrom base acc ds := by
  induction ds with
  | nil => intro acc _; rfl
  | cons d ds ih =>
    intro acc h
    have hd : d < base := h d (by simp)
    rw [List.flatMap_cons, bvalFrom_append, bvalFrom_eq (push d), hlen, hval d hd,
      ih _ (fun x hx => h x (by simp [hx]))]
    simp only [digitsValFrom, List.foldl_cons, hb, Nat.mul_comm]

/-- Leading `0` digits do not change the value (`skip_while(|ch| *ch == '0')`). -/
theorem digitsVal_dropZeros (base : Nat) (ds : List Nat) :
    digitsVal base (ds.dropWhile (· == 0)) = digitsVal base ds := by
  induction ds with
  | nil => rfl
  | cons d ds ih =>
    by_cases h : d = 0
    · subst h
      simp only [List.dropWhile_cons, beq_self_eq_true, if_true, ih]
      simp [digitsVal]
    · have : (d == 0) = false := by simp [h]
      simp [this]

theorem mem_dropWhile {α} (p : α → Bool) (l : List α) (x : α) (h : x ∈ l.dropWhile p) : x ∈ l :=
  (List.dropWhile_sublist p).subset h

/-! ## The property -/

/-- **`hex_oct_value`, hexadecimal.** For every string of hex digits (any length, leading zeros or
not), `&H<digits>` is the two's-complement reading by width of the number the digits denote:
INTEGER for at most 16 significant bits, LONG for 17 to 32, `Overflow` beyond. -/
theorem hex_value (ds : List Nat) (h : ∀ d ∈ ds, d < 16) :
    hexLit ds = twosComplement (digitsVal 16 ds) := by
  unfold hexLit
  rw [convertBits_value, bval,
    bvalFrom_flatMap 4 16 pushHex (by decide) (fun d => rfl) pushHex_value _ 0
      (fun d hd => h d (mem_dropWhile _ _ _ hd)),
    ← digitsVal_eq, digitsVal_dropZeros]

/-- **`hex_oct_value`, octal.** -/
theorem oct_value (ds : List Nat) (h : ∀ d ∈ ds, d < 8) :
    octLit ds = twosComplement (digitsVal 8 ds) := by
  unfold octLit
  rw [convertBits_value, bval,
    bvalFrom_flatMap 3 8 pushOct (by decide) (fun d => rfl) pushOct_value _ 0
      (fun d hd => h d (mem_dropWhile _ _ _ hd)),
    ← digitsVal_eq, digitsVal_dropZeros]

/-- Both radices in one statement. -/
theorem hex_oct_value :
    (∀ ds : List Nat, (∀ d ∈ ds, d < 16) → hexLit ds = twosComplement (digitsVal 16 ds))
      ∧ (∀ ds : List Nat, (∀ d ∈ ds, d < 8) → octLit ds = twosComplement (digitsVal 8 ds)) :=
  ⟨hex_value, oct_value⟩

/-- The hypotheses are satisfiable and every branch of the specification is reached:
`&H7FFF`, `&H8000`, `&H0FFFF`, `&H10000`, `&H80000000`, `&HFFFFFFFF`, `&H100000000`, `&O177777`,
`&O200000`, `&O40000000000`. -/
example :
    hexLit [7, 15, 15, 15] = .int 32767 ∧ hexLit [8, 0, 0, 0] = .int (-32768)
      ∧ hexLit [0, 15, 15, 15, 15] = .int (-1) ∧ hexLit [1, 0, 0, 0, 0] = .long 65536
      ∧ hexLit [8, 0, 0, 0, 0, 0, 0, 0] = .long (-2147483648)
      ∧ hexLit [15, 15, 15, 15, 15, 15, 15, 15] = .long (-1)
      ∧ hexLit [1, 0, 0, 0, 0, 0, 0, 0, 0] = .overflow
      ∧ octLit [1, 7, 7, 7, 7, 7] = .int (-1) ∧ octLit [2, 0, 0, 0, 0, 0] = .long 65536
      ∧ octLit [4, 0, 0, 0, 0, 0, 0, 0, 0, 0, 0, 0] = .overflow
      ∧ twosComplement (digitsVal 16 [8, 0, 0, 0]) = .int (-32768) := by decide

end RbThm.C10
