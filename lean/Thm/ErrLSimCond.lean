import Thm.ErrLSimBase
import Thm.ErrLSimExpr
/-!
Error layer, simulation part: **a condition as a resume unit** (shared by WHILE, DO, IF and ELSEIF).

The code `<c>; JumpIfFalse tgt` placed at `a` inside a resume unit `[ustart, unext)` does what `ErrL.Ref.condUnit` says:
it decides (`go b`: the run is behind the `JumpIfFalse` or at its target — or, when RESUME NEXT / ON ERROR RESUME NEXT skipped
the failing condition, at the entry `unext` that follows the unit, and the condition counts as `skipAs`), it is run again
(`again`: the run is at `ustart`), or it leaves the construct (`out o`).
-/
namespace RbThm.ErrLSim
set_option linter.unusedVariables false
set_option linter.unusedSimpArgs false
open RbModel RbModel.Num RbModel.ErrL RbModel.ErrL.Compile RbModel.ErrL.Vm
open RbModel.JmpL.Compile (CInstr Code labelName compileExpr compileExprTo storeVar loadVar compileItems compileConds
  sizeCaseExpr sizeItems sizeConds Dp lookupNat lookupDepth stepSuffix maxPos)
open RbModel.JmpL.Vm (Vm truncTop)
open RbModel.Ast (Pos PrintItem CaseExpr)
open RbModel.Ref (St)
open RbModel.ErrL.Ref
open RbThm.ErrLLen
open RbThm.C01Sim (Typed SlotsBelow ExprWt NumericAt NumericCond ItemsSlots CaseSlots CondsSlots)

/-- the code of an expression contains no `BuiltInRead` -/
theorem cu_expr_noread : ∀ (e : Ast.Expr), ∀ ip ∈ compileExpr e, ip.1 ≠ CInstr.builtInRead
  | .lit v p => by simp [compileExpr]
  | .var x t p => by simp [compileExpr]
  | .un .neg e p => by
    intro ip h
    simp only [compileExpr, List.mem_append, List.mem_singleton] at h
    rcases h with h | h
    · exact cu_expr_noread e ip h
    · subst h; simp
  | .un .not e p => by
    intro ip h
    simp only [compileExpr, List.mem_append, List.mem_singleton] at h
    rcases h with h | h
    · exact cu_expr_noread e ip h
    · subst h; simp
  | .paren e p => by
    intro ip h
    simp only [compileExpr] at h
    exact cu_expr_noread e ip h
  | .bin op l r t p => by
    intro ip h
    simp only [compileExpr, List.mem_append] at h
    rcases h with (((h | h) | h) | h) | h
    · exact cu_expr_noread l ip h
    · simp at h; subst h; simp
    · exact cu_expr_noread r ip h
    · simp at h; rcases h with h | h | h <;> (subst h; simp)
    · split at h
      · simp at h; subst h; simp
      · simp at h

theorem cu_cond_noread (c : Ast.Expr) (tgt : Nat) (p : Pos) :
    ∀ ip ∈ compileExpr c ++ [(CInstr.jumpIfFalse tgt, p)], ip.1 ≠ CInstr.builtInRead := by
  intro ip h
  simp only [List.mem_append, List.mem_singleton] at h
  rcases h with h | h
  · exact cu_expr_noread c ip h
  · subst h; simp

/-- the entry invariant after a run that kept the register and GOSUB stacks, left the value stack high enough and
`last_error_address` as it was -/
theorem inv_after {C : Ctx} {d e vb gd : Nat} {σ τ : EVm} (hi : Inv C d e vb gd σ) (e1 : τ.b.regStack = σ.b.regStack)
    (e2 : ValsOk vb e 0 σ τ) (e4 : τ.b.gosubs = σ.b.gosubs) (e5 : HKeep σ τ) : Inv C d e vb gd τ :=
  hi.congr e1 e2.1 e4 e5.addr

/-- **a unit left by its failure** (`Ref.raise` answers `out o`): the specification `raise_correct` gives relative to the state
`y` in which the unit failed is one relative to the entry state `σ` of the construct, whose register, var-path and GOSUB
stacks `y` still has -/
theorem out_of_unit {C : Ctx} {d e vb : Nat} {σ y : EVm} {s' : ESt} {o : Outcome} (hst : Steps C.prog σ y)
    (h1 : y.b.regStack = σ.b.regStack) (h3 : y.b.paths = σ.b.paths) (h4 : y.b.gosubs = σ.b.gosubs)
    (h5 : y.errAddr = σ.errAddr) (n1 : o ≠ .normal) (n2 : ∀ p, o ≠ .ret p) (n3 : ∀ k, o ≠ .resumed k) (n4 : o ≠ .notHere)
    (n5 : ∀ L, o = .jump L → y.errAddr = none) (hsp : ∀ fin nx, StmtSpec C d e vb fin nx y (s', o)) :
    ∀ fin nx, StmtSpec C d e vb fin nx σ (s', o) := by
  intro fin nx
  have := hsp fin nx
  cases o with
  | normal => exact absurd rfl n1
  | ret q => exact absurd rfl (n2 q)
  | resumed k => exact absurd rfl (n3 k)
  | notHere => exact absurd rfl n4
  | halted => obtain ⟨τ, υ, st, a, b⟩ := this; exact ⟨τ, υ, hst.trans st, a, b⟩
  | error c' p' => obtain ⟨τ, υ, st, a, b⟩ := this; exact ⟨τ, υ, hst.trans st, a, b⟩
  | jump L =>
    obtain ⟨τ, st, hp, hrτ, a1, ⟨a2, a2'⟩, a3, a4, a5⟩ := this
    refine ⟨τ, hst.trans st, hp, hrτ, by rw [a1, h1], ⟨a2, fun hne => ?_⟩, by rw [a3, h3], by rw [a4, h4],
      HKeep.of_none (h5.symm.trans (n5 L rfl)) (a5.addr.trans (n5 L rfl))⟩
    exact absurd (h5.symm.trans (n5 L rfl)) hne
  | inexact => trivial
  | outOfFuel => trivial
  | illFormed => trivial
  | unspec => trivial

/-- what leaves a condition unit does not depend on what the skipped condition counts as -/
theorem cu_condUnit_out {f : Nat} {P : Stmt} {gd : Nat} {c : Ast.Expr} {b b' : Bool} {s s1 : ESt} {o : Outcome}
    (h : condUnit f P gd c b s = (s1, .out o)) : condUnit f P gd c b' s = (s1, .out o) := by
  cases f with
  | zero => simpa only [condUnit] using h
  | succ f =>
    simp only [condUnit] at h ⊢
    cases hev : ErrL.Ref.evalCond s.st.env c with
    | ok bv => simp only [hev] at h; cases h
    | error fl =>
      cases fl with
      | inexact => simpa only [hev] using h
      | err code q =>
        simp only [hev] at h ⊢
        generalize Ref.raise f P gd code q s = r at h ⊢
        obtain ⟨s', dsp⟩ := r
        cases dsp with
        | again => cases h
        | next => cases h
        | out o' => exact h

/-- the label of a jump that leaves a condition unit (the handler ended with `RESUME label`) is not deeper than the unit -/
theorem cond_jump_depths {C : Ctx} (hC : C.Ok) {d e f gd : Nat} {c : Ast.Expr} {skipAs : Bool} {s s1 : ESt} {L : Nat}
    (hsc : SlotsBelow C.sl.length c) (hnc : NumericCond C.sl c)
    (h : condUnit f C.P gd c skipAs s = (s1, .out (.jump L))) : C.env.dp.fd L ≤ d ∧ C.env.dp.sd L ≤ e := by
  have hw : Wf C.sl C.env.dp C.rl d e (.while c .skip ⟨0, 0⟩) := by
    simp only [Wf]; exact ⟨hsc, hnc, trivial⟩
  have h' := cu_condUnit_out (b' := true) h
  have hx : exec (f + 1) C.P gd (desugar (.while c .skip ⟨0, 0⟩)) .run s = (s1, .jump L) := by
    simp only [desugar, exec, Mode.enters, if_true, h', Stmt.hasLabel, Stmt.labels]
    simp
  exact (hC.shape _ d e _ gd .run s s1 L hw (by intro L d' e' h; simp [depthTable] at h) hx).2

/-- what the code of a condition does, given what `Ref.condUnit` answers.  `a`: the address of the condition's first
instruction, `nc` its length, `tgt` the target of the `JumpIfFalse`, `[ustart, unext)` the resume unit -/
def CondSpec (C : Ctx) (d e vb a nc tgt ustart unext : Nat) (skipAs : Bool) (σ : EVm) : ESt × Dec → Prop
  | (s1, .go b) => ∃ τ, Steps C.prog σ τ ∧ ERel C.sl C.env s1 τ ∧ τ.b.regStack = σ.b.regStack ∧ ValsOk vb e 0 σ τ ∧
      τ.b.paths = σ.b.paths ∧ τ.b.gosubs = σ.b.gosubs ∧ HKeep σ τ ∧
      (τ.b.pc = (if b then a + nc + 1 else tgt) ∨ (b = skipAs ∧ τ.b.pc = unext ∧ σ.errAddr = none))
  | (s1, .again) => ∃ τ, Steps C.prog σ τ ∧ τ.b.pc = ustart ∧ ERel C.sl C.env s1 τ ∧ τ.b.regStack = σ.b.regStack ∧
      ValsOk vb e 0 σ τ ∧ τ.b.paths = σ.b.paths ∧ τ.b.gosubs = σ.b.gosubs ∧ HKeep σ τ
  | (s1, .out o) => o ≠ .normal ∧ (∀ p, o ≠ .ret p) ∧ (∀ k, o ≠ .resumed k) ∧ o ≠ .notHere ∧
      (∀ L, o = .jump L → C.env.dp.fd L ≤ d ∧ C.env.dp.sd L ≤ e) ∧ ∀ fin nx, StmtSpec C d e vb fin nx σ (s1, o)

/-- **the condition unit**: `<c>; JumpIfFalse tgt` at `a`, inside the resume unit `[ustart, unext)` -/
theorem cond_unit {C : Ctx} (hC : C.Ok) {fuel : Nat} (ih : StmtIHle C fuel) {d e vb gd a tgt ustart unext : Nat}
    {c : Ast.Expr} {p : Pos} {skipAs : Bool} {σ : EVm} {s : ESt}
    (hc : CodeAt C.prog.code a (lift (compileExpr c ++ [(CInstr.jumpIfFalse tgt, p)])))
    (hu : MarksAt C.prog.marks [ustart] unext) (hlo : ustart ≤ a) (hhi : a + (compileExpr c).length + 1 ≤ unext)
    (hsc : SlotsBelow C.sl.length c) (hnc : NumericCond C.sl c)
    (hpc : σ.b.pc = a) (hr : ERel C.sl C.env s σ) (hi : Inv C d e vb gd σ) :
    CondSpec C d e vb a (compileExpr c).length tgt ustart unext skipAs σ (condUnit fuel C.P gd c skipAs s) := by
  cases fuel with
  | zero =>
    simp only [condUnit, CondSpec]
    exact ⟨by simp, by simp, by simp, by simp, by simp, fun _ _ => trivial⟩
  | succ f =>
    have hdep : ∀ s1 L, condUnit (f + 1) C.P gd c skipAs s = (s1, .out (.jump L)) →
        C.env.dp.fd L ≤ d ∧ C.env.dp.sd L ≤ e := fun s1 L h => cond_jump_depths hC hsc hnc h
    have hnr := cu_cond_noread c tgt p
    have hslots : SlotsBelow σ.b.env.length c := by rw [hr.base.len]; exact hsc
    have hnum : NumericAt σ.b.env c := by rw [hr.base.env]; exact hnc _ hr.base.typed
    have hcond := RbThm.JmpLSim.cond_correct _ c tgt p a σ.b (codeAt_pad a _) hpc hslots hnum
    rw [hr.base.env] at hcond
    simp only [condUnit, ErrL.Ref.evalCond] at hdep ⊢
    cases hec : JmpL.Ref.evalCond s.st.env c with
    | ok bv =>
      simp only [hec] at hcond ⊢
      simp only [CondSpec]
      cases bv with
      | true =>
        obtain ⟨v, b, st⟩ := hcond
        have st' := lift_steps hC.pok hc hnr st σ rfl
        exact ⟨_, st', hr.same (hr.base.afterExpr _ v b), rfl, ⟨hi.he, fun _ => by simp [RbThm.JmpLSim.afterExpr]⟩, rfl,
          rfl, rfl, .inl (by simp [RbThm.JmpLSim.afterExpr])⟩
      | false =>
        obtain ⟨v, b, st⟩ := hcond
        have st' := lift_steps hC.pok hc hnr st σ rfl
        exact ⟨_, st', hr.same (hr.base.afterExpr _ v b), rfl, ⟨hi.he, fun _ => by simp [RbThm.JmpLSim.afterExpr]⟩, rfl,
          rfl, rfl, .inl (by simp [RbThm.JmpLSim.afterExpr])⟩
    | error o =>
      have hinex : CondSpec C d e vb a (compileExpr c).length tgt ustart unext skipAs σ (s, Dec.out Outcome.inexact) := by
        simp only [CondSpec]
        exact ⟨by simp, by simp, by simp, by simp, by simp, fun _ _ => trivial⟩
      cases o with
      | error cd q =>
        simp only [hec, failOf] at hdep ⊢
        have hec' : JmpL.Ref.evalCond σ.b.env c = .error (.error cd q) := by rw [hr.base.env]; exact hec
        obtain ⟨υ, st, hs, hfa⟩ := cond_fails _ c tgt p a σ.b (codeAt_pad a _) hpc hslots hnum hec'
        obtain ⟨hst, hylo, hyhi, hstep⟩ := lift_fails' hC.pok hc hnr st hs σ rfl
        generalize hy : ({ σ with b := υ } : EVm) = y at hst hstep
        have hyb : y.b = υ := by subst hy; rfl
        have hye : y.errAddr = σ.errAddr := by subst hy; rfl
        have hry : ERel C.sl C.env s y := by
          subst hy
          exact hfa.erel hr
        obtain ⟨X, hX⟩ := hfa.vals
        have hvl : vb + e ≤ y.b.vals.length := by
          rw [hyb, hX, List.length_append]; have := hi.he; omega
        have h1 : y.b.regStack = σ.b.regStack := by rw [hyb]; exact hfa.regStack
        have h3 : y.b.paths = σ.b.paths := by rw [hyb]; exact hfa.paths
        have h4 : y.b.gosubs = σ.b.gosubs := by rw [hyb]; exact hfa.gosubs
        have hiy : Inv C d e vb gd y := hi.congr h1 hvl h4 hye
        cases f with
        | zero =>
          simp only [Ref.raise, CondSpec]
          exact ⟨by simp, by simp, by simp, by simp, by simp, fun _ _ => trivial⟩
        | succ g =>
          have hrs := raise_correct hC (ih g (by omega)) hu (by rw [hyb]; omega)
            (by rw [hyb]; simp only [List.length_append, List.length_singleton] at hyhi; omega) hstep (Quiet.refl y) hry hiy
          generalize hres : Ref.raise (g + 1) C.P gd cd q s = r at hrs hdep ⊢
          obtain ⟨s', dsp⟩ := r
          cases dsp with
          | again =>
            obtain ⟨τ, st2, hp, hrτ, qq⟩ := hrs
            have hσe : σ.errAddr = none := by rw [← hye]; exact qq.notH
            simp only [CondSpec]
            exact ⟨τ, hst.trans st2, hp, hrτ, by rw [qq.regStack, h1], ⟨by rw [qq.vals]; exact hvl, fun hne => absurd hσe hne⟩,
              by rw [qq.paths, h3], by rw [qq.gosubs, h4], HKeep.of_none hσe qq.errAddr⟩
          | next =>
            obtain ⟨τ, st2, hp, hrτ, qq⟩ := hrs
            have hσe : σ.errAddr = none := by rw [← hye]; exact qq.notH
            simp only [CondSpec]
            exact ⟨τ, hst.trans st2, hrτ, by rw [qq.regStack, h1], ⟨by rw [qq.vals]; exact hvl, fun hne => absurd hσe hne⟩,
              by rw [qq.paths, h3], by rw [qq.gosubs, h4], HKeep.of_none hσe qq.errAddr,
              .inr ⟨by simp, hp, hσe⟩⟩
          | out o' =>
            obtain ⟨n1, n2, n3, n4, n5, hsp⟩ := hrs
            simp only [CondSpec]
            exact ⟨n1, n2, n3, n4, fun L hL => hdep s' L (by rw [hL]),
              out_of_unit hst h1 h3 h4 hye n1 n2 n3 n4 n5 hsp⟩
      | normal => simp only [hec, failOf]; exact hinex
      | halted => simp only [hec, failOf]; exact hinex
      | jump L => simp only [hec, failOf]; exact hinex
      | ret q => simp only [hec, failOf]; exact hinex
      | inexact => simp only [hec, failOf]; exact hinex
      | outOfFuel => simp only [hec, failOf]; exact hinex
      | illFormed => simp only [hec, failOf]; exact hinex
      | notHere => simp only [hec, failOf]; exact hinex

end RbThm.ErrLSim
