import RbModel.Wf
/-!
C15 — generated code is well-formed.

The checker `RbModel.Wf.wfCheck` runs on the *real* instruction list of every accepted program
(the list is produced by `generate_instructions`, serialised and read back).  This file proves
that the checker is sound: whenever it answers `true` the instruction list has the properties
C15 names — for every path of the abstract stack-shape machine, with no bound on path length.

Abstract machine: inside one activation (main module, a procedure body, a GOSUB subroutine, an
error handler) a state is `(pc, h)` with `h` the depths of the five VM stacks; an instruction
changes `h` by its effect `eff` and control moves to any static successor (`succs`; calls and
GOSUBs are stepped over: the callee is a separate activation that the same theorem shows to be
balanced).  Error edges (a failing instruction transferring control to a handler) are not part
of this machine; the dynamic re-check of the harness stops at the first handled error.
-/
namespace RbThm.C15
open RbModel RbModel.Wf

/-! ### stack-depth arithmetic -/

theorem H.le_iff (a b : H) :
    H.le a b = true ↔ a.value ≤ b.value ∧ a.reg ≤ b.reg ∧ a.ctx ≤ b.ctx ∧ a.path ≤ b.path ∧ a.byref ≤ b.byref := by
  simp [H.le, Bool.and_eq_true, decide_eq_true_eq, and_assoc]

theorem H.add_zero (a : H) : H.add a H.zero = a := by
  cases a; simp [H.add, H.zero]

/-- an effect that is possible at relative depth `rel` is possible at `h0 + rel`, with the same
relative result -/
theorem apply_add (h0 rel rel' : H) (e : H × H) (h : apply rel e = some rel') :
    apply (H.add h0 rel) e = some (H.add h0 rel') := by
  unfold apply at h ⊢
  split at h
  · next hle =>
    have hle' := (H.le_iff _ _).1 hle
    have : H.le e.1 (H.add h0 rel) = true := by
      rw [H.le_iff]; simp only [H.add]; omega
    simp only [this, if_true]
    injection h with h
    subst h
    congr 1
    simp only [H.add, H.sub, H.mk.injEq]
    omega
  · simp at h

/-! ### the abstract machine -/

/-- one step inside an activation -/
def StepTo (code : Code) (pc : Nat) (h : H) (pc' : Nat) (h' : H) : Prop :=
  ∃ i, instrAt code pc = some i ∧ apply h (eff i) = some h' ∧ pc' ∈ succs code pc i

/-- states reachable from root `r` entered with depths `h0` -/
inductive Reach (code : Code) (r : Nat) (h0 : H) : Nat → H → Prop
  | start : Reach code r h0 r h0
  | step {pc pc' : Nat} {h h' : H} : Reach code r h0 pc h → StepTo code pc h pc' h' → Reach code r h0 pc' h'

theorem instrAt_lt {code : Code} {pc : Nat} {i : Instr} (h : instrAt code pc = some i) : pc < code.size := by
  unfold instrAt at h
  cases hc : code[pc]? with
  | none => simp [hc] at h
  | some ip =>
    have := Array.getElem?_eq_some_iff.1 hc
    exact this.1

/-! ### what `checkCert = true` gives -/

theorem checkCert_roots {code : Code} {cert : Cert} (h : checkCert code cert = true) :
    ∀ r ∈ roots code, cert[r]? = some (some H.zero) := by
  intro r hr
  simp only [checkCert, Bool.and_eq_true, List.all_eq_true] at h
  have := h.1.2 r hr
  simpa using this

theorem checkCert_checkPc {code : Code} {cert : Cert} (h : checkCert code cert = true) :
    ∀ pc, pc < code.size → checkPc code cert pc = true := by
  intro pc hpc
  simp only [checkCert, Bool.and_eq_true, List.all_eq_true] at h
  exact h.2 pc (List.mem_range.2 hpc)

theorem checkPc_spec {code : Code} {cert : Cert} {pc : Nat} {rel : H} {i : Instr}
    (h : checkPc code cert pc = true) (hc : cert[pc]? = some (some rel)) (hi : instrAt code pc = some i) :
    ∃ rel', apply rel (eff i) = some rel' ∧
      (∀ s ∈ succs code pc i, cert[s]? = some (some rel')) ∧
      (isBalancedExit i = true → rel = H.zero) := by
  unfold checkPc at h
  rw [hc] at h
  simp only [hi] at h
  cases ha : apply rel (eff i) with
  | none => simp [ha] at h
  | some rel' =>
    simp only [ha, Bool.and_eq_true, List.all_eq_true, Bool.or_eq_true, Bool.not_eq_true'] at h
    refine ⟨rel', rfl, ?_, ?_⟩
    · intro s hs
      have := h.1 s hs
      simpa using this
    · intro hb
      rcases h.2 with h2 | h2
      · rw [hb] at h2; cases h2
      · simpa using h2

/-! ### soundness of the certificate checker -/

/-- **Every reachable state carries exactly the certified relative depths.** -/
theorem cert_sound {code : Code} {cert : Cert} (hc : checkCert code cert = true)
    {r : Nat} (hr : r ∈ roots code) (h0 : H) {pc : Nat} {h : H} (hreach : Reach code r h0 pc h) :
    ∃ rel, cert[pc]? = some (some rel) ∧ h = H.add h0 rel := by
  induction hreach with
  | start => exact ⟨H.zero, checkCert_roots hc r hr, (H.add_zero h0).symm⟩
  | step _ hstep ih =>
    obtain ⟨rel, hcert, hh⟩ := ih
    obtain ⟨i, hi, happ, hs⟩ := hstep
    have hpc := instrAt_lt hi
    obtain ⟨rel', happ', hsucc, _⟩ := checkPc_spec (checkCert_checkPc hc _ hpc) hcert hi
    refine ⟨rel', hsucc _ hs, ?_⟩
    subst hh
    rw [apply_add h0 rel rel' _ happ'] at happ
    injection happ with happ
    exact happ.symm

/-- **No execution underflows a stack**: at every reachable state the instruction's pops are available
(even counting only what the activation itself has pushed). -/
theorem no_underflow {code : Code} {cert : Cert} (hc : checkCert code cert = true)
    {r : Nat} (hr : r ∈ roots code) (h0 : H) {pc : Nat} {h : H} (hreach : Reach code r h0 pc h)
    {i : Instr} (hi : instrAt code pc = some i) :
    ∃ h', apply h (eff i) = some h' := by
  obtain ⟨rel, hcert, hh⟩ := cert_sound hc hr h0 hreach
  obtain ⟨rel', happ', _, _⟩ := checkPc_spec (checkCert_checkPc hc _ (instrAt_lt hi)) hcert hi
  exact ⟨H.add h0 rel', by rw [hh]; exact apply_add h0 rel rel' _ happ'⟩

/-- **Whatever an activation pushes is popped again**: at `PopRet` / `RETURN` every stack is back at its
entry depth. -/
theorem balanced_exit {code : Code} {cert : Cert} (hc : checkCert code cert = true)
    {r : Nat} (hr : r ∈ roots code) (h0 : H) {pc : Nat} {h : H} (hreach : Reach code r h0 pc h)
    {i : Instr} (hi : instrAt code pc = some i) (hexit : isBalancedExit i = true) : h = h0 := by
  obtain ⟨rel, hcert, hh⟩ := cert_sound hc hr h0 hreach
  obtain ⟨_, _, _, hz⟩ := checkPc_spec (checkCert_checkPc hc _ (instrAt_lt hi)) hcert hi
  rw [hh, hz hexit, H.add_zero]

/-- **Depths are a function of the program counter**, hence cannot grow with the iteration count:
two visits of the same pc (e.g. in successive loop iterations) see the same depths. -/
theorem depth_determined_by_pc {code : Code} {cert : Cert} (hc : checkCert code cert = true)
    {r : Nat} (hr : r ∈ roots code) (h0 : H) {pc : Nat} {h₁ h₂ : H}
    (h1 : Reach code r h0 pc h₁) (h2 : Reach code r h0 pc h₂) : h₁ = h₂ := by
  obtain ⟨rel₁, hc₁, e₁⟩ := cert_sound hc hr h0 h1
  obtain ⟨rel₂, hc₂, e₂⟩ := cert_sound hc hr h0 h2
  rw [hc₁] at hc₂
  injection hc₂ with hc₂
  injection hc₂ with hc₂
  rw [e₁, e₂, hc₂]

/-! ### structural checks -/

theorem nodupB_sound : ∀ (l : List String), nodupB l = true → l.Nodup
  | [], _ => List.nodup_nil
  | x :: xs, h => by
    simp only [nodupB, Bool.and_eq_true, Bool.not_eq_true', List.contains_eq_mem,
      decide_eq_false_iff_not] at h
    exact List.nodup_cons.2 ⟨h.1, nodupB_sound xs h.2⟩

/-- every label (names compared case-insensitively, as `CaseInsensitiveString` does) is defined once -/
theorem labels_unique {code : Code} (h : labelsUnique code = true) : (labelNames code).Nodup :=
  nodupB_sound _ h

theorem ascendingB_sound : ∀ (l : List Nat), ascendingB l = true → l.Pairwise (· ≤ ·)
  | [], _ => List.Pairwise.nil
  | [_], _ => List.pairwise_singleton _ _
  | a :: b :: rest, h => by
    simp only [ascendingB, Bool.and_eq_true, decide_eq_true_eq] at h
    have ih := ascendingB_sound (b :: rest) h.2
    refine List.Pairwise.cons ?_ ih
    intro c hc
    rcases List.mem_cons.1 hc with rfl | hc
    · exact h.1
    · exact Nat.le_trans h.1 (List.rel_of_pairwise_cons ih hc)

/-- statement start addresses are ascending and inside the list (or one past its end) -/
theorem addrs_ascending {code : Code} {addrs : List Nat} (h : addrsOk code addrs = true) :
    addrs.Pairwise (· ≤ ·) ∧ ∀ a ∈ addrs, a ≤ code.size := by
  simp only [addrsOk, Bool.and_eq_true, List.all_eq_true, decide_eq_true_eq] at h
  exact ⟨ascendingB_sound _ h.1, h.2⟩

theorem mem_toList_of_instrAt {code : Code} {pc : Nat} {i : Instr} (h : instrAt code pc = some i) :
    ∃ ip ∈ code.toList, ip.instr = i := by
  unfold instrAt at h
  cases hc : code[pc]? with
  | none => simp [hc] at h
  | some ip =>
    simp only [hc, Option.map_some, Option.some.injEq] at h
    exact ⟨ip, Array.mem_toList_iff.2 (Array.mem_of_getElem? hc), h⟩

/-- every branch, call-return, handler and resume target is a resolved address inside the list,
and branch targets hold a `Label` instruction -/
theorem targets_resolved {code : Code} (h : targetsResolved code = true)
    {pc : Nat} {i : Instr} (hi : instrAt code pc = some i) :
    (∀ t ∈ targetsOf i, ∃ a, t = Target.addr a ∧ a < code.size ∧ isLabelAt code a = true) ∧
    (∀ a, i = Instr.pushRet a → a < code.size) := by
  obtain ⟨ip, hmem, hip⟩ := mem_toList_of_instrAt hi
  simp only [targetsResolved, List.all_eq_true] at h
  have hok := h ip hmem
  rw [hip] at hok
  constructor
  · intro t ht
    have hall : (targetsOf i).all (targetOk code) = true := by
      cases i <;> first | simpa [instrTargetsOk] using hok | (simp [targetsOf] at ht)
    have := (List.all_eq_true.1 hall) t ht
    cases t with
    | addr a =>
      simp only [targetOk, Bool.and_eq_true, decide_eq_true_eq] at this
      exact ⟨a, rfl, this.1, this.2⟩
    | unresolved l => simp [targetOk] at this
  · intro a ha
    subst ha
    simpa [instrTargetsOk] using hok

/-- the main module ends with `Halt` -/
theorem main_ends_with_halt {code : Code} (h : terminatorsOk code = true) :
    isHaltAt code ((procEntries code).headD code.size - 1) = true := by
  simp only [terminatorsOk, Bool.and_eq_true] at h
  exact h.1.2

/-- every procedure (the instructions from one procedure entry label up to the next one, or the end of
the list) ends with `PopRet` -/
theorem procedures_end_with_popret {code : Code} (h : terminatorsOk code = true) :
    ∀ se ∈ (procEntries code).zip ((procEntries code).drop 1 ++ [code.size]),
      se.2 ≥ se.1 + 2 ∧ isPopRetAt code (se.2 - 1) = true := by
  simp only [terminatorsOk, Bool.and_eq_true, List.all_eq_true, decide_eq_true_eq] at h
  intro se hse
  exact h.2 se hse

/-- branches stay inside their procedure; the `Jump` of a call goes to a procedure entry -/
theorem branches_local {code : Code} (h : branchesLocal code = true)
    {pc : Nat} {i : Instr} (hi : instrAt code pc = some i) :
    (∀ a, i = Instr.jump (Target.addr a) →
        if isCall code pc = true then a ∈ procEntries code
        else regionOf (procEntries code) a = regionOf (procEntries code) pc) ∧
    ((∀ t, i ≠ Instr.jump t) → ∀ a, Target.addr a ∈ targetsOf i →
        regionOf (procEntries code) a = regionOf (procEntries code) pc) := by
  have hpc := instrAt_lt hi
  simp only [branchesLocal, List.all_eq_true] at h
  have hp := h pc (List.mem_range.2 hpc)
  rw [hi] at hp
  constructor
  · intro a ha
    subst ha
    simp only at hp
    split
    · next hcall => simpa [hcall] using hp
    · next hcall => simpa [hcall] using hp
  · intro hnj a ha
    cases i with
    | jump t => exact absurd rfl (hnj t)
    | jumpIfFalse t | goSub t | onErrorGoTo t | resumeLabel t =>
      simp only [targetsOf, List.mem_singleton] at ha
      subst ha
      simpa [targetsOf] using hp
    | ret t =>
      cases t with
      | none => simp [targetsOf] at ha
      | some t =>
        simp only [targetsOf, List.mem_singleton] at ha
        subst ha
        simpa [targetsOf] using hp
    | _ => simp [targetsOf] at ha

/-- **C15, static part**: what an accepting run of the checker establishes about the instruction list. -/
theorem wfCheck_sound {code : Code} {addrs : List Nat} {cert : Cert} (h : wfCheck code addrs cert = true) :
    targetsResolved code = true ∧ (labelNames code).Nodup ∧ terminatorsOk code = true ∧
    branchesLocal code = true ∧ (addrs.Pairwise (· ≤ ·) ∧ ∀ a ∈ addrs, a ≤ code.size) ∧
    (∀ r ∈ roots code, ∀ h0 pc hh, Reach code r h0 pc hh →
      (∃ rel, cert[pc]? = some (some rel) ∧ hh = H.add h0 rel) ∧
      (∀ i, instrAt code pc = some i → (∃ h', apply hh (eff i) = some h') ∧
        (isBalancedExit i = true → hh = h0))) := by
  simp only [wfCheck, Bool.and_eq_true] at h
  obtain ⟨⟨⟨⟨⟨h1, h2⟩, h3⟩, h4⟩, h5⟩, h6⟩ := h
  refine ⟨h1, labels_unique h2, h3, h4, addrs_ascending h5, ?_⟩
  intro r hr h0 pc hh hreach
  refine ⟨cert_sound h6 hr h0 hreach, ?_⟩
  intro i hi
  exact ⟨no_underflow h6 hr h0 hreach hi, balanced_exit h6 hr h0 hreach hi⟩

/-! ### non-vacuity: a loop with a balanced body is accepted, and its states are reachable -/

private def demo : Code := #[
  ⟨.label "_while", 1, 1⟩,
  ⟨.loadIntoA (.int 1), 1, 1⟩,
  ⟨.jumpIfFalse (.addr 6), 1, 1⟩,
  ⟨.pushAToValueStack, 1, 1⟩,
  ⟨.popValueStackIntoA, 1, 1⟩,
  ⟨.jump (.addr 0), 1, 1⟩,
  ⟨.label "_wend", 1, 1⟩,
  ⟨.halt, 2, 1⟩]

private def demoCert : Cert := #[some H.zero, some H.zero, some H.zero, some H.zero,
  some ⟨1, 0, 0, 0, 0⟩, some H.zero, some H.zero, some H.zero]

example : wfCheck demo [0, 7] demoCert = true := by decide +kernel

example : Reach demo 0 H.zero 4 ⟨1, 0, 0, 0, 0⟩ := by
  have s0 : Reach demo 0 H.zero 0 H.zero := Reach.start
  have s1 : Reach demo 0 H.zero 1 H.zero := s0.step ⟨_, rfl, rfl, by decide⟩
  have s2 : Reach demo 0 H.zero 2 H.zero := s1.step ⟨_, rfl, rfl, by decide⟩
  have s3 : Reach demo 0 H.zero 3 H.zero := s2.step ⟨_, rfl, rfl, by decide⟩
  exact s3.step ⟨_, rfl, rfl, by decide⟩

/-- an unbalanced body (push without pop in a loop) is rejected: no certificate can pass, here the
one that is right for the balanced program -/
example : checkCert (demo.set! 4 ⟨.copyAToB, 1, 1⟩) demoCert = false := by decide +kernel

end RbThm.C15
