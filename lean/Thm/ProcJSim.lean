import Thm.ProcJSimProg
import Thm.ProcJWf
/-!
Layer "procedures ∪ jumps" (SUB / FUNCTION + labels, GOTO, GOSUB, RETURN in every scope), simulation part — the whole-program
theorems.

`Thm/ProcJSimBase.lean` holds the infrastructure and the specifications (`World`, `BodyCtx`, `Rel`, `ActInv`, `ExitedTo`, `Wf`,
`LabAt`, `Entry`, `StmtPost`, `IH`); `Thm/ProcJSim{Jump,Stmt,Seq,Expr,Call,If,While,Do,Select,For,Read,Print}.lean` the case
lemmas; `Thm/ProcJ{Ref,Shape,Depths,Catch}.lean` the facts about the reference semantics and the syntax the jump-handling rules
need; `Thm/ProcJSimProg.lean` the induction on fuel (`stmt_correct`) and the lift to whole programs (DATA hoisting, the layout of
the procedures, the ONE label environment of all scopes, the final `Halt`, RETURN without GOSUB at top level);
`Thm/ProcJWf.lean` the soundness of the boolean premise check.  Here they are put together.
-/
namespace RbThm.ProcJSim
set_option linter.unusedVariables false
open RbModel RbModel.ProcJ RbModel.ProcJ.Compile RbModel.ProcJ.Vm
open RbModel.Num hiding Expr
open RbModel.Ast (Pos)
open RbModel.Proc (Var SlotTabs Expr Args PrintItem CaseExpr ProcDecl zeroOf Sigs sigsOf)
open RbModel.ProcJ.Ref (Outcome Mode Act)

/-- **`ProcJ.compile_correct`** — whole programs with SUBs, FUNCTIONs, labels, GOTO, GOSUB and RETURN in the main module and
inside procedure bodies: for every program that satisfies the static premise `ProgWf` (what `progWfB` decides) and every amount
of fuel: if the reference semantics `ProcJ.Ref.run` ends normally or with END (anywhere, also inside a procedure or a GOSUB
routine), the VM model `ProcJ.Vm` running the code the generator model `ProcJ.Compile.compile` emits reaches a `Halt` from the
initial state with the same output; if it ends with BASIC error `c` at position `p` — including error 3 at a RETURN that no
GOSUB of the *running activation* is waiting for: at top level, and inside a procedure while only callers have GOSUBs pending —
the VM stops with error `c` at `p` with the same output.  `inexact`, `outOfFuel` and `illFormed` claim nothing; `exited`, `jump`,
`ret`, `notHere` never come out of `run`.  No bound on program size, nesting, recursion depth, pending GOSUBs or run length. -/
theorem compile_correct (prog : SProgram) (hw : ProgWf prog) (fuel : Nat) :
    match ProcJ.Ref.run fuel prog.toAst with
    | (s', .normal) => HaltsWith (compile prog) Vm.init s'.out
    | (s', .halted) => HaltsWith (compile prog) Vm.init s'.out
    | (s', .error c p) => ErrsWith (compile prog) Vm.init c p s'.out
    | (_, .inexact) => True
    | (_, .outOfFuel) => True
    | (_, .illFormed) => True
    | (_, .exited) => False
    | (_, .jump _) => False
    | (_, .ret _) => False
    | (_, .notHere) => False := by
  have h := compile_correct_of prog fuel hw
    (fun f => (stmt_correct (world prog) prog.procs (procsOk_world prog hw) f).stmt)
  generalize ProcJ.Ref.run fuel prog.toAst = r at h ⊢
  obtain ⟨s', o⟩ := r
  cases o <;> exact h

/-- the same statement through the named specification `ProgSpec` of `Thm/ProcJSimProg.lean` -/
theorem compile_correct_spec (prog : SProgram) (hw : ProgWf prog) (fuel : Nat) :
    ProgSpec prog (ProcJ.Ref.run fuel prog.toAst) :=
  compile_correct_of prog fuel hw (fun f => (stmt_correct (world prog) prog.procs (procsOk_world prog hw) f).stmt)

/-- **`ProcJ.run_correct`** — `compile_correct` restated for the bounded interpreter `ProcJ.Vm.run` that the correspondence
check executes against the real VM: for every sufficient step budget the run of the generated code ends as the reference
semantics prescribes -/
theorem run_correct (prog : SProgram) (hw : ProgWf prog) (fuel : Nat) :
    match ProcJ.Ref.run fuel prog.toAst with
    | (s', .normal) => ∃ n υ, (∀ m, n ≤ m → Vm.run (compile prog) m Vm.init = .halted υ) ∧ υ.out = s'.out
    | (s', .halted) => ∃ n υ, (∀ m, n ≤ m → Vm.run (compile prog) m Vm.init = .halted υ) ∧ υ.out = s'.out
    | (s', .error c p) => ∃ n υ, (∀ m, n ≤ m → Vm.run (compile prog) m Vm.init = .error c p υ) ∧ υ.out = s'.out
    | (_, .inexact) => True
    | (_, .outOfFuel) => True
    | (_, .illFormed) => True
    | (_, .exited) => False
    | (_, .jump _) => False
    | (_, .ret _) => False
    | (_, .notHere) => False := by
  have h := runSpec_of_progSpec prog _ (compile_correct_spec prog hw fuel)
  generalize ProcJ.Ref.run fuel prog.toAst = r at h ⊢
  obtain ⟨s', o⟩ := r
  cases o <;> exact h

/-- **`ProcJ.compile_correct_checked`** — the premise in its decidable form (`Thm/ProcJWf.lean`): what the driver evaluates on
the real front end's tree of every explored program (`procj.wf`) -/
theorem compile_correct_checked (prog : SProgram) (h : progWfB prog = true) (fuel : Nat) :
    match ProcJ.Ref.run fuel prog.toAst with
    | (s', .normal) => HaltsWith (compile prog) Vm.init s'.out
    | (s', .halted) => HaltsWith (compile prog) Vm.init s'.out
    | (s', .error c p) => ErrsWith (compile prog) Vm.init c p s'.out
    | (_, .inexact) => True
    | (_, .outOfFuel) => True
    | (_, .illFormed) => True
    | (_, .exited) => False
    | (_, .jump _) => False
    | (_, .ret _) => False
    | (_, .notHere) => False :=
  compile_correct prog (progWfB_sound prog h) fuel

theorem run_correct_checked (prog : SProgram) (h : progWfB prog = true) (fuel : Nat) :
    RunSpec prog (ProcJ.Ref.run fuel prog.toAst) :=
  runSpec_of_progSpec prog _ (compile_correct_spec prog (progWfB_sound prog h) fuel)

/-- the clauses spelled out: a run the reference semantics ends normally or with END -/
theorem compile_correct_normal (prog : SProgram) (hw : ProgWf prog) (fuel : Nat) (s' : St)
    (h : ProcJ.Ref.run fuel prog.toAst = (s', .normal) ∨ ProcJ.Ref.run fuel prog.toAst = (s', .halted)) :
    ∃ τ υ, Steps (compile prog) Vm.init τ ∧ Vm.step (compile prog) τ = .halt υ ∧ υ.out = s'.out := by
  have := compile_correct prog hw fuel
  rcases h with h | h <;> (rw [h] at this; exact this)

/-- … and a run it ends with a BASIC error -/
theorem compile_correct_error (prog : SProgram) (hw : ProgWf prog) (fuel : Nat) (s' : St) (c : Nat) (p : Pos)
    (h : ProcJ.Ref.run fuel prog.toAst = (s', .error c p)) :
    ∃ τ υ, Steps (compile prog) Vm.init τ ∧ Vm.step (compile prog) τ = .error c p υ ∧ υ.out = s'.out := by
  have := compile_correct prog hw fuel
  rw [h] at this; exact this

/-- the main module of a program with the premise never answers `exited`: the reference semantics' "EXIT SUB outside a
procedure" does not occur (obtained through the simulation: no `PushRet` is pending for the `PopRet` to answer) -/
theorem main_not_exited (prog : SProgram) (hw : ProgWf prog) (fuel : Nat) (s' : St) :
    ProcJ.Ref.exec prog.toAst fuel ⟨false, desugar prog.body⟩ (desugar prog.body) .run (startSt prog) ≠ (s', .exited) :=
  main_never_exited prog fuel hw (fun f => (stmt_correct (world prog) prog.procs (procsOk_world prog hw) f).stmt) s'

/-- what `illFormed` at the top still stands for under the premise: `run` answers `illFormed` only if the main module's `exec`
itself does (a call whose callee's body answered `jump` / `notHere` / `illFormed`, a jump into a FOR body or a SELECT block …);
the three outcomes `topOutcome` folds into `illFormed` — `exited`, `jump`, `notHere` — do not come out of the main module -/
theorem run_illFormed (prog : SProgram) (hw : ProgWf prog) (fuel : Nat) (s' : St)
    (h : ProcJ.Ref.run fuel prog.toAst = (s', .illFormed)) :
    ProcJ.Ref.exec prog.toAst fuel ⟨false, desugar prog.body⟩ (desugar prog.body) .run (startSt prog) = (s', .illFormed) := by
  rw [run_eq] at h
  cases hr : ProcJ.Ref.exec prog.toAst fuel ⟨false, desugar prog.body⟩ (desugar prog.body) .run (startSt prog) with
  | mk s o =>
    rw [hr] at h
    cases o with
    | illFormed => simpa [ProcJ.Ref.topOutcome] using h
    | exited => exact absurd hr (main_not_exited prog hw fuel s)
    | jump L => exact absurd hr (main_never_jump prog fuel hw s L)
    | notHere => exact absurd hr (main_never_notHere prog fuel s)
    | normal => simp [ProcJ.Ref.topOutcome] at h
    | halted => simp [ProcJ.Ref.topOutcome] at h
    | ret p => simp [ProcJ.Ref.topOutcome] at h
    | error c p => simp [ProcJ.Ref.topOutcome] at h
    | inexact => simp [ProcJ.Ref.topOutcome] at h
    | outOfFuel => simp [ProcJ.Ref.topOutcome] at h

/-! #### non-vacuity: concrete programs in the covered fragment

A SUB whose GOSUB routine leaves the SUB with EXIT SUB (the `PopRet` cuts the GOSUB stack back to the mark of the call):

    CALL S : X% = X% + 2
    SUB S : GOSUB R : X% = 1 : EXIT SUB : R: EXIT SUB : END SUB        (X% is DIM SHARED)
-/

private def demoExit : SProgram :=
  { slots := [],
    gslots := [.int],
    body :=
      .seq (.dim ⟨true, 0⟩ .int ⟨1, 12⟩)
      (.seq (.callSub 0 .nil ⟨2, 1⟩)
      (.seq (.assign ⟨true, 0⟩ .int (.bin .plus (.var ⟨true, 0⟩ .int ⟨3, 6⟩) (.lit (.int 2) ⟨3, 11⟩) .int ⟨3, 9⟩) ⟨3, 1⟩) .skip)),
    procs :=
      [ { result := none, name := "S", params := [], slots := [],
          body :=
            .seq (.gosub 0 ⟨5, 3⟩)
            (.seq (.assign ⟨true, 0⟩ .int (.lit (.int 1) ⟨6, 8⟩) ⟨6, 3⟩)
            (.seq (.exitProc ⟨7, 3⟩)
            (.seq (.label 0 "R" ⟨8, 1⟩)
            (.seq (.exitProc ⟨9, 3⟩) .skip)))),
          pos := ⟨4, 1⟩ } ] }

/-- a RETURN inside a SUB while only the main module has a GOSUB pending (the SUB is called from the main module's GOSUB
routine): the GOSUB of the caller is out of reach — error 3 at the RETURN of the SUB:

    GOSUB R : END
    R: CALL S : RETURN
    SUB S : RETURN : END SUB
-/
private def demoRet : SProgram :=
  { slots := [],
    gslots := [],
    body :=
      .seq (.gosub 0 ⟨1, 1⟩)
      (.seq (.end_ ⟨2, 1⟩)
      (.seq (.label 0 "R" ⟨3, 1⟩)
      (.seq (.callSub 0 .nil ⟨4, 1⟩)
      (.seq (.ret ⟨5, 1⟩) .skip)))),
    procs :=
      [ { result := none, name := "S", params := [], slots := [],
          body := .seq (.ret ⟨7, 3⟩) .skip,
          pos := ⟨6, 1⟩ } ] }

/-- the premise of `compile_correct` is satisfiable on programs that use procedures and the jump statements together -/
example : progWfB demoExit = true := by decide
example : ProgWf demoExit := progWfB_sound demoExit (by decide)
example : progWfB demoRet = true := by decide
example : ProgWf demoRet := progWfB_sound demoRet (by decide)

/-- the reference semantics answers `normal` (the SUB was left from inside its GOSUB routine; the assignment after the GOSUB
statement did not run: X% = 0 + 2) and error 3 at the RETURN inside the SUB: the `normal` and the `error` clause are hit -/
example : (ProcJ.Ref.run 30 demoExit.toAst).2 = .normal := by decide
example : (ProcJ.Ref.run 30 demoExit.toAst).1.glob = [.int 2] := by decide
example : (ProcJ.Ref.run 30 demoRet.toAst).2 = .error 3 ⟨7, 3⟩ := by decide

/-- … and the theorems apply to them -/
example (fuel : Nat) : ProgSpec demoExit (ProcJ.Ref.run fuel demoExit.toAst) :=
  compile_correct_spec demoExit (progWfB_sound demoExit (by decide)) fuel
example (fuel : Nat) : RunSpec demoRet (ProcJ.Ref.run fuel demoRet.toAst) := run_correct_checked demoRet (by decide) fuel
example : ∃ τ υ, Steps (compile demoRet) Vm.init τ ∧ Vm.step (compile demoRet) τ = .error 3 ⟨7, 3⟩ υ ∧
    υ.out = (ProcJ.Ref.run 30 demoRet.toAst).1.out :=
  compile_correct_error demoRet (progWfB_sound demoRet (by decide)) 30 _ 3 ⟨7, 3⟩
    (Prod.ext rfl (by decide : (ProcJ.Ref.run 30 demoRet.toAst).2 = .error 3 ⟨7, 3⟩))

end RbThm.ProcJSim
