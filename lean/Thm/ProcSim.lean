import Thm.ProcSimBase
import Thm.ProcSimExpr
import Thm.ProcSimStmt
import Thm.ProcSimCall
import Thm.ProcSimIf
import Thm.ProcSimDo
import Thm.ProcSimSelect
import Thm.ProcSimFor
import Thm.ProcSimRead
import Thm.ProcSimPrint
import Thm.ProcSimProg
import Thm.ProcWf
import RbModel.Proc.Spec
/-!
Procedures layer (core language + SUB / FUNCTION), simulation part — the induction on fuel and the whole-program theorem
`Proc.compile_correct`.

`Thm/ProcSimBase.lean` holds the infrastructure and the specifications; `Thm/ProcSimExpr.lean` the expression cases,
`Thm/ProcSimStmt.lean` sequencing, assignment, DIM, END, EXIT SUB / FUNCTION and SUB calls, `Thm/ProcSimCall.lean` argument
lists and the call protocol (`call_correct`), `Thm/ProcSim{If,Do,Select,For,Read,Print}.lean` the control-flow constructs,
READ and PRINT, `Thm/ProcSimProg.lean` the lift to whole programs.  Here they are put together.
-/
namespace RbThm.ProcSim
set_option linter.unusedVariables false
open RbModel RbModel.Num RbModel.Proc RbModel.Proc.Compile RbModel.Proc.Vm
open RbModel.Ast (Pos)
open RbThm.ProcLen

/-- one more unit of fuel: every statement of the language, given the hypothesis at all smaller amounts -/
theorem stmt_succ (W : World) (fuel : Nat) (ih : IHle W fuel) : StmtIH W (fuel + 1) := by
  intro sc stmt sfx fd sd off below s σ hc hpc hr hw ha
  cases stmt with
  | skip =>
    simp only [desugar, Proc.Ref.exec, StmtPost, sizeStmt, Nat.add_zero]
    exact ⟨σ, Steps.refl σ, hpc, hr, SameStacks.refl σ⟩
  | comment =>
    simp only [desugar, Proc.Ref.exec, StmtPost, sizeStmt, Nat.add_zero]
    exact ⟨σ, Steps.refl σ, hpc, hr, SameStacks.refl σ⟩
  | seq a b => exact case_seq W fuel ih a b sc sfx fd sd off below s σ hc hpc hr hw ha
  | dim x t p => exact case_dim W fuel ih x t p sc sfx fd sd off below s σ hc hpc hr hw ha
  | sdim x t p => exact case_sdim W fuel x t p sc sfx fd sd off below s σ hc hpc hr hw ha
  | assign x t e p => exact case_assign W fuel ih x t e p sc sfx fd sd off below s σ hc hpc hr hw ha
  | print items p => exact case_print W fuel ih items p sc sfx fd sd off below s σ hc hpc hr hw ha
  | data items p => simp only [Wf] at hw
  | read vars p => exact case_read W fuel ih vars p sc sfx fd sd off below s σ hc hpc hr hw ha
  | ifBlock c thn elifs hasElse els p =>
    exact case_if W fuel ih c thn elifs hasElse els p sc sfx fd sd off below s σ hc hpc hr hw ha
  | select e cases hasElse els p =>
    exact case_select W fuel ih e cases hasElse els p sc sfx fd sd off below s σ hc hpc hr hw ha
  | forLoop x t lo hi step body p =>
    exact case_for W fuel ih x t lo hi step body p sc sfx fd sd off below s σ hc hpc hr hw ha
  | «while» c body p => exact case_while W fuel ih c body p sc sfx fd sd off below s σ hc hpc hr hw ha
  | doLoop c top u body p => exact case_do W fuel ih c top u body p sc sfx fd sd off below s σ hc hpc hr hw ha
  | end_ p => exact case_end W fuel p sc sfx fd sd off below s σ hc hpc hr
  | callSub f args p => exact case_callSub W fuel ih f args p sc sfx fd sd off below s σ hc hpc hr hw ha
  | exitProc p => exact case_exitProc W fuel p sc sfx fd sd off below s σ hc hpc hr hw ha

/-- one more unit of fuel: expressions, argument lists, calls and statements -/
theorem ih_succ (W : World) (procs : List (ProcDecl SStmt)) (hp : ProcsOk W procs) (fuel : Nat) (ih : IHle W fuel) :
    IH W (fuel + 1) :=
  ⟨expr_succ W fuel ih, case_args W fuel ih, call_correct W procs hp fuel ih, stmt_succ W fuel ih⟩

theorem ihle_all (W : World) (procs : List (ProcDecl SStmt)) (hp : ProcsOk W procs) : ∀ fuel, IHle W fuel := by
  intro fuel
  induction fuel with
  | zero =>
    intro f hf
    have : f = 0 := by omega
    subst this
    exact ih_zero W
  | succ n ih =>
    intro f hf
    by_cases h : f ≤ n
    · exact ih f h
    · have : f = n + 1 := by omega
      subst this
      exact ih_succ W procs hp n ih

/-- **the simulation theorem for the procedures layer at the level of constructs**: in a world whose procedures are
well formed and placed at their layout addresses, for every amount of fuel the code of every well-formed expression,
argument list, call and statement does on the VM model what the reference semantics prescribes -/
theorem ih_all (W : World) (procs : List (ProcDecl SStmt)) (hp : ProcsOk W procs) (fuel : Nat) : IH W fuel :=
  (ihle_all W procs hp fuel).self

/-- **`Proc.compile_correct`** — whole programs with SUBs and FUNCTIONs: for every well-formed program (`ProgWf`) and
every amount of fuel, if the reference semantics `Proc.Ref.run` ends normally or with END (anywhere, also inside a
procedure), the VM model `Proc.Vm` running the code the generator model `Proc.Compile.compile` emits reaches a `Halt`
from the initial state with the same output; if it ends with BASIC error `c` at position `p`, the VM stops with error
`c` at `p` with the same output; and the reference semantics never answers `exited` (EXIT SUB outside a procedure) or
`illFormed` (call of a missing procedure) for such a program.  No bound on program size, nesting or recursion depth or
run length. -/
theorem compile_correct (prog : SProgram) (fuel : Nat) (hw : ProgWf prog) :
    match Proc.Ref.run fuel prog.toAst with
    | (s', .normal) => HaltsWith (compile prog) Vm.init s'.out
    | (s', .halted) => HaltsWith (compile prog) Vm.init s'.out
    | (s', .error c p) => ErrsWith (compile prog) Vm.init c p s'.out
    | (_, .inexact) => True
    | (_, .outOfFuel) => True
    | (_, .exited) => False
    | (_, .illFormed) => False :=
  compile_correct_of prog fuel hw (fun f => (ih_all (world prog) prog.procs (procsOk_world prog hw) f).stmt)

/-- `Steps` is what `Proc.Vm.run` does: a run that takes the steps and then halts is a halted run of the bounded
interpreter the correspondence check executes, for every sufficient step budget -/
theorem run_of_steps (code : Code) {σ τ υ : Vm} (h : Steps code σ τ) (hh : Vm.step code τ = .halt υ) :
    ∃ n, ∀ m, n ≤ m → ∃ ω, Vm.run code m σ = .halted ω ∧ ω = υ := by
  induction h with
  | refl σ =>
    refine ⟨1, fun m hm => ?_⟩
    obtain ⟨k, rfl⟩ : ∃ k, m = k + 1 := ⟨m - 1, by omega⟩
    exact ⟨υ, by simp [Vm.run, hh], rfl⟩
  | cons hs _ ih =>
    obtain ⟨n, hn⟩ := ih hh
    refine ⟨n + 1, fun m hm => ?_⟩
    obtain ⟨k, rfl⟩ : ∃ k, m = k + 1 := ⟨m - 1, by omega⟩
    obtain ⟨ω, h1, h2⟩ := hn k (by omega)
    exact ⟨ω, by simp [Vm.run, hs, h1], h2⟩

theorem run_of_steps_error (code : Code) {σ τ υ : Vm} {c : Nat} {p : Pos} (h : Steps code σ τ)
    (hh : Vm.step code τ = .error c p υ) :
    ∃ n, ∀ m, n ≤ m → Vm.run code m σ = .error c p υ := by
  induction h with
  | refl σ =>
    refine ⟨1, fun m hm => ?_⟩
    obtain ⟨k, rfl⟩ : ∃ k, m = k + 1 := ⟨m - 1, by omega⟩
    simp [Vm.run, hh]
  | cons hs _ ih =>
    obtain ⟨n, hn⟩ := ih hh
    refine ⟨n + 1, fun m hm => ?_⟩
    obtain ⟨k, rfl⟩ : ∃ k, m = k + 1 := ⟨m - 1, by omega⟩
    simp [Vm.run, hs, hn k (by omega)]

/-- **`Proc.run_correct`** — `Proc.compile_correct` restated for the bounded interpreter `Proc.Vm.run` that the
correspondence check executes against the real VM: for every sufficient step budget the run of the generated code ends
as the reference semantics prescribes -/
theorem run_correct (prog : SProgram) (fuel : Nat) (hw : ProgWf prog) :
    match Proc.Ref.run fuel prog.toAst with
    | (s', .normal) => ∃ n υ, (∀ m, n ≤ m → Vm.run (compile prog) m Vm.init = .halted υ) ∧ υ.out = s'.out
    | (s', .halted) => ∃ n υ, (∀ m, n ≤ m → Vm.run (compile prog) m Vm.init = .halted υ) ∧ υ.out = s'.out
    | (s', .error c p) => ∃ n υ, (∀ m, n ≤ m → Vm.run (compile prog) m Vm.init = .error c p υ) ∧ υ.out = s'.out
    | (_, .inexact) => True
    | (_, .outOfFuel) => True
    | (_, .exited) => False
    | (_, .illFormed) => False := by
  have h := compile_correct prog fuel hw
  generalize Proc.Ref.run fuel prog.toAst = r at h ⊢
  obtain ⟨s', o⟩ := r
  cases o with
  | normal =>
    obtain ⟨τ, υ, st, hh, ho⟩ := h
    obtain ⟨n, hn⟩ := run_of_steps _ st hh
    exact ⟨n, υ, fun m hm => by obtain ⟨ω, h1, h2⟩ := hn m hm; rw [h1, h2], ho⟩
  | halted =>
    obtain ⟨τ, υ, st, hh, ho⟩ := h
    obtain ⟨n, hn⟩ := run_of_steps _ st hh
    exact ⟨n, υ, fun m hm => by obtain ⟨ω, h1, h2⟩ := hn m hm; rw [h1, h2], ho⟩
  | error c p =>
    obtain ⟨τ, υ, st, hh, ho⟩ := h
    obtain ⟨n, hn⟩ := run_of_steps_error _ st hh
    exact ⟨n, υ, hn, ho⟩
  | inexact => trivial
  | outOfFuel => trivial
  | exited => exact h
  | illFormed => exact h

/-- `Proc.compile_correct` with the premise in its decidable form (`Thm/ProcWf.lean`): what a driver can evaluate on a
concrete linted program -/
theorem compile_correct_checked (prog : SProgram) (fuel : Nat) (hw : progWfB prog = true) :
    match Proc.Ref.run fuel prog.toAst with
    | (s', .normal) => HaltsWith (compile prog) Vm.init s'.out
    | (s', .halted) => HaltsWith (compile prog) Vm.init s'.out
    | (s', .error c p) => ErrsWith (compile prog) Vm.init c p s'.out
    | (_, .inexact) => True
    | (_, .outOfFuel) => True
    | (_, .exited) => False
    | (_, .illFormed) => False :=
  compile_correct prog fuel (progWfB_sound prog hw)

/-! #### the statement proposed in `RbModel.Proc.Spec` -/

theorem steps_spec {code : Code} {σ τ : Vm} (h : Steps code σ τ) : RbModel.Proc.Spec.Steps code σ τ := by
  induction h with
  | refl σ => exact .refl σ
  | cons hs _ ih => exact .cons hs ih

/-- **the proposed statement `Proc.Spec.CompileCorrect` holds with the premise `ProgWf`** -/
theorem compileCorrect_spec : RbModel.Proc.Spec.CompileCorrect ProgWf := by
  intro prog fuel hw
  have h := compile_correct prog fuel hw
  generalize Proc.Ref.run fuel prog.toAst = r at h ⊢
  obtain ⟨s', o⟩ := r
  cases o with
  | normal =>
    obtain ⟨τ, υ, st, hh, ho⟩ := h
    exact ⟨τ, υ, steps_spec st, hh, ho⟩
  | halted =>
    obtain ⟨τ, υ, st, hh, ho⟩ := h
    exact ⟨τ, υ, steps_spec st, hh, ho⟩
  | error c p =>
    obtain ⟨τ, υ, st, hh, ho⟩ := h
    exact ⟨τ, υ, steps_spec st, hh, ho⟩
  | inexact => trivial
  | outOfFuel => trivial
  | exited => trivial
  | illFormed => trivial

/-! #### non-vacuity: a concrete program with a DIM SHARED variable, a FUNCTION (by-value argument) and a STATIC SUB
(by-reference argument, a persistent counter, a write to the shared variable)

    DIM SHARED G%
    X% = F%(2) : S X% : S X% : PRINT X%; G%
    FUNCTION F%(A%) : F% = A% + 1 : END FUNCTION
    SUB S(B%) STATIC : C% = C% + 1 : G% = G% + C% : B% = B% * 2 : END SUB
-/

private def demoProg : SProgram :=
  { slots := [.int],
    gslots := [.int],
    body :=
      .seq (.dim ⟨true, 0⟩ .int ⟨1, 12⟩)
      (.seq (.assign ⟨false, 0⟩ .int (.callFn 0 (.cons (.lit (.int 2) ⟨2, 9⟩) "A" .int .nil) .int ⟨2, 6⟩) ⟨2, 1⟩)
      (.seq (.callSub 1 (.cons (.var ⟨false, 0⟩ .int ⟨3, 3⟩) "B" .int .nil) ⟨3, 1⟩)
      (.seq (.callSub 1 (.cons (.var ⟨false, 0⟩ .int ⟨4, 3⟩) "B" .int .nil) ⟨4, 1⟩)
      (.seq (.print [.expr (.var ⟨false, 0⟩ .int ⟨5, 7⟩), .semicolon, .expr (.var ⟨true, 0⟩ .int ⟨5, 11⟩)] ⟨5, 1⟩) .skip)))),
    procs :=
      [ { result := some .int, name := "F%", params := [("A", .int)], slots := [.int, .int],
          body := .seq (.assign ⟨false, 1⟩ .int (.bin .plus (.var ⟨false, 0⟩ .int ⟨7, 8⟩) (.lit (.int 1) ⟨7, 13⟩) .int ⟨7, 11⟩) ⟨7, 3⟩) .skip,
          pos := ⟨6, 1⟩ },
        { result := none, name := "S", params := [("B", .int)], slots := [.int, .int],
          body :=
            .seq (.sdim 1 .int ⟨10, 3⟩)
            (.seq (.assign ⟨false, 1⟩ .int (.bin .plus (.var ⟨false, 1⟩ .int ⟨10, 8⟩) (.lit (.int 1) ⟨10, 13⟩) .int ⟨10, 11⟩) ⟨10, 3⟩)
            (.seq (.assign ⟨true, 0⟩ .int (.bin .plus (.var ⟨true, 0⟩ .int ⟨11, 8⟩) (.var ⟨false, 1⟩ .int ⟨11, 13⟩) .int ⟨11, 11⟩) ⟨11, 3⟩)
            (.seq (.assign ⟨false, 0⟩ .int (.bin .multiply (.var ⟨false, 0⟩ .int ⟨12, 8⟩) (.lit (.int 2) ⟨12, 13⟩) .int ⟨12, 11⟩) ⟨12, 3⟩) .skip))),
          pos := ⟨9, 1⟩, static := true } ] }

/-- the premise of `Proc.compile_correct` is satisfiable: the demo program passes the checker -/
example : progWfB demoProg = true := by decide

end RbThm.ProcSim
