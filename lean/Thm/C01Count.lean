import Thm.C01Cond2
/-!
C01 — a loop that runs a symbolic number of rounds.

`Thm.C01Cond` / `Thm.C01Cond2` prove whole-program families whose loops run at most once.  This file adds one family
whose number of rounds (and therefore the number of steps of the VM model, and the fuel of the reference run) is not
bounded: for EVERY `n ≤ 2147483647`

    V& = n : WHILE V& : PRINT "w" : V& = V& - 1 : WEND : PRINT "end"

prints `w` exactly `n` times and then `end` — on the VM model running the generated code (`vm_while_counts`).  The
condition is the bare LONG variable; `V& - 1` is LONG − INTEGER, typed LONG by the operator table, computed by
`Variant::minus` with the LONG range check (never Overflow here: `0 ≤ k`), stored without a conversion.  The literal `n`
is what the parser writes: an INTEGER literal for `n ≤ 32767` (converted by the assignment), a LONG literal above.

Method, as in `C01Cond2`: the reference side symbolically (`while_counts`: induction on the value of the variable, fuel
`k + 3`; `countProg_ref`: fuel `n + 5`), the program accepted by the checker for every `n` (`countProg_wf`), and the VM
statement through `vmPrints_of_ref`, i.e. the simulation theorem `C01_core_correct_checked`; nothing is evaluated on
the VM.  `vm_while_counts_length`: the output has `3 * n + 5` characters, for every `n`.

The hypothesis `n ≤ 2147483647` is the range of the type: `V& = 2147483648` is `Overflow` at the literal (1:6) on the
real interpreter (the literal is a DOUBLE, the assignment's conversion to LONG fails), so the family ends there.  The
real interpreter prints the same bytes for `n = 0`, `n = 3` and `n = 100000` (300005 bytes = `3 * n + 5`).

Not proved here: the same for an INTEGER / SINGLE / DOUBLE counter, a step other than 1, and `DO` loops with a counter.
-/
namespace RbThm.C01Count
open RbModel RbModel.Num RbModel.Ast RbModel.Src RbModel.Core RbModel.CoreVm RbModel.Ref RbModel.CoreWf
open RbThm.C01Sim RbThm.C01Cond RbThm.C01Cond2

set_option linter.unusedSimpArgs false
set_option linter.unusedVariables false

/-! ### the program -/

/-- the largest LONG -/
def bound : Nat := 2147483647

/-- the whole-number literal `n` as the parser writes it: INTEGER when it fits, else LONG -/
def numLit (n : Nat) : Val := if n ≤ 32767 then .int n else .long n

/-- `V& - 1`: LONG − INTEGER, statically LONG -/
def decr : Ast.Expr := .bin .minus (.var 0 .long ⟨4, 8⟩) (.lit (.int 1) ⟨4, 13⟩) .long ⟨4, 11⟩

/-- `PRINT "w" : V& = V& - 1` -/
def loopBody : SStmt :=
  .seq (printS ['w'] ⟨3, 3⟩ ⟨3, 9⟩) (.seq (.assign 0 .long decr ⟨4, 3⟩) .skip)

/-- `WHILE V& : PRINT "w" : V& = V& - 1 : WEND` -/
def loopS : SStmt := .while (.var 0 .long ⟨2, 7⟩) loopBody ⟨2, 1⟩

/-- `V& = n : WHILE V& : PRINT "w" : V& = V& - 1 : WEND : PRINT "end"` -/
def countProg (n : Nat) : SProgram :=
  { slots := [.long],
    body :=
      .seq (.assign 0 .long (.lit (numLit n) ⟨1, 6⟩) ⟨1, 1⟩)
      (.seq loopS
      (.seq (printS ['e', 'n', 'd'] ⟨6, 1⟩ ⟨6, 7⟩) .skip)) }

/-- `n` copies of the line `w` -/
def replicateLines : Nat → List Char
  | 0 => []
  | n + 1 => 'w' :: '\r' :: '\n' :: replicateLines n

theorem replicateLines_length (n : Nat) : (replicateLines n).length = 3 * n := by
  induction n with
  | zero => rfl
  | succ n ih => simp only [replicateLines, List.length_cons, ih]; omega

/-! ### 1. accepted by the checker, for every `n` -/

theorem countProg_wf (n : Nat) : wfTopB (countProg n).slots (countProg n).body = true := by
  simp [countProg, loopS, loopBody, decr, printS, wfTopB, wfB, wfElifsB, condB, slotsB, exprWtB, itemsB, isSkipB,
    Ast.Expr.ty, litS]
  decide

/-! ### 2. the loop, over the reference semantics -/

/-- the output device after `k` rounds `PRINT "w"` -/
def rounds (p : Print.WritePrinter) : Nat → Print.WritePrinter
  | 0 => p
  | k + 1 => rounds ((p.print ['w']).println) k

theorem rounds_out (p : Print.WritePrinter) (k : Nat) : (rounds p k).out = p.out ++ replicateLines k := by
  induction k generalizing p with
  | zero => simp [rounds, replicateLines]
  | succ k ih =>
    rw [rounds, ih]
    simp [replicateLines, Print.WritePrinter.print, Print.WritePrinter.println, Print.WritePrinter.printAsIs,
      Print.WritePrinter.printRest, Print.splitCrLf, Print.isCrLf]

/-- a state of the one-variable program -/
def stOf (v : Val) (p : Print.WritePrinter) (d : List Val) (i : Nat) : St :=
  { env := [v], out := p, data := d, dataIdx := i }

/-- `V& - 1` at `V& = k + 1`: the LONG `k`; no Overflow, no conversion -/
theorem evalTo_decr (k : Nat) (hk : k + 1 ≤ bound) :
    Ref.evalTo [.long ((k + 1 : Nat) : Int)] decr .long = .ok (.long (k : Int)) := by
  have hr : inLongRange ((k : Int) + 1 - 1) = true := by
    simp only [inLongRange, Bool.and_eq_true, decide_eq_true_eq, bound] at hk ⊢
    omega
  have hb : Gen.NumTables.binType .minus .long .int = some .long := by decide +kernel
  simp only [Ref.evalTo, decr, Ref.eval, ERes.bind, List.getD_cons_zero, Ref.binStep, vmBin, minus, arith, longResult,
    Arith.onInt, Int.natCast_add, Int.cast_ofNat_Int, Int.natCast_one, hr, if_true, Ref.lift, Ast.Expr.ty, storeCast]
  simp

/-- one round: the body at `V& = k + 1` prints one line and leaves `V& = k` -/
theorem body_round (fuel k : Nat) (hk : k + 1 ≤ bound) (p : Print.WritePrinter) (d : List Val) (i : Nat) :
    Ref.exec (fuel + 3) (desugar loopBody) (stOf (.long ((k + 1 : Nat) : Int)) p d i) =
      (stOf (.long (k : Int)) ((p.print ['w']).println) d i, .normal) := by
  simp only [loopBody, printS, desugar, Ref.exec, stOf, printItems, Ref.eval, litS, printValue, endsInSeparator,
    evalTo_decr k hk, St.set, List.set, Print.valueText, Bool.false_eq_true, if_false]

/-- **`while_counts`** — the loop lemma: from `V& = k` (any `k` up to the largest LONG) and any output device, data and
READ cursor, `WHILE V& : PRINT "w" : V& = V& - 1 : WEND` with fuel `k + 3` ends normally with `V& = 0` after exactly
`k` rounds -/
theorem while_counts (k : Nat) (hk : k ≤ bound) (p : Print.WritePrinter) (d : List Val) (i : Nat) :
    Ref.exec (k + 3) (desugar loopS) (stOf (.long (k : Int)) p d i) = (stOf (.long 0) (rounds p k) d i, .normal) := by
  induction k generalizing p with
  | zero =>
    simp only [loopS, desugar]
    rw [while_bare_condition _ _ _ _ _ (.long 0) rfl trivial, if_pos (by decide)]
    rfl
  | succ k ih =>
    have hz : ¬ IsZero (.long ((k + 1 : Nat) : Int)) := by rw [isZero_long]; omega
    have hb := body_round k k hk p d i
    have hi := ih (by omega) ((p.print ['w']).println)
    simp only [loopS, desugar] at hb hi ⊢
    rw [while_bare_condition _ _ _ _ _ (.long ((k + 1 : Nat) : Int)) rfl trivial, if_neg hz, hb, thenIfNormal_normal,
      hi]
    rfl

/-- every larger fuel gives the same -/
theorem while_counts_any_fuel (k : Nat) (hk : k ≤ bound) (p : Print.WritePrinter) (d : List Val) (i : Nat)
    (j : Nat) :
    Ref.exec (k + 3 + j) (desugar loopS) (stOf (.long (k : Int)) p d i) =
      (stOf (.long 0) (rounds p k) d i, .normal) :=
  C01.exec_fuel_mono _ _ _ _ _ _ (while_counts k hk p d i) rfl

/-! ### 3. the whole program, over the reference semantics -/

/-- `V& = n`: the literal the parser writes is stored as the LONG `n` -/
theorem evalTo_numLit (env : List Val) (n : Nat) (q : Pos) :
    Ref.evalTo env (.lit (numLit n) q) .long = .ok (.long (n : Int)) := by
  unfold numLit
  by_cases h : n ≤ 32767
  · simp only [h, if_true, Ref.evalTo, Ref.eval, ERes.bind, Ast.Expr.ty, Val.tag, storeCast]
    rfl
  · simp only [h, if_false, Ref.evalTo, Ref.eval, ERes.bind, Ast.Expr.ty, Val.tag, storeCast]
    rfl

theorem countProg_ref (n : Nat) (hn : n ≤ bound) :
    refPrintsB (Ref.run (n + 5) (countProg n).toAst) (replicateLines n ++ ['e', 'n', 'd', '\r', '\n']) = true := by
  apply refPrintsB_complete
  have hl := while_counts n hn Print.WritePrinter.new [] 0
  simp only [stOf] at hl
  simp only [Ref.run, countProg, SProgram.toAst, desugar, dataOf, List.map, List.append_nil]
  rw [show n + 5 = (n + 2) + 1 + 1 + 1 from rfl]
  simp only [Ref.exec, evalTo_numLit, St.set, List.set, Ref.zeroOf]
  have hd : dataOf loopS = [] := rfl
  simp only [hd, printS, dataOf, List.append_nil, hl, desugar, Ref.exec, printItems, Ref.eval, litS, printValue,
    endsInSeparator, Print.valueText, Bool.false_eq_true, if_false]
  refine ⟨trivial, ?_⟩
  simp [rounds_out, Print.WritePrinter.print, Print.WritePrinter.println, Print.WritePrinter.printAsIs,
    Print.WritePrinter.printRest, Print.splitCrLf, Print.isCrLf, Print.WritePrinter.new]

/-! ### 4. the VM model running the generated code -/

/-- **`vm_while_counts`** — `V& = n : WHILE V& : PRINT "w" : V& = V& - 1 : WEND : PRINT "end"`: for every `n` up to the
largest LONG the VM model running the generated code halts (for every sufficient step budget) having printed `w`
exactly `n` times and then `end`.  The number of rounds, the number of VM steps and the reference fuel (`n + 5`) grow
with `n`; the proof is one induction on the reference side plus the simulation theorem. -/
theorem vm_while_counts (n : Nat) (hn : n ≤ bound) :
    VmPrints (countProg n) (replicateLines n ++ ['e', 'n', 'd', '\r', '\n']) :=
  vmPrints_of_ref _ (n + 5) _ (countProg_wf n) (countProg_ref n hn)

/-- **`vm_while_counts_length`** — the point of the exercise: the VM model's output has `3 * n + 5` characters, for
every `n` -/
theorem vm_while_counts_length (n : Nat) (hn : n ≤ bound) :
    ∃ n₀ υ, (∀ m, n₀ ≤ m → CoreVm.run (compile (countProg n)) m (Vm.init (countProg n).slots) = .halted υ) ∧
      υ.out.out.length = 3 * n + 5 := by
  obtain ⟨n₀, υ, hr, ho⟩ := vm_while_counts n hn
  refine ⟨n₀, υ, hr, ?_⟩
  rw [ho, List.length_append, replicateLines_length]
  rfl

/-- the VM model's run is a function of the budget, so the halting state (and its output) is unique: no budget gives a
different output or an error -/
theorem vm_while_counts_unique (n : Nat) (hn : n ≤ bound) :
    ∃ n₀, ∀ m, n₀ ≤ m → ∀ υ, CoreVm.run (compile (countProg n)) m (Vm.init (countProg n).slots) = .halted υ →
      υ.out.out = replicateLines n ++ ['e', 'n', 'd', '\r', '\n'] := by
  obtain ⟨n₀, υ, hr, ho⟩ := vm_while_counts n hn
  refine ⟨n₀, fun m hm υ' h => ?_⟩
  rw [hr m hm] at h
  cases h
  exact ho

/-! evaluated instances -/

/-- `n = 0`: the body never runs -/
example : VmPrints (countProg 0) ['e', 'n', 'd', '\r', '\n'] := vm_while_counts 0 (by decide)
/-- `n = 3` -/
example : VmPrints (countProg 3) ['w', '\r', '\n', 'w', '\r', '\n', 'w', '\r', '\n', 'e', 'n', 'd', '\r', '\n'] :=
  vm_while_counts 3 (by decide)
/-- `n = 100000`: a LONG literal, 100000 rounds; nothing is run -/
example : VmPrints (countProg 100000) (replicateLines 100000 ++ ['e', 'n', 'd', '\r', '\n']) :=
  vm_while_counts 100000 (by decide)
/-- the largest LONG -/
example : VmPrints (countProg 2147483647) (replicateLines 2147483647 ++ ['e', 'n', 'd', '\r', '\n']) :=
  vm_while_counts 2147483647 (by decide)
/-- the reference side of `n = 0` and `n = 3` again, by evaluation (fuel `n + 5`) -/
example : refPrintsB (Ref.run 5 (countProg 0).toAst) ['e', 'n', 'd', '\r', '\n'] = true := by decide +kernel
example : refPrintsB (Ref.run 8 (countProg 3).toAst)
    ['w', '\r', '\n', 'w', '\r', '\n', 'w', '\r', '\n', 'e', 'n', 'd', '\r', '\n'] = true := by decide +kernel
/-- and one unit of fuel less does not suffice for `n = 3`: the fuel really grows with `n` -/
example : refPrintsB (Ref.run 7 (countProg 3).toAst)
    ['w', '\r', '\n', 'w', '\r', '\n', 'w', '\r', '\n', 'e', 'n', 'd', '\r', '\n'] = false := by decide +kernel
/-- the loop lemma at a state that is not the initial one: 2 rounds after some output -/
example (d : List Val) (i : Nat) :
    (Ref.exec 5 (desugar loopS) (stOf (.long 2) (Print.WritePrinter.new.print ['x']) d i)).1.out.out =
      ['x', 'w', '\r', '\n', 'w', '\r', '\n'] := by
  have h := while_counts 2 (by decide) (Print.WritePrinter.new.print ['x']) d i
  exact congrArg (fun r => r.1.out.out) h

end RbThm.C01Count
