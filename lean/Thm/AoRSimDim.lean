import Thm.AoRSimExprHyp
import Thm.ArrLSimStmt
/-!
Layer AoR (arrays of records / of fixed-length strings), simulation part — `DIM a(l TO u, …) AS T` / `REDIM` of an array
(`case_dimArr`; pattern: `case_dimArr` + `dims_correct` of `Thm/ArrLSimStmt.lean`).

`BeginCollectArguments` opens an argument list; every bound is evaluated and joins it by `PushUnnamedByVal`
(`dim_dims_correct`, by recursion on the bound list); `AllocateArrayIntoA T` closes the list and builds the array
(`dim_allocArray_spec`: `argInts` / `toDimensions` / `dimsLenChecked` / `expand` against `Ref.convDims` / `Ref.dimArray`;
the default element is the allocated tree of the expanded element type, `ArrRel.fresh`); `VarPathName a · CopyAToVarPath`
stores it into the array variable (`Rel.storeArr`).  The integer lemmas `toDimensions_flat` / `dimsLenChecked_ok` are those
of the arrays layer.  Expression correctness for the bounds comes through the class `ExprOk`.
-/
namespace RbThm.AoRSim
set_option linter.unusedVariables false
set_option linter.unusedSimpArgs false
set_option linter.unusedSectionVars false
open RbModel RbModel.Num RbModel.AoR RbModel.AoR.Compile RbModel.AoR.Vm
open RbModel.Ast (Pos)
open RbModel.RecL (ETy FTy FFields expand zeroOf)
open RbModel.RecL.Vm (allocTy defaultVar)
open RbThm.AoRLen RbThm.ArrLNum RbThm.RecLTy RbThm.AoRTy

variable [ExprOk]

/-- what a piece of argument-collecting code leaves alone -/
structure DimArgStacks (σ τ : Vm) : Prop where
  vals : τ.vals = σ.vals
  paths : τ.paths = σ.paths
  regStack : τ.regStack = σ.regStack
  trace : τ.trace = σ.trace
  skip : σ.skipNewline = false → τ.skipNewline = false

theorem DimArgStacks.refl (σ : Vm) : DimArgStacks σ σ := ⟨rfl, rfl, rfl, rfl, id⟩

theorem DimArgStacks.trans {a b c : Vm} (h₁ : DimArgStacks a b) (h₂ : DimArgStacks b c) : DimArgStacks a c :=
  ⟨h₂.vals.trans h₁.vals, h₂.paths.trans h₁.paths, h₂.regStack.trans h₁.regStack, h₂.trace.trans h₁.trace,
    fun h => h₂.skip (h₁.skip h)⟩

/-- `⟦e⟧ · PushUnnamedByVal`: the scalar joins the argument list being collected -/
theorem dim_pushVal_correct (code : Code) (sc : Scope) (e : AoR.Expr) (q : Pos) (off : Nat) (s : St) (σ : Vm)
    (c : Call) (ctx0 : List Call) (hc : CodeAt code off (compileExpr e ++ [(CInstr.pushByVal, q)]))
    (hpc : σ.pc = off) (hr : Rel sc s σ) (hw : EWf sc e) (hctx : σ.ctx = c :: ctx0) :
    match AoR.Ref.evalS s.env s.arrs e with
    | .ok v => ∃ τ, Steps code σ τ ∧ τ.pc = off + (compileExpr e).length + 1 ∧ Rel sc s τ ∧
        τ.ctx = { c with args := c.args ++ [(.leaf v, none)] } :: ctx0 ∧ DimArgStacks σ τ
    | .err c' q' => ErrsWith code σ c' q' s.out
    | .inexact => True
    | .illFormed => True := by
  have he := evalS_correct code sc e (expr_correct code sc e) off s σ hc.append_left hpc hr hw
  generalize AoR.Ref.evalS s.env s.arrs e = r at he ⊢
  cases r with
  | err c' q' => exact he
  | inexact => trivial
  | illFormed => trivial
  | ok v =>
    obtain ⟨τ, st, hp, ha, hrel, hss⟩ := he
    have hpv : code[τ.pc]? = some (CInstr.pushByVal, q) := by rw [hp]; exact hc.append_right.head
    have hctxτ : τ.ctx = c :: ctx0 := by rw [hss.ctx, hctx]
    refine ⟨Vm.advance { τ with ctx := { c with args := c.args ++ [(.leaf v, none)] } :: ctx0 },
      st.trans (Steps.one ?_), by simp only [Vm.advance, hp], hrel.same rfl rfl rfl rfl rfl rfl rfl rfl, rfl,
      ⟨hss.vals, hss.paths, hss.regStack, hss.trace, hss.skip⟩⟩
    simp only [Vm.step, hpv, hctxτ, ha]

/-- the evaluated bounds as the argument list of `AllocateArrayIntoA` -/
def dimFlatArgs : List (Val × Val) → List (RV × Option Path)
  | [] => []
  | (l, h) :: rest => (.leaf l, none) :: (.leaf h, none) :: dimFlatArgs rest

/-- the bound expressions of a DIM, left to right, collected as arguments -/
theorem dim_dims_correct (code : Code) (sc : Scope) (p : Pos) : ∀ (dims : Dims) (off : Nat) (s : St) (σ : Vm)
    (c : Call) (ctx0 : List Call), CodeAt code off (compileDims p dims) → σ.pc = off → Rel sc s σ → DimsWf sc dims →
    σ.ctx = c :: ctx0 →
    match AoR.Ref.evalDims s.env s.arrs dims with
    | .ok ds => ∃ τ, Steps code σ τ ∧ τ.pc = off + (compileDims p dims).length ∧ Rel sc s τ ∧
        τ.ctx = { c with args := c.args ++ dimFlatArgs ds } :: ctx0 ∧ DimArgStacks σ τ
    | .err c' q' => ErrsWith code σ c' q' s.out
    | .inexact => True
    | .illFormed => True
  | .nil, off, s, σ, c, ctx0, hc, hpc, hr, hw, hctx => by
    simp only [AoR.Ref.evalDims, compileDims, List.length_nil, Nat.add_zero, dimFlatArgs, List.append_nil]
    exact ⟨σ, Steps.refl σ, hpc, hr, hctx, DimArgStacks.refl σ⟩
  | .cons none hi rest, off, s, σ, c, ctx0, hc, hpc, hr, hw, hctx => by
    simp only [DimsWf] at hw
    obtain ⟨hwh, _, hwr⟩ := hw
    simp only [compileDims] at hc
    subst hpc
    have h0 : code[σ.pc]? = some (CInstr.loadA (.int 0), p) := hc.append_left.append_left.append_left.head
    have h1 : code[σ.pc + 1]? = some (CInstr.pushByVal, p) := hc.append_left.append_left.append_left.tail.head
    let σ1 : Vm := Vm.advance (Vm.setA σ (.int 0))
    let σ2 : Vm := Vm.advance { σ1 with ctx := { c with args := c.args ++ [(.leaf (.int 0), none)] } :: ctx0 }
    have s1 : Vm.step code σ = .next σ1 := by simp only [Vm.step, h0]; rfl
    have s2 : Vm.step code σ1 = .next σ2 := by simp only [Vm.step, σ1, Vm.advance, Vm.setA, h1, hctx]; rfl
    have hr2 : Rel sc s σ2 := hr.same rfl rfl rfl rfl rfl rfl rfl rfl
    have hch : CodeAt code (σ.pc + 2) (compileExpr hi ++ [(CInstr.pushByVal, hi.pos)]) := by
      have h := hc.append_left
      rw [List.append_assoc] at h
      exact h.append_right
    have hh := dim_pushVal_correct code sc hi hi.pos (σ.pc + 2) s σ2 _ ctx0 hch rfl hr2 hwh rfl
    simp only [AoR.Ref.evalDims, RecL.Ref.ERes.bind]
    have pre : Steps code σ σ2 := Steps.cons s1 (Steps.one s2)
    generalize AoR.Ref.evalS s.env s.arrs hi = rh at hh ⊢
    cases rh with
    | err c' q' => exact ErrsWith.of_steps pre hh
    | inexact => trivial
    | illFormed => trivial
    | ok h =>
      obtain ⟨τ, st, hp, hrel, hctxτ, hst⟩ := hh
      have hcr : CodeAt code τ.pc (compileDims p rest) := by
        have := hc.append_right
        simp only [List.length_append, List.length_cons, List.length_nil] at this
        refine this.at ?_
        rw [hp]; omega
      have hrr := dim_dims_correct code sc p rest τ.pc s τ _ ctx0 hcr rfl hrel hwr hctxτ
      simp only [RecL.Ref.ERes.bind]
      generalize AoR.Ref.evalDims s.env s.arrs rest = rr at hrr ⊢
      cases rr with
      | err c' q' => exact ErrsWith.of_steps (pre.trans st) hrr
      | inexact => trivial
      | illFormed => trivial
      | ok ds =>
        obtain ⟨υ, st2, hp2, hrel2, hctx2, hst2⟩ := hrr
        refine ⟨υ, pre.trans (st.trans st2), ?_, hrel2, ?_, ?_⟩
        · rw [hp2, hp]
          simp only [compileDims, List.length_append, List.length_cons, List.length_nil]; omega
        · rw [hctx2]; simp only [dimFlatArgs, List.append_assoc, List.cons_append, List.nil_append]
        · exact (DimArgStacks.trans (a := σ) (b := σ2) ⟨rfl, rfl, rfl, rfl, id⟩ hst).trans hst2
  | .cons (some lo) hi rest, off, s, σ, c, ctx0, hc, hpc, hr, hw, hctx => by
    simp only [DimsWf] at hw
    obtain ⟨hwl, _, hwh, _, hwr⟩ := hw
    simp only [compileDims] at hc
    have hcl : CodeAt code off (compileExpr lo ++ [(CInstr.pushByVal, lo.pos)]) :=
      hc.append_left.append_left.append_left
    have hl := dim_pushVal_correct code sc lo lo.pos off s σ c ctx0 hcl hpc hr hwl hctx
    simp only [AoR.Ref.evalDims, RecL.Ref.ERes.bind]
    generalize AoR.Ref.evalS s.env s.arrs lo = rl at hl ⊢
    cases rl with
    | err c' q' => exact hl
    | inexact => trivial
    | illFormed => trivial
    | ok l =>
      obtain ⟨σ2, pre, hp0, hr2, hctx2, hst0⟩ := hl
      have hch : CodeAt code σ2.pc (compileExpr hi ++ [(CInstr.pushByVal, hi.pos)]) := by
        have h := hc.append_left
        rw [List.append_assoc] at h
        refine h.append_right.at ?_
        rw [hp0]; simp only [List.length_append, List.length_cons, List.length_nil]; omega
      have hh := dim_pushVal_correct code sc hi hi.pos σ2.pc s σ2 _ ctx0 hch rfl hr2 hwh hctx2
      simp only [RecL.Ref.ERes.bind]
      generalize AoR.Ref.evalS s.env s.arrs hi = rh at hh ⊢
      cases rh with
      | err c' q' => exact ErrsWith.of_steps pre hh
      | inexact => trivial
      | illFormed => trivial
      | ok h =>
        obtain ⟨τ, st, hp, hrel, hctxτ, hst⟩ := hh
        have hcr : CodeAt code τ.pc (compileDims p rest) := by
          have := hc.append_right
          simp only [List.length_append, List.length_cons, List.length_nil] at this
          refine this.at ?_
          rw [hp, hp0]; omega
        have hrr := dim_dims_correct code sc p rest τ.pc s τ _ ctx0 hcr rfl hrel hwr hctxτ
        simp only [RecL.Ref.ERes.bind]
        generalize AoR.Ref.evalDims s.env s.arrs rest = rr at hrr ⊢
        cases rr with
        | err c' q' => exact ErrsWith.of_steps (pre.trans st) hrr
        | inexact => trivial
        | illFormed => trivial
        | ok ds =>
          obtain ⟨υ, st2, hp2, hrel2, hctx2', hst2⟩ := hrr
          refine ⟨υ, pre.trans (st.trans st2), ?_, hrel2, ?_, ?_⟩
          · rw [hp2, hp, hp0]
            simp only [compileDims, List.length_append, List.length_cons, List.length_nil]; omega
          · rw [hctx2']; simp only [dimFlatArgs, List.append_assoc, List.cons_append, List.nil_append]
          · exact (hst0.trans hst).trans hst2

/-- conversion of the collected bounds to INTEGER: `argInts` on the argument list is `convDims` on the value pairs -/
theorem dim_argInts_flat (p : Pos) : ∀ (ds : List (Val × Val)),
    match AoR.Ref.convDims p ds with
    | .ok bs => argInts (dimFlatArgs ds) = .inl (.ok (RbThm.ArrLSim.flatInts bs))
    | .err c q => q = p ∧ ∃ e, argInts (dimFlatArgs ds) = .inl (.error e) ∧ AoR.Ref.codeOf e = c
    | .inexact => True
    | .illFormed => True
  | [] => by simp only [AoR.Ref.convDims, dimFlatArgs, argInts, RbThm.ArrLSim.flatInts]
  | (l, h) :: rest => by
    have ih := dim_argInts_flat p rest
    simp only [AoR.Ref.convDims, dimFlatArgs, argInts]
    cases hl : cast l .int with
    | err e => simp only [AoR.Ref.toIndex, RecL.Ref.ERes.bind]; exact ⟨trivial, e, rfl, rfl⟩
    | inexact => simp only [AoR.Ref.toIndex, RecL.Ref.ERes.bind]
    | ok lv =>
      cases lv with
      | long _ => simp only [AoR.Ref.toIndex, RecL.Ref.ERes.bind]
      | sgl _ => simp only [AoR.Ref.toIndex, RecL.Ref.ERes.bind]
      | dbl _ => simp only [AoR.Ref.toIndex, RecL.Ref.ERes.bind]
      | str _ => simp only [AoR.Ref.toIndex, RecL.Ref.ERes.bind]
      | int lo =>
        simp only [AoR.Ref.toIndex, RecL.Ref.ERes.bind]
        cases hh : cast h .int with
        | err e => simp only [AoR.Ref.toIndex, RecL.Ref.ERes.bind]; exact ⟨trivial, e, rfl, rfl⟩
        | inexact => simp only [AoR.Ref.toIndex, RecL.Ref.ERes.bind]
        | ok hv =>
          cases hv with
          | long _ => simp only [AoR.Ref.toIndex, RecL.Ref.ERes.bind]
          | sgl _ => simp only [AoR.Ref.toIndex, RecL.Ref.ERes.bind]
          | dbl _ => simp only [AoR.Ref.toIndex, RecL.Ref.ERes.bind]
          | str _ => simp only [AoR.Ref.toIndex, RecL.Ref.ERes.bind]
          | int hi =>
            simp only [AoR.Ref.toIndex, RecL.Ref.ERes.bind]
            generalize AoR.Ref.convDims p rest = r at ih ⊢
            cases r with
            | ok bs => simp only [ih, RbThm.ArrLSim.flatInts]
            | err c q =>
              obtain ⟨hq, e, he, hc⟩ := ih
              exact ⟨hq, e, by simp only [he], hc⟩
            | inexact => trivial
            | illFormed => trivial

/-- what `AllocateArrayIntoA T` does with the collected bounds is what `Ref.dimArray` prescribes; the default element is the
allocated tree of the expanded element type -/
theorem dim_allocArray_spec (types : List FFields) (t : ETy) (ft : FTy) (he : expand types t = some ft) (p : Pos)
    (ds : List (Val × Val)) :
    match AoR.Ref.convDims p ds with
    | .ok bs =>
      if bs.any (fun b => decide (b.2 < b.1)) then allocArray types t (dimFlatArgs ds) = .err AoR.Ref.codeSubscript
      else if AoR.Ref.boxSize bs > AoR.Ref.sizeLimit then True
      else allocArray types t (dimFlatArgs ds) = .ok (Arr.VArray.new bs (allocTy ft))
    | .err c q => q = p ∧ allocArray types t (dimFlatArgs ds) = .err c
    | .inexact => True
    | .illFormed => True := by
  have h := dim_argInts_flat p ds
  generalize AoR.Ref.convDims p ds = r at h ⊢
  cases r with
  | inexact => trivial
  | illFormed => trivial
  | err c q =>
    obtain ⟨hq, e, he', hc⟩ := h
    exact ⟨hq, by simp only [allocArray, he', hc]⟩
  | ok bs =>
    simp only at h ⊢
    by_cases hany : bs.any (fun b => decide (b.2 < b.1)) = true
    · simp only [hany, if_true, allocArray, h, RbThm.ArrLSim.toDimensions_flat]
    · have hany' : bs.any (fun b => decide (b.2 < b.1)) = false := by simpa using hany
      simp only [hany', Bool.false_eq_true, if_false]
      by_cases hbig : AoR.Ref.boxSize bs > AoR.Ref.sizeLimit
      · simp only [hbig, if_true]
      · simp only [hbig, if_false]
        have hbig' : ¬ ArrL.Ref.boxSize bs > ArrL.Ref.sizeLimit := hbig
        have hsm : ArrL.Ref.boxSize bs ≤ 1000000 := by
          simp only [ArrL.Ref.sizeLimit] at hbig'; omega
        have hlen := RbThm.ArrLSim.dimsLenChecked_ok bs 1 hany' (by omega)
        rw [Nat.one_mul] at hlen
        simp only [allocArray, h, RbThm.ArrLSim.toDimensions_flat, hany', Bool.false_eq_true, if_false, hlen, hbig, he]

/-- `DIM a(l TO u, …) AS T` / `REDIM`: the bounds as arguments, `AllocateArrayIntoA T`, the store into the array
variable -/
theorem case_dimArr (code : Code) (fuel : Nat) (ih : IHle code fuel) (a : Nat) (t : ETy) (dims : Dims) (p : Pos)
    (sc : Scope) (sfx : String) (off : Nat) (s : St) (σ : Vm)
    (hc : CodeAt code off (compileStmt sfx off (.dimArr a t dims p))) (hpc : σ.pc = off)
    (hr : Rel sc s σ) (hw : Wf sc (.dimArr a t dims p)) (ha : ActInv σ) :
    StmtPost code sc (sizeStmt (.dimArr a t dims p)) off σ
      (AoR.Ref.exec (fuel + 1) (desugar (.dimArr a t dims p)) s) := by
  simp only [compileStmt] at hc
  simp only [Wf] at hw
  obtain ⟨hwa, hwt, hwd⟩ := hw
  obtain ⟨ft, hft⟩ := Option.isSome_iff_exists.mp hwt
  have hfts : expand s.types t = some ft := by rw [hr.types]; exact hft
  subst hpc
  have h0 : code[σ.pc]? = some (CInstr.beginArgs, p) := hc.append_left.append_left.head
  let σ1 : Vm := Vm.advance { σ with ctx := ⟨[], none⟩ :: σ.ctx }
  have s1 : Vm.step code σ = .next σ1 := by simp only [Vm.step, h0]; rfl
  have hr1 : Rel sc s σ1 := hr.same rfl rfl rfl rfl rfl rfl rfl rfl
  have hcd : CodeAt code (σ.pc + 1) (compileDims p dims) := by
    simpa using hc.append_left.append_right
  have hd := dim_dims_correct code sc p dims (σ.pc + 1) s σ1 ⟨[], none⟩ σ.ctx hcd rfl hr1 hwd rfl
  simp only [desugar, AoR.Ref.exec, AoR.Ref.dimArray, hfts, sizeStmt]
  generalize AoR.Ref.evalDims s.env s.arrs dims = rd at hd ⊢
  cases rd with
  | err c q => exact ErrsWith.of_steps (Steps.one s1) hd
  | inexact => trivial
  | illFormed => trivial
  | ok ds =>
    obtain ⟨τ, st, hp, hrel, hctx, hst⟩ := hd
    have hctx' : τ.ctx = ⟨dimFlatArgs ds, none⟩ :: σ.ctx := by simpa using hctx
    have pre : Steps code σ τ := (Steps.one s1).trans st
    have hal : code[τ.pc]? = some (CInstr.allocArr t, p) := by
      have := hc.append_right.head
      simp only [List.length_append, List.length_singleton] at this
      rw [hp, ← this]; congr 1; omega
    have hap : code[τ.pc + 1]? = some (CInstr.arrPath a, p) := by
      have := hc.append_right.tail.head
      simp only [List.length_append, List.length_singleton] at this
      rw [hp, ← this]; congr 1; omega
    have hcw : code[τ.pc + 1 + 1]? = some (CInstr.copyAToVarPath, p) := by
      have := hc.append_right.tail.tail.head
      simp only [List.length_append, List.length_singleton] at this
      rw [hp, ← this]; congr 1; omega
    have hftv : expand τ.types t = some ft := by rw [hrel.vtypes]; exact hft
    have hspec := dim_allocArray_spec τ.types t ft hftv p ds
    simp only [RecL.Ref.ERes.bind]
    generalize AoR.Ref.convDims p ds = rc at hspec ⊢
    cases rc with
    | inexact => trivial
    | illFormed => trivial
    | err c q =>
      obtain ⟨hq, hall⟩ := hspec
      subst hq
      simp only [AoR.Ref.outcomeOf, StmtPost]
      refine ⟨τ, { τ with ctx := σ.ctx }, pre, ?_, hrel.out⟩
      simp only [Vm.step, hal, hctx', hall]
    | ok bs =>
      simp only at hspec ⊢
      by_cases hany : bs.any (fun b => decide (b.2 < b.1)) = true
      · simp only [hany, if_true] at hspec ⊢
        simp only [StmtPost]
        refine ⟨τ, { τ with ctx := σ.ctx }, pre, ?_, hrel.out⟩
        simp only [Vm.step, hal, hctx', hspec]
      · have hany' : bs.any (fun b => decide (b.2 < b.1)) = false := by simpa using hany
        simp only [hany', Bool.false_eq_true, if_false] at hspec ⊢
        by_cases hbig : AoR.Ref.boxSize bs > AoR.Ref.sizeLimit
        · simp only [hbig, if_true, StmtPost]
        · simp only [hbig, if_false] at hspec ⊢
          let V : VArr := Arr.VArray.new bs (allocTy ft)
          let τ1 : Vm := Vm.advance { Vm.setRA τ V.toRV with ctx := σ.ctx }
          let τ2 : Vm := Vm.advance { τ1 with paths := ⟨.arr a, [], []⟩ :: τ.paths }
          let τ3 : Vm := Vm.advance { τ2 with arrs := τ.arrs.set a (some V), paths := τ.paths }
          have t1 : Vm.step code τ = .next τ1 := by
            simp only [Vm.step, hal, hctx', hspec]; rfl
          have t2 : Vm.step code τ1 = .next τ2 := by
            simp only [Vm.step, τ1, Vm.advance, Vm.setRA, hap]; rfl
          have halt : a < τ.arrs.length := by
            rw [hrel.arrs.lenV]; exact (List.getElem?_eq_some_iff.mp hwa).1
          have t3 : Vm.step code τ2 = .next τ3 := by
            simp only [Vm.step, τ2, τ1, Vm.advance, Vm.setRA, hcw, writePath, VArr.toRV, halt, List.isEmpty_nil,
              decide_true, Bool.and_self, if_true]; rfl
          refine ⟨τ3, pre.trans (Steps.cons t1 (Steps.cons t2 (Steps.one t3))), ?_, ?_, ?_⟩
          · simp only [τ3, τ2, τ1, Vm.advance, Vm.setRA, hp, ← len_dims_size p dims]; omega
          · exact hrel.storeArr hwa hft (ArrRel.fresh hrel.twf hft bs) rfl rfl rfl rfl rfl rfl rfl rfl
          · exact ⟨hst.vals, hst.paths, hst.regStack, rfl, hst.trace, hst.skip⟩

end RbThm.AoRSim
