import Thm.ProcJSimBase
/-!
Layer "procedures ∪ jumps", simulation part — `PRINT` (port of `Thm/ProcSimPrint.lean`).

Generated shape: `PrintSetPrinterType; LoadIntoA 0; PrintSetFormatStringFromA`; per item the expression followed by
`PrintValueFromA`, or `PrintComma` / `PrintSemicolon`; `PrintEnd`.

An item expression may call a FUNCTION that prints (the state is threaded through the items, every expression is run by the
expression hypothesis at its own amount of fuel), and the PRINT flag (`should_skip_new_line`) is not part of `Rel`.  The flag
is followed explicitly: after a non-empty item list it is `endsInSeparator items` whatever it was before (a value lowers it, a
separator raises it, and what a callee did to it in between is overwritten by the item's own `PrintValueFromA`); for an empty
item list it is what it was after the statement's head, and that is `false`: `PrintSetPrinterType` clears the flag
(`head_steps`).  `PrintEnd` always leaves the flag `false`.  A PRINT defines no label: seek mode cannot enter it
(`Entry.of_nolabels`); the GOSUB stack is left alone (an item's FUNCTION call leaves it as it was: `SameStacks`).
-/
set_option linter.unusedVariables false
set_option linter.unusedSimpArgs false

namespace RbThm.ProcJSim.PjPrint
open RbModel RbModel.ProcJ RbModel.ProcJ.Compile RbModel.ProcJ.Vm
open RbModel.Num hiding Expr
open RbModel.Ast (Pos)
open RbModel.Proc (Var SlotTabs Expr Args PrintItem CaseExpr ProcDecl zeroOf Sigs sigsOf)
open RbModel.Proc.Compile (Layout Layout.addr sizeExpr sizePush refCount sizeExprTo sizeSubCall sizeItems sizeCaseExpr sizeConds
  sizeExit labelName stepSuffix maxPos)
open RbModel.Proc.Vm (Regs Regs.new Frame CtxState getVar setVar curVars modCur curStatic applyArgs readVars binInstr)
open RbModel.ProcJ.Ref (Outcome Mode Act)
open RbThm.ProcJLen
open RbThm.ProcSim (Scope ItemsWf)

/-! ### the flag -/

def isSep : PrintItem → Bool
  | .expr _ => false
  | _ => true

/-- `should_skip_new_line` after the items of a PRINT statement, starting from `b` -/
def flagAfter (b : Bool) : List PrintItem → Bool
  | [] => b
  | it :: rest => flagAfter (isSep it) rest

theorem flagAfter_eq (items : List PrintItem) (b : Bool) :
    flagAfter b items = if items = [] then b else RbModel.Proc.Ref.endsInSeparator items := by
  induction items generalizing b with
  | nil => rfl
  | cons it rest ih =>
    simp only [flagAfter, ih, reduceCtorEq, if_false]
    cases rest with
    | nil => cases it <;> rfl
    | cons y r => cases it <;> simp [RbModel.Proc.Ref.endsInSeparator]

/-- what the items leave alone (the PRINT flag is followed separately) -/
structure Stk (σ τ : Vm) : Prop where
  vals : τ.vals = σ.vals
  paths : τ.paths = σ.paths
  regStack : τ.regStack = σ.regStack
  rets : τ.rets = σ.rets
  marks : τ.marks = σ.marks
  gosubs : τ.gosubs = σ.gosubs
  trace : τ.trace = σ.trace

theorem Stk.refl (σ : Vm) : Stk σ σ := ⟨rfl, rfl, rfl, rfl, rfl, rfl, rfl⟩

theorem Stk.trans {a b c : Vm} (h₁ : Stk a b) (h₂ : Stk b c) : Stk a c :=
  ⟨h₂.vals.trans h₁.vals, h₂.paths.trans h₁.paths, h₂.regStack.trans h₁.regStack, h₂.rets.trans h₁.rets,
    h₂.marks.trans h₁.marks, h₂.gosubs.trans h₁.gosubs, h₂.trace.trans h₁.trace⟩

theorem Stk.of_same {σ τ : Vm} (h : SameStacks σ τ) : Stk σ τ :=
  ⟨h.vals, h.paths, h.regStack, h.rets, h.marks, h.gosubs, h.trace⟩

/-! ### the items -/

/-- what the code of an item list does, given what `Ref.printItems` says -/
def ItemsPost (W : World) (sc : Scope) (below : List CtxState) (items : List PrintItem) (off : Nat) (σ : Vm) :
    St × Outcome → Prop
  | (s', .normal) => ∃ τ, Steps W.code σ τ ∧ τ.pc = off + sizeItems items ∧ Rel W sc [] below s' τ ∧ Stk σ τ ∧
      τ.skipNewline = flagAfter σ.skipNewline items
  | (s', o) => ErrPost W.code σ s' o

theorem ItemsPost.of_err {W : World} {sc : Scope} {below : List CtxState} {items : List PrintItem} {off : Nat}
    {σ : Vm} {s' : St} {o : Outcome} (h : ErrPost W.code σ s' o) : ItemsPost W sc below items off σ (s', o) := by
  cases o with
  | normal => exact h.elim
  | exited => exact h
  | halted => exact h
  | jump L => exact h
  | ret q => exact h
  | error c p => exact h
  | inexact => exact h
  | outOfFuel => exact h
  | illFormed => exact h
  | notHere => exact h

/-- some steps (that keep the stacks and lead to a state with the flag `b`) before the rest of an item list -/
theorem ItemsPost.prefix {W : World} {sc : Scope} {below : List CtxState} {it : PrintItem} {rest : List PrintItem}
    {off off' : Nat} {σ τ : Vm} {r : St × Outcome} (hst : Steps W.code σ τ) (hstk : Stk σ τ)
    (hflag : τ.skipNewline = isSep it) (hoff : off' + sizeItems rest = off + sizeItems (it :: rest))
    (h : ItemsPost W sc below rest off' τ r) : ItemsPost W sc below (it :: rest) off σ r := by
  obtain ⟨s', o⟩ := r
  cases o with
  | normal =>
    obtain ⟨υ, st, hp, hrel, hs, hf⟩ := h
    exact ⟨υ, hst.trans st, by rw [hp, hoff], hrel, hstk.trans hs, by rw [hf, hflag]; rfl⟩
  | exited => exact ErrPost.of_steps (s' := s') (o := .exited) hst h
  | halted => exact ErrPost.of_steps (s' := s') (o := .halted) hst h
  | jump L => exact ErrPost.of_steps (s' := s') (o := .jump L) hst h
  | ret q => exact ErrPost.of_steps (s' := s') (o := .ret q) hst h
  | error c p => exact ErrPost.of_steps (s' := s') (o := .error c p) hst h
  | inexact => trivial
  | outOfFuel => trivial
  | illFormed => exact ErrPost.of_steps (s' := s') (o := .illFormed) hst h
  | notHere => exact ErrPost.of_steps (s' := s') (o := .notHere) hst h

/-- the items of a PRINT statement: the device receives what `printItems` prescribes, in order; the state is threaded
through the item expressions (which may call functions that print, read DATA, …) -/
theorem items_correct (W : World) (fuel : Nat) (ih : IHle W fuel) (sc : Scope) (p : Pos) (below : List CtxState) :
    ∀ (items : List PrintItem) (f : Nat) (off : Nat) (σ : Vm) (s : St), f ≤ fuel →
      CodeAt W.code off (compileItems W.lay p off items) → σ.pc = off → Rel W sc [] below s σ →
      ItemsWf W.sg sc.slots items →
      ItemsPost W sc below items off σ (ProcJ.Ref.printItems W.P f items s) := by
  intro items
  induction items with
  | nil =>
    intro f off σ s _ _ hpc hr _
    cases f with
    | zero => simp only [ProcJ.Ref.printItems, ItemsPost, ErrPost]
    | succ n =>
      simp only [ProcJ.Ref.printItems, ItemsPost]
      exact ⟨σ, Steps.refl σ, by simp only [sizeItems, hpc, Nat.add_zero], hr, Stk.refl σ, rfl⟩
  | cons it rest ihr =>
    intro f off σ s hf hc hpc hr hw
    cases f with
    | zero => simp only [ProcJ.Ref.printItems, ItemsPost, ErrPost]
    | succ n =>
      have hn : n ≤ fuel := by omega
      subst hpc
      cases it with
      | comma =>
        simp only [compileItems] at hc
        simp only [ItemsWf] at hw
        have h0 : W.code[σ.pc]? = some (CInstr.printComma, p) := hc.append_left.head
        let σ1 : Vm := Vm.advance { σ with out := σ.out.moveToNextPrintZone, skipNewline := true }
        have s1 : Vm.step W.code σ = .next σ1 := by simp only [Vm.step, h0]; rfl
        have hr1 : Rel W sc [] below { s with out := s.out.moveToNextPrintZone } σ1 :=
          hr.congr rfl rfl (by show σ.out.moveToNextPrintZone = s.out.moveToNextPrintZone; rw [hr.out])
            hr.data hr.dataIdx hr.queue hr.funRes
        have h := ihr n (σ.pc + 1) σ1 _ hn hc.append_right rfl hr1 hw
        simp only [ProcJ.Ref.printItems]
        exact ItemsPost.prefix (Steps.one s1) ⟨rfl, rfl, rfl, rfl, rfl, rfl, rfl⟩ rfl
          (by simp only [sizeItems]; omega) h
      | semicolon =>
        simp only [compileItems] at hc
        simp only [ItemsWf] at hw
        have h0 : W.code[σ.pc]? = some (CInstr.printSemicolon, p) := hc.append_left.head
        let σ1 : Vm := Vm.advance { σ with skipNewline := true }
        have s1 : Vm.step W.code σ = .next σ1 := by simp only [Vm.step, h0]; rfl
        have hr1 : Rel W sc [] below s σ1 := hr.same rfl rfl rfl rfl rfl rfl
        have h := ihr n (σ.pc + 1) σ1 s hn hc.append_right rfl hr1 hw
        simp only [ProcJ.Ref.printItems]
        exact ItemsPost.prefix (Steps.one s1) ⟨rfl, rfl, rfl, rfl, rfl, rfl, rfl⟩ rfl
          (by simp only [sizeItems]; omega) h
      | expr e =>
        simp only [compileItems] at hc
        simp only [ItemsWf] at hw
        obtain ⟨hwe, hwr⟩ := hw
        have he := (ih n hn).expr sc e σ.pc [] below s σ hc.append_left.append_left rfl hr hwe
        have hpv : W.code[σ.pc + sizeExpr e]? = some (CInstr.printValue, e.pos) := by
          have := hc.append_left.append_right.head
          rwa [len_expr] at this
        have hcr : CodeAt W.code (σ.pc + sizeExpr e + 1) (compileItems W.lay p (σ.pc + sizeExpr e + 1) rest) := by
          have := hc.append_right
          simp only [List.length_append, List.length_singleton, len_expr] at this
          exact this.at (by omega)
        simp only [ProcJ.Ref.printItems]
        generalize ProcJ.Ref.eval W.P n e s = r at he ⊢
        obtain ⟨s1, rv⟩ := r
        cases rv with
        | error o => exact ItemsPost.of_err he
        | ok v =>
          obtain ⟨τ, st, hp, hav, hrel, hss, _⟩ := he
          simp only
          cases hpr : RbModel.Proc.Ref.printValue v with
          | none => simp only [ItemsPost, ErrPost]
          | some pv =>
            simp only
            let τ1 : Vm := Vm.advance { τ with out := τ.out.print (Print.valueText pv), skipNewline := false }
            have hpv' : W.code[τ.pc]? = some (CInstr.printValue, e.pos) := by rw [hp]; exact hpv
            have hpr' : _root_.RbModel.Ref.printValue τ.regs.a = some pv := by rw [hav]; exact hpr
            have s2 : Vm.step W.code τ = .next τ1 := by simp only [Vm.step, hpv', hpr']; rfl
            have hr1 : Rel W sc [] below { s1 with out := s1.out.print (Print.valueText pv) } τ1 :=
              hrel.congr rfl rfl
                (by show τ.out.print (Print.valueText pv) = s1.out.print (Print.valueText pv); rw [hrel.out])
                hrel.data hrel.dataIdx hrel.queue hrel.funRes
            have h := ihr n (σ.pc + sizeExpr e + 1) τ1 _ hn hcr
              (by show τ.pc + 1 = _; rw [hp]) hr1 hwr
            exact ItemsPost.prefix (st.trans (Steps.one s2))
              ((Stk.of_same hss).trans ⟨rfl, rfl, rfl, rfl, rfl, rfl, rfl⟩) rfl
              (by simp only [sizeItems]; omega) h

/-! ### the statement -/

/-- `PrintSetPrinterType; LoadIntoA 0; PrintSetFormatStringFromA`: only A, the program counter and the PRINT flag change;
the flag is cleared (every PRINT statement starts with no separator pending: repair 89314cd of the interpreter). -/
theorem head_steps (code : Code) (p : Pos) (σ : Vm)
    (hc : CodeAt code σ.pc [(CInstr.printSetPrinter, p), (CInstr.loadA (.int 0), p), (CInstr.printSetFormat, p)]) :
    ∃ τ, Steps code σ τ ∧ τ.pc = σ.pc + 3 ∧ τ.ctx = σ.ctx ∧ τ.out = σ.out ∧ τ.data = σ.data ∧
      τ.dataIdx = σ.dataIdx ∧ τ.queue = σ.queue ∧ τ.funRes = σ.funRes ∧ Stk σ τ ∧
      τ.skipNewline = false ∧ τ.glob = σ.glob ∧ τ.statics = σ.statics := by
  have h0 : code[σ.pc]? = some (CInstr.printSetPrinter, p) := hc.head
  have h1 : code[σ.pc + 1]? = some (CInstr.loadA (.int 0), p) := hc.tail.head
  have h2 : code[σ.pc + 1 + 1]? = some (CInstr.printSetFormat, p) := hc.tail.tail.head
  let σ1 : Vm := Vm.advance { σ with skipNewline := false }
  let σ2 : Vm := Vm.advance (Vm.setA σ1 (.int 0))
  let σ3 : Vm := Vm.advance σ2
  have s1 : Vm.step code σ = .next σ1 := by simp only [Vm.step, h0]; rfl
  have s2 : Vm.step code σ1 = .next σ2 := by
    have h1' : code[σ1.pc]? = some (CInstr.loadA (.int 0), p) := h1
    simp only [Vm.step, h1']; rfl
  have s3 : Vm.step code σ2 = .next σ3 := by
    have h2' : code[σ2.pc]? = some (CInstr.printSetFormat, p) := h2
    have ha : σ2.regs.a = .int 0 := rfl
    simp only [Vm.step, h2', ha]; rfl
  exact ⟨σ3, Steps.cons s1 (Steps.cons s2 (Steps.one s3)), rfl, rfl, rfl, rfl, rfl, rfl, rfl,
    ⟨rfl, rfl, rfl, rfl, rfl, rfl, rfl⟩, rfl, rfl, rfl⟩

end RbThm.ProcJSim.PjPrint

namespace RbThm.ProcJSim
open RbModel RbModel.ProcJ RbModel.ProcJ.Compile RbModel.ProcJ.Vm
open RbModel.Num hiding Expr
open RbModel.Ast (Pos)
open RbModel.Proc (Var SlotTabs Expr Args PrintItem CaseExpr ProcDecl zeroOf Sigs sigsOf)
open RbModel.Proc.Compile (Layout Layout.addr sizeExpr sizePush refCount sizeExprTo sizeSubCall sizeItems sizeCaseExpr sizeConds
  sizeExit labelName stepSuffix maxPos)
open RbModel.Proc.Vm (Regs Regs.new Frame CtxState getVar setVar curVars modCur curStatic applyArgs readVars binInstr)
open RbModel.ProcJ.Ref (Outcome Mode Act)
open RbThm.ProcJLen RbThm.ProcJSim.PjPrint
open RbThm.ProcSim (Scope ItemsWf)

/-- **PRINT**. -/
theorem case_print (W : World) (B : BodyCtx) (fuel : Nat) (ih : IHle W fuel) (items : List PrintItem) (p : Pos)
    (sfx : String) (fd sd off : Nat) (m : Mode) (below : List CtxState) (s : St) (σ : Vm)
    (hc : CodeAt W.code off (compileStmt W.lay W.env sfx fd sd off (.print items p)))
    (hw : Wf W.sg B.sc W.env.dp B.body.labels fd sd (.print items p))
    (hen : Entry W.env off (.print items p) m σ) (hr : Rel W B.sc [] below s σ) :
    StmtPost W B.sc below fd sd (off + sizeStmt W.env.dp fd sd (.print items p)) σ
      (ProcJ.Ref.exec W.P (fuel + 1) B.act (desugar (.print items p)) m s) := by
  obtain ⟨rfl, hpc⟩ := hen.of_nolabels rfl
  simp only [compileStmt] at hc
  simp only [Wf] at hw
  have hwi := hw
  subst hpc
  obtain ⟨σ3, pre, hp3, hctx3, hout3, hdata3, hidx3, hq3, hf3, hstk3, hflag3, hg3, hs3⟩ :=
    head_steps W.code p σ hc.append_left.append_left
  -- the statement's head has cleared the flag
  have hflag0 : items = [] → σ3.skipNewline = false := fun _ => hflag3
  have hr3 : Rel W B.sc [] below s σ3 := hr.same hctx3 hout3 hdata3 hidx3 hq3 hf3 hg3 hs3
  have hci : CodeAt W.code (σ.pc + 3) (compileItems W.lay p (σ.pc + 3) items) := hc.append_left.append_right
  have hit := items_correct W fuel ih B.sc p below items fuel (σ.pc + 3) σ3 s (Nat.le_refl _) hci hp3 hr3 hwi
  have hend : W.code[σ.pc + 3 + sizeItems items]? = some (CInstr.printEnd, p) := by
    have := hc.append_right.head
    simp only [List.length_append, List.length_cons, List.length_nil, len_items] at this
    rw [← this]; congr 1; omega
  simp only [desugar, ProcJ.Ref.exec, sizeStmt]
  generalize ProcJ.Ref.printItems W.P fuel items s = r at hit ⊢
  obtain ⟨s', o⟩ := r
  cases o with
  | normal =>
    obtain ⟨τ, st, hp, hrel, hstk, hfl⟩ := hit
    rw [flagAfter_eq] at hfl
    have hpe : W.code[τ.pc]? = some (CInstr.printEnd, p) := by rw [hp]; exact hend
    have hstk' : Stk σ τ := hstk3.trans hstk
    by_cases hsep : RbModel.Proc.Ref.endsInSeparator items = true
    · have hne' : items ≠ [] := by
        intro hi; subst hi; simp [RbModel.Proc.Ref.endsInSeparator] at hsep
      have hk : τ.skipNewline = true := by rw [hfl]; simp only [hne', if_false, hsep]
      simp only [hsep, if_true, StmtPost]
      refine ⟨Vm.advance { τ with skipNewline := false }, (pre.trans st).trans (Steps.one ?_), ?_, ?_, ?_⟩
      · simp only [Vm.step, hpe, hk, if_true]
      · show τ.pc + 1 = _; rw [hp]; omega
      · exact hrel.same rfl rfl rfl rfl rfl rfl
      · exact ⟨hstk'.vals, hstk'.paths, hstk'.regStack, hstk'.rets, hstk'.marks, hstk'.gosubs, hstk'.trace, fun _ => rfl⟩
    · have hk : τ.skipNewline = false := by
        rw [hfl]
        by_cases hi : items = []
        · simp only [hi, if_true]; exact hflag0 hi
        · simp only [hi, if_false]; simpa using hsep
      simp only [hsep, StmtPost]
      refine ⟨Vm.advance { τ with out := τ.out.println }, (pre.trans st).trans (Steps.one ?_), ?_, ?_, ?_⟩
      · simp only [Vm.step, hpe, hk]; rfl
      · show τ.pc + 1 = _; rw [hp]; omega
      · exact hrel.congr rfl rfl (by show τ.out.println = s'.out.println; rw [hrel.out]) hrel.data hrel.dataIdx
          hrel.queue hrel.funRes
      · exact ⟨hstk'.vals, hstk'.paths, hstk'.regStack, hstk'.rets, hstk'.marks, hstk'.gosubs, hstk'.trace, fun _ => hk⟩
  | exited => exact StmtPost.of_err (ErrPost.of_steps (s' := s') (o := .exited) pre hit)
  | halted => exact StmtPost.of_err (ErrPost.of_steps (s' := s') (o := .halted) pre hit)
  | jump L => exact StmtPost.of_err (ErrPost.of_steps (s' := s') (o := .jump L) pre hit)
  | ret q => exact StmtPost.of_err (ErrPost.of_steps (s' := s') (o := .ret q) pre hit)
  | error c q => exact StmtPost.of_err (ErrPost.of_steps (s' := s') (o := .error c q) pre hit)
  | inexact => trivial
  | outOfFuel => trivial
  | illFormed => trivial
  | notHere => trivial

end RbThm.ProcJSim
