import Thm.C20Trace
/-!
C20 — the value-combining layer of `rusty_pc`: `and.rs` combiners, `many.rs` many-combiners, `token.rs`,
`text/strings.rs`.

The contract theorems of `Thm.C20` (`run_wb`, `run_mono`), `Thm.C20Trace` (`fatal_never_downgraded_expr`) and
`Thm.C20Fuel` (`run_fuel_exact`, `hang_iff_stalls`) are stated over the whole of `PExpr`, which now contains
`many` with an arbitrary many-combiner (`PExpr.manyC`) and `and` / `then_with_in_context` with every combiner struct of
`and.rs` (`Cmb`); they were re-proved for the extended syntax under their old names.  This file states what the
*values* are:

* `manyCP_eq_fin` (in `Thm.C20`): `many` with a many-combiner = the maximal run of `many`, folded by `seed` /
  `accumulate`; here: `manyCP_vec` (`VecManyCombiner` is the `Vec` of the run), `manyCP_sound` / `manyCP_complete`
  (the value is the fold of *exactly* the maximal run of successes), the folds in closed form (`fold_str`,
  `fold_tokStr`, `fold_ignore`, `fold_vec`);
* the combiners of `and.rs` in closed form (`cmb_*`), `and_value`;
* `token.rs`: `Token.new?` panics exactly on the empty text, `try_as_single_char` / `demand_single_char`,
  the tokens built by the model are never empty (`mkTok_nonempty`);
* `text/strings.rs`: `one_char_to_str`, `many_str_with_combiner` (`oneStr_spec`, `manyStrWith_eq`).
-/
namespace RbThm.C20Val
open RbModel.Pc RbThm.C20

/-! ## 1. many-combiners -/

theorem snoc_ofList : ∀ (l : List Val) (v : Val), (Val.ofList l).snoc v = Val.ofList (l ++ [v])
  | [], v => rfl
  | x :: xs, v => by simp [Val.ofList, Val.snoc, snoc_ofList xs v]

/-- `VecManyCombiner`: the fold is the `Vec` of the run -/
theorem fold_vec (vs : List Val) : MCmb.fold .vec vs = Val.ofList vs := by
  cases vs with
  | nil => rfl
  | cons v vs =>
    simp only [MCmb.fold]
    have : ∀ (l acc : List Val), l.foldl (MCmb.acc .vec) (Val.ofList acc) = Val.ofList (acc ++ l) := by
      intro l
      induction l with
      | nil => intro acc; simp
      | cons x xs ih => intro acc; simp only [List.foldl_cons, MCmb.acc, snoc_ofList, ih]; simp
    simpa [MCmb.seed, Val.ofList] using this vs [v]

/-- `StringManyCombiner` over `char`: the string of the elements -/
theorem fold_str (v : Val) (vs : List Val) : MCmb.fold .str (v :: vs) = .str ((v :: vs).map Val.asChar) := by
  simp only [MCmb.fold, MCmb.seed]
  have : ∀ (l : List Val) (s : List Nat), l.foldl (MCmb.acc .str) (.str s) = .str (s ++ l.map Val.asChar) := by
    intro l
    induction l with
    | nil => intro s; simp
    | cons x xs ih => intro s; simp only [List.foldl_cons, MCmb.acc, Val.asStr, ih]; simp
  simpa using this vs [v.asChar]

/-- `StringManyCombiner` over `Token`: the concatenation of the token texts -/
theorem fold_tokStr (v : Val) (vs : List Val) :
    MCmb.fold .tokStr (v :: vs) = .str ((v :: vs).flatMap (fun x => x.asTok.toText)) := by
  simp only [MCmb.fold, MCmb.seed]
  have : ∀ (l : List Val) (s : List Nat),
      l.foldl (MCmb.acc .tokStr) (.str s) = .str (s ++ l.flatMap (fun x => x.asTok.toText)) := by
    intro l
    induction l with
    | nil => intro s; simp
    | cons x xs ih => intro s; simp only [List.foldl_cons, MCmb.acc, Val.asStr, ih]; simp
  simpa using this vs v.asTok.toText

/-- `IgnoringManyCombiner`: `()` whatever the run -/
theorem fold_ignore (vs : List Val) : MCmb.fold .ignore vs = .unit := by
  cases vs with
  | nil => rfl
  | cons v vs =>
    simp only [MCmb.fold, MCmb.seed]
    induction vs with
    | nil => rfl
    | cons x xs ih => simpa [MCmb.acc] using ih

/-- `O::default()` of the three output types -/
theorem fold_nil (mc : MCmb) : MCmb.fold mc [] = mc.dflt := rfl

/-- **`many` with `VecManyCombiner` is `many`**: the constructor `PExpr.many` is an instance of `PExpr.manyC` -/
theorem manyCP_vec (len : Nat) (an : Bool) (p : P) : manyCP len .vec an p = manyP len an p := by
  rw [manyCP_eq_fin]
  funext pos
  simp only [finP]
  cases h : manyP len an p pos with
  | ok v q =>
    simp only [fold_vec]
    -- a successful `manyP` returns a `Vec`
    have : ∃ l, v = Val.ofList l := by
      simp only [manyP] at h
      split at h
      · obtain ⟨vs, _, _, hv, _⟩ := manyLoop_sound p _ _ _ _ _ h; exact ⟨_, hv⟩
      · split at h <;> simp at h; exact ⟨[], h.1.symm⟩
      · simp at h
      · simp at h
    obtain ⟨l, rfl⟩ := this
    rw [asList_ofList]
  | soft e q => rfl
  | fatal e q => rfl
  | hang => rfl

theorem run_manyC_vec (inp : List Nat) (an : Bool) (e : PExpr) : run (.manyC .vec an e) inp = run (.many an e) inp := by
  simp only [run, manyCP_vec]

/-- **Soundness of the value** (no hypotheses): a successful `many` with a many-combiner returns the fold of a run of
successes of the element parser that is maximal (the element fails softly right after it; the position is where
that failure left the input), non-empty unless `many_allow_none`. -/
theorem manyCP_sound (len : Nat) (mc : MCmb) (an : Bool) (p : P) (pos : Nat) (v : Val) (q' : Nat)
    (h : manyCP len mc an p pos = .ok v q') :
    ∃ vs q e, v = MCmb.fold mc vs ∧ Chain p pos vs q ∧ p q = .soft e q' ∧ (vs ≠ [] ∨ an = true) := by
  rw [manyCP_eq_fin] at h
  simp only [finP] at h
  split at h
  · next w q1 hm =>
    simp only [Res.ok.injEq] at h
    obtain ⟨vs, q, e, hw, hc, hs, hne⟩ := many_sound len an p pos w q1 hm
    refine ⟨vs, q, e, ?_, hc, h.2 ▸ hs, hne⟩
    rw [← h.1, hw, asList_ofList]
  · next hne => exact absurd h (by intro h'; exact hne _ _ h')

/-- **Completeness of the value**: over an element parser that never moves backwards, a maximal run of successes
(ended by a soft failure) makes `many` with the many-combiner `mc` return the fold of exactly that run; a run
stopped by a fatal error makes it return that error. -/
theorem manyCP_complete {len : Nat} {mc : MCmb} {an : Bool} {p : P} (hm : Mono len p) {pos : Nat} (hpos : pos ≤ len)
    {v : Val} {q1 : Nat} (h1 : p pos = .ok v q1) {vs : List Val} {q : Nat} (hc : Chain p q1 vs q) :
    (∀ e q', p q = .soft e q' → manyCP len mc an p pos = .ok (MCmb.fold mc (v :: vs)) q') ∧
    (∀ e q', p q = .fatal e q' → manyCP len mc an p pos = .fatal e q') := by
  obtain ⟨hs, hf⟩ := many_complete (an := an) hm hpos h1 hc
  rw [manyCP_eq_fin]
  exact ⟨fun e q' h => by simp only [finP, hs e q' h, asList_ofList],
         fun e q' h => by simp only [finP, hf e q' h]⟩

/-- no element: `O::default()` under `many_allow_none`, the element's soft error otherwise -/
theorem manyCP_none (len : Nat) (mc : MCmb) (an : Bool) (p : P) (pos e q : Nat) (h : p pos = .soft e q) :
    manyCP len mc an p pos = if an then .ok mc.dflt q else .soft e q := by
  simp only [manyCP, h]

/-! ## 2. the combiners of `and.rs` -/

/-- what `AndParser::parse` / `ThenWithContextParser::parse` return on success is `combine(left, right)` -/
theorem and_value (c : Cmb) (l r : P) (pos p1 p2 : Nat) (a b : Val) (hl : l pos = .ok a p1) (hr : r p1 = .ok b p2) :
    andP c l r pos = .ok (c.app a b) p2 ∧ thenWithP c l r pos = .ok (c.app a b) p2 := by
  simp [andP, thenWithP, hl, hr]

theorem cmb_keep (a b : Val) :
    Cmb.app .left a b = a ∧ Cmb.app .right a b = b ∧ Cmb.app .tuple a b = .pair a b ∧ Cmb.app .ignore a b = .unit :=
  ⟨rfl, rfl, rfl, rfl⟩

/-- `VecCombiner` on two vectors is `Vec::append` -/
theorem cmb_vecCat (l r : List Val) : Cmb.app .vecCat (Val.ofList l) (Val.ofList r) = Val.ofList (l ++ r) := by
  simp [Cmb.app, asList_ofList]

/-- `StringCombiner` on `(String, String)` is `push_str`; it is associative -/
theorem cmb_strCat (s t : List Nat) : Cmb.app .strCat (.str s) (.str t) = .str (s ++ t) := rfl

theorem cmb_strCat_assoc (a b c : Val) :
    Cmb.app .strCat (Cmb.app .strCat a b) c = Cmb.app .strCat a (Cmb.app .strCat b c) := by
  simp [Cmb.app, Val.asStr]

/-- `StringCombiner` on `(Option<String>, String)`: `None` contributes nothing -/
theorem cmb_optStrCat (s t : List Nat) :
    Cmb.app .optStrCat .none (.str t) = .str t ∧ Cmb.app .optStrCat (.some (.str s)) (.str t) = .str (s ++ t) :=
  ⟨rfl, rfl⟩

/-- `StringCombiner` on `(char, char)`, `(char, Option<char>)`, `(char, Vec<char>)` -/
theorem cmb_chars (a b : Nat) (cs : List Nat) :
    Cmb.app .chars (.sym a) (.sym b) = .str [a, b] ∧
    Cmb.app .charOpt (.sym a) (.some (.sym b)) = .str [a, b] ∧
    Cmb.app .charOpt (.sym a) .none = .str [a] ∧
    Cmb.app .charVec (.sym a) (Val.ofList (cs.map Val.sym)) = .str (a :: cs) := by
  refine ⟨rfl, rfl, rfl, ?_⟩
  simp [Cmb.app, asList_ofList, Val.asChar, List.map_map, Function.comp_def]

/-! ## 3. `token.rs` -/

/-- `Token::new` panics exactly on the empty text -/
theorem token_new_panics_iff (k : Nat) (t : List Nat) : Token.new? k t = none ↔ t = [] := by
  cases t <;> simp [Token.new?]

theorem token_new_fields (k : Nat) (t : List Nat) (tok : Token) (h : Token.new? k t = some tok) :
    tok.kind = k ∧ tok.toText = t ∧ t ≠ [] := by
  cases t with
  | nil => simp [Token.new?] at h
  | cons c cs => simp [Token.new?] at h; subst h; simp [Token.toText]

/-- `try_as_single_char` answers exactly on one-character texts; `demand_single_char` panics on the others -/
theorem token_single_char (tok : Token) (c : Nat) :
    (tok.trySingleChar = some c ↔ tok.text = [c]) ∧ (tok.demandSingleChar? = none ↔ tok.text.length ≠ 1) := by
  obtain ⟨k, t⟩ := tok
  simp only [Token.demandSingleChar?, Token.trySingleChar]
  match t with
  | [] => simp
  | [x] => simp
  | x :: y :: zs => simp

/-- the tokens the model builds (`MapFn.mkTok`, the harness's `as_tok`) satisfy the invariant of `Token::new` -/
theorem mkTok_nonempty (k : Nat) (v : Val) : ∃ t, MapFn.app (.mkTok k) v = .tok k t ∧ t ≠ [] := by
  refine ⟨v.asText, rfl, ?_⟩
  simp only [Val.asText]
  split
  · simp
  · next h => intro h'; rw [h'] at h; simp at h

/-- reading back what was built: kind, text, display -/
theorem tok_roundtrip (k : Nat) (t : List Nat) :
    MapFn.app .tokKind (.tok k t) = .num k ∧ MapFn.app .tokText (.tok k t) = .str t ∧
    MapFn.app .tokShow (.tok k t) = .str t ∧ MapFn.app .tokChar (.tok k [k]) = .some (.sym k) :=
  ⟨rfl, rfl, rfl, rfl⟩

/-! ## 4. `text/strings.rs` -/

/-- `one_char_to_str(k)`: the one-character string, consuming one symbol, exactly when the next symbol is `k`;
the default soft error in place otherwise -/
theorem oneStr_spec (inp : List Nat) (k pos : Nat) :
    run (oneStrE k) inp pos = if inp[pos]? = some k then .ok (.str [k]) (pos + 1) else .soft 0 pos := by
  simp only [oneStrE, run, mapP, oneP, filterP, anyP]
  cases h : inp[pos]? with
  | none => simp
  | some c =>
    by_cases hc : c = k
    · subst hc; simp [Pred.app, MapFn.app, Val.asChar]
    · simp [Pred.app, hc]

/-- `many_str_with_combiner(|c| c == k, mc)` is `many_str` (as modelled before: the list of symbols) folded by `mc` -/
theorem manyStrWith_eq (inp : List Nat) (mc : MCmb) (k : Nat) :
    run (manyStrWithE mc k) inp = finP mc (run (.manyStr k) inp) := by
  simp only [manyStrWithE, run, manyCP_eq_fin]

/-- `many_str(|c| c == k)`: the string of the maximal run of `k`s -/
theorem manyStr_value (inp : List Nat) (k pos : Nat) (v : Val) (q : Nat)
    (h : run (manyStrWithE .str k) inp pos = .ok v q) : ∃ n, 0 < n ∧ v = .str (List.replicate n k) := by
  simp only [manyStrWithE, run] at h
  obtain ⟨vs, q0, e, hv, hc, _, hne⟩ := manyCP_sound _ _ _ _ _ _ _ h
  have hall : ∀ {pos vs q0}, Chain (oneP inp k) pos vs q0 → ∀ x ∈ vs, x = .sym k := by
    intro pos vs q0 hc
    induction hc with
    | nil => simp
    | cons h1 _ ih =>
      intro x hx
      simp only [List.mem_cons] at hx
      rcases hx with rfl | hx
      · simp only [oneP, filterP, anyP] at h1
        split at h1
        · split at h1
          · next hp => simp only [Res.ok.injEq] at h1; rw [← h1.1]; simpa [Pred.app] using hp
          · simp at h1
        all_goals (split at * <;> simp_all)
      · exact ih x hx
  have hne' : vs ≠ [] := by rcases hne with h | h; exact h; simp at h
  match vs, hne' with
  | x :: xs, _ =>
    refine ⟨(x :: xs).length, by simp, ?_⟩
    rw [hv, fold_str]
    congr 1
    have := hall hc
    apply List.ext_getElem
    · simp
    · intro i h1 h2
      simp only [List.getElem_map, List.getElem_replicate]
      rw [this _ (List.getElem_mem _)]
      rfl

/-! ## 5. Non-vacuity -/

example : run (.manyC .str false .any) [0, 1, 2] 0 = .ok (.str [0, 1, 2]) 3 := by decide
example : run (.manyC .ignore true (.one 0)) [1] 0 = .ok .unit 0 := by decide
example : run (.manyC .str true (.one 0)) [1] 0 = .ok (.str []) 0 := by decide
example : run (.manyC .tokStr false (.map (.mkTok 7) (manyStrWithE .str 0))) [0, 0, 1] 0 = .ok (.str [0, 0]) 2 := by
  decide
example : run (.and .charVec (.one 0) (.many true (.one 1))) [0, 1, 1, 2] 0 = .ok (.str [0, 1, 1]) 3 := by decide
example : run (.and .optStrCat (.toOption (oneStrE 2)) (manyStrWithE .str 0)) [0, 0] 0 = .ok (.str [0, 0]) 2 := by
  decide
example : run (.map .tokChar (.map (.mkTok 3) (manyStrWithE .str 0))) [0, 1] 0 = .ok (.some (.sym 0)) 1 ∧
    run (.map .tokChar (.map (.mkTok 3) (manyStrWithE .str 0))) [0, 0] 0 = .ok .none 2 := by decide
example : LeavesWB (.manyC .str true (.and .chars (.one 0) .any)) := by decide
example : WB 3 (run (.manyC .str true (.and .chars (.one 0) .any)) [0, 1, 0]) :=
  run_wb [0, 1, 0] _ (by decide)
/-- `manyCP_complete` applies: two `a`s then a `b` -/
example : manyCP 3 .str false (oneP [0, 0, 1] 0) 0 = .ok (.str [0, 0]) 2 :=
  (manyCP_complete (an := false) (len := 3) (oneP_wb [0, 0, 1] 0).mono (pos := 0) (by decide) (v := .sym 0) (q1 := 1)
    (by decide) (Chain.cons (v := .sym 0) (q := 2) (by decide) (Chain.nil 2))).1 0 2 (by decide)
example : Token.new? 42 [] = none ∧ (Token.new? 42 [0, 1, 2]).isSome ∧
    (Token.mk 42 [0, 1, 2]).demandSingleChar? = none ∧ (Token.mk 19 [0]).demandSingleChar? = some 0 := by decide

end RbThm.C20Val
