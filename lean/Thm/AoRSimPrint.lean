import Thm.AoRSimExpr0
/-!
Layer AoR (port of the records-layer file `Thm/RecLSimPrint.lean`), simulation part — `PRINT` (port of `Thm.C01SimBase.items_correct` / `case_print`).

Generated shape: `PrintSetPrinterType; LoadIntoA 0; PrintSetFormatStringFromA`; per item the expression followed by
`PrintValueFromA`, or `PrintComma` / `PrintSemicolon`; `PrintEnd`.

Item expressions are pure, so the reference state changes only in its output.  The PRINT flag (`should_skip_new_line`)
is not part of `Rel`; it is followed explicitly: after a non-empty item list it is `endsInSeparator items` whatever it was
before (a value lowers it, a separator raises it); for an empty item list it is what it was after the statement's head,
and that is `false`: `PrintSetPrinterType` clears the flag (`head_steps`).  `PrintEnd` always leaves the flag `false`.
-/
set_option linter.unusedVariables false
set_option linter.unusedSimpArgs false

namespace RbThm.AoRSim.SimPrint
open RbModel RbModel.Num RbModel.AoR RbModel.AoR.Compile RbModel.AoR.Vm
open RbModel.Ast (Pos)
open RbModel.RecL (ETy FTy FFields expand zeroOf)
open RbModel.RecL.Vm (allocTy defaultVar)
open RbThm.AoRLen RbThm.ArrLNum RbThm.RecLTy RbThm.AoRTy

set_option linter.unusedSectionVars false
variable [ExprOk]

/-! ### the flag -/

def isSep : PrintItem → Bool
  | .expr _ => false
  | _ => true

/-- `should_skip_new_line` after the items of a PRINT statement, starting from `b` -/
def flagAfter (b : Bool) : List PrintItem → Bool
  | [] => b
  | it :: rest => flagAfter (isSep it) rest

theorem flagAfter_eq (items : List PrintItem) (b : Bool) :
    flagAfter b items = if items = [] then b else AoR.Ref.endsInSeparator items := by
  induction items generalizing b with
  | nil => rfl
  | cons it rest ih =>
    simp only [flagAfter, ih, reduceCtorEq, if_false]
    cases rest with
    | nil => cases it <;> rfl
    | cons y r => cases it <;> simp [AoR.Ref.endsInSeparator]

/-- what the items leave alone (the PRINT flag is followed separately) -/
structure Stk (σ τ : Vm) : Prop where
  vals : τ.vals = σ.vals
  paths : τ.paths = σ.paths
  regStack : τ.regStack = σ.regStack
  ctx : τ.ctx = σ.ctx
  trace : τ.trace = σ.trace

theorem Stk.refl (σ : Vm) : Stk σ σ := ⟨rfl, rfl, rfl, rfl, rfl⟩

theorem Stk.trans {a b c : Vm} (h₁ : Stk a b) (h₂ : Stk b c) : Stk a c :=
  ⟨h₂.vals.trans h₁.vals, h₂.paths.trans h₁.paths, h₂.regStack.trans h₁.regStack, h₂.ctx.trans h₁.ctx,
    h₂.trace.trans h₁.trace⟩

theorem Stk.of_same {σ τ : Vm} (h : SameStacks σ τ) : Stk σ τ :=
  ⟨h.vals, h.paths, h.regStack, h.ctx, h.trace⟩

/-! ### the items -/

/-- what the code of an item list does, given what `Ref.printItems` says -/
def ItemsPost (code : Code) (sc : Scope) (items : List PrintItem) (off : Nat) (σ : Vm) :
    St × Outcome → Prop
  | (s', .normal) => ∃ τ, Steps code σ τ ∧ τ.pc = off + sizeItems items ∧ Rel sc s' τ ∧ Stk σ τ ∧
      τ.skipNewline = flagAfter σ.skipNewline items
  | (s', o) => ErrPost code σ s' o

theorem ItemsPost.of_err {code : Code} {sc : Scope} {items : List PrintItem} {off : Nat}
    {σ : Vm} {s' : St} {o : Outcome} (h : ErrPost code σ s' o) : ItemsPost code sc items off σ (s', o) := by
  cases o with
  | normal => exact h.elim
  | halted => exact h
  | error c p => exact h
  | inexact => exact h
  | outOfFuel => exact h
  | illFormed => trivial
  | tooBig => trivial

/-- some steps (that keep the stacks and lead to a state with the flag `b`) before the rest of an item list -/
theorem ItemsPost.prefix {code : Code} {sc : Scope} {it : PrintItem} {rest : List PrintItem}
    {off off' : Nat} {σ τ : Vm} {r : St × Outcome} (hst : Steps code σ τ) (hstk : Stk σ τ)
    (hflag : τ.skipNewline = isSep it) (hoff : off' + sizeItems rest = off + sizeItems (it :: rest))
    (h : ItemsPost code sc rest off' τ r) : ItemsPost code sc (it :: rest) off σ r := by
  obtain ⟨s', o⟩ := r
  cases o with
  | normal =>
    obtain ⟨υ, st, hp, hrel, hs, hf⟩ := h
    exact ⟨υ, hst.trans st, by rw [hp, hoff], hrel, hstk.trans hs, by rw [hf, hflag]; rfl⟩
  | halted => exact ErrPost.of_steps (s' := s') (o := .halted) hst h
  | error c p => exact ErrPost.of_steps (s' := s') (o := .error c p) hst h
  | inexact => trivial
  | outOfFuel => trivial
  | illFormed => exact ErrPost.of_steps (s' := s') (o := .illFormed) hst h
  | tooBig => exact ErrPost.of_steps (s' := s') (o := .tooBig) hst h

/-- the items of a PRINT statement: the device receives what `printItems` prescribes, in order -/
theorem items_correct (code : Code) (sc : Scope) (p : Pos) :
    ∀ (items : List PrintItem) (off : Nat) (σ : Vm) (s : St),
      CodeAt code off (compileItems p items) → σ.pc = off → Rel sc s σ →
      ItemsWf sc items →
      ItemsPost code sc items off σ (AoR.Ref.printItems s items) := by
  intro items
  induction items with
  | nil =>
    intro off σ s _ hpc hr _
    simp only [AoR.Ref.printItems, ItemsPost]
    exact ⟨σ, Steps.refl σ, by simp only [sizeItems, hpc, Nat.add_zero], hr, Stk.refl σ, rfl⟩
  | cons it rest ihr =>
    intro off σ s hc hpc hr hw
    subst hpc
    cases it with
    | comma =>
      simp only [compileItems, compileItem] at hc
      simp only [ItemsWf] at hw
      have h0 : code[σ.pc]? = some (CInstr.printComma, p) := hc.append_left.head
      let σ1 : Vm := Vm.advance { σ with out := σ.out.moveToNextPrintZone, skipNewline := true }
      have s1 : Vm.step code σ = .next σ1 := by simp only [Vm.step, h0]; rfl
      have hr1 : Rel sc { s with out := s.out.moveToNextPrintZone } σ1 :=
        hr.congr rfl rfl rfl rfl rfl rfl (by show σ.out.moveToNextPrintZone = s.out.moveToNextPrintZone; rw [hr.out])
          hr.data rfl hr.dataIdx hr.queue hr.funRes
      have h := ihr (σ.pc + 1) σ1 _ hc.append_right rfl hr1 hw
      simp only [AoR.Ref.printItems]
      exact ItemsPost.prefix (Steps.one s1) ⟨rfl, rfl, rfl, rfl, rfl⟩ rfl
        (by simp only [sizeItems]; omega) h
    | semicolon =>
      simp only [compileItems, compileItem] at hc
      simp only [ItemsWf] at hw
      have h0 : code[σ.pc]? = some (CInstr.printSemicolon, p) := hc.append_left.head
      let σ1 : Vm := Vm.advance { σ with skipNewline := true }
      have s1 : Vm.step code σ = .next σ1 := by simp only [Vm.step, h0]; rfl
      have hr1 : Rel sc s σ1 := hr.same rfl rfl rfl rfl rfl rfl rfl rfl
      have h := ihr (σ.pc + 1) σ1 s hc.append_right rfl hr1 hw
      simp only [AoR.Ref.printItems]
      exact ItemsPost.prefix (Steps.one s1) ⟨rfl, rfl, rfl, rfl, rfl⟩ rfl
        (by simp only [sizeItems]; omega) h
    | expr e =>
      simp only [compileItems, compileItem] at hc
      simp only [ItemsWf] at hw
      obtain ⟨hwe, hwr⟩ := hw
      have he := evalS_correct' code sc e σ.pc s σ hc.append_left.append_left rfl hr hwe
      have hpv : code[σ.pc + (compileExpr e).length]? = some (CInstr.printValue, e.pos) :=
        hc.append_left.append_right.head
      have hcr : CodeAt code (σ.pc + (compileExpr e).length + 1) (compileItems p rest) := by
        have := hc.append_right
        simp only [List.length_append, List.length_singleton] at this
        exact this.at (by omega)
      simp only [AoR.Ref.printItems]
      generalize AoR.Ref.evalS s.env s.arrs e = r at he ⊢
      cases r with
      | err c q => exact he
      | inexact => trivial
      | illFormed => trivial
      | ok v =>
        obtain ⟨τ, st, hp, hav, hrel, hss⟩ := he
        simp only
        cases hpr : AoR.Ref.printValue v with
        | none => simp only [ItemsPost, ErrPost]
        | some pv =>
          simp only
          let τ1 : Vm := Vm.advance { τ with out := τ.out.print (Print.valueText pv), skipNewline := false }
          have hpv' : code[τ.pc]? = some (CInstr.printValue, e.pos) := by rw [hp]; exact hpv
          have hpr' : _root_.RbModel.Ref.printValue v = some pv := hpr
          have s2 : Vm.step code τ = .next τ1 := by simp only [Vm.step, hpv', onA, hav, hpr']; rfl
          have hr1 : Rel sc { s with out := s.out.print (Print.valueText pv) } τ1 :=
            hrel.congr rfl rfl rfl rfl rfl rfl
              (by show τ.out.print (Print.valueText pv) = s.out.print (Print.valueText pv); rw [hrel.out])
              hrel.data rfl hrel.dataIdx hrel.queue hrel.funRes
          have h := ihr (σ.pc + (compileExpr e).length + 1) τ1 _ hcr
            (by show τ.pc + 1 = _; rw [hp]) hr1 hwr
          exact ItemsPost.prefix (st.trans (Steps.one s2))
            ((Stk.of_same hss).trans ⟨rfl, rfl, rfl, rfl, rfl⟩) rfl
            (by simp only [sizeItems]; omega) h

/-! ### the statement -/

/-- `PrintSetPrinterType; LoadIntoA 0; PrintSetFormatStringFromA`: only A, the program counter and the PRINT flag change;
the flag is cleared (every PRINT statement starts with no separator pending: repair 89314cd of the interpreter). -/
theorem head_steps (code : Code) (p : Pos) (σ : Vm)
    (hc : CodeAt code σ.pc [(CInstr.printSetPrinter, p), (CInstr.loadA (.int 0), p), (CInstr.printSetFormat, p)]) :
    ∃ τ, Steps code σ τ ∧ τ.pc = σ.pc + 3 ∧ τ.vars = σ.vars ∧ τ.arrs = σ.arrs ∧ τ.types = σ.types ∧ τ.out = σ.out ∧
      τ.data = σ.data ∧ τ.dataIdx = σ.dataIdx ∧ τ.queue = σ.queue ∧ τ.funRes = σ.funRes ∧ Stk σ τ ∧
      τ.skipNewline = false := by
  have h0 : code[σ.pc]? = some (CInstr.printSetPrinter, p) := hc.head
  have h1 : code[σ.pc + 1]? = some (CInstr.loadA (.int 0), p) := hc.tail.head
  have h2 : code[σ.pc + 1 + 1]? = some (CInstr.printSetFormat, p) := hc.tail.tail.head
  let σ1 : Vm := Vm.advance { σ with skipNewline := false }
  let σ2 : Vm := Vm.advance (Vm.setA σ1 (.int 0))
  let σ3 : Vm := Vm.advance σ2
  have s1 : Vm.step code σ = .next σ1 := by simp only [Vm.step, h0]; rfl
  have s2 : Vm.step code σ1 = .next σ2 := by
    have h1' : code[σ1.pc]? = some (CInstr.loadA (.int 0), p) := h1
    simp only [Vm.step, h1']; rfl
  have s3 : Vm.step code σ2 = .next σ3 := by
    have h2' : code[σ2.pc]? = some (CInstr.printSetFormat, p) := h2
    have ha : σ2.regs.a = .leaf (.int 0) := rfl
    simp only [Vm.step, h2', ha]; rfl
  exact ⟨σ3, Steps.cons s1 (Steps.cons s2 (Steps.one s3)), rfl, rfl, rfl, rfl, rfl, rfl, rfl, rfl, rfl,
    ⟨rfl, rfl, rfl, rfl, rfl⟩, rfl⟩

end RbThm.AoRSim.SimPrint

namespace RbThm.AoRSim
open RbModel RbModel.Num RbModel.AoR RbModel.AoR.Compile RbModel.AoR.Vm
open RbModel.Ast (Pos)
open RbModel.RecL (ETy FTy FFields expand zeroOf)
open RbModel.RecL.Vm (allocTy defaultVar)
open RbThm.AoRLen RbThm.ArrLNum RbThm.RecLTy RbThm.AoRTy RbThm.AoRSim.SimPrint

set_option linter.unusedSectionVars false
variable [ExprOk]

/-- **PRINT**. -/
theorem case_print (code : Code) (fuel : Nat) (ih : IHle code fuel) (items : List PrintItem) (p : Pos)
    (sc : Scope) (sfx : String) (off : Nat) (s : St) (σ : Vm)
    (hc : CodeAt code off (compileStmt sfx off (.print items p))) (hpc : σ.pc = off)
    (hr : Rel sc s σ) (hw : Wf sc (.print items p)) (ha : ActInv σ) :
    StmtPost code sc (sizeStmt (.print items p)) off σ
      (AoR.Ref.exec (fuel + 1) (desugar (.print items p)) s) := by
  simp only [compileStmt] at hc
  simp only [Wf] at hw
  have hwi := hw
  subst hpc
  obtain ⟨σ3, pre, hp3, henv3, hva3, harrs3, hout3, hdata3, hidx3, hq3, hf3, hstk3, hflag3⟩ :=
    head_steps code p σ hc.append_left.append_left
  -- the statement's head has cleared the flag
  have hflag0 : items = [] → σ3.skipNewline = false := fun _ => hflag3
  have hr3 : Rel sc s σ3 := hr.same henv3 hva3 harrs3 hout3 hdata3 hidx3 hq3 hf3
  have hci : CodeAt code (σ.pc + 3) (compileItems p items) := hc.append_left.append_right
  have hit := items_correct code sc p items (σ.pc + 3) σ3 s hci hp3 hr3 hwi
  have hend : code[σ.pc + 3 + sizeItems items]? = some (CInstr.printEnd, p) := by
    have := hc.append_right.head
    simp only [List.length_append, List.length_cons, List.length_nil, len_items] at this
    rw [← this]; congr 1; omega
  simp only [desugar, AoR.Ref.exec, sizeStmt]
  generalize AoR.Ref.printItems s items = r at hit ⊢
  obtain ⟨s', o⟩ := r
  cases o with
  | normal =>
    obtain ⟨τ, st, hp, hrel, hstk, hfl⟩ := hit
    rw [flagAfter_eq] at hfl
    have hpe : code[τ.pc]? = some (CInstr.printEnd, p) := by rw [hp]; exact hend
    have hstk' : Stk σ τ := hstk3.trans hstk
    by_cases hsep : AoR.Ref.endsInSeparator items = true
    · have hne' : items ≠ [] := by
        intro hi; subst hi; simp [AoR.Ref.endsInSeparator] at hsep
      have hk : τ.skipNewline = true := by rw [hfl]; simp only [hne', if_false, hsep]
      simp only [hsep, if_true, StmtPost]
      refine ⟨Vm.advance { τ with skipNewline := false }, (pre.trans st).trans (Steps.one ?_), ?_, ?_, ?_⟩
      · simp only [Vm.step, hpe, hk, if_true]
      · show τ.pc + 1 = _; rw [hp]; omega
      · exact hrel.same rfl rfl rfl rfl rfl rfl rfl rfl
      · exact ⟨hstk'.vals, hstk'.paths, hstk'.regStack, hstk'.ctx, hstk'.trace, fun _ => rfl⟩
    · have hk : τ.skipNewline = false := by
        rw [hfl]
        by_cases hi : items = []
        · simp only [hi, if_true]; exact hflag0 hi
        · simp only [hi, if_false]; simpa using hsep
      simp only [hsep, StmtPost]
      refine ⟨Vm.advance { τ with out := τ.out.println }, (pre.trans st).trans (Steps.one ?_), ?_, ?_, ?_⟩
      · simp only [Vm.step, hpe, hk]; rfl
      · show τ.pc + 1 = _; rw [hp]; omega
      · exact hrel.congr rfl rfl rfl rfl rfl rfl (by show τ.out.println = s'.out.println; rw [hrel.out]) hrel.data rfl
          hrel.dataIdx hrel.queue hrel.funRes
      · exact ⟨hstk'.vals, hstk'.paths, hstk'.regStack, hstk'.ctx, hstk'.trace, fun _ => hk⟩
  | halted => exact StmtPost.of_err (ErrPost.of_steps (s' := s') (o := .halted) pre hit)
  | error c q => exact StmtPost.of_err (ErrPost.of_steps (s' := s') (o := .error c q) pre hit)
  | inexact => trivial
  | outOfFuel => trivial
  | illFormed => exact StmtPost.of_err (ErrPost.of_steps (s' := s') (o := .illFormed) pre hit)
  | tooBig => exact StmtPost.of_err (ErrPost.of_steps (s' := s') (o := .tooBig) pre hit)

end RbThm.AoRSim
