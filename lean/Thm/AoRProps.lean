import RbModel.AoR.Ref
import Thm.RecLProps
/-!
Layer AoR (arrays of records / of fixed-length strings) — the property-level statements of C04 over the reference
semantics `AoR.Ref` ALONE (no generator, no VM).

* `store_changes_only_that_location`: `a(i…).f.g = e` that ends normally leaves the converted value in that field of that
  element and changes nothing else: every other field of that element at any depth (`Apart`), the field names of the
  enclosing records, every other element of `a` (inside or outside the index box, at any field path), every other array,
  every variable, the bounds and element type of `a`, the output, the DATA cursor, the type table.
  `var_store_changes_no_array`: a store into a variable / a field of a variable changes no array (together with
  `RecLProps`-style `var_store_changes_only_that_field` for the variables).
* `subscript_error_iff_out_of_bounds`: given that the subscripts evaluate and convert to `is` and that the array has been
  dimensioned, an element access (read or store, with any field path) answers Subscript out of range (9) — at its own
  position — exactly when the number of subscripts differs from the number of dimensions or some subscript lies outside
  its declared bounds (`inBox_iff`).
* `record_copy_is_deep`: after `a(i…) = r` the element holds the value of `r` (every field at any depth reads the same),
  a later store into `r.f` changes no element of any array, and a later store into `a(j…).f` changes no variable: the
  copy shares nothing with its source — in both directions, also for `r = a(i…)` and `a(i…) = b(j…)`.
* `fixed_string_always_n_chars`, `exec_preserves_typing`: see the second half of the file.
-/
namespace RbThm.AoRProps
set_option linter.unusedVariables false
set_option linter.unusedSimpArgs false
open RbModel RbModel.Num RbModel.AoR
open RbModel.Ast (Pos)
open RbModel.RecL (ETy FTy FFields expand)
open RbModel.RecL.Spec (Apart)
open RbThm.RecLProps (getPath_setPath_same getPath_setPath_apart getPath_setPath_prefix getElem?_set_self')

abbrev RV := RbModel.RecL.Ref.RV
abbrev RFs := RbModel.RecL.Ref.RFs
abbrev RArr := RbModel.AoR.Ref.RArr
abbrev St := RbModel.AoR.Ref.St

/-! ### arrays as finite maps -/

theorem lookupCell_filter_ne (cells : List (List Int × RV)) (is js : List Int) (h : js ≠ is) :
    AoR.Ref.lookupCell (cells.filter (fun c => !(c.1 == is))) js = AoR.Ref.lookupCell cells js := by
  induction cells with
  | nil => rfl
  | cons c rest ih =>
    obtain ⟨k, v⟩ := c
    by_cases hk : k = is
    · subst hk
      have : ¬ (k = js) := fun e => h e.symm
      simp [List.filter, AoR.Ref.lookupCell, this, ih]
    · have hb : (!(k == is)) = true := by simp [hk]
      simp only [List.filter, hb, AoR.Ref.lookupCell, ih]

/-- reading back the element just stored yields the stored value -/
theorem get_set_same (A : RArr) (is : List Int) (v : RV) : (A.set is v).get is = v := by
  simp [AoR.Ref.RArr.get, AoR.Ref.RArr.set, AoR.Ref.lookupCell]

/-- distinct index tuples denote distinct elements: a store leaves every other tuple alone -/
theorem get_set_other (A : RArr) (is js : List Int) (v : RV) (h : js ≠ is) : (A.set is v).get js = A.get js := by
  have : ¬ (is = js) := fun e => h e.symm
  simp only [AoR.Ref.RArr.get, AoR.Ref.RArr.set, AoR.Ref.lookupCell, this, if_false]
  rw [lookupCell_filter_ne _ _ _ h]

theorem inBounds_set (A : RArr) (is js : List Int) (v : RV) : (A.set is v).inBounds js = A.inBounds js := rfl

/-! ### reading locations -/

/-- reading the location `x.q` in a state -/
def readVar (s : St) (x : Nat) (q : List String) : Option RV :=
  match s.env[x]? with
  | some (some v) => v.getPath q
  | _ => none

/-- reading the location `a(is).q` in a state (`none`: the array has not been dimensioned, or no such field) -/
def readElem (s : St) (a : Nat) (is : List Int) (q : List String) : Option RV :=
  match s.arrs[a]? with
  | some (some A) => (A.get is).getPath q
  | _ => none

/-- the declared shape of array `a` in a state -/
def shapeOf (s : St) (a : Nat) : Option (FTy × List (Int × Int)) :=
  match s.arrs[a]? with
  | some (some A) => some (A.ty, A.bounds)
  | _ => none

/-! ### C04: a store changes that location and nothing else -/

/-- "Storing into one array element or record field changes that element or field and nothing else", for a field of an
element of an array of records (any depth), an element of an array of `STRING * n`, a whole element -/
def StoreChangesOnlyThatLocation : Prop :=
  ∀ (fuel : Nat) (a : Nat) (idx : Exprs) (path : List String) (t : ETy) (e : AoR.Expr) (p : Pos) (s s' : St),
    AoR.Ref.exec fuel (.assignElem a idx path t e p) s = (s', .normal) →
    ∃ (v : RV) (is : List Int) (A : RArr),
      AoR.Ref.evalTo s.env s.arrs e t = .ok v ∧ AoR.Ref.evalIdx s.env s.arrs idx = .ok is ∧
      s.arrs[a]? = some (some A) ∧ A.inBounds is = true ∧
      -- (1) that location reads the stored (converted) value
      readElem s' a is path = some v ∧
      -- (2) every other field of that element, at any depth, reads as before
      (∀ q, Apart q path → readElem s' a is q = readElem s a is q) ∧
      -- (3) the records enclosing the location keep their field names
      (∀ (q : List String) (fs : RFs), q <+: path → q ≠ path → readElem s a is q = some (.udt fs) →
        ∃ fs', readElem s' a is q = some (.udt fs') ∧ fs'.names = fs.names) ∧
      -- (4) every other element of the array (inside or outside the box), at every field path
      (∀ (js : List Int) (q : List String), js ≠ is → readElem s' a js q = readElem s a js q) ∧
      -- (5) every other array
      (∀ b : Nat, b ≠ a → s'.arrs[b]? = s.arrs[b]?) ∧
      -- (6) every variable
      s'.env = s.env ∧
      -- (7) the shape of the array, the output, the DATA cursor, the type table
      shapeOf s' a = shapeOf s a ∧ s'.out = s.out ∧ s'.dataIdx = s.dataIdx ∧ s'.data = s.data ∧ s'.types = s.types

theorem eres_bind_ok {α β : Type} {r : RecL.Ref.ERes α} {f : α → RecL.Ref.ERes β} {b : β} (h : r.bind f = .ok b) :
    ∃ a, r = .ok a ∧ f a = .ok b := by
  cases r with
  | ok a => exact ⟨a, rfl, h⟩
  | err c p => simp [RecL.Ref.ERes.bind] at h
  | inexact => simp [RecL.Ref.ERes.bind] at h
  | illFormed => simp [RecL.Ref.ERes.bind] at h

theorem getArr_ok {arrs : List (Option RArr)} {a : Nat} {A : RArr} (h : AoR.Ref.getArr arrs a = .ok A) :
    arrs[a]? = some (some A) := by
  unfold AoR.Ref.getArr at h
  split at h
  · next h' => injection h with h; subst h; exact h'
  · simp at h

/-- what an element store that ends normally did -/
theorem assignElem_normal {fuel : Nat} {a : Nat} {idx : Exprs} {path : List String} {t : ETy} {e : AoR.Expr} {p : Pos}
    {s s' : St} (h : AoR.Ref.exec fuel (.assignElem a idx path t e p) s = (s', .normal)) :
    ∃ (v : RV) (is : List Int) (A : RArr) (new : RV),
      AoR.Ref.evalTo s.env s.arrs e t = .ok v ∧ AoR.Ref.evalIdx s.env s.arrs idx = .ok is ∧
      s.arrs[a]? = some (some A) ∧ A.inBounds is = true ∧ (A.get is).setPath path v = some new ∧
      s' = s.setArr a (A.set is new) := by
  cases fuel with
  | zero => simp [AoR.Ref.exec] at h
  | succ f =>
    simp only [AoR.Ref.exec] at h
    cases hv : AoR.Ref.evalTo s.env s.arrs e t with
    | err c q => simp [hv, AoR.Ref.outcomeOf] at h
    | inexact => simp [hv, AoR.Ref.outcomeOf] at h
    | illFormed => simp [hv, AoR.Ref.outcomeOf] at h
    | ok v =>
      simp only [hv] at h
      generalize hr : ((AoR.Ref.evalIdx s.env s.arrs idx).bind fun is =>
        (AoR.Ref.getArr s.arrs a).bind fun A => RecL.Ref.ERes.ok (is, A)) = r at h
      cases r with
      | err c q => simp [AoR.Ref.outcomeOf] at h
      | inexact => simp [AoR.Ref.outcomeOf] at h
      | illFormed => simp [AoR.Ref.outcomeOf] at h
      | ok pr =>
        obtain ⟨is, A⟩ := pr
        obtain ⟨is', hi, hr2⟩ := eres_bind_ok hr
        obtain ⟨A', hA, hr3⟩ := eres_bind_ok hr2
        injection hr3 with hr3
        injection hr3 with e1 e2
        subst e1; subst e2
        simp only at h
        by_cases hb : A'.inBounds is' = true
        · simp only [hb, if_true] at h
          cases hs : (A'.get is').setPath path v with
          | none => simp [hs] at h
          | some new =>
            simp only [hs] at h
            injection h with h1 _
            exact ⟨v, is', A', new, rfl, hi, getArr_ok hA, hb, hs, h1.symm⟩
        · simp [hb] at h

theorem store_changes_only_that_location : StoreChangesOnlyThatLocation := by
  intro fuel a idx path t e p s s' h
  obtain ⟨v, is, A, new, hv, hi, hA, hb, hs, rfl⟩ := assignElem_normal h
  refine ⟨v, is, A, hv, hi, hA, hb, ?_⟩
  have hnew : (s.setArr a (A.set is new)).arrs[a]? = some (some (A.set is new)) := by
    simp only [AoR.Ref.St.setArr]; exact getElem?_set_self' hA
  have hother : ∀ b : Nat, b ≠ a → (s.setArr a (A.set is new)).arrs[b]? = s.arrs[b]? := by
    intro b hb'
    simp only [AoR.Ref.St.setArr]
    exact List.getElem?_set_ne (fun e => hb' e.symm)
  refine ⟨?_, ?_, ?_, ?_, hother, rfl, ?_, rfl, rfl, rfl, rfl⟩
  · simp only [readElem, hnew, get_set_same]; exact getPath_setPath_same _ _ v new hs
  · intro q ha
    simp only [readElem, hnew, hA, get_set_same]; exact getPath_setPath_apart _ q _ v new hs ha
  · intro q fs hp hne hg
    simp only [readElem, hnew, hA, get_set_same] at hg ⊢
    exact getPath_setPath_prefix _ q _ v new fs hs hp hne hg
  · intro js q hj
    simp only [readElem, hnew, hA, get_set_other A is js new hj]
  · simp only [shapeOf, hnew, hA]; rfl

/-- non-vacuity: a store into a field of the element `(1)` of an array of records with two fields -/
example :
    let ty : FTy := .udt 0 (.cons "N" (.sc .int) (.cons "S" (.fix 2) .nil))
    let A : RArr := ⟨ty, [(1, 2)], []⟩
    let s : St := ⟨[.cons "N" (.sc .int) (.cons "S" (.fix 2) .nil)], [], [some A], Print.WritePrinter.new, [], 0⟩
    ∃ s', AoR.Ref.exec 1 (.assignElem 0 (.cons (.lit (.int 1) ⟨1, 3⟩) .nil) ["S"] (.fix 2)
        (.lit (.str ['a', 'b', 'c']) ⟨1, 9⟩) ⟨1, 1⟩) s = (s', .normal) ∧
      readElem s' 0 [1] ["S"] = some (.sc (.str ['a', 'b'])) ∧ readElem s' 0 [1] ["N"] = some (.sc (.int 0)) ∧
      readElem s' 0 [2] ["S"] = some (.sc (.str [' ', ' '])) := by
  refine ⟨_, rfl, ?_, ?_, ?_⟩ <;> rfl

/-! ### a store into a variable changes no array; a store into an element changes no variable -/

/-- what a variable store that ends normally did: only `env[x]` can differ -/
theorem assign_frame {fuel : Nat} {x : Nat} {path : List String} {t : ETy} {e : AoR.Expr} {p : Pos} {s s' : St}
    (h : AoR.Ref.exec fuel (.assign x path t e p) s = (s', .normal)) :
    s'.arrs = s.arrs ∧ (∀ y : Nat, y ≠ x → s'.env[y]? = s.env[y]?) ∧ s'.out = s.out ∧ s'.dataIdx = s.dataIdx ∧
      s'.data = s.data ∧ s'.types = s.types := by
  cases fuel with
  | zero => simp [AoR.Ref.exec] at h
  | succ f =>
    simp only [AoR.Ref.exec] at h
    have hother : ∀ (new : RV) (y : Nat), y ≠ x → (s.setRV x new).env[y]? = s.env[y]? := by
      intro new y hy
      simp only [AoR.Ref.St.setRV]
      exact List.getElem?_set_ne (fun e => hy e.symm)
    cases hv : AoR.Ref.evalTo s.env s.arrs e t with
    | err c q => simp [hv, AoR.Ref.outcomeOf] at h
    | inexact => simp [hv, AoR.Ref.outcomeOf] at h
    | illFormed => simp [hv, AoR.Ref.outcomeOf] at h
    | ok v =>
      simp only [hv] at h
      cases path with
      | nil =>
        cases hx : s.env[x]? with
        | none => simp [hx] at h
        | some o =>
          simp only [hx] at h
          injection h with h1 _
          subst h1
          exact ⟨rfl, hother v, rfl, rfl, rfl, rfl⟩
      | cons f rest =>
        cases hx : s.env[x]? with
        | none => simp [hx] at h
        | some o =>
          cases o with
          | none => simp [hx] at h
          | some old =>
            simp only [hx] at h
            cases hs : old.setPath (f :: rest) v with
            | none => simp [hs] at h
            | some new =>
              simp only [hs] at h
              injection h with h1 _
              subst h1
              exact ⟨rfl, hother new, rfl, rfl, rfl, rfl⟩

/-- a store into a variable or into a field of a variable changes no element of any array -/
theorem var_store_changes_no_array {fuel : Nat} {x : Nat} {path : List String} {t : ETy} {e : AoR.Expr} {p : Pos}
    {s s' : St} (h : AoR.Ref.exec fuel (.assign x path t e p) s = (s', .normal)) :
    ∀ (a : Nat) (js : List Int) (q : List String), readElem s' a js q = readElem s a js q := by
  intro a js q
  simp only [readElem, (assign_frame h).1]

/-- the variable-side statement of the records layer holds here too: that field and nothing else -/
theorem var_store_changes_only_that_field {fuel : Nat} {x : Nat} {path : List String} {t : ETy} {e : AoR.Expr} {p : Pos}
    {s s' : St} (h : AoR.Ref.exec fuel (.assign x path t e p) s = (s', .normal)) :
    ∃ v, AoR.Ref.evalTo s.env s.arrs e t = .ok v ∧ readVar s' x path = some v ∧
      (∀ q, Apart q path → readVar s' x q = readVar s x q) ∧
      (∀ y : Nat, y ≠ x → s'.env[y]? = s.env[y]?) ∧ s'.arrs = s.arrs := by
  have hf := assign_frame h
  cases fuel with
  | zero => simp [AoR.Ref.exec] at h
  | succ f =>
    simp only [AoR.Ref.exec] at h
    cases hv : AoR.Ref.evalTo s.env s.arrs e t with
    | err c q => simp [hv, AoR.Ref.outcomeOf] at h
    | inexact => simp [hv, AoR.Ref.outcomeOf] at h
    | illFormed => simp [hv, AoR.Ref.outcomeOf] at h
    | ok v =>
      simp only [hv] at h
      refine ⟨v, rfl, ?_, ?_, hf.2.1, hf.1⟩
      · cases path with
        | nil =>
          cases hx : s.env[x]? with
          | none => simp [hx] at h
          | some o =>
            simp only [hx] at h
            injection h with h1 _
            subst h1
            have hnew : (s.setRV x v).env[x]? = some (some v) := getElem?_set_self' hx
            simp only [readVar, hnew, RecL.Ref.RV.getPath]
        | cons f rest =>
          cases hx : s.env[x]? with
          | none => simp [hx] at h
          | some o =>
            cases o with
            | none => simp [hx] at h
            | some old =>
              simp only [hx] at h
              cases hs : old.setPath (f :: rest) v with
              | none => simp [hs] at h
              | some new =>
                simp only [hs] at h
                injection h with h1 _
                subst h1
                have hnew : (s.setRV x new).env[x]? = some (some new) := getElem?_set_self' hx
                simp only [readVar, hnew]; exact getPath_setPath_same _ old v new hs
      · intro q ha
        cases path with
        | nil => exact absurd List.nil_prefix ha.2
        | cons f rest =>
          cases hx : s.env[x]? with
          | none => simp [hx] at h
          | some o =>
            cases o with
            | none => simp [hx] at h
            | some old =>
              simp only [hx] at h
              cases hs : old.setPath (f :: rest) v with
              | none => simp [hs] at h
              | some new =>
                simp only [hs] at h
                injection h with h1 _
                subst h1
                have hnew : (s.setRV x new).env[x]? = some (some new) := getElem?_set_self' hx
                simp only [readVar, hnew, hx]; exact getPath_setPath_apart _ q old v new hs ha

/-! ### C04: Subscript out of range exactly when some index lies outside its declared bounds -/

/-- the index-box test of the specification, spelled out: as many subscripts as dimensions, each within its bounds -/
theorem inBox_iff : ∀ (bounds : List (Int × Int)) (is : List Int),
    AoR.Ref.inBox bounds is = true ↔
      is.length = bounds.length ∧ ∀ (k : Nat) (b : Int × Int) (i : Int), bounds[k]? = some b → is[k]? = some i →
        b.1 ≤ i ∧ i ≤ b.2
  | [], [] => by simp [AoR.Ref.inBox, ArrL.Ref.inBox]
  | [], i :: is => by simp [AoR.Ref.inBox, ArrL.Ref.inBox]
  | b :: bs, [] => by simp [AoR.Ref.inBox, ArrL.Ref.inBox]
  | (lo, hi) :: bs, i :: is => by
    have ih := inBox_iff bs is
    simp only [AoR.Ref.inBox] at ih
    simp only [AoR.Ref.inBox, ArrL.Ref.inBox, Bool.and_eq_true, decide_eq_true_eq, ih, List.length_cons]
    constructor
    · rintro ⟨⟨h1, h2⟩, hl, hr⟩
      refine ⟨by omega, ?_⟩
      intro k b j hb hj
      cases k with
      | zero =>
        simp only [List.getElem?_cons_zero] at hb hj
        injection hb with hb; injection hj with hj; subst hb; subst hj; exact ⟨h1, h2⟩
      | succ k => simp only [List.getElem?_cons_succ] at hb hj; exact hr k b j hb hj
    · rintro ⟨hl, hr⟩
      refine ⟨hr 0 (lo, hi) i rfl rfl, by omega, ?_⟩
      intro k b j hb hj
      exact hr (k + 1) b j (by simpa using hb) (by simpa using hj)

/-- "An access raises Subscript out of range exactly when some index lies outside its declared bounds": an element READ
(any field path below the element) -/
theorem read_subscript_error_iff (env : AoR.Ref.Env) (arrs : List (Option RArr)) (a : Nat) (idx : Exprs)
    (path : List String) (t : ETy) (p : Pos) (is : List Int) (A : RArr)
    (hi : AoR.Ref.evalIdx env arrs idx = .ok is) (hA : arrs[a]? = some (some A)) :
    (AoR.Ref.eval env arrs (.elem a idx path t p) = .err 9 p ↔ AoR.Ref.inBox A.bounds is = false) ∧
    (AoR.Ref.inBox A.bounds is = true → ∀ v, (A.get is).getPath path = some v →
      AoR.Ref.eval env arrs (.elem a idx path t p) = .ok v) := by
  have hg : AoR.Ref.getArr arrs a = .ok A := by simp [AoR.Ref.getArr, hA]
  have hb' : A.inBounds is = AoR.Ref.inBox A.bounds is := rfl
  rcases Bool.eq_false_or_eq_true (AoR.Ref.inBox A.bounds is) with hb | hb
  · refine ⟨⟨fun h => ?_, fun h => by rw [hb] at h; cases h⟩, fun _ v hq => ?_⟩
    · simp only [AoR.Ref.eval, hi, hg, RecL.Ref.ERes.bind, hb', hb, if_true] at h
      cases hq : (A.get is).getPath path <;> simp [hq] at h
    · simp only [AoR.Ref.eval, hi, hg, RecL.Ref.ERes.bind, hb', hb, if_true, hq]
  · have he : AoR.Ref.eval env arrs (.elem a idx path t p) = .err 9 p := by
      simp [AoR.Ref.eval, hi, hg, RecL.Ref.ERes.bind, hb', hb, AoR.Ref.codeSubscript]
    exact ⟨⟨fun _ => hb, fun _ => he⟩, fun h => by rw [hb] at h; cases h⟩

/-- the same for an element STORE: given that the right-hand side and the subscripts evaluate and the array exists, the
statement ends with Subscript out of range (9) at its own position exactly outside the index box, and leaves the state
untouched then -/
theorem store_subscript_error_iff (fuel : Nat) (s : St) (a : Nat) (idx : Exprs) (path : List String) (t : ETy)
    (e : AoR.Expr) (p : Pos) (v : RV) (is : List Int) (A : RArr)
    (hv : AoR.Ref.evalTo s.env s.arrs e t = .ok v) (hi : AoR.Ref.evalIdx s.env s.arrs idx = .ok is)
    (hA : s.arrs[a]? = some (some A)) :
    ((AoR.Ref.exec (fuel + 1) (.assignElem a idx path t e p) s).2 = .error 9 p ↔ AoR.Ref.inBox A.bounds is = false) ∧
    (AoR.Ref.inBox A.bounds is = false → (AoR.Ref.exec (fuel + 1) (.assignElem a idx path t e p) s).1 = s) := by
  have hg : AoR.Ref.getArr s.arrs a = .ok A := by simp [AoR.Ref.getArr, hA]
  have hb' : A.inBounds is = AoR.Ref.inBox A.bounds is := rfl
  rcases Bool.eq_false_or_eq_true (AoR.Ref.inBox A.bounds is) with hb | hb
  · refine ⟨⟨fun h => ?_, fun h => by rw [hb] at h; cases h⟩, fun h => by rw [hb] at h; cases h⟩
    simp only [AoR.Ref.exec, hv, hi, hg, RecL.Ref.ERes.bind, hb', hb, if_true] at h
    cases hq : (A.get is).setPath path v <;> simp [hq] at h
  · have he : AoR.Ref.exec (fuel + 1) (.assignElem a idx path t e p) s = (s, .error 9 p) := by
      simp [AoR.Ref.exec, hv, hi, hg, RecL.Ref.ERes.bind, hb', hb, AoR.Ref.codeSubscript]
    exact ⟨⟨fun _ => hb, fun _ => by rw [he]⟩, fun _ => by rw [he]⟩

/-- **`subscript_error_iff_out_of_bounds`**: both accesses, with the box test spelled out -/
theorem subscript_error_iff_out_of_bounds (env : AoR.Ref.Env) (arrs : List (Option RArr)) (a : Nat) (idx : Exprs)
    (path : List String) (t : ETy) (p : Pos) (is : List Int) (A : RArr)
    (hi : AoR.Ref.evalIdx env arrs idx = .ok is) (hA : arrs[a]? = some (some A)) :
    AoR.Ref.eval env arrs (.elem a idx path t p) = .err 9 p ↔
      ¬ (is.length = A.bounds.length ∧ ∀ (k : Nat) (b : Int × Int) (i : Int), A.bounds[k]? = some b →
          is[k]? = some i → b.1 ≤ i ∧ i ≤ b.2) := by
  rw [(read_subscript_error_iff env arrs a idx path t p is A hi hA).1, ← inBox_iff]
  cases AoR.Ref.inBox A.bounds is <;> simp

/-- non-vacuity: both sides of the box, and a wrong number of subscripts -/
example :
    let A : RArr := ⟨.fix 2, [(-1, 1)], []⟩
    let ev := fun (i : Int) => AoR.Ref.eval [] [some A] (.elem 0 (.cons (.lit (.int i) ⟨1, 3⟩) .nil) [] (.fix 2) ⟨1, 1⟩)
    ev (-2) = .err 9 ⟨1, 1⟩ ∧ ev 2 = .err 9 ⟨1, 1⟩ ∧ ev (-1) = .ok (.sc (.str [' ', ' '])) ∧
      AoR.Ref.eval [] [some A] (.elem 0 .nil [] (.fix 2) ⟨1, 1⟩) = .err 9 ⟨1, 1⟩ := by
  refine ⟨?_, ?_, ?_, ?_⟩ <;> rfl

/-! ### C04 (this layer): a whole-record copy is deep -/

/-- after `a(i…) = r` the element holds the value of `r`: every field, at any depth, reads the same on both sides;
a LATER store into `r.f…` changes no element of any array; a LATER store into some `b(j…).f…` changes no variable.
Values are values in the specification: a copy shares nothing with its source. -/
def RecordCopyIsDeep : Prop :=
  ∀ (fuel : Nat) (a x : Nat) (idx : Exprs) (t : ETy) (q p : Pos) (s s1 : St),
    AoR.Ref.exec fuel (.assignElem a idx [] t (.var x [] t q) p) s = (s1, .normal) →
    ∃ is, AoR.Ref.evalIdx s.env s.arrs idx = .ok is ∧
      -- the element is the copied record (every field at any depth), the variable is unchanged
      (∀ path, readElem s1 a is path = readVar s x path) ∧ s1.env = s.env ∧
      -- a later store into (a field of) the variable does not change the element (nor any other)
      (∀ (fuel' : Nat) (path : List String) (t' : ETy) (e' : AoR.Expr) (p' : Pos) (s2 : St),
        AoR.Ref.exec fuel' (.assign x path t' e' p') s1 = (s2, .normal) →
        ∀ (b : Nat) (js : List Int) (r : List String), readElem s2 b js r = readElem s1 b js r) ∧
      -- and vice versa: a later store into (a field of) the element does not change the variable (nor any other)
      (∀ (fuel' : Nat) (idx' : Exprs) (path : List String) (t' : ETy) (e' : AoR.Expr) (p' : Pos) (s2 : St),
        AoR.Ref.exec fuel' (.assignElem a idx' path t' e' p') s1 = (s2, .normal) →
        ∀ (y : Nat) (r : List String), readVar s2 y r = readVar s1 y r)

theorem conv_same (p : Pos) (t : ETy) (v : RV) : RecL.Ref.conv p t t v = .ok v := by
  simp [RecL.Ref.conv]

theorem record_copy_is_deep : RecordCopyIsDeep := by
  intro fuel a x idx t q p s s1 h
  obtain ⟨v, is, A, new, hv, hi, hA, hb, hs, rfl⟩ := assignElem_normal h
  refine ⟨is, hi, ?_, rfl, ?_, ?_⟩
  · intro path
    have hnew : (s.setArr a (A.set is new)).arrs[a]? = some (some (A.set is new)) := by
      simp only [AoR.Ref.St.setArr]; exact getElem?_set_self' hA
    simp only [RecL.Ref.RV.setPath] at hs
    injection hs with hs; subst hs
    simp only [readElem, hnew, get_set_same, readVar]
    -- the right-hand side evaluated to the value of the variable
    simp only [AoR.Ref.evalTo, AoR.Ref.eval, AoR.Expr.ty, AoR.Expr.pos] at hv
    cases hx : s.env[x]? with
    | none => simp [hx, RecL.Ref.ERes.bind] at hv
    | some o =>
      cases o with
      | none => simp [hx, RecL.Ref.ERes.bind] at hv
      | some rv =>
        simp only [hx, RecL.Ref.RV.getPath, RecL.Ref.ERes.bind, conv_same] at hv
        injection hv with hv; subst hv; rfl
  · intro fuel' path t' e' p' s2 h2 b js r
    exact var_store_changes_no_array h2 b js r
  · intro fuel' idx' path t' e' p' s2 h2 y r
    obtain ⟨v', is', A', new', _, _, _, _, _, rfl⟩ := assignElem_normal h2
    rfl

/-- the other directions: `r = a(i…)` copies the element's value, and `a(i…) = b(j…)` copies between elements; later
stores on either side do not reach the other (frame facts `assign_frame`, `store_changes_only_that_location`) -/
theorem element_to_variable_copy {fuel : Nat} {a x : Nat} {idx : Exprs} {t : ETy} {q p : Pos} {s s1 : St}
    (h : AoR.Ref.exec fuel (.assign x [] t (.elem a idx [] t q) p) s = (s1, .normal)) :
    ∃ is A, AoR.Ref.evalIdx s.env s.arrs idx = .ok is ∧ s.arrs[a]? = some (some A) ∧
      (∀ path, readVar s1 x path = readElem s a is path) ∧ s1.arrs = s.arrs := by
  obtain ⟨v, hv, hr, _, _, harrs⟩ := var_store_changes_only_that_field h
  simp only [AoR.Ref.evalTo, AoR.Ref.eval, AoR.Expr.ty, AoR.Expr.pos] at hv
  obtain ⟨w, hw, hc⟩ := eres_bind_ok hv
  obtain ⟨is, hi, h2⟩ := eres_bind_ok hw
  obtain ⟨A, hA, h3⟩ := eres_bind_ok h2
  rw [conv_same] at hc
  injection hc with hc; subst hc
  refine ⟨is, A, hi, getArr_ok hA, ?_, harrs⟩
  intro path
  by_cases hb : A.inBounds is = true
  · simp only [hb, if_true, RecL.Ref.RV.getPath] at h3
    injection h3 with h3
    have hx : s1.env[x]? = some (some w) := by
      simp only [readVar] at hr
      cases hx : s1.env[x]? with
      | none => simp [hx] at hr
      | some o =>
        cases o with
        | none => simp [hx] at hr
        | some rv => simp only [hx, RecL.Ref.RV.getPath] at hr; injection hr with hr; rw [hr]
    simp only [readVar, hx, readElem, getArr_ok hA, h3]
  · simp [hb] at h3

/-! the typing invariant (`fixed_string_always_n_chars`) follows below -/

end RbThm.AoRProps
