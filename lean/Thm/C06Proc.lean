import Thm.C06
import Thm.C06Core
import Thm.ProcSim
import Thm.ProcProps
/-!
C06 over the procedures layer (`RbModel.Proc.Ref`: core language + SUB / FUNCTION with by-value and by-reference scalar
parameters, DIM SHARED, STATIC).

`Thm/C06Core.lean` carries "a numeric variable only ever holds a value of its own type and range" through the core
language.  Here the same invariant is carried through calls: the state of `Proc.Ref` has four stores — the activation
environment, the table of DIM SHARED variables, one persistent environment per (STATIC) procedure, the DATA items — and
`Good` says every slot of every one of them holds a value of the slot's declared type, within that type's range.

* `exec_inrange`, `eval_inrange`, `args_inrange`, `call_inrange` — every statement, expression (function calls inside),
  argument list and call, any amount of fuel, **any outcome**: `Good` before implies `Good` after.  When the outcome lets
  the run go on (a value; `normal` / `exited`) the state is back in the activation it started in and `Good` holds for the
  same scope; when it ends the run (END, a BASIC error, `inexact`, `outOfFuel`, also deep inside a callee) the final state is
  the innermost activation's and `Good` holds for the scope that activation belongs to (`GoodSome`).
* `param_by_value_converted`, `arg_overflow_iff`, `call_arg_error_stores_nothing`, `param_bound` — by-value parameters;
  `byref_writeback_inrange`, `function_result_inrange`; `run_inrange`; `proc_run_inrange` (to the VM model through the
  simulation theorem of the layer).
-/
namespace RbThm.C06Proc
set_option linter.unusedVariables false
set_option linter.unusedSimpArgs false
open RbModel RbModel.Num RbModel.Proc RbModel.Proc.Ref
open RbModel.Ast (Pos)
open RbThm.C06
open RbThm.ProcSim (EWf AWf ItemsWf CaseWf CondsWf SelRelOp Typed)

/-! ### hypotheses: literals and DATA items are values of their own types (decidable) -/

mutual
/-- every literal of the expression (argument lists of function calls included) is in range for its own tag -/
def litsE : Proc.Expr → Bool
  | .lit v _ => decide v.InRange
  | .var _ _ _ => true
  | .un _ e _ => litsE e
  | .bin _ l r _ _ => litsE l && litsE r
  | .paren e _ => litsE e
  | .callFn _ args _ _ => litsA args
def litsA : Args → Bool
  | .nil => true
  | .cons e _ _ rest => litsE e && litsA rest
end

def litsItem : PrintItem → Bool
  | .expr e => litsE e
  | _ => true

def litsCase : CaseExpr → Bool
  | .simple e => litsE e
  | .is _ e => litsE e
  | .range lo hi => litsE lo && litsE hi

mutual
/-- all literals of a statement of the reference syntax are in range (a call may sit in any expression, and its
by-value arguments are stored: so every expression is covered, not only the assigned ones as in `C06Core.RangeWf`) -/
def rangeB : Stmt → Bool
  | .skip => true
  | .seq a b => rangeB a && rangeB b
  | .assign _ _ e _ => litsE e
  | .print items _ => items.all litsItem
  | .read _ _ _ => true
  | .ifs c thn els _ => litsE c && rangeB thn && rangeB els
  | .select e cases _ => litsE e && rangeCB cases
  | .forLoop _ _ lo hi step body _ =>
    litsE lo && litsE hi && (match step with | some se => litsE se | none => true) && rangeB body
  | .while c body _ => litsE c && rangeB body
  | .doLoop c _ _ body _ => litsE c && rangeB body
  | .end_ _ => true
  | .callSub _ args _ => litsA args
  | .exitProc _ => true
def rangeCB : Cases → Bool
  | .nil => true
  | .else_ body => rangeB body
  | .case conds body rest => conds.all litsCase && rangeB body && rangeCB rest
end

/-- **the range premise of a whole program** (decidable): every literal of the main module and of every procedure body and
every DATA item is a value in range for its own tag — what the parser produces -/
def progRangeB (P : Program) : Bool :=
  rangeB P.body && P.procs.all (fun d => rangeB d.body) && P.data.all (fun v => decide v.InRange)

/-! ### static well-formedness on the reference syntax -/

/-- the two slot tables a scope with local table `sl` resolves its variables against -/
def tabs (P : Program) (sl : List Ty) : SlotTabs := ⟨sl, P.gslots⟩

mutual
/-- what the invariant needs of a statement of the reference syntax: stored variables are declared slots used at their
declared types, every expression is well typed (`ProcSim.EWf`: operator nodes by the extracted table, calls name an
existing procedure with the annotated parameters, a by-reference actual has the parameter's type) -/
def WfA (sg : Sigs) (tb : SlotTabs) : Stmt → Prop
  | .skip => True
  | .seq a b => WfA sg tb a ∧ WfA sg tb b
  | .assign x t e _ => tb.get? x = some t ∧ EWf sg tb e
  | .print items _ => ItemsWf sg tb items
  | .read x t _ => tb.get? x = some t
  | .ifs c thn els _ => EWf sg tb c ∧ WfA sg tb thn ∧ WfA sg tb els
  | .select e cases _ => EWf sg tb e ∧ WfAC sg tb cases
  | .forLoop x t lo hi step body _ =>
    tb.get? x = some t ∧ EWf sg tb lo ∧ EWf sg tb hi ∧ (∀ se, step = some se → EWf sg tb se) ∧ WfA sg tb body
  | .while c body _ => EWf sg tb c ∧ WfA sg tb body
  | .doLoop c _ _ body _ => EWf sg tb c ∧ WfA sg tb body
  | .end_ _ => True
  | .callSub f args _ => sg[f]? = some (none, args.params) ∧ AWf sg tb args
  | .exitProc _ => True
def WfAC (sg : Sigs) (tb : SlotTabs) : Cases → Prop
  | .nil => True
  | .else_ body => WfA sg tb body
  | .case conds body rest => CondsWf sg tb conds ∧ WfA sg tb body ∧ WfAC sg tb rest
end

/-- the parameter types (and the result type of a FUNCTION) are the first entries of the slot table
(`ProcSim.SlotsOk` for a declaration with any kind of body) -/
def SlotsOkG {β : Type} (d : ProcDecl β) : Prop :=
  (∀ (i : Nat) (pn : String) (pt : Ty), d.params[i]? = some (pn, pt) → d.slots[i]? = some pt) ∧
  (∀ rt : Ty, d.result = some rt → d.slots[d.params.length]? = some rt)

/-- the procedures of the reference program are well formed and have in-range literals -/
structure ProcsGood (P : Program) (sg : Sigs) : Prop where
  sgEq : sg = sigsOf P.procs
  procs : ∀ (f : Nat) (d : ProcDecl Stmt), P.procs[f]? = some d →
    SlotsOkG d ∧ WfA sg (tabs P d.slots) d.body ∧ rangeB d.body = true

/-! ### the invariant -/

/-- an environment over a slot table: every slot holds a value of its declared type (`Typed`), every value is in
range for its tag -/
def GoodEnv (sl : List Ty) (env : List Val) : Prop := Typed sl env ∧ ∀ v ∈ env, v.InRange

/-- `sl` is the slot table of a scope of the program: the main module or a procedure -/
def ScopeOf (P : Program) (sl : List Ty) : Prop :=
  sl = P.slots ∨ ∃ (f : Nat) (d : ProcDecl Stmt), P.procs[f]? = some d ∧ sl = d.slots

/-- **the invariant**, for a state inside an activation of the scope with local slot table `sl`: the variables of the
current activation, the DIM SHARED variables and the persistent environment of every procedure hold values of their
declared types within those types' ranges, and so do the DATA items -/
structure Good (P : Program) (sl : List Ty) (s : St) : Prop where
  scope : ScopeOf P sl
  /-- the current activation (its own environment, or the persistent one of the STATIC procedure it belongs to) -/
  loc : GoodEnv sl s.locals
  glob : GoodEnv P.gslots s.glob
  stat : ∀ f d, P.procs[f]? = some d → GoodEnv d.slots (s.statics f)
  selfOk : ∀ f, s.self = some f → ∃ d, P.procs[f]? = some d ∧ sl = d.slots
  data : ∀ v ∈ s.data, v.InRange

/-- the invariant for whatever scope the state's activation belongs to -/
def GoodSome (P : Program) (s : St) : Prop := ∃ sl, Good P sl s

theorem Good.anyScope {P : Program} {sl : List Ty} {s : St} (h : Good P sl s) : GoodSome P s := ⟨sl, h⟩

/-- after an evaluation: a value comes with a state of the same activation satisfying the invariant and `Q`; an abrupt
end comes with a state satisfying the invariant for its own activation -/
def PostE {α : Type} (P : Program) (sl : List Ty) (Q : α → Prop) : St × Except Outcome α → Prop
  | (s', .ok v) => Good P sl s' ∧ Q v
  | (s', .error o) => GoodSome P s' ∧ returns o = false

/-- after a statement: `normal` / `exited` come with a state of the same activation -/
def PostO (P : Program) (sl : List Ty) : St × Outcome → Prop
  | (s', .normal) => Good P sl s'
  | (s', .exited) => Good P sl s'
  | (s', _) => GoodSome P s'

theorem PostO.of_good {P : Program} {sl : List Ty} {s' : St} (h : Good P sl s') (o : Outcome) : PostO P sl (s', o) := by
  cases o <;> first | exact h | exact h.anyScope

theorem PostO.any {P : Program} {sl : List Ty} {s' : St} {o : Outcome} (h : PostO P sl (s', o)) : GoodSome P s' := by
  cases o <;> first | exact h | exact Good.anyScope h

theorem PostO.of_some {P : Program} {sl : List Ty} {s' : St} {o : Outcome} (h : GoodSome P s')
    (ho : returns o = false) : PostO P sl (s', o) := by
  cases o <;> first | exact h | (simp [returns] at ho)

theorem PostE.any {α : Type} {P : Program} {sl : List Ty} {Q : α → Prop} {s' : St} {r : Except Outcome α}
    (h : PostE P sl Q (s', r)) : GoodSome P s' := by
  cases r with
  | ok v => exact h.1.anyScope
  | error o => exact h.1

/-! ### helper lemmas -/

theorem zeroOf_inRange (t : Ty) : (zeroOf t).InRange := by cases t <;> decide +kernel

theorem zeroOf_tag (t : Ty) : (zeroOf t).tag = t := by cases t <;> rfl

theorem goodEnv_zero (sl : List Ty) : GoodEnv sl (sl.map zeroOf) := by
  refine ⟨RbThm.ProcSim.typed_init sl, ?_⟩
  intro v hv
  simp only [List.mem_map] at hv
  obtain ⟨t, _, rfl⟩ := hv
  exact zeroOf_inRange t

theorem GoodEnv.getD {sl : List Ty} {env : List Val} (h : GoodEnv sl env) {x : Nat} {t : Ty} (hx : sl[x]? = some t)
    (d : Val) : (env.getD x d).tag = t ∧ (env.getD x d).InRange := by
  obtain ⟨v, hv, ht⟩ := h.1.2 x t hx
  simp only [List.getD, hv, Option.getD_some]
  exact ⟨ht, h.2 v (List.mem_of_getElem? hv)⟩

theorem GoodEnv.set {sl : List Ty} {env : List Val} (h : GoodEnv sl env) {x : Nat} {t : Ty} {v : Val}
    (hx : sl[x]? = some t) (ht : v.tag = t) (hr : v.InRange) : GoodEnv sl (env.set x v) :=
  ⟨RbThm.C01Sim.SimRead.typed_set h.1 hx ht, RbThm.C06Core.set_inRange h.2 x hr⟩

/-- a declaration seen as one with a faithful-syntax body (the lemmas of `Thm/ProcSimCall.lean` about `freshEnv` /
`rebind` are stated for those; they use the slot table and the parameters only) -/
def asS (d : ProcDecl Stmt) : ProcDecl SStmt := { d with body := SStmt.skip }

theorem slotsOk_asS {d : ProcDecl Stmt} (h : SlotsOkG d) : RbThm.ProcSim.SlotsOk (asS d) := h

/-- the activation environment of an ordinary procedure: the (converted, in-range) arguments, zero elsewhere -/
theorem goodEnv_fresh (d : ProcDecl Stmt) (vals : List Val) (hs : SlotsOkG d)
    (htags : vals.map Val.tag = d.params.map (·.2)) (hr : ∀ v ∈ vals, v.InRange) :
    GoodEnv d.slots (freshEnv d.slots vals) := by
  refine ⟨RbThm.ProcSim.typed_fresh (asS d) vals (slotsOk_asS hs) htags, ?_⟩
  intro v hv
  simp only [freshEnv, List.mem_append, List.mem_map] at hv
  rcases hv with hv | ⟨t, _, rfl⟩
  · exact hr v hv
  · exact zeroOf_inRange t

/-- the persistent environment of a STATIC procedure with the parameters rebound -/
theorem goodEnv_rebind (d : ProcDecl Stmt) (old vals : List Val) (hs : SlotsOkG d)
    (htags : vals.map Val.tag = d.params.map (·.2)) (hr : ∀ v ∈ vals, v.InRange) (hold : GoodEnv d.slots old) :
    GoodEnv d.slots (rebind old vals) := by
  refine ⟨RbThm.ProcSim.typed_rebind (asS d) old vals (slotsOk_asS hs) htags hold.1, ?_⟩
  intro v hv
  simp only [rebind, List.mem_append] at hv
  rcases hv with hv | hv
  · exact hr v hv
  · exact hold.2 v (List.mem_of_mem_drop hv)

theorem locals_none {s : St} (h : s.self = none) : s.locals = s.env := by
  simp only [St.locals, h]

theorem locals_some {s : St} {f : Nat} (h : s.self = some f) : s.locals = s.statics f := by
  simp only [St.locals, h]

/-- only the printer / the READ cursor changed -/
theorem Good.congr {P : Program} {sl : List Ty} {s s' : St} (h : Good P sl s) (he : s'.env = s.env)
    (hs : s'.self = s.self) (hg : s'.glob = s.glob) (hst : s'.statics = s.statics) (hd : s'.data = s.data) :
    Good P sl s' := by
  have hl : s'.locals = s.locals := by unfold St.locals; rw [hs, he, hst]
  exact ⟨h.scope, hl ▸ h.loc, hg ▸ h.glob, hst ▸ h.stat, hs ▸ h.selfOk, hd ▸ h.data⟩

/-- reading a variable -/
theorem Good.get {P : Program} {sl : List Ty} {s : St} (h : Good P sl s) {x : Var} {t : Ty}
    (hx : (tabs P sl).get? x = some t) : (s.get x t).tag = t ∧ (s.get x t).InRange := by
  unfold St.get
  unfold SlotTabs.get? at hx
  cases hsh : x.shared with
  | true => simp only [hsh, if_true, tabs] at hx ⊢; exact h.glob.getD hx _
  | false => simp only [hsh, Bool.false_eq_true, if_false, tabs] at hx ⊢; exact h.loc.getD hx _

/-- **a store keeps the invariant**: a value of the variable's declared type, in range, into a declared variable (own
scope — the activation environment or the STATIC procedure's persistent one — or DIM SHARED) -/
theorem Good.set {P : Program} {sl : List Ty} {s : St} (h : Good P sl s) {x : Var} {t : Ty} {v : Val}
    (hx : (tabs P sl).get? x = some t) (ht : v.tag = t) (hr : v.InRange) : Good P sl (s.set x v) := by
  unfold St.set
  unfold SlotTabs.get? at hx
  cases hsh : x.shared with
  | true =>
    simp only [hsh, if_true, tabs] at hx ⊢
    exact ⟨h.scope, h.loc, h.glob.set hx ht hr, h.stat, h.selfOk, h.data⟩
  | false =>
    simp only [hsh, Bool.false_eq_true, if_false, tabs] at hx ⊢
    obtain ⟨scope, loc, glob, stat, selfOk, data⟩ := h
    obtain ⟨env, self, gl, statics, out, dat, idx⟩ := s
    cases self with
    | none =>
      refine ⟨scope, ?_, glob, stat, ?_, data⟩
      · show GoodEnv sl (env.set x.slot v)
        exact GoodEnv.set loc hx ht hr
      · intro f hf; cases hf
    | some f =>
      obtain ⟨d, hd, hsl⟩ := selfOk f rfl
      have hl : GoodEnv sl ((statics f).set x.slot v) := GoodEnv.set loc hx ht hr
      refine ⟨scope, ?_, glob, ?_, selfOk, data⟩
      · show GoodEnv sl (if f = f then (statics f).set x.slot v else statics f)
        rw [if_pos rfl]; exact hl
      · intro g d' hd'
        show GoodEnv d'.slots (if g = f then (statics f).set x.slot v else statics g)
        by_cases hgf : g = f
        · subst hgf
          rw [if_pos rfl]
          have : d' = d := by
            have h1 : P.procs[g]? = some d := hd
            rw [h1] at hd'; injection hd' with hd'; exact hd'.symm
          subst this
          rw [← hsl]
          exact hl
        · rw [if_neg hgf]; exact stat g d' hd'

/-! ### entering and leaving a procedure -/

theorem postE_liftR {P : Program} {sl : List Ty} {Q : Val → Prop} {s : St} (hg : Good P sl s) (p : Pos) (r : Res Val)
    (hq : ∀ v, r = .ok v → Q v) : PostE P sl Q (liftR s p r) := by
  cases r with
  | ok v => exact ⟨hg, hq v rfl⟩
  | err e => exact ⟨hg.anyScope, rfl⟩
  | inexact => exact ⟨hg.anyScope, rfl⟩

/-- **binding the parameters keeps the invariant**: the callee's activation starts with every slot of its table typed and in
range — the parameters because the argument values are, the other slots because they are zero (ordinary procedure) or
as the previous activation left them (STATIC procedure; the result variable of a STATIC FUNCTION is reset to zero) -/
theorem good_enter {P : Program} {sg : Sigs} (hP : ProcsGood P sg) {sl : List Ty} {s1 : St} (hg : Good P sl s1)
    {f : Nat} {d : ProcDecl Stmt} (hd : P.procs[f]? = some d) (vals : List Val)
    (htags : vals.map Val.tag = d.params.map (·.2)) (hr : ∀ v ∈ vals, v.InRange) :
    Good P d.slots (enter d f vals s1) := by
  obtain ⟨hso, _, _⟩ := hP.procs f d hd
  have hcore : Good P d.slots (enterCore d f vals s1) := by
    unfold enterCore
    cases hst : d.static with
    | false =>
      simp only [Bool.false_eq_true, if_false]
      refine ⟨.inr ⟨f, d, hd, rfl⟩, ?_, hg.glob, hg.stat, ?_, hg.data⟩
      · show GoodEnv d.slots (freshEnv d.slots vals)
        exact goodEnv_fresh d vals hso htags hr
      · intro g hg'; cases hg'
    | true =>
      simp only [if_true]
      have hl : GoodEnv d.slots (rebind (s1.statics f) vals) :=
        goodEnv_rebind d _ vals hso htags hr (hg.stat f d hd)
      refine ⟨.inr ⟨f, d, hd, rfl⟩, ?_, hg.glob, ?_, ?_, hg.data⟩
      · show GoodEnv d.slots (if f = f then rebind (s1.statics f) vals else s1.statics f)
        rw [if_pos rfl]; exact hl
      · intro g d' hd'
        show GoodEnv d'.slots (if g = f then rebind (s1.statics f) vals else s1.statics g)
        by_cases hgf : g = f
        · subst hgf
          rw [if_pos rfl]
          have : d' = d := by rw [hd] at hd'; injection hd' with hd'; exact hd'.symm
          subst this
          exact hl
        · rw [if_neg hgf]; exact hg.stat g d' hd'
      · intro g hg'
        have : g = f := by injection hg' with hg'; exact hg'.symm
        subst this
        exact ⟨d, hd, rfl⟩
  unfold enter
  cases hst : d.static with
  | false => exact hcore
  | true =>
    cases hres : d.result with
    | none => exact hcore
    | some rt =>
      simp only
      refine hcore.set ?_ (zeroOf_tag rt) (zeroOf_inRange rt)
      simp only [SlotTabs.get?, tabs, Bool.false_eq_true, if_false, ProcDecl.resultSlot]
      exact hso.2 rt hres

/-- back in the caller's activation after a call that returned: the caller's own environment is as it was, the DIM SHARED
variables and the persistent environments are as the callee left them -/
theorem good_return {P : Program} {sl dsl : List Ty} {s1 s2 : St} (h1 : Good P sl s1) (h2 : Good P dsl s2) :
    Good P sl { s2 with env := s1.env, self := s1.self } := by
  refine ⟨h1.scope, ?_, h2.glob, h2.stat, h1.selfOk, h2.data⟩
  cases hself : s1.self with
  | none =>
    have hl := h1.loc
    rw [locals_none hself] at hl
    exact hl
  | some g =>
    obtain ⟨d, hd, hsl⟩ := h1.selfOk g hself
    rw [hsl]
    exact h2.stat g d hd

/-- **`byref_writeback_inrange`** — copy-out keeps the caller's variables typed and in range: every by-reference actual
(a plain variable of the parameter's type) receives the final value of its parameter, which is a value of the parameter's
type within its range because the callee's environment satisfies the invariant.  `i` = index of the first argument of
`args` in the whole list; `dsl` = the callee's slot table, `callee` = its variables when it returned. -/
theorem byref_writeback_inrange {P : Program} {sg : Sigs} {sl dsl : List Ty} {callee : List Val}
    (hc : GoodEnv dsl callee) : ∀ (args : Args) (i : Nat) (s : St), Good P sl s → AWf sg (tabs P sl) args →
    (∀ (j : Nat) (pn : String) (pt : Ty), args.params[j]? = some (pn, pt) → dsl[i + j]? = some pt) →
    Good P sl (writeBack args i callee s)
  | .nil, _, s, hg, _, _ => by simp only [writeBack]; exact hg
  | .cons e pn pt rest, i, s, hg, hw, hp => by
    simp only [AWf] at hw
    obtain ⟨hwe, href, hwr⟩ := hw
    have hp' : ∀ (j : Nat) (pn' : String) (pt' : Ty), rest.params[j]? = some (pn', pt') → dsl[i + 1 + j]? = some pt' := by
      intro j pn' pt' hj
      have := hp (j + 1) pn' pt' (by simpa only [Args.params, List.getElem?_cons_succ] using hj)
      rw [← this]; congr 1; omega
    cases e with
    | var x t p =>
      simp only [writeBack]
      simp only [EWf] at hwe
      have htp : t = pt := href rfl
      have h0 : dsl[i]? = some pt := by
        have := hp 0 pn pt (by simp only [Args.params, List.getElem?_cons_zero])
        simpa using this
      obtain ⟨ht, hr⟩ := hc.getD h0 (zeroOf t)
      exact byref_writeback_inrange hc rest (i + 1) _ (hg.set hwe (by rw [ht, htp]) hr) hwr hp'
    | lit v p => simp only [writeBack]; exact byref_writeback_inrange hc rest (i + 1) s hg hwr hp'
    | un op e p => simp only [writeBack]; exact byref_writeback_inrange hc rest (i + 1) s hg hwr hp'
    | bin op l r t p => simp only [writeBack]; exact byref_writeback_inrange hc rest (i + 1) s hg hwr hp'
    | paren e p => simp only [writeBack]; exact byref_writeback_inrange hc rest (i + 1) s hg hwr hp'
    | callFn f a t p => simp only [writeBack]; exact byref_writeback_inrange hc rest (i + 1) s hg hwr hp'

/-! ### the invariant along every run: one induction on fuel over the whole mutual block -/

theorem PostE.mono {α : Type} {P : Program} {sl : List Ty} {Q Q' : α → Prop} {r : St × Except Outcome α}
    (hq : ∀ v, Q v → Q' v) (h : PostE P sl Q r) : PostE P sl Q' r := by
  obtain ⟨s', r'⟩ := r
  cases r' with
  | ok v => exact ⟨h.1, hq v h.2⟩
  | error o => exact h

/-- preservation at a given amount of fuel, for the eleven mutually recursive functions, for every outcome -/
structure Pres (P : Program) (sg : Sigs) (n : Nat) : Prop where
  eval : ∀ (sl : List Ty) (e : Proc.Expr) (s : St), Good P sl s → EWf sg (tabs P sl) e → litsE e = true →
    PostE P sl (fun v => v.tag = e.ty ∧ v.InRange) (Proc.Ref.eval P n e s)
  evalTo : ∀ (sl : List Ty) (e : Proc.Expr) (t : Ty) (s : St), Good P sl s → EWf sg (tabs P sl) e → litsE e = true →
    PostE P sl (fun v => v.tag = t ∧ v.InRange) (evalTo P n e t s)
  evalArgs : ∀ (sl : List Ty) (a : Args) (s : St), Good P sl s → AWf sg (tabs P sl) a → litsA a = true →
    PostE P sl (fun vs => vs.map Val.tag = a.params.map (·.2) ∧ ∀ v ∈ vs, v.InRange) (evalArgs P n a s)
  call : ∀ (sl : List Ty) (f : Nat) (a : Args) (res : Option Ty) (s : St), Good P sl s →
    sg[f]? = some (res, a.params) → AWf sg (tabs P sl) a → litsA a = true →
    PostE P sl (fun v => ∀ t, res = some t → v.tag = t ∧ v.InRange) (call P n f a s)
  printItems : ∀ (sl : List Ty) (items : List PrintItem) (s : St), Good P sl s → ItemsWf sg (tabs P sl) items →
    items.all litsItem = true → PostO P sl (printItems P n items s)
  evalCond : ∀ (sl : List Ty) (c : Proc.Expr) (s : St), Good P sl s → EWf sg (tabs P sl) c → litsE c = true →
    PostE P sl (fun _ => True) (evalCond P n c s)
  caseMatches : ∀ (sl : List Ty) (p : Pos) (subj : Val) (c : CaseExpr) (s : St), Good P sl s →
    CaseWf sg (tabs P sl) c → litsCase c = true → PostE P sl (fun _ => True) (caseMatches P n p subj c s)
  anyMatches : ∀ (sl : List Ty) (p : Pos) (subj : Val) (cs : List CaseExpr) (s : St), Good P sl s →
    CondsWf sg (tabs P sl) cs → cs.all litsCase = true → PostE P sl (fun _ => True) (anyMatches P n p subj cs s)
  exec : ∀ (sl : List Ty) (st : Stmt) (s : St), Good P sl s → WfA sg (tabs P sl) st → rangeB st = true →
    PostO P sl (exec P n st s)
  execCases : ∀ (sl : List Ty) (p : Pos) (subj : Val) (cs : Cases) (s : St), Good P sl s →
    WfAC sg (tabs P sl) cs → rangeCB cs = true → PostO P sl (execCases P n p subj cs s)
  forIter : ∀ (sl : List Ty) (x : Var) (t : Ty) (hh sv : Val) (up : Bool) (body : Stmt) (p : Pos) (s : St),
    Good P sl s → (tabs P sl).get? x = some t → WfA sg (tabs P sl) body → rangeB body = true →
    PostO P sl (forIter P n x t hh sv up body p s)

theorem pres_zero (P : Program) (sg : Sigs) : Pres P sg 0 := by
  constructor
  · intro sl e s hg _ _; simp only [Proc.Ref.eval]; exact ⟨hg.anyScope, rfl⟩
  · intro sl e t s hg _ _; simp only [evalTo]; exact ⟨hg.anyScope, rfl⟩
  · intro sl a s hg _ _; simp only [evalArgs]; exact ⟨hg.anyScope, rfl⟩
  · intro sl f a res s hg _ _ _; simp only [call]; exact ⟨hg.anyScope, rfl⟩
  · intro sl items s hg _ _; simp only [printItems]; exact hg.anyScope
  · intro sl c s hg _ _; simp only [evalCond]; exact ⟨hg.anyScope, rfl⟩
  · intro sl p subj c s hg _ _; simp only [caseMatches]; exact ⟨hg.anyScope, rfl⟩
  · intro sl p subj cs s hg _ _; simp only [anyMatches]; exact ⟨hg.anyScope, rfl⟩
  · intro sl st s hg _ _; simp only [exec]; exact hg.anyScope
  · intro sl p subj cs s hg _ _; simp only [execCases]; exact hg.anyScope
  · intro sl x t hh sv up body p s hg _ _ _; simp only [forIter]; exact hg.anyScope

section step
variable {P : Program} {sg : Sigs} {n : Nat}

theorem step_eval (ih : Pres P sg n) : ∀ (sl : List Ty) (e : Proc.Expr) (s : St), Good P sl s →
    EWf sg (tabs P sl) e → litsE e = true →
    PostE P sl (fun v => v.tag = e.ty ∧ v.InRange) (Proc.Ref.eval P (n + 1) e s) := by
  intro sl e s hg hw hl
  cases e with
  | lit v p =>
    simp only [litsE, decide_eq_true_eq] at hl
    simp only [Proc.Ref.eval]
    exact ⟨hg, rfl, hl⟩
  | var x t p =>
    simp only [EWf] at hw
    simp only [Proc.Ref.eval]
    exact ⟨hg, hg.get hw⟩
  | un op e p =>
    simp only [EWf] at hw
    simp only [litsE] at hl
    have h1 := ih.eval sl e s hg hw hl
    simp only [Proc.Ref.eval]
    generalize Proc.Ref.eval P n e s = r at h1 ⊢
    obtain ⟨s1, r1⟩ := r
    cases r1 with
    | error o => exact h1
    | ok v =>
      obtain ⟨hg1, ht, hr⟩ := h1
      refine postE_liftR hg1 p _ ?_
      intro w hw'
      cases op with
      | neg => obtain ⟨a, b⟩ := negate_typed v w hr hw'; exact ⟨by rw [a]; exact ht, b⟩
      | not => obtain ⟨a, b⟩ := unaryNot_typed v w hr hw'; exact ⟨by rw [a]; exact ht, b⟩
  | bin op l r t p =>
    simp only [EWf] at hw
    simp only [litsE, Bool.and_eq_true] at hl
    obtain ⟨hwl, hwr, hop⟩ := hw
    have h1 := ih.eval sl l s hg hwl hl.1
    simp only [Proc.Ref.eval]
    generalize Proc.Ref.eval P n l s = r1 at h1 ⊢
    obtain ⟨s1, r1⟩ := r1
    cases r1 with
    | error o => exact h1
    | ok a =>
      obtain ⟨hg1, hta, hra⟩ := h1
      have h2 := ih.eval sl r s1 hg1 hwr hl.2
      simp only
      generalize Proc.Ref.eval P n r s1 = r2 at h2 ⊢
      obtain ⟨s2, r2⟩ := r2
      cases r2 with
      | error o => exact h2
      | ok b =>
        obtain ⟨hg2, htb, hrb⟩ := h2
        refine postE_liftR hg2 p _ ?_
        intro w hw'
        exact ⟨RbThm.ProcSim.binStep_tag op l r t a b w hta htb hop hw',
          RbThm.C06Core.binStep_inRange op t a b w hra hrb hw'⟩
  | paren e p =>
    simp only [EWf] at hw
    simp only [litsE] at hl
    simp only [Proc.Ref.eval]
    exact ih.eval sl e s hg hw hl
  | callFn f args t p =>
    simp only [EWf] at hw
    simp only [litsE] at hl
    simp only [Proc.Ref.eval]
    exact (ih.call sl f args (some t) s hg hw.1 hw.2 hl).mono (fun v hv => hv t rfl)

theorem step_evalTo (ih : Pres P sg n) : ∀ (sl : List Ty) (e : Proc.Expr) (t : Ty) (s : St), Good P sl s →
    EWf sg (tabs P sl) e → litsE e = true →
    PostE P sl (fun v => v.tag = t ∧ v.InRange) (evalTo P (n + 1) e t s) := by
  intro sl e t s hg hw hl
  have h1 := ih.eval sl e s hg hw hl
  simp only [evalTo]
  generalize Proc.Ref.eval P n e s = r at h1 ⊢
  obtain ⟨s1, r1⟩ := r
  cases r1 with
  | error o => exact h1
  | ok v =>
    obtain ⟨hg1, ht, hr⟩ := h1
    exact postE_liftR hg1 e.pos _ (fun w hw' => storeCast_typed e.ty t v w ht hr hw')

theorem step_evalArgs (ih : Pres P sg n) : ∀ (sl : List Ty) (a : Args) (s : St), Good P sl s →
    AWf sg (tabs P sl) a → litsA a = true →
    PostE P sl (fun vs => vs.map Val.tag = a.params.map (·.2) ∧ ∀ v ∈ vs, v.InRange) (evalArgs P (n + 1) a s) := by
  intro sl a s hg hw hl
  cases a with
  | nil => simp only [evalArgs]; exact ⟨hg, rfl, fun v hv => by cases hv⟩
  | cons e pn pt rest =>
    simp only [AWf] at hw
    simp only [litsA, Bool.and_eq_true] at hl
    have h1 := ih.evalTo sl e pt s hg hw.1 hl.1
    simp only [evalArgs]
    generalize evalTo P n e pt s = r at h1 ⊢
    obtain ⟨s1, r1⟩ := r
    cases r1 with
    | error o => exact h1
    | ok v =>
      obtain ⟨hg1, ht, hr⟩ := h1
      have h2 := ih.evalArgs sl rest s1 hg1 hw.2.2 hl.2
      simp only
      generalize evalArgs P n rest s1 = r2 at h2 ⊢
      obtain ⟨s2, r2⟩ := r2
      cases r2 with
      | error o => exact h2
      | ok vs =>
        obtain ⟨hg2, hts, hrs⟩ := h2
        refine ⟨hg2, ?_, ?_⟩
        · simp only [List.map_cons, Args.params, ht, hts]
        · intro w hw'
          rcases List.mem_cons.mp hw' with rfl | hw'
          · exact hr
          · exact hrs w hw'

theorem sig_of_proc {P : Program} {sg : Sigs} (hP : ProcsGood P sg) {f : Nat} {d : ProcDecl Stmt}
    (hd : P.procs[f]? = some d) {res : Option Ty} {ps : List (String × Ty)} (h : sg[f]? = some (res, ps)) :
    res = d.result ∧ ps = d.params := by
  rw [hP.sgEq] at h
  simp only [sigsOf, List.getElem?_map, hd, Option.map_some, Option.some.injEq, Prod.mk.injEq] at h
  exact ⟨h.1.symm, h.2.symm⟩

theorem step_call (hP : ProcsGood P sg) (ih : Pres P sg n) : ∀ (sl : List Ty) (f : Nat) (a : Args) (res : Option Ty)
    (s : St), Good P sl s → sg[f]? = some (res, a.params) → AWf sg (tabs P sl) a → litsA a = true →
    PostE P sl (fun v => ∀ t, res = some t → v.tag = t ∧ v.InRange) (call P (n + 1) f a s) := by
  intro sl f a res s hg hsg haw hl
  simp only [call]
  cases hd : P.procs[f]? with
  | none => exact ⟨hg.anyScope, rfl⟩
  | some d =>
    obtain ⟨hso, hwb, hrb⟩ := hP.procs f d hd
    obtain ⟨hres, hps⟩ := sig_of_proc hP hd hsg
    have h1 := ih.evalArgs sl a s hg haw hl
    simp only
    generalize evalArgs P n a s = r at h1 ⊢
    obtain ⟨s1, r1⟩ := r
    cases r1 with
    | error o => exact h1
    | ok vals =>
      obtain ⟨hg1, htags, hrs⟩ := h1
      have hgE := good_enter hP hg1 hd vals (by rw [htags, hps]) hrs
      have h2 := ih.exec d.slots d.body _ hgE hwb hrb
      simp only
      generalize exec P n d.body (enter d f vals s1) = r2 at h2 ⊢
      obtain ⟨s2, o⟩ := r2
      simp only
      by_cases hret : returns o = true
      · rw [if_pos hret]
        have hg2 : Good P d.slots s2 := by
          cases o <;> first | exact h2 | (simp [returns] at hret)
        have hg3 := good_return hg1 hg2
        refine ⟨byref_writeback_inrange (sg := sg) hg2.loc a 0 _ hg3 haw ?_, ?_⟩
        · intro j pn pt hj
          rw [hps] at hj
          simpa using hso.1 j pn pt hj
        · intro t ht
          rw [hres] at ht
          simp only [ht]
          exact hg2.loc.getD (hso.2 t ht) _
      · rw [if_neg hret]
        exact ⟨h2.any, by simpa using hret⟩

theorem step_printItems (ih : Pres P sg n) : ∀ (sl : List Ty) (items : List PrintItem) (s : St), Good P sl s →
    ItemsWf sg (tabs P sl) items → items.all litsItem = true → PostO P sl (printItems P (n + 1) items s) := by
  intro sl items s hg hw hl
  match items with
  | [] => simp only [printItems]; exact hg
  | .comma :: rest =>
    simp only [ItemsWf] at hw
    simp only [List.all_cons, Bool.and_eq_true] at hl
    simp only [printItems]
    exact ih.printItems sl rest _ (hg.congr rfl rfl rfl rfl rfl) hw hl.2
  | .semicolon :: rest =>
    simp only [ItemsWf] at hw
    simp only [List.all_cons, Bool.and_eq_true] at hl
    simp only [printItems]
    exact ih.printItems sl rest s hg hw hl.2
  | .expr e :: rest =>
    simp only [ItemsWf] at hw
    simp only [List.all_cons, Bool.and_eq_true, litsItem] at hl
    have h1 := ih.eval sl e s hg hw.1 hl.1
    simp only [printItems]
    generalize Proc.Ref.eval P n e s = r at h1 ⊢
    obtain ⟨s1, r1⟩ := r
    cases r1 with
    | error o => exact PostO.of_some h1.1 h1.2
    | ok v =>
      obtain ⟨hg1, _, _⟩ := h1
      simp only
      cases hpv : printValue v with
      | none => exact hg1.anyScope
      | some pv => exact ih.printItems sl rest _ (hg1.congr rfl rfl rfl rfl rfl) hw.2 hl.2

theorem step_evalCond (ih : Pres P sg n) : ∀ (sl : List Ty) (c : Proc.Expr) (s : St), Good P sl s →
    EWf sg (tabs P sl) c → litsE c = true → PostE P sl (fun _ => True) (evalCond P (n + 1) c s) := by
  intro sl c s hg hw hl
  have h1 := ih.eval sl c s hg hw hl
  simp only [evalCond]
  generalize Proc.Ref.eval P n c s = r at h1 ⊢
  obtain ⟨s1, r1⟩ := r
  cases r1 with
  | error o => exact h1
  | ok v =>
    obtain ⟨hg1, _, _⟩ := h1
    simp only
    cases truthy v with
    | none => exact ⟨hg1.anyScope, rfl⟩
    | some b => exact ⟨hg1, trivial⟩

theorem postE_relTest {P : Program} {sl : List Ty} {s : St} (hg : Good P sl s) (p : Pos) (op : Op) (a b : Val) :
    PostE P sl (fun _ => True) (s, relTest p op a b) := by
  cases h : relTest p op a b with
  | ok v => exact ⟨hg, trivial⟩
  | error o => exact ⟨hg.anyScope, RbThm.ProcProps.relTest_err h⟩

theorem step_caseMatches (ih : Pres P sg n) : ∀ (sl : List Ty) (p : Pos) (subj : Val) (c : CaseExpr) (s : St),
    Good P sl s → CaseWf sg (tabs P sl) c → litsCase c = true →
    PostE P sl (fun _ => True) (caseMatches P (n + 1) p subj c s) := by
  intro sl p subj c s hg hw hl
  cases c with
  | simple e =>
    simp only [CaseWf] at hw
    simp only [litsCase] at hl
    have h1 := ih.eval sl e s hg hw hl
    simp only [caseMatches]
    generalize Proc.Ref.eval P n e s = r at h1 ⊢
    obtain ⟨s1, r1⟩ := r
    cases r1 with
    | error o => exact h1
    | ok v => exact postE_relTest h1.1 _ _ _ _
  | is op e =>
    simp only [CaseWf] at hw
    simp only [litsCase] at hl
    have h1 := ih.eval sl e s hg hw.2 hl
    simp only [caseMatches]
    generalize Proc.Ref.eval P n e s = r at h1 ⊢
    obtain ⟨s1, r1⟩ := r
    cases r1 with
    | error o => exact h1
    | ok v => exact postE_relTest h1.1 _ _ _ _
  | range lo hi =>
    simp only [CaseWf] at hw
    simp only [litsCase, Bool.and_eq_true] at hl
    have h1 := ih.eval sl lo s hg hw.1 hl.1
    simp only [caseMatches]
    generalize Proc.Ref.eval P n lo s = r at h1 ⊢
    obtain ⟨s1, r1⟩ := r
    cases r1 with
    | error o => exact h1
    | ok l =>
      obtain ⟨hg1, _, _⟩ := h1
      simp only
      cases hrt : relTest p .greaterOrEqual subj l with
      | error o => exact ⟨hg1.anyScope, RbThm.ProcProps.relTest_err hrt⟩
      | ok b =>
        cases b with
        | false => exact ⟨hg1, trivial⟩
        | true =>
          have h2 := ih.eval sl hi s1 hg1 hw.2 hl.2
          simp only
          generalize Proc.Ref.eval P n hi s1 = r2 at h2 ⊢
          obtain ⟨s2, r2⟩ := r2
          cases r2 with
          | error o => exact h2
          | ok h => exact postE_relTest h2.1 _ _ _ _

theorem step_anyMatches (ih : Pres P sg n) : ∀ (sl : List Ty) (p : Pos) (subj : Val) (cs : List CaseExpr) (s : St),
    Good P sl s → CondsWf sg (tabs P sl) cs → cs.all litsCase = true →
    PostE P sl (fun _ => True) (anyMatches P (n + 1) p subj cs s) := by
  intro sl p subj cs s hg hw hl
  cases cs with
  | nil => simp only [anyMatches]; exact ⟨hg, trivial⟩
  | cons c rest =>
    simp only [CondsWf] at hw
    simp only [List.all_cons, Bool.and_eq_true] at hl
    have h1 := ih.caseMatches sl p subj c s hg hw.1 hl.1
    simp only [anyMatches]
    generalize caseMatches P n p subj c s = r at h1 ⊢
    obtain ⟨s1, r1⟩ := r
    cases r1 with
    | error o => exact h1
    | ok b =>
      cases b with
      | true => exact ⟨h1.1, trivial⟩
      | false => exact ih.anyMatches sl p subj rest s1 h1.1 hw.2 hl.2

/-- what an evaluation that does not yield a value answers is never `normal` / `exited` -/
theorem PostO.of_evalErr {sl : List Ty} {s' : St} {o : Outcome} (h : GoodSome P s') (ho : returns o = false) :
    PostO P sl (s', o) := PostO.of_some h ho

theorem step_exec (ih : Pres P sg n) : ∀ (sl : List Ty) (st : Stmt) (s : St), Good P sl s →
    WfA sg (tabs P sl) st → rangeB st = true → PostO P sl (exec P (n + 1) st s) := by
  intro sl st s hg hw hr
  cases st with
  | skip => simp only [exec]; exact hg
  | seq a b =>
    simp only [WfA] at hw
    simp only [rangeB, Bool.and_eq_true] at hr
    have h1 := ih.exec sl a s hg hw.1 hr.1
    simp only [exec]
    generalize exec P n a s = r at h1 ⊢
    obtain ⟨s1, o1⟩ := r
    cases o1 with
    | normal => exact ih.exec sl b s1 h1 hw.2 hr.2
    | exited => exact h1
    | halted => exact h1
    | error c q => exact h1
    | inexact => exact h1
    | outOfFuel => exact h1
    | illFormed => exact h1
  | assign x t e p =>
    simp only [WfA] at hw
    simp only [rangeB] at hr
    have h1 := ih.evalTo sl e t s hg hw.2 hr
    simp only [exec]
    generalize evalTo P n e t s = r at h1 ⊢
    obtain ⟨s1, r1⟩ := r
    cases r1 with
    | error o => exact PostO.of_some h1.1 h1.2
    | ok v => exact h1.1.set hw.1 h1.2.1 h1.2.2
  | print items p =>
    simp only [WfA] at hw
    simp only [rangeB] at hr
    have h1 := ih.printItems sl items s hg hw hr
    simp only [exec]
    generalize printItems P n items s = r at h1 ⊢
    obtain ⟨s1, o1⟩ := r
    cases o1 with
    | normal =>
      simp only
      split
      · exact h1
      · exact Good.congr h1 rfl rfl rfl rfl rfl
    | exited => exact h1
    | halted => exact h1
    | error c q => exact h1
    | inexact => exact h1
    | outOfFuel => exact h1
    | illFormed => exact h1
  | read x t p =>
    simp only [WfA] at hw
    simp only [exec]
    cases hd : s.data[s.dataIdx]? with
    | none => exact hg.anyScope
    | some v =>
      have hv : v.InRange := hg.data v (List.mem_of_getElem? hd)
      simp only
      cases hc : Num.cast v t with
      | err e => exact hg.anyScope
      | inexact => exact hg.anyScope
      | ok w =>
        obtain ⟨h1, h2⟩ := cast_sound v t w hv hc
        exact Good.congr (hg.set hw h1 h2) rfl rfl rfl rfl rfl
  | ifs c thn els p =>
    simp only [WfA] at hw
    simp only [rangeB, Bool.and_eq_true] at hr
    have h1 := ih.evalCond sl c s hg hw.1 hr.1.1
    simp only [exec]
    generalize evalCond P n c s = r at h1 ⊢
    obtain ⟨s1, r1⟩ := r
    cases r1 with
    | error o => exact PostO.of_some h1.1 h1.2
    | ok b =>
      cases b with
      | true => exact ih.exec sl thn s1 h1.1 hw.2.1 hr.1.2
      | false => exact ih.exec sl els s1 h1.1 hw.2.2 hr.2
  | select e cases p =>
    simp only [WfA] at hw
    simp only [rangeB, Bool.and_eq_true] at hr
    have h1 := ih.eval sl e s hg hw.1 hr.1
    simp only [exec]
    generalize Proc.Ref.eval P n e s = r at h1 ⊢
    obtain ⟨s1, r1⟩ := r
    cases r1 with
    | error o => exact PostO.of_some h1.1 h1.2
    | ok subj => exact ih.execCases sl p subj cases s1 h1.1 hw.2 hr.2
  | forLoop x t lo hi step body p =>
    simp only [WfA] at hw
    simp only [rangeB, Bool.and_eq_true] at hr
    obtain ⟨hx, hwlo, hwhi, hwst, hwb⟩ := hw
    obtain ⟨⟨⟨hrlo, hrhi⟩, hrst⟩, hrb⟩ := hr
    have h1 := ih.evalTo sl lo t s hg hwlo hrlo
    simp only [exec]
    generalize evalTo P n lo t s = r at h1 ⊢
    obtain ⟨s1, r1⟩ := r
    cases r1 with
    | error o => exact PostO.of_some h1.1 h1.2
    | ok l =>
      have hg1 : Good P sl (s1.set x l) := h1.1.set hx h1.2.1 h1.2.2
      have h2 := ih.evalTo sl hi t _ hg1 hwhi hrhi
      simp only
      generalize evalTo P n hi t (s1.set x l) = r2 at h2 ⊢
      obtain ⟨s2, r2⟩ := r2
      cases r2 with
      | error o => exact PostO.of_some h2.1 h2.2
      | ok hv =>
        cases step with
        | none => exact ih.forIter sl x t hv (.int 1) true body p s2 h2.1 hx hwb hrb
        | some se =>
          have h3 := ih.eval sl se s2 h2.1 (hwst se rfl) hrst
          simp only
          generalize Proc.Ref.eval P n se s2 = r3 at h3 ⊢
          obtain ⟨s3, r3⟩ := r3
          cases r3 with
          | error o => exact PostO.of_some h3.1 h3.2
          | ok sv =>
            simp only
            cases hsg : stepSign p sv with
            | error o => exact PostO.of_some h3.1.anyScope (RbThm.ProcProps.stepSign_err hsg)
            | ok sgn =>
              cases sgn with
              | neg => exact ih.forIter sl x t hv sv false body p s3 h3.1 hx hwb hrb
              | pos => exact ih.forIter sl x t hv sv true body p s3 h3.1 hx hwb hrb
              | zero => exact h3.1.anyScope
  | «while» c body p =>
    have hw0 := hw
    have hr0 := hr
    simp only [WfA] at hw
    simp only [rangeB, Bool.and_eq_true] at hr
    have h1 := ih.evalCond sl c s hg hw.1 hr.1
    simp only [exec]
    generalize evalCond P n c s = r at h1 ⊢
    obtain ⟨s1, r1⟩ := r
    cases r1 with
    | error o => exact PostO.of_some h1.1 h1.2
    | ok b =>
      cases b with
      | false => exact h1.1
      | true =>
        have h2 := ih.exec sl body s1 h1.1 hw.2 hr.2
        simp only
        generalize exec P n body s1 = r2 at h2 ⊢
        obtain ⟨s2, o2⟩ := r2
        cases o2 with
        | normal => exact ih.exec sl _ s2 h2 hw0 hr0
        | exited => exact h2
        | halted => exact h2
        | error c q => exact h2
        | inexact => exact h2
        | outOfFuel => exact h2
        | illFormed => exact h2
  | doLoop c top until_ body p =>
    have hw0 := hw
    have hr0 := hr
    simp only [WfA] at hw
    simp only [rangeB, Bool.and_eq_true] at hr
    simp only [exec]
    cases top with
    | true =>
      simp only [if_true]
      have h1 := ih.evalCond sl c s hg hw.1 hr.1
      generalize evalCond P n c s = r at h1 ⊢
      obtain ⟨s1, r1⟩ := r
      cases r1 with
      | error o => exact PostO.of_some h1.1 h1.2
      | ok b =>
        simp only
        split
        · have h2 := ih.exec sl body s1 h1.1 hw.2 hr.2
          generalize exec P n body s1 = r2 at h2 ⊢
          obtain ⟨s2, o2⟩ := r2
          cases o2 with
          | normal => exact ih.exec sl _ s2 h2 hw0 hr0
          | exited => exact h2
          | halted => exact h2
          | error c q => exact h2
          | inexact => exact h2
          | outOfFuel => exact h2
          | illFormed => exact h2
        · exact h1.1
    | false =>
      simp only [Bool.false_eq_true, if_false]
      have h2 := ih.exec sl body s hg hw.2 hr.2
      generalize exec P n body s = r2 at h2 ⊢
      obtain ⟨s2, o2⟩ := r2
      cases o2 with
      | normal =>
        have h1 := ih.evalCond sl c s2 h2 hw.1 hr.1
        simp only
        generalize evalCond P n c s2 = r at h1 ⊢
        obtain ⟨s1, r1⟩ := r
        cases r1 with
        | error o => exact PostO.of_some h1.1 h1.2
        | ok b =>
          simp only
          split
          · exact ih.exec sl _ s1 h1.1 hw0 hr0
          · exact h1.1
      | exited => exact h2
      | halted => exact h2
      | error c q => exact h2
      | inexact => exact h2
      | outOfFuel => exact h2
      | illFormed => exact h2
  | end_ p => simp only [exec]; exact hg.anyScope
  | callSub f args p =>
    simp only [WfA] at hw
    simp only [rangeB] at hr
    have h1 := ih.call sl f args none s hg hw.1 hw.2 hr
    simp only [exec]
    generalize call P n f args s = r at h1 ⊢
    obtain ⟨s1, r1⟩ := r
    cases r1 with
    | error o => exact PostO.of_some h1.1 h1.2
    | ok v => exact h1.1
  | exitProc p => simp only [exec]; exact hg

theorem step_execCases (ih : Pres P sg n) : ∀ (sl : List Ty) (p : Pos) (subj : Val) (cs : Cases) (s : St),
    Good P sl s → WfAC sg (tabs P sl) cs → rangeCB cs = true → PostO P sl (execCases P (n + 1) p subj cs s) := by
  intro sl p subj cs s hg hw hr
  cases cs with
  | nil => simp only [execCases]; exact hg
  | else_ body =>
    simp only [WfAC] at hw
    simp only [rangeCB] at hr
    simp only [execCases]
    exact ih.exec sl body s hg hw hr
  | case conds body rest =>
    simp only [WfAC] at hw
    simp only [rangeCB, Bool.and_eq_true] at hr
    have h1 := ih.anyMatches sl p subj conds s hg hw.1 hr.1.1
    simp only [execCases]
    generalize anyMatches P n p subj conds s = r at h1 ⊢
    obtain ⟨s1, r1⟩ := r
    cases r1 with
    | error o => exact PostO.of_some h1.1 h1.2
    | ok b =>
      cases b with
      | true => exact ih.exec sl body s1 h1.1 hw.2.1 hr.1.2
      | false => exact ih.execCases sl p subj rest s1 h1.1 hw.2.2 hr.2

theorem step_forIter (ih : Pres P sg n) : ∀ (sl : List Ty) (x : Var) (t : Ty) (hh sv : Val) (up : Bool) (body : Stmt)
    (p : Pos) (s : St), Good P sl s → (tabs P sl).get? x = some t → WfA sg (tabs P sl) body → rangeB body = true →
    PostO P sl (forIter P (n + 1) x t hh sv up body p s) := by
  intro sl x t hh sv up body p s hg hx hwb hrb
  simp only [forIter]
  cases hrt : relTest p (if up = true then Op.lessOrEqual else Op.greaterOrEqual) (s.get x t) hh with
  | error o => exact PostO.of_some hg.anyScope (RbThm.ProcProps.relTest_err hrt)
  | ok b =>
    cases b with
    | false => exact hg
    | true =>
      have h1 := ih.exec sl body s hg hwb hrb
      simp only
      generalize exec P n body s = r at h1 ⊢
      obtain ⟨s1, o1⟩ := r
      cases o1 with
      | normal =>
        simp only
        cases hp : (plus (s1.get x t) sv).bind (fun v => Num.cast v t) with
        | ok v =>
          obtain ⟨a, b⟩ := RbThm.C06Core.increment_good _ sv v t hp
          exact ih.forIter sl x t hh sv up body p _ (Good.set h1 hx a b) hx hwb hrb
        | err e => exact Good.anyScope h1
        | inexact => exact Good.anyScope h1
      | exited => exact h1
      | halted => exact h1
      | error c q => exact h1
      | inexact => exact h1
      | outOfFuel => exact h1
      | illFormed => exact h1

end step

theorem pres_all {P : Program} {sg : Sigs} (hP : ProcsGood P sg) : ∀ n, Pres P sg n
  | 0 => pres_zero P sg
  | n + 1 =>
    have ih := pres_all hP n
    ⟨step_eval ih, step_evalTo ih, step_evalArgs ih, step_call hP ih, step_printItems ih, step_evalCond ih,
      step_caseMatches ih, step_anyMatches ih, step_exec ih, step_execCases ih, step_forIter ih⟩

/-! ### from the layer's premise `ProgWf` (faithful syntax) to the reference syntax -/

open RbThm.ProcSim (Wf WfElifs WfCases WfTop ProgWf Scope procScope mainScope SlotsOk)

theorem wfA_readSeq (sg : Sigs) (tb : SlotTabs) (p : Pos) : ∀ (vars : List (Var × Ty × Pos)),
    (∀ v ∈ vars, tb.get? v.1 = some v.2.1) → WfA sg tb (readSeq p vars)
  | [], _ => by simp only [readSeq, WfA]
  | (x, t, q) :: rest, h => by
    simp only [readSeq, WfA]
    exact ⟨h (x, t, q) (List.mem_cons_self ..), wfA_readSeq sg tb p rest (fun v hv => h v (List.mem_cons_of_mem _ hv))⟩

mutual
theorem wfA_desugar (sg : Sigs) (sc : Scope) : ∀ (s : SStmt), Wf sg sc s → WfA sg sc.slots (desugar s)
  | .skip, _ => by simp only [desugar, WfA]
  | .comment, _ => by simp only [desugar, WfA]
  | .seq a b, h => by
    simp only [Wf] at h
    simp only [desugar, WfA]
    exact ⟨wfA_desugar sg sc a h.1, wfA_desugar sg sc b h.2⟩
  | .dim x t p, h => by
    simp only [Wf] at h
    simp only [desugar, WfA, EWf]
    exact ⟨h.1, trivial⟩
  | .sdim x t p, _ => by simp only [desugar, WfA]
  | .assign x t e p, h => by
    simp only [Wf] at h
    simp only [desugar, WfA]
    exact h
  | .print items p, h => by
    simp only [Wf] at h
    simp only [desugar, WfA]
    exact h
  | .data items p, h => by simp only [Wf] at h
  | .read vars p, h => by
    simp only [Wf] at h
    simp only [desugar]
    exact wfA_readSeq sg sc.slots p vars h
  | .ifBlock c thn elifs hasElse els p, h => by
    simp only [Wf] at h
    simp only [desugar, WfA]
    exact ⟨h.1, wfA_desugar sg sc thn h.2.2.1, wfA_elifs sg sc elifs _ p h.2.2.2.1 (wfA_desugar sg sc els h.2.2.2.2.1)⟩
  | .select e cases hasElse els p, h => by
    simp only [Wf] at h
    simp only [desugar, WfA]
    refine ⟨h.1, wfA_cases sg sc cases _ h.2.1 ?_⟩
    cases hasElse
    · simp only [Bool.false_eq_true, if_false, WfAC]
    · simp only [if_true, WfAC]; exact wfA_desugar sg sc els h.2.2.1
  | .forLoop x t lo hi step body p, h => by
    simp only [Wf] at h
    simp only [desugar, WfA]
    exact ⟨h.1, h.2.1, h.2.2.1, h.2.2.2.1, wfA_desugar sg sc body h.2.2.2.2⟩
  | .while c body p, h => by
    simp only [Wf] at h
    simp only [desugar, WfA]
    exact ⟨h.1, wfA_desugar sg sc body h.2.2⟩
  | .doLoop c top u body p, h => by
    simp only [Wf] at h
    simp only [desugar, WfA]
    exact ⟨h.1, wfA_desugar sg sc body h.2.2⟩
  | .end_ p, _ => by simp only [desugar, WfA]
  | .callSub f args p, h => by
    simp only [Wf] at h
    simp only [desugar, WfA]
    exact h
  | .exitProc p, _ => by simp only [desugar, WfA]
theorem wfA_elifs (sg : Sigs) (sc : Scope) : ∀ (e : ElseIfs) (els : Stmt) (p : Pos),
    WfElifs sg sc e → WfA sg sc.slots els → WfA sg sc.slots (desugarElifs e els p)
  | .nil, els, p, _, h => by simp only [desugarElifs]; exact h
  | .cons c body rest, els, p, hw, h => by
    simp only [WfElifs] at hw
    simp only [desugarElifs, WfA]
    exact ⟨hw.1, wfA_desugar sg sc body hw.2.2.1, wfA_elifs sg sc rest els p hw.2.2.2 h⟩
theorem wfA_cases (sg : Sigs) (sc : Scope) : ∀ (cs : SCases) (tail : Cases),
    WfCases sg sc cs → WfAC sg sc.slots tail → WfAC sg sc.slots (desugarCases cs tail)
  | .nil, tail, _, h => by simp only [desugarCases]; exact h
  | .cons conds body rest, tail, hw, h => by
    simp only [WfCases] at hw
    simp only [desugarCases, WfAC]
    exact ⟨hw.2.1, wfA_desugar sg sc body hw.2.2.1, wfA_cases sg sc rest tail hw.2.2.2 h⟩
end

theorem wfA_top (sg : Sigs) (sc : Scope) : ∀ body : SStmt, WfTop sg sc body → WfA sg sc.slots (desugar body)
  | .seq a b, h => by
    simp only [WfTop] at h
    simp only [desugar, WfA]
    exact ⟨wfA_top sg sc a h.1, wfA_top sg sc b h.2⟩
  | .data _ _, _ => by simp only [desugar, WfA]
  | .skip, h => wfA_desugar sg sc _ h
  | .comment, h => wfA_desugar sg sc _ h
  | .dim _ _ _, h => wfA_desugar sg sc _ h
  | .sdim _ _ _, h => wfA_desugar sg sc _ h
  | .assign _ _ _ _, h => wfA_desugar sg sc _ h
  | .print _ _, h => wfA_desugar sg sc _ h
  | .read _ _, h => wfA_desugar sg sc _ h
  | .ifBlock _ _ _ _ _ _, h => wfA_desugar sg sc _ h
  | .select _ _ _ _ _, h => wfA_desugar sg sc _ h
  | .forLoop _ _ _ _ _ _ _, h => wfA_desugar sg sc _ h
  | .while _ _ _, h => wfA_desugar sg sc _ h
  | .doLoop _ _ _ _ _, h => wfA_desugar sg sc _ h
  | .end_ _, h => wfA_desugar sg sc _ h
  | .callSub _ _ _, h => wfA_desugar sg sc _ h
  | .exitProc _, h => wfA_desugar sg sc _ h

theorem toAst_proc (prog : SProgram) {f : Nat} {d' : ProcDecl Stmt} (h : prog.toAst.procs[f]? = some d') :
    ∃ d, prog.procs[f]? = some d ∧ d' = { d with body := desugar d.body } := by
  simp only [SProgram.toAst, List.getElem?_map] at h
  cases hd : prog.procs[f]? with
  | none => rw [hd] at h; cases h
  | some d => rw [hd] at h; simp only [Option.map_some, Option.some.injEq] at h; exact ⟨d, rfl, h.symm⟩

/-- the premises of the layer's simulation theorem (`ProgWf`, decidable as `progWfB`) and the range premise give what the
induction needs of the procedures -/
theorem procsGood_of (prog : SProgram) (hw : ProgWf prog) (hr : progRangeB prog.toAst = true) :
    ProcsGood prog.toAst (sigsOf prog.procs) := by
  refine ⟨?_, ?_⟩
  · simp only [sigsOf, SProgram.toAst, List.map_map]
    rfl
  · intro f d' hd'
    obtain ⟨d, hd, rfl⟩ := toAst_proc prog hd'
    obtain ⟨hso, hwf⟩ := hw.procs f d hd
    refine ⟨hso, wfA_desugar _ (procScope prog.gslots f d) d.body hwf, ?_⟩
    simp only [progRangeB, Bool.and_eq_true, List.all_eq_true] at hr
    exact hr.1.2 _ (List.mem_of_getElem? hd')

/-! ### the property-level theorems -/

/-- what `Good` says about a single variable of the current scope (own or DIM SHARED) -/
theorem Good.var {P : Program} {sl : List Ty} {s : St} (h : Good P sl s) {x : Var} {t : Ty}
    (hx : (tabs P sl).get? x = some t) : (s.get x t).tag = t ∧ (s.get x t).InRange := h.get hx

/-- `GoodEnv` spelled out: the environment has one value per slot, of the slot's type, in range -/
theorem GoodEnv.slot {sl : List Ty} {env : List Val} (h : GoodEnv sl env) {x : Nat} {t : Ty} (hx : sl[x]? = some t) :
    ∃ v, env[x]? = some v ∧ v.tag = t ∧ v.InRange := by
  obtain ⟨v, hv, ht⟩ := h.1.2 x t hx
  exact ⟨v, hv, ht, h.2 v (List.mem_of_getElem? hv)⟩

/-- **`exec_inrange`** — every statement of the procedures layer (the core language of `C06Core.exec_inrange` plus SUB
calls, function calls in any expression, EXIT SUB / FUNCTION, DIM and DIM SHARED, the guarded DIM of STATIC procedures),
any amount of fuel, **any outcome**.  If before the statement every slot of every store — the activation environment, the
DIM SHARED table, the persistent environment of every procedure — holds a value of its declared type within that type's
range (`Good`), then afterwards: when the statement ends normally or with EXIT SUB / FUNCTION the same holds, for the same
activation; when it ends the run (END, a BASIC error, out of the exact float domain, out of fuel — possibly many calls
deep) it holds with the scope of the activation the run ended in (`PostO`).
Hypotheses: `ProgWf` (the layer's decidable premise `progWfB`), `progRangeB` (literals and DATA items in range), the
statement is well formed in its scope and its literals are in range. -/
theorem exec_inrange (prog : SProgram) (hw : ProgWf prog) (hr : progRangeB prog.toAst = true)
    (sc : Scope) (hgl : sc.slots.glob = prog.gslots) (stmt : SStmt) (hws : Wf (sigsOf prog.procs) sc stmt)
    (hrs : rangeB (desugar stmt) = true) (fuel : Nat) (s : St) (hg : Good prog.toAst sc.slots.loc s) :
    PostO prog.toAst sc.slots.loc (exec prog.toAst fuel (desugar stmt) s) := by
  have hwa := wfA_desugar _ sc stmt hws
  have htb : sc.slots = tabs prog.toAst sc.slots.loc := by
    obtain ⟨⟨l, g⟩, _, _, _⟩ := sc
    simp only [tabs, SProgram.toAst] at hgl ⊢
    rw [hgl]
  rw [htb] at hwa
  exact (pres_all (procsGood_of prog hw hr) fuel).exec _ _ s hg hwa hrs

/-- `exec_inrange` read for a given result: whatever the outcome, the final state satisfies the invariant (for the scope
its activation belongs to); and for the starting scope when the outcome lets the run go on -/
theorem exec_inrange_any (prog : SProgram) (hw : ProgWf prog) (hr : progRangeB prog.toAst = true)
    (sc : Scope) (hgl : sc.slots.glob = prog.gslots) (stmt : SStmt) (hws : Wf (sigsOf prog.procs) sc stmt)
    (hrs : rangeB (desugar stmt) = true) (fuel : Nat) (s s' : St) (o : Outcome) (hg : Good prog.toAst sc.slots.loc s)
    (h : exec prog.toAst fuel (desugar stmt) s = (s', o)) :
    GoodSome prog.toAst s' ∧ (returns o = true → Good prog.toAst sc.slots.loc s') := by
  have := exec_inrange prog hw hr sc hgl stmt hws hrs fuel s hg
  rw [h] at this
  refine ⟨this.any, fun ho => ?_⟩
  cases o <;> first | exact this | (simp [returns] at ho)

/-- **expressions with calls** (`Proc.Ref.eval`): a value comes with a state satisfying the invariant, has the static
type of the expression and is in range; an abrupt end comes with a state satisfying the invariant -/
theorem eval_inrange {P : Program} {sg : Sigs} (hP : ProcsGood P sg) (fuel : Nat) (sl : List Ty) (e : Proc.Expr)
    (s : St) (hg : Good P sl s) (hw : EWf sg (tabs P sl) e) (hl : litsE e = true) :
    PostE P sl (fun v => v.tag = e.ty ∧ v.InRange) (Proc.Ref.eval P fuel e s) :=
  (pres_all hP fuel).eval sl e s hg hw hl

/-- **argument lists** (`Proc.Ref.evalArgs`): the values have the parameters' types and are in range -/
theorem args_inrange {P : Program} {sg : Sigs} (hP : ProcsGood P sg) (fuel : Nat) (sl : List Ty) (a : Args)
    (s : St) (hg : Good P sl s) (hw : AWf sg (tabs P sl) a) (hl : litsA a = true) :
    PostE P sl (fun vs => vs.map Val.tag = a.params.map (·.2) ∧ ∀ v ∈ vs, v.InRange) (evalArgs P fuel a s) :=
  (pres_all hP fuel).evalArgs sl a s hg hw hl

/-- **calls** (`Proc.Ref.call`), and **`function_result_inrange`**: a call that returns leaves the caller's state
satisfying the invariant (write-backs done), and the result of a FUNCTION with result type `t` is a value of type `t`
within its range -/
theorem call_inrange {P : Program} {sg : Sigs} (hP : ProcsGood P sg) (fuel : Nat) (sl : List Ty) (f : Nat) (a : Args)
    (res : Option Ty) (s : St) (hg : Good P sl s) (hs : sg[f]? = some (res, a.params)) (hw : AWf sg (tabs P sl) a)
    (hl : litsA a = true) :
    PostE P sl (fun v => ∀ t, res = some t → v.tag = t ∧ v.InRange) (call P fuel f a s) :=
  (pres_all hP fuel).call sl f a res s hg hs hw hl

theorem function_result_inrange {P : Program} {sg : Sigs} (hP : ProcsGood P sg) (fuel : Nat) (sl : List Ty) (f : Nat)
    (a : Args) (t : Ty) (s s' : St) (v : Val) (hg : Good P sl s) (hs : sg[f]? = some (some t, a.params))
    (hw : AWf sg (tabs P sl) a) (hl : litsA a = true) (h : call P fuel f a s = (s', .ok v)) :
    v.tag = t ∧ v.InRange ∧ Good P sl s' := by
  have := call_inrange hP fuel sl f a (some t) s hg hs hw hl
  rw [h] at this
  exact ⟨(this.2 t rfl).1, (this.2 t rfl).2, this.1⟩

theorem good_start (prog : SProgram) (hr : progRangeB prog.toAst = true) :
    Good prog.toAst prog.slots (St.init prog.toAst) := by
  refine ⟨.inl rfl, goodEnv_zero _, goodEnv_zero _, ?_, (fun f hf => by cases hf), ?_⟩
  · intro f d hd
    show GoodEnv d.slots (match prog.toAst.procs[f]? with | some d => d.slots.map zeroOf | none => [])
    rw [hd]
    exact goodEnv_zero _
  · simp only [progRangeB, Bool.and_eq_true, List.all_eq_true, decide_eq_true_eq] at hr
    exact hr.2

/-- **`run_inrange`** — whole programs with procedures: however the run ends — normally, with END or a BASIC error
anywhere (also inside a procedure, any number of calls deep), out of the exact float domain, out of fuel — every variable of
the final state (activation environment, DIM SHARED table, every STATIC procedure's persistent environment) holds a
value of its declared type within that type's range; after a normal end the activation is the main module's -/
theorem run_inrange (prog : SProgram) (fuel : Nat) (hw : ProgWf prog) (hr : progRangeB prog.toAst = true) :
    GoodSome prog.toAst (Proc.Ref.run fuel prog.toAst).1 ∧
    ((Proc.Ref.run fuel prog.toAst).2 = .normal → Good prog.toAst prog.slots (Proc.Ref.run fuel prog.toAst).1) := by
  have hwa := wfA_top _ (mainScope prog) prog.body hw.body
  have hrb : rangeB prog.toAst.body = true := by
    simp only [progRangeB, Bool.and_eq_true] at hr
    exact hr.1.1
  have := (pres_all (procsGood_of prog hw hr) fuel).exec prog.slots (desugar prog.body) (St.init prog.toAst)
    (good_start prog hr) hwa hrb
  show GoodSome prog.toAst (exec prog.toAst fuel (desugar prog.body) (St.init prog.toAst)).1 ∧ _
  generalize hrun : Proc.Ref.run fuel prog.toAst = r
  have hrun' : exec prog.toAst fuel (desugar prog.body) (St.init prog.toAst) = r := hrun
  rw [hrun'] at this ⊢
  obtain ⟨s', o⟩ := r
  exact ⟨this.any, fun ho => by simp only at ho; subst ho; exact this⟩

/-! ### by-value parameters: the argument is converted to the parameter's type, or the call stops with the conversion's
error and nothing is stored -/

/-- **one argument** (by value or by reference): with `v` the value of the argument expression, either its conversion to
the parameter's type (`storeCast`: identity when the static type already is the parameter's type — always so for a
by-reference actual —, else `Num.cast`: nearest whole number, ties away from zero) yields `w`, and `w` is the value the
parameter receives (the head of the evaluated argument list); or the conversion fails with `er` and the evaluation of the
argument list ends with the error code of `er` (Overflow = 6) at the argument's position, in the state `s1` reached by
evaluating the argument expression; or the execution leaves the exact domain -/
theorem arg_converted (P : Program) (n : Nat) (e : Proc.Expr) (pn : String) (pt : Ty) (rest : Args) (s s1 : St) (v : Val)
    (hev : Proc.Ref.eval P n e s = (s1, .ok v)) :
    (∃ w, storeCast e.ty pt v = .ok w ∧ evalTo P (n + 1) e pt s = (s1, .ok w) ∧
        (∀ s2 vs, evalArgs P (n + 1) rest s1 = (s2, .ok vs) →
          evalArgs P (n + 2) (.cons e pn pt rest) s = (s2, .ok (w :: vs))) ∧
        (∀ s2 o, evalArgs P (n + 1) rest s1 = (s2, .error o) →
          evalArgs P (n + 2) (.cons e pn pt rest) s = (s2, .error o))) ∨
    (∃ er, storeCast e.ty pt v = .err er ∧ evalTo P (n + 1) e pt s = (s1, .error (.error (codeOf er) e.pos)) ∧
        evalArgs P (n + 2) (.cons e pn pt rest) s = (s1, .error (.error (codeOf er) e.pos))) ∨
    (storeCast e.ty pt v = .inexact ∧ evalTo P (n + 1) e pt s = (s1, .error .inexact) ∧
        evalArgs P (n + 2) (.cons e pn pt rest) s = (s1, .error .inexact)) := by
  cases hc : storeCast e.ty pt v with
  | ok w =>
    refine .inl ⟨w, rfl, by simp [evalTo, hev, hc, liftR], ?_, ?_⟩
    · intro s2 vs h; simp [evalArgs, evalTo, hev, hc, liftR, h]
    · intro s2 o h; simp [evalArgs, evalTo, hev, hc, liftR, h]
  | err er => exact .inr (.inl ⟨er, rfl, by simp [evalTo, hev, hc, liftR], by simp [evalArgs, evalTo, hev, hc, liftR]⟩)
  | inexact => exact .inr (.inr ⟨rfl, by simp [evalTo, hev, hc, liftR], by simp [evalArgs, evalTo, hev, hc, liftR]⟩)

/-- **Overflow instead of binding**: passing a numeric value `q` of another static type by value to an INTEGER or LONG
parameter stops with Overflow (6) at the argument exactly when `q` rounded to the nearest whole number (ties away from
zero) lies outside the parameter's range; otherwise exactly that rounded number is what the parameter receives -/
theorem arg_overflow_iff (P : Program) (n : Nat) (e : Proc.Expr) (pt : Ty) (s s1 : St) (v : Val) (q : Rat)
    (lo hi : Int) (ht : tyBounds pt = some (lo, hi)) (hne : e.ty ≠ pt)
    (hev : Proc.Ref.eval P n e s = (s1, .ok v)) (hq : v.toRat? = some q) (hv : v.InRange) :
    (evalTo P (n + 1) e pt s = (s1, .error (.error 6 e.pos)) ↔ ¬ (lo ≤ roundHA q ∧ roundHA q ≤ hi)) ∧
    ((lo ≤ roundHA q ∧ roundHA q ≤ hi) →
      ∃ w, evalTo P (n + 1) e pt s = (s1, .ok w) ∧ w.tag = pt ∧ w.toRat? = some ((roundHA q : Int) : Rat)) := by
  have hsc : storeCast e.ty pt v = Num.cast v pt := by simp [storeCast, hne]
  have hov := cast_overflow_iff v pt q lo hi ht hq hv
  have hto : evalTo P (n + 1) e pt s = liftR s1 e.pos (Num.cast v pt) := by simp [evalTo, hev, hsc]
  rw [hto]
  cases hc : Num.cast v pt with
  | ok w =>
    have hnot : ¬ Num.cast v pt = .err .overflow := by rw [hc]; simp
    have hin : lo ≤ roundHA q ∧ roundHA q ≤ hi := Classical.not_not.mp (fun hn => hnot (hov.mpr hn))
    refine ⟨⟨fun h => ?_, fun h => absurd hin h⟩, fun _ => ⟨w, rfl, (cast_sound v pt w hv hc).1,
      (cast_rounds v pt w q lo hi ht hq hv hc).1⟩⟩
    simp [liftR] at h
  | err er =>
    by_cases hov' : er = .overflow
    · subst hov'
      have hout := hov.mp hc
      exact ⟨⟨fun _ => hout, fun _ => rfl⟩, fun h => absurd h hout⟩
    · have hno : ¬ Num.cast v pt = .err .overflow := by rw [hc]; simpa using hov'
      have hin : lo ≤ roundHA q ∧ roundHA q ≤ hi := Classical.not_not.mp (fun hn => hno (hov.mpr hn))
      -- a non-Overflow error of a numeric conversion to a whole-number type does not exist
      exfalso
      cases pt <;> simp only [tyBounds, reduceCtorEq] at ht <;>
        cases v <;> simp only [Val.toRat?, reduceCtorEq] at hq <;>
        simp only [Num.cast, castRound, Res.bind] at hc <;>
        (repeat' split at hc) <;> simp_all
  | inexact =>
    refine ⟨⟨fun h => ?_, fun h => ?_⟩, fun h => ?_⟩
    · simp [liftR] at h
    · have := hov.mpr h; rw [hc] at this; cases this
    · exfalso
      cases pt <;> simp only [tyBounds, reduceCtorEq] at ht <;>
        cases v <;> simp only [Val.toRat?, reduceCtorEq] at hq <;>
        simp only [Val.InRange] at hv <;>
        simp only [Num.cast, castRound, Res.bind, hv, if_true] at hc <;>
        (repeat' split at hc) <;> simp_all

/-- **a failed argument conversion is never stored**: when the evaluation of the argument list ends abruptly (an Overflow
of a by-value conversion, any other error), the call ends the same way in the same state — the body is not entered, no
parameter is bound, nothing is written back -/
theorem call_arg_error_stores_nothing (P : Program) (n f : Nat) (d : ProcDecl Stmt) (args : Args) (s s1 : St)
    (o : Outcome) (hd : P.procs[f]? = some d) (h : evalArgs P n args s = (s1, .error o)) :
    call P (n + 1) f args s = (s1, .error o) := by
  simp [call, hd, h]

/-- at entry the parameter slots hold the evaluated arguments -/
theorem param_bound (d : ProcDecl Stmt) (f : Nat) (vals : List Val) (s1 : St) (i : Nat) (hi : i < vals.length)
    (hlen : vals.length ≤ d.params.length) : (enter d f vals s1).locals[i]? = vals[i]? := by
  cases hs : d.static with
  | true =>
    rw [RbThm.ProcProps.enter_static_locals d f vals s1 hs i (Or.inl (by simp only [ProcDecl.resultSlot]; omega))]
    exact RbThm.ProcSim.rebind_get_lt _ _ _ hi
  | false =>
    have he : enter d f vals s1 = enterCore d f vals s1 := by simp [enter, hs]
    rw [he]
    simp only [enterCore, hs, Bool.false_eq_true, if_false, St.locals]
    exact RbThm.ProcSim.freshEnv_get_lt _ _ _ hi

/-- **`param_by_value_converted`** — when the arguments of a call of procedure `f` have been evaluated to `vals` (each the
conversion of the argument's value to its parameter's type: `arg_converted`), the body starts with parameter `i` holding
`vals[i]`, a value of the parameter's declared type within that type's range; an argument that does not fit never gets
that far (`arg_overflow_iff`, `call_arg_error_stores_nothing`) -/
theorem param_by_value_converted {P : Program} {sg : Sigs} (hP : ProcsGood P sg) (n : Nat) (sl : List Ty) (f : Nat)
    (d : ProcDecl Stmt) (a : Args) (res : Option Ty) (s s1 : St) (vals : List Val) (hg : Good P sl s)
    (hs : sg[f]? = some (res, a.params)) (hw : AWf sg (tabs P sl) a) (hl : litsA a = true)
    (hd : P.procs[f]? = some d) (h : evalArgs P n a s = (s1, .ok vals)) :
    Good P d.slots (enter d f vals s1) ∧
    ∀ (i : Nat) (pn : String) (pt : Ty), d.params[i]? = some (pn, pt) →
      ∃ w : Val, vals[i]? = some w ∧ (enter d f vals s1).locals[i]? = some w ∧ d.slots[i]? = some pt ∧
        w.tag = pt ∧ w.InRange := by
  have h1 := args_inrange hP n sl a s hg hw hl
  rw [h] at h1
  obtain ⟨hg1, htags, hrs⟩ := h1
  obtain ⟨_, hps⟩ := sig_of_proc hP hd hs
  rw [hps] at htags
  have hlen : vals.length = d.params.length := by
    have := congrArg List.length htags
    simpa using this
  refine ⟨good_enter hP hg1 hd vals htags hrs, ?_⟩
  intro i pn pt hi
  have hip : i < d.params.length := (List.getElem?_eq_some_iff.mp hi).1
  have hiv : i < vals.length := by omega
  refine ⟨vals[i], List.getElem?_eq_getElem hiv, ?_, (hP.procs f d hd).1.1 i pn pt hi, ?_, hrs _ (List.getElem_mem hiv)⟩
  · rw [param_bound d f vals s1 i hiv (by omega)]; exact List.getElem?_eq_getElem hiv
  · have h1 : (vals.map Val.tag)[i]? = some vals[i].tag := by
      rw [List.getElem?_map, List.getElem?_eq_getElem hiv]; rfl
    rw [htags, List.getElem?_map, hi] at h1
    simpa using h1.symm

/-! ### to the VM model, through the simulation theorem of the layer -/

namespace ToVm
open RbThm.ProcSim RbThm.ProcLen RbModel.Proc.Compile RbModel.Proc.Vm

/-- the invariant read on a state of the VM model that runs the main module: every declared variable of the main module,
every DIM SHARED variable and every variable of every STATIC procedure's persistent block reads (a variable that was
never created reads as zero) as a value of its declared type within that type's range -/
structure VmGood (prog : SProgram) (τ : Vm) : Prop where
  main : ∃ fr, τ.curFrame = some fr ∧
    ∀ x t, prog.slots[x]? = some t → (getVar fr x t).tag = t ∧ (getVar fr x t).InRange
  glob : ∀ x t, prog.gslots[x]? = some t → (getVar τ.glob x t).tag = t ∧ (getVar τ.glob x t).InRange
  stat : ∀ f d, prog.procs[f]? = some d → d.static = true → ∀ x t, d.slots[x]? = some t →
    (ogetVar (τ.statics f) x t).tag = t ∧ (ogetVar (τ.statics f) x t).InRange

/-- `Proc.compile_correct` for a run that ends normally, keeping the state relation at the final `Halt` (the proof of
`ProcSim.compile_correct_of`, which states the output only) -/
theorem compile_correct_rel (prog : SProgram) (fuel : Nat) (hw : ProgWf prog) (s' : Proc.Ref.St)
    (hrun : Proc.Ref.run fuel prog.toAst = (s', .normal)) :
    ∃ τ, Steps (compile prog) Vm.init τ ∧ Vm.step (compile prog) τ = .halt τ ∧
      Rel (world prog) (mainScope prog) [] [] s' τ := by
  have hst : ∀ fuel, StmtIH (world prog) fuel :=
    fun f => (ih_all (world prog) prog.procs (procsOk_world prog hw) f).stmt
  have hall2 : CodeAt (compile prog) 0
      (compileStmt (layout prog) "" 0 0 0 (seqOf (datas prog.body ++ others prog.body)) ++ [(.halt, maxPos)] ++
        compileProcs (layout prog) (sizeStmt 0 0 (seqOf (datas prog.body ++ others prog.body)) + 1) prog.procs) := by
    intro i _; rw [Nat.zero_add]; rfl
  have hbody := hall2.append_left.append_left
  rw [code_seqOf_append] at hbody
  have hcd := hbody.append_left
  have hco := hbody.append_right
  rw [len_stmt, Nat.zero_add] at hco
  have hhalt := hall2.append_left.append_right.head
  rw [len_stmt, size_seqOf_append, Nat.zero_add] at hhalt
  obtain ⟨σ1, st1, hp1, hd1, hcx1, hk1⟩ :=
    data_list (compile prog) (layout prog) "" (datas prog.body) (datas_isData prog.body) 0 Vm.init (.frame []) []
      hcd rfl rfl
  rw [Nat.zero_add] at hp1
  have hrel : Rel (world prog) (mainScope prog) [] [] (startSt prog) σ1 := by
    refine ⟨trivial, rfl, ⟨[], by rw [hcx1]; rfl, ?_, frameRel_init (mainScope prog) rfl⟩, typed_init prog.slots, rfl,
      ?_, typed_init prog.gslots, ?_, ?_, by rw [hk1.out]; rfl, ?_, by rw [hk1.dataIdx]; rfl, by rw [hk1.queue]; rfl,
      by rw [hk1.funRes]; rfl⟩
    · unfold Vm.curFrame; rw [hcx1]; rfl
    · rw [hk1.glob]; exact tabRel_init prog.gslots
    · intro f d hd hs
      have e1 : σ1.statics f = none := by rw [hk1.statics]; rfl
      have e2 : (startSt prog).statics f = d.slots.map zeroOf := by
        show (match (world prog).P.procs[f]? with | some d => d.slots.map zeroOf | none => []) = _
        rw [hd]
      rw [e1, e2]
      exact statRel_init d.slots
    · intro f h
      simp [mainScope] at h
    · rw [hd1, ← dataOf_eq]; simp [Vm.init, startSt, Proc.Ref.St.init, SProgram.toAst]
  have hact : ActInv (mainScope prog) 0 0 σ1 :=
    ⟨fun _ => by rw [hk1.skipNewline]; rfl, fun h => by simp [mainScope] at h⟩
  have hs : StmtPost (world prog) (mainScope prog) [] 0 0 _ _ σ1
      (Proc.Ref.exec prog.toAst fuel (desugar prog.body) (startSt prog)) :=
    top_spec (world prog) (mainScope prog) hst prog.body hw.body fuel _ [] (startSt prog) σ1 hco hp1 hrel hact
  rw [run_eq] at hrun
  rw [hrun] at hs
  obtain ⟨τ, st, hp, hrel', _⟩ := hs
  refine ⟨τ, st1.trans st, ?_, hrel'⟩
  have : (compile prog)[τ.pc]? = some (CInstr.halt, maxPos) := by rw [hp]; exact hhalt
  simp only [Vm.step, this]

/-- the state relation of the simulation carries the invariant over -/
theorem vmGood_of_rel (prog : SProgram) (s' : Proc.Ref.St) (τ : Vm)
    (hrel : Rel (world prog) (mainScope prog) [] [] s' τ) (hg : Good prog.toAst prog.slots s') : VmGood prog τ := by
  obtain ⟨fr, _, hcur, hfr⟩ := hrel.ctx
  refine ⟨⟨fr, hcur, ?_⟩, ?_, ?_⟩
  · intro x t hx
    rw [hfr.get x t hx]
    exact hg.loc.getD hx _
  · intro x t hx
    rw [hrel.glob x t hx]
    exact hg.glob.getD hx _
  · intro f d hd hs x t hx
    have hd' : (world prog).P.procs[f]? = some { d with body := desugar d.body } := by
      simp only [world, SProgram.toAst, List.getElem?_map, hd, Option.map_some]
    have h1 := (hrel.stat f _ hd' hs).get x t hx
    rw [h1]
    exact (hg.stat f _ hd').getD hx _

/-- **`proc_run_inrange`** — corollary over the simulation theorem of the procedures layer (`Proc.compile_correct`,
`Thm/ProcSim.lean`): when the reference run of a well-formed program ends normally, the VM model running the code the
generator model emits reaches `Halt` with the same output and with every declared variable — main module, DIM SHARED,
every STATIC procedure's persistent block — holding a value of its declared type within that type's range -/
theorem proc_run_inrange (prog : SProgram) (fuel : Nat) (hw : ProgWf prog) (hr : progRangeB prog.toAst = true) :
    match Proc.Ref.run fuel prog.toAst with
    | (s', .normal) => ∃ τ, Steps (compile prog) Vm.init τ ∧ Vm.step (compile prog) τ = .halt τ ∧
        τ.out = s'.out ∧ VmGood prog τ
    | _ => True := by
  have h2 := run_inrange prog fuel hw hr
  generalize hrun : Proc.Ref.run fuel prog.toAst = r at h2
  obtain ⟨s', o⟩ := r
  cases o with
  | normal =>
    obtain ⟨τ, st, hh, hrel⟩ := compile_correct_rel prog fuel hw s' hrun
    exact ⟨τ, st, hh, hrel.out, vmGood_of_rel prog s' τ hrel (h2.2 rfl)⟩
  | exited => trivial
  | halted => trivial
  | error c p => trivial
  | inexact => trivial
  | outOfFuel => trivial
  | illFormed => trivial

/-- `proc_run_inrange` for the bounded interpreter `Proc.Vm.run` the correspondence check executes against the real VM,
with the premises in their decidable forms -/
theorem proc_run_inrange_checked (prog : SProgram) (fuel : Nat) (hw : progWfB prog = true)
    (hr : progRangeB prog.toAst = true) :
    match Proc.Ref.run fuel prog.toAst with
    | (s', .normal) => ∃ n υ, (∀ m, n ≤ m → Vm.run (compile prog) m Vm.init = .halted υ) ∧ υ.out = s'.out ∧
        VmGood prog υ
    | _ => True := by
  have h := proc_run_inrange prog fuel (progWfB_sound prog hw) hr
  generalize Proc.Ref.run fuel prog.toAst = r at h ⊢
  obtain ⟨s', o⟩ := r
  cases o with
  | normal =>
    obtain ⟨τ, st, hh, ho, hg⟩ := h
    obtain ⟨n, hn⟩ := run_of_steps _ st hh
    exact ⟨n, τ, fun m hm => by obtain ⟨ω, h1, h2⟩ := hn m hm; rw [h1, h2], ho, hg⟩
  | exited => trivial
  | halted => trivial
  | error c p => trivial
  | inexact => trivial
  | outOfFuel => trivial
  | illFormed => trivial

end ToVm

/-! ### non-vacuity: a program that exercises every route by which a value reaches a variable of this layer

    DIM SHARED G&
    X% = 7 : Y! = 2.5
    S X%, Y!, (Y!)              ' A%, B! by reference; C% by value: 2.5 -> 3
    Z& = F&(70000.5)            ' N& by value: 70000.5 -> 70001
    S X%, Y!, 40000.5           ' C% by value: Overflow (6) at the argument, nothing bound, nothing written back
    FUNCTION F&(N&) STATIC : K% = K% + 1 : G& = G& + N& : F& = N& * 2 : END FUNCTION
    SUB S(A%, B!, C%) : A% = A% + C% : B! = B! * 2 : END SUB
-/

def demoArgs (third : Proc.Expr) : Args :=
  .cons (.var ⟨false, 0⟩ .int ⟨3, 3⟩) "A" .int
    (.cons (.var ⟨false, 1⟩ .sgl ⟨3, 7⟩) "B" .sgl (.cons third "C" .int .nil))

def demo : SProgram :=
  { slots := [.int, .sgl, .long],
    gslots := [.long],
    body :=
      .seq (.dim ⟨true, 0⟩ .long ⟨1, 12⟩)
      (.seq (.assign ⟨false, 0⟩ .int (.lit (.int 7) ⟨2, 6⟩) ⟨2, 1⟩)
      (.seq (.assign ⟨false, 1⟩ .sgl (.lit (.sgl (5 / 2)) ⟨2, 15⟩) ⟨2, 10⟩)
      (.seq (.callSub 1 (demoArgs (.paren (.var ⟨false, 1⟩ .sgl ⟨3, 12⟩) ⟨3, 11⟩)) ⟨3, 1⟩)
      (.seq (.assign ⟨false, 2⟩ .long
              (.callFn 0 (.cons (.lit (.sgl (140001 / 2)) ⟨4, 9⟩) "N" .long .nil) .long ⟨4, 6⟩) ⟨4, 1⟩)
      (.seq (.callSub 1 (demoArgs (.lit (.sgl (80001 / 2)) ⟨5, 11⟩)) ⟨5, 1⟩) .skip))))),
    procs :=
      [ { result := some .long, name := "F&", params := [("N", .long)], slots := [.long, .long, .int],
          body :=
            .seq (.sdim 2 .int ⟨6, 26⟩)
            (.seq (.assign ⟨false, 2⟩ .int
                    (.bin .plus (.var ⟨false, 2⟩ .int ⟨6, 31⟩) (.lit (.int 1) ⟨6, 36⟩) .int ⟨6, 34⟩) ⟨6, 26⟩)
            (.seq (.assign ⟨true, 0⟩ .long
                    (.bin .plus (.var ⟨true, 0⟩ .long ⟨6, 45⟩) (.var ⟨false, 0⟩ .long ⟨6, 50⟩) .long ⟨6, 48⟩) ⟨6, 40⟩)
            (.seq (.assign ⟨false, 1⟩ .long
                    (.bin .multiply (.var ⟨false, 0⟩ .long ⟨6, 60⟩) (.lit (.int 2) ⟨6, 65⟩) .long ⟨6, 63⟩) ⟨6, 55⟩)
              .skip))),
          pos := ⟨6, 1⟩, static := true },
        { result := none, name := "S", params := [("A", .int), ("B", .sgl), ("C", .int)], slots := [.int, .sgl, .int],
          body :=
            .seq (.assign ⟨false, 0⟩ .int
                    (.bin .plus (.var ⟨false, 0⟩ .int ⟨7, 26⟩) (.var ⟨false, 2⟩ .int ⟨7, 31⟩) .int ⟨7, 29⟩) ⟨7, 21⟩)
            (.seq (.assign ⟨false, 1⟩ .sgl
                    (.bin .multiply (.var ⟨false, 1⟩ .sgl ⟨7, 41⟩) (.lit (.int 2) ⟨7, 46⟩) .sgl ⟨7, 44⟩) ⟨7, 36⟩) .skip),
          pos := ⟨7, 1⟩ } ] }

/-- the hypotheses of `run_inrange` / `proc_run_inrange` hold for the demo program (both are decidable) -/
example : progWfB demo = true ∧ progRangeB demo.toAst = true := by
  constructor <;> decide +kernel

def isOverflowAt (o : Outcome) (row col : Nat) : Bool :=
  match o with
  | .error 6 p => p.row == row && p.col == col
  | _ => false

/-- and its run ends with Overflow at the by-value argument `40000.5` of the second call of `S` (5:11), with `X% = 10`
(7 + the by-value 2.5 rounded to 3, written back), `Y! = 5` (written back), `Z& = 140002`, `G& = 70001` (the by-value
70000.5 rounded away from zero) and the STATIC function's block `N& = 70001, F& = 140002, K% = 1` -/
example : isOverflowAt (Proc.Ref.run 40 demo.toAst).2 5 11 = true ∧
    (Proc.Ref.run 40 demo.toAst).1.env = [.int 10, .sgl 5, .long 140002] ∧
    (Proc.Ref.run 40 demo.toAst).1.glob = [.long 70001] ∧
    (Proc.Ref.run 40 demo.toAst).1.statics 0 = [.long 70001, .long 140002, .int 1] := by
  decide +kernel

/-- the demo program without its last statement -/
def demoOk : SProgram :=
  { demo with
    body :=
      SStmt.seq (.dim ⟨true, 0⟩ .long ⟨1, 12⟩)
      (.seq (.assign ⟨false, 0⟩ .int (.lit (.int 7) ⟨2, 6⟩) ⟨2, 1⟩)
      (.seq (.callSub 1 (demoArgs (.paren (.var ⟨false, 1⟩ .sgl ⟨3, 12⟩) ⟨3, 11⟩)) ⟨3, 1⟩) .skip)) }

/-- it ends normally: the `normal` branch of `proc_run_inrange` is inhabited too -/
example : progWfB demoOk = true ∧ progRangeB demoOk.toAst = true ∧
    (Proc.Ref.run 40 demoOk.toAst).2 matches .normal := by
  refine ⟨?_, ?_, ?_⟩ <;> decide +kernel

end RbThm.C06Proc
