import Thm.ProcArrSimBase
/-!
Procedures layer, simulation part — the SELECT CASE statement (port of `Thm.C01SimSelect`).

Generated shape: `<selector>; PushAToValueStack; Jump select-begin; Jump select-skip; select-begin:` (a resume point),
then per CASE block `caseN` label, the item tests
(`<item>; CopyAToB; PopValueStackIntoA; PushAToValueStack; <comparison>; JumpIfFalse next` — selector in A, item in B,
the selector stays on the value stack), an optional `case-statementsN` label, the body, `Jump end-select`; then the
optional `case-else` part, the `end-select` label, `PopValueStackIntoA` and the `select-skip` label.  The blocks and the
CASE ELSE part are compiled at SELECT depth `sd + 1`.

`cmp_tail` is one comparison against `relTest`, `caseExpr_correct` one item against `caseMatches`, `conds_correct`
the item list of a block against `anyMatches`, `cases_correct` walks the blocks by structural recursion against
`execCases`, `case_select` puts the selector, the blocks, the optional CASE ELSE part and the closing
`end-select; PopValueStackIntoA; select-skip` together.  An item may call functions: the state is threaded, the subject
stays on the value stack because expressions leave the stacks alone (`SameStacks`).  Comparison errors: the instruction
carries the SELECT's position, which is the position `relTest` reports.

Convention: `StmtPost code sc below fd sd 0 tgt σ r` is used as "what `r` prescribes, arriving at address `tgt` on a
normal end".
-/
namespace RbThm.ProcArrSim
set_option linter.unusedVariables false
set_option linter.unusedSimpArgs false
open RbModel RbModel.Num RbModel.ProcArr RbModel.ProcArr.Compile RbModel.ProcArr.Vm
open RbModel.Ast (Pos)
open RbThm.ProcArrLen

namespace SimSelect

/-! ### moving specifications around -/

/-- a `Jump tgt` after the statement: a normal end arrives at `tgt` -/
theorem post_then_jump {W : World} {sc : Scope} {below : List CtxState} {fd sd n off tgt : Nat} {p : Pos} {σ : Vm}
    {r : St × Outcome} (h : StmtPost W sc below fd sd n off σ r)
    (hj : W.code[off + n]? = some (CInstr.jump tgt, p)) : StmtPost W sc below fd sd 0 tgt σ r := by
  obtain ⟨s', o⟩ := r
  cases o with
  | normal =>
    obtain ⟨τ, st, hp, hrel, hss⟩ := h
    have hj' : W.code[τ.pc]? = some (CInstr.jump tgt, p) := by rw [hp]; exact hj
    have s1 : Vm.step W.code τ = .next { τ with pc := tgt } := by simp only [Vm.step, hj']
    exact ⟨{ τ with pc := tgt }, st.trans (Steps.one s1), rfl, hrel.setPc tgt,
      hss.trans ⟨rfl, rfl, rfl, rfl, rfl, rfl, id⟩⟩
  | exited => exact h
  | halted => exact h
  | error c q => exact h
  | inexact => trivial
  | outOfFuel => trivial
  | tooBig => trivial
  | illFormed => exact h

/-- a label after the statement: a normal end steps over it -/
theorem post_then_label {W : World} {sc : Scope} {below : List CtxState} {fd sd n off : Nat} {name : String} {p : Pos}
    {σ : Vm} {r : St × Outcome} (h : StmtPost W sc below fd sd n off σ r)
    (hl : W.code[off + n]? = some (CInstr.label name, p)) : StmtPost W sc below fd sd (n + 1) off σ r := by
  obtain ⟨s', o⟩ := r
  cases o with
  | normal =>
    obtain ⟨τ, st, hp, hrel, hss⟩ := h
    have hl' : W.code[τ.pc]? = some (CInstr.label name, p) := by rw [hp]; exact hl
    have s1 : Vm.step W.code τ = .next (Vm.advance τ) := by simp only [Vm.step, hl']
    exact ⟨Vm.advance τ, st.trans (Steps.one s1), by simp only [Vm.advance, hp]; omega, hrel.advance,
      hss.trans ⟨rfl, rfl, rfl, rfl, rfl, rfl, id⟩⟩
  | exited => exact h
  | halted => exact h
  | error c q => exact h
  | inexact => trivial
  | outOfFuel => trivial
  | tooBig => trivial
  | illFormed => exact h

/-- steps that leave the stacks alone may be put in front of a test -/
theorem condPost_of_steps {W : World} {sc : Scope} {pre below : List CtxState} {yes no : Nat} {σ τ : Vm}
    {r : St × Except Outcome Bool} (st : Steps W.code σ τ) (hs : SameStacks σ τ)
    (h : CondPost W sc pre below yes no τ r) : CondPost W sc pre below yes no σ r := by
  obtain ⟨s', rv⟩ := r
  cases rv with
  | error o => exact ErrPost.of_steps st h
  | ok b =>
    cases b with
    | true =>
      obtain ⟨υ, st2, hp, hrel, hss⟩ := h
      exact ⟨υ, st.trans st2, hp, hrel, hs.trans hss⟩
    | false =>
      obtain ⟨υ, st2, hp, hrel, hss⟩ := h
      exact ⟨υ, st.trans st2, hp, hrel, hs.trans hss⟩

/-! ### one comparison -/

/-- the comparison instructions turn `try_cmp` into −1 / 0 -/
theorem binInstr_rel {op : Op} (h : SelRelOp op) (a b : Val) :
    Vm.binInstr op a b = (tryCmp a b).bind fun o => Res.ok (ofBool (relHolds op o)) := by
  rcases h with h | h | h | h | h | h <;> subst h <;> rfl

theorem truthy_ofBool (b : Bool) : _root_.RbModel.Ref.truthy (ofBool b) = some b := by
  cases b <;> rfl

/-- `CopyAToB; PopValueStackIntoA; PushAToValueStack; <comparison>; JumpIfFalse next`: the SELECT subject (top of the
value stack, kept there) is compared with the CASE item's value in A -/
theorem cmp_tail (W : World) (sc : Scope) (below : List CtxState) (s : St) (op : Op) (hop : SelRelOp op) (p : Pos)
    (next q : Nat) (τ : Vm) (subj v : Val) (vs : List Val)
    (hc : CodeAt W.code q [(CInstr.copyAToB, p), (CInstr.popA, p), (CInstr.pushA, p), (CInstr.bin op, p),
      (CInstr.jumpIfFalse next, p)])
    (hpc : τ.pc = q) (ha : τ.regs.a = v) (hv : τ.vals = subj :: vs) (hr : Rel W sc [] below s τ) :
    CondPost W sc [] below (q + 5) next τ (s, ProcArr.Ref.relTest p op subj v) := by
  subst hpc
  have h0 : W.code[τ.pc]? = some (CInstr.copyAToB, p) := hc.head
  have h1 : W.code[τ.pc + 1]? = some (CInstr.popA, p) := hc.tail.head
  have h2 : W.code[τ.pc + 1 + 1]? = some (CInstr.pushA, p) := hc.tail.tail.head
  have h3 : W.code[τ.pc + 1 + 1 + 1]? = some (CInstr.bin op, p) := hc.tail.tail.tail.head
  have h4 : W.code[τ.pc + 1 + 1 + 1 + 1]? = some (CInstr.jumpIfFalse next, p) := hc.tail.tail.tail.tail.head
  let τ1 : Vm := Vm.advance { τ with regs := { τ.regs with b := τ.regs.a } }
  let τ2 : Vm := Vm.advance { Vm.setA τ1 subj with vals := vs }
  let τ3 : Vm := Vm.advance { τ2 with vals := subj :: vs }
  have s1 : Vm.step W.code τ = .next τ1 := by simp only [Vm.step, h0]; rfl
  have s2 : Vm.step W.code τ1 = .next τ2 := by simp only [Vm.step, τ1, Vm.advance, h1, hv]; rfl
  have s3 : Vm.step W.code τ2 = .next τ3 := by simp only [Vm.step, τ2, τ1, Vm.advance, Vm.setA, h2]; rfl
  have s4 : Vm.step W.code τ3 = Vm.resA τ3 p (Vm.binInstr op subj v) := by
    simp only [Vm.step, τ3, τ2, τ1, Vm.advance, Vm.setA, h3, ha]
  have st : Steps W.code τ τ3 := Steps.cons s1 (Steps.cons s2 (Steps.one s3))
  rw [binInstr_rel hop] at s4
  simp only [ProcArr.Ref.relTest]
  cases ht : tryCmp subj v with
  | ok o =>
    let τ4 : Vm := Vm.advance (Vm.setA τ3 (ofBool (relHolds op o)))
    have s4' : Vm.step W.code τ3 = .next τ4 := by rw [s4, ht]; rfl
    have hj : W.code[τ4.pc]? = some (CInstr.jumpIfFalse next, p) := h4
    have ht4 : _root_.RbModel.Ref.truthy τ4.regs.a = some (relHolds op o) := truthy_ofBool _
    dsimp only
    cases hb : relHolds op o with
    | true =>
      rw [hb] at ht4
      refine ⟨Vm.advance τ4, st.trans (Steps.cons s4' (Steps.one ?_)), rfl, hr.same rfl rfl rfl rfl rfl rfl,
        ⟨hv.symm, rfl, rfl, rfl, rfl, rfl, id⟩⟩
      simp only [Vm.step, hj, ht4]
    | false =>
      rw [hb] at ht4
      refine ⟨{ τ4 with pc := next }, st.trans (Steps.cons s4' (Steps.one ?_)), rfl,
        hr.same rfl rfl rfl rfl rfl rfl, ⟨hv.symm, rfl, rfl, rfl, rfl, rfl, id⟩⟩
      simp only [Vm.step, hj, ht4]
  | err e =>
    dsimp only
    refine ⟨τ3, τ3, st, ?_, hr.out⟩
    rw [s4, ht]; rfl
  | inexact => trivial

/-! ### one item -/

/-- one comparison of the subject with the value of an expression -/
def itemTest (P : Program) (f : Nat) (p : Pos) (op : Op) (subj : Val) (e : ProcArr.Expr) (s : St) :
    St × Except Outcome Bool :=
  match ProcArr.Ref.eval P f e s with
  | (s1, .error o) => (s1, .error o)
  | (s1, .ok v) => (s1, ProcArr.Ref.relTest p op subj v)

theorem caseMatches_simple (P : Program) (f : Nat) (p : Pos) (subj : Val) (e : ProcArr.Expr) (s : St) :
    ProcArr.Ref.caseMatches P (f + 1) p subj (.simple e) s = itemTest P f p .equal subj e s := by
  simp only [ProcArr.Ref.caseMatches, itemTest]
  generalize ProcArr.Ref.eval P f e s = r
  obtain ⟨s1, rv⟩ := r
  cases rv <;> rfl

theorem caseMatches_is (P : Program) (f : Nat) (p : Pos) (subj : Val) (op : Op) (e : ProcArr.Expr) (s : St) :
    ProcArr.Ref.caseMatches P (f + 1) p subj (.is op e) s = itemTest P f p op subj e s := by
  simp only [ProcArr.Ref.caseMatches, itemTest]
  generalize ProcArr.Ref.eval P f e s = r
  obtain ⟨s1, rv⟩ := r
  cases rv <;> rfl

theorem caseMatches_range (P : Program) (f : Nat) (p : Pos) (subj : Val) (lo hi : ProcArr.Expr) (s : St) :
    ProcArr.Ref.caseMatches P (f + 1) p subj (.range lo hi) s =
      match itemTest P f p .greaterOrEqual subj lo s with
      | (s1, .error o) => (s1, .error o)
      | (s1, .ok false) => (s1, .ok false)
      | (s1, .ok true) => itemTest P f p .lessOrEqual subj hi s1 := by
  simp only [ProcArr.Ref.caseMatches, itemTest]
  generalize ProcArr.Ref.eval P f lo s = r
  obtain ⟨s1, rv⟩ := r
  cases rv with
  | error o => rfl
  | ok l =>
    dsimp only
    cases ProcArr.Ref.relTest p .greaterOrEqual subj l with
    | error o => rfl
    | ok b => cases b <;> rfl

/-- `<expr>; CopyAToB; PopValueStackIntoA; PushAToValueStack; <comparison>; JumpIfFalse next` -/
theorem item_correct (W : World) (f : Nat) (hE : ExprIH W f) (sc : Scope) (below : List CtxState) (op : Op)
    (hop : SelRelOp op) (p : Pos) (next off : Nat) (s : St) (σ : Vm) (subj : Val) (vs : List Val) (e : ProcArr.Expr)
    (hc : CodeAt W.code off (compileExpr W.lay off e ++ [(CInstr.copyAToB, p), (CInstr.popA, p), (CInstr.pushA, p),
      (CInstr.bin op, p), (CInstr.jumpIfFalse next, p)]))
    (hpc : σ.pc = off) (hv : σ.vals = subj :: vs) (hr : Rel W sc [] below s σ) (hw : EWf W.sg sc.slots e) :
    CondPost W sc [] below (off + sizeExpr e + 5) next σ (itemTest W.P f p op subj e s) := by
  have he := hE sc e off [] below s σ hc.append_left hpc hr hw
  simp only [itemTest]
  generalize ProcArr.Ref.eval W.P f e s = r at he ⊢
  obtain ⟨s1, rv⟩ := r
  cases rv with
  | error o => exact he
  | ok v =>
    obtain ⟨τ, st, hp, hav, hrel, hss, _⟩ := he
    have hct : CodeAt W.code (off + sizeExpr e) [(CInstr.copyAToB, p), (CInstr.popA, p), (CInstr.pushA, p),
        (CInstr.bin op, p), (CInstr.jumpIfFalse next, p)] := by
      have := hc.append_right
      rwa [len_expr] at this
    have := cmp_tail W sc below s1 op hop p next (off + sizeExpr e) τ subj v vs hct hp hav
      (by rw [hss.vals]; exact hv) hrel
    exact condPost_of_steps st hss this

/-- one CASE item: `generate_case_expression` -/
theorem caseExpr_correct (W : World) (g : Nat) (ih : IHle W g) (sc : Scope) (below : List CtxState) (p : Pos)
    (next off : Nat) (s : St) (σ : Vm) (subj : Val) (vs : List Val) (c : CaseExpr)
    (hc : CodeAt W.code off (compileCaseExpr W.lay p next off c))
    (hpc : σ.pc = off) (hv : σ.vals = subj :: vs) (hr : Rel W sc [] below s σ) (hw : CaseWf W.sg sc.slots c) :
    CondPost W sc [] below (off + sizeCaseExpr c) next σ (ProcArr.Ref.caseMatches W.P g p subj c s) := by
  cases g with
  | zero => simp only [ProcArr.Ref.caseMatches, CondPost, ErrPost]
  | succ f =>
    have hE : ExprIH W f := (ih f (Nat.le_succ f)).expr
    cases c with
    | simple e =>
      simp only [compileCaseExpr] at hc
      rw [caseMatches_simple]
      exact item_correct W f hE sc below .equal (.inr (.inr (.inl rfl))) p next off s σ subj vs e hc hpc hv hr hw
    | is op e =>
      simp only [compileCaseExpr] at hc
      rw [caseMatches_is]
      exact item_correct W f hE sc below op hw.1 p next off s σ subj vs e hc hpc hv hr hw.2
    | range lo hi =>
      simp only [compileCaseExpr] at hc
      rw [caseMatches_range]
      obtain ⟨hwlo, hwhi⟩ := hw
      have h1 := item_correct W f hE sc below .greaterOrEqual (.inr (.inr (.inr (.inl rfl)))) p next off s σ subj vs lo
        hc.append_left.append_left hpc hv hr hwlo
      generalize itemTest W.P f p .greaterOrEqual subj lo s = r1 at h1 ⊢
      obtain ⟨s1, rv⟩ := r1
      cases rv with
      | error o => exact h1
      | ok b =>
        cases b with
        | false => exact h1
        | true =>
          obtain ⟨τ, st, hp, hrel, hss⟩ := h1
          have hc2 : CodeAt W.code (off + sizeExpr lo + 5)
              (compileExpr W.lay (off + sizeExpr lo + 5) hi ++ [(CInstr.copyAToB, p), (CInstr.popA, p),
                (CInstr.pushA, p), (CInstr.bin .lessOrEqual, p), (CInstr.jumpIfFalse next, p)]) := by
            have h' : CodeAt W.code off ((compileExpr W.lay off lo ++ [(CInstr.copyAToB, p), (CInstr.popA, p),
                (CInstr.pushA, p), (CInstr.bin .greaterOrEqual, p), (CInstr.jumpIfFalse next, p)]) ++
                (compileExpr W.lay (off + sizeExpr lo + 5) hi ++ [(CInstr.copyAToB, p), (CInstr.popA, p),
                (CInstr.pushA, p), (CInstr.bin .lessOrEqual, p), (CInstr.jumpIfFalse next, p)])) := by
              simpa only [List.append_assoc] using hc
            have := h'.append_right
            simp only [List.length_append, List.length_cons, List.length_nil, len_expr] at this
            exact this.at (by omega)
          have h2 := item_correct W f hE sc below .lessOrEqual (.inr (.inl rfl)) p next _ s1 τ subj vs hi hc2 hp
            (by rw [hss.vals]; exact hv) hrel hwhi
          have := condPost_of_steps st hss h2
          simp only [sizeCaseExpr]
          have e : off + (sizeExpr lo + 5 + sizeExpr hi + 5) = off + sizeExpr lo + 5 + sizeExpr hi + 5 := by omega
          rw [e]
          exact this

/-! ### the item list of a block -/

/-- the item list of one CASE block (`generate_case_expressions`): on a match control arrives at `stmts` (the block's
statements, or the `case-statements` label in front of them), otherwise at `nextCase` -/
theorem conds_correct (W : World) (sc : Scope) (below : List CtxState) (p : Pos) (sfx : String)
    (bi nextCase stmts : Nat) (subj : Val) (vs : List Val) :
    ∀ (conds : List CaseExpr) (g : Nat) (off ei : Nat) (s : St) (σ : Vm), IHle W g → conds ≠ [] →
      CodeAt W.code off (compileConds W.lay p sfx bi nextCase stmts off ei conds) → stmts = off + sizeConds conds →
      σ.pc = off → σ.vals = subj :: vs → Rel W sc [] below s σ → CondsWf W.sg sc.slots conds →
      CondPost W sc [] below stmts nextCase σ (ProcArr.Ref.anyMatches W.P g p subj conds s)
  | [], _, _, _, _, _, _, hne, _, _, _, _, _, _ => absurd rfl hne
  | [c], g, off, ei, s, σ, ih, _, hc, hst, hpc, hv, hr, hw => by
    cases g with
    | zero => simp only [ProcArr.Ref.anyMatches, CondPost, ErrPost]
    | succ f =>
      simp only [compileConds] at hc
      simp only [sizeConds] at hst
      have h := caseExpr_correct W f (ih.mono (Nat.le_succ f)) sc below p nextCase off s σ subj vs c hc hpc hv hr hw.1
      simp only [ProcArr.Ref.anyMatches]
      subst hst
      generalize ProcArr.Ref.caseMatches W.P f p subj c s = r at h ⊢
      obtain ⟨s1, rv⟩ := r
      cases rv with
      | error o => exact h
      | ok b =>
        cases b with
        | true => exact h
        | false =>
          cases f with
          | zero => simp only [ProcArr.Ref.anyMatches, CondPost, ErrPost]
          | succ f' => simp only [ProcArr.Ref.anyMatches]; exact h
  | c :: d :: rest, g, off, ei, s, σ, ih, _, hc, hst, hpc, hv, hr, hw => by
    cases g with
    | zero => simp only [ProcArr.Ref.anyMatches, CondPost, ErrPost]
    | succ f =>
      simp only [compileConds] at hc
      simp only [sizeConds] at hst
      have h := caseExpr_correct W f (ih.mono (Nat.le_succ f)) sc below p (off + sizeCaseExpr c + 1) off s σ subj vs c
        hc.append_left.append_left.append_left hpc hv hr hw.1
      have hjmp : W.code[off + sizeCaseExpr c]? = some (CInstr.jump stmts, p) := by
        have := hc.append_left.append_left.append_right.head
        simp only [len_caseExpr] at this
        exact this
      have hlab : W.code[off + sizeCaseExpr c + 1]? =
          some (CInstr.label (labelName ("case-multi-expr-" ++ toString bi ++ "-" ++ toString (ei + 1)) p sfx), p) := by
        have := hc.append_left.append_right.head
        simp only [List.length_append, List.length_singleton, len_caseExpr] at this
        exact this
      have hrest : CodeAt W.code (off + sizeCaseExpr c + 1 + 1)
          (compileConds W.lay p sfx bi nextCase stmts (off + sizeCaseExpr c + 1 + 1) (ei + 1) (d :: rest)) := by
        have := hc.append_right
        simp only [List.length_append, List.length_singleton, len_caseExpr] at this
        exact this
      simp only [ProcArr.Ref.anyMatches]
      generalize ProcArr.Ref.caseMatches W.P f p subj c s = r at h ⊢
      obtain ⟨s1, rv⟩ := r
      cases rv with
      | error o => exact h
      | ok b =>
        cases b with
        | true =>
          obtain ⟨τ, st, hp, hrel, hss⟩ := h
          have hj' : W.code[τ.pc]? = some (CInstr.jump stmts, p) := by rw [hp]; exact hjmp
          have s1' : Vm.step W.code τ = .next { τ with pc := stmts } := by simp only [Vm.step, hj']
          exact ⟨{ τ with pc := stmts }, st.trans (Steps.one s1'), rfl, hrel.setPc stmts,
            hss.trans ⟨rfl, rfl, rfl, rfl, rfl, rfl, id⟩⟩
        | false =>
          obtain ⟨τ, st, hp, hrel, hss⟩ := h
          have hl' : W.code[τ.pc]? = some (CInstr.label
              (labelName ("case-multi-expr-" ++ toString bi ++ "-" ++ toString (ei + 1)) p sfx), p) := by
            rw [hp]; exact hlab
          have s1' : Vm.step W.code τ = .next (Vm.advance τ) := by simp only [Vm.step, hl']
          have hss1 : SameStacks σ (Vm.advance τ) := hss.trans ⟨rfl, rfl, rfl, rfl, rfl, rfl, id⟩
          have hrec := conds_correct W sc below p sfx bi nextCase stmts subj vs (d :: rest) f
            (off + sizeCaseExpr c + 1 + 1) (ei + 1) s1 (Vm.advance τ) (ih.mono (Nat.le_succ f)) (by simp) hrest
            (by omega) (by simp only [Vm.advance, hp]) (by rw [hss1.vals]; exact hv) hrel.advance hw.2
          exact condPost_of_steps (st.trans (Steps.one s1')) hss1 hrec

/-! ### the blocks -/

/-- the CASE blocks: running from the label of block `i` does what `execCases` prescribes and, on a normal end, arrives
at `endOff`; `htail` says what happens once all blocks have been tried and control is at `elseOff`.  `sd` already
counts this SELECT. -/
theorem cases_correct (W : World) (fuel : Nat) (ih : IHle W fuel) (sc : Scope) (below : List CtxState) (sfx : String)
    (fd sd : Nat) (p : Pos) (endOff elseOff : Nat) (subj : Val) (vs : List Val) (tail : Cases)
    (htail : ∀ f, f ≤ fuel → ∀ (s : St) (σ : Vm), σ.pc = elseOff → Rel W sc [] below s σ → σ.vals = subj :: vs →
      ActInv sc fd sd σ → StmtPost W sc below fd sd 0 endOff σ (ProcArr.Ref.execCases W.P f p subj tail s)) :
    ∀ (cs : SCases) (f : Nat), f ≤ fuel → ∀ (off i : Nat) (s : St) (σ : Vm),
      CodeAt W.code off (compileCases W.lay sfx fd sd p endOff off i cs) → off + sizeCases fd sd cs = elseOff →
      σ.pc = off → Rel W sc [] below s σ → σ.vals = subj :: vs → WfCases W.sg sc cs → ActInv sc fd sd σ →
      StmtPost W sc below fd sd 0 endOff σ (ProcArr.Ref.execCases W.P f p subj (desugarCases cs tail) s)
  | .nil, f, hf, off, i, s, σ, hc, he, hpc, hr, hv, hw, ha => by
    simp only [desugarCases]
    simp only [sizeCases] at he
    exact htail f hf s σ (by omega) hr hv ha
  | .cons conds body rest, f, hf, off, i, s, σ, hc, he, hpc, hr, hv, hw, ha => by
    cases f with
    | zero => simp only [desugarCases, ProcArr.Ref.execCases, StmtPost]
    | succ f' =>
      simp only [desugarCases, ProcArr.Ref.execCases]
      simp only [compileCases] at hc
      simp only [WfCases] at hw
      obtain ⟨hne, hcs, hwb, hwr⟩ := hw
      simp only [sizeCases] at he
      subst hpc
      simp only [decide_eq_true_eq] at hc
      obtain ⟨m, L, hm, hL, hLlen, hLstep⟩ : ∃ (m : Nat) (L : Code),
          (if conds.length > 1 then 1 else 0) = m ∧
          (if conds.length > 1 then [(CInstr.label (labelName ("case-statements" ++ toString i) p sfx), p)]
            else []) = L ∧
          L.length = m ∧
          (∀ q, CodeAt W.code q L → ∀ (s' : St) (τ : Vm), τ.pc = q → Rel W sc [] below s' τ →
            ∃ τ', Steps W.code τ τ' ∧ τ'.pc = q + m ∧ Rel W sc [] below s' τ' ∧ SameStacks τ τ') := by
        by_cases hmul : conds.length > 1
        · refine ⟨1, [(CInstr.label (labelName ("case-statements" ++ toString i) p sfx), p)], by simp [hmul],
            by simp [hmul], rfl, ?_⟩
          intro q hq s' τ hτ hrτ
          have h0 : W.code[τ.pc]? = some (CInstr.label (labelName ("case-statements" ++ toString i) p sfx), p) := by
            rw [hτ]; exact hq.head
          exact ⟨Vm.advance τ, Steps.one (by simp only [Vm.step, h0]), by simp only [Vm.advance, hτ], hrτ.advance,
            ⟨rfl, rfl, rfl, rfl, rfl, rfl, id⟩⟩
        · refine ⟨0, [], by simp [hmul], by simp [hmul], rfl, ?_⟩
          intro q _ s' τ hτ hrτ
          exact ⟨τ, Steps.refl τ, by omega, hrτ, SameStacks.refl τ⟩
      simp only [hm] at he
      simp only [hm, hL] at hc
      clear hm hL
      have hlab : W.code[σ.pc]? = some (CInstr.label (labelName ("case" ++ toString i) p sfx), p) :=
        hc.append_left.append_left.append_left.append_left.append_left.head
      have hcc : CodeAt W.code (σ.pc + 1) (compileConds W.lay p sfx i
          (σ.pc + 1 + sizeConds conds + m + sizeStmt fd sd body + 1) (σ.pc + 1 + sizeConds conds) (σ.pc + 1) 0 conds) := by
        have := hc.append_left.append_left.append_left.append_left.append_right
        simpa only [List.length_singleton] using this
      have hcL : CodeAt W.code (σ.pc + 1 + sizeConds conds) L := by
        have := hc.append_left.append_left.append_left.append_right
        simp only [List.length_append, List.length_singleton, len_conds] at this
        exact this.at (by omega)
      have hcb : CodeAt W.code (σ.pc + 1 + sizeConds conds + m)
          (compileStmt W.lay sfx fd sd (σ.pc + 1 + sizeConds conds + m) body) := by
        have := hc.append_left.append_left.append_right
        simp only [List.length_append, List.length_singleton, len_conds, hLlen] at this
        exact this.at (by omega)
      have hj : W.code[σ.pc + 1 + sizeConds conds + m + sizeStmt fd sd body]? = some (CInstr.jump endOff, p) := by
        have := hc.append_left.append_right.head
        simp only [List.length_append, List.length_singleton, len_conds, len_stmt, hLlen] at this
        rw [← this]; congr 1; omega
      have hcr : CodeAt W.code (σ.pc + 1 + sizeConds conds + m + sizeStmt fd sd body + 1)
          (compileCases W.lay sfx fd sd p endOff (σ.pc + 1 + sizeConds conds + m + sizeStmt fd sd body + 1) (i + 1)
            rest) := by
        have := hc.append_right
        simp only [List.length_append, List.length_singleton, len_conds, len_stmt, hLlen] at this
        exact this.at (by omega)
      have s1 : Vm.step W.code σ = .next (Vm.advance σ) := by simp only [Vm.step, hlab]
      have hss0 : SameStacks σ (Vm.advance σ) := ⟨rfl, rfl, rfl, rfl, rfl, rfl, id⟩
      have hconds := conds_correct W sc below p sfx i (σ.pc + 1 + sizeConds conds + m + sizeStmt fd sd body + 1)
        (σ.pc + 1 + sizeConds conds) subj vs conds f' (σ.pc + 1) 0 s (Vm.advance σ) (ih.mono (by omega)) hne hcc rfl rfl
        hv hr.advance hcs
      generalize ProcArr.Ref.anyMatches W.P f' p subj conds s = r at hconds ⊢
      obtain ⟨s1', rv⟩ := r
      cases rv with
      | error o => exact StmtPost.of_err (ErrPost.of_steps (Steps.one s1) hconds)
      | ok b =>
        cases b with
        | true =>
          obtain ⟨τ, st, hp, hrel, hss⟩ := hconds
          obtain ⟨τ', st2, hp', hrel', hss'⟩ := hLstep _ hcL s1' τ hp hrel
          have hss3 : SameStacks σ τ' := (hss0.trans hss).trans hss'
          have hb := (ih f' (by omega)).stmt sc body sfx fd sd _ below s1' τ' hcb hp' hrel' hwb (ha.of_same hss3)
          exact StmtPost.of_steps ((Steps.cons s1 st).trans st2) hss3 (post_then_jump hb hj)
        | false =>
          obtain ⟨τ, st, hp, hrel, hss⟩ := hconds
          have hss3 : SameStacks σ τ := hss0.trans hss
          have hrec := cases_correct W fuel ih sc below sfx fd sd p endOff elseOff subj vs tail htail rest f' (by omega)
            _ (i + 1) s1' τ hcr (by omega) hp hrel (by rw [hss3.vals]; exact hv) hwr (ha.of_same hss3)
          exact StmtPost.of_steps (Steps.cons s1 st) hss3 hrec

end SimSelect

open SimSelect in
theorem case_select (W : World) (fuel : Nat) (ih : IHle W fuel) (e : ProcArr.Expr) (cases : SCases) (hasElse : Bool)
    (els : SStmt) (p : Pos)
    (sc : Scope) (sfx : String) (fd sd off : Nat) (below : List CtxState) (s : St) (σ : Vm)
    (hc : CodeAt W.code off (compileStmt W.lay sfx fd sd off (.select e cases hasElse els p))) (hpc : σ.pc = off)
    (hr : Rel W sc [] below s σ) (hw : Wf W.sg sc (.select e cases hasElse els p)) (ha : ActInv sc fd sd σ) :
    StmtPost W sc below fd sd (sizeStmt fd sd (.select e cases hasElse els p)) off σ
      (ProcArr.Ref.exec W.P (fuel + 1) (desugar (.select e cases hasElse els p)) s) := by
  simp only [compileStmt] at hc
  simp only [Wf] at hw
  obtain ⟨hwe, hwc, hwels, _⟩ := hw
  have he := ih.self.expr sc e off [] below s σ hc.append_left.append_left.append_left.append_left.append_left hpc hr hwe
  simp only [desugar, ProcArr.Ref.exec, sizeStmt]
  generalize ProcArr.Ref.eval W.P fuel e s = r0 at he ⊢
  obtain ⟨s1, rv⟩ := r0
  cases rv with
  | error o => exact StmtPost.of_err he
  | ok subj =>
    obtain ⟨τ, st, hp, hav, hrel, hss, _⟩ := he
    dsimp only
    subst hav
    -- the optional CASE ELSE part, abstractly
    obtain ⟨k, T, E, hk, hT, hE, hElen, htail⟩ : ∃ (k : Nat) (T : Cases) (E : Code),
        (if hasElse = true then 1 + sizeStmt fd (sd + 1) els else 0) = k ∧
        (if hasElse = true then Cases.else_ (desugar els) else Cases.nil) = T ∧
        (if hasElse = true then [(CInstr.label (labelName "case-else" p sfx), p)] ++
          compileStmt W.lay sfx fd (sd + 1) (off + sizeExpr e + 1 + 3 + sizeCases fd (sd + 1) cases + 1) els
          else []) = E ∧
        E.length = k ∧
        (CodeAt W.code (off + sizeExpr e + 1 + 3 + sizeCases fd (sd + 1) cases) E →
          ∀ f, f ≤ fuel → ∀ (s' : St) (υ : Vm), υ.pc = off + sizeExpr e + 1 + 3 + sizeCases fd (sd + 1) cases →
            Rel W sc [] below s' υ → υ.vals = τ.regs.a :: τ.vals → ActInv sc fd (sd + 1) υ →
            StmtPost W sc below fd (sd + 1) 0 (off + sizeExpr e + 1 + 3 + sizeCases fd (sd + 1) cases + k) υ
              (ProcArr.Ref.execCases W.P f p τ.regs.a T s')) := by
      cases hasElse with
      | false =>
        refine ⟨0, Cases.nil, [], by simp, by simp, by simp, rfl, ?_⟩
        intro _ f hf s' υ hυ hrυ _ _
        cases f with
        | zero => simp only [ProcArr.Ref.execCases, StmtPost]
        | succ f' =>
          simp only [ProcArr.Ref.execCases]
          exact ⟨υ, Steps.refl υ, by omega, hrυ, SameStacks.refl υ⟩
      | true =>
        refine ⟨1 + sizeStmt fd (sd + 1) els, Cases.else_ (desugar els),
          [(CInstr.label (labelName "case-else" p sfx), p)] ++
            compileStmt W.lay sfx fd (sd + 1) (off + sizeExpr e + 1 + 3 + sizeCases fd (sd + 1) cases + 1) els,
          by simp, by simp, by simp, by simp [len_stmt]; omega, ?_⟩
        intro hcE f hf s' υ hυ hrυ _ haυ
        cases f with
        | zero => simp only [ProcArr.Ref.execCases, StmtPost]
        | succ f' =>
          simp only [ProcArr.Ref.execCases]
          have hl : W.code[υ.pc]? = some (CInstr.label (labelName "case-else" p sfx), p) := by
            rw [hυ]; exact hcE.append_left.head
          have s1' : Vm.step W.code υ = .next (Vm.advance υ) := by simp only [Vm.step, hl]
          have hss1 : SameStacks υ (Vm.advance υ) := ⟨rfl, rfl, rfl, rfl, rfl, rfl, id⟩
          have hcb : CodeAt W.code (off + sizeExpr e + 1 + 3 + sizeCases fd (sd + 1) cases + 1)
              (compileStmt W.lay sfx fd (sd + 1) (off + sizeExpr e + 1 + 3 + sizeCases fd (sd + 1) cases + 1) els) := by
            have := hcE.append_right
            simpa only [List.length_singleton] using this
          have hb := (ih f' (by omega)).stmt sc els sfx fd (sd + 1) _ below s' (Vm.advance υ) hcb
            (by simp only [Vm.advance, hυ]) hrυ.advance hwels (haυ.of_same hss1)
          exact StmtPost.of_steps (Steps.one s1') hss1 (hb.addr (by omega))
    simp only [hk, hT, hE] at hc ⊢
    clear hk hT hE
    have hpush : W.code[off + sizeExpr e]? = some (CInstr.pushA, p) := by
      have := hc.append_left.append_left.append_left.append_left.append_right.head
      rwa [len_expr] at this
    have hjb : W.code[off + sizeExpr e + 1]? = some (CInstr.jump (off + sizeExpr e + 1 + 3 - 1), p) := by
      have := hc.append_left.append_left.append_left.append_right.head
      simp only [List.length_append, List.length_singleton, len_expr] at this
      rw [← this]; congr 1
    have hlb : W.code[off + sizeExpr e + 1 + 3 - 1]? = some (CInstr.label (labelName "select-begin" p sfx), p) := by
      have := hc.append_left.append_left.append_left.append_right.tail.tail.head
      simp only [List.length_append, List.length_singleton, len_expr] at this
      rw [← this]; congr 1
    have hcc : CodeAt W.code (off + sizeExpr e + 1 + 3)
        (compileCases W.lay sfx fd (sd + 1) p (off + sizeExpr e + 1 + 3 + sizeCases fd (sd + 1) cases + k)
          (off + sizeExpr e + 1 + 3) 0 cases) := by
      have := hc.append_left.append_left.append_right
      simp only [List.length_append, List.length_singleton, List.length_cons, List.length_nil, len_expr] at this
      exact this.at (by omega)
    have hcE : CodeAt W.code (off + sizeExpr e + 1 + 3 + sizeCases fd (sd + 1) cases) E := by
      have := hc.append_left.append_right
      simp only [List.length_append, List.length_singleton, List.length_cons, List.length_nil, len_expr, len_cases]
        at this
      exact this.at (by omega)
    have hend : CodeAt W.code (off + sizeExpr e + 1 + 3 + sizeCases fd (sd + 1) cases + k)
        [(CInstr.label (labelName "end-select" p sfx), p), (CInstr.popA, p),
          (CInstr.label (labelName "select-skip" p sfx), p)] := by
      have := hc.append_right
      simp only [List.length_append, List.length_singleton, List.length_cons, List.length_nil, len_expr, len_cases,
        hElen] at this
      exact this.at (by omega)
    have hlend : W.code[off + sizeExpr e + 1 + 3 + sizeCases fd (sd + 1) cases + k + 0]? =
        some (CInstr.label (labelName "end-select" p sfx), p) := hend.head
    have hpop : W.code[off + sizeExpr e + 1 + 3 + sizeCases fd (sd + 1) cases + k + 1]? = some (CInstr.popA, p) :=
      hend.tail.head
    have hskip : W.code[off + sizeExpr e + 1 + 3 + sizeCases fd (sd + 1) cases + k + 1 + 1]? =
        some (CInstr.label (labelName "select-skip" p sfx), p) := hend.tail.tail.head
    -- push the subject, jump to the `select-begin` label, step over it
    let σ2 : Vm := Vm.advance { τ with vals := τ.regs.a :: τ.vals }
    let σ3 : Vm := { σ2 with pc := off + sizeExpr e + 1 + 3 - 1 }
    let σ4 : Vm := Vm.advance σ3
    have s2 : Vm.step W.code τ = .next σ2 := by
      have h : W.code[τ.pc]? = some (CInstr.pushA, p) := by rw [hp]; exact hpush
      simp only [Vm.step, h] <;> rfl
    have s3 : Vm.step W.code σ2 = .next σ3 := by
      have h : W.code[σ2.pc]? = some (CInstr.jump (off + sizeExpr e + 1 + 3 - 1), p) := by
        have : σ2.pc = off + sizeExpr e + 1 := by simp only [σ2, Vm.advance, hp]
        rw [this]; exact hjb
      simp only [Vm.step, h] <;> rfl
    have s4 : Vm.step W.code σ3 = .next σ4 := by
      have h : W.code[σ3.pc]? = some (CInstr.label (labelName "select-begin" p sfx), p) := hlb
      simp only [Vm.step, h] <;> rfl
    have hr4 : Rel W sc [] below s1 σ4 := hrel.same rfl rfl rfl rfl rfl rfl
    have hv4 : σ4.vals = τ.regs.a :: σ.vals := by
      show τ.regs.a :: τ.vals = τ.regs.a :: σ.vals
      rw [hss.vals]
    have ha4 : ActInv sc fd (sd + 1) σ4 :=
      ha.enterSelect τ.regs.a hv4 hss.regStack hss.rets hss.marks hss.skip
    have pre : Steps W.code σ σ4 := st.trans (Steps.cons s2 (Steps.cons s3 (Steps.one s4)))
    have hcases := cases_correct W fuel ih sc below sfx fd (sd + 1) p
      (off + sizeExpr e + 1 + 3 + sizeCases fd (sd + 1) cases + k)
      (off + sizeExpr e + 1 + 3 + sizeCases fd (sd + 1) cases) τ.regs.a τ.vals T (htail hcE) cases fuel
      (Nat.le_refl _) (off + sizeExpr e + 1 + 3) 0 s1 σ4 hcc rfl (by simp only [σ4, σ3, Vm.advance]; omega) hr4 rfl hwc
      ha4
    have hcases' := post_then_label hcases hlend
    generalize ProcArr.Ref.execCases W.P fuel p τ.regs.a (desugarCases cases T) s1 = r at hcases' ⊢
    obtain ⟨s', o⟩ := r
    cases o with
    | normal =>
      obtain ⟨υ, st3, hp3, hrel3, hss3⟩ := hcases'
      have hpop' : W.code[υ.pc]? = some (CInstr.popA, p) := by rw [hp3]; exact hpop
      have hv3 : υ.vals = τ.regs.a :: τ.vals := hss3.vals
      let υ1 : Vm := Vm.advance { Vm.setA υ τ.regs.a with vals := τ.vals }
      have s5 : Vm.step W.code υ = .next υ1 := by simp only [Vm.step, hpop', hv3] <;> rfl
      have hskip' : W.code[υ1.pc]? = some (CInstr.label (labelName "select-skip" p sfx), p) := by
        have : υ1.pc = off + sizeExpr e + 1 + 3 + sizeCases fd (sd + 1) cases + k + 1 + 1 := by
          simp only [υ1, Vm.advance, Vm.setA, hp3]
        rw [this]; exact hskip
      have s6 : Vm.step W.code υ1 = .next (Vm.advance υ1) := by simp only [Vm.step, hskip']
      refine ⟨Vm.advance υ1, (pre.trans st3).trans (Steps.cons s5 (Steps.one s6)), ?_,
        hrel3.same rfl rfl rfl rfl rfl rfl, ?_⟩
      · simp only [υ1, Vm.advance, Vm.setA, hp3]; omega
      · exact ⟨hss.vals, hss3.paths.trans hss.paths, hss3.regStack.trans hss.regStack, hss3.rets.trans hss.rets,
          hss3.marks.trans hss.marks, hss3.trace.trans hss.trace, fun h => hss3.skip (hss.skip h)⟩
    | exited =>
      obtain ⟨υ, st3, hx, hrel3⟩ := hcases'
      exact ⟨υ, pre.trans st3, hx.leaveSelect τ.regs.a hv4 hss.regStack hss.rets hss.marks hss.paths hss.trace hss.skip,
        hrel3⟩
    | halted => exact HaltsWith.of_steps pre hcases'
    | error cd q => exact ErrsWith.of_steps pre hcases'
    | inexact => trivial
    | outOfFuel => trivial
    | tooBig => trivial
    | illFormed => exact hcases'

end RbThm.ProcArrSim
