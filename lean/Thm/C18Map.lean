import Thm.C18Spec
/-!
C18, part 5 — the abstract specification of `Thm/C18Spec.lean` extended from one text file to a finite map
file name → lines, every abstract operation going through a handle of its own choice, with a frame theorem:
an operation on file `k` through handle `h` leaves every other file (name, inode, bytes) and every other
handle alone.  The frame needs the store invariant `StoreWf` (every name points to an existing inode, two
names never share an inode); it is established by OPEN on a missing name (a fresh inode) and kept by all
compiled operations.
-/
namespace RbThm.C18
open RbModel.Files

/-! ## Store invariant and frame -/

/-- Every file name points to an existing inode, and no two names share an inode. -/
def StoreWf (fs : Fs) : Prop :=
  (∀ k j, alGet fs.dir k = some (.file j) → j < fs.inodes.length) ∧
    (∀ k k' j, alGet fs.dir k = some (.file j) → alGet fs.dir k' = some (.file j) → k = k')

/-- What operations through handle `h` on file name `k` leave alone: the other names, the bytes of the
files the other names pointed to, the other handles. -/
def FrameHK (s s' : State) (h k : Nat) : Prop :=
  (∀ k', k' ≠ k → alGet s'.fs.dir k' = alGet s.fs.dir k') ∧
    (∀ k' j, k' ≠ k → alGet s.fs.dir k' = some (.file j) → s'.fs.data j = s.fs.data j) ∧
    (∀ h', h' ≠ h → alGet s'.handles h' = alGet s.handles h')

theorem data_setData_ne (fs : Fs) (i j : Nat) (b : List Nat) (hne : j ≠ i) : (fs.setData i b).data j = fs.data j := by
  simp [Fs.data, Fs.setData, List.getD_eq_getElem?_getD, List.getElem?_set_ne (Ne.symm hne)]

/-- OPEN FOR OUTPUT / APPEND on a free handle keeps the store invariant and the frame. -/
theorem open_write_frame (s : State) (h k : Nat) (app : Bool) (hv : validHandle h = true)
    (hc : alGet s.handles h = none) (hW : StoreWf s.fs) (hnd : alGet s.fs.dir k ≠ some .dir) :
    StoreWf (step s (.open h (.plain k) (if app then .append else .output) 0)).1.fs ∧
      FrameHK s (step s (.open h (.plain k) (if app then .append else .output) 0)).1 h k := by
  obtain ⟨hW1, hW2⟩ := hW
  cases hdir : alGet s.fs.dir k with
  | none =>
    have e : step s (.open h (.plain k) (if app then .append else .output) 0)
        = (setInfo { s with fs := { inodes := s.fs.inodes ++ [[]],
                                    dir := alSet s.fs.dir k (.file s.fs.inodes.length) } } h
            (FileInfo.new (.output { ino := s.fs.inodes.length, pos := 0, append := app })), .ok) := by
      cases app <;> simp [step, doOpen, hv, hc, Fs.openCreate, Fs.resolve, hdir]
    rw [e]
    simp only [setInfo]
    refine ⟨⟨?_, ?_⟩, ?_, ?_, ?_⟩
    · intro k' j hk'
      simp only [List.length_append, List.length_cons, List.length_nil]
      by_cases hkk : k' = k
      · subst hkk
        rw [alGet_alSet_same] at hk'
        simp only [Option.some.injEq, Node.file.injEq] at hk'
        omega
      · rw [alGet_alSet_ne _ _ _ _ hkk] at hk'
        have := hW1 k' j hk'
        omega
    · intro k1 k2 j h1 h2
      by_cases hk1 : k1 = k <;> by_cases hk2 : k2 = k
      · rw [hk1, hk2]
      · exfalso
        subst hk1
        rw [alGet_alSet_same] at h1
        rw [alGet_alSet_ne _ _ _ _ hk2] at h2
        simp only [Option.some.injEq, Node.file.injEq] at h1
        have := hW1 k2 j h2
        omega
      · exfalso
        subst hk2
        rw [alGet_alSet_same] at h2
        rw [alGet_alSet_ne _ _ _ _ hk1] at h1
        simp only [Option.some.injEq, Node.file.injEq] at h2
        have := hW1 k1 j h1
        omega
      · rw [alGet_alSet_ne _ _ _ _ hk1] at h1
        rw [alGet_alSet_ne _ _ _ _ hk2] at h2
        exact hW2 k1 k2 j h1 h2
    · intro k' hk'
      exact alGet_alSet_ne _ _ _ _ hk'
    · intro k' j _ hj
      have := hW1 k' j hj
      simp [Fs.data, List.getD_eq_getElem?_getD, List.getElem?_append_left this]
    · intro h' hh'
      exact alGet_alSet_ne _ _ _ _ hh'
  | some node =>
    cases node with
    | dir => exact absurd hdir hnd
    | file j0 =>
      have e : step s (.open h (.plain k) (if app then .append else .output) 0)
          = (setInfo { s with fs := if app then s.fs else s.fs.setData j0 [] } h
              (FileInfo.new (.output { ino := j0, pos := 0, append := app })), .ok) := by
        cases app <;> simp [step, doOpen, hv, hc, Fs.openCreate, Fs.resolve, hdir]
      rw [e]
      simp only [setInfo]
      have hdir' : (if app then s.fs else s.fs.setData j0 []).dir = s.fs.dir := by cases app <;> rfl
      have hlen : (if app then s.fs else s.fs.setData j0 []).inodes.length = s.fs.inodes.length := by
        cases app <;> simp [Fs.setData]
      refine ⟨⟨?_, ?_⟩, ?_, ?_, ?_⟩
      · intro k' j hk'
        rw [hdir'] at hk'
        rw [hlen]
        exact hW1 k' j hk'
      · intro k1 k2 j h1 h2
        rw [hdir'] at h1 h2
        exact hW2 k1 k2 j h1 h2
      · intro k' _
        rw [hdir']
      · intro k' j hk' hj
        have hne : j ≠ j0 := fun hjj => hk' (hW2 k' k j hj (by rw [hdir, hjj]))
        cases app
        · exact data_setData_ne _ _ _ _ hne
        · rfl
      · intro h' hh'
        exact alGet_alSet_ne _ _ _ _ hh'

/-- One PRINT # through a writer on inode `i` changes no other inode, no other handle, not the number of
inodes. -/
theorem print_frame (s : State) (h i : Nat) (items : List (List Nat)) (nl : Bool) (hv : validHandle h = true)
    (hw : WriterAt s h i) :
    (step s (.print h items nl)).1.fs.inodes.length = s.fs.inodes.length ∧
      (∀ j, j ≠ i → (step s (.print h items nl)).1.fs.data j = s.fs.data j) ∧
      (∀ h', h' ≠ h → alGet (step s (.print h items nl)).1.handles h' = alGet s.handles h') := by
  obtain ⟨_, fi, w, hg, hk, hino, _⟩ := hw
  have e : step s (.print h items nl) =
      (setInfo { s with fs := (s.fs.setData w.ino (w.write (s.fs.data w.ino) (printBytes items nl)).1) } h
        { fi with kind := (Kind.output (w.write (s.fs.data w.ino) (printBytes items nl)).2) }, Out.ok) := by
    simp [step, hv, doPrint, getWriter, getInfo, hg, hk]
  rw [e]
  subst hino
  simp only [setInfo]
  refine ⟨by simp [Fs.setData], fun j hj => data_setData_ne _ _ _ _ hj, fun h' hh' => alGet_alSet_ne _ _ _ _ hh'⟩

theorem prints_frame (h i : Nat) (hv : validHandle h = true) (prints : List (List (List Nat) × Bool)) (s : State)
    (hw : WriterAt s h i) :
    (run s (prints.map fun p => Op.print h p.1 p.2)).1.fs.inodes.length = s.fs.inodes.length ∧
      (∀ j, j ≠ i → (run s (prints.map fun p => Op.print h p.1 p.2)).1.fs.data j = s.fs.data j) ∧
      (∀ h', h' ≠ h → alGet (run s (prints.map fun p => Op.print h p.1 p.2)).1.handles h' = alGet s.handles h') := by
  induction prints generalizing s with
  | nil => exact ⟨rfl, fun _ _ => rfl, fun _ _ => rfl⟩
  | cons p rest ih =>
    have h1 := print_at s h i p.1 p.2 hv hw
    have f1 := print_frame s h i p.1 p.2 hv hw
    have h2 := ih _ h1.2.1
    simp only [List.map_cons, run]
    exact ⟨by rw [h2.1, f1.1], fun j hj => by rw [h2.2.1 j hj, f1.2.1 j hj],
      fun h' hh' => by rw [h2.2.2 h' hh', f1.2.2 h' hh']⟩

/-- The whole write phase (OPEN FOR OUTPUT / APPEND, PRINT # ..., CLOSE) keeps the store invariant and
the frame. -/
theorem write_phase_frame (s : State) (h k : Nat) (app : Bool) (hv : validHandle h = true)
    (hc : alGet s.handles h = none) (hW : StoreWf s.fs) (hnd : alGet s.fs.dir k ≠ some .dir)
    (prints : List (List (List Nat) × Bool)) :
    StoreWf (run s (writeOps h k app prints)).1.fs ∧ FrameHK s (run s (writeOps h k app prints)).1 h k := by
  have hwf : ∀ j, alGet s.fs.dir k = some (.file j) → j < s.fs.inodes.length := fun j hj => hW.1 k j hj
  obtain ⟨i, _, ho2, ho3, _⟩ := open_write_at s h k app hv hc hnd hwf
  obtain ⟨⟨hW1, hW2⟩, hf1, hf2, hf3⟩ := open_write_frame s h k app hv hc hW hnd
  have hp := prints_at h i hv prints _ ho2
  have hpf := prints_frame h i hv prints _ ho2
  have hcl := close_one_closes
    (run (step s (.open h (.plain k) (if app then .append else .output) 0)).1
      (prints.map fun p => Op.print h p.1 p.2)).1 h hv
  unfold writeOps
  rw [run_append, run_append]
  simp only [run]
  refine ⟨⟨?_, ?_⟩, ?_, ?_, ?_⟩
  · intro k' j hk'
    rw [hcl.2.2.1] at hk' ⊢
    rw [hp.2.2.2] at hk'
    rw [hpf.1]
    exact hW1 k' j hk'
  · intro k1 k2 j h1 h2
    rw [hcl.2.2.1, hp.2.2.2] at h1 h2
    exact hW2 k1 k2 j h1 h2
  · intro k' hk'
    rw [hcl.2.2.1, hp.2.2.2]
    exact hf1 k' hk'
  · intro k' j hk' hj
    have hj1 := hj
    rw [← hf1 k' hk'] at hj1
    have hne : j ≠ i := fun hji => hk' (hW2 k' k j hj1 (by rw [ho3, hji]))
    rw [hcl.2.2.1, hpf.2.1 j hne]
    exact hf2 k' j hk' hj
  · intro h' hh'
    rw [hcl.2.2.2 h' hh', hpf.2.2 h' hh']
    exact hf3 h' hh'

/-! ## Reading changes neither the store nor the other handles -/

/-- The operations of the read phase on handle `h`. -/
def ReadOp (h : Nat) (op : Op) : Prop :=
  (∃ n l, op = .open h n .input l) ∨ op = .eof h ∨ (∃ v, op = .lineInput h v) ∨ op = .close [h]

theorem doScan_handles (s : State) (h h' : Nat) (sc : List Nat → Scan) (hne : h' ≠ h) :
    alGet (doScan s h sc).1.handles h' = alGet s.handles h' := by
  unfold doScan
  split
  · rfl
  · split
    · rfl
    · exact alGet_alSet_ne _ _ _ _ hne

theorem readOp_frame (h : Nat) (op : Op) (hop : ReadOp h op) (s : State) :
    (step s op).1.fs = s.fs ∧ ∀ h', h' ≠ h → alGet (step s op).1.handles h' = alGet s.handles h' := by
  rcases hop with ⟨n, l, rfl⟩ | rfl | ⟨v, rfl⟩ | rfl
  · simp only [step, doOpen]
    split
    · exact ⟨rfl, fun _ _ => rfl⟩
    · split
      · exact ⟨rfl, fun _ _ => rfl⟩
      · split
        · exact ⟨rfl, fun _ _ => rfl⟩
        · exact ⟨rfl, fun h' hh' => alGet_alSet_ne _ _ _ _ hh'⟩
  · refine ⟨doEof_fs s h, fun h' hh' => ?_⟩
    have := doScan_handles s h h' scanEof hh'
    simp only [step, doEof]
    split
    · rfl
    · split <;> rename_i heq <;> rw [heq] at this <;> exact this
  · refine ⟨doRead_fs s h v scanLine, fun h' hh' => ?_⟩
    have := doScan_handles s h h' scanLine hh'
    simp only [step, doRead]
    split
    · rfl
    · split <;> rename_i heq <;> rw [heq] at this <;> exact this
  · simp only [step, doClose]
    split
    · exact ⟨rfl, fun _ _ => rfl⟩
    · refine ⟨rfl, fun h' hh' => ?_⟩
      simp [closeAll, alGet_alDel_ne _ _ _ hh']

theorem run_readOps_frame (h : Nat) (ops : List Op) (hops : ∀ op ∈ ops, ReadOp h op) (s : State) :
    (run s ops).1.fs = s.fs ∧ ∀ h', h' ≠ h → alGet (run s ops).1.handles h' = alGet s.handles h' := by
  induction ops generalizing s with
  | nil => exact ⟨rfl, fun _ _ => rfl⟩
  | cons op rest ih =>
    have h1 := readOp_frame h op (hops op (by simp)) s
    have h2 := ih (fun o ho => hops o (by simp [ho])) (step s op).1
    simp only [run]
    exact ⟨by rw [h2.1, h1.1], fun h' hh' => by rw [h2.2 h' hh', h1.2 h' hh']⟩

theorem compile_readAll_readOps (h k v : Nat) (a : List (List Nat)) :
    ∀ op ∈ compile h k v a .readAll, ReadOp h op := by
  intro op hop
  simp only [compile, List.mem_append, List.mem_flatMap, List.mem_cons, List.mem_nil_iff, or_false] at hop
  rcases hop with ((rfl | ⟨_, _, rfl | rfl⟩) | rfl | rfl | rfl) | rfl
  · exact Or.inl ⟨_, _, rfl⟩
  · exact Or.inr (Or.inl rfl)
  · exact Or.inr (Or.inr (Or.inl ⟨_, rfl⟩))
  · exact Or.inr (Or.inl rfl)
  · exact Or.inr (Or.inr (Or.inl ⟨_, rfl⟩))
  · exact Or.inr (Or.inl rfl)
  · exact Or.inr (Or.inr (Or.inr rfl))

/-! ## The abstract machine: a finite map of text files -/

/-- File name → lines (`none` = no such file). -/
abbrev Files := Nat → Option (List (List Nat))

def Files.set (A : Files) (k : Nat) (a : List (List Nat)) : Files := fun k' => if k' = k then some a else A k'

/-- Abstract operations: each names the handle it goes through and the file. -/
inductive MOp where
  | rewrite (h k : Nat) (lines : List (List Nat))
  | append (h k : Nat) (lines : List (List Nat))
  | readAll (h k : Nat)

def MOp.handle : MOp → Nat
  | .rewrite h _ _ => h
  | .append h _ _ => h
  | .readAll h _ => h

def MOp.lines : MOp → List (List Nat)
  | .rewrite _ _ ls => ls
  | .append _ _ ls => ls
  | .readAll _ _ => []

/-- Abstract step.  Writing to a missing name creates the file; reading a missing name is File not found. -/
def mstep (A : Files) : MOp → Files × List Out
  | .rewrite _ k ls => (A.set k ls, wroteOk ls)
  | .append _ k ls => (A.set k ((A k).getD [] ++ ls), wroteOk ls)
  | .readAll _ k =>
    (A, match A k with
      | some a => (astep a .readAll).2
      | none => [.err .fileNotFound])

def mrun (A : Files) : List MOp → Files × List Out
  | [] => (A, [])
  | op :: ops => ((mrun (mstep A op).1 ops).1, (mstep A op).2 ++ (mrun (mstep A op).1 ops).2)

/-- The history of an abstract operation (the read loop unrolled for the current number of lines). -/
def mcompile (v : Nat) (A : Files) : MOp → List Op
  | .rewrite h k ls => writeOps h k false (ls.map fun l => ([l], true))
  | .append h k ls => writeOps h k true (ls.map fun l => ([l], true))
  | .readAll h k =>
    match A k with
    | some a => compile h k v a .readAll
    | none => [.open h (.plain k) .input 0]

def mcompileAll (v : Nat) : Files → List MOp → List Op
  | _, [] => []
  | A, op :: ops => mcompile v A op ++ mcompileAll v (mstep A op).1 ops

/-- The store implements the abstract map: the invariant holds, the bound names are exactly the files of
the map, each holding its lines followed by CR LF.  (Nothing is said about handles: see the theorems.) -/
def MImplements (s : State) (A : Files) : Prop :=
  StoreWf s.fs ∧ ∀ k,
    match A k with
    | none => alGet s.fs.dir k = none
    | some a => ∃ i, alGet s.fs.dir k = some (.file i) ∧ s.fs.data i = encodeLines a

/-- All lines of all files are free of CR / LF. -/
def CleanFiles (A : Files) : Prop := ∀ k a, A k = some a → ∀ l ∈ a, NoCrLf l

theorem oldContent_of_implements (s : State) (A : Files) (k : Nat) (hi : MImplements s A) :
    oldContent s k = encodeLines ((A k).getD []) := by
  have := hi.2 k
  unfold oldContent
  cases hA : A k with
  | none => rw [hA] at this; simp [this, encodeLines]
  | some a =>
    rw [hA] at this
    obtain ⟨i, hd, hdata⟩ := this
    simp [hd, hdata]

theorem not_dir_of_implements (s : State) (A : Files) (k : Nat) (hi : MImplements s A) :
    alGet s.fs.dir k ≠ some .dir := by
  have := hi.2 k
  cases hA : A k with
  | none => rw [hA] at this; simp [this]
  | some a =>
    rw [hA] at this
    obtain ⟨i, hd, _⟩ := this
    simp [hd]

/-- Writing `ls` to file `k` (after `old`, which is what the map says `k` holds when appending). -/
theorem mrefines_write (s : State) (A : Files) (h k : Nat) (app : Bool) (ls : List (List Nat))
    (hv : validHandle h = true) (hc : alGet s.handles h = none) (hi : MImplements s A)
    (hl : ∀ l ∈ ls, NoCrLf l) :
    (run s (writeOps h k app (ls.map fun l => ([l], true)))).2 = wroteOk ls ∧
      MImplements (run s (writeOps h k app (ls.map fun l => ([l], true)))).1
        (A.set k ((if app then (A k).getD [] else []) ++ ls)) ∧
      alGet (run s (writeOps h k app (ls.map fun l => ([l], true)))).1.handles h = none ∧
      ∀ h', h' ≠ h →
        alGet (run s (writeOps h k app (ls.map fun l => ([l], true)))).1.handles h' = alGet s.handles h' := by
  have hnd := not_dir_of_implements s A k hi
  have hwf : ∀ j, alGet s.fs.dir k = some (.file j) → j < s.fs.inodes.length := fun j hj => hi.1.1 k j hj
  obtain ⟨h1, h2, i, h3, h4⟩ := write_phase s h k app hv hc hnd hwf (ls.map fun l => ([l], true))
  obtain ⟨hW, hf1, hf2, hf3⟩ := write_phase_frame s h k app hv hc hi.1 hnd (ls.map fun l => ([l], true))
  rw [printBytes_lines ls hl, oldContent_of_implements s A k hi] at h4
  refine ⟨by simpa [wroteOk, Function.comp_def] using h1, ⟨hW, ?_⟩, h2, hf3⟩
  intro k'
  by_cases hkk : k' = k
  · subst hkk
    simp only [Files.set, ↓reduceIte]
    refine ⟨i, h3, ?_⟩
    rw [h4, encodeLines_append]
    cases app <;> simp [encodeLines]
  · simp only [Files.set, hkk, ↓reduceIte]
    have := hi.2 k'
    cases hA : A k' with
    | none =>
      rw [hA] at this
      simp only
      rw [hf1 k' hkk]
      exact this
    | some a =>
      rw [hA] at this
      obtain ⟨j, hd, hdata⟩ := this
      exact ⟨j, by rw [hf1 k' hkk]; exact hd, by rw [hf2 k' j hkk hd]; exact hdata⟩

/-- **One abstract operation is implemented by its history**: same observations; the resulting store
implements the resulting map (the operation's file changed as the abstract step says, EVERY OTHER FILE
untouched); the operation's handle is free again and every other handle is as it was. -/
theorem mrefines_step (s : State) (A : Files) (v : Nat) (op : MOp) (hv : validHandle op.handle = true)
    (hc : alGet s.handles op.handle = none) (hi : MImplements s A) (hA : CleanFiles A)
    (hl : ∀ l ∈ op.lines, NoCrLf l) :
    (run s (mcompile v A op)).2 = (mstep A op).2 ∧
      MImplements (run s (mcompile v A op)).1 (mstep A op).1 ∧
      alGet (run s (mcompile v A op)).1.handles op.handle = none ∧
      ∀ h', h' ≠ op.handle → alGet (run s (mcompile v A op)).1.handles h' = alGet s.handles h' := by
  cases op with
  | rewrite h k ls =>
    have := mrefines_write s A h k false ls hv hc hi hl
    simpa [mcompile, mstep, MOp.handle] using this
  | append h k ls =>
    have := mrefines_write s A h k true ls hv hc hi hl
    simpa [mcompile, mstep, MOp.handle] using this
  | readAll h k =>
    simp only [MOp.handle] at hv hc
    have hk := hi.2 k
    cases hAk : A k with
    | none =>
      rw [hAk] at hk
      have hm := (open_missing_input s h 0 (.plain k) hv hc hk).1
      simp only [mcompile, mstep, hAk, run, MOp.handle]
      rw [hm]
      exact ⟨rfl, hi, hc, fun _ _ => rfl⟩
    | some a =>
      rw [hAk] at hk
      obtain ⟨i, hd, hdata⟩ := hk
      have himp : Implements s h k a := ⟨hc, i, hd, hi.1.1 k i hd, hdata⟩
      have hr := refines_step s h k v a .readAll hv himp (hA k a hAk) (by simp [linesOf])
      have hfr := run_readOps_frame h _ (compile_readAll_readOps h k v a) s
      simp only [mcompile, mstep, hAk, MOp.handle]
      refine ⟨hr.1, ?_, hr.2.1, hfr.2⟩
      unfold MImplements
      rw [hfr.1]
      exact hi

theorem CleanFiles.step (A : Files) (op : MOp) (hA : CleanFiles A) (hl : ∀ l ∈ op.lines, NoCrLf l) :
    CleanFiles (mstep A op).1 := by
  cases op with
  | rewrite h k ls =>
    intro k' a hk' l hla
    simp only [mstep, Files.set] at hk'
    split at hk'
    · simp only [Option.some.injEq] at hk'; subst hk'; exact hl l hla
    · exact hA k' a hk' l hla
  | append h k ls =>
    intro k' a hk' l hla
    simp only [mstep, Files.set] at hk'
    split at hk'
    · simp only [Option.some.injEq] at hk'
      subst hk'
      simp only [List.mem_append] at hla
      rcases hla with hla | hla
      · cases hAk : A k with
        | none => rw [hAk] at hla; simp at hla
        | some a0 => rw [hAk] at hla; exact hA k a0 hAk l hla
      · exact hl l hla
    · exact hA k' a hk' l hla
  | readAll h k => exact hA

/-- **Refinement for the finite map of files.**  Every sequence of abstract operations — on any file names,
through any valid handles that are free at the start — compiled to a history of the model, shows exactly
the abstract observations and ends in a store that implements the abstract result, the handles used being
free again and all other handles as they were. -/
theorem mrefines_run (v : Nat) (ops : List MOp) (hv : ∀ op ∈ ops, validHandle op.handle = true)
    (hl : ∀ op ∈ ops, ∀ l ∈ op.lines, NoCrLf l) (s : State) (A : Files)
    (hc : ∀ op ∈ ops, alGet s.handles op.handle = none) (hi : MImplements s A) (hA : CleanFiles A) :
    (run s (mcompileAll v A ops)).2 = (mrun A ops).2 ∧
      MImplements (run s (mcompileAll v A ops)).1 (mrun A ops).1 ∧
      (∀ op ∈ ops, alGet (run s (mcompileAll v A ops)).1.handles op.handle = none) ∧
      ∀ h', (∀ op ∈ ops, h' ≠ op.handle) → alGet (run s (mcompileAll v A ops)).1.handles h' = alGet s.handles h' := by
  induction ops generalizing s A with
  | nil => exact ⟨rfl, hi, fun _ h => by simp at h, fun _ _ => rfl⟩
  | cons op rest ih =>
    obtain ⟨h1, h2, h3, h4⟩ := mrefines_step s A v op (hv op (by simp)) (hc op (by simp)) hi hA (hl op (by simp))
    have hc' : ∀ o ∈ rest, alGet (run s (mcompile v A op)).1.handles o.handle = none := by
      intro o ho
      by_cases hoh : o.handle = op.handle
      · rw [hoh]; exact h3
      · rw [h4 _ hoh]; exact hc o (by simp [ho])
    obtain ⟨g1, g2, g3, g4⟩ := ih (fun o ho => hv o (by simp [ho])) (fun o ho => hl o (by simp [ho])) _ _ hc' h2
      (CleanFiles.step A op hA (hl op (by simp)))
    simp only [mcompileAll, mrun]
    rw [run_append]
    refine ⟨by rw [h1, g1], g2, ?_, ?_⟩
    · intro o ho
      simp only [List.mem_cons] at ho
      rcases ho with rfl | ho
      · by_cases hin : ∃ o' ∈ rest, o.handle = o'.handle
        · obtain ⟨o', ho', heq⟩ := hin
          rw [heq]; exact g3 o' ho'
        · rw [g4 _ (fun o' ho' heq => hin ⟨o', ho', heq⟩)]; exact h3
      · exact g3 o ho
    · intro h' hh'
      rw [g4 h' (fun o ho => hh' o (by simp [ho])), h4 h' (hh' op (by simp))]

/-! ## Non-vacuity: two files, three handles, a missing file -/

example : MImplements emptyState (fun _ => none) :=
  ⟨⟨fun _ _ h => by simp [emptyState, alGet] at h, fun _ _ _ h => by simp [emptyState, alGet] at h⟩, fun _ => rfl⟩

def demoMOps : List MOp :=
  [.rewrite 1 0 [[97]], .append 2 1 [[98]], .append 1 0 [[99]], .readAll 2 1, .readAll 3 0, .readAll 1 5,
    .rewrite 3 1 [], .readAll 2 0]

/-- What the abstract machine says, computed: file 0 = "a","c", file 1 = empty, file 5 does not exist. -/
example : (mrun (fun _ => none) demoMOps).1 0 = some [[97], [99]] ∧ (mrun (fun _ => none) demoMOps).1 1 = some [] ∧
    (mrun (fun _ => none) demoMOps).1 5 = none := by decide

/-- ... and the model run of the compiled history shows the same observations. -/
example : (run emptyState (mcompileAll 7 (fun _ => none) demoMOps)).2 = (mrun (fun _ => none) demoMOps).2 := by decide

end RbThm.C18
