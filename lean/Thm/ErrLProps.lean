import RbModel.ErrL.Ref
/-!
Error layer: the ON ERROR / RESUME clauses of property C05, proved from the reference semantics `RbModel.ErrL.Ref` alone (no
VM, no simulation relation).  `ErrL.Ref` is tied to the real interpreter by `harness/src/bin/c05e.rs` on every explored
program; the simulation theorem of the layer is future work.

* `handler_sees_err`: while `ON ERROR GOTO L` is active (and no handler is running) a failing unit starts the handler — a run
  of the whole program entered at `L` — in the state the unit failed in, with ERR = the error's code.
* `resume_reexecutes_statement`: when the handler ends with RESUME the failing statement is executed again, in the state the
  handler left; (`_cond`) for a condition the condition is evaluated again.
* `resume_next_continues_after`: when the handler ends with RESUME NEXT a simple statement ends normally in the state the
  handler left, so whatever follows it runs next (`resume_next_then_seq`); for the headers the `next(u)` table:
  `resume_next_if_enters_block`, `resume_next_while_enters_body`, `resume_next_select_leaves`, `resume_next_for_header_leaves`,
  `resume_next_case_enters_block`, `resume_next_loop_cond_leaves`.
* `resume_label_leaves_loops`: when the handler ends with RESUME L' the failing statement answers `jump L'`, and a FOR (WHILE)
  whose body does not contain `L'` passes the jump on: the loop is left, the state — the counter included — is the handler's.
* `unhandled_error_reported_with_position`: with no handler, or after ON ERROR GOTO 0, the error ends the run with its code
  and position, in the state the statement failed in.
* `variables_as_handler_left_them`: RESUME / RESUME NEXT / RESUME label change nothing but the "inside a handler" flag and
  ERR (cleared); with `resume_*` above: the interrupted program goes on with exactly the variables and output of the handler.
* `resume_without_error_is_20`: RESUME / RESUME NEXT / RESUME label outside a handler fail with error 20 at their position.
-/
namespace RbThm.ErrLProps
set_option linter.unusedVariables false
set_option linter.unusedSimpArgs false
open RbModel RbModel.Num RbModel.ErrL RbModel.ErrL.Ref
open RbModel.Ast (Pos PrintItem CaseExpr)
open RbModel.Ref (evalTo)

/-- the state the handler starts in: the state of the failure, flagged "inside a handler", ERR = the code -/
def handlerStart (s : ESt) (c : Nat) : ESt := { s with inH := true, err := some c }

/-! ## a failing unit under ON ERROR GOTO -/

/-- While ON ERROR GOTO L is active and no handler is running, a unit that fails with code `c` runs the whole program from
the label `L` on, in the state of the failure with ERR = `c`; what the unit does next is read off the answer of that run. -/
theorem handler_sees_err (fuel : Nat) (P : Stmt) (gd c : Nat) (p : Pos) (s : ESt) (L : Nat)
    (hm : s.mode = .goto L) (hi : s.inH = false) :
    raise (fuel + 1) P gd c p s =
      ((exec fuel P gd P (.seek L) (handlerStart s c)).1, dispOfHandler (exec fuel P gd P (.seek L) (handlerStart s c)).2) ∧
    (handlerStart s c).err = some c ∧ (handlerStart s c).inH = true ∧ (handlerStart s c).st = s.st ∧
    (handlerStart s c).mode = s.mode := by
  refine ⟨?_, rfl, rfl, rfl, rfl⟩
  simp only [raise, hm, hi, handlerStart]
  rfl

/-- the same at statement level: a failing assignment -/
theorem handler_sees_err_assign (fuel : Nat) (P : Stmt) (gd : Nat) (x : Nat) (t : Ty) (e : Ast.Expr) (p q : Pos) (c : Nat)
    (s : ESt) (L : Nat) (hm : s.mode = .goto L) (hi : s.inH = false) (he : evalTo s.st.env e t = .err c q)
    (s' : ESt) (o : Outcome) (hH : exec fuel P gd P (.seek L) (handlerStart s c) = (s', o)) :
    exec (fuel + 2) P gd (.assign x t e p) .run s =
      match dispOfHandler o with
      | .again => exec (fuel + 1) P gd (.assign x t e p) .run s'
      | .next => (s', .normal)
      | .out o' => (s', o') := by
  have hr := (handler_sees_err fuel P gd c q s L hm hi).1
  rw [hH] at hr
  simp only [exec, he, hr]
  cases dispOfHandler o <;> rfl

/-! ## RESUME -/

/-- The handler ended with RESUME: the failing unit goes `again`, in the state the handler left. -/
theorem raise_resumed_again (fuel : Nat) (P : Stmt) (gd c : Nat) (p : Pos) (s s' : ESt) (L : Nat)
    (hm : s.mode = .goto L) (hi : s.inH = false)
    (hH : exec fuel P gd P (.seek L) (handlerStart s c) = (s', .resumed .again)) :
    raise (fuel + 1) P gd c p s = (s', .again) := by
  rw [(handler_sees_err fuel P gd c p s L hm hi).1, hH]; rfl

theorem raise_resumed_next (fuel : Nat) (P : Stmt) (gd c : Nat) (p : Pos) (s s' : ESt) (L : Nat)
    (hm : s.mode = .goto L) (hi : s.inH = false)
    (hH : exec fuel P gd P (.seek L) (handlerStart s c) = (s', .resumed .next)) :
    raise (fuel + 1) P gd c p s = (s', .next) := by
  rw [(handler_sees_err fuel P gd c p s L hm hi).1, hH]; rfl

theorem raise_resumed_label (fuel : Nat) (P : Stmt) (gd c : Nat) (p : Pos) (s s' : ESt) (L L' : Nat)
    (hm : s.mode = .goto L) (hi : s.inH = false)
    (hH : exec fuel P gd P (.seek L) (handlerStart s c) = (s', .resumed (.label L'))) :
    raise (fuel + 1) P gd c p s = (s', .out (.jump L')) := by
  rw [(handler_sees_err fuel P gd c p s L hm hi).1, hH]; rfl

/-- RESUME re-executes the failing statement (an assignment) in the state the handler left. -/
theorem resume_reexecutes_statement (fuel : Nat) (P : Stmt) (gd : Nat) (x : Nat) (t : Ty) (e : Ast.Expr) (p q : Pos) (c : Nat)
    (s s' : ESt) (L : Nat) (hm : s.mode = .goto L) (hi : s.inH = false) (he : evalTo s.st.env e t = .err c q)
    (hH : exec fuel P gd P (.seek L) (handlerStart s c) = (s', .resumed .again)) :
    exec (fuel + 2) P gd (.assign x t e p) .run s = exec (fuel + 1) P gd (.assign x t e p) .run s' := by
  simp only [exec, he, raise_resumed_again fuel P gd c q s s' L hm hi hH]

/-- … a PRINT statement: what was printed before the failing item stays printed, then the whole statement runs again -/
theorem resume_reexecutes_print (fuel : Nat) (P : Stmt) (gd : Nat) (items : List PrintItem) (p q : Pos) (c : Nat)
    (s s' : ESt) (st1 : RbModel.Ref.St) (L : Nat) (hm : s.mode = .goto L) (hi : s.inH = false)
    (he : JmpL.Ref.printItems s.st items = (st1, .error c q))
    (hH : exec fuel P gd P (.seek L) (handlerStart { s with st := st1 } c) = (s', .resumed .again)) :
    exec (fuel + 2) P gd (.print items p) .run s = exec (fuel + 1) P gd (.print items p) .run s' := by
  have := raise_resumed_again fuel P gd c q { s with st := st1 } s' L hm hi hH
  simp only [exec, he, this]

/-- … a condition (IF, and through `condUnit` WHILE / DO): it is evaluated again -/
theorem resume_reexecutes_cond (fuel : Nat) (P : Stmt) (gd : Nat) (cnd : Ast.Expr) (skipAs : Bool) (q : Pos) (c : Nat)
    (s s' : ESt) (L : Nat) (hm : s.mode = .goto L) (hi : s.inH = false) (he : evalCond s.st.env cnd = .error (.err c q))
    (hH : exec fuel P gd P (.seek L) (handlerStart s c) = (s', .resumed .again)) :
    condUnit (fuel + 2) P gd cnd skipAs s = (s', .again) := by
  simp only [condUnit, he, raise_resumed_again fuel P gd c q s s' L hm hi hH]

theorem resume_reexecutes_if (fuel : Nat) (P : Stmt) (gd : Nat) (cnd : Ast.Expr) (thn els : Stmt) (p q : Pos) (c : Nat)
    (s s' : ESt) (L : Nat) (hm : s.mode = .goto L) (hi : s.inH = false) (he : evalCond s.st.env cnd = .error (.err c q))
    (hH : exec fuel P gd P (.seek L) (handlerStart s c) = (s', .resumed .again)) :
    exec (fuel + 3) P gd (.ifs cnd thn els p) .run s =
      match exec (fuel + 2) P gd (.ifs cnd thn els p) .run s' with
      | (s'', .jump L') =>
        if (Stmt.ifs cnd thn els p).hasLabel L' then exec (fuel + 2) P gd (.ifs cnd thn els p) (.seek L') s'' else (s'', .jump L')
      | r => r := by
  have := resume_reexecutes_cond fuel P gd cnd true q c s s' L hm hi he hH
  rw [exec]
  simp only [Mode.enters, this, if_true]
  rfl

/-! ## RESUME NEXT -/

/-- RESUME NEXT: a simple statement (an assignment) ends normally in the state the handler left … -/
theorem resume_next_continues_after (fuel : Nat) (P : Stmt) (gd : Nat) (x : Nat) (t : Ty) (e : Ast.Expr) (p q : Pos) (c : Nat)
    (s s' : ESt) (L : Nat) (hm : s.mode = .goto L) (hi : s.inH = false) (he : evalTo s.st.env e t = .err c q)
    (hH : exec fuel P gd P (.seek L) (handlerStart s c) = (s', .resumed .next)) :
    exec (fuel + 2) P gd (.assign x t e p) .run s = (s', .normal) := by
  simp only [exec, he, raise_resumed_next fuel P gd c q s s' L hm hi hH]

/-- … so the statement after it runs next, in that state (whatever `b` is: the rest of the block) -/
theorem resume_next_then_seq (fuel : Nat) (P : Stmt) (gd : Nat) (x : Nat) (t : Ty) (e : Ast.Expr) (p q : Pos) (c : Nat) (b : Stmt)
    (s s' : ESt) (L : Nat) (hm : s.mode = .goto L) (hi : s.inH = false) (he : evalTo s.st.env e t = .err c q)
    (hH : exec fuel P gd P (.seek L) (handlerStart s c) = (s', .resumed .next)) :
    exec (fuel + 3) P gd (.seq (.assign x t e p) b) .run s =
      match exec (fuel + 2) P gd b .run s' with
      | (s'', .jump L') =>
        if (Stmt.seq (.assign x t e p) b).hasLabel L' then exec (fuel + 2) P gd (.seq (.assign x t e p) b) (.seek L') s''
        else (s'', .jump L')
      | r => r := by
  have := resume_next_continues_after fuel P gd x t e p q c s s' L hm hi he hH
  rw [exec]
  simp only [Mode.enters, this, if_true]
  rfl

/-- the same in ON ERROR RESUME NEXT mode: no handler runs, the statement is skipped -/
theorem on_error_resume_next_skips (fuel : Nat) (P : Stmt) (gd : Nat) (x : Nat) (t : Ty) (e : Ast.Expr) (p q : Pos) (c : Nat)
    (s : ESt) (hm : s.mode = .resumeNext) (hi : s.inH = false) (he : evalTo s.st.env e t = .err c q) :
    exec (fuel + 2) P gd (.assign x t e p) .run s = (s, .normal) := by
  simp only [exec, he, raise, hm, hi]
  rfl

/-- `next(u)` of a condition: the decision it counts as (`skipAs`) -/
theorem resume_next_cond (fuel : Nat) (P : Stmt) (gd : Nat) (cnd : Ast.Expr) (skipAs : Bool) (q : Pos) (c : Nat)
    (s s' : ESt) (L : Nat) (hm : s.mode = .goto L) (hi : s.inH = false) (he : evalCond s.st.env cnd = .error (.err c q))
    (hH : exec fuel P gd P (.seek L) (handlerStart s c) = (s', .resumed .next)) :
    condUnit (fuel + 2) P gd cnd skipAs s = (s', .go skipAs) := by
  simp only [condUnit, he, raise_resumed_next fuel P gd c q s s' L hm hi hH]

/-- RESUME NEXT after a failed IF (ELSEIF) condition enters the block -/
theorem resume_next_if_enters_block (fuel : Nat) (P : Stmt) (gd : Nat) (cnd : Ast.Expr) (thn els : Stmt) (p q : Pos) (c : Nat)
    (s s' : ESt) (L : Nat) (hm : s.mode = .goto L) (hi : s.inH = false) (he : evalCond s.st.env cnd = .error (.err c q))
    (hH : exec fuel P gd P (.seek L) (handlerStart s c) = (s', .resumed .next)) :
    exec (fuel + 3) P gd (.ifs cnd thn els p) .run s =
      match exec (fuel + 2) P gd thn .run s' with
      | (s'', .jump L') =>
        if (Stmt.ifs cnd thn els p).hasLabel L' then exec (fuel + 2) P gd (.ifs cnd thn els p) (.seek L') s'' else (s'', .jump L')
      | r => r := by
  have := resume_next_cond fuel P gd cnd true q c s s' L hm hi he hH
  rw [exec]
  simp only [Mode.enters, this, if_true]
  rfl

/-- RESUME NEXT after a failed WHILE condition enters the body -/
theorem resume_next_while_enters_body (fuel : Nat) (P : Stmt) (gd : Nat) (cnd : Ast.Expr) (body : Stmt) (p q : Pos) (c : Nat)
    (s s' : ESt) (L : Nat) (hm : s.mode = .goto L) (hi : s.inH = false) (he : evalCond s.st.env cnd = .error (.err c q))
    (hH : exec fuel P gd P (.seek L) (handlerStart s c) = (s', .resumed .next)) :
    exec (fuel + 3) P gd (.while cnd body p) .run s =
      match exec (fuel + 2) P gd body .run s' with
      | (s'', .normal) => exec (fuel + 2) P gd (.while cnd body p) .run s''
      | (s'', .jump L') => if body.hasLabel L' then exec (fuel + 2) P gd (.while cnd body p) (.seek L') s'' else (s'', .jump L')
      | r => r := by
  have := resume_next_cond fuel P gd cnd true q c s s' L hm hi he hH
  rw [exec]
  simp only [Mode.enters, this, if_true]
  rfl

/-- RESUME NEXT after a failed `LOOP WHILE / UNTIL` condition leaves the loop -/
theorem resume_next_loop_cond_leaves (fuel : Nat) (P : Stmt) (gd : Nat) (cnd : Ast.Expr) (until_ : Bool) (body : Stmt) (p q : Pos)
    (c : Nat) (s s' : ESt) (L : Nat) (hm : s.mode = .goto L) (hi : s.inH = false)
    (he : evalCond s.st.env cnd = .error (.err c q))
    (hH : exec fuel P gd P (.seek L) (handlerStart s c) = (s', .resumed .next)) :
    doBottom (fuel + 3) P gd cnd until_ body p s = (s', .normal) := by
  have := resume_next_cond fuel P gd cnd until_ q c s s' L hm hi he hH
  simp only [doBottom, this]
  simp

/-- RESUME NEXT after a failed SELECT CASE selector continues after END SELECT -/
theorem resume_next_select_leaves (fuel : Nat) (P : Stmt) (gd : Nat) (e : Ast.Expr) (cases : Cases) (p q : Pos) (c : Nat)
    (s s' : ESt) (L : Nat) (hm : s.mode = .goto L) (hi : s.inH = false) (he : evalE s.st.env e = .error (.err c q))
    (hH : exec fuel P gd P (.seek L) (handlerStart s c) = (s', .resumed .next)) :
    exec (fuel + 2) P gd (.select e cases p) .run s = (s', .normal) := by
  simp only [exec, he, raise_resumed_next fuel P gd c q s s' L hm hi hH]

/-- RESUME NEXT after a failed FOR bound or step (a zero step included) continues after NEXT; the counter keeps what the
header had stored before it failed -/
theorem resume_next_for_header_leaves (fuel : Nat) (P : Stmt) (gd : Nat) (x : Nat) (t : Ty) (lo hi : Ast.Expr)
    (step : Option Ast.Expr) (body : Stmt) (p q : Pos) (c : Nat) (s s' : ESt) (st1 : RbModel.Ref.St) (L : Nat)
    (hm : s.mode = .goto L) (hiH : s.inH = false) (he : forHeader x t lo hi step p s.st = (st1, .error (.err c q)))
    (hH : exec fuel P gd P (.seek L) (handlerStart { s with st := st1 } c) = (s', .resumed .next)) :
    exec (fuel + 2) P gd (.forLoop x t lo hi step body p) .run s = (s', .normal) := by
  have := raise_resumed_next fuel P gd c q { s with st := st1 } s' L hm hiH hH
  simp only [exec, he, this]

/-- RESUME NEXT after a failed CASE item enters that CASE block -/
theorem resume_next_case_enters_block (fuel : Nat) (P : Stmt) (gd : Nat) (p q : Pos) (subject : Val) (conds : List CaseExpr)
    (body : Stmt) (rest : Cases) (c : Nat) (s s' : ESt) (L : Nat) (hm : s.mode = .goto L) (hi : s.inH = false)
    (he : anyMatches s.st.env p subject conds = .error (.err c q))
    (hH : exec fuel P gd P (.seek L) (handlerStart s c) = (s', .resumed .next)) :
    execCases (fuel + 2) P gd p subject (.case conds body rest) s = exec (fuel + 1) P gd body .run s' := by
  simp only [execCases, he, raise_resumed_next fuel P gd c q s s' L hm hi hH]

/-! ## RESUME label -/

/-- RESUME L': the failing statement answers `jump L'` in the state the handler left -/
theorem resume_label_jumps (fuel : Nat) (P : Stmt) (gd : Nat) (x : Nat) (t : Ty) (e : Ast.Expr) (p q : Pos) (c : Nat)
    (s s' : ESt) (L L' : Nat) (hm : s.mode = .goto L) (hi : s.inH = false) (he : evalTo s.st.env e t = .err c q)
    (hH : exec fuel P gd P (.seek L) (handlerStart s c) = (s', .resumed (.label L'))) :
    exec (fuel + 2) P gd (.assign x t e p) .run s = (s', .jump L') := by
  simp only [exec, he, raise_resumed_label fuel P gd c q s s' L L' hm hi hH]

/-- a FOR whose body answers `jump L'` with `L'` not in the body is left at once: no increment, no further round; the state
(the counter included) is the one the jump came with -/
theorem for_passes_jump (fuel : Nat) (P : Stmt) (gd : Nat) (x : Nat) (t : Ty) (h sv : Val) (up : Bool) (body : Stmt) (p : Pos)
    (s s' : ESt) (L' : Nat) (hnot : body.hasLabel L' = false)
    (htest : JmpL.Ref.relTest p (if up then .lessOrEqual else .greaterOrEqual) (s.st.env.getD x (RbModel.Ref.zeroOf t)) h = .ok true)
    (hb : exec fuel P gd body .run s = (s', .jump L')) :
    forIter (fuel + 1) P gd x t h sv up body p .run false s = (s', .jump L') := by
  simp only [forIter, htest, hb, hnot]
  simp

/-- a WHILE whose body answers `jump L'` with `L'` not in the body is left at once -/
theorem while_passes_jump (fuel : Nat) (P : Stmt) (gd : Nat) (cnd : Ast.Expr) (body : Stmt) (p : Pos)
    (s s' : ESt) (L' : Nat) (hnot : body.hasLabel L' = false) (hc : evalCond s.st.env cnd = .ok true)
    (hb : exec (fuel + 1) P gd body .run s = (s', .jump L')) :
    exec (fuel + 2) P gd (.while cnd body p) .run s = (s', .jump L') := by
  simp only [exec, Mode.enters, condUnit, hc, hb, hnot, if_true]
  simp

/-- RESUME label leaves the loops: an assignment that fails in the body of a FOR, handled by a handler that ends with
`RESUME L'` where `L'` is not in that body, ends the FOR with `jump L'`; the state is the handler's, the counter is not
incremented.  (The enclosing constructs go on the same way — `for_passes_jump`, `while_passes_jump` — until one contains
`L'`, which continues at the label.) -/
theorem resume_label_leaves_loops (fuel : Nat) (P : Stmt) (gd : Nat) (x : Nat) (t : Ty) (h sv : Val) (up : Bool) (pf : Pos)
    (y : Nat) (ty : Ty) (e : Ast.Expr) (p q : Pos) (c : Nat) (s s' : ESt) (L L' : Nat)
    (hm : s.mode = .goto L) (hi : s.inH = false) (he : evalTo s.st.env e ty = .err c q)
    (htest : JmpL.Ref.relTest pf (if up then .lessOrEqual else .greaterOrEqual) (s.st.env.getD x (RbModel.Ref.zeroOf t)) h = .ok true)
    (hH : exec fuel P gd P (.seek L) (handlerStart s c) = (s', .resumed (.label L'))) :
    forIter (fuel + 3) P gd x t h sv up (.assign y ty e p) pf .run false s = (s', .jump L') :=
  for_passes_jump (fuel + 2) P gd x t h sv up (.assign y ty e p) pf s s' L' rfl htest
    (resume_label_jumps fuel P gd y ty e p q c s s' L L' hm hi he hH)

/-! ## no handler -/

/-- With no handler (or after ON ERROR GOTO 0, `goto0_clears_handler`) a failing unit ends the run with the error's code and
position, in the state it failed in. -/
theorem unhandled_error_reported_with_position (fuel : Nat) (P : Stmt) (gd : Nat) (x : Nat) (t : Ty) (e : Ast.Expr) (p q : Pos)
    (c : Nat) (s : ESt) (hm : s.mode = .none) (he : evalTo s.st.env e t = .err c q) :
    exec (fuel + 2) P gd (.assign x t e p) .run s = (s, .error c q) := by
  simp only [exec, he, raise, hm]

theorem raise_unhandled (fuel : Nat) (P : Stmt) (gd c : Nat) (p : Pos) (s : ESt) (hm : s.mode = .none) :
    raise (fuel + 1) P gd c p s = (s, .out (.error c p)) := by
  simp only [raise, hm]

theorem goto0_clears_handler (fuel : Nat) (P : Stmt) (gd : Nat) (s : ESt) :
    exec (fuel + 1) P gd .onErrorGoto0 .run s = ({ s with mode := .none }, .normal) := by
  simp only [exec]

/-- ON ERROR GOTO 0, then a failing statement: the error ends the program, whatever handler was active before -/
theorem goto0_then_error (fuel : Nat) (P : Stmt) (gd : Nat) (x : Nat) (t : Ty) (e : Ast.Expr) (p q : Pos) (c : Nat) (s : ESt)
    (he : evalTo s.st.env e t = .err c q) :
    exec (fuel + 3) P gd (.seq .onErrorGoto0 (.assign x t e p)) .run s = ({ s with mode := .none }, .error c q) := by
  have h1 := goto0_clears_handler (fuel + 1) P gd s
  have h2 := unhandled_error_reported_with_position fuel P gd x t e p q c { s with mode := .none } rfl he
  simp only [exec, Mode.enters, if_true] at h1 h2 ⊢
  simp only [he, raise]

/-- an unhandled error that reaches the top of the program is the outcome of the run -/
theorem run_reports_error (fuel : Nat) (prog : Program) (s : ESt) (c : Nat) (q : Pos)
    (h : exec fuel prog.body 0 prog.body .run (ESt.init prog) = (s, .error c q)) : run fuel prog = (s, .error c q) := by
  simp only [run, h]

/-! ## the RESUME statements themselves -/

/-- Inside a handler RESUME / RESUME NEXT / RESUME label change nothing but the handler flag and ERR, which they clear: the
variables, the output, the DATA pointer and the handler mode are as the handler left them. -/
theorem variables_as_handler_left_them (fuel : Nat) (P : Stmt) (gd : Nat) (p : Pos) (L : Nat) (s : ESt) (hi : s.inH = true) :
    exec (fuel + 1) P gd (.resume p) .run s = ({ s with inH := false, err := none }, .resumed .again) ∧
    exec (fuel + 1) P gd (.resumeNext p) .run s = ({ s with inH := false, err := none }, .resumed .next) ∧
    exec (fuel + 1) P gd (.resumeLabel L p) .run s = ({ s with inH := false, err := none }, .resumed (.label L)) := by
  simp only [exec, hi, if_true, and_self]

theorem resume_keeps_variables (fuel : Nat) (P : Stmt) (gd : Nat) (p : Pos) (s : ESt) (hi : s.inH = true) :
    (exec (fuel + 1) P gd (.resume p) .run s).1.st = s.st ∧ (exec (fuel + 1) P gd (.resume p) .run s).1.err = none ∧
    (exec (fuel + 1) P gd (.resume p) .run s).1.mode = s.mode := by
  rw [(variables_as_handler_left_them fuel P gd p 0 s hi).1]
  exact ⟨rfl, rfl, rfl⟩

/-- RESUME, RESUME NEXT and RESUME label outside a handler fail with error 20 at their position (here with no handler set:
the run ends; with a handler mode they are units like any other). -/
theorem resume_without_error_is_20 (fuel : Nat) (P : Stmt) (gd : Nat) (p : Pos) (L : Nat) (s : ESt) (hi : s.inH = false)
    (hm : s.mode = .none) :
    exec (fuel + 2) P gd (.resume p) .run s = (s, .error 20 p) ∧
    exec (fuel + 2) P gd (.resumeNext p) .run s = (s, .error 20 p) ∧
    exec (fuel + 2) P gd (.resumeLabel L p) .run s = (s, .error 20 p) := by
  simp only [exec, hi, raise, hm, codeResumeWithoutError]
  simp

/-- … and under ON ERROR GOTO they start the handler with ERR = 20 -/
theorem resume_without_error_raises_20 (fuel : Nat) (P : Stmt) (gd : Nat) (p : Pos) (s : ESt) (hi : s.inH = false) :
    exec (fuel + 2) P gd (.resume p) .run s =
      match raise (fuel + 1) P gd 20 p s with
      | (s', .again) => exec (fuel + 1) P gd (.resume p) .run s'
      | (s', .next) => (s', .normal)
      | (s', .out o) => (s', o) := by
  rw [exec]
  simp only [hi, codeResumeWithoutError]
  rfl

/-! ## non-vacuity: a concrete program

```
ON ERROR GOTO H          ' label 0
b% = 32767               ' slot 0 = v%, slot 1 = b%
v% = b% + 1              ' Overflow, code 6
END
H: b% = 1
<r>                      ' RESUME | RESUME NEXT | RESUME L1
L1:                      ' label 1 (behind the handler: the text ends there)
```
-/

private def pz : Pos := ⟨1, 1⟩

private def setB : Stmt := .assign 1 .int (.lit (.int 32767) pz) pz

private def failing : Stmt :=
  .assign 0 .int (.bin .plus (.var 1 .int pz) (.lit (.int 1) pz) .int pz) pz

private def demoBody (r : Stmt) : Stmt :=
  .seq (.onErrorGoto 0) (.seq setB (.seq failing (.seq (.end_ pz) (.seq (.label 0)
    (.seq (.assign 1 .int (.lit (.int 1) pz) pz) (.seq r (.seq (.label 1) .skip)))))))

private def demo (r : Stmt) : Program := ⟨[.int, .int], [], demoBody r⟩

/-- the state in which the assignment fails: the handler is set, b% = 32767 -/
private def s0 : ESt := ({ ESt.init (demo .skip) with mode := .goto 0 } : ESt).set 1 (.int 32767)

/-- the hypotheses of `handler_sees_err` / `resume_reexecutes_statement` hold at the failing assignment of the demo program
(overflow, code 6), the handler ends with RESUME, and the statement then succeeds: v% = 2 -/
example : evalTo s0.st.env (.bin .plus (.var 1 .int pz) (.lit (.int 1) pz) .int pz) .int = .err 6 pz ∧
    s0.mode = .goto 0 ∧ s0.inH = false ∧
    (exec 20 (demoBody (.resume pz)) 0 (demoBody (.resume pz)) (.seek 0) (handlerStart s0 6)).2 = .resumed .again ∧
    (exec 20 (demoBody (.resume pz)) 0 (demoBody (.resume pz)) (.seek 0) (handlerStart s0 6)).1.st.env = [.int 0, .int 1] ∧
    (exec 20 (demoBody (.resume pz)) 0 (demoBody (.resume pz)) (.seek 0) (handlerStart s0 6)).1.err = none ∧
    (run 30 (demo (.resume pz))).2 = .halted ∧ (run 30 (demo (.resume pz))).1.st.env = [.int 2, .int 1] := by
  refine ⟨rfl, rfl, rfl, by decide +kernel, by decide +kernel, by decide +kernel, by decide +kernel, by decide +kernel⟩

/-- RESUME NEXT: the assignment is skipped (v% stays 0), the program goes on to END -/
example : (exec 20 (demoBody (.resumeNext pz)) 0 (demoBody (.resumeNext pz)) (.seek 0) (handlerStart s0 6)).2 = .resumed .next ∧
    (run 30 (demo (.resumeNext pz))).2 = .halted ∧ (run 30 (demo (.resumeNext pz))).1.st.env = [.int 0, .int 1] := by
  refine ⟨by decide +kernel, by decide +kernel, by decide +kernel⟩

/-- RESUME L1: the run continues at the label (here: the end of the text), variables as the handler left them -/
example : (exec 20 (demoBody (.resumeLabel 1 pz)) 0 (demoBody (.resumeLabel 1 pz)) (.seek 0) (handlerStart s0 6)).2 =
      .resumed (.label 1) ∧
    (run 30 (demo (.resumeLabel 1 pz))).2 = .normal ∧ (run 30 (demo (.resumeLabel 1 pz))).1.st.env = [.int 0, .int 1] := by
  refine ⟨by decide +kernel, by decide +kernel, by decide +kernel⟩

/-- no handler: the error is the outcome, with its position; RESUME without error: 20 -/
example : (run 30 ⟨[.int, .int], [], .seq setB failing⟩).2 = .error 6 pz ∧
    (run 30 ⟨[], [], .resume ⟨7, 3⟩⟩).2 = .error 20 ⟨7, 3⟩ := by
  refine ⟨by decide +kernel, by decide +kernel⟩

private def loopDemo : Program := ⟨[.int, .int, .int], [],
  .seq (.onErrorGoto 0) (.seq setB (.seq (.forLoop 2 .int (.lit (.int 1) pz) (.lit (.int 3) pz) none failing pz)
    (.seq (.end_ pz) (.seq (.label 0) (.seq (.resumeLabel 1 pz) (.seq (.label 1) .skip))))))⟩

/-- `resume_label_leaves_loops` is not vacuous: FOR i% = 1 TO 3 : v% = b% + 1 : NEXT with a handler that ends in RESUME L1
leaves the loop in its first round: the counter (slot 2) is still 1 -/
example : (run 40 loopDemo).2 = .normal ∧ (run 40 loopDemo).1.st.env = [.int 0, .int 32767, .int 1] := by
  refine ⟨by decide +kernel, by decide +kernel⟩

end RbThm.ErrLProps
