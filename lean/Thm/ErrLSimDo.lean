import Thm.ErrLSimWhile
/-!
Error layer (property C05), simulation part: the four `DO` forms (port of `JmpLSim.case_do`).

* Test at the top (`DO WHILE c … LOOP`, `DO UNTIL c … LOOP`): as WHILE — the condition is the resume unit `[off, bodyOff)`
  (`marks_doTop`); RESUME NEXT after a failed condition enters the body (the condition counts as `!until`).
* Test at the bottom (`DO … LOOP WHILE c`, `DO … LOOP UNTIL c`): the `do` label is a unit of its own, the body is followed by
  the first instruction of the condition, and the condition unit is followed by **the entry that follows the loop**
  (`marks_doBottom`): RESUME NEXT after a failed condition leaves the loop — the run is at `nx`, the alternative normal exit
  of the statement (the condition counts as `until`); RESUME runs the test again (`Ref.doBottom`, recursion on the fuel).
-/
namespace RbThm.ErrLSim
set_option linter.unusedVariables false
set_option linter.unusedSimpArgs false
open RbModel RbModel.Num RbModel.ErrL RbModel.ErrL.Compile RbModel.ErrL.Vm
open RbModel.JmpL.Compile (CInstr Code labelName compileExpr compileExprTo storeVar loadVar compileItems compileConds
  sizeCaseExpr sizeItems sizeConds Dp lookupNat lookupDepth stepSuffix maxPos)
open RbModel.JmpL.Vm (Vm truncTop)
open RbModel.Ast (Pos PrintItem CaseExpr)
open RbModel.Ref (St)
open RbModel.ErrL.Ref
open RbThm.ErrLLen
open RbThm.C01Sim (Typed SlotsBelow ExprWt NumericAt NumericCond ItemsSlots CaseSlots CondsSlots)

theorem dl_lift_append (a b : Code) : lift (a ++ b) = lift a ++ lift b := by simp [lift]

/-- a `Label` instruction, as a run to the next address -/
theorem dl_label_to {P : Prog} (hP : ProgOk P) {x : EVm} {name : String} {p : Pos} {t : Nat}
    (h : P.code[x.b.pc]? = some (.base (.label name), p)) (ht : x.b.pc + 1 = t) :
    Steps P x { x with b := { x.b with pc := t } } := by
  subst ht
  exact Steps.one (wl_step_label hP h)

/-- a `Jump` instruction, as a run to its target -/
theorem dl_jump_to {P : Prog} (hP : ProgOk P) {x : EVm} {a : Nat} {p : Pos}
    (h : P.code[x.b.pc]? = some (.base (.jump a), p)) : Steps P x { x with b := { x.b with pc := a } } :=
  Steps.one (wl_step_jump hP h)

/-- already there -/
theorem dl_stay {P : Prog} {x : EVm} {t : Nat} (h : x.b.pc = t) : Steps P x { x with b := { x.b with pc := t } } := by
  subst h
  exact Steps.refl x

theorem dl_quiet_pc (x : EVm) (t : Nat) : Quiet x { x with b := { x.b with pc := t } } := ⟨rfl, rfl, rfl, rfl, rfl⟩

/-! ### test at the top -/

/-- `DO WHILE / UNTIL c … LOOP` entered from its first instruction; what differs between the two forms (how the run gets from
the `JumpIfFalse` into the body and out of the loop) is a hypothesis -/
theorem dl_top_run {C : Ctx} (hC : C.Ok) {fuel : Nat} (ih : StmtIHle C fuel) {c : Ast.Expr} {u : Bool} {body : SStmt}
    {p pj : Pos} {sfx nm : String} {d e off bodyOff nx vb gd tgt : Nat}
    (hcl : CodeAt C.prog.code off (compileStmt C.env sfx d e off (.doLoop c true u body p)))
    (hll : LabAt C.env d e off (.doLoop c true u body p)) (hwl : Wf C.sl C.env.dp C.rl d e (.doLoop c true u body p))
    (hml : MarksAt C.prog.marks (marksStmt C.env.dp d e off (.doLoop c true u body p)) nx)
    (hnxl : off + sizeStmt C.env.dp d e (.doLoop c true u body p) ≤ nx)
    (hcb : CodeAt C.prog.code bodyOff (compileStmt C.env sfx d e bodyOff body)) (hlb : LabAt C.env d e bodyOff body)
    (hmb : MarksAt C.prog.marks (marksStmt C.env.dp d e bodyOff body) (bodyOff + sizeStmt C.env.dp d e body))
    (hjmp : C.prog.code[bodyOff + sizeStmt C.env.dp d e body]? = some (.base (.jump off), p))
    (hlab : C.prog.code[off]? = some (.base (.label nm), p))
    (hcc : CodeAt C.prog.code (off + 1) (lift (compileExpr c ++ [(CInstr.jumpIfFalse tgt, pj)])))
    (hu : MarksAt C.prog.marks [off] bodyOff) (hhi : off + 1 + (compileExpr c).length + 1 ≤ bodyOff)
    (henter : ∀ τ : EVm, τ.b.pc = (if u then tgt else off + 1 + (compileExpr c).length + 1) →
      Steps C.prog τ { τ with b := { τ.b with pc := bodyOff } })
    (hexit : ∀ τ : EVm, τ.b.pc = (if u then off + 1 + (compileExpr c).length + 1 else tgt) →
      Steps C.prog τ { τ with b := { τ.b with pc := off + sizeStmt C.env.dp d e (.doLoop c true u body p) } })
    (σ : EVm) (s : ESt) (hpc : σ.b.pc = off) (hr : ERel C.sl C.env s σ) (hi : Inv C d e vb gd σ) :
    StmtSpec C d e vb (off + sizeStmt C.env.dp d e (.doLoop c true u body p)) nx σ
      (exec (fuel + 1) C.P gd (Stmt.doLoop c true u (desugar body) p) .run s) := by
  obtain ⟨hsc, hnc, hwb⟩ := id hwl
  have hbody := fun ss τ0 h1 h2 h3 =>
    wl_body_then_loop (vb := vb) (gd := gd) hC ih.self hcl hll hwl hml hnxl hcb hlb hwb hmb hjmp .run ss τ0 h1 h2 h3
  simp only [desugar] at hbody
  have s1 : step C.prog σ = .next { σ with b := JmpL.Vm.advance σ.b } :=
    wl_step_label hC.pok (by rw [hpc]; exact hlab)
  have hq1 : Quiet σ { σ with b := JmpL.Vm.advance σ.b } := ⟨rfl, rfl, rfl, rfl, rfl⟩
  have hr1 : ERel C.sl C.env s { σ with b := JmpL.Vm.advance σ.b } := hr.same hr.base.advance
  have hi1 : Inv C d e vb gd { σ with b := JmpL.Vm.advance σ.b } := hq1.inv hi
  have hcond := cond_unit hC ih (skipAs := !u) hcc hu (Nat.le_succ off) hhi hsc hnc
    (show σ.b.pc + 1 = off + 1 by rw [hpc]) hr1 hi1
  refine StmtSpec.of_steps (Steps.one s1) hq1 ?_
  simp only [exec, Mode.enters, if_true]
  generalize hcu : condUnit fuel C.P gd c (!u) s = rc at hcond ⊢
  obtain ⟨s1', dec⟩ := rc
  cases dec with
  | go b =>
    obtain ⟨τ, st, hrτ, a1, a2, a3, a4, a5, hp⟩ := hcond
    simp only
    by_cases hb : (b != u) = true
    · -- into the body
      simp only [hb, if_true]
      have hin : Steps C.prog τ { τ with b := { τ.b with pc := bodyOff } } := by
        rcases hp with h | h
        · refine henter τ ?_
          rw [h]
          cases b <;> cases u <;> simp at hb ⊢
        · exact dl_stay h.2.1
      have hq := dl_quiet_pc τ bodyOff
      have hsp := hbody s1' { τ with b := { τ.b with pc := bodyOff } } rfl (hrτ.same (hrτ.base.setPc _))
        (hq.inv (inv_after hi1 a1 a2 a4 a5))
      exact StmtSpec.after st a1 a2 a3 a4 a5 (StmtSpec.of_steps hin hq hsp)
    · -- out of the loop
      simp only [hb]
      have hbu : b = u := by cases b <;> cases u <;> simp at hb ⊢
      have hp' : τ.b.pc = (if u then off + 1 + (compileExpr c).length + 1 else tgt) := by
        rcases hp with h | h
        · rw [h, hbu]
        · exact absurd h.1 (by rw [hbu]; cases u <;> simp)
      have hout := hexit τ hp'
      simp only [StmtSpec]
      exact ⟨_, st.trans hout, .inl rfl, hrτ.same (hrτ.base.setPc _), a1, a2, a3, a4, a5⟩
  | again =>
    obtain ⟨τ, st, hp, hrτ, a1, a2, a3, a4, a5⟩ := hcond
    have := ih.self (.doLoop c true u body p) sfx d e off nx vb gd .run τ s1' hcl hll hwl hml hnxl hp hrτ
      (inv_after hi1 a1 a2 a4 a5)
    simp only [desugar] at this
    simp only
    exact StmtSpec.after st a1 a2 a3 a4 a5 this
  | out o =>
    obtain ⟨n1, n2, n3, n4, n5, hsp⟩ := hcond
    cases o with
    | normal => exact absurd rfl n1
    | ret q => exact absurd rfl (n2 q)
    | resumed k => exact absurd rfl (n3 k)
    | notHere => exact absurd rfl n4
    | jump L =>
      simp only
      by_cases hL : (desugar body).hasLabel L = true
      · simp only [hL, if_true]
        have hLw : L ∈ (SStmt.doLoop c true u body p).labels := by
          simpa only [SStmt.labels] using (hasLabel_iff hwb L).mp hL
        have := restart_seek ih.self hcl hll hwl hml hnxl hi1 (hsp 0 0) (n5 L rfl) hLw
        simpa only [desugar] using this
      · simp only [hL]
        exact hsp _ _
    | halted => exact hsp _ _
    | error cd q => exact hsp _ _
    | inexact => trivial
    | outOfFuel => trivial
    | illFormed => trivial
    | unspec => trivial

theorem case_do_top (C : Ctx) (hC : C.Ok) (fuel : Nat) (ih : StmtIHle C fuel) (c : Ast.Expr) (u : Bool) (body : SStmt)
    (p : Pos) (sfx : String) (d e off nx vb gd : Nat) (m : Mode) (σ : EVm) (s : ESt)
    (hc : CodeAt C.prog.code off (compileStmt C.env sfx d e off (.doLoop c true u body p)))
    (hl : LabAt C.env d e off (.doLoop c true u body p)) (hw : Wf C.sl C.env.dp C.rl d e (.doLoop c true u body p))
    (hm : MarksAt C.prog.marks (marksStmt C.env.dp d e off (.doLoop c true u body p)) nx)
    (hnx : off + sizeStmt C.env.dp d e (.doLoop c true u body p) ≤ nx)
    (hen : Entry C.env off (.doLoop c true u body p) m σ) (hr : ERel C.sl C.env s σ) (hi : Inv C d e vb gd σ) :
    StmtSpec C d e vb (off + sizeStmt C.env.dp d e (.doLoop c true u body p)) nx σ
      (exec (fuel + 1) C.P gd (desugar (.doLoop c true u body p)) m s) := by
  have hcw := hc
  have hw0 := hw
  obtain ⟨hsc, hnc, hwb⟩ := hw
  obtain ⟨hu, hmb, _⟩ := marks_doTop hm
  have hlb := hl.doTop
  have hent : m.enters (desugar (.doLoop c true u body p)) = true := by
    cases m with
    | run => rfl
    | seek L => exact (hasLabel_iff hw0 L).mpr hen.1
  simp only [compileStmt, if_true] at hc
  -- the pieces of the code that do not depend on the form
  have hhead := hc.append_left.append_left
  rw [List.append_assoc, List.singleton_append] at hhead
  have hlab : C.prog.code[off]? = some (.base (.label (labelName "do" p sfx)), p) := wl_lift_head hhead
  have hrest := wl_lift_tail hhead
  have hcb0 := hc.append_left.append_right
  have hcr := hc.append_right
  -- entered at a label inside the body: no test
  have hseek : ∀ L, m = .seek L →
      (∀ τ0, Entry C.env (off + 1 + (compileExpr c).length + (if u then 3 else 1)) body (.seek L) τ0 → ERel C.sl C.env s τ0 →
        Inv C d e vb gd τ0 → StmtSpec C d e vb (off + sizeStmt C.env.dp d e (.doLoop c true u body p)) nx τ0
          (match (generalizing := false) exec fuel C.P gd (desugar body) (.seek L) s with
           | (s', .normal) => exec fuel C.P gd (desugar (.doLoop c true u body p)) .run s'
           | (s', .jump L') =>
             if (desugar body).hasLabel L' = true then exec fuel C.P gd (desugar (.doLoop c true u body p)) (.seek L') s'
             else (s', .jump L')
           | r => r)) →
      StmtSpec C d e vb (off + sizeStmt C.env.dp d e (.doLoop c true u body p)) nx σ
        (exec (fuel + 1) C.P gd (desugar (.doLoop c true u body p)) m s) := by
    intro L hmL hbody
    subst hmL
    have hLb : L ∈ body.labels := by simpa only [SStmt.labels] using hen.1
    have hbu : ((!u) != u) = true := by cases u <;> rfl
    simp only [desugar] at hent hbody ⊢
    simp only [exec, hent, if_true, hbu]
    exact hbody σ ⟨hLb, hen.2⟩ hr hi
  cases u with
  | false =>
    -- DO WHILE c: `label; <c>; JumpIfFalse loop; body; Jump off; label loop`
    simp only [Bool.false_eq_true, if_false] at hc hlb hu hmb hrest hcb0 hcr hseek
    have hcb : CodeAt C.prog.code (off + 1 + (compileExpr c).length + 1)
        (compileStmt C.env sfx d e (off + 1 + (compileExpr c).length + 1) body) := by
      have := hcb0
      simp only [lift_length, List.length_append, List.length_singleton, List.length_cons, List.length_nil] at this
      have e1 : off + (1 + (compileExpr c).length + 1) = off + 1 + (compileExpr c).length + 1 := by omega
      rw [e1] at this
      exact this
    simp only [lift_length, List.length_append, List.length_singleton, List.length_cons, List.length_nil, len_stmt] at hcr
    have hjmp : C.prog.code[off + 1 + (compileExpr c).length + 1 + sizeStmt C.env.dp d e body]? =
        some (.base (.jump off), p) := by
      have := wl_lift_head hcr
      rw [← this]; congr 1; omega
    have hloopl : C.prog.code[off + 1 + (compileExpr c).length + 1 + sizeStmt C.env.dp d e body + 1]? =
        some (.base (.label (labelName "loop" p sfx)), p) := by
      have := wl_lift_head (wl_lift_tail hcr)
      rw [← this]; congr 1; omega
    have hsize : sizeStmt C.env.dp d e (.doLoop c true false body p) =
        1 + (compileExpr c).length + 1 + sizeStmt C.env.dp d e body + 2 := by
      simp only [sizeStmt, if_true, Bool.false_eq_true, if_false]
    cases m with
    | seek L =>
      exact hseek L rfl (fun τ0 h1 h2 h3 =>
        wl_body_then_loop hC ih.self hcw hl hw0 hm hnx hcb hlb hwb hmb hjmp (.seek L) s τ0 h1 h2 h3)
    | run =>
      refine dl_top_run hC ih hcw hl hw0 hm hnx hcb hlb hmb hjmp hlab hrest hu (Nat.le_refl _) ?_ ?_ σ s hen hr hi
      · intro τ hp
        exact dl_stay (by simpa using hp)
      · intro τ hp
        have hp' : τ.b.pc = off + 1 + (compileExpr c).length + 1 + sizeStmt C.env.dp d e body + 1 := by simpa using hp
        exact dl_label_to hC.pok (by rw [hp']; exact hloopl) (by omega)
  | true =>
    -- DO UNTIL c: `label; <c>; JumpIfFalse do-body; Jump loop; label do-body; body; Jump off; label loop`
    simp only [if_true] at hc hlb hu hmb hrest hcb0 hcr hseek
    have hcb : CodeAt C.prog.code (off + 1 + (compileExpr c).length + 3)
        (compileStmt C.env sfx d e (off + 1 + (compileExpr c).length + 3) body) := by
      have := hcb0
      simp only [lift_length, List.length_append, List.length_singleton, List.length_cons, List.length_nil] at this
      have e1 : off + (1 + (compileExpr c).length + (0 + 1 + 1 + 1)) = off + 1 + (compileExpr c).length + 3 := by omega
      rw [e1] at this
      exact this
    simp only [lift_length, List.length_append, List.length_singleton, List.length_cons, List.length_nil, len_stmt] at hcr
    have hjmp : C.prog.code[off + 1 + (compileExpr c).length + 3 + sizeStmt C.env.dp d e body]? =
        some (.base (.jump off), p) := by
      have := wl_lift_head hcr
      rw [← this]; congr 1; omega
    have hloopl : C.prog.code[off + 1 + (compileExpr c).length + 3 + sizeStmt C.env.dp d e body + 1]? =
        some (.base (.label (labelName "loop" p sfx)), p) := by
      have := wl_lift_head (wl_lift_tail hcr)
      rw [← this]; congr 1; omega
    have hsize : sizeStmt C.env.dp d e (.doLoop c true true body p) =
        1 + (compileExpr c).length + 3 + sizeStmt C.env.dp d e body + 2 := by
      simp only [sizeStmt, if_true]
    -- `<c>; JumpIfFalse do-body` and the two instructions behind it
    have hsplit : ∀ (x y z : CInstr × Pos), compileExpr c ++ [x, y, z] = (compileExpr c ++ [x]) ++ [y, z] := by
      intro x y z; simp
    rw [hsplit, dl_lift_append] at hrest
    have hcc := hrest.append_left
    have h23 := hrest.append_right
    simp only [lift_length, List.length_append, List.length_singleton] at h23
    have hj2 : C.prog.code[off + 1 + (compileExpr c).length + 1]? =
        some (.base (.jump (off + 1 + (compileExpr c).length + 3 + sizeStmt C.env.dp d e body + 1)), p) := by
      have := wl_lift_head h23
      rw [← this]; congr 1 <;> omega
    have hl3 : C.prog.code[off + 1 + (compileExpr c).length + 3 - 1]? =
        some (.base (.label (labelName "do-body" p sfx)), p) := by
      have := wl_lift_head (wl_lift_tail h23)
      rw [← this]; congr 1 <;> omega
    cases m with
    | seek L =>
      exact hseek L rfl (fun τ0 h1 h2 h3 =>
        wl_body_then_loop hC ih.self hcw hl hw0 hm hnx hcb hlb hwb hmb hjmp (.seek L) s τ0 h1 h2 h3)
    | run =>
      refine dl_top_run hC ih hcw hl hw0 hm hnx hcb hlb hmb hjmp hlab hcc hu (by omega) ?_ ?_ σ s hen hr hi
      · intro τ hp
        have hp' : τ.b.pc = off + 1 + (compileExpr c).length + 3 - 1 := by simpa using hp
        exact dl_label_to hC.pok (by rw [hp']; exact hl3) (by omega)
      · intro τ hp
        have hp' : τ.b.pc = off + 1 + (compileExpr c).length + 1 := by simpa using hp
        have st1 := dl_jump_to hC.pok (x := τ) (by rw [hp']; exact hj2)
        have st2 := dl_label_to hC.pok
          (x := { τ with b := { τ.b with pc := off + 1 + (compileExpr c).length + 3 + sizeStmt C.env.dp d e body + 1 } })
          (t := off + sizeStmt C.env.dp d e (.doLoop c true true body p)) hloopl
          (by show off + 1 + (compileExpr c).length + 3 + sizeStmt C.env.dp d e body + 1 + 1 = _; omega)
        exact st1.trans st2

/-! ### test at the bottom -/

/-- the test at `LOOP WHILE / UNTIL c` (`Ref.doBottom`): RESUME runs it again, RESUME NEXT leaves the loop at the entry that
follows it; what differs between the two forms is a hypothesis -/
theorem dl_bottom_test {C : Ctx} (hC : C.Ok) {fuel : Nat} (ih : StmtIHle C fuel) {c : Ast.Expr} {u : Bool} {body : SStmt}
    {p pj : Pos} {sfx : String} {d e off condOff nx vb gd tgt : Nat}
    (hcl : CodeAt C.prog.code off (compileStmt C.env sfx d e off (.doLoop c false u body p)))
    (hll : LabAt C.env d e off (.doLoop c false u body p)) (hwl : Wf C.sl C.env.dp C.rl d e (.doLoop c false u body p))
    (hml : MarksAt C.prog.marks (marksStmt C.env.dp d e off (.doLoop c false u body p)) nx)
    (hnxl : off + sizeStmt C.env.dp d e (.doLoop c false u body p) ≤ nx)
    (hcc : CodeAt C.prog.code condOff (lift (compileExpr c ++ [(CInstr.jumpIfFalse tgt, pj)])))
    (hu : MarksAt C.prog.marks [condOff] nx) (hhi : condOff + (compileExpr c).length + 1 ≤ nx)
    (hback : ∀ τ : EVm, τ.b.pc = (if u then tgt else condOff + (compileExpr c).length + 1) →
      Steps C.prog τ { τ with b := { τ.b with pc := off } })
    (hexit : ∀ τ : EVm, τ.b.pc = (if u then condOff + (compileExpr c).length + 1 else tgt) →
      Steps C.prog τ { τ with b := { τ.b with pc := off + sizeStmt C.env.dp d e (.doLoop c false u body p) } }) :
    ∀ f, f ≤ fuel → ∀ (υ : EVm) (s1 : ESt), υ.b.pc = condOff → ERel C.sl C.env s1 υ → Inv C d e vb gd υ →
      StmtSpec C d e vb (off + sizeStmt C.env.dp d e (.doLoop c false u body p)) nx υ
        (doBottom f C.P gd c u (desugar body) p s1) := by
  obtain ⟨hsc, hnc, hwb⟩ := id hwl
  intro f
  induction f with
  | zero => intro _ υ s1 _ _ _; simp only [doBottom, StmtSpec]
  | succ f ihf =>
    intro hf υ s1 hpc hr1 hi1
    have ihle : StmtIHle C f := ih.mono (by omega)
    have hcond := cond_unit hC ihle (skipAs := u) hcc hu (Nat.le_refl _) hhi hsc hnc hpc hr1 hi1
    simp only [doBottom]
    generalize hcu : condUnit f C.P gd c u s1 = rc at hcond ⊢
    obtain ⟨s1', dec⟩ := rc
    cases dec with
    | go b =>
      obtain ⟨τ, st, hrτ, a1, a2, a3, a4, a5, hp⟩ := hcond
      simp only
      by_cases hb : (b != u) = true
      · -- round the loop
        simp only [hb, if_true]
        have hp' : τ.b.pc = (if u then tgt else condOff + (compileExpr c).length + 1) := by
          rcases hp with h | h
          · rw [h]
            cases b <;> cases u <;> simp at hb ⊢
          · exact absurd h.1 (by cases b <;> cases u <;> simp at hb ⊢)
        have hgo := hback τ hp'
        have hq := dl_quiet_pc τ off
        have hsp := ihle.self (.doLoop c false u body p) sfx d e off nx vb gd .run
          { τ with b := { τ.b with pc := off } } s1' hcl hll hwl hml hnxl rfl (hrτ.same (hrτ.base.setPc _))
          (hq.inv (inv_after hi1 a1 a2 a4 a5))
        simp only [desugar] at hsp
        exact StmtSpec.after st a1 a2 a3 a4 a5 (StmtSpec.of_steps hgo hq hsp)
      · -- out of the loop
        simp only [hb]
        have hbu : b = u := by cases b <;> cases u <;> simp at hb ⊢
        simp only [StmtSpec]
        rcases hp with h | h
        · have hp' : τ.b.pc = (if u then condOff + (compileExpr c).length + 1 else tgt) := by rw [h, hbu]
          exact ⟨_, st.trans (hexit τ hp'), .inl rfl, hrτ.same (hrτ.base.setPc _), a1, a2, a3, a4, a5⟩
        · exact ⟨τ, st, .inr ⟨h.2.1, h.2.2⟩, hrτ, a1, a2, a3, a4, a5⟩
    | again =>
      obtain ⟨τ, st, hp, hrτ, a1, a2, a3, a4, a5⟩ := hcond
      have := ihf (by omega) τ s1' hp hrτ (inv_after hi1 a1 a2 a4 a5)
      simp only
      exact StmtSpec.after st a1 a2 a3 a4 a5 this
    | out o =>
      obtain ⟨n1, n2, n3, n4, n5, hsp⟩ := hcond
      cases o with
      | normal => exact absurd rfl n1
      | ret q => exact absurd rfl (n2 q)
      | resumed k => exact absurd rfl (n3 k)
      | notHere => exact absurd rfl n4
      | jump L =>
        simp only
        by_cases hL : (desugar body).hasLabel L = true
        · simp only [hL, if_true]
          have hLw : L ∈ (SStmt.doLoop c false u body p).labels := by
            simpa only [SStmt.labels] using (hasLabel_iff hwb L).mp hL
          have := restart_seek ihle.self hcl hll hwl hml hnxl hi1 (hsp 0 0) (n5 L rfl) hLw
          simpa only [desugar] using this
        · simp only [hL]
          exact hsp _ _
      | halted => exact hsp _ _
      | error cd q => exact hsp _ _
      | inexact => trivial
      | outOfFuel => trivial
      | illFormed => trivial
      | unspec => trivial

theorem case_do_bottom (C : Ctx) (hC : C.Ok) (fuel : Nat) (ih : StmtIHle C fuel) (c : Ast.Expr) (u : Bool) (body : SStmt)
    (p : Pos) (sfx : String) (d e off nx vb gd : Nat) (m : Mode) (σ : EVm) (s : ESt)
    (hc : CodeAt C.prog.code off (compileStmt C.env sfx d e off (.doLoop c false u body p)))
    (hl : LabAt C.env d e off (.doLoop c false u body p)) (hw : Wf C.sl C.env.dp C.rl d e (.doLoop c false u body p))
    (hm : MarksAt C.prog.marks (marksStmt C.env.dp d e off (.doLoop c false u body p)) nx)
    (hnx : off + sizeStmt C.env.dp d e (.doLoop c false u body p) ≤ nx)
    (hen : Entry C.env off (.doLoop c false u body p) m σ) (hr : ERel C.sl C.env s σ) (hi : Inv C d e vb gd σ) :
    StmtSpec C d e vb (off + sizeStmt C.env.dp d e (.doLoop c false u body p)) nx σ
      (exec (fuel + 1) C.P gd (desugar (.doLoop c false u body p)) m s) := by
  have hcw := hc
  have hw0 := hw
  obtain ⟨hsc, hnc, hwb⟩ := hw
  obtain ⟨_, hmb, hu⟩ := marks_doBottom hm
  have hlb := hl.doBottom
  have hent : m.enters (desugar (.doLoop c false u body p)) = true := by
    cases m with
    | run => rfl
    | seek L => exact (hasLabel_iff hw0 L).mpr hen.1
  simp only [compileStmt, Bool.false_eq_true, if_false] at hc
  have hlab : C.prog.code[off]? = some (.base (.label (labelName "do" p sfx)), p) :=
    wl_lift_head hc.append_left.append_left
  have hcb : CodeAt C.prog.code (off + 1) (compileStmt C.env sfx d e (off + 1) body) := by
    have := hc.append_left.append_right
    simpa using this
  have htail := hc.append_right
  simp only [lift_length, List.length_append, List.length_singleton, List.length_cons, List.length_nil, len_stmt] at htail
  have e1 : off + (1 + sizeStmt C.env.dp d e body) = off + 1 + sizeStmt C.env.dp d e body := by omega
  rw [e1] at htail
  -- the test behind the body
  have htest : ∀ f, f ≤ fuel → ∀ (υ : EVm) (s1 : ESt), υ.b.pc = off + 1 + sizeStmt C.env.dp d e body →
      ERel C.sl C.env s1 υ → Inv C d e vb gd υ →
      StmtSpec C d e vb (off + sizeStmt C.env.dp d e (.doLoop c false u body p)) nx υ
        (doBottom f C.P gd c u (desugar body) p s1) := by
    cases u with
    | true =>
      -- LOOP UNTIL c: `<c>; JumpIfFalse off; label loop`
      simp only [if_true] at htail
      have hsize : sizeStmt C.env.dp d e (.doLoop c false true body p) =
          1 + sizeStmt C.env.dp d e body + (compileExpr c).length + 1 + 1 := by
        simp only [sizeStmt, Bool.false_eq_true, if_false, if_true]
      rw [dl_lift_append] at htail
      have hcc := htail.append_left
      have hll : C.prog.code[off + 1 + sizeStmt C.env.dp d e body + (compileExpr c).length + 1]? =
          some (.base (.label (labelName "loop" p sfx)), p) := by
        have := wl_lift_head htail.append_right
        simp only [lift_length, List.length_append, List.length_singleton] at this
        rw [← this]; congr 1 <;> omega
      refine dl_bottom_test hC ih hcw hl hw0 hm hnx hcc hu (by rw [hsize] at hnx; omega) ?_ ?_
      · intro τ hp
        exact dl_stay (by simpa using hp)
      · intro τ hp
        have hp' : τ.b.pc = off + 1 + sizeStmt C.env.dp d e body + (compileExpr c).length + 1 := by simpa using hp
        exact dl_label_to hC.pok (by rw [hp']; exact hll) (by omega)
    | false =>
      -- LOOP WHILE c: `<c>; JumpIfFalse loop; Jump off; label loop`
      simp only [Bool.false_eq_true, if_false] at htail
      have hsize : sizeStmt C.env.dp d e (.doLoop c false false body p) =
          1 + sizeStmt C.env.dp d e body + (compileExpr c).length + 2 + 1 := by
        simp only [sizeStmt, Bool.false_eq_true, if_false]
      have hsplit : ∀ (x y z : CInstr × Pos), compileExpr c ++ [x, y] ++ [z] = (compileExpr c ++ [x]) ++ [y, z] := by
        intro x y z; simp
      rw [hsplit, dl_lift_append] at htail
      have hcc := htail.append_left
      have h23 := htail.append_right
      simp only [lift_length, List.length_append, List.length_singleton] at h23
      have hjo : C.prog.code[off + 1 + sizeStmt C.env.dp d e body + (compileExpr c).length + 1]? =
          some (.base (.jump off), p) := by
        have := wl_lift_head h23
        rw [← this]; congr 1 <;> omega
      have hll : C.prog.code[off + 1 + sizeStmt C.env.dp d e body + (compileExpr c).length + 2]? =
          some (.base (.label (labelName "loop" p sfx)), p) := by
        have := wl_lift_head (wl_lift_tail h23)
        rw [← this]; congr 1 <;> omega
      refine dl_bottom_test hC ih hcw hl hw0 hm hnx hcc hu (by rw [hsize] at hnx; omega) ?_ ?_
      · intro τ hp
        have hp' : τ.b.pc = off + 1 + sizeStmt C.env.dp d e body + (compileExpr c).length + 1 := by simpa using hp
        exact dl_jump_to hC.pok (by rw [hp']; exact hjo)
      · intro τ hp
        have hp' : τ.b.pc = off + 1 + sizeStmt C.env.dp d e body + (compileExpr c).length + 2 := by simpa using hp
        exact dl_label_to hC.pok (by rw [hp']; exact hll) (by omega)
  -- the body phase
  have hbody : ∀ (τ0 : EVm), Entry C.env (off + 1) body m τ0 → ERel C.sl C.env s τ0 → Inv C d e vb gd τ0 →
      StmtSpec C d e vb (off + sizeStmt C.env.dp d e (.doLoop c false u body p)) nx τ0
        (match (generalizing := false) exec fuel C.P gd (desugar body) m s with
         | (s', .normal) => doBottom fuel C.P gd c u (desugar body) p s'
         | (s', .jump L) =>
           if (desugar body).hasLabel L = true then exec fuel C.P gd (Stmt.doLoop c false u (desugar body) p) (.seek L) s'
           else (s', .jump L)
         | r => r) := by
    intro τ0 hen0 hrel0 hi0
    have hb := ih.self body sfx d e (off + 1) (off + 1 + sizeStmt C.env.dp d e body) vb gd m τ0 s hcb hlb hwb hmb
      (Nat.le_refl _) hen0 hrel0 hi0
    generalize hrb : exec fuel C.P gd (desugar body) m s = rb at hb ⊢
    obtain ⟨s1', o1⟩ := rb
    cases o1 with
    | normal =>
      obtain ⟨υ, st2, hp2, hrel2, a1, a2, a3, a4, a5⟩ := hb
      have hp2' : υ.b.pc = off + 1 + sizeStmt C.env.dp d e body := by
        rcases hp2 with h | h
        · exact h
        · exact h.1
      simp only
      exact StmtSpec.after st2 a1 a2 a3 a4 a5
        (htest fuel (Nat.le_refl _) υ s1' hp2' hrel2 (inv_after hi0 a1 a2 a4 a5))
    | jump L =>
      simp only
      obtain ⟨hnl, hdep⟩ := Ctx.Ok.jump_depths hC.shape hwb hlb hrb
      by_cases hL : (desugar body).hasLabel L = true
      · exact absurd ((hasLabel_iff hwb L).mp hL) hnl
      · simp only [hL]
        exact hb
    | halted => exact hb
    | ret q => exact hb
    | resumed k => exact hb
    | error cd q => exact hb
    | inexact => trivial
    | outOfFuel => trivial
    | illFormed => trivial
    | unspec => trivial
    | notHere => trivial
  simp only [desugar] at hent ⊢
  cases m with
  | seek L =>
    have hLb : L ∈ body.labels := by simpa only [SStmt.labels] using hen.1
    simp only [exec, hent, if_true, Bool.false_eq_true, if_false]
    exact hbody σ ⟨hLb, hen.2⟩ hr hi
  | run =>
    have hpc : σ.b.pc = off := hen
    have s1 : step C.prog σ = .next { σ with b := JmpL.Vm.advance σ.b } :=
      wl_step_label hC.pok (by rw [hpc]; exact hlab)
    have hq1 : Quiet σ { σ with b := JmpL.Vm.advance σ.b } := ⟨rfl, rfl, rfl, rfl, rfl⟩
    simp only [exec, hent, if_true, Bool.false_eq_true, if_false]
    exact StmtSpec.of_steps (Steps.one s1) hq1
      (hbody { σ with b := JmpL.Vm.advance σ.b } (by show σ.b.pc + 1 = off + 1; rw [hpc]) (hr.same hr.base.advance)
        (hq1.inv hi))

/-- **DO … LOOP** in its four forms -/
theorem case_do (C : Ctx) (hC : C.Ok) (fuel : Nat) (ih : StmtIHle C fuel) (c : Ast.Expr) (top u : Bool) (body : SStmt)
    (p : Pos) (sfx : String) (d e off nx vb gd : Nat) (m : Mode) (σ : EVm) (s : ESt)
    (hc : CodeAt C.prog.code off (compileStmt C.env sfx d e off (.doLoop c top u body p)))
    (hl : LabAt C.env d e off (.doLoop c top u body p)) (hw : Wf C.sl C.env.dp C.rl d e (.doLoop c top u body p))
    (hm : MarksAt C.prog.marks (marksStmt C.env.dp d e off (.doLoop c top u body p)) nx)
    (hnx : off + sizeStmt C.env.dp d e (.doLoop c top u body p) ≤ nx)
    (hen : Entry C.env off (.doLoop c top u body p) m σ) (hr : ERel C.sl C.env s σ) (hi : Inv C d e vb gd σ) :
    StmtSpec C d e vb (off + sizeStmt C.env.dp d e (.doLoop c top u body p)) nx σ
      (exec (fuel + 1) C.P gd (desugar (.doLoop c top u body p)) m s) := by
  cases top with
  | true => exact case_do_top C hC fuel ih c u body p sfx d e off nx vb gd m σ s hc hl hw hm hnx hen hr hi
  | false => exact case_do_bottom C hC fuel ih c u body p sfx d e off nx vb gd m σ s hc hl hw hm hnx hen hr hi

end RbThm.ErrLSim
