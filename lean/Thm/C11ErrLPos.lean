import Thm.C11Layers2
import RbModel.ErrL.Ref
/-!
# C11 (run-time half) for the error layer — the position induction over the reference semantics `ErrL.Ref`

Layer ErrL = jump layer + `ON ERROR GOTO label / RESUME NEXT / GOTO 0` + `RESUME / RESUME NEXT / RESUME label`.
`Thm/C11Layers2.lean` (namespace `RbThm.C11Layers2.Jumps`) does the same for the jump layer; its leaf lemmas about
`eval`, `evalTo`, `JmpL.Ref.evalCond / anyMatches / printItems / relTest / stepSign` are reused here, because
`ErrL.Ref` calls those very functions.

* `ref_error_pos_within_program` — the position `ErrL.Ref.run` prescribes for an error is a position carried by a node of
  the source tree.  No premise.
* `ref_error_code` — the code is one of the statement codes 4, 6, 11, 13, 258, or 3 (RETURN without GOSUB), or 20 (RESUME
  without error).
* `return_without_gosub_at_return` / `resume_without_error_at_resume` — error 3 is reported at the position of a RETURN
  statement, error 20 at the position of a RESUME statement of the program.
* `exec_error_pos`, `raise_error_pos`, `exec_error_src`, `raise_error_src` — the statement-level versions, for any
  statement of any program.

An `error` outcome arises only from `raise` in handler mode `none` (with the failing unit's own code and position), from
the FOR test (`forIter`, not a resume unit), or is passed on from a handler's / GOSUB's nested run of the whole program;
whence one induction on fuel over all eight mutually recursive functions (`inv_all`), with the standing hypothesis
`Cov Q R S P` on the whole body `P`.
-/

namespace RbThm.C11ErrLPos
set_option linter.unusedVariables false
set_option linter.unusedSimpArgs false
open RbModel RbModel.Num RbModel.ErrL RbModel.ErrL.Ref
open RbModel.Ast (Pos PrintItem CaseExpr)
open RbModel.Ref (St ERes eval evalTo codeOf codeOutOfData codeZeroStep)
open RbThm.C11Gen (exprPosns itemPosns caseExprPosns optExprPosns pos_mem_exprPosns)
open RbThm.C11Layers2.Jumps (stmtCodes codeOf_mem eval_err' evalTo_err' LeafOut)

/-! ### positions that occur in a piece of the reference syntax -/

mutual
/-- every position that occurs in a statement of the reference syntax (`label`, `goto`, `gosub`, `ON ERROR …` carry none
there) -/
def stmtPosns : Stmt → List Pos
  | .skip => []
  | .seq a b => stmtPosns a ++ stmtPosns b
  | .assign _ _ e p => p :: exprPosns e
  | .print items p => p :: items.flatMap itemPosns
  | .read _ p => [p]
  | .ifs c thn els p => p :: (exprPosns c ++ stmtPosns thn ++ stmtPosns els)
  | .select e cs p => p :: (exprPosns e ++ casesPosns cs)
  | .forLoop _ _ lo hi step body p => p :: (exprPosns lo ++ exprPosns hi ++ optExprPosns step ++ stmtPosns body)
  | .while c body p => p :: (exprPosns c ++ stmtPosns body)
  | .doLoop c _ _ body p => p :: (exprPosns c ++ stmtPosns body)
  | .end_ p => [p]
  | .label _ => []
  | .goto _ => []
  | .gosub _ => []
  | .ret p => [p]
  | .onErrorGoto _ => []
  | .onErrorResumeNext => []
  | .onErrorGoto0 => []
  | .resume p => [p]
  | .resumeNext p => [p]
  | .resumeLabel _ p => [p]
def casesPosns : Cases → List Pos
  | .nil => []
  | .else_ body => stmtPosns body
  | .case conds body rest => conds.flatMap caseExprPosns ++ stmtPosns body ++ casesPosns rest
end

mutual
/-- the positions of the RETURN statements only -/
def stmtRetPosns : Stmt → List Pos
  | .seq a b => stmtRetPosns a ++ stmtRetPosns b
  | .ifs _ thn els _ => stmtRetPosns thn ++ stmtRetPosns els
  | .select _ cs _ => casesRetPosns cs
  | .forLoop _ _ _ _ _ body _ => stmtRetPosns body
  | .while _ body _ => stmtRetPosns body
  | .doLoop _ _ _ body _ => stmtRetPosns body
  | .ret p => [p]
  | .skip => []
  | .assign .. => []
  | .print .. => []
  | .read .. => []
  | .end_ _ => []
  | .label _ => []
  | .goto _ => []
  | .gosub _ => []
  | .onErrorGoto _ => []
  | .onErrorResumeNext => []
  | .onErrorGoto0 => []
  | .resume _ => []
  | .resumeNext _ => []
  | .resumeLabel _ _ => []
def casesRetPosns : Cases → List Pos
  | .nil => []
  | .else_ body => stmtRetPosns body
  | .case _ body rest => stmtRetPosns body ++ casesRetPosns rest
end

mutual
/-- the positions of the RESUME / RESUME NEXT / RESUME label statements only -/
def stmtResumePosns : Stmt → List Pos
  | .seq a b => stmtResumePosns a ++ stmtResumePosns b
  | .ifs _ thn els _ => stmtResumePosns thn ++ stmtResumePosns els
  | .select _ cs _ => casesResumePosns cs
  | .forLoop _ _ _ _ _ body _ => stmtResumePosns body
  | .while _ body _ => stmtResumePosns body
  | .doLoop _ _ _ body _ => stmtResumePosns body
  | .resume p => [p]
  | .resumeNext p => [p]
  | .resumeLabel _ p => [p]
  | .ret _ => []
  | .skip => []
  | .assign .. => []
  | .print .. => []
  | .read .. => []
  | .end_ _ => []
  | .label _ => []
  | .goto _ => []
  | .gosub _ => []
  | .onErrorGoto _ => []
  | .onErrorResumeNext => []
  | .onErrorGoto0 => []
def casesResumePosns : Cases → List Pos
  | .nil => []
  | .else_ body => stmtResumePosns body
  | .case _ body rest => stmtResumePosns body ++ casesResumePosns rest
end

mutual
/-- a RETURN's position is one of the statement's positions -/
theorem stmtRetPosns_sub (q : Pos) : ∀ st : Stmt, q ∈ stmtRetPosns st → q ∈ stmtPosns st
  | .seq a b, h => by
    simp only [stmtRetPosns, List.mem_append] at h
    rcases h with h | h
    · simp [stmtPosns, stmtRetPosns_sub q a h]
    · simp [stmtPosns, stmtRetPosns_sub q b h]
  | .ifs _ thn els _, h => by
    simp only [stmtRetPosns, List.mem_append] at h
    rcases h with h | h
    · simp [stmtPosns, stmtRetPosns_sub q thn h]
    · simp [stmtPosns, stmtRetPosns_sub q els h]
  | .select _ cs _, h => by
    simp only [stmtRetPosns] at h
    simp [stmtPosns, casesRetPosns_sub q cs h]
  | .forLoop _ _ _ _ _ body _, h => by
    simp only [stmtRetPosns] at h
    simp [stmtPosns, stmtRetPosns_sub q body h]
  | .while _ body _, h => by
    simp only [stmtRetPosns] at h
    simp [stmtPosns, stmtRetPosns_sub q body h]
  | .doLoop _ _ _ body _, h => by
    simp only [stmtRetPosns] at h
    simp [stmtPosns, stmtRetPosns_sub q body h]
  | .ret p, h => by simpa [stmtRetPosns, stmtPosns] using h
  | .skip, h => by simp [stmtRetPosns] at h
  | .assign .., h => by simp [stmtRetPosns] at h
  | .print .., h => by simp [stmtRetPosns] at h
  | .read .., h => by simp [stmtRetPosns] at h
  | .end_ _, h => by simp [stmtRetPosns] at h
  | .label _, h => by simp [stmtRetPosns] at h
  | .goto _, h => by simp [stmtRetPosns] at h
  | .gosub _, h => by simp [stmtRetPosns] at h
  | .onErrorGoto _, h => by simp [stmtRetPosns] at h
  | .onErrorResumeNext, h => by simp [stmtRetPosns] at h
  | .onErrorGoto0, h => by simp [stmtRetPosns] at h
  | .resume _, h => by simp [stmtRetPosns] at h
  | .resumeNext _, h => by simp [stmtRetPosns] at h
  | .resumeLabel _ _, h => by simp [stmtRetPosns] at h
theorem casesRetPosns_sub (q : Pos) : ∀ cs : Cases, q ∈ casesRetPosns cs → q ∈ casesPosns cs
  | .nil, h => by simp [casesRetPosns] at h
  | .else_ body, h => by
    simp only [casesRetPosns] at h
    simp [casesPosns, stmtRetPosns_sub q body h]
  | .case _ body rest, h => by
    simp only [casesRetPosns, List.mem_append] at h
    rcases h with h | h
    · simp [casesPosns, stmtRetPosns_sub q body h]
    · simp [casesPosns, casesRetPosns_sub q rest h]
end

mutual
/-- a RESUME's position is one of the statement's positions -/
theorem stmtResumePosns_sub (q : Pos) : ∀ st : Stmt, q ∈ stmtResumePosns st → q ∈ stmtPosns st
  | .seq a b, h => by
    simp only [stmtResumePosns, List.mem_append] at h
    rcases h with h | h
    · simp [stmtPosns, stmtResumePosns_sub q a h]
    · simp [stmtPosns, stmtResumePosns_sub q b h]
  | .ifs _ thn els _, h => by
    simp only [stmtResumePosns, List.mem_append] at h
    rcases h with h | h
    · simp [stmtPosns, stmtResumePosns_sub q thn h]
    · simp [stmtPosns, stmtResumePosns_sub q els h]
  | .select _ cs _, h => by
    simp only [stmtResumePosns] at h
    simp [stmtPosns, casesResumePosns_sub q cs h]
  | .forLoop _ _ _ _ _ body _, h => by
    simp only [stmtResumePosns] at h
    simp [stmtPosns, stmtResumePosns_sub q body h]
  | .while _ body _, h => by
    simp only [stmtResumePosns] at h
    simp [stmtPosns, stmtResumePosns_sub q body h]
  | .doLoop _ _ _ body _, h => by
    simp only [stmtResumePosns] at h
    simp [stmtPosns, stmtResumePosns_sub q body h]
  | .resume p, h => by simpa [stmtResumePosns, stmtPosns] using h
  | .resumeNext p, h => by simpa [stmtResumePosns, stmtPosns] using h
  | .resumeLabel _ p, h => by simpa [stmtResumePosns, stmtPosns] using h
  | .ret _, h => by simp [stmtResumePosns] at h
  | .skip, h => by simp [stmtResumePosns] at h
  | .assign .., h => by simp [stmtResumePosns] at h
  | .print .., h => by simp [stmtResumePosns] at h
  | .read .., h => by simp [stmtResumePosns] at h
  | .end_ _, h => by simp [stmtResumePosns] at h
  | .label _, h => by simp [stmtResumePosns] at h
  | .goto _, h => by simp [stmtResumePosns] at h
  | .gosub _, h => by simp [stmtResumePosns] at h
  | .onErrorGoto _, h => by simp [stmtResumePosns] at h
  | .onErrorResumeNext, h => by simp [stmtResumePosns] at h
  | .onErrorGoto0, h => by simp [stmtResumePosns] at h
theorem casesResumePosns_sub (q : Pos) : ∀ cs : Cases, q ∈ casesResumePosns cs → q ∈ casesPosns cs
  | .nil, h => by simp [casesResumePosns] at h
  | .else_ body, h => by
    simp only [casesResumePosns] at h
    simp [casesPosns, stmtResumePosns_sub q body h]
  | .case _ body rest, h => by
    simp only [casesResumePosns, List.mem_append] at h
    rcases h with h | h
    · simp [casesPosns, stmtResumePosns_sub q body h]
    · simp [casesPosns, casesResumePosns_sub q rest h]
end

/-! ### error codes -/

theorem three_not_stmtCode : 3 ∉ stmtCodes := by decide
theorem twenty_not_stmtCode : 20 ∉ stmtCodes := by decide

/-! ### the statement-independent pieces

They answer `Except Fail _` (or `Option Fail`); a failure is `inexact` or an error with a statement code at one of the
listed positions. -/

/-- what a statement-independent piece may answer on its error side -/
def LeafFail (ps : List Pos) : Fail → Prop
  | .err c p => c ∈ stmtCodes ∧ p ∈ ps
  | .inexact => True

theorem LeafFail.mono {ps ps' : List Pos} {f : Fail} (h : LeafFail ps f) (hs : ∀ q ∈ ps, q ∈ ps') : LeafFail ps' f := by
  cases f with
  | err c p => exact ⟨h.1, hs p h.2⟩
  | inexact => trivial

theorem leafFail_of_out {ps : List Pos} {o : JmpL.Ref.Outcome} (h : LeafOut ps o) : LeafFail ps (failOf o) := by
  rcases h with rfl | ⟨c, p, rfl, h2, h3⟩
  · simp [failOf, LeafFail]
  · exact ⟨h2, h3⟩

theorem evalCond_fail {env : List Val} {e : Ast.Expr} {f : Fail} (h : ErrL.Ref.evalCond env e = .error f) :
    LeafFail (exprPosns e) f := by
  unfold ErrL.Ref.evalCond at h
  split at h
  · cases h
  · rename_i o ho
    cases h
    exact leafFail_of_out (RbThm.C11Layers2.Jumps.evalCond_out ho)

theorem evalE_fail {env : List Val} {e : Ast.Expr} {f : Fail} (h : ErrL.Ref.evalE env e = .error f) :
    LeafFail (exprPosns e) f := by
  unfold ErrL.Ref.evalE at h
  split at h
  · cases h
  · rename_i c p he
    cases h
    exact eval_err' env c p e he
  · cases h; trivial

theorem anyMatches_fail {env : List Val} {q : Pos} {subj : Val} {conds : List CaseExpr} {f : Fail}
    (h : ErrL.Ref.anyMatches env q subj conds = .error f) : LeafFail (q :: conds.flatMap caseExprPosns) f := by
  unfold ErrL.Ref.anyMatches at h
  split at h
  · cases h
  · rename_i o ho
    cases h
    exact leafFail_of_out (RbThm.C11Layers2.Jumps.anyMatches_out conds ho)

theorem readVars_fail (p : Pos) : ∀ (vars : List (Nat × Ty)) (s s' : St) (f : Fail),
    readVars p s vars = (s', some f) → LeafFail [p] f
  | [], s, s', f, h => by simp [readVars] at h
  | (x, t) :: rest, s, s', f, h => by
    simp only [readVars] at h
    split at h
    · cases h; exact ⟨by decide, by simp⟩
    · split at h
      · exact readVars_fail p rest _ _ _ h
      · cases h; exact ⟨codeOf_mem _, by simp⟩
      · cases h; trivial

theorem forHeader_fail {x : Nat} {t : Ty} {lo hi : Ast.Expr} {step : Option Ast.Expr} {p : Pos} {s s' : St} {f : Fail}
    (h : forHeader x t lo hi step p s = (s', .error f)) :
    LeafFail (p :: (exprPosns lo ++ exprPosns hi ++ optExprPosns step)) f := by
  unfold forHeader at h
  split at h
  · rename_i c q he
    cases h
    exact ⟨(evalTo_err' he).1, by simp [(evalTo_err' he).2]⟩
  · cases h; trivial
  · simp only at h
    split at h
    · rename_i c q he
      cases h
      exact ⟨(evalTo_err' he).1, by simp [(evalTo_err' he).2]⟩
    · cases h; trivial
    · split at h
      · cases h
      · rename_i se
        split at h
        · rename_i f' he
          cases h
          exact (evalE_fail he).mono (by simp +contextual [optExprPosns])
        · split at h
          · rename_i o ho
            cases h
            exact (leafFail_of_out (RbThm.C11Layers2.Jumps.stepSign_out ho)).mono (by simp)
          · cases h
          · cases h
          · cases h
            exact ⟨by decide, by simp [optExprPosns, pos_mem_exprPosns]⟩

/-! ### statements -/

/-- where an error `c` at `p` may come from: a statement code at a position with `Q`, code 3 at a position with `R`
(a RETURN), code 20 at a position with `S` (a RESUME) -/
def Src (Q R S : Pos → Prop) (c : Nat) (p : Pos) : Prop :=
  (c ∈ stmtCodes ∧ Q p) ∨ (c = 3 ∧ R p) ∨ (c = 20 ∧ S p)

/-- what the invariant says of an outcome -/
def Good (Q R S : Pos → Prop) : Outcome → Prop
  | .error c p => Src Q R S c p
  | _ => True

def GoodD (Q R S : Pos → Prop) : Disp → Prop
  | .out o => Good Q R S o
  | _ => True

def GoodDec (Q R S : Pos → Prop) : Dec → Prop
  | .out o => Good Q R S o
  | _ => True

theorem LeafFail.src {Q R S : Pos → Prop} {ps : List Pos} {c : Nat} {p : Pos} (h : LeafFail ps (.err c p))
    (hq : ∀ q ∈ ps, Q q) : Src Q R S c p := .inl ⟨h.1, hq p h.2⟩

/-- every position of the statement has `Q`, every position of a RETURN in it has `R`, of a RESUME in it `S` -/
def Cov (Q R S : Pos → Prop) (st : Stmt) : Prop :=
  (∀ q ∈ stmtPosns st, Q q) ∧ (∀ q ∈ stmtRetPosns st, R q) ∧ (∀ q ∈ stmtResumePosns st, S q)

def CovC (Q R S : Pos → Prop) (cs : Cases) : Prop :=
  (∀ q ∈ casesPosns cs, Q q) ∧ (∀ q ∈ casesRetPosns cs, R q) ∧ (∀ q ∈ casesResumePosns cs, S q)

theorem dispOfHandler_good {Q R S : Pos → Prop} {o : Outcome} (h : Good Q R S o) : GoodD Q R S (dispOfHandler o) := by
  cases o with
  | resumed k => cases k <;> simp [dispOfHandler, GoodD, Good]
  | error c p => exact h
  | _ => simp [dispOfHandler, GoodD, Good]

structure Inv (P : Stmt) (Q R S : Pos → Prop) (fuel : Nat) : Prop where
  exec : ∀ gd st m s, Cov Q R S st → Good Q R S (exec fuel P gd st m s).2
  raise : ∀ gd c p s, Src Q R S c p → GoodD Q R S (raise fuel P gd c p s).2
  condUnit : ∀ gd c skipAs s, (∀ q ∈ exprPosns c, Q q) → GoodDec Q R S (condUnit fuel P gd c skipAs s).2
  doBottom : ∀ gd c u body p s, Cov Q R S (.doLoop c false u body p) → Good Q R S (doBottom fuel P gd c u body p s).2
  execCases : ∀ gd q subj cs s, Q q → CovC Q R S cs → Good Q R S (execCases fuel P gd q subj cs s).2
  seekCases : ∀ gd cs L s, CovC Q R S cs → Good Q R S (seekCases fuel P gd cs L s).2
  selectSeek : ∀ gd cs L s, CovC Q R S cs → Good Q R S (selectSeek fuel P gd cs L s).2
  forIter : ∀ gd x t h sv up body q m atNext s, Q q → Cov Q R S body →
    Good Q R S (forIter fuel P gd x t h sv up body q m atNext s).2

theorem inv_zero (P : Stmt) (Q R S : Pos → Prop) : Inv P Q R S 0 := by
  refine ⟨?_, ?_, ?_, ?_, ?_, ?_, ?_, ?_⟩ <;> intros <;>
    simp [exec, raise, condUnit, doBottom, execCases, seekCases, selectSeek, forIter, Good, GoodD, GoodDec]

/-- positions of a sub-piece from those of the piece -/
local macro "sub" h:ident : term =>
  `(⟨fun q hq => ($h).1 q (by simp [stmtPosns, casesPosns, hq]),
     fun q hq => ($h).2.1 q (by simp [stmtRetPosns, casesRetPosns, hq]),
     fun q hq => ($h).2.2 q (by simp [stmtResumePosns, casesResumePosns, hq])⟩)

/-- the three answers of a failed unit: `again` is left to the caller, `next` is `normal`, `out o` is `hr` -/
local macro "unit_tail" hr:ident : tactic =>
  `(tactic| (split <;> first
      | (simp [Good, GoodD, GoodDec]; done)
      | (rename_i heq; rw [heq] at $hr:ident; exact $hr)
      | skip))

theorem inv_succ (P : Stmt) (Q R S : Pos → Prop) (hP : Cov Q R S P) (n : Nat) (ih : Inv P Q R S n) :
    Inv P Q R S (n + 1) := by
  refine ⟨?_, ?_, ?_, ?_, ?_, ?_, ?_, ?_⟩
  · intro gd st m s hc
    cases st with
    | skip => cases m <;> simp [exec, Good]
    | end_ p => cases m <;> simp [exec, Good]
    | label L =>
      cases m with
      | run => simp [exec, Good]
      | seek L0 => simp only [exec]; split <;> simp [Good]
    | goto L => cases m <;> simp [exec, Good]
    | onErrorGoto L => cases m <;> simp [exec, Good]
    | onErrorResumeNext => cases m <;> simp [exec, Good]
    | onErrorGoto0 => cases m <;> simp [exec, Good]
    | ret p =>
      have hr := ih.raise gd codeReturnWithoutGoSub p s (.inr (.inl ⟨rfl, hc.2.1 p (by simp [stmtRetPosns])⟩))
      cases m with
      | seek L0 => simp [exec, Good]
      | run =>
        simp only [exec]
        split
        · unit_tail hr
          exact ih.exec gd (.ret p) _ _ hc
        · simp [Good]
    | resume p =>
      have hr := ih.raise gd codeResumeWithoutError p s (.inr (.inr ⟨rfl, hc.2.2 p (by simp [stmtResumePosns])⟩))
      cases m with
      | seek L0 => simp [exec, Good]
      | run =>
        simp only [exec]
        split
        · simp [Good]
        · unit_tail hr
          exact ih.exec gd (.resume p) _ _ hc
    | resumeNext p =>
      have hr := ih.raise gd codeResumeWithoutError p s (.inr (.inr ⟨rfl, hc.2.2 p (by simp [stmtResumePosns])⟩))
      cases m with
      | seek L0 => simp [exec, Good]
      | run =>
        simp only [exec]
        split
        · simp [Good]
        · unit_tail hr
          exact ih.exec gd (.resumeNext p) _ _ hc
    | resumeLabel L p =>
      have hr := ih.raise gd codeResumeWithoutError p s (.inr (.inr ⟨rfl, hc.2.2 p (by simp [stmtResumePosns])⟩))
      cases m with
      | seek L0 => simp [exec, Good]
      | run =>
        simp only [exec]
        split
        · simp [Good]
        · unit_tail hr
          exact ih.exec gd (.resumeLabel L p) _ _ hc
    | gosub L =>
      have i1 := fun gd m s => ih.exec gd P m s hP
      cases m with
      | seek L0 => simp [exec, Good]
      | run =>
        simp only [exec]
        split
        all_goals first | (simp [Good]; done) | exact i1 _ _ _
    | seq a b =>
      have ha : Cov Q R S a := sub hc
      have hb : Cov Q R S b := sub hc
      have i1 := fun m s => ih.exec gd a m s ha
      have i2 := fun m s => ih.exec gd b m s hb
      have i3 := fun m s => ih.exec gd (.seq a b) m s hc
      simp only [exec]
      repeat' split
      all_goals first | exact i1 _ _ | exact i2 _ _ | exact i3 _ _ | simp [Good]
    | assign x t e p =>
      cases m with
      | seek L0 => simp [exec, Good]
      | run =>
        simp only [exec]
        split
        · simp [Good]
        · simp [Good]
        · rename_i c q he
          have hr := ih.raise gd c q s
            (.inl ⟨(evalTo_err' he).1, hc.1 _ (by simp [stmtPosns, (evalTo_err' he).2])⟩)
          unit_tail hr
          exact ih.exec gd (.assign x t e p) _ _ hc
    | print items p =>
      have hpi := RbThm.C11Layers2.Jumps.printItems_good (Q := Q) (R := fun _ => True) items s.st
        (fun q hq => hc.1 q (by simp [stmtPosns, hq]))
      cases m with
      | seek L0 => simp [exec, Good]
      | run =>
        simp only [exec]
        split
        · split <;> simp [Good]
        · rename_i st' c q he
          rw [he] at hpi
          have hr := ih.raise gd c q { s with st := st' } (.inl ⟨hpi.1, hpi.2⟩)
          unit_tail hr
          exact ih.exec gd (.print items p) _ _ hc
        · simp [Good]
    | read vars p =>
      cases m with
      | seek L0 => simp [exec, Good]
      | run =>
        simp only [exec]
        split
        · simp [Good]
        · simp [Good]
        · rename_i st' c q he
          have hf := readVars_fail p vars _ _ _ he
          have hr := ih.raise gd c q { s with st := st' }
            (hf.src (fun r hr => by simp at hr; exact hr ▸ hc.1 p (by simp [stmtPosns])))
          unit_tail hr
          exact ih.exec gd (.read vars p) _ _ hc
    | ifs c thn els p =>
      have hthn : Cov Q R S thn := sub hc
      have hels : Cov Q R S els := sub hc
      have i1 := fun m s => ih.exec gd thn m s hthn
      have i2 := fun m s => ih.exec gd els m s hels
      have i3 := fun m s => ih.exec gd (.ifs c thn els p) m s hc
      have hu := ih.condUnit gd c true s (fun q hq => hc.1 q (by simp [stmtPosns, hq]))
      cases m <;> simp only [exec] <;> repeat' split
      all_goals first
        | exact i1 _ _ | exact i2 _ _ | exact i3 _ _
        | (simp [Good]; done)
        | (rename_i heq; rw [heq] at hu; exact hu)
    | select e cs p =>
      have hcs : CovC Q R S cs := sub hc
      have hp : Q p := hc.1 p (by simp [stmtPosns])
      have i1 := fun subj s => ih.execCases gd p subj cs s hp hcs
      have i2 := fun L s => ih.selectSeek gd cs L s hcs
      cases m with
      | seek L0 => simp only [exec]; split <;> simp [Good]
      | run =>
        simp only [exec]
        split
        · simp [Good]
        · rename_i c q he
          have hr := ih.raise gd c q s ((evalE_fail he).src (fun r hr => hc.1 r (by simp [stmtPosns, hr])))
          unit_tail hr
          exact ih.exec gd (.select e cs p) _ _ hc
        · repeat' split
          all_goals first | exact i1 _ _ | exact i2 _ _ | simp [Good]
    | forLoop x t lo hi step body p =>
      have hbody : Cov Q R S body := sub hc
      have hp : Q p := hc.1 p (by simp [stmtPosns])
      cases m with
      | seek L0 => simp only [exec]; split <;> simp [Good]
      | run =>
        simp only [exec]
        split
        · exact ih.forIter gd x t _ _ _ body p _ _ _ hp hbody
        · simp [Good]
        · rename_i st' c q he
          have hf := forHeader_fail he
          have hr := ih.raise gd c q { s with st := st' } (hf.src (fun r hr => hc.1 r (by
            simp only [List.mem_cons, List.mem_append] at hr
            rcases hr with hr | (hr | hr) | hr <;> simp [stmtPosns, hr])))
          unit_tail hr
          exact ih.exec gd (.forLoop x t lo hi step body p) _ _ hc
    | «while» c body p =>
      have hbody : Cov Q R S body := sub hc
      have i1 := fun m s => ih.exec gd body m s hbody
      have i3 := fun m s => ih.exec gd (.while c body p) m s hc
      have hu := ih.condUnit gd c true s (fun q hq => hc.1 q (by simp [stmtPosns, hq]))
      cases m <;> simp only [exec] <;> repeat' split
      all_goals first
        | exact i1 _ _ | exact i3 _ _
        | (simp [Good]; done)
        | (rename_i heq; rw [heq] at hu; exact hu)
    | doLoop c top u body p =>
      have hbody : Cov Q R S body := sub hc
      have i1 := fun m s => ih.exec gd body m s hbody
      have i3 := fun m s => ih.exec gd (.doLoop c top u body p) m s hc
      have hu := ih.condUnit gd c (!u) s (fun q hq => hc.1 q (by simp [stmtPosns, hq]))
      cases m <;> cases top <;> simp only [exec] <;> repeat' split
      all_goals first
        | exact i1 _ _ | exact i3 _ _ | exact ih.doBottom gd c u body p _ hc
        | (simp [Good]; done)
        | (rename_i heq; rw [heq] at hu; exact hu)
  · intro gd c p s hs
    simp only [raise]
    split
    · exact hs
    · split <;> simp [GoodD, Good]
    · split
      · simp [GoodD, Good]
      · exact dispOfHandler_good (ih.exec gd P _ _ hP)
  · intro gd c skipAs s hcq
    simp only [condUnit]
    split
    · simp [GoodDec]
    · simp [GoodDec, Good]
    · rename_i code q he
      have hr := ih.raise gd code q s ((evalCond_fail he).src hcq)
      unit_tail hr
      all_goals simp [GoodDec]
  · intro gd c u body p s hc
    have hu := ih.condUnit gd c u s (fun q hq => hc.1 q (by simp [stmtPosns, hq]))
    simp only [doBottom]
    split
    · split
      · exact ih.exec gd _ _ _ hc
      · simp [Good]
    · exact ih.doBottom gd c u body p _ hc
    · split
      · exact ih.exec gd _ _ _ hc
      · simp [Good]
    · rename_i heq; rw [heq] at hu; exact hu
  · intro gd q subj cs s hq hc
    cases cs with
    | nil => simp [execCases, Good]
    | else_ body =>
      simp only [execCases]
      exact ih.exec gd body _ _ (sub hc)
    | case conds body rest =>
      have hbody : Cov Q R S body := sub hc
      have hrest : CovC Q R S rest := sub hc
      simp only [execCases]
      split
      · exact ih.exec gd body _ _ hbody
      · exact ih.execCases gd q subj rest s hq hrest
      · simp [Good]
      · rename_i c r he
        have hr := ih.raise gd c r s ((anyMatches_fail he).src (by
          intro a ha
          simp only [List.mem_cons] at ha
          rcases ha with rfl | ha
          · exact hq
          · exact hc.1 a (by simp [casesPosns, ha])))
        unit_tail hr
        · exact ih.execCases gd q subj (.case conds body rest) _ hq hc
        · exact ih.exec gd body _ _ hbody
  · intro gd cs L s hc
    cases cs with
    | nil => simp [seekCases, Good]
    | else_ body =>
      simp only [seekCases]
      exact ih.exec gd body _ _ (sub hc)
    | case conds body rest =>
      have hbody : Cov Q R S body := sub hc
      have hrest : CovC Q R S rest := sub hc
      simp only [seekCases]
      split
      · exact ih.exec gd body _ _ hbody
      · exact ih.seekCases gd rest L s hrest
  · intro gd cs L s hc
    simp only [selectSeek]
    repeat' split
    all_goals first | exact ih.selectSeek gd cs _ _ hc | exact ih.seekCases gd cs _ _ hc | simp [Good]
  · intro gd x t h sv up body q m atNext s hq hc
    have i1 := fun m s => ih.exec gd body m s hc
    have i2 := fun m a s => ih.forIter gd x t h sv up body q m a s hq hc
    simp only [forIter]
    split
    · split
      · exact i2 _ _ _
      · simp [Good]
      · rename_i e he
        have hr := ih.raise gd (codeOf e) q s (.inl ⟨codeOf_mem e, hq⟩)
        split
        · exact i2 _ _ _
        · simp [Good]
        · split
          · exact i2 _ _ _
          · simp [Good]
        · rename_i heq; rw [heq] at hr; exact hr
    · split
      · rename_i o heq
        split
        · rename_i c r hf
          split at heq
          · have := leafFail_of_out (RbThm.C11Layers2.Jumps.relTest_out heq)
            rw [hf] at this
            exact this.src (fun a ha => by simp at ha; exact ha ▸ hq)
          · cases heq
        · simp [Good]
      · simp [Good]
      · repeat' split
        all_goals first | exact i1 _ _ | exact i2 _ _ _ | simp [Good]

theorem inv_all (P : Stmt) (Q R S : Pos → Prop) (hP : Cov Q R S P) : ∀ n, Inv P Q R S n
  | 0 => inv_zero P Q R S
  | n + 1 => inv_succ P Q R S hP n (inv_all P Q R S hP n)

/-! ### the source tree (`SStmt`, what the front end delivers) and its desugaring -/

mutual
/-- every position that occurs in a statement of the source syntax (there `label`, `GOTO`, `GOSUB`, `ON ERROR …` carry one
too) -/
def sstmtPosns : SStmt → List Pos
  | .skip => []
  | .seq a b => sstmtPosns a ++ sstmtPosns b
  | .comment => []
  | .dim _ _ p => [p]
  | .assign _ _ e p => p :: exprPosns e
  | .print items p => p :: items.flatMap itemPosns
  | .data items p => p :: items.map (·.2)
  | .read vars p => p :: vars.map (·.2.2)
  | .ifBlock c thn elifs _ els p => p :: (exprPosns c ++ sstmtPosns thn ++ elifsPosns elifs ++ sstmtPosns els)
  | .select e cases _ els p => p :: (exprPosns e ++ scasesPosns cases ++ sstmtPosns els)
  | .forLoop _ _ lo hi step body p => p :: (exprPosns lo ++ exprPosns hi ++ optExprPosns step ++ sstmtPosns body)
  | .while c body p => p :: (exprPosns c ++ sstmtPosns body)
  | .doLoop c _ _ body p => p :: (exprPosns c ++ sstmtPosns body)
  | .end_ p => [p]
  | .label _ _ p => [p]
  | .goto _ p => [p]
  | .gosub _ p => [p]
  | .ret p => [p]
  | .onErrorGoto _ p => [p]
  | .onErrorResumeNext p => [p]
  | .onErrorGoto0 p => [p]
  | .resume p => [p]
  | .resumeNext p => [p]
  | .resumeLabel _ p => [p]
def elifsPosns : ElseIfs → List Pos
  | .nil => []
  | .cons c body rest => exprPosns c ++ sstmtPosns body ++ elifsPosns rest
def scasesPosns : SCases → List Pos
  | .nil => []
  | .cons conds body rest => conds.flatMap caseExprPosns ++ sstmtPosns body ++ scasesPosns rest
end

mutual
/-- the positions of the RETURN statements of the source tree -/
def retPosns : SStmt → List Pos
  | .seq a b => retPosns a ++ retPosns b
  | .ifBlock _ thn elifs _ els _ => retPosns thn ++ elifsRetPosns elifs ++ retPosns els
  | .select _ cases _ els _ => scasesRetPosns cases ++ retPosns els
  | .forLoop _ _ _ _ _ body _ => retPosns body
  | .while _ body _ => retPosns body
  | .doLoop _ _ _ body _ => retPosns body
  | .ret p => [p]
  | .skip => []
  | .comment => []
  | .dim .. => []
  | .assign .. => []
  | .print .. => []
  | .data .. => []
  | .read .. => []
  | .end_ _ => []
  | .label .. => []
  | .goto .. => []
  | .gosub .. => []
  | .onErrorGoto .. => []
  | .onErrorResumeNext _ => []
  | .onErrorGoto0 _ => []
  | .resume _ => []
  | .resumeNext _ => []
  | .resumeLabel .. => []
def elifsRetPosns : ElseIfs → List Pos
  | .nil => []
  | .cons _ body rest => retPosns body ++ elifsRetPosns rest
def scasesRetPosns : SCases → List Pos
  | .nil => []
  | .cons _ body rest => retPosns body ++ scasesRetPosns rest
end

mutual
/-- the positions of the RESUME / RESUME NEXT / RESUME label statements of the source tree -/
def resumePosns : SStmt → List Pos
  | .seq a b => resumePosns a ++ resumePosns b
  | .ifBlock _ thn elifs _ els _ => resumePosns thn ++ elifsResumePosns elifs ++ resumePosns els
  | .select _ cases _ els _ => scasesResumePosns cases ++ resumePosns els
  | .forLoop _ _ _ _ _ body _ => resumePosns body
  | .while _ body _ => resumePosns body
  | .doLoop _ _ _ body _ => resumePosns body
  | .resume p => [p]
  | .resumeNext p => [p]
  | .resumeLabel _ p => [p]
  | .ret _ => []
  | .skip => []
  | .comment => []
  | .dim .. => []
  | .assign .. => []
  | .print .. => []
  | .data .. => []
  | .read .. => []
  | .end_ _ => []
  | .label .. => []
  | .goto .. => []
  | .gosub .. => []
  | .onErrorGoto .. => []
  | .onErrorResumeNext _ => []
  | .onErrorGoto0 _ => []
def elifsResumePosns : ElseIfs → List Pos
  | .nil => []
  | .cons _ body rest => resumePosns body ++ elifsResumePosns rest
def scasesResumePosns : SCases → List Pos
  | .nil => []
  | .cons _ body rest => resumePosns body ++ scasesResumePosns rest
end

mutual
/-- desugaring adds no positions -/
theorem desugar_posns (q : Pos) : ∀ s : SStmt, q ∈ stmtPosns (desugar s) → q ∈ sstmtPosns s
  | .skip, h => by simp [desugar, stmtPosns] at h
  | .comment, h => by simp [desugar, stmtPosns] at h
  | .data _ _, h => by simp [desugar, stmtPosns] at h
  | .label _ _ _, h => by simp [desugar, stmtPosns] at h
  | .goto _ _, h => by simp [desugar, stmtPosns] at h
  | .gosub _ _, h => by simp [desugar, stmtPosns] at h
  | .onErrorGoto _ _, h => by simp [desugar, stmtPosns] at h
  | .onErrorResumeNext _, h => by simp [desugar, stmtPosns] at h
  | .onErrorGoto0 _, h => by simp [desugar, stmtPosns] at h
  | .seq a b, h => by
    simp only [desugar, stmtPosns, List.mem_append] at h
    rcases h with h | h
    · simp [sstmtPosns, desugar_posns q a h]
    · simp [sstmtPosns, desugar_posns q b h]
  | .dim x t p, h => by simpa [desugar, stmtPosns, exprPosns, sstmtPosns] using h
  | .assign x t e p, h => by simpa [desugar, stmtPosns, sstmtPosns] using h
  | .print items p, h => by simpa [desugar, stmtPosns, sstmtPosns] using h
  | .read vars p, h => by
    simp only [desugar, stmtPosns, List.mem_singleton] at h
    simp [sstmtPosns, h]
  | .ifBlock c thn elifs he els p, h => by
    simp only [desugar, stmtPosns, List.mem_append, List.mem_cons] at h
    rcases h with h | (h | h) | h
    · simp [sstmtPosns, h]
    · simp [sstmtPosns, h]
    · simp [sstmtPosns, desugar_posns q thn h]
    · rcases desugarElifs_posns q elifs (desugar els) p h with h1 | h1 | h1
      · simp [sstmtPosns, h1]
      · simp [sstmtPosns, h1]
      · simp [sstmtPosns, desugar_posns q els h1]
  | .select e cases he els p, h => by
    simp only [desugar, stmtPosns, List.mem_append, List.mem_cons] at h
    rcases h with h | h | h
    · simp [sstmtPosns, h]
    · simp [sstmtPosns, h]
    · rcases desugarCases_posns q cases _ h with h1 | h1
      · simp [sstmtPosns, h1]
      · cases he with
        | true =>
          simp only [if_true, casesPosns] at h1
          simp [sstmtPosns, desugar_posns q els h1]
        | false => simp [casesPosns] at h1
  | .forLoop x t lo hi step body p, h => by
    simp only [desugar, stmtPosns, List.mem_append, List.mem_cons] at h
    rcases h with h | ((h | h) | h) | h
    · simp [sstmtPosns, h]
    · simp [sstmtPosns, h]
    · simp [sstmtPosns, h]
    · simp [sstmtPosns, h]
    · simp [sstmtPosns, desugar_posns q body h]
  | .while c body p, h => by
    simp only [desugar, stmtPosns, List.mem_append, List.mem_cons] at h
    rcases h with h | h | h
    · simp [sstmtPosns, h]
    · simp [sstmtPosns, h]
    · simp [sstmtPosns, desugar_posns q body h]
  | .doLoop c top u body p, h => by
    simp only [desugar, stmtPosns, List.mem_append, List.mem_cons] at h
    rcases h with h | h | h
    · simp [sstmtPosns, h]
    · simp [sstmtPosns, h]
    · simp [sstmtPosns, desugar_posns q body h]
  | .end_ p, h => by simpa [desugar, stmtPosns, sstmtPosns] using h
  | .ret p, h => by simpa [desugar, stmtPosns, sstmtPosns] using h
  | .resume p, h => by simpa [desugar, stmtPosns, sstmtPosns] using h
  | .resumeNext p, h => by simpa [desugar, stmtPosns, sstmtPosns] using h
  | .resumeLabel _ p, h => by simpa [desugar, stmtPosns, sstmtPosns] using h
theorem desugarElifs_posns (q : Pos) : ∀ (e : ElseIfs) (els : Stmt) (p : Pos),
    q ∈ stmtPosns (desugarElifs e els p) → q = p ∨ q ∈ elifsPosns e ∨ q ∈ stmtPosns els
  | .nil, els, p, h => by simp only [desugarElifs] at h; exact .inr (.inr h)
  | .cons c body rest, els, p, h => by
    simp only [desugarElifs, stmtPosns, List.mem_append, List.mem_cons] at h
    rcases h with h | (h | h) | h
    · exact .inl h
    · exact .inr (.inl (by simp [elifsPosns, h]))
    · exact .inr (.inl (by simp [elifsPosns, desugar_posns q body h]))
    · rcases desugarElifs_posns q rest els p h with h1 | h1 | h1
      · exact .inl h1
      · exact .inr (.inl (by simp [elifsPosns, h1]))
      · exact .inr (.inr h1)
theorem desugarCases_posns (q : Pos) : ∀ (cs : SCases) (tail : Cases),
    q ∈ casesPosns (desugarCases cs tail) → q ∈ scasesPosns cs ∨ q ∈ casesPosns tail
  | .nil, tail, h => by simp only [desugarCases] at h; exact .inr h
  | .cons conds body rest, tail, h => by
    simp only [desugarCases, casesPosns, List.mem_append] at h
    rcases h with (h | h) | h
    · exact .inl (by simp [scasesPosns, h])
    · exact .inl (by simp [scasesPosns, desugar_posns q body h])
    · rcases desugarCases_posns q rest tail h with h1 | h1
      · exact .inl (by simp [scasesPosns, h1])
      · exact .inr h1
end

mutual
/-- desugaring adds no RETURN -/
theorem desugar_retPosns (q : Pos) : ∀ s : SStmt, q ∈ stmtRetPosns (desugar s) → q ∈ retPosns s
  | .skip, h => by simp [desugar, stmtRetPosns] at h
  | .comment, h => by simp [desugar, stmtRetPosns] at h
  | .data _ _, h => by simp [desugar, stmtRetPosns] at h
  | .label _ _ _, h => by simp [desugar, stmtRetPosns] at h
  | .goto _ _, h => by simp [desugar, stmtRetPosns] at h
  | .gosub _ _, h => by simp [desugar, stmtRetPosns] at h
  | .onErrorGoto _ _, h => by simp [desugar, stmtRetPosns] at h
  | .onErrorResumeNext _, h => by simp [desugar, stmtRetPosns] at h
  | .onErrorGoto0 _, h => by simp [desugar, stmtRetPosns] at h
  | .resume _, h => by simp [desugar, stmtRetPosns] at h
  | .resumeNext _, h => by simp [desugar, stmtRetPosns] at h
  | .resumeLabel _ _, h => by simp [desugar, stmtRetPosns] at h
  | .dim x t p, h => by simp [desugar, stmtRetPosns] at h
  | .assign x t e p, h => by simp [desugar, stmtRetPosns] at h
  | .print items p, h => by simp [desugar, stmtRetPosns] at h
  | .end_ p, h => by simp [desugar, stmtRetPosns] at h
  | .read vars p, h => by simp [desugar, stmtRetPosns] at h
  | .ret p, h => by simpa [desugar, stmtRetPosns, retPosns] using h
  | .seq a b, h => by
    simp only [desugar, stmtRetPosns, List.mem_append] at h
    rcases h with h | h
    · simp [retPosns, desugar_retPosns q a h]
    · simp [retPosns, desugar_retPosns q b h]
  | .ifBlock c thn elifs he els p, h => by
    simp only [desugar, stmtRetPosns, List.mem_append] at h
    rcases h with h | h
    · simp [retPosns, desugar_retPosns q thn h]
    · rcases desugarElifs_retPosns q elifs (desugar els) p h with h1 | h1
      · simp [retPosns, h1]
      · simp [retPosns, desugar_retPosns q els h1]
  | .select e cases he els p, h => by
    simp only [desugar, stmtRetPosns] at h
    rcases desugarCases_retPosns q cases _ h with h1 | h1
    · simp [retPosns, h1]
    · cases he with
      | true =>
        simp only [if_true, casesRetPosns] at h1
        simp [retPosns, desugar_retPosns q els h1]
      | false => simp [casesRetPosns] at h1
  | .forLoop x t lo hi step body p, h => by
    simp only [desugar, stmtRetPosns] at h
    simp [retPosns, desugar_retPosns q body h]
  | .while c body p, h => by
    simp only [desugar, stmtRetPosns] at h
    simp [retPosns, desugar_retPosns q body h]
  | .doLoop c top u body p, h => by
    simp only [desugar, stmtRetPosns] at h
    simp [retPosns, desugar_retPosns q body h]
theorem desugarElifs_retPosns (q : Pos) : ∀ (e : ElseIfs) (els : Stmt) (p : Pos),
    q ∈ stmtRetPosns (desugarElifs e els p) → q ∈ elifsRetPosns e ∨ q ∈ stmtRetPosns els
  | .nil, els, p, h => by simp only [desugarElifs] at h; exact .inr h
  | .cons c body rest, els, p, h => by
    simp only [desugarElifs, stmtRetPosns, List.mem_append] at h
    rcases h with h | h
    · exact .inl (by simp [elifsRetPosns, desugar_retPosns q body h])
    · rcases desugarElifs_retPosns q rest els p h with h1 | h1
      · exact .inl (by simp [elifsRetPosns, h1])
      · exact .inr h1
theorem desugarCases_retPosns (q : Pos) : ∀ (cs : SCases) (tail : Cases),
    q ∈ casesRetPosns (desugarCases cs tail) → q ∈ scasesRetPosns cs ∨ q ∈ casesRetPosns tail
  | .nil, tail, h => by simp only [desugarCases] at h; exact .inr h
  | .cons conds body rest, tail, h => by
    simp only [desugarCases, casesRetPosns, List.mem_append] at h
    rcases h with h | h
    · exact .inl (by simp [scasesRetPosns, desugar_retPosns q body h])
    · rcases desugarCases_retPosns q rest tail h with h1 | h1
      · exact .inl (by simp [scasesRetPosns, h1])
      · exact .inr h1
end

mutual
/-- desugaring adds no RESUME -/
theorem desugar_resumePosns (q : Pos) : ∀ s : SStmt, q ∈ stmtResumePosns (desugar s) → q ∈ resumePosns s
  | .skip, h => by simp [desugar, stmtResumePosns] at h
  | .comment, h => by simp [desugar, stmtResumePosns] at h
  | .data _ _, h => by simp [desugar, stmtResumePosns] at h
  | .label _ _ _, h => by simp [desugar, stmtResumePosns] at h
  | .goto _ _, h => by simp [desugar, stmtResumePosns] at h
  | .gosub _ _, h => by simp [desugar, stmtResumePosns] at h
  | .onErrorGoto _ _, h => by simp [desugar, stmtResumePosns] at h
  | .onErrorResumeNext _, h => by simp [desugar, stmtResumePosns] at h
  | .onErrorGoto0 _, h => by simp [desugar, stmtResumePosns] at h
  | .ret _, h => by simp [desugar, stmtResumePosns] at h
  | .dim x t p, h => by simp [desugar, stmtResumePosns] at h
  | .assign x t e p, h => by simp [desugar, stmtResumePosns] at h
  | .print items p, h => by simp [desugar, stmtResumePosns] at h
  | .end_ p, h => by simp [desugar, stmtResumePosns] at h
  | .read vars p, h => by simp [desugar, stmtResumePosns] at h
  | .resume p, h => by simpa [desugar, stmtResumePosns, resumePosns] using h
  | .resumeNext p, h => by simpa [desugar, stmtResumePosns, resumePosns] using h
  | .resumeLabel _ p, h => by simpa [desugar, stmtResumePosns, resumePosns] using h
  | .seq a b, h => by
    simp only [desugar, stmtResumePosns, List.mem_append] at h
    rcases h with h | h
    · simp [resumePosns, desugar_resumePosns q a h]
    · simp [resumePosns, desugar_resumePosns q b h]
  | .ifBlock c thn elifs he els p, h => by
    simp only [desugar, stmtResumePosns, List.mem_append] at h
    rcases h with h | h
    · simp [resumePosns, desugar_resumePosns q thn h]
    · rcases desugarElifs_resumePosns q elifs (desugar els) p h with h1 | h1
      · simp [resumePosns, h1]
      · simp [resumePosns, desugar_resumePosns q els h1]
  | .select e cases he els p, h => by
    simp only [desugar, stmtResumePosns] at h
    rcases desugarCases_resumePosns q cases _ h with h1 | h1
    · simp [resumePosns, h1]
    · cases he with
      | true =>
        simp only [if_true, casesResumePosns] at h1
        simp [resumePosns, desugar_resumePosns q els h1]
      | false => simp [casesResumePosns] at h1
  | .forLoop x t lo hi step body p, h => by
    simp only [desugar, stmtResumePosns] at h
    simp [resumePosns, desugar_resumePosns q body h]
  | .while c body p, h => by
    simp only [desugar, stmtResumePosns] at h
    simp [resumePosns, desugar_resumePosns q body h]
  | .doLoop c top u body p, h => by
    simp only [desugar, stmtResumePosns] at h
    simp [resumePosns, desugar_resumePosns q body h]
theorem desugarElifs_resumePosns (q : Pos) : ∀ (e : ElseIfs) (els : Stmt) (p : Pos),
    q ∈ stmtResumePosns (desugarElifs e els p) → q ∈ elifsResumePosns e ∨ q ∈ stmtResumePosns els
  | .nil, els, p, h => by simp only [desugarElifs] at h; exact .inr h
  | .cons c body rest, els, p, h => by
    simp only [desugarElifs, stmtResumePosns, List.mem_append] at h
    rcases h with h | h
    · exact .inl (by simp [elifsResumePosns, desugar_resumePosns q body h])
    · rcases desugarElifs_resumePosns q rest els p h with h1 | h1
      · exact .inl (by simp [elifsResumePosns, h1])
      · exact .inr h1
theorem desugarCases_resumePosns (q : Pos) : ∀ (cs : SCases) (tail : Cases),
    q ∈ casesResumePosns (desugarCases cs tail) → q ∈ scasesResumePosns cs ∨ q ∈ casesResumePosns tail
  | .nil, tail, h => by simp only [desugarCases] at h; exact .inr h
  | .cons conds body rest, tail, h => by
    simp only [desugarCases, casesResumePosns, List.mem_append] at h
    rcases h with h | h
    · exact .inl (by simp [scasesResumePosns, desugar_resumePosns q body h])
    · rcases desugarCases_resumePosns q rest tail h with h1 | h1
      · exact .inl (by simp [scasesResumePosns, h1])
      · exact .inr h1
end

/-! ### the invariant in the form "every position of the piece has `Q`" -/

theorem cov_of_posns {Q : Pos → Prop} {st : Stmt} (h : ∀ q ∈ stmtPosns st, Q q) : Cov Q Q Q st :=
  ⟨h, fun q hq => h q (stmtRetPosns_sub q st hq), fun q hq => h q (stmtResumePosns_sub q st hq)⟩

theorem src_pos {Q : Pos → Prop} {c : Nat} {p : Pos} (h : Src Q Q Q c p) : Q p := by
  rcases h with h | h | h <;> exact h.2

/-- with `Q` a property of every position of the whole body `P` (a GOSUB and a handler run `P` again), at every amount of
fuel, for all eight functions in every mode: an outcome `error c p` of a piece all of whose positions have `Q` has `Q p` -/
theorem inv_pos (P : Stmt) (Q : Pos → Prop) (hP : ∀ q ∈ stmtPosns P, Q q) (fuel : Nat) : Inv P Q Q Q fuel :=
  inv_all P Q Q Q (cov_of_posns hP) fuel

/-- statement level, general form: an error that comes out of a statement `st` run inside the program body `P` has a
statement code at a position with `Q`, or is error 3 at a position with `R`, or error 20 at a position with `S` -/
theorem exec_error_src (P : Stmt) (Q R S : Pos → Prop) (hP : Cov Q R S P) (fuel gd : Nat) (st : Stmt) (m : Mode)
    (s s' : ESt) (c : Nat) (p : Pos) (hst : Cov Q R S st)
    (h : ErrL.Ref.exec fuel P gd st m s = (s', .error c p)) : Src Q R S c p := by
  have := (inv_all P Q R S hP fuel).exec gd st m s hst
  rw [h] at this
  exact this

/-- the same for a failing unit: what `raise` answers for a failure `c0` at `p0` that is itself `Src` -/
theorem raise_error_src (P : Stmt) (Q R S : Pos → Prop) (hP : Cov Q R S P) (fuel gd c0 : Nat) (p0 : Pos)
    (s s' : ESt) (c : Nat) (p : Pos) (h0 : Src Q R S c0 p0)
    (h : ErrL.Ref.raise fuel P gd c0 p0 s = (s', .out (.error c p))) : Src Q R S c p := by
  have := (inv_all P Q R S hP fuel).raise gd c0 p0 s h0
  rw [h] at this
  exact this

/-- **statement level** — for any statement `st` of any program body `P` (all of whose positions have `Q`): an error that
comes out of `st` is at a position with `Q` -/
theorem exec_error_pos (P : Stmt) (Q : Pos → Prop) (hP : ∀ q ∈ stmtPosns P, Q q) (fuel gd : Nat) (st : Stmt) (m : Mode)
    (s s' : ESt) (c : Nat) (p : Pos) (hst : ∀ q ∈ stmtPosns st, Q q)
    (h : ErrL.Ref.exec fuel P gd st m s = (s', .error c p)) : Q p :=
  src_pos (exec_error_src P Q Q Q (cov_of_posns hP) fuel gd st m s s' c p (cov_of_posns hst) h)

/-- **a failing unit** — whatever the code `c0` of the failure: the error `raise` answers is at the unit's own position
`p0` (handler mode `none`) or is passed on from the handler's run of the whole body `P` -/
theorem raise_error_pos (P : Stmt) (Q : Pos → Prop) (hP : ∀ q ∈ stmtPosns P, Q q) (fuel gd c0 : Nat) (p0 : Pos)
    (s s' : ESt) (c : Nat) (p : Pos) (h0 : Q p0)
    (h : ErrL.Ref.raise fuel P gd c0 p0 s = (s', .out (.error c p))) : Q p := by
  cases fuel with
  | zero => simp [raise] at h
  | succ n =>
    simp only [raise] at h
    split at h
    · cases h; exact h0
    · split at h <;> cases h
    · split at h
      · cases h
      · rename_i L hm hi
        generalize hr : ErrL.Ref.exec n P gd P (.seek L) { s with inH := true, err := some c0 } = r at h
        obtain ⟨s1, o⟩ := r
        have ho : dispOfHandler o = .out (.error c p) := by
          simp only [Prod.mk.injEq] at h; exact h.2
        have : o = .error c p := by
          cases o with
          | resumed k => cases k <;> simp [dispOfHandler] at ho
          | error c' p' => simpa [dispOfHandler] using ho
          | _ => simp [dispOfHandler] at ho
        subst this
        exact exec_error_pos P Q hP n gd P _ _ _ c p hP hr

/-- the code of the error a failing unit answers: the unit's own or one of a statement of the body -/
theorem raise_error_code (P : Stmt) (fuel gd c0 : Nat) (p0 : Pos) (s s' : ESt) (c : Nat) (p : Pos)
    (h : ErrL.Ref.raise fuel P gd c0 p0 s = (s', .out (.error c p))) :
    c = c0 ∨ c ∈ stmtCodes ∨ c = 3 ∨ c = 20 := by
  cases fuel with
  | zero => simp [raise] at h
  | succ n =>
    simp only [raise] at h
    split at h
    · cases h; exact .inl rfl
    · split at h <;> cases h
    · split at h
      · cases h
      · rename_i L hm hi
        generalize hr : ErrL.Ref.exec n P gd P (.seek L) { s with inH := true, err := some c0 } = r at h
        obtain ⟨s1, o⟩ := r
        have ho : dispOfHandler o = .out (.error c p) := by
          simp only [Prod.mk.injEq] at h; exact h.2
        have : o = .error c p := by
          cases o with
          | resumed k => cases k <;> simp [dispOfHandler] at ho
          | error c' p' => simpa [dispOfHandler] using ho
          | _ => simp [dispOfHandler] at ho
        subst this
        have hT : Cov (fun _ => True) (fun _ => True) (fun _ => True) P :=
          ⟨fun _ _ => trivial, fun _ _ => trivial, fun _ _ => trivial⟩
        rcases exec_error_src P _ _ _ hT n gd P _ _ _ c p hT hr with h1 | h1 | h1
        · exact .inr (.inl h1.1)
        · exact .inr (.inr (.inl h1.1))
        · exact .inr (.inr (.inr h1.1))

/-- the codes of a statement: a statement code, 3 (RETURN without GOSUB) or 20 (RESUME without error) -/
theorem exec_error_code (P : Stmt) (fuel gd : Nat) (st : Stmt) (m : Mode) (s s' : ESt) (c : Nat) (p : Pos)
    (h : ErrL.Ref.exec fuel P gd st m s = (s', .error c p)) : c ∈ stmtCodes ∨ c = 3 ∨ c = 20 := by
  have hT : ∀ st, Cov (fun _ => True) (fun _ => True) (fun _ => True) st :=
    fun _ => ⟨fun _ _ => trivial, fun _ _ => trivial, fun _ _ => trivial⟩
  rcases exec_error_src P _ _ _ (hT P) fuel gd st m s s' c p (hT st) h with h1 | h1 | h1
  · exact .inl h1.1
  · exact .inr (.inl h1.1)
  · exact .inr (.inr h1.1)

/-- error 3 that comes out of a statement is at a RETURN of that statement or (through a GOSUB / a handler) of the body -/
theorem exec_error3_at_return (P : Stmt) (fuel gd : Nat) (st : Stmt) (m : Mode) (s s' : ESt) (p : Pos)
    (h : ErrL.Ref.exec fuel P gd st m s = (s', .error 3 p)) : p ∈ stmtRetPosns st ∨ p ∈ stmtRetPosns P := by
  rcases exec_error_src P (fun _ => True) (fun q => q ∈ stmtRetPosns st ∨ q ∈ stmtRetPosns P) (fun _ => True)
    ⟨fun _ _ => trivial, fun q hq => .inr hq, fun _ _ => trivial⟩ fuel gd st m s s' 3 p
    ⟨fun _ _ => trivial, fun q hq => .inl hq, fun _ _ => trivial⟩ h with h1 | h1 | h1
  · exact absurd h1.1 three_not_stmtCode
  · exact h1.2
  · exact absurd h1.1 (by decide)

/-- error 20 that comes out of a statement is at a RESUME of that statement or of the body -/
theorem exec_error20_at_resume (P : Stmt) (fuel gd : Nat) (st : Stmt) (m : Mode) (s s' : ESt) (p : Pos)
    (h : ErrL.Ref.exec fuel P gd st m s = (s', .error 20 p)) : p ∈ stmtResumePosns st ∨ p ∈ stmtResumePosns P := by
  rcases exec_error_src P (fun _ => True) (fun _ => True) (fun q => q ∈ stmtResumePosns st ∨ q ∈ stmtResumePosns P)
    ⟨fun _ _ => trivial, fun _ _ => trivial, fun q hq => .inr hq⟩ fuel gd st m s s' 20 p
    ⟨fun _ _ => trivial, fun _ _ => trivial, fun q hq => .inl hq⟩ h with h1 | h1 | h1
  · exact absurd h1.1 twenty_not_stmtCode
  · exact absurd h1.1 (by decide)
  · exact h1.2

/-! ### the property theorems -/

/-- where an error of `run` comes from: an error of the body, passed on -/
theorem run_error (prog : Program) (fuel c : Nat) (p : Pos) (h : (ErrL.Ref.run fuel prog).2 = .error c p) :
    ∃ s', ErrL.Ref.exec fuel prog.body 0 prog.body .run (ESt.init prog) = (s', .error c p) := by
  unfold ErrL.Ref.run at h
  generalize hr : ErrL.Ref.exec fuel prog.body 0 prog.body .run (ESt.init prog) = r at h
  obtain ⟨s', o⟩ := r
  cases o <;> simp only [Outcome.error.injEq, reduceCtorEq] at h
  obtain ⟨rfl, rfl⟩ := h
  exact ⟨s', rfl⟩

/-- **`ref_error_pos_within_program`** (error layer) — the position the reference semantics prescribes for a run-time
error — error 3 of a RETURN no GOSUB is waiting for and error 20 of a RESUME outside a handler included, with or without
ON ERROR handlers having run before — is a position carried by a node of the program's tree.  No premise. -/
theorem ref_error_pos_within_program (prog : SProgram) (fuel c : Nat) (p : Pos)
    (h : (ErrL.Ref.run fuel prog.toAst).2 = .error c p) : p ∈ sstmtPosns prog.body := by
  apply desugar_posns p prog.body
  obtain ⟨s', hr⟩ := run_error _ fuel c p h
  exact exec_error_pos _ (· ∈ stmtPosns (desugar prog.body)) (fun q hq => hq) fuel 0 _ _ _ _ c p (fun q hq => hq) hr

/-- the error codes of a reference run: Out of DATA (4), Overflow (6), Division by zero (11), Type mismatch (13), the
zero-STEP code (258); RETURN without GOSUB (3); RESUME without error (20) -/
theorem ref_error_code (prog : SProgram) (fuel c : Nat) (p : Pos)
    (h : (ErrL.Ref.run fuel prog.toAst).2 = .error c p) : c ∈ stmtCodes ∨ c = 3 ∨ c = 20 := by
  obtain ⟨s', hr⟩ := run_error _ fuel c p h
  exact exec_error_code _ fuel 0 _ _ _ _ c p hr

/-- **`return_without_gosub_at_return`** (error layer) — error 3 is reported at the position of a RETURN statement of the
program.  No premise. -/
theorem return_without_gosub_at_return (prog : SProgram) (fuel : Nat) (p : Pos)
    (h : (ErrL.Ref.run fuel prog.toAst).2 = .error 3 p) : p ∈ retPosns prog.body := by
  apply desugar_retPosns p prog.body
  obtain ⟨s', hr⟩ := run_error _ fuel 3 p h
  rcases exec_error3_at_return _ fuel 0 _ _ _ _ p hr with h1 | h1 <;> exact h1

/-- **`resume_without_error_at_resume`** — error 20 is reported at the position of a RESUME / RESUME NEXT / RESUME label
statement of the program.  No premise. -/
theorem resume_without_error_at_resume (prog : SProgram) (fuel : Nat) (p : Pos)
    (h : (ErrL.Ref.run fuel prog.toAst).2 = .error 20 p) : p ∈ resumePosns prog.body := by
  apply desugar_resumePosns p prog.body
  obtain ⟨s', hr⟩ := run_error _ fuel 20 p h
  rcases exec_error20_at_resume _ fuel 0 _ _ _ _ p hr with h1 | h1 <;> exact h1

/-! ### the hypotheses are satisfiable -/

/-- `b% = 32767 : v% = b% + 1` — an unhandled overflow -/
private def demoOvf : SProgram := ⟨[.int, .int],
  .seq (.assign 1 .int (.lit (.int 32767) ⟨1, 6⟩) ⟨1, 1⟩)
    (.seq (.assign 0 .int (.bin .plus (.var 1 .int ⟨2, 6⟩) (.lit (.int 1) ⟨2, 11⟩) .int ⟨2, 9⟩) ⟨2, 1⟩) .skip)⟩

/-- `PRINT 1 : RETURN` — RETURN without GOSUB -/
private def demoRet : SProgram := ⟨[],
  .seq (.print [.expr (.lit (.int 1) ⟨1, 7⟩)] ⟨1, 1⟩) (.seq (.ret ⟨2, 3⟩) .skip)⟩

/-- `PRINT 1 : RESUME NEXT` — RESUME outside a handler -/
private def demoResume : SProgram := ⟨[],
  .seq (.print [.expr (.lit (.int 1) ⟨1, 7⟩)] ⟨1, 1⟩) (.seq (.resumeNext ⟨7, 3⟩) .skip)⟩

/-- `ON ERROR RESUME NEXT : b% = 32767 : v% = b% + 1 : ON ERROR GOTO 0 : v% = b% + 1`: the first overflow is skipped, the
second one — after `ON ERROR GOTO 0` — ends the program -/
private def demoGoto0 : SProgram := ⟨[.int, .int],
  .seq (.onErrorResumeNext ⟨1, 1⟩)
    (.seq (.assign 1 .int (.lit (.int 32767) ⟨2, 6⟩) ⟨2, 1⟩)
      (.seq (.assign 0 .int (.bin .plus (.var 1 .int ⟨3, 6⟩) (.lit (.int 1) ⟨3, 11⟩) .int ⟨3, 9⟩) ⟨3, 1⟩)
        (.seq (.onErrorGoto0 ⟨4, 1⟩)
          (.seq (.assign 0 .int (.bin .plus (.var 1 .int ⟨5, 6⟩) (.lit (.int 1) ⟨5, 11⟩) .int ⟨5, 9⟩) ⟨5, 1⟩) .skip))))⟩

/-- `ON ERROR GOTO h : b% = 32767 : v% = b% + 1 : h: ON ERROR GOTO 0 : RESUME NEXT` — the overflow is handled; the text then
runs into the handler's lines again, where RESUME NEXT is now outside a handler → 20 -/
private def demoHandled : SProgram := ⟨[.int, .int],
  .seq (.onErrorGoto 0 ⟨1, 1⟩)
    (.seq (.assign 1 .int (.lit (.int 32767) ⟨2, 6⟩) ⟨2, 1⟩)
      (.seq (.assign 0 .int (.bin .plus (.var 1 .int ⟨3, 6⟩) (.lit (.int 1) ⟨3, 11⟩) .int ⟨3, 9⟩) ⟨3, 1⟩)
        (.seq (.label 0 "h" ⟨4, 1⟩)
          (.seq (.onErrorGoto0 ⟨5, 1⟩)
            (.seq (.resumeNext ⟨6, 3⟩) .skip)))))⟩

example : (ErrL.Ref.run 30 demoOvf.toAst).2 = .error 6 ⟨2, 9⟩ ∧ (⟨2, 9⟩ : Pos) ∈ sstmtPosns demoOvf.body ∧
    (6 ∈ stmtCodes ∨ 6 = 3 ∨ 6 = 20) :=
  ⟨by decide +kernel, ref_error_pos_within_program demoOvf 30 6 _ (by decide +kernel),
   ref_error_code demoOvf 30 6 ⟨2, 9⟩ (by decide +kernel)⟩

example : (ErrL.Ref.run 30 demoRet.toAst).2 = .error 3 ⟨2, 3⟩ ∧ (⟨2, 3⟩ : Pos) ∈ retPosns demoRet.body ∧
    retPosns demoRet.body = [⟨2, 3⟩] :=
  ⟨by decide +kernel, return_without_gosub_at_return demoRet 30 _ (by decide +kernel), by decide⟩

example : (ErrL.Ref.run 30 demoResume.toAst).2 = .error 20 ⟨7, 3⟩ ∧ (⟨7, 3⟩ : Pos) ∈ resumePosns demoResume.body ∧
    resumePosns demoResume.body = [⟨7, 3⟩] :=
  ⟨by decide +kernel, resume_without_error_at_resume demoResume 30 _ (by decide +kernel), by decide⟩

/-- an error after `ON ERROR GOTO 0` (the one before it was skipped by RESUME NEXT mode) -/
example : (ErrL.Ref.run 40 demoGoto0.toAst).2 = .error 6 ⟨5, 9⟩ ∧ (⟨5, 9⟩ : Pos) ∈ sstmtPosns demoGoto0.body :=
  ⟨by decide +kernel, ref_error_pos_within_program demoGoto0 40 6 _ (by decide +kernel)⟩

/-- an error raised after a handler has run: the overflow is handled (RESUME NEXT), the text then runs into the handler
again, where RESUME NEXT now fails with 20 at its own position — an `error` outcome that is produced in a state the
handler left -/
example : (ErrL.Ref.run 40 demoHandled.toAst).2 = .error 20 ⟨6, 3⟩ ∧ (⟨6, 3⟩ : Pos) ∈ resumePosns demoHandled.body :=
  ⟨by decide +kernel, resume_without_error_at_resume demoHandled 40 _ (by decide +kernel)⟩

/-- statement level (`raise_error_pos`): in mode `none` the unit's own position is answered -/
example : (ErrL.Ref.raise 5 .skip 0 6 ⟨9, 9⟩ (ESt.init ⟨[], [], .skip⟩)).2 = .out (.error 6 ⟨9, 9⟩) := by
  simp [raise, ESt.init]

end RbThm.C11ErrLPos
