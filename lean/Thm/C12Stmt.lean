import RbModel.TyStmt
import Thm.C12
import Thm.C12Edit
/-!
# C12: soundness of the model checker for statements (with calls, arrays and built-in functions)

`Thm/C12.lean` proves `C12_type_sound` for expressions: an expression accepted by the model checker (typed by
the converter, nothing found by the two walkers) evaluates without Type mismatch and to a value of the kind of
its static type.  Here the theorem is lifted to the statements of the model (`RbModel.Ty.Line`, the lines of the
`ty.lint` request) and to whole programs:

`C12_type_sound_program`: if `lint Γ us = none` (the function the driver runs), then for every unit, every line
of it and every state `σ` that agrees with the static types (`SemWF`), executing the line (`execLine`,
`RbModel/TyStmt.lean`: evaluation of its expressions by `eval`, plus the conversions of the statement — the
cast of an assignment to its target, of arguments to parameters, of FOR bounds to the counter, of subscripts and
DIM bounds to INTEGER, the numeric test of a condition, the comparisons of CASE items with the selector) does
not end in Type mismatch.

The theorem uses every pass of `lint`: the converter (`convUnit`), the two walkers, `subLine` (argument
types of SUB calls), `selectLine` (CASE items castable to the selector), `condLine` (numeric conditions; it is
attached to the END of the block, hence the premise `Paired`).

Premises besides acceptance (all about the serialisation, none about types):
* `GoodLine`: literals are in range for their type (what the parser produces; as in `C12_type_sound`);
* `LhsOk`: the target of an assignment is a variable or an element of a `DIM`med array (the real checker
  rejects `F(1) = 2` without a `DIM` with ArrayNotDefined, a rule outside the model's fragment: every program
  the real checker accepts satisfies the premise);
* `Paired`: every `cond` line has the `condEnd` line of its block (same condition) and every `case` line the
  `select` line of its selector in the same unit (how `c12.rs` flattens blocks).
-/
namespace RbThm.C12Stmt
open RbModel.Num RbModel.Ty Gen.NumTables Gen.TyTables RbThm.C12 RbThm.C12Edit

section Stmt
variable {κ : Type} [DecidableEq κ]

/-! ## What acceptance of a program says about one of its lines -/

theorem firstV_none_mem {α : Type} {f : α → Verdict} {l : List α} (h : firstV f l = none) {a : α} (ha : a ∈ l) :
    f a = none := by
  induction l with
  | nil => cases ha
  | cons b bs ih =>
    simp only [firstV, orElse_eq_none] at h
    rcases List.mem_cons.mp ha with rfl | h2
    · exact h.1
    · exact ih h.2 h2

omit [DecidableEq κ] in
theorem pass_none_mem {f : Line κ → Verdict} {us : List (Part κ)} (h : pass f us = none) {u : Part κ}
    (hu : u ∈ us) {l : Line κ} (hl : l ∈ u.lines) : f l = none := by
  unfold pass at h
  exact firstV_none_mem (firstV_none_mem h hu) hl

theorem convUnit_none_mem {Γ : Env κ} : ∀ {ls : List (Line κ)} {seen : List κ}, convUnit Γ seen ls = none →
    ∀ {l : Line κ}, l ∈ ls → convLine Γ l = none
  | [], _, _, _, hl => by cases hl
  | x :: rest, seen, h, l, hl => by
    obtain ⟨hx, hrest⟩ := convUnit_none_cons h
    rcases List.mem_cons.mp hl with rfl | hl
    · exact hx
    · rcases hrest with ⟨_, _, _, _, _, hrest⟩ | ⟨_, hrest⟩
      · exact convUnit_none_mem hrest hl
      · exact convUnit_none_mem hrest hl

/-- The line checks of all passes are silent on every line of an accepted program. -/
structure LineAccepted (Γ : Env κ) (l : Line κ) : Prop where
  conv : convLine Γ l = none
  bi : walkLine (biCheck Γ) l = none
  fn : walkLine (fnCheck Γ) l = none
  sub : subLine Γ l = none
  sel : selectLine Γ l = none
  cond : condLine Γ l = none

theorem lineAccepted_of_lint {Γ : Env κ} {us : List (Part κ)} (hacc : lint Γ us = none) {u : Part κ}
    (hu : u ∈ us) {l : Line κ} (hl : l ∈ u.lines) : LineAccepted Γ l := by
  have A := (lint_none_iff Γ us).mp hacc
  exact ⟨convUnit_none_mem (firstV_none_mem (f := fun u => convUnit Γ [] u.lines) A.conv hu) hl,
    pass_none_mem A.builtIns hu hl, pass_none_mem A.fns hu hl, pass_none_mem A.subs hu hl,
    pass_none_mem A.selects hu hl, pass_none_mem A.conds hu hl⟩

/-! ## Side conditions on the serialisation -/

/-- Literals are values of their own type, in every expression of the line. -/
def GoodLine : Line κ → Prop
  | .assign _ lhs rhs => Good lhs ∧ Good rhs
  | .print _ items => GoodL items
  | .callSub _ _ args => GoodL args
  | .cond _ c => Good c
  | .forHead _ _ bounds _ _ => GoodL bounds
  | .select _ e => Good e
  | .case _ sel items => Good sel ∧ GoodL items
  | .dim _ _ bounds => GoodL bounds
  | _ => True

/-- The target of an assignment is a variable or an element of a `DIM`med array. -/
def LhsOk (Γ : Env κ) : Line κ → Prop
  | .assign _ (.var _) _ => True
  | .assign _ (.call a _) _ => isArray Γ a = true
  | .assign _ _ _ => False
  | _ => True

/-- The block structure behind the flat lines of one unit. -/
def Paired (ls : List (Line κ)) : Prop :=
  (∀ row c, Line.cond row c ∈ ls → ∃ row', Line.condEnd row' c ∈ ls) ∧
  (∀ row sel items, Line.case row sel items ∈ ls → ∃ row', Line.select row' sel ∈ ls)

/-! ## The conversions of a statement -/

theorem at?_none {row : Nat} {x : Option LintErr} (h : at? row x = none) : x = none := by
  cases x with
  | none => rfl
  | some e => cases h

theorem storeAs_ne {v : Val} {t : Ty} (h : kindOf v.tag = kindOf t) : storeAs v t ≠ .err .typeMismatch := by
  unfold storeAs
  exact bind_ne (cast_same_kind v t h) (fun _ _ => by simp)

theorem storeAll_ne {t : Ty} : ∀ {vs : List Val}, (∀ v ∈ vs, kindOf v.tag = kindOf t) →
    storeAll vs t ≠ .err .typeMismatch
  | [], _ => by simp [storeAll]
  | v :: vs, h => by
    simp only [storeAll]
    exact bind_ne (storeAs_ne (h v List.mem_cons_self))
      (fun _ _ => storeAll_ne (fun w hw => h w (List.mem_cons_of_mem _ hw)))

theorem compareAll_ne {s : Val} : ∀ {vs : List Val}, (∀ v ∈ vs, kindOf v.tag = kindOf s.tag) →
    compareAll s vs ≠ .err .typeMismatch
  | [], _ => by simp [compareAll]
  | v :: vs, h => by
    simp only [compareAll, h v List.mem_cons_self, if_true]
    exact compareAll_ne (fun w hw => h w (List.mem_cons_of_mem _ hw))

theorem needNum_ne {v : Val} (h : kindOf v.tag = .num) : needNum v ≠ .err .typeMismatch := by
  have : v.tag ≠ .str := kind_num.mpr h
  simp [needNum, this]

theorem kinds_all {k : Kind} : ∀ {vs : List Val} {ts : List Ty}, kinds vs = ts.map kindOf →
    (∀ t ∈ ts, kindOf t = k) → ∀ v ∈ vs, kindOf v.tag = k
  | [], _, _, _, v, hv => by cases hv
  | w :: ws, [], hk, _, _, _ => by simp [kinds] at hk
  | w :: ws, t :: ts, hk, ht, v, hv => by
    simp only [kinds, List.map_cons, List.cons.injEq] at hk
    rcases List.mem_cons.mp hv with rfl | hv
    · rw [hk.1]; exact ht t List.mem_cons_self
    · exact kinds_all (vs := ws) (ts := ts) hk.2 (fun t' ht' => ht t' (List.mem_cons_of_mem _ ht')) v hv

theorem all_numeric {ts : List Ty} (h : ts.all (fun t => t != .str) = true) : ∀ t ∈ ts, kindOf t = .num := by
  intro t ht
  have := List.all_eq_true.mp h t ht
  exact kind_num.mp (by simpa using this)

theorem castableAll_kinds {Γ : Env κ} {s : Ty} : ∀ {items : Exprs κ} {ts : List Ty},
    typesOf Γ items = some ts → castableAll Γ s items = true → ∀ t ∈ ts, kindOf t = kindOf s
  | .nil, ts, h, _, t, ht => by
    simp only [typesOf, Option.some.injEq] at h; subst h; cases ht
  | .cons e es, ts, h, hc, t, ht => by
    simp only [typesOf] at h
    split at h
    · next t' ts' h1 h2 =>
      cases h
      simp only [castableAll, h1, Bool.and_eq_true] at hc
      rcases List.mem_cons.mp ht with rfl | ht
      · exact canCast_kinds _ _ hc.1
      · exact castableAll_kinds h2 hc.2 t ht
    · cases h

/-! ## One line -/

/-- **C12_type_sound for one statement.** A line on which every line check of the checker is silent —
given, for a condition, that the condition check of its block end is silent, and for a `CASE`, that the walkers
are silent on its selector — executes without Type mismatch in every state that agrees with the static types. -/
theorem line_sound (Γ : Env κ) (σ : Sem κ) (hσ : SemWF Γ σ) (l : Line κ) (A : LineAccepted Γ l)
    (hg : GoodLine l) (hlhs : LhsOk Γ l)
    (hcond : ∀ row c, l = .cond row c → ∃ t, typeOf Γ c = some t ∧ t ≠ .str)
    (hcase : ∀ row sel items, l = .case row sel items →
      walk (biCheck Γ) sel = none ∧ walk (fnCheck Γ) sel = none) :
    execLine Γ σ l ≠ .err .typeMismatch := by
  obtain ⟨hconv, hbi, hfn, hsub, hsel, _⟩ := A
  cases l with
  | jump row k => simp [execLine]
  | label row k => simp [execLine]
  | condEnd row c => simp [execLine]
  | print row items =>
    simp only [convLine, allTyped] at hconv
    cases hts : typesOf Γ items with
    | none => rw [hts] at hconv; cases hconv
    | some ts =>
      have S := C12_typesL_sound Γ σ hσ items ts ⟨hts, at?_none hbi, at?_none hfn⟩ hg
      simp only [execLine]
      exact bind_ne S.1 (fun _ _ => by simp)
  | select row e =>
    simp only [convLine] at hconv
    cases hts : typeOf Γ e with
    | none => rw [hts] at hconv; cases hconv
    | some t =>
      have S := C12_type_sound Γ σ hσ e t ⟨hts, at?_none hbi, at?_none hfn⟩ hg
      simp only [execLine]
      exact bind_ne S.1 (fun _ _ => by simp)
  | cond row c =>
    obtain ⟨t, hts, hnum⟩ := hcond row c rfl
    have S := C12_type_sound Γ σ hσ c t ⟨hts, at?_none hbi, at?_none hfn⟩ hg
    simp only [execLine]
    exact bind_ne S.1 (fun v hv => needNum_ne (by rw [(S.2 v hv).1]; exact kind_num.mp hnum))
  | dim row a bounds =>
    simp only [convLine] at hconv
    cases hts : typesOf Γ bounds with
    | none => rw [hts] at hconv; cases hconv
    | some ts =>
      rw [hts] at hconv
      simp only at hconv
      have hall : ts.all (fun t => t != .str) = true := by
        cases h : ts.all (fun t => t != .str) with
        | true => rfl
        | false => rw [h] at hconv; cases hconv
      have S := C12_typesL_sound Γ σ hσ bounds ts ⟨hts, at?_none hbi, at?_none hfn⟩ hg
      simp only [execLine]
      exact bind_ne S.1 (fun vs hvs => by rw [indexArgs_ok vs ts (S.2 vs hvs).1 hall]; simp)
  | forHead row v bounds nextRow next =>
    simp only [convLine] at hconv
    cases hts : typesOf Γ bounds with
    | none => rw [hts] at hconv; cases hconv
    | some ts =>
      rw [hts] at hconv
      simp only at hconv
      have hall : (Γ.ty v != .str && ts.all (fun t => t != .str)) = true := by
        cases h : (Γ.ty v != .str && ts.all (fun t => t != .str)) with
        | true => rfl
        | false => rw [h] at hconv; cases hconv
      simp only [Bool.and_eq_true, bne_iff_ne, ne_eq] at hall
      have hv : kindOf (Γ.ty v) = .num := kind_num.mp hall.1
      have S := C12_typesL_sound Γ σ hσ bounds ts ⟨hts, at?_none hbi, at?_none hfn⟩ hg
      simp only [execLine]
      refine bind_ne S.1 (fun vs hvs => bind_ne (needNum_ne ?_) (fun _ _ => storeAll_ne ?_))
      · rw [(hσ.1 v).1]; exact hv
      · intro w hw
        rw [hv]
        exact kinds_all (S.2 vs hvs).1 (all_numeric hall.2) w hw
  | callSub row s args =>
    simp only [convLine, allTyped] at hconv
    cases hts : typesOf Γ args with
    | none => rw [hts] at hconv; cases hconv
    | some ts =>
      have S := C12_typesL_sound Γ σ hσ args ts ⟨hts, at?_none hbi, at?_none hfn⟩ hg
      simp only [execLine]
      simp only [subLine] at hsub
      cases hlk : lookup s Γ.subs with
      | none => simp
      | some ps =>
        rw [hlk] at hsub
        have hargs := at?_none hsub
        simp only [callArgsCheck] at hargs
        have hok : argsOk Γ args ps = true := by
          split at hargs
          · cases hargs
          · split at hargs
            · assumption
            · cases hargs
        simp only
        exact bind_ne S.1 (fun vs hvs => bindArgs_ne Γ args ps ts vs hts hok (S.2 vs hvs).1)
  | case row sel items =>
    obtain ⟨hbs, hfs⟩ := hcase row sel items rfl
    simp only [convLine, allTyped] at hconv
    simp only [selectLine] at hsel
    cases hts : typesOf Γ items with
    | none => rw [hts] at hconv; cases hconv
    | some ts =>
      cases hs : typeOf Γ sel with
      | none => rw [hs] at hsel; cases hsel
      | some st =>
        rw [hs] at hsel
        simp only at hsel
        have hcast : castableAll Γ st items = true := by
          cases h : castableAll Γ st items with
          | true => rfl
          | false => rw [h] at hsel; cases hsel
        have S1 := C12_type_sound Γ σ hσ sel st ⟨hs, hbs, hfs⟩ hg.1
        have S2 := C12_typesL_sound Γ σ hσ items ts ⟨hts, at?_none hbi, at?_none hfn⟩ hg.2
        simp only [execLine]
        refine bind_ne S1.1 (fun sv hsv => bind_ne S2.1 (fun vs hvs => compareAll_ne ?_))
        intro w hw
        rw [(S1.2 sv hsv).1]
        exact kinds_all (S2.2 vs hvs).1 (castableAll_kinds hts hcast) w hw
  | assign row lhs rhs =>
    simp only [convLine] at hconv
    cases hr : typeOf Γ rhs with
    | none => rw [hr] at hconv; cases hconv
    | some r =>
      cases hl : typeOf Γ lhs with
      | none => rw [hr, hl] at hconv; cases hconv
      | some lt =>
        rw [hr, hl] at hconv
        simp only at hconv
        have hcc : canCast r lt = true := by
          cases h : canCast r lt with
          | true => rfl
          | false => rw [h] at hconv; cases hconv
        have hk := canCast_kinds r lt hcc
        simp only [walkLine, orElse_eq_none] at hbi hfn
        have S := C12_type_sound Γ σ hσ rhs r ⟨hr, at?_none hbi.2, at?_none hfn.2⟩ hg.2
        cases lhs with
        | var x =>
          simp only [typeOf, Option.some.injEq] at hl
          subst hl
          simp only [execLine]
          exact bind_ne S.1 (fun v hv => storeAs_ne (by rw [(S.2 v hv).1, hk]))
        | call a idx =>
          have harr : isArray Γ a = true := hlhs
          simp only [typeOf, harr, if_true] at hl
          cases hti : typesOf Γ idx with
          | none => rw [hti] at hl; cases hl
          | some ts =>
            rw [hti] at hl
            simp only at hl
            have hall : ts.all (fun t => t != .str) = true := by
              cases h : ts.all (fun t => t != .str) with
              | true => rfl
              | false => rw [h] at hl; cases hl
            rw [hall] at hl
            simp only [if_true, Option.some.injEq] at hl
            subst hl
            have SI := C12_typesL_sound Γ σ hσ idx ts ⟨hti, at?_none hbi.1, at?_none hfn.1⟩ hg.1
            simp only [execLine]
            refine bind_ne S.1 (fun v hv => bind_ne SI.1 (fun is his => ?_))
            rw [indexArgs_ok is ts (SI.2 is his).1 hall]
            exact storeAs_ne (by rw [(S.2 v hv).1, hk])
        | lit v => exact absurd hlhs (by simp [LhsOk])
        | paren e => exact absurd hlhs (by simp [LhsOk])
        | un op e => exact absurd hlhs (by simp [LhsOk])
        | bin op a b => exact absurd hlhs (by simp [LhsOk])
        | bi b args => exact absurd hlhs (by simp [LhsOk])

/-! ## Whole programs -/

/-- **C12_type_sound (statements, whole programs, the model checker with calls and built-in functions).**
If `lint` accepts the program, every statement of every unit executes without Type mismatch — no operator,
built-in function, parameter binding, array index, assignment, FOR bound, condition test or CASE comparison
receives a value of the wrong kind — in every state that agrees with the static types. -/
theorem C12_type_sound_program (Γ : Env κ) (σ : Sem κ) (hσ : SemWF Γ σ) (us : List (Part κ))
    (hacc : lint Γ us = none)
    (hwf : ∀ u ∈ us, Paired u.lines ∧ ∀ l ∈ u.lines, GoodLine l ∧ LhsOk Γ l) :
    ∀ u ∈ us, ∀ l ∈ u.lines, execLine Γ σ l ≠ .err .typeMismatch := by
  intro u hu l hl
  obtain ⟨hp, hgl⟩ := hwf u hu
  have A := lineAccepted_of_lint hacc hu hl
  refine line_sound Γ σ hσ l A (hgl l hl).1 (hgl l hl).2 ?_ ?_
  · intro row c hlc
    subst hlc
    obtain ⟨row', hend⟩ := hp.1 row c hl
    have B := (lineAccepted_of_lint hacc hu hend).cond
    simp only [condLine] at B
    cases ht : typeOf Γ c with
    | none => rw [ht] at B; cases B
    | some t =>
      rw [ht] at B
      refine ⟨t, rfl, ?_⟩
      intro hs; simp [hs] at B
  · intro row sel items hlc
    subst hlc
    obtain ⟨row', hsel⟩ := hp.2 row sel items hl
    have B := lineAccepted_of_lint hacc hu hsel
    exact ⟨at?_none B.bi, at?_none B.fn⟩

end Stmt

/-! ## Non-vacuity -/

section Examples

/-- `A` (key 0) an INTEGER array, `S$` (key 1) a string, `P` (key 8) a SUB with an INTEGER and a STRING parameter,
`F` (key 6) a user function, everything else INTEGER. -/
def Γ2 : Env Nat :=
  { ty := fun k => if k = 1 then .str else .int, arrays := [0], fns := [(6, [.int])], subs := [(8, [.int, .str])] }

/-- ```
DIM A(5)
FOR I = 1 TO A(2) STEP 2 : NEXT I
A(I + 1) = LEN(S$) + F(I)
WHILE I < 3 : P I, UCASE$(S$) : WEND
SELECT CASE I : CASE 1, A(0) : PRINT S$; I : END SELECT
``` -/
def prog2 : List (Part Nat) :=
  [⟨[.dim 1 0 (.cons (.lit (.int 5)) .nil),
     .forHead 2 4 (.cons (.lit (.int 1)) (.cons (.call 0 (.cons (.lit (.int 2)) .nil)) (.cons (.lit (.int 2)) .nil)))
       2 (some 4),
     .assign 3 (.call 0 (.cons (.bin .plus (.var 4) (.lit (.int 1))) .nil))
       (.bin .plus (.bi .len (.cons (.var 1) .nil)) (.call 6 (.cons (.var 4) .nil))),
     .cond 4 (.bin .less (.var 4) (.lit (.int 3))),
     .callSub 4 8 (.cons (.var 4) (.cons (.bi .ucase (.cons (.var 1) .nil)) .nil)),
     .condEnd 4 (.bin .less (.var 4) (.lit (.int 3))),
     .select 5 (.var 4),
     .case 5 (.var 4) (.cons (.lit (.int 1)) (.cons (.call 0 (.cons (.lit (.int 0)) .nil)) .nil)),
     .print 5 (.cons (.var 1) (.cons (.var 4) .nil))]⟩]

def zeroOf : Ty → Val
  | .int => .int 0 | .long => .long 0 | .sgl => .sgl 0 | .dbl => .dbl 0 | .str => .str []

/-- a state that agrees with the static types -/
def σ2 : Sem Nat :=
  { var := fun k => if k = 1 then .str ['a'] else .int 2,
    call := fun f _ => if f = 1 then .str [] else .int 1,
    bi := fun b _ => zeroOf (biRet b) }

theorem accepted2 : lint Γ2 prog2 = none := by decide +kernel

theorem zeroOf_ok (t : Ty) : kindOf (zeroOf t).tag = kindOf t ∧ (zeroOf t).InRange := by
  cases t <;> refine ⟨rfl, ?_⟩ <;> simp only [zeroOf, Val.InRange] <;> try decide +kernel

theorem semWF2 : SemWF Γ2 σ2 := by
  refine ⟨fun x => ?_, fun f vs => ?_, fun b vs => zeroOf_ok _⟩
  · by_cases h : x = 1 <;> simp only [σ2, Γ2, h, if_true, if_false, Val.tag, Val.InRange, kindOf, true_and] <;>
      decide +kernel
  · by_cases h : f = 1 <;> simp only [σ2, Γ2, h, if_true, if_false, Val.tag, Val.InRange, kindOf, true_and] <;>
      decide +kernel

theorem wf2 : ∀ u ∈ prog2, Paired u.lines ∧ ∀ l ∈ u.lines, GoodLine l ∧ LhsOk Γ2 l := by
  intro u hu
  simp only [prog2, List.mem_singleton] at hu
  subst hu
  refine ⟨⟨?_, ?_⟩, ?_⟩
  · intro row c h
    simp only [List.mem_cons, List.not_mem_nil, or_false, reduceCtorEq, false_or, Line.cond.injEq] at h
    obtain ⟨_, rfl⟩ := h
    exact ⟨4, by simp⟩
  · intro row sel items h
    simp only [List.mem_cons, List.not_mem_nil, or_false, reduceCtorEq, false_or, Line.case.injEq] at h
    obtain ⟨_, rfl, _⟩ := h
    exact ⟨5, by simp⟩
  · intro l hl
    simp only [List.mem_cons, List.not_mem_nil, or_false] at hl
    rcases hl with rfl | rfl | rfl | rfl | rfl | rfl | rfl | rfl | rfl <;>
      simp [GoodLine, LhsOk, Good, GoodL, Val.InRange, isArray, Γ2] <;> try decide +kernel

/-- The premises of `C12_type_sound_program` hold of a program that uses an array, a user function, built-in
functions, a SUB call, FOR with STEP, WHILE and SELECT CASE; its conclusion on that program. -/
example : ∀ u ∈ prog2, ∀ l ∈ u.lines, execLine Γ2 σ2 l ≠ .err .typeMismatch :=
  C12_type_sound_program Γ2 σ2 semWF2 prog2 accepted2 wf2

/-- The premise `Paired` is needed: a `cond` line without its `condEnd` is not checked by `condLine`
(`ConditionTypeLinter` reports at the end of the block), `lint` is silent and the line fails. The harness never
builds such a request (every IF / WHILE is flattened to cond … condEnd). -/
example :
    let us : List (Part Nat) := [⟨[.cond 1 (.var 1)]⟩]
    lint Γ2 us = none ∧ execLine Γ2 σ2 (.cond 1 (.var 1)) = .err .typeMismatch := by
  refine ⟨by decide +kernel, by decide +kernel⟩

/-- The premise `LhsOk` is needed: `F("") = 1` with `F` not an array passes the MODEL (the real checker answers
ArrayNotDefined: the rule is not in the model's fragment, the harness `DIM`s every array it assigns to). -/
example :
    let us : List (Part Nat) := [⟨[.assign 1 (.call 7 (.cons (.lit (.str [])) .nil)) (.lit (.int 1))]⟩]
    lint Γ2 us = none ∧
    execLine Γ2 σ2 (.assign 1 (.call 7 (.cons (.lit (.str [])) .nil)) (.lit (.int 1))) = .err .typeMismatch := by
  refine ⟨by decide +kernel, by decide +kernel⟩

end Examples

end RbThm.C12Stmt
