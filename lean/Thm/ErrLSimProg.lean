import Thm.ErrLSimProgBase
import Thm.JmpLSimProg
/-!
Error layer, simulation part, whole programs: the statement theorem (`StmtIH`) lifted to `ErrL.Compile.compile` /
`ErrL.Compile.marks` / `ErrL.Compile.labelDepths` run on `ErrL.Vm` against `ErrL.Ref.run` (port of the second half of
`Thm/JmpLSimProg.lean`).

`compile` emits the top-level DATA statements first, then the other top-level statements, then `Halt`; the label environment
(`envOf`), the statement-address table (`marks`) and the label-depth table (`labelDepths`) are computed on that reordered body.
The reference semantics runs the body as written (DATA = `skip`); a GOSUB and a handler re-enter *that* body.  The context of
the statement theorem is `B := strip body` placed at `base := size of the DATA prefix` (`Thm/ErrLSimProgBase.lean`).  The DATA
phase is the jump layer's (`JmpLSim.data_stmt`), lifted instruction for instruction (`lift_steps`).
-/
namespace RbThm.ErrLSim
set_option linter.unusedVariables false
set_option linter.unusedSimpArgs false
open RbModel RbModel.Num RbModel.ErrL RbModel.ErrL.Compile RbModel.ErrL.Vm
open RbModel.JmpL.Compile (CInstr Code labelName compileExpr compileExprTo storeVar loadVar compileItems compileConds
  sizeCaseExpr sizeItems sizeConds Dp lookupNat lookupDepth stepSuffix maxPos)
open RbModel.JmpL.Vm (Vm truncTop Regs)
open RbModel.Ast (Pos PrintItem CaseExpr)
open RbModel.Ref (St)
open RbModel.ErrL.Ref
open RbThm.ErrLLen
open RbThm.C01Sim (Typed SlotsBelow ExprWt NumericAt NumericCond ItemsSlots CaseSlots CondsSlots)
open RbThm.JmpLSim (Keeps)

/-! ### the DATA phase -/

/-- the code of a DATA statement (the jump layer's, lifted) -/
def dataFrag (items : List (Val × Pos)) (p : Pos) : Code :=
  [(CInstr.beginArgs, p)] ++ items.flatMap (fun (v, q) => [(CInstr.loadA v, q), (CInstr.pushByVal, q)]) ++
    [(CInstr.pushStack, p), (CInstr.builtInData, p), (CInstr.popStack, p)]

theorem dataFrag_noread (items : List (Val × Pos)) (p : Pos) : ∀ ip ∈ dataFrag items p, ip.1 ≠ CInstr.builtInRead := by
  intro ip h
  simp only [dataFrag, List.mem_append, List.mem_cons, List.mem_singleton, List.not_mem_nil, or_false,
    List.mem_flatMap] at h
  rcases h with (h | ⟨it, _, h⟩) | h
  · subst h; simp
  · rcases h with h | h <;> (subst h; simp)
  · rcases h with h | h | h <;> (subst h; simp)

/-- one DATA statement appends its items to the data segment; the error registers are untouched -/
theorem data_stmt {P : Prog} (hP : ProgOk P) (env : LEnv) (items : List (Val × Pos)) (p : Pos) (sfx : String) (off : Nat)
    (x : EVm) (hc : CodeAt P.code off (compileStmt env sfx 0 0 off (.data items p))) (hpc : x.b.pc = off) :
    ∃ τ : Vm, Steps P x { x with b := τ } ∧ τ.pc = off + sizeStmt env.dp 0 0 (.data items p) ∧
      τ.data = x.b.data ++ items.map (·.1) ∧ Keeps x.b τ := by
  have hc' : CodeAt P.code off (lift (dataFrag items p)) := hc
  let jenv : JmpL.Compile.LEnv := ⟨env.dp, env.addr⟩
  have hj : RbThm.JmpLSim.CodeAt (pad off (dataFrag items p)) off
      (JmpL.Compile.compileStmt jenv sfx 0 0 off (.data items p)) := codeAt_pad off (dataFrag items p)
  obtain ⟨τ, st, hp, hd, hk⟩ := RbThm.JmpLSim.data_stmt (pad off (dataFrag items p)) jenv items p sfx off x.b hj hpc
  exact ⟨τ, lift_steps hP hc' (dataFrag_noread items p) st x rfl, hp, hd, hk⟩

/-- the hoisted DATA statements, run in order, build the data segment -/
theorem data_list {P : Prog} (hP : ProgOk P) (env : LEnv) (sfx : String) : ∀ (l : List SStmt), (∀ x ∈ l, isData x = true) →
    ∀ (off : Nat) (x : EVm), CodeAt P.code off (compileStmt env sfx 0 0 off (seqOf l)) → x.b.pc = off →
      ∃ τ : Vm, Steps P x { x with b := τ } ∧ τ.pc = off + sizeStmt env.dp 0 0 (seqOf l) ∧
        τ.data = x.b.data ++ l.flatMap dataOf ∧ Keeps x.b τ := by
  intro l
  induction l with
  | nil =>
    intro _ off x _ hpc
    exact ⟨x.b, Steps.refl _, by simp [seqOf, sizeStmt, hpc], by simp, RbThm.JmpLSim.Keeps.refl _⟩
  | cons a rest ih =>
    intro hall off x hc hpc
    have hd : isData a = true := hall a (by simp)
    cases a with
    | data items p =>
      have hc : CodeAt P.code off (compileStmt env sfx 0 0 off (.data items p) ++
          compileStmt env sfx 0 0 (off + sizeStmt env.dp 0 0 (.data items p)) (seqOf rest)) := by
        simpa only [seqOf, compileStmt] using hc
      obtain ⟨τ1, st1, hp1, hd1, hk1⟩ := data_stmt hP env items p sfx off x hc.append_left hpc
      have hcr := hc.append_right
      rw [len_stmt] at hcr
      obtain ⟨τ2, st2, hp2, hd2, hk2⟩ := ih (fun y hy => hall y (by simp [hy])) _ { x with b := τ1 } hcr hp1
      refine ⟨τ2, st1.trans st2, ?_, ?_, RbThm.JmpLSim.Keeps.trans hk1 hk2⟩
      · rw [hp2]; simp only [seqOf, sizeStmt]; omega
      · rw [hd2]; show τ1.data ++ _ = _; rw [hd1]; simp [List.flatMap_cons, dataOf]
    | _ => simp [isData] at hd

theorem dataOf_eq : ∀ body : SStmt, dataOf body = (datas body).flatMap dataOf := by
  refine top_induction ?_ ?_
  · intro a b iha ihb
    simp only [datas] at iha ihb ⊢
    simp only [dataOf, topLevel, List.filter_append, List.flatMap_append, ← iha, ← ihb]
  · intro st hns
    cases st with
    | seq a b => exact absurd rfl (hns a b)
    | data items p => simp [datas, dataOf, topLevel, isData, List.filter]
    | _ => simp [datas, dataOf, topLevel, isData]

/-! ### the context of a program -/

/-- the context of the statement theorem for a program (`rl := true`: see `ProgWf`) -/
def progCtx (prog : SProgram) : Ctx :=
  { prog := Prog.ofProgram prog, env := envOf (reorder prog.body), sl := prog.slots, rl := true, B := strip prog.body,
    base := sizeStmt (envOf (reorder prog.body)).dp 0 0 (seqOf (datas prog.body)) }

theorem progCtx_P (prog : SProgram) : (progCtx prog).P = desugar prog.body := desugar_strip prog.body

theorem envOf_dp (prog : SProgram) : (envOf (reorder prog.body)).dp = dpOf prog := by
  show Dp.ofTable (depthTable 0 0 (reorder prog.body)) = Dp.ofTable (depthTable 0 0 prog.body)
  rw [depth_reorder]

/-- the context of a well-formed program is consistent, given the two facts proved elsewhere: the label-depth table answers
the depths of every label (`Thm/ErrLDepths.lean`) and the shape of jumps (`Thm/ErrLShape.lean`) -/
theorem progCtx_ok (prog : SProgram) (hw : ProgWf prog)
    (hdep : ∀ L ∈ (strip prog.body).labels,
      lookupLabelDepth ((envOf (reorder prog.body)).addr L) (labelDepths prog) =
        some ((envOf (reorder prog.body)).dp.fd L, (envOf (reorder prog.body)).dp.sd L))
    (hshape : JumpShape (progCtx prog)) : (progCtx prog).Ok := by
  obtain ⟨hwt, hnd⟩ := hw
  have hdp := envOf_dp prog
  have hwf : Wf prog.slots (envOf (reorder prog.body)).dp true 0 0 (strip prog.body) := by
    rw [hdp]; exact wf_strip _ _ _ hwt
  have hall : CodeAt (compile prog) 0
      (compileStmt (envOf (reorder prog.body)) "" 0 0 0 (seqOf (datas prog.body ++ others prog.body)) ++
        [(.base .halt, maxPos)]) := by
    intro i _; rw [Nat.zero_add]; rfl
  have hbody := hall.append_left
  rw [code_seqOf_append] at hbody
  have hco := hbody.append_right
  rw [len_stmt, Nat.zero_add, ← code_strip] at hco
  have hhalt := hall.append_right.head
  rw [len_stmt, size_seqOf_append, Nat.zero_add, ← size_strip] at hhalt
  -- the tables
  have htbl : addrTable (envOf (reorder prog.body)).dp 0 0 0 (reorder prog.body) =
      addrTable (envOf (reorder prog.body)).dp 0 0 (progCtx prog).base (strip prog.body) := by
    show addrTable _ 0 0 0 (seqOf (datas prog.body ++ others prog.body)) = _
    rw [addr_seqOf_append, addr_datas _ _ (datas_isData prog.body), List.nil_append, Nat.zero_add, ← addr_strip]
    rfl
  have hkeys : ((addrTable (envOf (reorder prog.body)).dp 0 0 (progCtx prog).base (strip prog.body)).map Prod.fst).Nodup := by
    rw [addr_keys _ _ _ _ _ _ hwf, labels_strip]; exact hnd
  have hdkeys : ((depthTable 0 0 prog.body).map Prod.fst).Nodup := by rw [depth_keys]; exact hnd
  have hcne : CasesNE (reorder prog.body) := casesNE_reorder _ _ _ hwt
  refine { pok := rfl, hcode := hco, hhalt := ⟨maxPos, hhalt⟩, wf := hwf, lab := ⟨?_, ?_⟩, gosubOk := ?_,
           sorted := marks_sorted prog hcne, hmarks := marks_prog prog, depthsOk := hdep, shape := hshape }
  · intro L a hm
    show (lookupNat L (addrTable (envOf (reorder prog.body)).dp 0 0 0 (reorder prog.body))).getD 0 = a
    rw [htbl, lookupNat_of_mem _ hkeys L a hm]; rfl
  · intro L d' e' hm
    have hm' : (L, d', e') ∈ depthTable 0 0 prog.body := by
      have : (L, d', e') ∈ depthTable 0 0 (strip prog.body) := hm
      rwa [depth_strip] at this
    have hl := lookupDepth_of_mem _ hdkeys L (d', e') hm'
    show (envOf (reorder prog.body)).dp.fd L = d' ∧ (envOf (reorder prog.body)).dp.sd L = e'
    rw [hdp]
    simp only [dpOf, Dp.ofTable, hl]
    trivial
  · intro L h0
    show L ∈ (strip prog.body).labels
    rw [labels_strip, ← depth_keys prog.body 0 0]
    have h0' : (dpOf prog).fd L = 0 := by rw [← hdp]; exact h0
    simp only [dpOf, Dp.ofTable] at h0'
    cases hl : lookupDepth L (depthTable 0 0 prog.body) with
    | none => rw [hl] at h0'; simp at h0'
    | some v => exact RbThm.ErrLSim.lookupDepth_some_mem _ L v hl

/-- the start state of the reference semantics -/
def startSt (prog : SProgram) : ESt := ESt.init prog.toAst

theorem run_eq (prog : SProgram) (fuel : Nat) :
    ErrL.Ref.run fuel prog.toAst =
      (match exec fuel (desugar prog.body) 0 (desugar prog.body) .run (startSt prog) with
       | (s, .ret _) => (s, .illFormed)
       | (s, .jump _) => (s, .illFormed)
       | (s, .notHere) => (s, .illFormed)
       | (s, .resumed _) => (s, .illFormed)
       | r => r) := rfl

/-- the DATA phase: from the initial VM state the run reaches the first instruction of the program body in a state related
to the reference start state, with empty stacks, no handler and no error being handled -/
theorem data_phase (prog : SProgram) :
    ∃ σ1, Steps (Prog.ofProgram prog) (EVm.init prog.slots) σ1 ∧ σ1.b.pc = (progCtx prog).base ∧
      ERel prog.slots (envOf (reorder prog.body)) (startSt prog) σ1 ∧ σ1.b.gosubs = [] ∧ σ1.b.regStack = [] ∧
      σ1.errAddr = none := by
  have hall : CodeAt (compile prog) 0
      (compileStmt (envOf (reorder prog.body)) "" 0 0 0 (seqOf (datas prog.body ++ others prog.body)) ++
        [(.base .halt, maxPos)]) := by
    intro i _; rw [Nat.zero_add]; rfl
  have hbody := hall.append_left
  rw [code_seqOf_append] at hbody
  have hcd := hbody.append_left
  obtain ⟨τ, st1, hp1, hd1, hk1⟩ :=
    data_list (P := Prog.ofProgram prog) rfl (envOf (reorder prog.body)) "" (datas prog.body) (datas_isData prog.body) 0
      (EVm.init prog.slots) hcd rfl
  rw [Nat.zero_add] at hp1
  refine ⟨{ EVm.init prog.slots with b := τ }, st1, hp1, ?_, by show τ.gosubs = []; rw [hk1.gosubs]; rfl,
    by show τ.regStack = []; rw [hk1.regStack]; rfl, rfl⟩
  refine { base := ⟨by show τ.env = _; rw [hk1.env]; rfl, RbThm.JmpLSim.typed_init prog.slots,
                    by show τ.out = _; rw [hk1.out]; rfl, ?_, by show τ.dataIdx = _; rw [hk1.dataIdx]; rfl,
                    by show τ.queue = _; rw [hk1.queue]; rfl⟩,
           handler := rfl, hfd := (fun L h => by cases h), inH := rfl, err := (fun h => by cases h) }
  show τ.data = _
  rw [hd1, ← dataOf_eq]; simp [EVm.init, JmpL.Vm.Vm.init, startSt, ESt.init, SProgram.toAst]

/-- what the program theorem says about a run of the compiled code from the initial VM state, given the answer of the
reference semantics: `normal` / END — the VM reaches a `Halt` with the same variables and the same output; `error c p` (no
handler was set, or ON ERROR GOTO 0) — the VM stops with that error at that position with the same output -/
def ProgSpec (prog : SProgram) : ESt × Outcome → Prop
  | (s', .normal) => ∃ τ υ, Steps (Prog.ofProgram prog) (EVm.init prog.slots) τ ∧
      step (Prog.ofProgram prog) τ = .halt υ ∧ υ.b.env = s'.st.env ∧ υ.b.out = s'.st.out
  | (s', .halted) => ∃ τ υ, Steps (Prog.ofProgram prog) (EVm.init prog.slots) τ ∧
      step (Prog.ofProgram prog) τ = .halt υ ∧ υ.b.env = s'.st.env ∧ υ.b.out = s'.st.out
  | (s', .error c p) => ∃ τ υ, Steps (Prog.ofProgram prog) (EVm.init prog.slots) τ ∧
      step (Prog.ofProgram prog) τ = .error c p υ ∧ υ.b.out = s'.st.out
  | (_, _) => True

/-- the program theorem, given the statement theorem for the program's context -/
theorem compile_correct_of (prog : SProgram) (fuel : Nat) (hC : (progCtx prog).Ok)
    (hstmt : ∀ fuel, StmtIH (progCtx prog) fuel) : ProgSpec prog (ErrL.Ref.run fuel prog.toAst) := by
  obtain ⟨σ1, st1, hp1, hrel1, hg1, hrs1, hea1⟩ := data_phase prog
  have hinv : Inv (progCtx prog) 0 0 0 0 σ1 :=
    ⟨Nat.zero_le _, Nat.zero_le _, by rw [hg1]; rfl, fun _ _ => by rw [hg1, hrs1]; exact ⟨Nat.le_refl _, rfl⟩⟩
  have hs := hstmt fuel (strip prog.body) "" 0 0 (progCtx prog).base
    ((progCtx prog).base + sizeStmt (progCtx prog).env.dp 0 0 (strip prog.body)) 0 0 .run σ1 (startSt prog)
    hC.hcode hC.lab hC.wf hC.hmarks (Nat.le_refl _) hp1 hrel1 hinv
  rw [progCtx_P, desugar_strip] at hs
  rw [run_eq]
  obtain ⟨q, hq⟩ := hC.hhalt
  generalize exec fuel (desugar prog.body) 0 (desugar prog.body) .run (startSt prog) = r at hs ⊢
  obtain ⟨s', o⟩ := r
  cases o with
  | normal =>
    obtain ⟨τ, st, hp, hrel, _⟩ := hs
    have hpc : τ.b.pc = (progCtx prog).base + sizeStmt (progCtx prog).env.dp 0 0 (strip prog.body) := by
      rcases hp with h | h
      · exact h
      · exact h.1
    have hq' : (Prog.ofProgram prog).code[τ.b.pc]? = some (.base .halt, q) := by rw [hpc]; exact hq
    have s2 : step (progCtx prog).prog τ = .halt τ := by
      rw [step_base hC.pok hq' (by simp), step_halt (base_get hC.pok hq')]
    exact ⟨τ, τ, st1.trans st, s2, hrel.base.env, hrel.base.out⟩
  | halted =>
    obtain ⟨τ, υ, st, hh, hrel⟩ := hs
    exact ⟨τ, υ, st1.trans st, hh, hrel.env, hrel.out⟩
  | error c p =>
    obtain ⟨τ, υ, st, he, hout⟩ := hs
    exact ⟨τ, υ, st1.trans st, he, hout⟩
  | ret p => trivial
  | resumed k => trivial
  | jump L => trivial
  | notHere => trivial
  | inexact => trivial
  | outOfFuel => trivial
  | illFormed => trivial
  | unspec => trivial

/-- `Steps` is what `Vm.run` does -/
theorem run_of_steps (P : Prog) {σ τ υ : EVm} (h : Steps P σ τ) (hh : step P τ = .halt υ) :
    ∃ n, ∀ m, n ≤ m → Vm.run P m σ = .halted υ := by
  induction h with
  | refl σ =>
    refine ⟨1, fun m hm => ?_⟩
    obtain ⟨k, rfl⟩ : ∃ k, m = k + 1 := ⟨m - 1, by omega⟩
    simp [Vm.run, hh]
  | cons hs _ ih =>
    obtain ⟨n, hn⟩ := ih hh
    refine ⟨n + 1, fun m hm => ?_⟩
    obtain ⟨k, rfl⟩ : ∃ k, m = k + 1 := ⟨m - 1, by omega⟩
    simp [Vm.run, hs, hn k (by omega)]

theorem run_of_steps_error (P : Prog) {σ τ υ : EVm} {c : Nat} {p : Pos} (h : Steps P σ τ)
    (hh : step P τ = .error c p υ) :
    ∃ n, ∀ m, n ≤ m → Vm.run P m σ = .error c p υ := by
  induction h with
  | refl σ =>
    refine ⟨1, fun m hm => ?_⟩
    obtain ⟨k, rfl⟩ : ∃ k, m = k + 1 := ⟨m - 1, by omega⟩
    simp [Vm.run, hh]
  | cons hs _ ih =>
    obtain ⟨n, hn⟩ := ih hh
    refine ⟨n + 1, fun m hm => ?_⟩
    obtain ⟨k, rfl⟩ : ∃ k, m = k + 1 := ⟨m - 1, by omega⟩
    simp [Vm.run, hs, hn k (by omega)]

/-- the same for the bounded interpreter `ErrL.Vm.run` the correspondence check executes against the real VM -/
def RunSpec (prog : SProgram) : ESt × Outcome → Prop
  | (s', .normal) => ∃ n υ, (∀ m, n ≤ m → Vm.run (Prog.ofProgram prog) m (EVm.init prog.slots) = .halted υ) ∧
      υ.b.env = s'.st.env ∧ υ.b.out = s'.st.out
  | (s', .halted) => ∃ n υ, (∀ m, n ≤ m → Vm.run (Prog.ofProgram prog) m (EVm.init prog.slots) = .halted υ) ∧
      υ.b.env = s'.st.env ∧ υ.b.out = s'.st.out
  | (s', .error c p) => ∃ n υ, (∀ m, n ≤ m → Vm.run (Prog.ofProgram prog) m (EVm.init prog.slots) = .error c p υ) ∧
      υ.b.out = s'.st.out
  | (_, _) => True

theorem runSpec_of_progSpec (prog : SProgram) (r : ESt × Outcome) (h : ProgSpec prog r) : RunSpec prog r := by
  obtain ⟨s', o⟩ := r
  cases o with
  | normal =>
    obtain ⟨τ, υ, st, hh, he, ho⟩ := h
    obtain ⟨n, hn⟩ := run_of_steps _ st hh
    exact ⟨n, υ, hn, he, ho⟩
  | halted =>
    obtain ⟨τ, υ, st, hh, he, ho⟩ := h
    obtain ⟨n, hn⟩ := run_of_steps _ st hh
    exact ⟨n, υ, hn, he, ho⟩
  | error c p =>
    obtain ⟨τ, υ, st, hh, ho⟩ := h
    obtain ⟨n, hn⟩ := run_of_steps_error _ st hh
    exact ⟨n, υ, hn, ho⟩
  | _ => trivial

end RbThm.ErrLSim
