import Thm.C13Total
/-!
C13, fourth part: the whole-program statement.

Two occurrences of names in an accepted script denote the same storage cell **iff** they resolve to the same
*resolved key* `(home scope or SHARED/global, bare name, qualifier)` — the triple `Res.var k q home` that
`resolveVar` (`variable.rs::convert`) puts into the linted tree and that the harness compares with the real
linter's tree on every script (`names.run`).

* `RKey`, `AStore = RKey → Val`: an abstract store that is a *function of resolved keys only*; a write is function
  update at the key, a read is application (`awrite_read`: a write through one occurrence is read through another
  occurrence iff the keys are equal).  The only other ingredient is the activation discipline of subprogram calls:
  entering scope `sc` re-initialises the cells whose home is `sc` (parameters, everything else default:
  `aenter_fresh`), leaving restores the caller's cells of that home (`aleave`) — "same scope activation".
* `aexec`: the run of a linted program over that store; it does not know about frames, `inGlobal` flags or
  association lists.
* `exec_refines_abstract`: for every script the model's checker accepts (`lint s = .ok …`: any number of SUBs and
  FUNCTIONs, DEFtype statements, DIM / DIM SHARED / CONST / parameters in any accepted order) and every fuel, the
  concrete run `exec` (global frame + one live local frame, keyed by the qualified name only) and the abstract run
  `aexec` print the same values, and both run out of fuel together.  Simulation relation `Rel`; the proof uses that
  every occurrence of an accepted script is *well scoped* (`lint_wellScoped`, from
  `local_unless_param_const_shared`): its home is the scope it is written in, or the global frame.
* `occurrences_same_cell_iff`: the same fact on the concrete memory (`readVar` after `writeVar`).
-/
namespace RbThm.C13Whole
open RbModel.Names RbThm.C13 RbThm.C13Reach RbThm.C13Total

/-! ## resolved keys and the abstract store -/

/-- what an occurrence of a variable name resolves to: (home scope — `Scope.global` for main-module variables and for
`DIM SHARED` ones seen from a subprogram —, bare name, qualifier) -/
structure RKey where
  home : Scope
  name : Key
  q : Q
  deriving DecidableEq, Repr

/-- the resolved key of an occurrence (`none`: the occurrence is a constant or a call, not a variable) -/
def resKey : Res → Option RKey
  | .var k q home => some ⟨home, k, q⟩
  | _ => none

/-- the abstract store: a function of resolved keys, nothing else -/
abbrev AStore := RKey → Val

/-- every cell starts with the default value of its type -/
def ainit : AStore := fun key => ⟨Src.default, key.q⟩

/-- a write is function update at the resolved key -/
def awrite (a : AStore) (key : RKey) (v : Val) : AStore := fun key' => if key' = key then v else a key'

/-- a new activation of scope `sc`: its cells hold the by-value parameters, everything else the default -/
def aenter (a : AStore) (sc : Scope) (ps : List (Key × Q)) : AStore :=
  fun key => if key.home = sc then (bindParams ps 0).get (key.name, key.q) else a key

/-- the activation of `sc` ends: the caller's cells of that home are back (they only differ from `after` when the
caller itself runs in `sc`, i.e. under recursion); every other cell keeps what the callee left -/
def aleave (caller after : AStore) (sc : Scope) : AStore :=
  fun key => if key.home = sc then caller key else after key

structure AMem where
  store : AStore
  out : List Val

/-- The run of a linted program over the abstract store.  Same statement order, fuel and outputs as `exec`; reads
and writes go through resolved keys only. -/
def aexec (prog : List RItem) : Nat → List RStmt → AMem → Option AMem
  | _, [], a => some a
  | 0, _ :: _, _ => none
  | fuel + 1, s :: rest, a =>
    match s with
    | .nop => aexec prog fuel rest a
    | .assign k q home tag => aexec prog fuel rest { a with store := awrite a.store ⟨home, k, q⟩ ⟨.tag tag, q⟩ }
    | .callSub k _ =>
      match findSub prog k with
      | none => none
      | some (ps, body) =>
        match aexec prog fuel body { a with store := aenter a.store (.sub k) ps } with
        | none => none
        | some a' => aexec prog fuel rest { a' with store := aleave a.store a'.store (.sub k) }
    | .print r | .printCall r _ =>
      match r with
      | .var k q home => aexec prog fuel rest { a with out := a.out ++ [a.store ⟨home, k, q⟩] }
      | .constant q l => aexec prog fuel rest { a with out := a.out ++ [⟨.lit l, q⟩] }
      | .undefCall isStr => aexec prog fuel rest { a with out := a.out ++ [⟨.default, if isStr then Q.str else Q.int⟩] }
      | .call k q =>
        match findFunc prog k with
        | none => none
        | some (fq, ps, body) =>
          match aexec prog fuel body { a with store := aenter a.store (.func k fq) ps } with
          | none => none
          | some a' =>
            -- the function's value is the cell (its own activation, its name, the qualifier of the call)
            aexec prog fuel rest { store := aleave a.store a'.store (.func k fq),
                                   out := a'.out ++ [a'.store ⟨.func k fq, k, q⟩] }

/-! ## the store is a function of resolved keys: write/read -/

/-- **A write through one occurrence is read through another occurrence iff their resolved keys are equal.** -/
theorem awrite_read (a : AStore) (k1 k2 : RKey) (v : Val) :
    awrite a k1 v k2 = if k2 = k1 then v else a k2 := rfl

theorem awrite_same (a : AStore) (k : RKey) (v : Val) : awrite a k v k = v := by simp [awrite]

theorem awrite_other (a : AStore) (k1 k2 : RKey) (v : Val) (h : k2 ≠ k1) : awrite a k1 v k2 = a k2 := by
  simp [awrite, h]

/-- the "iff" form: when the written value can be told from the old content of the read cell, the read sees the
write exactly when the two resolved keys are the same -/
theorem awrite_read_iff (a : AStore) (k1 k2 : RKey) (v : Val) (hv : a k2 ≠ v) :
    awrite a k1 v k2 = v ↔ k2 = k1 := by
  constructor
  · intro h
    by_cases hk : k2 = k1
    · exact hk
    · rw [awrite_other a k1 k2 v hk] at h; exact absurd h hv
  · intro h; subst h; exact awrite_same a k2 v

/-- a fresh activation: a cell of the entered scope that is not a parameter holds the default of its type, whatever
any earlier activation (or the caller) left there -/
theorem aenter_fresh (a : AStore) (sc : Scope) (ps : List (Key × Q)) (key : RKey) (hh : key.home = sc)
    (hp : (key.name, key.q) ∉ ps) : aenter a sc ps key = ⟨Src.default, key.q⟩ := by
  simp [aenter, hh, bindParams_fresh ps 0 key.name key.q hp]

/-- entering and leaving an activation never touch a cell of another home (in particular SHARED/global cells) -/
theorem aenter_other (a : AStore) (sc : Scope) (ps : List (Key × Q)) (key : RKey) (hh : key.home ≠ sc) :
    aenter a sc ps key = a key := by simp [aenter, hh]

theorem aleave_other (a a' : AStore) (sc : Scope) (key : RKey) (hh : key.home ≠ sc) :
    aleave a a' sc key = a' key := by simp [aleave, hh]

theorem aleave_same (a a' : AStore) (sc : Scope) (key : RKey) (hh : key.home = sc) :
    aleave a a' sc key = a key := by simp [aleave, hh]

/-- assignment through one occurrence, then PRINT through another: the printed value is the assigned one iff the
resolved keys are equal, otherwise what the second key held before -/
theorem aexec_assign_print (prog : List RItem) (fuel : Nat) (k1 k2 : Key) (q1 q2 : Q) (h1 h2 : Scope) (tag : Nat)
    (rest : List RStmt) (a : AMem) :
    aexec prog (fuel + 2) (.assign k1 q1 h1 tag :: .print (.var k2 q2 h2) :: rest) a =
      aexec prog fuel rest
        { store := awrite a.store ⟨h1, k1, q1⟩ ⟨.tag tag, q1⟩,
          out := a.out ++ [if (⟨h2, k2, q2⟩ : RKey) = ⟨h1, k1, q1⟩ then ⟨.tag tag, q1⟩ else a.store ⟨h2, k2, q2⟩] } := by
  simp only [aexec, awrite]

/-! ## well-scoped programs: what the linter guarantees about homes -/

/-- a home an occurrence written in scope `cur` may have: its own scope, or the global frame -/
def homeOk (cur home : Scope) : Prop := home = cur ∨ home = Scope.global

def StmtWS (cur : Scope) : RStmt → Prop
  | .assign _ _ home _ => homeOk cur home
  | .print (.var _ _ home) => homeOk cur home
  | .printCall (.var _ _ home) _ => homeOk cur home
  | _ => True

def ItemWS : RItem → Prop
  | .stmt r => StmtWS Scope.global r
  | .sub k _ body _ => ∀ r ∈ body, StmtWS (Scope.sub k) r
  | .func k q _ body _ => ∀ r ∈ body, StmtWS (Scope.func k q) r

/-- every occurrence of the linted program lives in the scope it is written in, or in the global frame -/
def ProgWS (prog : List RItem) : Prop := ∀ it ∈ prog, ItemWS it

theorem convStmt_ws (c c' : Ctx) (s : Stmt) (r : RStmt) (h : convStmt c s = .ok (c', r)) : StmtWS c.scope r := by
  cases s with
  | dim sh n d =>
    simp only [convStmt] at h
    cases hd : convDim c sh (fold n) d with
    | error e => simp [hd, Except.map] at h
    | ok c1 => simp [hd, Except.map] at h; rw [← h.2]; trivial
  | const n l =>
    simp only [convStmt] at h
    cases hd : convConst c (fold n.name) n.sfx l with
    | error e => simp [hd, Except.map] at h
    | ok c1 => simp [hd, Except.map] at h; rw [← h.2]; trivial
  | assign n b t =>
    simp only [convStmt] at h
    split at h; · cases h
    split at h
    · cases h
    · next c1 k1 q1 home1 hr =>
      split at h
      · cases h
      · injection h with h; injection h with _ hrr; rw [← hrr]
        rcases (local_unless_param_const_shared c c1 _ k1 _ _ q1 home1 hr).2 with hh | ⟨hh, _⟩
        · exact Or.inl hh
        · exact Or.inr hh
    · cases h
  | print n =>
    simp only [convStmt] at h
    split at h
    · cases h
    · next c1 r1 hr =>
      injection h with h; injection h with _ hrr; rw [← hrr]
      cases r1 with
      | var k1 q1 home1 =>
        rcases (local_unless_param_const_shared c c1 _ k1 _ _ q1 home1 hr).2 with hh | ⟨hh, _⟩
        · exact Or.inl hh
        · exact Or.inr hh
      | constant _ _ => trivial
      | call _ _ => trivial
      | undefCall _ => trivial
  | callSub n a =>
    simp only [convStmt] at h
    injection h with h; injection h with _ hrr; rw [← hrr]; trivial
  | printCall n a =>
    simp only [convStmt] at h
    split at h
    · cases h
    · next r1 hr =>
      injection h with h; injection h with _ hrr; rw [← hrr]
      unfold resolveCall at hr
      split at hr; · cases hr
      split at hr
      · split at hr
        · injection hr with hr; rw [← hr]; trivial
        · cases hr
      · injection hr with hr; rw [← hr]; trivial

theorem convStmts_ws (c c' : Ctx) (l : List Stmt) (rs : List RStmt) (h : convStmts c l = .ok (c', rs)) :
    ∀ r ∈ rs, StmtWS c.scope r := by
  induction l generalizing c rs with
  | nil =>
    simp [convStmts] at h; obtain ⟨_, h2⟩ := h; subst h2
    intro r hr; cases hr
  | cons s rest ih =>
    simp only [convStmts] at h
    split at h; · cases h
    next c1 r1 h1 =>
    split at h; · cases h
    next c2 rs2 h2 =>
    injection h with h; injection h with hc hrs; subst hc; subst hrs
    intro r hr
    rcases List.mem_cons.1 hr with hr | hr
    · subst hr; exact convStmt_ws c c1 s r h1
    · have := ih c1 rs2 h2 r hr
      rw [(mono_convStmt c c1 s r1 h1).scope] at this; exact this

theorem convSubprogram_ws (c c' : Ctx) (sc : Scope) (ps : List Param) (body : List Stmt)
    (pq : List (Key × Q)) (rs : List RStmt) (loc : Table)
    (h : convSubprogram c sc ps body = .ok (c', pq, rs, loc)) : ∀ r ∈ rs, StmtWS sc r := by
  unfold convSubprogram at h
  simp only [] at h
  split at h; · cases h
  next c2 pq2 h2 =>
  split at h; · cases h
  next c3 rs3 h3 =>
  injection h with h; injection h with _ hrest; injection hrest with _ hrest; injection hrest with hrs _
  subst hrs
  have hs2 : c2.scope = sc := (mono_convParams (enter c sc) c2 ps pq2 h2).scope
  intro r hr
  have := convStmts_ws c2 c3 body rs3 h3 r hr
  rw [hs2] at this; exact this

theorem convItem_ws (c c' : Ctx) (it : Item) (items : List RItem) (hg : c.scope = Scope.global)
    (h : convItem c it = .ok (c', items)) : ∀ ri ∈ items, ItemWS ri := by
  cases it with
  | defType q rs =>
    simp [convItem] at h; obtain ⟨_, h2⟩ := h; subst h2
    intro ri hri; cases hri
  | stmt s =>
    simp only [convItem] at h
    cases hc : convStmt c s with
    | error e => simp [hc, Except.map] at h
    | ok p =>
      obtain ⟨c1, r1⟩ := p
      simp [hc, Except.map] at h
      rw [← h.2]
      intro ri hri
      simp at hri; subst hri
      have := convStmt_ws c c1 s r1 hc
      rw [hg] at this; exact this
  | sub n ps body =>
    simp only [convItem] at h
    split at h; · cases h
    next c1 pq rs loc hc =>
    injection h with h; injection h with _ h2; subst h2
    intro ri hri; simp at hri; subst hri
    exact convSubprogram_ws c c1 _ ps body pq rs loc hc
  | func n ps body =>
    simp only [convItem] at h
    split at h; · cases h
    next c1 pq rs loc hc =>
    injection h with h; injection h with _ h2; subst h2
    intro ri hri; simp at hri; subst hri
    exact convSubprogram_ws c c1 _ ps body pq rs loc hc

theorem convItems_ws (c c' : Ctx) (l : List Item) (items : List RItem) (hg : c.scope = Scope.global)
    (h : convItems c l = .ok (c', items)) : ProgWS items := by
  induction l generalizing c items with
  | nil =>
    simp [convItems] at h; obtain ⟨_, h2⟩ := h; subst h2
    intro ri hri; cases hri
  | cons it rest ih =>
    simp only [convItems] at h
    split at h; · cases h
    next c1 r1 h1 =>
    split at h; · cases h
    next c2 r2 h2 =>
    injection h with h; injection h with hc hr; subst hc; subst hr
    have s1 := (convItem_ok c c1 it r1 hg h1).1
    intro ri hri
    rcases List.mem_append.1 hri with hri | hri
    · exact convItem_ws c c1 it r1 hg h1 ri hri
    · exact ih c1 r2 s1 h2 ri hri

/-- **Every accepted script is well scoped**: each variable occurrence of the linted program has as its home the
scope it is written in, or the global frame. -/
theorem lint_wellScoped (s : Script) (items : List RItem) (glob : Table) (h : lint s = .ok (items, glob)) :
    ProgWS items := by
  unfold lint at h
  split at h; · cases h
  next p hp =>
  simp only [] at h
  split at h; · cases h
  next cEnd its hconv =>
  split at h; · cases h
  split at h; · cases h
  injection h with h; injection h with h1 _; subst h1
  exact convItems_ws _ cEnd s its rfl hconv

theorem mainStmts_ws (prog : List RItem) (hp : ProgWS prog) : ∀ r ∈ mainStmts prog, StmtWS Scope.global r := by
  induction prog with
  | nil => intro r hr; cases hr
  | cons it rest ih =>
    have hrest : ProgWS rest := fun x hx => hp x (List.mem_cons_of_mem _ hx)
    have hit := hp it (List.mem_cons_self ..)
    cases it with
    | stmt s =>
      intro r hr
      simp only [mainStmts, List.mem_cons] at hr
      rcases hr with hr | hr
      · subst hr; exact hit
      · exact ih hrest r hr
    | sub k ps body loc => simpa [mainStmts] using ih hrest
    | func k q ps body loc => simpa [mainStmts] using ih hrest

theorem findSub_ws (prog : List RItem) (hp : ProgWS prog) (k : Key) (ps : List (Key × Q)) (body : List RStmt)
    (h : findSub prog k = some (ps, body)) : ∀ r ∈ body, StmtWS (Scope.sub k) r := by
  induction prog with
  | nil => simp [findSub] at h
  | cons it rest ih =>
    have hrest : ProgWS rest := fun x hx => hp x (List.mem_cons_of_mem _ hx)
    have hit := hp it (List.mem_cons_self ..)
    cases it with
    | stmt s => simp only [findSub] at h; exact ih hrest h
    | func k' q ps' body' loc => simp only [findSub] at h; exact ih hrest h
    | sub k' ps' body' loc =>
      simp only [findSub] at h
      split at h
      · next hk =>
        injection h with h; injection h with h1 h2; subst hk; subst h2
        exact hit
      · exact ih hrest h

theorem findFunc_ws (prog : List RItem) (hp : ProgWS prog) (k : Key) (fq : Q) (ps : List (Key × Q))
    (body : List RStmt) (h : findFunc prog k = some (fq, ps, body)) : ∀ r ∈ body, StmtWS (Scope.func k fq) r := by
  induction prog with
  | nil => simp [findFunc] at h
  | cons it rest ih =>
    have hrest : ProgWS rest := fun x hx => hp x (List.mem_cons_of_mem _ hx)
    have hit := hp it (List.mem_cons_self ..)
    cases it with
    | stmt s => simp only [findFunc] at h; exact ih hrest h
    | sub k' ps' body' loc => simp only [findFunc] at h; exact ih hrest h
    | func k' q ps' body' loc =>
      simp only [findFunc] at h
      split at h
      · next hk =>
        injection h with h; injection h with h1 h2; injection h2 with h2 h3; subst hk; subst h1; subst h3
        exact hit
      · exact ih hrest h

/-! ## the refinement -/

/-- Simulation relation between the concrete memory of code running in scope `cur` and the abstract store:
same output; the global frame is the `Scope.global` part of the store; the live local frame is the `cur` part. -/
structure Rel (cur : Scope) (m : Mem) (a : AMem) : Prop where
  out : a.out = m.out
  glob : ∀ k q, a.store ⟨Scope.global, k, q⟩ = m.global.get (k, q)
  loc : cur ≠ Scope.global → ∀ k q, a.store ⟨cur, k, q⟩ = m.locl.get (k, q)

/-- code running in scope `cur` leaves the cells of every other non-global home as they were -/
def SameElsewhere (cur : Scope) (a a' : AStore) : Prop :=
  ∀ key : RKey, key.home ≠ cur → key.home ≠ Scope.global → a' key = a key

theorem SameElsewhere.refl (cur : Scope) (a : AStore) : SameElsewhere cur a a := fun _ _ _ => rfl

theorem SameElsewhere.trans {cur : Scope} {a b c : AStore} (h1 : SameElsewhere cur a b) (h2 : SameElsewhere cur b c) :
    SameElsewhere cur a c := fun key hk hg => (h2 key hk hg).trans (h1 key hk hg)

/-- both runs stop for lack of fuel, or both finish in related states -/
def SimRes (cur : Scope) (a : AStore) : Option Mem → Option AMem → Prop
  | some m', some a' => Rel cur m' a' ∧ SameElsewhere cur a a'.store
  | none, none => True
  | _, _ => False

theorem SimRes.frame {cur : Scope} {a b : AStore} {x : Option Mem} {y : Option AMem}
    (h1 : SameElsewhere cur a b) (h : SimRes cur b x y) : SimRes cur a x y := by
  cases x <;> cases y <;> simp only [SimRes] at h ⊢
  exact ⟨h.1, h1.trans h.2⟩

/-- a read through an occurrence = the store at its resolved key -/
theorem read_agree (cur : Scope) (m : Mem) (a : AMem) (k : Key) (q : Q) (home : Scope)
    (hR : Rel cur m a) (hh : homeOk cur home) :
    a.store ⟨home, k, q⟩ = readVar m (decide (cur = Scope.global)) k q home := by
  unfold readVar
  rcases hh with h | h
  · subst h
    by_cases hc : home = Scope.global
    · subst hc; simp [hR.glob]
    · simp [hc, hR.loc hc]
  · subst h; simp [hR.glob]

theorem frame_get_set_ite (f : Frame) (n n' : Key × Q) (v : Val) :
    (f.set n v).get n' = if n = n' then v else f.get n' := by
  simp [Frame.set, Frame.get]

/-- a write through an occurrence = function update at its resolved key -/
theorem write_rel (cur : Scope) (m : Mem) (a : AMem) (k : Key) (q : Q) (home : Scope) (v : Val)
    (hR : Rel cur m a) (hh : homeOk cur home) :
    Rel cur (writeVar m (decide (cur = Scope.global)) k q home v)
      { a with store := awrite a.store ⟨home, k, q⟩ v } := by
  have hglobal : ∀ (g : Bool), Rel cur (writeVar m g k q Scope.global v)
      { a with store := awrite a.store ⟨Scope.global, k, q⟩ v } := by
    intro g
    have hw : writeVar m g k q Scope.global v = { m with global := m.global.set (k, q) v } := by
      simp [writeVar]
    rw [hw]
    refine ⟨hR.out, ?_, ?_⟩
    · intro k' q'
      simp only [awrite, frame_get_set_ite, RKey.mk.injEq, Prod.mk.injEq, true_and]
      by_cases he : k' = k ∧ q' = q
      · obtain ⟨h1, h2⟩ := he; subst h1; subst h2; simp
      · have he' : ¬ (k = k' ∧ q = q') := fun h => he ⟨h.1.symm, h.2.symm⟩
        simp only [he, he', if_false]; exact hR.glob k' q'
    · intro hc k' q'
      have : (⟨cur, k', q'⟩ : RKey) ≠ ⟨Scope.global, k, q⟩ := by
        intro h; injection h with h _ _; exact hc h
      simp only [awrite, this, if_false]
      exact hR.loc hc k' q'
  rcases hh with h | h
  · subst h
    by_cases hc : home = Scope.global
    · subst hc; exact hglobal _
    · have hw : writeVar m (decide (home = Scope.global)) k q home v = { m with locl := m.locl.set (k, q) v } := by
        simp [writeVar, hc]
      rw [hw]
      refine ⟨hR.out, ?_, ?_⟩
      · intro k' q'
        have : (⟨Scope.global, k', q'⟩ : RKey) ≠ ⟨home, k, q⟩ := by
          intro h; injection h with h _ _; exact hc h.symm
        simp only [awrite, this, if_false]
        exact hR.glob k' q'
      · intro _ k' q'
        simp only [awrite, frame_get_set_ite, RKey.mk.injEq, Prod.mk.injEq, true_and]
        by_cases he : k' = k ∧ q' = q
        · obtain ⟨h1, h2⟩ := he; subst h1; subst h2; simp
        · have he' : ¬ (k = k' ∧ q = q') := fun h => he ⟨h.1.symm, h.2.symm⟩
          simp only [he, he', if_false]; exact hR.loc hc k' q'
  · subst h; exact hglobal _

theorem write_frame (cur : Scope) (a : AStore) (k : Key) (q : Q) (home : Scope) (v : Val) (hh : homeOk cur home) :
    SameElsewhere cur a (awrite a ⟨home, k, q⟩ v) := by
  intro key hk hg
  have : key ≠ ⟨home, k, q⟩ := by
    intro h; subst h
    rcases hh with h | h
    · exact hk h
    · exact hg h
  simp [awrite, this]

/-- entering a subprogram: the callee starts related to the fresh parameter frame -/
theorem enter_rel (cur sc : Scope) (hsc : sc ≠ Scope.global) (m : Mem) (a : AMem) (ps : List (Key × Q))
    (hR : Rel cur m a) :
    Rel sc { m with locl := bindParams ps 0 } { a with store := aenter a.store sc ps } := by
  refine ⟨hR.out, ?_, ?_⟩
  · intro k q
    have : Scope.global ≠ sc := fun h => hsc h.symm
    simp only [aenter, this, if_false]; exact hR.glob k q
  · intro _ k q; simp [aenter]

/-- returning: the caller's local frame is back, the global part is what the callee left -/
theorem leave_rel (cur sc : Scope) (hsc : sc ≠ Scope.global) (m m' : Mem) (a a' : AMem) (ps : List (Key × Q))
    (o : List Val) (hR : Rel cur m a) (hR' : Rel sc m' a')
    (hF : SameElsewhere sc (aenter a.store sc ps) a'.store) :
    Rel cur { global := m'.global, locl := m.locl, out := o } { store := aleave a.store a'.store sc, out := o } ∧
    SameElsewhere cur a.store (aleave a.store a'.store sc) := by
  refine ⟨⟨rfl, ?_, ?_⟩, ?_⟩
  · intro k q
    have : Scope.global ≠ sc := fun h => hsc h.symm
    simp only [aleave, this, if_false]; exact hR'.glob k q
  · intro hc k q
    by_cases hcs : cur = sc
    · simp only [aleave, hcs, if_true]; rw [← hcs]; exact hR.loc hc k q
    · simp only [aleave, hcs, if_false]
      rw [hF ⟨cur, k, q⟩ hcs hc]
      simp only [aenter, hcs, if_false]; exact hR.loc hc k q
  · intro key hk hg
    by_cases hks : key.home = sc
    · simp [aleave, hks]
    · simp only [aleave, hks, if_false]
      rw [hF key hks hg]; simp [aenter, hks]

/-- **Simulation.**  Statements of scope `cur` of a well-scoped program, started in related states, run in lock
step on the concrete memory and on the abstract store. -/
theorem sim (prog : List RItem) (hp : ProgWS prog) :
    ∀ (fuel : Nat) (stmts : List RStmt) (cur : Scope) (m : Mem) (a : AMem),
      (∀ r ∈ stmts, StmtWS cur r) → Rel cur m a →
      SimRes cur a.store (exec prog fuel stmts (decide (cur = Scope.global)) m) (aexec prog fuel stmts a) := by
  intro fuel
  induction fuel with
  | zero =>
    intro stmts cur m a _ hR
    cases stmts with
    | nil => simp only [exec, aexec, SimRes]; exact ⟨hR, SameElsewhere.refl _ _⟩
    | cons s rest => simp only [exec, aexec, SimRes]
  | succ fuel ih =>
    intro stmts cur m a hws hR
    cases stmts with
    | nil => simp only [exec, aexec, SimRes]; exact ⟨hR, SameElsewhere.refl _ _⟩
    | cons s rest =>
      have hrest : ∀ r ∈ rest, StmtWS cur r := fun r hr => hws r (List.mem_cons_of_mem _ hr)
      have hs : StmtWS cur s := hws s (List.mem_cons_self ..)
      -- a printed value that does not touch the store
      have hprint : ∀ v : Val,
          SimRes cur a.store (exec prog fuel rest (decide (cur = Scope.global)) { m with out := m.out ++ [v] })
            (aexec prog fuel rest { a with out := a.out ++ [v] }) := by
        intro v
        exact ih rest cur _ _ hrest ⟨by simp [hR.out], hR.glob, hR.loc⟩
      -- a call of a subprogram with scope `sc`, body `body`; `f` says what is appended to the output on return
      have hcall : ∀ (sc : Scope) (ps : List (Key × Q)) (body : List RStmt) (fm : Mem → List Val) (fa : AMem → List Val),
          sc ≠ Scope.global → (∀ r ∈ body, StmtWS sc r) →
          (∀ m' a', Rel sc m' a' → fa a' = fm m') →
          SimRes cur a.store
            (match exec prog fuel body false { m with locl := bindParams ps 0 } with
             | none => none
             | some m' => exec prog fuel rest (decide (cur = Scope.global))
                            { global := m'.global, locl := m.locl, out := fm m' })
            (match aexec prog fuel body { a with store := aenter a.store sc ps } with
             | none => none
             | some a' => aexec prog fuel rest { store := aleave a.store a'.store sc, out := fa a' }) := by
        intro sc ps body fm fa hsc hbody hf
        have hdec : decide (sc = Scope.global) = false := by simp [hsc]
        have h1 := ih body sc _ _ hbody (enter_rel cur sc hsc m a ps hR)
        rw [hdec] at h1
        cases he : exec prog fuel body false { m with locl := bindParams ps 0 } with
        | none =>
          cases hae : aexec prog fuel body { a with store := aenter a.store sc ps } with
          | none => simp only [SimRes]
          | some a' => rw [he, hae] at h1; simp only [SimRes] at h1
        | some m' =>
          cases hae : aexec prog fuel body { a with store := aenter a.store sc ps } with
          | none => rw [he, hae] at h1; simp only [SimRes] at h1
          | some a' =>
            rw [he, hae] at h1
            simp only [SimRes] at h1
            obtain ⟨hR', hF⟩ := h1
            simp only []
            obtain ⟨hR2, hF2⟩ := leave_rel cur sc hsc m m' a a' ps (fm m') hR hR' hF
            rw [hf m' a' hR']
            exact SimRes.frame hF2 (ih rest cur _ _ hrest hR2)
      cases s with
      | nop => simp only [exec, aexec]; exact ih rest cur m a hrest hR
      | assign k q home tag =>
        simp only [exec, aexec]
        have hh : homeOk cur home := hs
        exact SimRes.frame (write_frame cur a.store k q home _ hh)
          (ih rest cur _ _ hrest (write_rel cur m a k q home _ hR hh))
      | callSub k args =>
        simp only [exec, aexec]
        cases hf : findSub prog k with
        | none => simp only [SimRes]
        | some pb =>
          obtain ⟨ps, body⟩ := pb
          simp only []
          have := hcall (Scope.sub k) ps body (fun m' => m'.out) (fun a' => a'.out) (by simp)
            (findSub_ws prog hp k ps body hf) (fun m' a' h => h.out)
          exact this
      | print r =>
        cases r with
        | var k q home =>
          simp only [exec, aexec]
          have hh : homeOk cur home := hs
          rw [read_agree cur m a k q home hR hh]
          exact hprint _
        | constant q l => simp only [exec, aexec]; exact hprint _
        | undefCall isStr => simp only [exec, aexec]; exact hprint _
        | call k q =>
          simp only [exec, aexec]
          cases hf : findFunc prog k with
          | none => simp only [SimRes]
          | some pb =>
            obtain ⟨fq, ps, body⟩ := pb
            simp only []
            have := hcall (Scope.func k fq) ps body (fun m' => m'.out ++ [m'.locl.get (k, q)])
              (fun a' => a'.out ++ [a'.store ⟨Scope.func k fq, k, q⟩]) (by simp)
              (findFunc_ws prog hp k fq ps body hf)
              (fun m' a' h => by
                show a'.out ++ [a'.store ⟨Scope.func k fq, k, q⟩] = m'.out ++ [m'.locl.get (k, q)]
                rw [h.out, h.loc (by simp) k q])
            exact this
      | printCall r args =>
        cases r with
        | var k q home =>
          simp only [exec, aexec]
          have hh : homeOk cur home := hs
          rw [read_agree cur m a k q home hR hh]
          exact hprint _
        | constant q l => simp only [exec, aexec]; exact hprint _
        | undefCall isStr => simp only [exec, aexec]; exact hprint _
        | call k q =>
          simp only [exec, aexec]
          cases hf : findFunc prog k with
          | none => simp only [SimRes]
          | some pb =>
            obtain ⟨fq, ps, body⟩ := pb
            simp only []
            have := hcall (Scope.func k fq) ps body (fun m' => m'.out ++ [m'.locl.get (k, q)])
              (fun a' => a'.out ++ [a'.store ⟨Scope.func k fq, k, q⟩]) (by simp)
              (findFunc_ws prog hp k fq ps body hf)
              (fun m' a' h => by
                show a'.out ++ [a'.store ⟨Scope.func k fq, k, q⟩] = m'.out ++ [m'.locl.get (k, q)]
                rw [h.out, h.loc (by simp) k q])
            exact this

/-- the memory a run starts with, and the abstract store it corresponds to -/
def mem0 : Mem := { global := [], locl := [], out := [] }
def amem0 : AMem := { store := ainit, out := [] }

theorem rel0 : Rel Scope.global mem0 amem0 := ⟨rfl, fun _ _ => rfl, fun h => absurd rfl h⟩

/-- **Whole-program statement (refinement).**  For every script the checker accepts and every fuel, the concrete
run of the main module — frames keyed by the qualified name, a fresh local frame per call, SHARED variables in the
global frame — prints exactly what the run over the abstract store `RKey → Val` prints (and runs out of fuel exactly
when that run does): which cell an occurrence denotes depends on its resolved key `(home, name, qualifier)` and on
the activation it is executed in, and on nothing else. -/
theorem exec_refines_abstract (s : Script) (items : List RItem) (glob : Table) (h : lint s = .ok (items, glob))
    (fuel : Nat) :
    (exec items fuel (mainStmts items) true mem0).map (·.out) =
      (aexec items fuel (mainStmts items) amem0).map (·.out) := by
  have hp := lint_wellScoped s items glob h
  have := sim items hp fuel (mainStmts items) Scope.global mem0 amem0 (mainStmts_ws items hp) rel0
  simp only [decide_true] at this
  cases he : exec items fuel (mainStmts items) true mem0 with
  | none =>
    cases hae : aexec items fuel (mainStmts items) amem0 with
    | none => rfl
    | some a' => rw [he, hae] at this; simp only [SimRes] at this
  | some m' =>
    cases hae : aexec items fuel (mainStmts items) amem0 with
    | none => rw [he, hae] at this; simp only [SimRes] at this
    | some a' =>
      rw [he, hae] at this
      simp only [SimRes] at this
      simp [this.1.out]

/-- the same, read off `runScript` (what the driver reports and the harness compares with the interpreter's
output): the printed values of an accepted script are those of the abstract run over the resolved keys -/
theorem runScript_out_abstract (s : Script) (tr : List Res) (out : Option (List Val)) (b : Bool)
    (h : runScript s = .accepted tr out b) :
    ∃ items glob, lint s = .ok (items, glob) ∧ tr = traceOf (allStmts items) ∧
      out = (aexec items runFuel (mainStmts items) amem0).map (·.out) := by
  unfold runScript at h
  split at h
  · cases h
  · next items glob hl =>
    injection h with h1 h2 _
    refine ⟨items, glob, hl, h1.symm, ?_⟩
    rw [← h2]
    exact exec_refines_abstract s items glob hl runFuel

/-! ## the same fact on the concrete memory -/

/-- **Two occurrences denote the same cell iff their resolved keys are equal** (concrete memory): in code running
in scope `cur`, a write through an occurrence resolved to `(h1, k1, q1)` followed by a read through an occurrence
resolved to `(h2, k2, q2)` — both well scoped, as in every accepted script (`lint_wellScoped`) — gives the written
value iff the two keys are equal, and otherwise what the second cell held before. -/
theorem occurrences_same_cell (cur : Scope) (m : Mem) (k1 k2 : Key) (q1 q2 : Q) (h1 h2 : Scope) (v : Val)
    (hh1 : homeOk cur h1) (hh2 : homeOk cur h2) :
    readVar (writeVar m (decide (cur = Scope.global)) k1 q1 h1 v) (decide (cur = Scope.global)) k2 q2 h2 =
      if (⟨h2, k2, q2⟩ : RKey) = ⟨h1, k1, q1⟩ then v else readVar m (decide (cur = Scope.global)) k2 q2 h2 := by
  -- through the abstraction of `m`: the store that reads `m`
  let a : AMem := { store := fun key => if key.home = Scope.global then m.global.get (key.name, key.q)
                                          else m.locl.get (key.name, key.q), out := m.out }
  have hR : Rel cur m a := ⟨rfl, fun k q => by simp [a], fun hc k q => by simp [a, hc]⟩
  have hW := write_rel cur m a k1 q1 h1 v hR hh1
  rw [← read_agree cur _ _ k2 q2 h2 hW hh2, ← read_agree cur m a k2 q2 h2 hR hh2]
  rfl

theorem occurrences_same_cell_iff (cur : Scope) (m : Mem) (k1 k2 : Key) (q1 q2 : Q) (h1 h2 : Scope) (v : Val)
    (hh1 : homeOk cur h1) (hh2 : homeOk cur h2)
    (hv : readVar m (decide (cur = Scope.global)) k2 q2 h2 ≠ v) :
    readVar (writeVar m (decide (cur = Scope.global)) k1 q1 h1 v) (decide (cur = Scope.global)) k2 q2 h2 = v ↔
      (⟨h2, k2, q2⟩ : RKey) = ⟨h1, k1, q1⟩ := by
  rw [occurrences_same_cell cur m k1 k2 q1 q2 h1 h2 v hh1 hh2]
  by_cases he : (⟨h2, k2, q2⟩ : RKey) = ⟨h1, k1, q1⟩
  · simp [he]
  · simp only [he, if_false, iff_false]; exact hv

/-! ## non-vacuity: a script with two SUBs, a SHARED variable, a same-named local of another type, a DEFtype range -/

/-- ```
DEFINT A-C
DIM SHARED A            ' A% (DEFINT), SHARED
A = 1
SUB S : A$ = "x" : A = 3 : PRINT A$ : END SUB     ' A$ is a local of S, A the SHARED A%
SUB T : PRINT A : PRINT A$ : END SUB              ' A$ is another cell: a local of T
S : T : PRINT A
``` -/
def demo : Script :=
  [.defType .int [(65, 67)],
   .stmt (.dim true [65] .bare),
   .stmt (.assign ⟨[65], none⟩ false 1),
   .sub [83] [] [.assign ⟨[65], some .str⟩ true 2, .assign ⟨[65], none⟩ false 3, .print ⟨[65], some .str⟩],
   .sub [84] [] [.print ⟨[65], none⟩, .print ⟨[65], some .str⟩],
   .stmt (.callSub [83] []), .stmt (.callSub [84] []), .stmt (.print ⟨[65], none⟩)]

/-- the resolved keys of its seven occurrences (program order) and what it prints: the SHARED `A%` written in `S`
is read in `T` and in the main module (key `(global, A, %)` three times); `A$` in `S` and `A$` in `T` have different
keys (`(S, A, $)`, `(T, A, $)`), so `T` prints the default -/
example : runScript demo = .accepted
    [.var [65] .int .global,
     .var [65] .str (.sub [83]), .var [65] .int .global, .var [65] .str (.sub [83]),
     .var [65] .int .global, .var [65] .str (.sub [84]),
     .var [65] .int .global]
    (some [⟨.tag 2, .str⟩, ⟨.tag 3, .int⟩, ⟨.default, .str⟩, ⟨.tag 3, .int⟩]) true := by decide

/-- the hypothesis of `exec_refines_abstract` holds for it, and the abstract run over `RKey → Val` prints the same -/
example : ∃ items glob, lint demo = .ok (items, glob) ∧
    (aexec items runFuel (mainStmts items) amem0).map (·.out) =
      some [⟨.tag 2, .str⟩, ⟨.tag 3, .int⟩, ⟨.default, .str⟩, ⟨.tag 3, .int⟩] := ⟨_, _, rfl, by decide⟩

/-- `ProgWS` is not trivially true: a body of SUB `S` mentioning a cell of SUB `T` is not well scoped — and for such
a (never produced) tree the concrete run would confuse the two cells -/
example : ¬ ProgWS [.sub [83] [] [.print (.var [65] .str (.sub [84]))] []] := by
  intro h
  have := h _ (List.mem_cons_self ..) _ (List.mem_cons_self ..)
  rcases this with h | h <;> cases h

/-- `occurrences_same_cell_iff` on a non-trivial memory: inside `S`, after `A$ = tag 2`, `A$` reads it, `A%`
(another key of the same frame) and the SHARED `A%` (another home) do not -/
example :
    let m : Mem := { global := [(([65], .int), ⟨.tag 1, .int⟩)], locl := [], out := [] }
    readVar (writeVar m false [65] .str (.sub [83]) ⟨.tag 2, .str⟩) false [65] .str (.sub [83]) = ⟨.tag 2, .str⟩ ∧
    readVar (writeVar m false [65] .str (.sub [83]) ⟨.tag 2, .str⟩) false [65] .int (.sub [83]) = ⟨.default, .int⟩ ∧
    readVar (writeVar m false [65] .str (.sub [83]) ⟨.tag 2, .str⟩) false [65] .int .global = ⟨.tag 1, .int⟩ := by
  decide

/-- recursion: a FUNCTION whose activation calls another activation of itself — the caller's cells of that home are
restored by `aleave`; both runs agree (here: both exhaust the fuel, `F` recurses forever) -/
example : ∃ items glob, lint [.func ⟨[70], some .int⟩ [] [.print ⟨[70], some .int⟩], .stmt (.print ⟨[70], some .int⟩)]
      = .ok (items, glob) ∧
    (exec items 40 (mainStmts items) true mem0).map (·.out) = none ∧
    (aexec items 40 (mainStmts items) amem0).map (·.out) = none := ⟨_, _, rfl, by decide, by decide⟩

end RbThm.C13Whole
