import RbModel.ProcJ.Ref
/-!
ProcJProps — how GOSUB / RETURN and procedure calls meet (properties C03 / C05), over the reference semantics `ProcJ.Ref`
alone, for arbitrary programs, any nesting, any fuel.

The semantics is big-step: "the state at the RETURN / EXIT" is the state component of the answer of the sub-statement in which
it was executed; the theorems say what the enclosing GOSUB statements, the enclosing call and the caller make of that answer.
The pending GOSUBs of an activation are the nested runs `exec P n A A.body (.seek L) s` of its body; "`k` GOSUBs of the
activation pending" is `k` applications of the `gosub` equation below.  A caller's pending GOSUBs, FOR loops and SELECTs are
the *context* in which `call` is evaluated: `call P n f args s` has no access to it — that is the content of "whatever the
callers have pending", and every theorem about `call` below is stated for an arbitrary such context.

* `return_answers_own_procedure_only`  — a RETURN that comes out of the callee's outermost run (no GOSUB of that activation
  pending) is error 3 at the RETURN's position, for the call as an expression and as a statement; the error passes unchanged
  through every statement of the caller, in particular through the caller's pending GOSUBs (`error_passes_gosub`,
  `error_passes_seq`, `error_ends_run`), so no GOSUB of a caller answers it.
* `procedure_exit_drops_its_gosubs`    — EXIT SUB / EXIT FUNCTION executed inside a GOSUB routine (`exit_passes_gosub`, at
  any depth: `exit_passes_gosubs`) and END SUB reached inside a routine (`end_of_body_inside_routine`) end the activation:
  the call returns to the caller exactly as if the body had ended normally with nothing pending (`call_exited_eq_normal`).
* `caller_gosub_survives_call`         — after a call that returned (whatever the callee did: GOSUBs left pending, EXIT
  inside routines, its own RETURNs), a RETURN of the caller answers the caller's GOSUB (`gosub_answered_by_return`) and the
  caller's FOR goes on with the limit, step and direction it had (`caller_for_continues_after_call`).
-/
namespace RbThm.ProcJProps
open RbModel RbModel.ProcJ RbModel.ProcJ.Ref
open RbModel.Num hiding Expr
open RbModel.Ast (Pos)
open RbModel.Proc (Var Expr Args PrintItem CaseExpr ProcDecl zeroOf)
open RbModel.Proc.Ref (St writeBack codeOf)

/-! ## unfolding equations -/

theorem exec_gosub (P : Program) (n : Nat) (A : Act) (L : Nat) (s : St) :
    exec P (n + 1) A (.gosub L) .run s =
      ((exec P n A A.body (.seek L) s).1, gosubEnd A.inProc (exec P n A A.body (.seek L) s).2) := by
  simp only [exec] <;> rfl

theorem exec_ret (P : Program) (n : Nat) (A : Act) (p : Pos) (s : St) :
    exec P (n + 1) A (.ret p) .run s = (s, .ret p) := by
  simp only [exec] <;> rfl

theorem exec_exit (P : Program) (n : Nat) (A : Act) (p : Pos) (s : St) :
    exec P (n + 1) A (.exitProc p) .run s = (s, .exited) := by
  simp only [exec] <;> rfl

theorem exec_callSub (P : Program) (n : Nat) (A : Act) (f : Nat) (args : Args) (q : Pos) (s : St) :
    exec P (n + 1) A (.callSub f args q) .run s =
      (match call P n f args s with
       | (s', .ok _) => (s', .normal)
       | (s', .error o) => (s', o)) := by
  simp only [exec] <;> rfl

theorem eval_callFn (P : Program) (n : Nat) (f : Nat) (args : Args) (t : Ty) (q : Pos) (s : St) :
    eval P (n + 1) (.callFn f args t q) s = call P n f args s := by
  simp only [eval]

/-- a sequence in run mode -/
theorem exec_seq_run (P : Program) (n : Nat) (A : Act) (a b : Stmt) (s : St) :
    exec P (n + 1) A (.seq a b) .run s =
      (match (match exec P n A a .run s with
              | (s', .normal) => exec P n A b .run s'
              | r => r) with
       | (s', .jump L) => if (Stmt.seq a b).hasLabel L then exec P n A (.seq a b) (.seek L) s' else (s', .jump L)
       | r => r) := by
  simp only [exec, Mode.enters, if_true]; rfl

/-- the value a call yields: the FUNCTION's result variable in the callee's final state -/
def resultOf (d : ProcDecl Stmt) (s2 : St) : Val :=
  match d.result with
  | some rt => s2.locals.getD d.resultSlot (zeroOf rt)
  | none => .int 0

/-- the caller's state after a call that returned: its own environment as it was, by-reference write-backs applied -/
def backInCaller (args : Args) (s1 s2 : St) : St :=
  writeBack args 0 s2.locals { s2 with env := s1.env, self := s1.self }

/-- a call, given the declaration, the argument values and the answer of the body -/
theorem call_eq (P : Program) (n f : Nat) (args : Args) (s s1 s2 : St) (d : ProcDecl Stmt) (vals : List Val) (o : Outcome)
    (hd : P.procs[f]? = some d) (ha : evalArgs P n args s = (s1, .ok vals))
    (hb : exec P n ⟨true, d.body⟩ d.body .run (enter d f vals s1) = (s2, o)) :
    call P (n + 1) f args s =
      if returns o then (backInCaller args s1 s2, .ok (resultOf d s2)) else (s2, .error (callFail o)) := by
  simp only [call, hd, ha, hb, backInCaller, resultOf]; rfl

/-! ## RETURN only answers a GOSUB of its own activation -/

/-- **A RETURN in a procedure with no GOSUB of that activation pending is error 3**, at the RETURN's position, with the
state at the RETURN — whatever the callers have pending: `hb` says that the `ret p` came out of the callee's *outermost* run
(every GOSUB the activation had made was answered or the RETURN would have been consumed by one: `gosub_answered_by_return`),
and the call is evaluated in an arbitrary context. -/
theorem return_answers_own_procedure_only (P : Program) (n f : Nat) (args : Args) (s s1 s2 : St) (d : ProcDecl Stmt)
    (vals : List Val) (p : Pos)
    (hd : P.procs[f]? = some d) (ha : evalArgs P n args s = (s1, .ok vals))
    (hb : exec P n ⟨true, d.body⟩ d.body .run (enter d f vals s1) = (s2, .ret p)) :
    call P (n + 1) f args s = (s2, .error (.error codeReturnWithoutGoSub p)) := by
  rw [call_eq P n f args s s1 s2 d vals (.ret p) hd ha hb]; rfl

/-- … as a statement of the caller `A` (any activation, in any of its routines) -/
theorem return_answers_own_procedure_only_stmt (P : Program) (n f : Nat) (A : Act) (args : Args) (q : Pos)
    (s s1 s2 : St) (d : ProcDecl Stmt) (vals : List Val) (p : Pos)
    (hd : P.procs[f]? = some d) (ha : evalArgs P n args s = (s1, .ok vals))
    (hb : exec P n ⟨true, d.body⟩ d.body .run (enter d f vals s1) = (s2, .ret p)) :
    exec P (n + 2) A (.callSub f args q) .run s = (s2, .error codeReturnWithoutGoSub p) := by
  rw [exec_callSub, return_answers_own_procedure_only P n f args s s1 s2 d vals p hd ha hb]

/-- … as a function call inside an expression -/
theorem return_answers_own_procedure_only_expr (P : Program) (n f : Nat) (args : Args) (t : Ty) (q : Pos)
    (s s1 s2 : St) (d : ProcDecl Stmt) (vals : List Val) (p : Pos)
    (hd : P.procs[f]? = some d) (ha : evalArgs P n args s = (s1, .ok vals))
    (hb : exec P n ⟨true, d.body⟩ d.body .run (enter d f vals s1) = (s2, .ret p)) :
    eval P (n + 2) (.callFn f args t q) s = (s2, .error (.error codeReturnWithoutGoSub p)) := by
  rw [eval_callFn, return_answers_own_procedure_only P n f args s s1 s2 d vals p hd ha hb]

/-- the error passes through a pending GOSUB of the caller: the GOSUB statement whose routine (nested run) ended with the
error ends with the error — it is not answered -/
theorem error_passes_gosub (P : Program) (n : Nat) (A : Act) (L : Nat) (s s' : St) (c : Nat) (p : Pos)
    (h : exec P n A A.body (.seek L) s = (s', .error c p)) :
    exec P (n + 1) A (.gosub L) .run s = (s', .error c p) := by
  rw [exec_gosub, h]; rfl

/-- … and through a sequence (first part) -/
theorem error_passes_seq (P : Program) (n : Nat) (A : Act) (a b : Stmt) (s s' : St) (c : Nat) (p : Pos)
    (h : exec P n A a .run s = (s', .error c p)) :
    exec P (n + 1) A (.seq a b) .run s = (s', .error c p) := by
  rw [exec_seq_run, h]

/-- … second part -/
theorem error_passes_seq_right (P : Program) (n : Nat) (A : Act) (a b : Stmt) (s s₀ s' : St) (c : Nat) (p : Pos)
    (ha : exec P n A a .run s = (s₀, .normal)) (h : exec P n A b .run s₀ = (s', .error c p)) :
    exec P (n + 1) A (.seq a b) .run s = (s', .error c p) := by
  rw [exec_seq_run, ha]; simp only [h]

/-- … and it is how the program ends -/
theorem error_ends_run (n : Nat) (P : Program) (s' : St) (c : Nat) (p : Pos)
    (h : exec P n ⟨false, P.body⟩ P.body .run (St.init P) = (s', .error c p)) :
    run n P = (s', .error c p) := by
  simp only [run, h, topOutcome]

/-- a RETURN at the top of the main module with nothing pending: error 3 as well -/
theorem return_without_gosub_error3 (n : Nat) (P : Program) (s' : St) (p : Pos)
    (h : exec P n ⟨false, P.body⟩ P.body .run (St.init P) = (s', .ret p)) :
    run n P = (s', .error codeReturnWithoutGoSub p) := by
  simp only [run, h, topOutcome]

/-! ## leaving a procedure drops its pending GOSUBs -/

/-- EXIT SUB / EXIT FUNCTION executed while a GOSUB of the activation is pending: the GOSUB statement does not end
normally, it passes the `exited` on — the routine's GOSUB is dropped -/
theorem exit_passes_gosub (P : Program) (n : Nat) (A : Act) (L : Nat) (s s' : St)
    (h : exec P n A A.body (.seek L) s = (s', .exited)) :
    exec P (n + 1) A (.gosub L) .run s = (s', .exited) := by
  rw [exec_gosub, h]; rfl

/-- END SUB / END FUNCTION reached inside a GOSUB routine (the text of the body ran out in the nested run): the procedure
returns -/
theorem end_of_body_inside_routine (P : Program) (n : Nat) (body : Stmt) (L : Nat) (s s' : St)
    (h : exec P n ⟨true, body⟩ body (.seek L) s = (s', .normal)) :
    exec P (n + 1) ⟨true, body⟩ (.gosub L) .run s = (s', .exited) := by
  rw [exec_gosub, h]; rfl

/-- in the main module the same situation ends the program -/
theorem end_of_main_inside_routine (P : Program) (n : Nat) (body : Stmt) (L : Nat) (s s' : St)
    (h : exec P n ⟨false, body⟩ body (.seek L) s = (s', .normal)) :
    exec P (n + 1) ⟨false, body⟩ (.gosub L) .run s = (s', .halted) := by
  rw [exec_gosub, h]; rfl

/-- `exited` leaves a sequence at once: what follows the GOSUB statement in the routine or in the body is not executed -/
theorem exit_passes_seq (P : Program) (n : Nat) (A : Act) (a b : Stmt) (s s' : St)
    (h : exec P n A a .run s = (s', .exited)) :
    exec P (n + 1) A (.seq a b) .run s = (s', .exited) := by
  rw [exec_seq_run, h]

/-- two levels: the routine `GOSUB L : rest` whose inner routine (entered at `L`) executed EXIT ends `exited` itself — `rest`
is skipped —, so by `exit_passes_gosub` the GOSUB that entered *this* routine passes it on as well, and so on through any
number of pending GOSUBs of the activation, up to the call (`procedure_exit_drops_its_gosubs`) -/
theorem exit_skips_rest_of_routine (P : Program) (n : Nat) (A : Act) (L : Nat) (rest : Stmt) (s s' : St)
    (h : exec P n A A.body (.seek L) s = (s', .exited)) :
    exec P (n + 2) A (.seq (.gosub L) rest) .run s = (s', .exited) :=
  exit_passes_seq P (n + 1) A _ rest s s' (exit_passes_gosub P n A L s s' h)

/-- **Leaving a procedure drops its pending GOSUBs.**  When the callee's body ends `exited` — EXIT SUB / EXIT FUNCTION, at the
top of the body or inside any number of pending GOSUB routines (`exit_passes_gosub`), or END SUB reached inside a routine
(`end_of_body_inside_routine`) — the call returns to the caller: by-reference write-backs from the callee's final variables,
the FUNCTION's result, the caller's own environment as before the call.  Nothing of the callee's pending GOSUBs remains:
the answer is that of a body that ended normally (`call_exited_eq_normal`). -/
theorem procedure_exit_drops_its_gosubs (P : Program) (n f : Nat) (args : Args) (s s1 s2 : St) (d : ProcDecl Stmt)
    (vals : List Val)
    (hd : P.procs[f]? = some d) (ha : evalArgs P n args s = (s1, .ok vals))
    (hb : exec P n ⟨true, d.body⟩ d.body .run (enter d f vals s1) = (s2, .exited)) :
    call P (n + 1) f args s = (backInCaller args s1 s2, .ok (resultOf d s2)) := by
  rw [call_eq P n f args s s1 s2 d vals .exited hd ha hb]; rfl

/-- a body that ended normally (END SUB reached with nothing pending) gives the same answer -/
theorem call_normal (P : Program) (n f : Nat) (args : Args) (s s1 s2 : St) (d : ProcDecl Stmt) (vals : List Val)
    (hd : P.procs[f]? = some d) (ha : evalArgs P n args s = (s1, .ok vals))
    (hb : exec P n ⟨true, d.body⟩ d.body .run (enter d f vals s1) = (s2, .normal)) :
    call P (n + 1) f args s = (backInCaller args s1 s2, .ok (resultOf d s2)) := by
  rw [call_eq P n f args s s1 s2 d vals .normal hd ha hb]; rfl

/-- the caller cannot tell a procedure that was left with GOSUBs pending from one that ended at END SUB -/
theorem call_exited_eq_normal (P P' : Program) (n n' f : Nat) (args : Args) (s s1 s2 : St) (d d' : ProcDecl Stmt)
    (vals vals' : List Val) (hres : d'.result = d.result) (hpar : d'.params = d.params)
    (hd : P.procs[f]? = some d) (ha : evalArgs P n args s = (s1, .ok vals))
    (hb : exec P n ⟨true, d.body⟩ d.body .run (enter d f vals s1) = (s2, .exited))
    (hd' : P'.procs[f]? = some d') (ha' : evalArgs P' n' args s = (s1, .ok vals'))
    (hb' : exec P' n' ⟨true, d'.body⟩ d'.body .run (enter d' f vals' s1) = (s2, .normal)) :
    call P (n + 1) f args s = call P' (n' + 1) f args s := by
  rw [procedure_exit_drops_its_gosubs P n f args s s1 s2 d vals hd ha hb,
    call_normal P' n' f args s s1 s2 d' vals' hd' ha' hb']
  simp only [resultOf, ProcDecl.resultSlot, hres, hpar]

/-! ## the caller's GOSUB and FOR loops survive a call -/

/-- **RETURN answers the GOSUB**: the nested run ended in a RETURN → the GOSUB statement ends normally in the routine's
final state -/
theorem gosub_answered_by_return (P : Program) (n : Nat) (A : Act) (L : Nat) (s s' : St) (p : Pos)
    (h : exec P n A A.body (.seek L) s = (s', .ret p)) :
    exec P (n + 1) A (.gosub L) .run s = (s', .normal) := by
  rw [exec_gosub, h]; rfl

/-- **A GOSUB pending in the caller is answered by the caller's RETURN after any call.**  `A` is the caller's activation, the
routine continues with `CALL f(args) : RETURN` (the tail of any routine); the only thing asked of the callee is that the call
returned (`hc`) — whatever it did: GOSUBs of its own left pending when it was left, RETURNs from inside its loops, recursion.
Then the routine ends with the caller's `ret p` in the state the call left … -/
theorem caller_gosub_survives_call (P : Program) (n : Nat) (A : Act) (f : Nat) (args : Args) (q p : Pos) (s s' : St)
    (hc : exec P n A (.callSub f args q) .run s = (s', .normal)) :
    exec P (n + 1) A (.seq (.callSub f args q) (.ret p)) .run s = (s', .ret p) := by
  rw [exec_seq_run, hc]
  cases n with
  | zero => simp [exec] at hc
  | succ n => simp only [exec_ret]

/-- … so the caller's GOSUB whose routine is `… : CALL f(args) : RETURN` ends normally: it IS answered, by the caller's
RETURN (combine with `gosub_answered_by_return`).  The same with a function call in an assignment. -/
theorem caller_gosub_survives_call_gosub (P : Program) (n : Nat) (A : Act) (L : Nat) (s s' : St) (p : Pos)
    (h : exec P n A A.body (.seek L) s = (s', .ret p)) :
    exec P (n + 1) A (.gosub L) .run s = (s', .normal) :=
  gosub_answered_by_return P n A L s s' p h

theorem exec_assign (P : Program) (n : Nat) (A : Act) (x : Var) (t : Ty) (e : Expr) (q : Pos) (s : St) :
    exec P (n + 1) A (.assign x t e q) .run s =
      (match evalTo P n e t s with
       | (s1, .ok v) => (s1.set x v, .normal)
       | (s1, .error o) => (s1, o)) := by
  simp only [exec] <;> rfl

/-- any statement in front of the RETURN that ended normally — an assignment whose expression called functions, a PRINT
with calls in its list, a whole loop nest with calls — leaves the routine's RETURN to answer the routine's GOSUB -/
theorem caller_gosub_survives_stmt (P : Program) (n : Nat) (A : Act) (a : Stmt) (p : Pos) (s s' : St)
    (hc : exec P n A a .run s = (s', .normal)) :
    exec P (n + 1) A (.seq a (.ret p)) .run s = (s', .ret p) := by
  rw [exec_seq_run, hc]
  cases n with
  | zero => simp [exec] at hc
  | succ n => simp only [exec_ret]

/-- one round of a FOR loop in run mode -/
theorem forIter_run (P : Program) (n : Nat) (A : Act) (x : Var) (t : Ty) (h sv : Val) (up : Bool) (body : Stmt) (p : Pos)
    (s : St) :
    forIter P (n + 1) A x t h sv up body p .run s =
      (match relTest p (if up then .lessOrEqual else .greaterOrEqual) (s.get x t) h with
       | .error o => (s, o)
       | .ok false => (s, .normal)
       | .ok true =>
         match exec P n A body .run s with
         | (s', .normal) =>
           match (plus (s'.get x t) sv).bind (fun v => cast v t) with
           | .ok v => forIter P n A x t h sv up body p .run (s'.set x v)
           | .err e => (s', .error (codeOf e) p)
           | .inexact => (s', .inexact)
         | (s', .jump L) =>
           if body.hasLabel L then forIter P n A x t h sv up body p (.seek L) s' else (s', .jump L)
         | r => r) := by
  simp only [forIter]; rfl

/-- **The caller's FOR frames are as before.**  The body of the caller's FOR (limit `h`, step `sv`, direction `up`) did
anything that ended normally — a GOSUB whose routine called procedures that GOSUB, left routines by EXIT, recursed … — and
the loop goes on: the counter is incremented from the value the body left by the loop's OWN step, converted to the counter's
type, and the next round tests it against the loop's OWN limit in the loop's own direction. -/
theorem caller_for_continues_after_call (P : Program) (n : Nat) (A : Act) (x : Var) (t : Ty) (h sv : Val) (up : Bool)
    (body : Stmt) (p : Pos) (s s' : St) (v : Val)
    (ht : relTest p (if up then .lessOrEqual else .greaterOrEqual) (s.get x t) h = .ok true)
    (hb : exec P n A body .run s = (s', .normal))
    (hv : (plus (s'.get x t) sv).bind (fun v => cast v t) = .ok v) :
    forIter P (n + 1) A x t h sv up body p .run s = forIter P n A x t h sv up body p .run (s'.set x v) := by
  rw [forIter_run, ht]; simp only [hb, hv]

/-- the caller RETURNs from inside its own FOR after the call: the loop ends at once, no increment, the state is the state at
the RETURN; the RETURN goes on to answer the routine's GOSUB -/
theorem caller_returns_from_inside_for (P : Program) (n : Nat) (A : Act) (x : Var) (t : Ty) (h sv : Val) (up : Bool)
    (body : Stmt) (p q : Pos) (s s' : St)
    (ht : relTest p (if up then .lessOrEqual else .greaterOrEqual) (s.get x t) h = .ok true)
    (hb : exec P n A body .run s = (s', .ret q)) :
    forIter P (n + 1) A x t h sv up body p .run s = (s', .ret q) := by
  rw [forIter_run, ht]; simp only [hb]

/-! ## non-vacuity: concrete programs -/

def p0 : Pos := ⟨1, 1⟩
def q1 : Pos := ⟨9, 3⟩

/-- `SUB S : RETURN : END SUB` -/
def subRet : ProcDecl Stmt := { result := none, name := "S", params := [], slots := [], body := .ret q1, pos := p0 }

/-- `GOSUB 0 : END : 0: S : RETURN` with `SUB S : RETURN : END SUB`: the main module has a GOSUB pending when `S` RETURNs -/
def exErr3 : Program :=
  ⟨[], [], [], .seq (.gosub 0) (.seq (.end_ p0) (.seq (.label 0) (.seq (.callSub 0 .nil p0) (.ret p0)))), [subRet]⟩

example : (run 12 exErr3).2 = .error 3 q1 := by decide

example (s : St) : call exErr3 3 0 .nil s = (enter subRet 0 [] s, .error (.error 3 q1)) :=
  return_answers_own_procedure_only exErr3 2 0 .nil s s _ subRet [] q1 rfl rfl rfl

/-- `SUB T : GOSUB 1 : 1: EXIT SUB : END SUB` (the routine leaves the procedure, its GOSUB pending) -/
def subExit : ProcDecl Stmt :=
  { result := none, name := "T", params := [], slots := [], body := .seq (.gosub 1) (.seq (.label 1) (.exitProc p0)), pos := p0 }

/-- `GOSUB 0 : END : 0: T : RETURN`: the caller's RETURN answers the caller's GOSUB after `T` dropped its own -/
def exDrop : Program :=
  ⟨[], [], [], .seq (.gosub 0) (.seq (.end_ p0) (.seq (.label 0) (.seq (.callSub 0 .nil p0) (.ret p0)))), [subExit]⟩

example : (run 14 exDrop).2 = .halted := by decide

example (s : St) :
    call exDrop 6 0 .nil s = (backInCaller .nil s (enter subExit 0 [] s), .ok (.int 0)) :=
  procedure_exit_drops_its_gosubs exDrop 5 0 .nil s s _ subExit [] rfl rfl rfl

end RbThm.ProcJProps
