import RbModel.ProcArr.Ref
/-!
Combined layer, reference semantics alone: **evaluating an expression, a subscript list, an argument list, the bounds of a
DIM or a whole call never dimensions, re-dimensions or un-dimensions an array of the current activation** (`SameBounds`).
Only the statement `DIM` / `REDIM` of the activation itself does.  A callee works on its own arrays; back in the caller the
arrays are the caller's own again and the write-backs of element actuals store into existing arrays (`St.setElem` keeps the
bounds).

Used twice: by the simulation proof (`Thm/ProcArrSimCall.lean`: the location an element actual denoted when it was evaluated
is still a valid location after the later arguments and after the call, so `CopyAToVarPath` of the write-back cannot fail)
and by the property-level statement `Spec.ElementByrefWriteback` (clause 3).
-/
namespace RbThm.ProcArrBounds
set_option linter.unusedVariables false
set_option linter.unusedSimpArgs false
open RbModel RbModel.Num RbModel.ProcArr
open RbModel.Ast (Pos)

abbrev St := RbModel.ProcArr.Ref.St
abbrev Outcome := RbModel.ProcArr.Ref.Outcome
abbrev RArr := RbModel.ProcArr.Ref.RArr
abbrev Loc := RbModel.ProcArr.Ref.Loc

/-- the declared bounds of array `a`: `none` = no such array, `some none` = its DIM has not run -/
def bnds (s : St) (a : Nat) : Option (Option (List (Int × Int))) :=
  (s.arrs[a]?).map (Option.map (fun A : RArr => A.bounds))

/-- the two states have the same arrays dimensioned with the same bounds -/
def SameBounds (s s' : St) : Prop := ∀ a, bnds s' a = bnds s a

theorem SameBounds.refl (s : St) : SameBounds s s := fun _ => rfl

theorem SameBounds.trans {a b c : St} (h₁ : SameBounds a b) (h₂ : SameBounds b c) : SameBounds a c :=
  fun x => (h₂ x).trans (h₁ x)

theorem SameBounds.of_arrs {s s' : St} (h : s'.arrs = s.arrs) : SameBounds s s' := by
  intro a; unfold bnds; rw [h]

/-- a dimensioned array stays dimensioned with the same bounds -/
theorem SameBounds.lookup {s s' : St} (h : SameBounds s s') {a : Nat} {A : RArr} (hA : s.arrs[a]? = some (some A)) :
    ∃ A', s'.arrs[a]? = some (some A') ∧ A'.bounds = A.bounds := by
  have := h a
  unfold bnds at this
  rw [hA] at this
  cases h1 : s'.arrs[a]? with
  | none => rw [h1] at this; simp at this
  | some o =>
    cases o with
    | none => rw [h1] at this; simp at this
    | some A' =>
      rw [h1] at this
      simp only [Option.map_some, Option.some.injEq] at this
      exact ⟨A', rfl, this⟩

/-- an index tuple inside the box stays inside -/
theorem inBounds_congr {A A' : RArr} (h : A'.bounds = A.bounds) (is : List Int) : A'.inBounds is = A.inBounds is := by
  unfold ArrL.Ref.RArr.inBounds; rw [h]

theorem set_arrs (s : St) (x : Var) (v : Val) : (s.set x v).arrs = s.arrs := by
  unfold ProcArr.Ref.St.set ProcArr.Ref.St.setLocal
  cases x.shared <;> simp only [Bool.false_eq_true, if_true, if_false]
  cases s.self <;> rfl

theorem set_bounds (s : St) (x : Var) (v : Val) : SameBounds s (s.set x v) := SameBounds.of_arrs (set_arrs s x v)

theorem rset_bounds (A : RArr) (is : List Int) (v : Val) : (A.set is v).bounds = A.bounds := rfl

theorem setElem_bounds (s : St) (a : Nat) (is : List Int) (v : Val) : SameBounds s (s.setElem a is v) := by
  unfold ProcArr.Ref.St.setElem
  cases h : s.arrs[a]? with
  | none => exact SameBounds.refl s
  | some o =>
    cases o with
    | none => exact SameBounds.refl s
    | some A =>
      intro b
      simp only [ProcArr.Ref.St.setArr, bnds]
      have hlt : a < s.arrs.length := (List.getElem?_eq_some_iff.mp h).1
      by_cases hab : a = b
      · subst hab
        rw [List.getElem?_set_self hlt, h]; rfl
      · rw [List.getElem?_set_ne hab]

theorem writeOne_bounds (e : ProcArr.Expr) (l : Option Loc) (v : Val) (s : St) :
    SameBounds s (ProcArr.Ref.writeOne e l v s) := by
  cases e with
  | var x t p => exact set_bounds s x v
  | elem a idx t p =>
    cases l with
    | none => exact SameBounds.refl s
    | some l => obtain ⟨a', is⟩ := l; exact setElem_bounds s a' is v
  | lit _ _ => exact SameBounds.refl s
  | un _ _ _ => exact SameBounds.refl s
  | bin _ _ _ _ _ => exact SameBounds.refl s
  | paren _ _ => exact SameBounds.refl s
  | callFn _ _ _ _ => exact SameBounds.refl s

theorem writeBack_bounds : ∀ (args : Args) (avs : List (Val × Option Loc)) (i : Nat) (callee : List Val) (s : St),
    SameBounds s (ProcArr.Ref.writeBack args avs i callee s)
  | .nil, _, _, _, s => by simp only [ProcArr.Ref.writeBack]; exact SameBounds.refl s
  | .cons e _ _ rest, [], _, _, s => by simp only [ProcArr.Ref.writeBack]; exact SameBounds.refl s
  | .cons e _ _ rest, av :: avs, i, callee, s => by
    simp only [ProcArr.Ref.writeBack]
    exact (writeOne_bounds e av.2 _ s).trans (writeBack_bounds rest avs (i + 1) callee _)

theorem liftR_state (s : St) (p : Pos) (r : Res Val) : (ProcArr.Ref.liftR s p r).1 = s := by
  cases r <;> rfl

/-- the statements at one amount of fuel -/
structure BIH (P : Program) (fuel : Nat) : Prop where
  eval : ∀ e s s' v, ProcArr.Ref.eval P fuel e s = (s', .ok v) → SameBounds s s'
  evalIdx : ∀ idx s s' v, ProcArr.Ref.evalIdx P fuel idx s = (s', .ok v) → SameBounds s s'
  evalElem : ∀ a idx p s s' v, ProcArr.Ref.evalElem P fuel a idx p s = (s', .ok v) → SameBounds s s'
  evalTo : ∀ e t s s' v, ProcArr.Ref.evalTo P fuel e t s = (s', .ok v) → SameBounds s s'
  evalArg : ∀ e t s s' v, ProcArr.Ref.evalArg P fuel e t s = (s', .ok v) → SameBounds s s'
  evalArgs : ∀ args s s' v, ProcArr.Ref.evalArgs P fuel args s = (s', .ok v) → SameBounds s s'
  evalDims : ∀ dims s s' v, ProcArr.Ref.evalDims P fuel dims s = (s', .ok v) → SameBounds s s'
  call : ∀ f args s s' v, ProcArr.Ref.call P fuel f args s = (s', .ok v) → SameBounds s s'

theorem bih_zero (P : Program) : BIH P 0 := by
  refine ⟨?_, ?_, ?_, ?_, ?_, ?_, ?_, ?_⟩ <;> intros <;> rename_i h <;>
    simp [ProcArr.Ref.eval, ProcArr.Ref.evalIdx, ProcArr.Ref.evalElem, ProcArr.Ref.evalTo, ProcArr.Ref.evalArg,
      ProcArr.Ref.evalArgs, ProcArr.Ref.evalDims, ProcArr.Ref.call] at h

theorem liftR_ok {s s' : St} {p : Pos} {r : Res Val} {v : Val} (h : ProcArr.Ref.liftR s p r = (s', .ok v)) : s' = s := by
  cases r <;> simp [ProcArr.Ref.liftR] at h <;> exact h.1.symm

theorem eval_succ (P : Program) (fuel : Nat) (ih : BIH P fuel) :
    ∀ e s s' v, ProcArr.Ref.eval P (fuel + 1) e s = (s', .ok v) → SameBounds s s' := by
  intro e s s' v h
  cases e with
  | lit w p => simp only [ProcArr.Ref.eval] at h; cases h; exact SameBounds.refl s
  | var x t p => simp only [ProcArr.Ref.eval] at h; cases h; exact SameBounds.refl s
  | un op e p =>
    simp only [ProcArr.Ref.eval] at h
    generalize he : ProcArr.Ref.eval P fuel e s = r at h
    obtain ⟨s1, rv⟩ := r
    cases rv with
    | error o => simp at h
    | ok w =>
      simp only at h
      have := liftR_ok h; subst this
      exact ih.eval e s _ w he
  | bin op l r t p =>
    simp only [ProcArr.Ref.eval] at h
    generalize hl : ProcArr.Ref.eval P fuel l s = r1 at h
    obtain ⟨s1, rv⟩ := r1
    cases rv with
    | error o => simp at h
    | ok a =>
      simp only at h
      generalize hr : ProcArr.Ref.eval P fuel r s1 = r2 at h
      obtain ⟨s2, rv2⟩ := r2
      cases rv2 with
      | error o => simp at h
      | ok b =>
        simp only at h
        have := liftR_ok h; subst this
        exact (ih.eval l s s1 a hl).trans (ih.eval r s1 _ b hr)
  | paren e p => simp only [ProcArr.Ref.eval] at h; exact ih.eval e s s' v h
  | callFn f args t p => simp only [ProcArr.Ref.eval] at h; exact ih.call f args s s' v h
  | elem a idx t p =>
    simp only [ProcArr.Ref.eval] at h
    generalize he : ProcArr.Ref.evalElem P fuel a idx p s = r at h
    obtain ⟨s1, rv⟩ := r
    cases rv with
    | error o => simp at h
    | ok w =>
      obtain ⟨w1, w2⟩ := w
      simp only [Prod.mk.injEq] at h
      obtain ⟨h1, _⟩ := h; subst h1
      exact ih.evalElem a idx p s _ _ he

theorem evalTo_succ (P : Program) (fuel : Nat) (ih : BIH P fuel) :
    ∀ e t s s' v, ProcArr.Ref.evalTo P (fuel + 1) e t s = (s', .ok v) → SameBounds s s' := by
  intro e t s s' v h
  simp only [ProcArr.Ref.evalTo] at h
  generalize he : ProcArr.Ref.eval P fuel e s = r at h
  obtain ⟨s1, rv⟩ := r
  cases rv with
  | error o => simp at h
  | ok w =>
    simp only at h
    have := liftR_ok h; subst this
    exact ih.eval e s _ w he

theorem evalIdx_succ (P : Program) (fuel : Nat) (ih : BIH P fuel) :
    ∀ idx s s' v, ProcArr.Ref.evalIdx P (fuel + 1) idx s = (s', .ok v) → SameBounds s s' := by
  intro idx s s' v h
  cases idx with
  | nil => simp only [ProcArr.Ref.evalIdx] at h; cases h; exact SameBounds.refl s
  | cons e rest =>
    simp only [ProcArr.Ref.evalIdx] at h
    generalize he : ProcArr.Ref.evalTo P fuel e .int s = r at h
    obtain ⟨s1, rv⟩ := r
    cases rv with
    | error o => simp at h
    | ok w =>
      cases w with
      | int i =>
        simp only at h
        generalize hr : ProcArr.Ref.evalIdx P fuel rest s1 = r2 at h
        obtain ⟨s2, rv2⟩ := r2
        cases rv2 with
        | error o => simp at h
        | ok is =>
          simp only [Prod.mk.injEq] at h
          obtain ⟨h1, _⟩ := h; subst h1
          exact (ih.evalTo e .int s s1 _ he).trans (ih.evalIdx rest s1 _ is hr)
      | long _ => simp at h
      | sgl _ => simp at h
      | dbl _ => simp at h
      | str _ => simp at h

theorem evalElem_succ (P : Program) (fuel : Nat) (ih : BIH P fuel) :
    ∀ a idx p s s' v, ProcArr.Ref.evalElem P (fuel + 1) a idx p s = (s', .ok v) → SameBounds s s' := by
  intro a idx p s s' v h
  simp only [ProcArr.Ref.evalElem] at h
  generalize he : ProcArr.Ref.evalIdx P fuel idx s = r at h
  obtain ⟨s1, rv⟩ := r
  cases rv with
  | error o => simp at h
  | ok is =>
    simp only at h
    cases hre : s1.readElem a is p with
    | error o => rw [hre] at h; simp at h
    | ok w =>
      rw [hre] at h
      simp only [Prod.mk.injEq] at h
      obtain ⟨h1, _⟩ := h; subst h1
      exact ih.evalIdx idx s _ is he

theorem evalArg_succ (P : Program) (fuel : Nat) (ih : BIH P fuel) :
    ∀ e t s s' v, ProcArr.Ref.evalArg P (fuel + 1) e t s = (s', .ok v) → SameBounds s s' := by
  intro e pt s s' v h
  have other : ∀ e : ProcArr.Expr,
      (match ProcArr.Ref.evalTo P fuel e pt s with
        | (s1, .error o) => ((s1, .error o) : St × Except Outcome (Val × Option Loc))
        | (s1, .ok v) => (s1, .ok (v, none))) = (s', .ok v) → SameBounds s s' := by
    intro e h
    generalize he : ProcArr.Ref.evalTo P fuel e pt s = r at h
    obtain ⟨s1, rv⟩ := r
    cases rv with
    | error o => simp at h
    | ok w =>
      simp only [Prod.mk.injEq] at h
      obtain ⟨h1, _⟩ := h; subst h1
      exact ih.evalTo e pt s _ w he
  cases e with
  | elem a idx t p =>
    simp only [ProcArr.Ref.evalArg] at h
    generalize he : ProcArr.Ref.evalElem P fuel a idx p s = r at h
    obtain ⟨s1, rv⟩ := r
    cases rv with
    | error o => simp at h
    | ok w =>
      obtain ⟨w1, is⟩ := w
      simp only at h
      generalize hl : ProcArr.Ref.liftR s1 p (storeCast t pt w1) = r2 at h
      obtain ⟨s2, rv2⟩ := r2
      cases rv2 with
      | error o => simp at h
      | ok w2 =>
        simp only [Prod.mk.injEq] at h
        obtain ⟨h1, _⟩ := h; subst h1
        have := liftR_ok hl; subst this
        exact ih.evalElem a idx p s _ _ he
  | lit w p => simp only [ProcArr.Ref.evalArg] at h; exact other _ h
  | var x t p => simp only [ProcArr.Ref.evalArg] at h; exact other _ h
  | un op e p => simp only [ProcArr.Ref.evalArg] at h; exact other _ h
  | bin op l r t p => simp only [ProcArr.Ref.evalArg] at h; exact other _ h
  | paren e p => simp only [ProcArr.Ref.evalArg] at h; exact other _ h
  | callFn f args t p => simp only [ProcArr.Ref.evalArg] at h; exact other _ h

theorem evalArgs_succ (P : Program) (fuel : Nat) (ih : BIH P fuel) :
    ∀ args s s' v, ProcArr.Ref.evalArgs P (fuel + 1) args s = (s', .ok v) → SameBounds s s' := by
  intro args s s' v h
  cases args with
  | nil => simp only [ProcArr.Ref.evalArgs] at h; cases h; exact SameBounds.refl s
  | cons e pn pt rest =>
    simp only [ProcArr.Ref.evalArgs] at h
    generalize he : ProcArr.Ref.evalArg P fuel e pt s = r at h
    obtain ⟨s1, rv⟩ := r
    cases rv with
    | error o => simp at h
    | ok w =>
      simp only at h
      generalize hr : ProcArr.Ref.evalArgs P fuel rest s1 = r2 at h
      obtain ⟨s2, rv2⟩ := r2
      cases rv2 with
      | error o => simp at h
      | ok ws =>
        simp only [Prod.mk.injEq] at h
        obtain ⟨h1, _⟩ := h; subst h1
        exact (ih.evalArg e pt s s1 w he).trans (ih.evalArgs rest s1 _ ws hr)

theorem evalDims_succ (P : Program) (fuel : Nat) (ih : BIH P fuel) :
    ∀ dims s s' v, ProcArr.Ref.evalDims P (fuel + 1) dims s = (s', .ok v) → SameBounds s s' := by
  intro dims s s' v h
  cases dims with
  | nil => simp only [ProcArr.Ref.evalDims] at h; cases h; exact SameBounds.refl s
  | cons lo hi rest =>
    have tail : ∀ (s1 : St) (l : Val), SameBounds s s1 →
        (match ProcArr.Ref.eval P fuel hi s1 with
          | (s2, .error o) => ((s2, .error o) : St × Except Outcome (List (Val × Val)))
          | (s2, .ok h) =>
            match ProcArr.Ref.evalDims P fuel rest s2 with
            | (s3, .error o) => (s3, .error o)
            | (s3, .ok ds) => (s3, .ok ((l, h) :: ds))) = (s', .ok v) → SameBounds s s' := by
      intro s1 l hb h
      generalize hhi : ProcArr.Ref.eval P fuel hi s1 = r1 at h
      obtain ⟨s2, rv1⟩ := r1
      cases rv1 with
      | error o => simp at h
      | ok hv =>
        simp only at h
        generalize hr : ProcArr.Ref.evalDims P fuel rest s2 = r2 at h
        obtain ⟨s3, rv2⟩ := r2
        cases rv2 with
        | error o => simp at h
        | ok ds =>
          simp only [Prod.mk.injEq] at h
          obtain ⟨h1, _⟩ := h; subst h1
          exact (hb.trans (ih.eval hi s1 s2 hv hhi)).trans (ih.evalDims rest s2 _ ds hr)
    cases lo with
    | none =>
      simp only [ProcArr.Ref.evalDims] at h
      exact tail s (.int 0) (SameBounds.refl s) h
    | some e =>
      simp only [ProcArr.Ref.evalDims] at h
      generalize hlo : ProcArr.Ref.eval P fuel e s = r0 at h
      obtain ⟨s1, rv0⟩ := r0
      cases rv0 with
      | error o => simp at h
      | ok l => exact tail s1 l (ih.eval e s s1 l hlo) h

theorem call_succ (P : Program) (fuel : Nat) (ih : BIH P fuel) :
    ∀ f args s s' v, ProcArr.Ref.call P (fuel + 1) f args s = (s', .ok v) → SameBounds s s' := by
  intro f args s s' v h
  simp only [ProcArr.Ref.call] at h
  cases hd : P.procs[f]? with
  | none => rw [hd] at h; simp at h
  | some d =>
    rw [hd] at h
    simp only at h
    generalize he : ProcArr.Ref.evalArgs P fuel args s = r at h
    obtain ⟨s1, rv⟩ := r
    cases rv with
    | error o => simp at h
    | ok avs =>
      simp only at h
      generalize hx : ProcArr.Ref.exec P fuel d.body (ProcArr.Ref.enter d f (avs.map (·.1)) s1) = rb at h
      obtain ⟨s2, o⟩ := rb
      simp only at h
      by_cases hret : ProcArr.Ref.returns o = true
      · simp only [hret, if_true, Prod.mk.injEq] at h
        obtain ⟨h1, _⟩ := h
        subst h1
        refine (ih.evalArgs args s s1 avs he).trans ?_
        exact (SameBounds.of_arrs (s := s1) (s' := { s2 with env := s1.env, self := s1.self, arrs := s1.arrs }) rfl).trans
          (writeBack_bounds args avs 0 s2.locals _)
      · simp [hret] at h

theorem bih_all (P : Program) : ∀ fuel, BIH P fuel
  | 0 => bih_zero P
  | fuel + 1 =>
    have ih := bih_all P fuel
    ⟨eval_succ P fuel ih, evalIdx_succ P fuel ih, evalElem_succ P fuel ih, evalTo_succ P fuel ih, evalArg_succ P fuel ih,
      evalArgs_succ P fuel ih, evalDims_succ P fuel ih, call_succ P fuel ih⟩

/-- **evaluation never re-dimensions an array of the current activation** -/
theorem eval_bounds (P : Program) (fuel : Nat) {e : ProcArr.Expr} {s s' : St} {v : Val}
    (h : ProcArr.Ref.eval P fuel e s = (s', .ok v)) : SameBounds s s' := (bih_all P fuel).eval e s s' v h

theorem evalArg_bounds (P : Program) (fuel : Nat) {e : ProcArr.Expr} {t : Ty} {s s' : St} {v : Val × Option Loc}
    (h : ProcArr.Ref.evalArg P fuel e t s = (s', .ok v)) : SameBounds s s' := (bih_all P fuel).evalArg e t s s' v h

theorem evalArgs_bounds (P : Program) (fuel : Nat) {args : Args} {s s' : St} {v : List (Val × Option Loc)}
    (h : ProcArr.Ref.evalArgs P fuel args s = (s', .ok v)) : SameBounds s s' := (bih_all P fuel).evalArgs args s s' v h

theorem call_bounds (P : Program) (fuel : Nat) {f : Nat} {args : Args} {s s' : St} {v : Val}
    (h : ProcArr.Ref.call P fuel f args s = (s', .ok v)) : SameBounds s s' := (bih_all P fuel).call f args s s' v h

end RbThm.ProcArrBounds
