import Thm.C13Total
/-!
C13, fifth part: one invariant over the scope tables for *all* names at once (`TInv`, no `NoShadow` hypothesis),
and the ordered rule list of `variable.rs::convert` (`resolveVar`) as "first applicable rule fires", with the proof
that outside the documented priorities the order of the rules is irrelevant in every reachable context.
-/
namespace RbThm.C13Rules
open RbModel.Names RbThm.C13 RbThm.C13Reach RbThm.C13Total

/-! ## Part A — the table invariant -/

/-- What the guards of DIM / CONST / parameters / implicit definition keep true of the two live tables:
* a SUB name is in no table; a FUNCTION name is not in the global table, and locally at most a compact variable
  (the function result / `FUNCTION Add(Add)`);
* a SHARED global is never shadowed by a local of the same (qualified) name;
* outside subprograms the local table is empty. -/
structure TInv (c : Ctx) : Prop where
  subFree : ∀ k, c.hasSub k = true → c.globals.find k = none ∧ c.locals.find k = none
  fnGlob : ∀ k fq, c.funcQ k = some fq → c.globals.find k = none
  fnLoc : ∀ k fq, c.funcQ k = some fq → c.locals.getConst k = none ∧ c.locals.getExtended k = none
  sharedExt : c.inSub = true → ∀ k q, c.globals.getExtended k = some (q, true) → c.locals.find k = none
  sharedCompact : c.inSub = true → ∀ k q, c.globals.getCompact k q = some true →
      c.locals.getCompact k q = none ∧ c.locals.getExtended k = none
  locEmpty : c.inSub = false → c.locals = []

/-- the part of the invariant that speaks about key `k`, for a candidate current table `t` -/
def KeyOK (c : Ctx) (t : Table) (k : Key) : Prop :=
  (c.hasSub k = true → t.find k = none) ∧
  (c.inSub = false → ∀ fq, c.funcQ k = some fq → t.find k = none) ∧
  (c.inSub = true → ∀ fq, c.funcQ k = some fq → t.getConst k = none ∧ t.getExtended k = none) ∧
  (c.inSub = true → ∀ q, c.globals.getExtended k = some (q, true) → t.find k = none) ∧
  (c.inSub = true → ∀ q, c.globals.getCompact k q = some true → t.getCompact k q = none ∧ t.getExtended k = none)

theorem cur_of_sub (c : Ctx) (h : c.inSub = true) : c.cur = c.locals := by simp [Ctx.cur, h]

theorem keyOK_cur (c : Ctx) (k : Key) (ht : TInv c) : KeyOK c c.cur k := by
  cases hin : c.inSub
  · rw [cur_of_global c hin]
    refine ⟨fun h => (ht.subFree k h).1, fun _ fq h => ht.fnGlob k fq h, ?_, ?_, ?_⟩ <;>
      (intro h; rw [hin] at h; cases h)
  · rw [cur_of_sub c hin]
    refine ⟨fun h => (ht.subFree k h).2, fun h => (by rw [hin] at h; cases h), fun _ fq h => ht.fnLoc k fq h,
      fun _ q h => ht.sharedExt hin k q h, fun _ q h => ht.sharedCompact hin k q h⟩

theorem keyOK_congr (c : Ctx) (t t' : Table) (k : Key) (hf : t'.find k = t.find k) (h : KeyOK c t k) :
    KeyOK c t' k := by
  unfold KeyOK Table.getConst Table.getExtended Table.getCompact at *
  rw [hf]; exact h

theorem tinv_setCur (c : Ctx) (t : Table) (ht : TInv c) (hk : ∀ k, KeyOK c t k) : TInv (c.setCur t) := by
  cases hin : c.inSub
  · have hl := ht.locEmpty hin
    have e : c.setCur t = { c with globals := t } := by unfold Ctx.setCur; simp [hin]
    rw [e]
    have hin' : ({ c with globals := t } : Ctx).inSub = false := hin
    refine ⟨?_, ?_, ?_, ?_, ?_, fun _ => hl⟩
    · intro k h
      exact ⟨(hk k).1 h, by show c.locals.find k = none; rw [hl]; rfl⟩
    · intro k fq h; exact (hk k).2.1 hin fq h
    · intro k fq _
      show c.locals.getConst k = none ∧ c.locals.getExtended k = none
      rw [hl]; exact ⟨rfl, rfl⟩
    · intro h; rw [hin'] at h; cases h
    · intro h; rw [hin'] at h; cases h
  · have e : c.setCur t = { c with locals := t } := by unfold Ctx.setCur; simp [hin]
    rw [e]
    have hin' : ({ c with locals := t } : Ctx).inSub = true := hin
    refine ⟨?_, ?_, ?_, ?_, ?_, ?_⟩
    · intro k h; exact ⟨(ht.subFree k h).1, (hk k).1 h⟩
    · intro k fq h; exact ht.fnGlob k fq h
    · intro k fq h; exact (hk k).2.2.1 hin fq h
    · intro _ k q h; exact (hk k).2.2.2.1 hin q h
    · intro _ k q h; exact (hk k).2.2.2.2 hin q h
    · intro h; rw [hin'] at h; cases h

theorem find_insertCompact_ne (t : Table) (k k' : Key) (q : Q) (s : Bool) (h : k' ≠ k) :
    (t.insertCompact k' q s).find k = t.find k := by
  unfold Table.insertCompact
  split <;> exact find_cons_ne _ _ _ _ h

/-- inserting a compact variable `k<q>` keeps the invariant under the guards every caller establishes -/
theorem tinv_insertCompact (c : Ctx) (k : Key) (q : Q) (s : Bool) (ht : TInv c)
    (g1 : c.hasSub k = false)
    (g2 : c.inSub = false → c.funcQ k = none)
    (g3 : c.inSub = true → ∀ q', c.globals.getExtended k ≠ some (q', true))
    (g4 : c.inSub = true → c.globals.getCompact k q ≠ some true) :
    TInv (c.setCur (c.cur.insertCompact k q s)) := by
  refine tinv_setCur c _ ht ?_
  intro k'
  by_cases hk : k = k'
  · subst hk
    have old := keyOK_cur c k ht
    refine ⟨?_, ?_, ?_, ?_, ?_⟩
    · intro h; rw [g1] at h; cases h
    · intro hin fq h; rw [g2 hin] at h; cases h
    · intro _ fq _
      unfold Table.insertCompact
      split <;> simp [Table.getConst, Table.getExtended]
    · intro hin q' h; exact absurd h (g3 hin q')
    · intro hin q' h
      have hne : q ≠ q' := by intro e; subst e; exact g4 hin h
      have ho := (old.2.2.2.2 hin q' h).1
      unfold Table.insertCompact
      unfold Table.getCompact at ho
      cases hf : c.cur.find k with
      | none => simp [Table.getCompact, Table.getExtended, compactFind, hne]
      | some ni =>
        cases ni with
        | const cq l => simp [Table.getCompact, Table.getExtended, compactFind, hne]
        | extended eq es => simp [Table.getCompact, Table.getExtended, compactFind, hne]
        | compacts m =>
          simp only [hf] at ho
          simp [Table.getCompact, Table.getExtended, compactFind, hne, ho]
  · exact keyOK_congr c _ _ k' (find_insertCompact_ne _ _ _ _ _ hk) (keyOK_cur c k' ht)

/-- inserting an `AS type` variable -/
theorem tinv_insertExtended (c : Ctx) (k : Key) (q : Q) (s : Bool) (ht : TInv c)
    (g1 : c.hasSub k = false) (g2 : c.funcQ k = none)
    (g3 : c.inSub = true → ∀ q', c.globals.getExtended k ≠ some (q', true))
    (g4 : c.inSub = true → ∀ q', c.globals.getCompact k q' ≠ some true) :
    TInv (c.setCur (c.cur.insertExtended k q s)) := by
  refine tinv_setCur c _ ht ?_
  intro k'
  by_cases hk : k = k'
  · subst hk
    refine ⟨?_, ?_, ?_, ?_, ?_⟩
    · intro h; rw [g1] at h; cases h
    · intro _ fq h; rw [g2] at h; cases h
    · intro _ fq h; rw [g2] at h; cases h
    · intro hin q' h; exact absurd h (g3 hin q')
    · intro hin q' h; exact absurd h (g4 hin q')
  · exact keyOK_congr c _ _ k' (find_cons_ne _ _ _ _ hk) (keyOK_cur c k' ht)

/-- inserting a constant -/
theorem tinv_insertConst (c : Ctx) (k : Key) (q : Q) (l : Lit) (ht : TInv c)
    (g1 : c.hasSub k = false) (g2 : c.funcQ k = none)
    (g3 : c.inSub = true → ∀ q', c.globals.getExtended k ≠ some (q', true)) :
    TInv (c.setCur (c.cur.insertConst k q l)) := by
  refine tinv_setCur c _ ht ?_
  intro k'
  by_cases hk : k = k'
  · subst hk
    refine ⟨?_, ?_, ?_, ?_, ?_⟩
    · intro h; rw [g1] at h; cases h
    · intro _ fq h; rw [g2] at h; cases h
    · intro _ fq h; rw [g2] at h; cases h
    · intro hin q' h; exact absurd h (g3 hin q')
    · intro _ q' _; simp [Table.insertConst, Table.getCompact, Table.getExtended]
  · exact keyOK_congr c _ _ k' (find_cons_ne _ _ _ _ hk) (keyOK_cur c k' ht)

/-! ## what the guards give -/

theorem getExtendedRec_none_shared (c : Ctx) (k : Key) (h : c.getExtendedRec k = none) (hin : c.inSub = true) :
    ∀ q', c.globals.getExtended k ≠ some (q', true) := by
  intro q' hg
  unfold Ctx.getExtendedRec at h
  rw [getExtendedRec_none_cur c k h] at h
  simp [hin, hg] at h

theorem getCompactRec_none_shared (c : Ctx) (k : Key) (q : Q) (h : c.getCompactRec k q = none) (hin : c.inSub = true) :
    c.globals.getCompact k q ≠ some true := by
  intro hg
  unfold Ctx.getCompactRec at h
  rw [getCompactRec_none_cur c k q h] at h
  simp [hin, hg] at h

theorem mem_of_compactFind (m : List (Q × Bool)) (q : Q) (s : Bool) (h : compactFind m q = some s) : (q, s) ∈ m := by
  induction m with
  | nil => simp [compactFind] at h
  | cons e rest ih =>
    obtain ⟨q', s'⟩ := e
    by_cases hq : q' = q
    · subst hq
      simp [compactFind] at h
      subst h
      exact List.mem_cons_self ..
    · simp [compactFind, hq] at h
      exact List.mem_cons_of_mem _ (ih h)

theorem mem_shared_collect (m : List (Q × Bool)) (q : Q) (h : compactFind m q = some true) :
    ((false : Bool), q) ∈ (m.filter (fun e => e.2 || !true)).map (fun e => ((false : Bool), e.1)) :=
  List.mem_map.2 ⟨(q, true), List.mem_filter.2 ⟨mem_of_compactFind m q true h, by simp⟩, rfl⟩

theorem all_shared_compact (m : List (Q × Bool)) (q : Q) (h : compactFind m q = some true) :
    ¬ ((m.filter (fun e => e.2 || !true)).map (fun e => ((false : Bool), e.1))).all
        (fun e => !e.1 && decide (e.2 ≠ q)) = true := by
  intro hall
  rw [List.all_eq_true] at hall
  have := hall _ (mem_shared_collect m q h)
  simp at this

theorem filter_shared_ne_nil (m : List (Q × Bool)) (q : Q) (h : compactFind m q = some true) :
    (m.filter (fun e => e.2 || !true)).map (fun e => ((false : Bool), e.1)) ≠ [] := by
  intro hnil
  have := mem_shared_collect m q h
  rw [hnil] at this
  cases this

/-- `require_compact_can_be_defined` inside a subprogram: no SHARED `AS type` global of that name and no SHARED
compact global of that qualified name -/
theorem requireCompact_shared (c : Ctx) (k : Key) (q : Q) (h : requireCompact c k q = true) (hin : c.inSub = true) :
    (∀ q', c.globals.getExtended k ≠ some (q', true)) ∧ c.globals.getCompact k q ≠ some true := by
  unfold requireCompact Ctx.findNameOrSharedInParent at h
  rw [List.all_append, Bool.and_eq_true] at h
  have h2 := h.2
  simp only [hin, if_true] at h2
  unfold Table.collect at h2
  unfold Table.getExtended Table.getCompact
  cases hf : c.globals.find k with
  | none => simp
  | some ni =>
    cases ni with
    | const cq l => simp
    | extended eq es =>
      simp only [hf] at h2
      cases es <;> simp at h2 ⊢
    | compacts m =>
      simp only [hf] at h2
      refine ⟨by simp, ?_⟩
      intro hc
      exact all_shared_compact m q hc h2

/-- `require_extended_can_be_defined` inside a subprogram: no SHARED global of that name at all -/
theorem requireExtended_shared (c : Ctx) (k : Key) (h : requireExtended c k = true) (hin : c.inSub = true) :
    (∀ q', c.globals.getExtended k ≠ some (q', true)) ∧ ∀ q', c.globals.getCompact k q' ≠ some true := by
  unfold requireExtended Ctx.findNameOrSharedInParent at h
  rw [List.isEmpty_iff, List.append_eq_nil_iff] at h
  have h2 := h.2
  simp only [hin, if_true] at h2
  unfold Table.collect at h2
  unfold Table.getExtended Table.getCompact
  cases hf : c.globals.find k with
  | none => simp
  | some ni =>
    cases ni with
    | const cq l => simp
    | extended eq es =>
      simp only [hf] at h2
      cases es <;> simp at h2 ⊢
    | compacts m =>
      simp only [hf] at h2
      refine ⟨by simp, ?_⟩
      intro q' hc
      exact filter_shared_ne_nil m q' hc h2

/-- the context change of `resolveVar`, with the facts that justify the insertion -/
theorem resolveVar_ctx'' (c c' : Ctx) (k : Key) (sfx : Option Q) (m : Mode) (r : Res)
    (h : resolveVar c k sfx m = .ok (c', r)) :
    c' = c ∨ ∃ q, c' = c.setCur (c.cur.insertCompact k q false) ∧ c.hasSub k = false ∧ c.getExtendedRec k = none ∧
      ((c.funcQ k = none ∧ c.getCompactRec k q = none) ∨ (c.inFunction k = true ∧ c.funcQ k = some q)) := by
  unfold resolveVar at h
  split at h; · cases h
  next hsub =>
  have hsub' : c.hasSub k = false := by simpa using hsub
  split at h
  · split at h
    · injection h with h; injection h with h _; exact Or.inl h.symm
    · cases h
  · next hext =>
    simp only [] at h
    split at h
    · injection h with h; injection h with h _; exact Or.inl h.symm
    · next hcomp =>
      split at h
      · unfold resolveConst at h
        split at h
        · simp [Except.map] at h; exact Or.inl h.1.symm
        · simp [Except.map] at h
      · unfold resolveTail at h
        split at h
        · next fq hfq =>
          split at h
          · split at h
            · next hinf =>
              split at h
              · injection h with h; injection h with h1 h2
                exact Or.inr ⟨_, h1.symm, hsub', hext, Or.inr ⟨hinf, hfq⟩⟩
              · cases h
            · cases h
          · split at h
            · injection h with h; injection h with h _; exact Or.inl h.symm
            · cases h
        · next hfq =>
          split at h
          · unfold resolveConst at h
            split at h
            · simp [Except.map] at h; exact Or.inl h.1.symm
            · simp [Except.map] at h
          · unfold addImplicit at h
            injection h with h; injection h with h1 h2
            exact Or.inr ⟨_, h1.symm, hsub', hext, Or.inl ⟨hfq, hcomp⟩⟩

theorem getCompact_none_of_find_none (t : Table) (k : Key) (q : Q) (h : t.find k = none) : t.getCompact k q = none := by
  simp [Table.getCompact, h]

theorem tinv_resolveVar (c c' : Ctx) (k : Key) (sfx : Option Q) (m : Mode) (r : Res)
    (h : resolveVar c k sfx m = .ok (c', r)) (ht : TInv c) : TInv c' := by
  rcases resolveVar_ctx'' c c' k sfx m r h with h | ⟨q, h, hsub, hext, hcase⟩
  · rw [h]; exact ht
  · rw [h]
    refine tinv_insertCompact c k q false ht hsub ?_ (getExtendedRec_none_shared c k hext) ?_
    · intro hin
      rcases hcase with ⟨hf, _⟩ | ⟨hinf, _⟩
      · exact hf
      · rw [inFunction_inSub c k hinf] at hin; cases hin
    · intro hin
      rcases hcase with ⟨_, hc⟩ | ⟨_, hfq⟩
      · exact getCompactRec_none_shared c k q hc hin
      · rw [getCompact_none_of_find_none _ _ _ (ht.fnGlob k q hfq)]; simp

/-- `declare` under the guards common to DIM and parameters -/
theorem tinv_declare (c c' : Ctx) (k : Key) (d : Decl) (sh : Bool) (h : declare c k d sh = .ok c') (ht : TInv c)
    (hsub : c.hasSub k = false) (hfn : c.inSub = false → c.funcQ k = none)
    (hfe : ∀ q, d = .extended q → c.funcQ k = none) : TInv c' := by
  unfold declare at h
  cases d with
  | bare =>
    simp only [] at h
    split at h
    · next hr =>
      injection h with h; rw [← h]
      exact tinv_insertCompact c k _ sh ht hsub hfn (fun hin => (requireCompact_shared c k _ hr hin).1)
        (fun hin => (requireCompact_shared c k _ hr hin).2)
    · cases h
  | compact q =>
    simp only [] at h
    split at h
    · next hr =>
      injection h with h; rw [← h]
      exact tinv_insertCompact c k _ sh ht hsub hfn (fun hin => (requireCompact_shared c k _ hr hin).1)
        (fun hin => (requireCompact_shared c k _ hr hin).2)
    · cases h
  | extended q =>
    simp only [] at h
    split at h
    · next hr =>
      injection h with h; rw [← h]
      exact tinv_insertExtended c k q sh ht hsub (hfe q rfl) (fun hin => (requireExtended_shared c k hr hin).1)
        (fun hin => (requireExtended_shared c k hr hin).2)
    · cases h

/-! ## lifting through statements, parameters, subprograms, items -/

theorem isSome_false_eq_none {α : Type} (o : Option α) (h : ¬ (o.isSome = true)) : o = none := by
  cases o with
  | none => rfl
  | some v => simp at h

theorem tinv_convStmt (c c' : Ctx) (s : Stmt) (r : RStmt) (h : convStmt c s = .ok (c', r)) (ht : TInv c) :
    TInv c' := by
  cases s with
  | dim sh n d =>
    simp only [convStmt] at h
    cases hd : convDim c sh (fold n) d with
    | error e => simp [hd, Except.map] at h
    | ok c1 =>
      simp [hd, Except.map] at h
      rw [← h.1]
      unfold convDim at hd
      split at hd; · cases hd
      next hsub =>
      split at hd; · cases hd
      next hfn =>
      split at hd; · cases hd
      split at hd; · cases hd
      have hfn' := isSome_false_eq_none _ hfn
      exact tinv_declare c c1 _ d sh hd ht (by simpa using hsub) (fun _ => hfn') (fun _ _ => hfn')
  | const n l =>
    simp only [convStmt] at h
    cases hd : convConst c (fold n.name) n.sfx l with
    | error e => simp [hd, Except.map] at h
    | ok c1 =>
      simp [hd, Except.map] at h
      rw [← h.1]
      unfold convConst at hd
      split at hd; · cases hd
      next hg =>
      simp only [Bool.or_eq_true, not_or] at hg
      obtain ⟨⟨⟨_, hext⟩, hsub⟩, hfn⟩ := hg
      split at hd
      · injection hd with hd; rw [← hd]
        exact tinv_insertConst c _ _ l ht (by simpa using hsub) (isSome_false_eq_none _ hfn)
          (getExtendedRec_none_shared c _ (isSome_false_eq_none _ hext))
      · cases hd
  | assign n b t =>
    simp only [convStmt] at h
    split at h; · cases h
    split at h
    · cases h
    · next c1 k1 q1 home1 hr =>
      split at h
      · cases h
      · injection h with h; injection h with h _; rw [← h]
        exact tinv_resolveVar c c1 _ _ _ _ hr ht
    · cases h
  | print n =>
    simp only [convStmt] at h
    split at h
    · cases h
    · next c1 r1 hr =>
      injection h with h; injection h with h _; rw [← h]
      exact tinv_resolveVar c c1 _ _ _ _ hr ht
  | callSub n a =>
    simp only [convStmt] at h
    injection h with h; injection h with h _; rw [← h]; exact ht
  | printCall n a =>
    simp only [convStmt] at h
    split at h
    · cases h
    · injection h with h; injection h with h _; rw [← h]; exact ht

theorem tinv_convStmts (c c' : Ctx) (l : List Stmt) (rs : List RStmt) (h : convStmts c l = .ok (c', rs))
    (ht : TInv c) : TInv c' := by
  induction l generalizing c rs with
  | nil => simp [convStmts] at h; rw [← h.1]; exact ht
  | cons s rest ih =>
    simp only [convStmts] at h
    split at h; · cases h
    next c1 r1 h1 =>
    split at h; · cases h
    next c2 rs2 h2 =>
    injection h with h; injection h with h _; subst h
    exact ih c1 rs2 h2 (tinv_convStmt c c1 s r1 h1 ht)

theorem tinv_reachStmts (c c' : Ctx) (l : List Stmt) (hr : ReachStmts c l c') (ht : TInv c) : TInv c' := by
  induction hr with
  | here c l => exact ht
  | step hconv _ ih => exact ih (tinv_convStmt _ _ _ _ hconv ht)

/-- parameters are only converted inside a subprogram scope -/
theorem tinv_convParam (c c' : Ctx) (k : Key) (d : Decl) (h : convParam c k d = .ok c') (hin : c.inSub = true)
    (ht : TInv c) : TInv c' ∧ c'.inSub = true := by
  unfold convParam at h
  split at h; · cases h
  next hsub =>
  split at h; · cases h
  next hclash =>
  split at h; · cases h
  refine ⟨tinv_declare c c' k d false h ht (by simpa using hsub) (fun h0 => by rw [hin] at h0; cases h0) ?_,
    (mono_declare c c' k d false h).inSub.trans hin⟩
  intro q hd
  subst hd
  unfold paramClash at hclash
  cases hf : c.funcQ k with
  | none => rfl
  | some fq => simp [hf] at hclash

theorem tinv_convParams (c c' : Ctx) (ps : List Param) (pq : List (Key × Q)) (h : convParams c ps = .ok (c', pq))
    (hin : c.inSub = true) (ht : TInv c) : TInv c' := by
  induction ps generalizing c pq with
  | nil => simp [convParams] at h; rw [← h.1]; exact ht
  | cons p rest ih =>
    simp only [convParams] at h
    split at h; · cases h
    next c1 hp =>
    split at h; · cases h
    next c2 ps2 hrest =>
    injection h with h; injection h with h _; subst h
    have := tinv_convParam c c1 _ _ hp hin ht
    exact ih c1 ps2 hrest this.2 this.1

theorem tinv_enter (c : Ctx) (sc : Scope) (ht : TInv c) : TInv (enter c sc) :=
  ⟨fun k h => ⟨(ht.subFree k h).1, rfl⟩, ht.fnGlob, fun _ _ _ => ⟨rfl, rfl⟩, fun _ _ _ _ => rfl,
   fun _ _ _ _ => ⟨rfl, rfl⟩, fun _ => rfl⟩

theorem tinv_leave (c : Ctx) (ht : TInv c) : TInv { c with scope := Scope.global, locals := [] } :=
  ⟨fun k h => ⟨(ht.subFree k h).1, rfl⟩, ht.fnGlob, fun _ _ _ => ⟨rfl, rfl⟩, fun _ _ _ _ => rfl,
   fun _ _ _ _ => ⟨rfl, rfl⟩, fun _ => rfl⟩

theorem tinv_convSubprogram (c c' : Ctx) (sc : Scope) (ps : List Param) (body : List Stmt)
    (out : List (Key × Q) × List RStmt × Table) (hsc : sc ≠ Scope.global)
    (h : convSubprogram c sc ps body = .ok (c', out)) (ht : TInv c) : TInv c' := by
  unfold convSubprogram at h
  simp only [] at h
  split at h; · cases h
  next c2 pq h2 =>
  split at h; · cases h
  next c3 rs h3 =>
  injection h with h; injection h with h _; rw [← h]
  have t2 := tinv_convParams _ c2 ps pq h2 (enter_inSub c sc hsc) (tinv_enter c sc ht)
  exact tinv_leave c3 (tinv_convStmts c2 c3 body rs h3 t2)

theorem tinv_convItem (c c' : Ctx) (it : Item) (r : List RItem) (h : convItem c it = .ok (c', r)) (ht : TInv c) :
    TInv c' := by
  cases it with
  | defType q rs =>
    simp [convItem] at h; rw [← h.1]
    exact ⟨ht.subFree, ht.fnGlob, ht.fnLoc, ht.sharedExt, ht.sharedCompact, ht.locEmpty⟩
  | stmt s =>
    simp only [convItem] at h
    cases hc : convStmt c s with
    | error e => simp [hc, Except.map] at h
    | ok p =>
      simp [hc, Except.map] at h
      rw [← h.1]
      exact tinv_convStmt c p.1 s p.2 (by rw [hc]) ht
  | sub n ps body =>
    simp only [convItem] at h
    split at h; · cases h
    next c1 pq rs loc hc =>
    injection h with h; injection h with h _; rw [← h]
    exact tinv_convSubprogram c c1 _ ps body _ (by simp) hc ht
  | func n ps body =>
    simp only [convItem] at h
    split at h; · cases h
    next c1 pq rs loc hc =>
    injection h with h; injection h with h _; rw [← h]
    exact tinv_convSubprogram c c1 _ ps body _ (by simp) hc ht

theorem tinv_reachItems (c c' : Ctx) (l : List Item) (hr : ReachItems c l c') (ht : TInv c) : TInv c' := by
  induction hr with
  | here c l => exact ht
  | inSub hp hb =>
    exact tinv_reachStmts _ _ _ hb (tinv_convParams _ _ _ _ hp (enter_inSub _ _ (by simp)) (tinv_enter _ _ ht))
  | inFunc hp hb =>
    exact tinv_reachStmts _ _ _ hb (tinv_convParams _ _ _ _ hp (enter_inSub _ _ (by simp)) (tinv_enter _ _ ht))
  | step hconv _ ih => exact ih (tinv_convItem _ _ _ _ hconv ht)

theorem tinv_init (p : Pre) : TInv (initCtx p) :=
  ⟨fun _ _ => ⟨rfl, rfl⟩, fun _ _ _ => rfl, fun _ _ _ => ⟨rfl, rfl⟩, fun _ _ _ _ => rfl,
   fun _ _ _ _ => ⟨rfl, rfl⟩, fun _ => rfl⟩

/-- **The table invariant holds in every context the linter reaches**, whatever mix of DIM / DIM SHARED / CONST /
parameters / implicit variables / SUBs / FUNCTIONs the script contains. -/
theorem tinv_of_reachable (s : Script) (c : Ctx) (hr : Reachable s c) : TInv c := by
  obtain ⟨p, _, hreach⟩ := hr
  exact tinv_reachItems _ _ s hreach (tinv_init p)

/-! ## instances: the per-kind theorems of `Thm/C13.lean` in every reachable context -/

theorem TInv.hasSub_cur {c : Ctx} (ht : TInv c) (k : Key) (h : c.hasSub k = true) : c.cur.find k = none := by
  cases hin : c.inSub
  · rw [cur_of_global c hin]; exact (ht.subFree k h).1
  · rw [cur_of_sub c hin]; exact (ht.subFree k h).2

/-- a SUB name is never an `AS type` variable in sight -/
theorem TInv.hasSub_ext {c : Ctx} (ht : TInv c) (k : Key) (h : c.hasSub k = true) : c.getExtendedRec k = none := by
  unfold Ctx.getExtendedRec
  simp [Table.getExtended, ht.hasSub_cur k h, (ht.subFree k h).1]

/-- **extended_unique in every reachable context.**  Wherever an `AS T` variable `k` is visible (own scope or
SHARED global), bare `k` and `k<T>` are that variable and any other suffix is `TypeMismatch`. -/
theorem extended_unique_reachable (s : Script) (c : Ctx) (k : Key) (T : Q) (home : Scope) (m : Mode)
    (hr : Reachable s c) (h : c.getExtendedRec k = some (T, home)) :
    resolveVar c k none m = .ok (c, .var k T home) ∧ resolveVar c k (some T) m = .ok (c, .var k T home) ∧
    ∀ q, q ≠ T → resolveVar c k (some q) m = .error .typeMismatch := by
  have ht := tinv_of_reachable s c hr
  have hsub : c.hasSub k = false := by
    cases hs : c.hasSub k
    · rfl
    · rw [ht.hasSub_ext k hs] at h; cases h
  refine ⟨?_, ?_, ?_⟩
  · simp [resolveVar, hsub, h, sfxOk]
  · simp [resolveVar, hsub, h, sfxOk]
  · intro q hq; simp [resolveVar, hsub, h, sfxOk, hq]

/-- **a global CONST is visible in every subprogram context that has no local of that name.** -/
theorem global_const_visible_reachable (s : Script) (c : Ctx) (k : Key) (cq : Q) (l : Lit) (m : Mode)
    (hr : Reachable s c) (hin : c.inSub = true) (hlocal : c.locals.find k = none)
    (hg : c.globals.find k = some (.const cq l)) :
    resolveVar c k none m = .ok (c, .constant cq l) ∧ resolveVar c k (some cq) m = .ok (c, .constant cq l) := by
  have ht := tinv_of_reachable s c hr
  have hsub : c.hasSub k = false := by
    cases hs : c.hasSub k
    · rfl
    · rw [(ht.subFree k hs).1] at hg; cases hg
  have hfn : c.funcQ k = none := by
    cases hf : c.funcQ k with
    | none => rfl
    | some fq => rw [ht.fnGlob k fq hf] at hg; cases hg
  exact global_const_visible c k cq l m hin hsub hfn hlocal hg

/-- the four look-ups of `ExistingVar` for the name `k` / `k<q>`: local `AS type` variable, SHARED global
`AS type` variable, local compact, SHARED global compact -/
def existingVarSources (c : Ctx) (k : Key) (q : Q) : List Bool :=
  [(c.cur.getExtended k).isSome,
   c.inSub && (match c.globals.getExtended k with | some (_, true) => true | _ => false),
   (c.cur.getCompact k q).isSome,
   c.inSub && decide (c.globals.getCompact k q = some true)]

theorem ext_compact_excl (t : Table) (k : Key) (q : Q) : t.getExtended k = none ∨ t.getCompact k q = none := by
  unfold Table.getExtended Table.getCompact
  cases hf : t.find k with
  | none => simp
  | some ni => cases ni <;> simp

theorem count_le_one (a b c d : Bool) (h1 : ¬ (a = true ∧ c = true))
    (h2 : b = true → a = false ∧ c = false ∧ d = false) (h3 : d = true → a = false ∧ c = false) :
    [a, b, c, d].count true ≤ 1 := by
  cases a <;> cases b <;> cases c <;> cases d <;> simp_all

/-- **at most one source of `ExistingVar` answers**: the order of the four look-ups inside the rule is irrelevant -/
theorem existingVar_sources_exclusive (c : Ctx) (ht : TInv c) (k : Key) (q : Q) :
    (existingVarSources c k q).count true ≤ 1 := by
  unfold existingVarSources
  apply count_le_one
  · intro ⟨h1, h2⟩
    rcases ext_compact_excl c.cur k q with h | h
    · rw [h] at h1; cases h1
    · rw [h] at h2; cases h2
  · intro hb
    rw [Bool.and_eq_true] at hb
    obtain ⟨hin, hb⟩ := hb
    have hg : ∃ q', c.globals.getExtended k = some (q', true) := by
      split at hb
      · next q' heq => exact ⟨q', heq⟩
      · cases hb
    obtain ⟨q', hg⟩ := hg
    have hl := ht.sharedExt hin k q' hg
    rw [cur_of_sub c hin]
    refine ⟨by simp [Table.getExtended, hl], by simp [Table.getCompact, hl], ?_⟩
    rcases ext_compact_excl c.globals k q with h | h
    · rw [h] at hg; cases hg
    · simp [h]
  · intro hd
    rw [Bool.and_eq_true] at hd
    obtain ⟨hin, hd⟩ := hd
    have hl := ht.sharedCompact hin k q (of_decide_eq_true hd)
    rw [cur_of_sub c hin]
    simp [hl.1, hl.2]

/-! ## Part B — the ordered rule list of `variable.rs::convert` -/

/-- the rules of `variable.rs::convert` in the fragment, in the order of the Rust rule list -/
inductive Rule where
  | existingVar | constLocal | funcName | constRec | implicit
  deriving DecidableEq, Repr

/-- position in the Rust rule list -/
def Rule.rank : Rule → Nat
  | .existingVar => 0
  | .constLocal => 1
  | .funcName => 2
  | .constRec => 3
  | .implicit => 4

/-- the rule's `can_handle` -/
def applies (c : Ctx) (k : Key) (sfx : Option Q) : Rule → Bool
  | .existingVar => (c.getExtendedRec k).isSome || (c.getCompactRec k (sfx.getD (defaultQ c.deft k))).isSome
  | .constLocal => (c.cur.getConst k).isSome
  | .funcName => (c.funcQ k).isSome          -- AssignToFunction (assignment) / VarAsUserDefinedFunctionCall (default)
  | .constRec => (c.getConstRec k).isSome
  | .implicit => true

/-- the rule's `resolve` (the branch bodies of `resolveVar` / `resolveTail`); where the rule does not apply the
value is the dummy `DuplicateDefinition` -/
def fire (c : Ctx) (k : Key) (sfx : Option Q) (m : Mode) : Rule → Except LintErr (Ctx × Res)
  | .existingVar =>
    match c.getExtendedRec k with
    | some (q, home) => if sfxOk sfx q then .ok (c, .var k q home) else .error .typeMismatch
    | none =>
      let q := sfx.getD (defaultQ c.deft k)
      match c.getCompactRec k q with
      | some home => .ok (c, .var k q home)
      | none => .error .duplicateDefinition
  | .constLocal =>
    match c.cur.getConst k with
    | some v => (resolveConst sfx v).map (fun r => (c, r))
    | none => .error .duplicateDefinition
  | .funcName =>
    match c.funcQ k with
    | some fq =>
      match m with
      | .assignment =>
        if c.inFunction k then
          if sfxOk sfx fq then .ok (c.setCur (c.cur.insertCompact k fq false), .var k fq c.scope)
          else .error .duplicateDefinition
        else .error .duplicateDefinition
      | .default => if sfxOk sfx fq then .ok (c, .call k fq) else .error .duplicateDefinition
    | none => .error .duplicateDefinition
  | .constRec =>
    match c.getConstRec k with
    | some v => (resolveConst sfx v).map (fun r => (c, r))
    | none => .error .duplicateDefinition
  | .implicit => .ok (addImplicit c k sfx)

/-- **`resolveVar` is "the first applicable rule fires"** (after `validate`). -/
theorem resolveVar_first_rule (c : Ctx) (k : Key) (sfx : Option Q) (m : Mode) (hs : c.hasSub k = false) :
    ∃ r, applies c k sfx r = true ∧ (∀ r', r'.rank < r.rank → applies c k sfx r' = false) ∧
      resolveVar c k sfx m = fire c k sfx m r := by
  cases hext : c.getExtendedRec k with
  | some p =>
    obtain ⟨q, home⟩ := p
    refine ⟨.existingVar, by simp [applies, hext], ?_, by simp [resolveVar, fire, hs, hext]⟩
    intro r' hr'; cases r' <;> simp [Rule.rank] at hr'
  | none =>
    cases hcomp : c.getCompactRec k (sfx.getD (defaultQ c.deft k)) with
    | some home =>
      refine ⟨.existingVar, by simp [applies, hcomp], ?_, by simp [resolveVar, fire, hs, hext, hcomp]⟩
      intro r' hr'; cases r' <;> simp [Rule.rank] at hr'
    | none =>
      cases hcl : c.cur.getConst k with
      | some v =>
        refine ⟨.constLocal, by simp [applies, hcl], ?_, by simp [resolveVar, fire, hs, hext, hcomp, hcl]⟩
        intro r' hr'; cases r' <;> simp [Rule.rank] at hr'
        simp [applies, hext, hcomp]
      | none =>
        cases hfn : c.funcQ k with
        | some fq =>
          refine ⟨.funcName, by simp [applies, hfn], ?_,
            by cases m <;> simp [resolveVar, resolveTail, fire, hs, hext, hcomp, hcl, hfn]⟩
          intro r' hr'; cases r' <;> simp [Rule.rank] at hr'
          · simp [applies, hext, hcomp]
          · simp [applies, hcl]
        | none =>
          cases hcr : c.getConstRec k with
          | some v =>
            refine ⟨.constRec, by simp [applies, hcr], ?_,
              by simp [resolveVar, resolveTail, fire, hs, hext, hcomp, hcl, hfn, hcr]⟩
            intro r' hr'; cases r' <;> simp [Rule.rank] at hr'
            · simp [applies, hext, hcomp]
            · simp [applies, hcl]
            · simp [applies, hfn]
          | none =>
            refine ⟨.implicit, rfl, ?_, by simp [resolveVar, resolveTail, fire, hs, hext, hcomp, hcl, hfn, hcr]⟩
            intro r' hr'; cases r' <;> simp [Rule.rank] at hr'
            · simp [applies, hext, hcomp]
            · simp [applies, hcl]
            · simp [applies, hfn]
            · simp [applies, hcr]

/-- the documented priorities: `ExistingVar` before the constant and function-name rules; every rule before the
implicit definition -/
def prio : Rule → Rule → Bool
  | .existingVar, .constLocal | .existingVar, .funcName | .existingVar, .constRec => true
  | .existingVar, .implicit | .constLocal, .implicit | .funcName, .implicit | .constRec, .implicit => true
  | _, _ => false

theorem rank_respects_prio (a b : Rule) (h : prio a b = true) : a.rank < b.rank := by
  cases a <;> cases b <;> simp [prio, Rule.rank] at h ⊢

/-- a FUNCTION name is never a constant in sight -/
theorem TInv.fn_noConst {c : Ctx} (ht : TInv c) (k : Key) (fq : Q) (h : c.funcQ k = some fq) :
    c.cur.getConst k = none ∧ c.getConstRec k = none := by
  have hg : c.globals.getConst k = none := by simp [Table.getConst, ht.fnGlob k fq h]
  have hc : c.cur.getConst k = none := by
    cases hin : c.inSub
    · rw [cur_of_global c hin]; exact hg
    · rw [cur_of_sub c hin]; exact (ht.fnLoc k fq h).1
  refine ⟨hc, ?_⟩
  unfold Ctx.getConstRec
  rw [hc]
  cases hin : c.inSub <;> simp [hg]

/-- **outside the documented priorities the rules do not compete**: two applicable rules either give the same
result or are ordered by `prio`. -/
theorem rules_exclusive (c : Ctx) (ht : TInv c) (k : Key) (sfx : Option Q) (m : Mode) (r1 r2 : Rule)
    (h1 : applies c k sfx r1 = true) (h2 : applies c k sfx r2 = true) :
    fire c k sfx m r1 = fire c k sfx m r2 ∨ prio r1 r2 = true ∨ prio r2 r1 = true := by
  have hfc : (c.funcQ k).isSome = true → (c.cur.getConst k).isSome = true → False := by
    intro hf hc
    cases hfq : c.funcQ k with
    | none => simp [hfq] at hf
    | some fq => rw [(ht.fn_noConst k fq hfq).1] at hc; cases hc
  have hfr : (c.funcQ k).isSome = true → (c.getConstRec k).isSome = true → False := by
    intro hf hc
    cases hfq : c.funcQ k with
    | none => simp [hfq] at hf
    | some fq => rw [(ht.fn_noConst k fq hfq).2] at hc; cases hc
  have hlr : (c.cur.getConst k).isSome = true → fire c k sfx m .constLocal = fire c k sfx m .constRec := by
    intro hc
    cases hv : c.cur.getConst k with
    | none => simp [hv] at hc
    | some v => simp [fire, Ctx.getConstRec, hv]
  cases r1 <;> cases r2 <;>
    first
    | exact Or.inl rfl
    | exact Or.inr (Or.inl rfl)
    | exact Or.inr (Or.inr rfl)
    | exact Or.inl (hlr h1)
    | exact Or.inl (hlr h2).symm
    | exact (hfc h1 h2).elim
    | exact (hfc h2 h1).elim
    | exact (hfr h1 h2).elim
    | exact (hfr h2 h1).elim

/-- **any reordering of the rule list that keeps the documented priorities gives the same result**: the rule
that comes first among the applicable ones under any ranking `rank'` respecting `prio` fires what `resolveVar`
computes (the ranking need not even be injective: ties are between rules that agree). -/
theorem rule_order_irrelevant (c : Ctx) (ht : TInv c) (k : Key) (sfx : Option Q) (m : Mode) (hs : c.hasSub k = false)
    (rank' : Rule → Nat) (hprio : ∀ a b, prio a b = true → rank' a < rank' b) (r : Rule) (hr : applies c k sfx r = true)
    (hmin : ∀ r', applies c k sfx r' = true → rank' r ≤ rank' r') :
    fire c k sfx m r = resolveVar c k sfx m := by
  obtain ⟨r0, ha0, hmin0, heq⟩ := resolveVar_first_rule c k sfx m hs
  rw [heq]
  rcases rules_exclusive c ht k sfx m r r0 hr ha0 with h | h | h
  · exact h
  · have := hmin0 r (rank_respects_prio r r0 h)
    rw [hr] at this; cases this
  · have h1 := hprio r0 r h
    have h2 := hmin r0 ha0
    omega

/-! ## witnesses: the three priorities of `ExistingVar` matter, in reachable contexts -/

deriving instance DecidableEq for Except

/-- W1 `DIM SHARED A% : SUB S : CONST A = 5 : PRINT A% : END SUB` -/
def scriptW1 : Script :=
  [.stmt (.dim true [65] (.compact .int)), .sub [83] [] [.const ⟨[65], none⟩ .int, .print ⟨[65], some .int⟩]]
/-- the context in front of `PRINT A%` -/
def cW1 : Ctx :=
  { deft := DefTable.init, funcs := [], subs := [([83], [])], globals := [([65], .compacts [(.int, true)])],
    locals := [([65], .const .int .int)], scope := .sub [83] }

theorem reachW1 : Reachable scriptW1 cW1 :=
  ⟨_, rfl, ReachItems.step (r := [RItem.stmt .nop]) rfl
    (ReachItems.inSub (pq := []) rfl (ReachStmts.step (r := .nop) rfl (ReachStmts.here _ _)))⟩

/-- `ExistingVar` (the SHARED global `A%`) and the local constant rule both apply and disagree; the first wins -/
example : applies cW1 [65] (some .int) .existingVar = true ∧ applies cW1 [65] (some .int) .constLocal = true ∧
    fire cW1 [65] (some .int) .default .existingVar ≠ fire cW1 [65] (some .int) .default .constLocal ∧
    fire cW1 [65] (some .int) .default .constLocal = .ok (cW1, .constant .int .int) ∧
    resolveVar cW1 [65] (some .int) .default = .ok (cW1, .var [65] .int .global) := by decide

example : runScript scriptW1 = .accepted [.var [65] .int .global] (some []) true := by decide

/-- W2 `FUNCTION F% : F% = 1 : PRINT F% : END FUNCTION` -/
def scriptW2 : Script :=
  [.func ⟨[70], some .int⟩ [] [.assign ⟨[70], some .int⟩ false 1, .print ⟨[70], some .int⟩]]
def cW2 : Ctx :=
  { deft := DefTable.init, funcs := [([70], (.int, []))], subs := [], globals := [],
    locals := [([70], .compacts [(.int, false)])], scope := .func [70] .int }

theorem reachW2 : Reachable scriptW2 cW2 :=
  ⟨_, rfl, ReachItems.inFunc (pq := []) rfl
    (ReachStmts.step (r := .assign [70] .int (.func [70] .int) 1) rfl (ReachStmts.here _ _))⟩

/-- `ExistingVar` (the function result variable) and the function-name rule both apply and disagree -/
example : applies cW2 [70] (some .int) .existingVar = true ∧ applies cW2 [70] (some .int) .funcName = true ∧
    fire cW2 [70] (some .int) .default .existingVar ≠ fire cW2 [70] (some .int) .default .funcName ∧
    fire cW2 [70] (some .int) .default .funcName = .ok (cW2, .call [70] .int) ∧
    resolveVar cW2 [70] (some .int) .default = .ok (cW2, .var [70] .int (.func [70] .int)) := by decide

example : runScript scriptW2 =
    .accepted [.var [70] .int (.func [70] .int), .var [70] .int (.func [70] .int)] (some []) true := by decide

/-- W3 `CONST A = 1 : SUB S : DIM A% : PRINT A% : END SUB` -/
def scriptW3 : Script :=
  [.stmt (.const ⟨[65], none⟩ .int), .sub [83] [] [.dim false [65] (.compact .int), .print ⟨[65], some .int⟩]]
def cW3 : Ctx :=
  { deft := DefTable.init, funcs := [], subs := [([83], [])], globals := [([65], .const .int .int)],
    locals := [([65], .compacts [(.int, false)])], scope := .sub [83] }

theorem reachW3 : Reachable scriptW3 cW3 :=
  ⟨_, rfl, ReachItems.step (r := [RItem.stmt .nop]) rfl
    (ReachItems.inSub (pq := []) rfl (ReachStmts.step (r := .nop) rfl (ReachStmts.here _ _)))⟩

/-- `ExistingVar` (the local `A%`) and the recursive constant rule (global `CONST A`) both apply and disagree -/
example : applies cW3 [65] (some .int) .existingVar = true ∧ applies cW3 [65] (some .int) .constRec = true ∧
    fire cW3 [65] (some .int) .default .existingVar ≠ fire cW3 [65] (some .int) .default .constRec ∧
    fire cW3 [65] (some .int) .default .constRec = .ok (cW3, .constant .int .int) ∧
    resolveVar cW3 [65] (some .int) .default = .ok (cW3, .var [65] .int (.sub [83])) := by decide

example : runScript scriptW3 = .accepted [.var [65] .int (.sub [83])] (some []) true := by decide

/-! ## non-vacuity -/

/-- `tinv_of_reachable` on non-trivial contexts: a SHARED global shadowed by nothing but a local CONST, … -/
example : TInv cW1 ∧ TInv cW2 ∧ TInv cW3 :=
  ⟨tinv_of_reachable _ _ reachW1, tinv_of_reachable _ _ reachW2, tinv_of_reachable _ _ reachW3⟩

/-- the invariant is not trivially true: a local `AS type` variable over a SHARED one violates it -/
example : ¬ TInv { cW1 with locals := [([65], .extended .str false)] } := by
  intro h
  have := (h.sharedCompact rfl [65] .int rfl).2
  revert this; decide

/-- exactly one source answers in W1 (the SHARED global compact) -/
example : existingVarSources cW1 [65] .int = [false, false, false, true] := by decide

/-- `extended_unique_reachable`: `DIM SHARED A AS INTEGER : SUB S : … ` — inside the SUB the hypothesis holds with
the global frame as home -/
def scriptE : Script := [.stmt (.dim true [65] (.extended .int)), .sub [83] [] []]
def cE : Ctx :=
  { deft := DefTable.init, funcs := [], subs := [([83], [])], globals := [([65], .extended .int true)],
    locals := [], scope := .sub [83] }
theorem reachE : Reachable scriptE cE :=
  ⟨_, rfl, ReachItems.step (r := [RItem.stmt .nop]) rfl (ReachItems.inSub (pq := []) rfl (ReachStmts.here _ _))⟩
example : resolveVar cE [65] (some .str) .default = .error .typeMismatch :=
  (extended_unique_reachable scriptE cE [65] .int .global .default reachE (by decide)).2.2 .str (by decide)

/-- `global_const_visible_reachable`: `CONST A = 1 : SUB S : …` -/
def scriptG : Script := [.stmt (.const ⟨[65], none⟩ .int), .sub [83] [] []]
def cG : Ctx :=
  { deft := DefTable.init, funcs := [], subs := [([83], [])], globals := [([65], .const .int .int)],
    locals := [], scope := .sub [83] }
theorem reachG : Reachable scriptG cG :=
  ⟨_, rfl, ReachItems.step (r := [RItem.stmt .nop]) rfl (ReachItems.inSub (pq := []) rfl (ReachStmts.here _ _))⟩
example : resolveVar cG [65] none .default = .ok (cG, .constant .int .int) :=
  (global_const_visible_reachable scriptG cG [65] .int .int .default reachG (by decide) (by decide) (by decide)).1

/-- a ranking that swaps the local-constant and the function-name rule -/
def rankSwap : Rule → Nat
  | .existingVar => 0
  | .funcName => 1
  | .constLocal => 2
  | .constRec => 3
  | .implicit => 4

/-- the hypotheses of `rule_order_irrelevant` hold for the Rust order and for the swapped order -/
theorem rank_ok : (∀ a b, Rule.rank a = Rule.rank b → a = b) ∧ (∀ a b, prio a b = true → Rule.rank a < Rule.rank b) :=
  ⟨fun a b => by cases a <;> cases b <;> simp [Rule.rank], rank_respects_prio⟩
theorem rankSwap_ok : (∀ a b, rankSwap a = rankSwap b → a = b) ∧ (∀ a b, prio a b = true → rankSwap a < rankSwap b) :=
  ⟨fun a b => by cases a <;> cases b <;> simp [rankSwap],
   fun a b => by cases a <;> cases b <;> simp [prio, rankSwap]⟩

example : fire cW2 [70] (some .int) .default .existingVar = resolveVar cW2 [70] (some .int) .default :=
  rule_order_irrelevant cW2 (tinv_of_reachable _ _ reachW2) [70] (some .int) .default (by decide) rankSwap
    rankSwap_ok.2 .existingVar (by decide) (fun r' _ => by cases r' <;> simp [rankSwap])

/-- … and for the bare `PRINT A` in W1 (`A` is SINGLE by default, so `ExistingVar` does not apply) the local
constant rule is the first applicable one under the swapped order too -/
example : fire cW1 [65] none .default .constLocal = resolveVar cW1 [65] none .default :=
  rule_order_irrelevant cW1 (tinv_of_reachable _ _ reachW1) [65] none .default (by decide) rankSwap
    rankSwap_ok.2 .constLocal (by decide)
    (fun r' h => by cases r' <;> first | (simp [rankSwap]; done) | (revert h; decide))

end RbThm.C13Rules
