import RbModel.JmpL.Ref
/-!
Jump layer, a shape fact about the reference semantics `JmpL.Ref.exec` alone: a `jump L` answered by a statement comes from
a `GOTO L` inside that statement and names a label that is *not* inside it (a jump to a label inside is handled by the
smallest construct that contains the label).  The simulation proof uses it to bound the depths of the label of a jump that
leaves a statement (`RbThm.JmpLSim.jump_depths`).
-/
namespace RbThm.JmpLShape
set_option linter.unusedVariables false
set_option linter.unusedSimpArgs false
open RbModel RbModel.Num RbModel.JmpL RbModel.JmpL.Ref
open RbModel.Ast (Pos PrintItem CaseExpr)
open RbModel.Ref (St)

mutual
/-- the targets of the GOTO statements inside a statement of the lean syntax -/
def gotosS : Stmt → List Nat
  | .seq a b => gotosS a ++ gotosS b
  | .ifs _ thn els _ => gotosS thn ++ gotosS els
  | .select _ cases _ => gotosC cases
  | .forLoop _ _ _ _ _ body _ => gotosS body
  | .while _ body _ => gotosS body
  | .doLoop _ _ _ body _ => gotosS body
  | .goto L => [L]
  | _ => []
def gotosC : Cases → List Nat
  | .nil => []
  | .else_ body => gotosS body
  | .case _ body rest => gotosS body ++ gotosC rest
end

theorem hasLabel_seq (a b : Stmt) (L : Nat) : (Stmt.seq a b).hasLabel L = (a.hasLabel L || b.hasLabel L) := by
  simp [Stmt.hasLabel, Stmt.labels]

theorem hasLabel_ifs (c : Ast.Expr) (a b : Stmt) (p : Pos) (L : Nat) :
    (Stmt.ifs c a b p).hasLabel L = (a.hasLabel L || b.hasLabel L) := by
  simp [Stmt.hasLabel, Stmt.labels]

theorem hasLabel_while (c : Ast.Expr) (b : Stmt) (p : Pos) (L : Nat) : (Stmt.while c b p).hasLabel L = b.hasLabel L := by
  simp [Stmt.hasLabel, Stmt.labels]

theorem hasLabel_do (c : Ast.Expr) (t u : Bool) (b : Stmt) (p : Pos) (L : Nat) :
    (Stmt.doLoop c t u b p).hasLabel L = b.hasLabel L := by
  simp [Stmt.hasLabel, Stmt.labels]

theorem hasLabel_for (x : Nat) (t : Ty) (lo hi : Ast.Expr) (st : Option Ast.Expr) (b : Stmt) (p : Pos) (L : Nat) :
    (Stmt.forLoop x t lo hi st b p).hasLabel L = b.hasLabel L := by
  simp [Stmt.hasLabel, Stmt.labels]

theorem hasLabel_select (e : Ast.Expr) (cs : Cases) (p : Pos) (L : Nat) :
    (Stmt.select e cs p).hasLabel L = cs.hasLabel L := by
  simp [Stmt.hasLabel, Cases.hasLabel, Stmt.labels]

/-- the five functions of the mutual block, at one amount of fuel -/
structure Shape (fuel : Nat) : Prop where
  exec : ∀ (P s : Stmt) (m : Mode) (st st' : St) (L : Nat), exec fuel P s m st = (st', .jump L) →
    L ∈ gotosS s ∧ s.hasLabel L = false
  execCases : ∀ (P : Stmt) (p : Pos) (v : Val) (cs : Cases) (st st' : St) (L : Nat),
    execCases fuel P p v cs st = (st', .jump L) → L ∈ gotosC cs
  seekCases : ∀ (P : Stmt) (cs : Cases) (L0 : Nat) (st st' : St) (L : Nat),
    seekCases fuel P cs L0 st = (st', .jump L) → L ∈ gotosC cs
  selectSeek : ∀ (P : Stmt) (cs : Cases) (L0 : Nat) (st st' : St) (L : Nat),
    selectSeek fuel P cs L0 st = (st', .jump L) → L ∈ gotosC cs ∧ cs.hasLabel L = false
  forIter : ∀ (P : Stmt) (x : Nat) (t : Ty) (h sv : Val) (up : Bool) (body : Stmt) (p : Pos) (m : Mode) (st st' : St)
    (L : Nat), forIter fuel P x t h sv up body p m st = (st', .jump L) → L ∈ gotosS body ∧ body.hasLabel L = false

theorem shape_zero : Shape 0 := by
  refine ⟨?_, ?_, ?_, ?_, ?_⟩ <;> intros <;> simp_all [exec, execCases, seekCases, selectSeek, forIter]

theorem evalCond_no_jump {env : List Val} {c : Ast.Expr} {o : Outcome} (h : evalCond env c = .error o) (L : Nat) :
    o ≠ .jump L := by
  unfold evalCond at h
  split at h
  · simp at h; subst h; simp
  · simp at h; subst h; simp
  · split at h
    · simp at h
    · simp at h; subst h; simp

theorem evalE_no_jump {env : List Val} {e : Ast.Expr} {o : Outcome} (h : evalE env e = .error o) (L : Nat) :
    o ≠ .jump L := by
  unfold evalE at h
  split at h
  · simp at h
  · simp at h; subst h; simp
  · simp at h; subst h; simp

theorem relTest_no_jump {p : Pos} {op : Op} {a b : Val} {o : Outcome} (h : relTest p op a b = .error o) (L : Nat) :
    o ≠ .jump L := by
  unfold relTest at h
  split at h
  · simp at h
  · simp at h; subst h; simp
  · simp at h; subst h; simp

theorem stepSign_no_jump {p : Pos} {s : Val} {o : Outcome} (h : stepSign p s = .error o) (L : Nat) : o ≠ .jump L := by
  unfold stepSign at h
  cases h1 : relTest p .less s (.int 0) with
  | error o1 =>
    simp only [h1, bind, Except.bind] at h
    injection h with h; subst h
    exact relTest_no_jump h1 L
  | ok b1 =>
    simp only [h1, bind, Except.bind] at h
    cases b1 with
    | true => simp [pure, Except.pure] at h
    | false =>
      simp only [Bool.false_eq_true, if_false] at h
      cases h2 : relTest p .greater s (.int 0) with
      | error o2 =>
        simp only [h2] at h
        injection h with h; subst h
        exact relTest_no_jump h2 L
      | ok b2 =>
        simp only [h2] at h
        cases b2 <;> simp [pure, Except.pure] at h

/-- the rule every construct applies to a jump out of one of its parts: restart in seek mode if the label is inside,
pass it on otherwise -/
theorem catch_shape {n : Nat} (ih : Shape n) (P whole : Stmt) (r : St × Outcome) (st' : St) (L : Nat)
    (hsub : ∀ s1 L1, r = (s1, .jump L1) → L1 ∈ gotosS whole)
    (h : (match r with
          | (s', .jump L) => if whole.hasLabel L = true then exec n P whole (.seek L) s' else (s', .jump L)
          | r => r) = (st', .jump L)) : L ∈ gotosS whole ∧ whole.hasLabel L = false := by
  obtain ⟨s1, o1⟩ := r
  cases o1 with
  | jump L1 =>
    simp only at h
    split at h
    · exact ih.exec _ _ _ _ _ _ h
    · rename_i hnl
      simp only [Prod.mk.injEq, Outcome.jump.injEq] at h
      obtain ⟨_, rfl⟩ := h
      exact ⟨hsub _ _ rfl, by simpa using hnl⟩
  | _ => simp at h

theorem shape_succ (n : Nat) (ih : Shape n) : Shape (n + 1) := by
  refine ⟨?_, ?_, ?_, ?_, ?_⟩
  · intro P s m st st' L h
    cases s with
    | skip => cases m <;> simp [exec] at h
    | assign x t e p =>
      cases m with
      | seek _ => simp [exec] at h
      | run =>
        simp only [exec] at h
        split at h <;> simp at h
    | print items p =>
      cases m with
      | seek _ => simp [exec] at h
      | run =>
        simp only [exec] at h
        -- `printItems` never answers a jump
        have hp : ∀ (items : List PrintItem) (s : St) (s' : St) (L : Nat), printItems s items ≠ (s', .jump L) := by
          intro items
          induction items with
          | nil => intro s s' L; simp [printItems]
          | cons it rest ihp =>
            intro s s' L
            cases it with
            | comma => simp only [printItems]; exact ihp _ _ _
            | semicolon => simp only [printItems]; exact ihp _ _ _
            | expr e =>
              simp only [printItems]
              split
              · simp
              · simp
              · split
                · simp
                · exact ihp _ _ _
        generalize hr : printItems st items = r at h
        obtain ⟨s1, o1⟩ := r
        cases o1 with
        | jump L' => exact absurd hr (hp _ _ _ _)
        | normal => simp only at h; split at h <;> simp at h
        | _ => simp at h
    | read x t p =>
      cases m with
      | seek _ => simp [exec] at h
      | run =>
        simp only [exec] at h
        split at h
        · simp at h
        · split at h <;> simp at h
    | end_ p => cases m <;> simp [exec] at h
    | label L' =>
      cases m with
      | run => simp [exec] at h
      | seek L0 => simp only [exec] at h; split at h <;> simp at h
    | goto L' =>
      cases m with
      | seek _ => simp [exec] at h
      | run =>
        simp only [exec, Prod.mk.injEq, Outcome.jump.injEq] at h
        obtain ⟨_, rfl⟩ := h
        exact ⟨by simp [gotosS], by simp [Stmt.hasLabel, Stmt.labels]⟩
    | ret p => cases m <;> simp [exec] at h
    | gosub L' =>
      cases m with
      | seek _ => simp [exec] at h
      | run =>
        simp only [exec] at h
        generalize exec n P P (.seek L') st = r at h
        obtain ⟨s1, o1⟩ := r
        cases o1 <;> simp at h
    | seq a b =>
      simp only [exec] at h
      split at h
      · -- entered
        rename_i hen
        generalize hr : (if m.enters a = true then
            match exec n P a m st with
            | (s', .normal) => exec n P b .run s'
            | r => r
          else exec n P b m st) = r at h
        obtain ⟨s1, o1⟩ := r
        cases o1 with
        | jump L1 =>
          simp only at h
          split at h
          · exact ih.exec _ _ _ _ _ _ h
          · rename_i hnl
            simp only [Prod.mk.injEq, Outcome.jump.injEq] at h
            obtain ⟨_, rfl⟩ := h
            refine ⟨?_, by simpa using hnl⟩
            simp only [gotosS, List.mem_append]
            split at hr
            · generalize hra : exec n P a m st = ra at hr
              obtain ⟨s2, o2⟩ := ra
              cases o2 with
              | normal => exact .inr (ih.exec _ _ _ _ _ _ hr).1
              | jump L2 =>
                simp only [Prod.mk.injEq, Outcome.jump.injEq] at hr
                obtain ⟨_, rfl⟩ := hr
                exact .inl (ih.exec _ _ _ _ _ _ hra).1
              | _ => simp at hr
            · exact .inr (ih.exec _ _ _ _ _ _ hr).1
        | _ => simp at h
      · simp at h
    | ifs c thn els p =>
      simp only [exec] at h
      split at h
      · refine catch_shape ih P _ _ st' L ?_ h
        intro s1 L1 hr
        simp only [gotosS, List.mem_append]
        cases m with
        | run =>
          simp only at hr
          cases hc : evalCond st.env c with
          | error o =>
            rw [hc] at hr
            simp only [Prod.mk.injEq] at hr
            exact absurd hr.2 (evalCond_no_jump hc L1)
          | ok bv =>
            rw [hc] at hr
            cases bv with
            | true => exact .inl (ih.exec _ _ _ _ _ _ hr).1
            | false => exact .inr (ih.exec _ _ _ _ _ _ hr).1
        | seek L0 =>
          simp only at hr
          split at hr
          · exact .inl (ih.exec _ _ _ _ _ _ hr).1
          · exact .inr (ih.exec _ _ _ _ _ _ hr).1
      · simp at h
    | select e cases p =>
      cases m with
      | seek L0 => simp only [exec] at h; split at h <;> simp at h
      | run =>
        simp only [exec] at h
        cases he : evalE st.env e with
        | error o =>
          rw [he] at h
          simp only [Prod.mk.injEq] at h
          obtain ⟨_, rfl⟩ := h
          unfold evalE at he
          split at he <;> simp at he
        | ok subject =>
          rw [he] at h
          simp only at h
          generalize hr : execCases n P p subject cases st = r at h
          obtain ⟨s1, o1⟩ := r
          cases o1 with
          | jump L1 =>
            simp only at h
            split at h
            · have := ih.selectSeek _ _ _ _ _ _ h
              exact ⟨by simpa [gotosS] using this.1, by rw [hasLabel_select]; exact this.2⟩
            · rename_i hnl
              simp only [Prod.mk.injEq, Outcome.jump.injEq] at h
              obtain ⟨_, rfl⟩ := h
              exact ⟨by simpa [gotosS] using ih.execCases _ _ _ _ _ _ _ hr, by rw [hasLabel_select]; simpa using hnl⟩
          | _ => simp at h
    | forLoop x t lo hi step body p =>
      cases m with
      | seek L0 => simp only [exec] at h; split at h <;> simp at h
      | run =>
        simp only [exec] at h
        have key : ∀ (h' sv : Val) (up : Bool) (s0 : St), forIter n P x t h' sv up body p .run s0 = (st', .jump L) →
            L ∈ gotosS (.forLoop x t lo hi step body p) ∧ (Stmt.forLoop x t lo hi step body p).hasLabel L = false := by
          intro h' sv up s0 hf
          have := ih.forIter _ _ _ _ _ _ _ _ _ _ _ _ hf
          exact ⟨by simpa [gotosS] using this.1, by rw [hasLabel_for]; exact this.2⟩
        split at h
        · simp at h
        · simp at h
        · split at h
          · simp at h
          · simp at h
          · split at h
            · exact key _ _ _ _ h
            · split at h
              · rename_i o ho
                simp only [Prod.mk.injEq] at h
                obtain ⟨_, rfl⟩ := h
                unfold evalE at ho
                split at ho <;> simp at ho
              · split at h
                · rename_i o ho
                  simp only [Prod.mk.injEq] at h
                  obtain ⟨_, rfl⟩ := h
                  exact absurd rfl (stepSign_no_jump ho L)
                · exact key _ _ _ _ h
                · exact key _ _ _ _ h
                · simp at h
    | «while» c body p =>
      simp only [exec] at h
      split at h
      · split at h
        · rename_i o ho
          simp only [Prod.mk.injEq] at h
          obtain ⟨_, rfl⟩ := h
          cases m with
          | run =>
            simp only at ho
            unfold evalCond at ho
            split at ho
            · simp at ho
            · simp at ho
            · split at ho <;> simp at ho
          | seek _ => simp at ho
        · simp at h
        · generalize hr : exec n P body m st = r at h
          obtain ⟨s1, o1⟩ := r
          cases o1 with
          | normal => simp only at h; exact ih.exec _ _ _ _ _ _ h
          | jump L1 =>
            simp only at h
            split at h
            · exact ih.exec _ _ _ _ _ _ h
            · rename_i hnl
              simp only [Prod.mk.injEq, Outcome.jump.injEq] at h
              obtain ⟨_, rfl⟩ := h
              exact ⟨by simpa [gotosS] using (ih.exec _ _ _ _ _ _ hr).1, by rw [hasLabel_while]; simpa using hnl⟩
          | _ => simp at h
      · simp at h
    | doLoop c top until_ body p =>
      simp only [exec] at h
      have hcond : ∀ (env : List Val) (o : Outcome), evalCond env c = .error o → ∀ L, o ≠ .jump L := by
        intro env o ho L
        unfold evalCond at ho
        split at ho
        · simp at ho; subst ho; simp
        · simp at ho; subst ho; simp
        · split at ho
          · simp at ho
          · simp at ho; subst ho; simp
      split at h
      · split at h
        · -- test at the top
          split at h
          · rename_i o ho
            simp only [Prod.mk.injEq] at h
            obtain ⟨_, rfl⟩ := h
            cases m with
            | run => exact absurd rfl (hcond _ _ ho L)
            | seek _ => simp at ho
          · split at h
            · generalize hr : exec n P body m st = r at h
              obtain ⟨s1, o1⟩ := r
              cases o1 with
              | normal => simp only at h; exact ih.exec _ _ _ _ _ _ h
              | jump L1 =>
                simp only at h
                split at h
                · exact ih.exec _ _ _ _ _ _ h
                · rename_i hnl
                  simp only [Prod.mk.injEq, Outcome.jump.injEq] at h
                  obtain ⟨_, rfl⟩ := h
                  exact ⟨by simpa [gotosS] using (ih.exec _ _ _ _ _ _ hr).1, by rw [hasLabel_do]; simpa using hnl⟩
              | _ => simp at h
            · simp at h
        · generalize hr : exec n P body m st = r at h
          obtain ⟨s1, o1⟩ := r
          cases o1 with
          | normal =>
            simp only at h
            split at h
            · rename_i o ho
              simp only [Prod.mk.injEq] at h
              obtain ⟨_, rfl⟩ := h
              exact absurd rfl (hcond _ _ ho L)
            · split at h
              · exact ih.exec _ _ _ _ _ _ h
              · simp at h
          | jump L1 =>
            simp only at h
            split at h
            · exact ih.exec _ _ _ _ _ _ h
            · rename_i hnl
              simp only [Prod.mk.injEq, Outcome.jump.injEq] at h
              obtain ⟨_, rfl⟩ := h
              exact ⟨by simpa [gotosS] using (ih.exec _ _ _ _ _ _ hr).1, by rw [hasLabel_do]; simpa using hnl⟩
          | _ => simp at h
      · simp at h
  · intro P p v cs st st' L h
    cases cs with
    | nil => simp [execCases] at h
    | else_ body => simp only [execCases] at h; simpa [gotosC] using (ih.exec _ _ _ _ _ _ h).1
    | case conds body rest =>
      simp only [execCases] at h
      simp only [gotosC, List.mem_append]
      split at h
      · rename_i o ho
        simp only [Prod.mk.injEq] at h
        obtain ⟨_, rfl⟩ := h
        exfalso
        -- `anyMatches` answers only errors
        have hrel : ∀ (op : Op) (a b : Val) (o : Outcome), relTest p op a b = .error o → ∀ L, o ≠ .jump L := by
          intro op a b o ho L
          unfold relTest at ho
          split at ho
          · simp at ho
          · simp at ho; subst ho; simp
          · simp at ho; subst ho; simp
        have hev : ∀ (e : Ast.Expr) (o : Outcome), evalE st.env e = .error o → ∀ L, o ≠ .jump L := by
          intro e o ho L
          unfold evalE at ho
          split at ho
          · simp at ho
          · simp at ho; subst ho; simp
          · simp at ho; subst ho; simp
        have hcm : ∀ (c : CaseExpr) (o : Outcome), caseMatches st.env p v c = .error o → ∀ L, o ≠ .jump L := by
          intro c o ho L
          cases c with
          | simple e =>
            simp only [caseMatches, bind, Except.bind] at ho
            split at ho
            · simp at ho; subst ho; exact hev _ _ ‹_› L
            · exact hrel _ _ _ _ ho L
          | is op e =>
            simp only [caseMatches, bind, Except.bind] at ho
            split at ho
            · simp at ho; subst ho; exact hev _ _ ‹_› L
            · exact hrel _ _ _ _ ho L
          | range lo hi =>
            simp only [caseMatches, bind, Except.bind, pure, Except.pure] at ho
            split at ho
            · simp at ho; subst ho; exact hev _ _ ‹_› L
            · split at ho
              · simp at ho; subst ho; exact hrel _ _ _ _ ‹_› L
              · split at ho
                · split at ho
                  · simp at ho; subst ho; exact hev _ _ ‹_› L
                  · exact hrel _ _ _ _ ho L
                · simp at ho
        have ham : ∀ (cs : List CaseExpr) (o : Outcome), anyMatches st.env p v cs = .error o → ∀ L, o ≠ .jump L := by
          intro cs
          induction cs with
          | nil => intro o ho; simp [anyMatches, pure, Except.pure] at ho
          | cons c rest ihc =>
            intro o ho L
            simp only [anyMatches, bind, Except.bind, pure, Except.pure] at ho
            split at ho
            · simp at ho; subst ho; exact hcm _ _ ‹_› L
            · split at ho
              · simp at ho
              · exact ihc _ ho L
        exact ham _ _ ho L rfl
      · exact .inl (ih.exec _ _ _ _ _ _ h).1
      · exact .inr (ih.execCases _ _ _ _ _ _ _ h)
  · intro P cs L0 st st' L h
    cases cs with
    | nil => simp [seekCases] at h
    | else_ body => simp only [seekCases] at h; simpa [gotosC] using (ih.exec _ _ _ _ _ _ h).1
    | case conds body rest =>
      simp only [seekCases] at h
      simp only [gotosC, List.mem_append]
      split at h
      · exact .inl (ih.exec _ _ _ _ _ _ h).1
      · exact .inr (ih.seekCases _ _ _ _ _ _ h)
  · intro P cs L0 st st' L h
    simp only [selectSeek] at h
    generalize hr : seekCases n P cs L0 st = r at h
    obtain ⟨s1, o1⟩ := r
    cases o1 with
    | jump L1 =>
      simp only at h
      split at h
      · exact ih.selectSeek _ _ _ _ _ _ h
      · rename_i hnl
        simp only [Prod.mk.injEq, Outcome.jump.injEq] at h
        obtain ⟨_, rfl⟩ := h
        exact ⟨ih.seekCases _ _ _ _ _ _ hr, by simpa using hnl⟩
    | _ => simp at h
  · intro P x t hv sv up body p m st st' L h
    simp only [forIter] at h
    split at h
    · rename_i o ho
      simp only [Prod.mk.injEq] at h
      obtain ⟨_, rfl⟩ := h
      cases m with
      | run =>
        simp only at ho
        unfold relTest at ho
        split at ho <;> simp at ho
      | seek _ => simp at ho
    · simp at h
    · generalize hr : exec n P body m st = r at h
      obtain ⟨s1, o1⟩ := r
      cases o1 with
      | normal =>
        simp only at h
        split at h
        · exact ih.forIter _ _ _ _ _ _ _ _ _ _ _ _ h
        · simp at h
        · simp at h
      | jump L1 =>
        simp only at h
        split at h
        · exact ih.forIter _ _ _ _ _ _ _ _ _ _ _ _ h
        · rename_i hnl
          simp only [Prod.mk.injEq, Outcome.jump.injEq] at h
          obtain ⟨_, rfl⟩ := h
          exact ⟨(ih.exec _ _ _ _ _ _ hr).1, by simpa using hnl⟩
      | _ => simp at h

theorem shape_all : ∀ n, Shape n
  | 0 => shape_zero
  | n + 1 => shape_succ n (shape_all n)

/-- **a jump that leaves a statement** comes from a GOTO inside it and names a label outside it -/
theorem jump_shape (fuel : Nat) (P s : Stmt) (m : Mode) (st st' : St) (L : Nat)
    (h : exec fuel P s m st = (st', .jump L)) : L ∈ gotosS s ∧ s.hasLabel L = false :=
  (shape_all fuel).exec P s m st st' L h

end RbThm.JmpLShape
