import Thm.ProcArrSimBase
/-!
Procedures layer, simulation part — the simple statement cases: sequencing, assignment, DIM, END,
EXIT SUB / EXIT FUNCTION, and a SUB call (from the call hypothesis `CallIH`).
-/
namespace RbThm.ProcArrSim
set_option linter.unusedVariables false
set_option linter.unusedSimpArgs false
open RbModel RbModel.Num RbModel.ProcArr RbModel.ProcArr.Compile RbModel.ProcArr.Vm
open RbModel.Ast (Pos)
open RbThm.ProcArrLen

theorem case_seq (W : World) (fuel : Nat) (ih : IHle W fuel) (a b : SStmt) (sc : Scope) (sfx : String)
    (fd sd off : Nat) (below : List CtxState) (s : St) (σ : Vm)
    (hc : CodeAt W.code off (compileStmt W.lay sfx fd sd off (.seq a b))) (hpc : σ.pc = off)
    (hr : Rel W sc [] below s σ) (hw : Wf W.sg sc (.seq a b)) (ha : ActInv sc fd sd σ) :
    StmtPost W sc below fd sd (sizeStmt fd sd (.seq a b)) off σ
      (ProcArr.Ref.exec W.P (fuel + 1) (desugar (.seq a b)) s) := by
  simp only [compileStmt] at hc
  simp only [Wf] at hw
  obtain ⟨hwa, hwb⟩ := hw
  have h1 := ih.self.stmt sc a sfx fd sd off below s σ hc.append_left hpc hr hwa ha
  simp only [desugar, ProcArr.Ref.exec, sizeStmt]
  generalize ProcArr.Ref.exec W.P fuel (desugar a) s = ra at h1 ⊢
  obtain ⟨s1, o1⟩ := ra
  cases o1 with
  | normal =>
    obtain ⟨τ, st, hp, hrel, hss⟩ := h1
    have hcb : CodeAt W.code (off + sizeStmt fd sd a) (compileStmt W.lay sfx fd sd (off + sizeStmt fd sd a) b) := by
      have := hc.append_right
      rwa [len_stmt] at this
    have h2 := ih.self.stmt sc b sfx fd sd _ below s1 τ hcb hp hrel hwb (ha.of_same hss)
    simp only
    exact StmtPost.of_steps st hss (h2.addr (by omega))
  | exited => exact h1
  | halted => exact h1
  | error c p => exact h1
  | inexact => trivial
  | outOfFuel => trivial
  | tooBig => trivial
  | illFormed => exact h1

theorem case_assign (W : World) (fuel : Nat) (ih : IHle W fuel) (x : Var) (t : Ty) (e : ProcArr.Expr) (p : Pos)
    (sc : Scope) (sfx : String) (fd sd off : Nat) (below : List CtxState) (s : St) (σ : Vm)
    (hc : CodeAt W.code off (compileStmt W.lay sfx fd sd off (.assign x t e p))) (hpc : σ.pc = off)
    (hr : Rel W sc [] below s σ) (hw : Wf W.sg sc (.assign x t e p)) (ha : ActInv sc fd sd σ) :
    StmtPost W sc below fd sd (sizeStmt fd sd (.assign x t e p)) off σ
      (ProcArr.Ref.exec W.P (fuel + 1) (desugar (.assign x t e p)) s) := by
  simp only [compileStmt] at hc
  simp only [Wf] at hw
  obtain ⟨hx, hwe⟩ := hw
  have he := exprTo_correct' W fuel ih sc e t off [] below s σ hc.append_left hpc hr hwe
  simp only [desugar, ProcArr.Ref.exec, sizeStmt]
  generalize ProcArr.Ref.evalTo W.P fuel e t s = r at he ⊢
  obtain ⟨s1, rv⟩ := r
  cases rv with
  | error o => exact StmtPost.of_err he
  | ok v =>
    obtain ⟨τ, st, hp, hav, hrel, hss, htag⟩ := he
    have hcs : CodeAt W.code τ.pc (storeVar x t p) := by
      have := hc.append_right
      rw [len_exprTo] at this
      rw [hp]; exact this
    have hst := store_steps W.code x t p τ hcs
    have hrel2 := hrel.storeSt hx (by rw [hav]; exact htag)
    rw [hav] at hrel2
    exact ⟨storeSt τ x, st.trans hst, by rw [storeSt_pc, hp]; omega, hrel2, hss.trans (SameStacks.storeSt τ x)⟩

theorem zeroOf_tag (t : Ty) : (zeroOf t).tag = t := by cases t <;> rfl

theorem case_dim (W : World) (fuel : Nat) (ih : IHle W fuel) (x : Var) (t : Ty) (p : Pos) (sc : Scope) (sfx : String)
    (fd sd off : Nat) (below : List CtxState) (s : St) (σ : Vm)
    (hc : CodeAt W.code off (compileStmt W.lay sfx fd sd off (.dim x t p))) (hpc : σ.pc = off)
    (hr : Rel W sc [] below s σ) (hw : Wf W.sg sc (.dim x t p)) (ha : ActInv sc fd sd σ) :
    StmtPost W sc below fd sd (sizeStmt fd sd (.dim x t p)) off σ
      (ProcArr.Ref.exec W.P (fuel + 1) (desugar (.dim x t p)) s) := by
  simp only [compileStmt] at hc
  simp only [Wf] at hw
  subst hpc
  have h0 : W.code[σ.pc]? = some (CInstr.allocate t, p) := hc.head
  let σ1 : Vm := Vm.advance (Vm.setA σ (zeroOf t))
  have s1 : Vm.step W.code σ = .next σ1 := by simp only [Vm.step, h0]; rfl
  have hcs : CodeAt W.code σ1.pc (storeVar x t p) := hc.tail
  have hst := store_steps W.code x t p σ1 hcs
  have hrel1 : Rel W sc [] below s σ1 := (hr.setA _).advance
  have hrel2 := hrel1.storeSt hw.1 (zeroOf_tag t)
  simp only [desugar, sizeStmt]
  cases fuel with
  | zero => simp only [ProcArr.Ref.exec, ProcArr.Ref.evalTo, StmtPost]
  | succ n =>
    cases n with
    | zero => simp only [ProcArr.Ref.exec, ProcArr.Ref.evalTo, ProcArr.Ref.eval, StmtPost]
    | succ m =>
      have hev : ProcArr.Ref.evalTo W.P (m + 1 + 1) (ProcArr.Expr.lit (zeroOf t) p) t s = (s, .ok (zeroOf t)) := by
        simp only [ProcArr.Ref.evalTo, ProcArr.Ref.eval, ProcArr.Expr.ty, zeroOf_tag, storeCast, if_true, ProcArr.Ref.liftR]
      simp only [ProcArr.Ref.exec, hev, StmtPost]
      exact ⟨storeSt σ1 x, Steps.cons s1 hst, rfl, hrel2,
        (show SameStacks σ σ1 from ⟨rfl, rfl, rfl, rfl, rfl, rfl, id⟩).trans (SameStacks.storeSt σ1 x)⟩

/-- `IsVariableDefined x`: A receives the BASIC truth value of "slot `x` of the current block is created" -/
theorem isDefined_step (code : Code) (σ : Vm) (p : Pos) (x : Nat) (fr : Frame)
    (h0 : code[σ.pc]? = some (CInstr.isDefined x, p)) (hcf : σ.curFrame = some fr) :
    Vm.step code σ = .next (Vm.advance (Vm.setA σ (if (fr[x]?.join).isSome then Val.int (-1) else Val.int 0))) := by
  simp only [Vm.step, h0, hcf]
  cases h : fr[x]? with
  | none => rfl
  | some o => cases o <;> rfl

/-- DIM inside a STATIC procedure: the variable is created (with zero of its type) unless it already exists; the
reference state does not change either way -/
theorem case_sdim (W : World) (fuel : Nat) (x : Nat) (t : Ty) (p : Pos) (sc : Scope) (sfx : String)
    (fd sd off : Nat) (below : List CtxState) (s : St) (σ : Vm)
    (hc : CodeAt W.code off (compileStmt W.lay sfx fd sd off (.sdim x t p))) (hpc : σ.pc = off)
    (hr : Rel W sc [] below s σ) (hw : Wf W.sg sc (.sdim x t p)) (ha : ActInv sc fd sd σ) :
    StmtPost W sc below fd sd (sizeStmt fd sd (.sdim x t p)) off σ
      (ProcArr.Ref.exec W.P (fuel + 1) (desugar (.sdim x t p)) s) := by
  simp only [compileStmt] at hc
  simp only [Wf] at hw
  subst hpc
  have hxl := hw.1
  have hx' : sc.slots.get? ⟨false, x⟩ = some t := by simpa [SlotTabs.get?] using hxl
  obtain ⟨fr, hcf, hfr⟩ := hr.curVars
  have h0 : W.code[σ.pc]? = some (CInstr.isDefined x, p) := hc.head
  have h1 : W.code[σ.pc + 1]? = some (CInstr.jumpIfFalse (σ.pc + 3), p) := hc.tail.head
  have h2 : W.code[σ.pc + 1 + 1]? = some (CInstr.jump (σ.pc + 7), p) := hc.tail.tail.head
  have h3 : W.code[σ.pc + 1 + 1 + 1]? = some (CInstr.label (labelName "begin-dim" p sfx), p) := hc.tail.tail.tail.head
  have h4 : W.code[σ.pc + 1 + 1 + 1 + 1]? = some (CInstr.allocate t, p) := hc.tail.tail.tail.tail.head
  have hc5 : CodeAt W.code (σ.pc + 1 + 1 + 1 + 1 + 1) (storeVar ⟨false, x⟩ t p) :=
    CodeAt.append_left (b := [(CInstr.label (labelName "end-dim" p sfx), p)]) hc.tail.tail.tail.tail.tail
  have h7 : W.code[σ.pc + 1 + 1 + 1 + 1 + 1 + 1 + 1]? = some (CInstr.label (labelName "end-dim" p sfx), p) :=
    hc.tail.tail.tail.tail.tail.tail.tail.head
  have hs0 := isDefined_step W.code σ p x fr h0 hcf
  simp only [desugar, ProcArr.Ref.exec, sizeStmt, StmtPost]
  cases hj : fr[x]?.join with
  | some w =>
    simp only [hj, Option.isSome, if_true] at hs0
    let σ1 : Vm := Vm.advance (Vm.setA σ (.int (-1)))
    let σ2 : Vm := Vm.advance σ1
    let σ3 : Vm := { σ2 with pc := σ.pc + 7 }
    let σ4 : Vm := Vm.advance σ3
    have s1 : Vm.step W.code σ = .next σ1 := hs0
    have s2 : Vm.step W.code σ1 = .next σ2 := by
      have h1' : W.code[σ1.pc]? = some (CInstr.jumpIfFalse (σ.pc + 3), p) := h1
      have ht : _root_.RbModel.Ref.truthy σ1.regs.a = some true := rfl
      simp only [Vm.step, h1', ht] <;> rfl
    have s3 : Vm.step W.code σ2 = .next σ3 := by
      have h2' : W.code[σ2.pc]? = some (CInstr.jump (σ.pc + 7), p) := h2
      simp only [Vm.step, h2'] <;> rfl
    have s4 : Vm.step W.code σ3 = .next σ4 := by
      have h7' : W.code[σ3.pc]? = some (CInstr.label (labelName "end-dim" p sfx), p) := h7
      simp only [Vm.step, h7'] <;> rfl
    exact ⟨σ4, Steps.cons s1 (Steps.cons s2 (Steps.cons s3 (Steps.one s4))), rfl,
      hr.same rfl rfl rfl rfl rfl rfl, ⟨rfl, rfl, rfl, rfl, rfl, rfl, id⟩⟩
  | none =>
    simp only [hj, Option.isSome, Bool.false_eq_true, if_false] at hs0
    let σ1 : Vm := Vm.advance (Vm.setA σ (.int 0))
    let σ2 : Vm := { σ1 with pc := σ.pc + 3 }
    let σ3 : Vm := Vm.advance σ2
    let σ4 : Vm := Vm.advance (Vm.setA σ3 (zeroOf t))
    let σ5 : Vm := storeSt σ4 ⟨false, x⟩
    let σ6 : Vm := Vm.advance σ5
    have s1 : Vm.step W.code σ = .next σ1 := hs0
    have s2 : Vm.step W.code σ1 = .next σ2 := by
      have h1' : W.code[σ1.pc]? = some (CInstr.jumpIfFalse (σ.pc + 3), p) := h1
      have ht : _root_.RbModel.Ref.truthy σ1.regs.a = some false := rfl
      simp only [Vm.step, h1', ht] <;> rfl
    have s3 : Vm.step W.code σ2 = .next σ3 := by
      have h3' : W.code[σ2.pc]? = some (CInstr.label (labelName "begin-dim" p sfx), p) := h3
      simp only [Vm.step, h3'] <;> rfl
    have s4 : Vm.step W.code σ3 = .next σ4 := by
      have h4' : W.code[σ3.pc]? = some (CInstr.allocate t, p) := h4
      simp only [Vm.step, h4'] <;> rfl
    have s5 : Steps W.code σ4 σ5 := store_steps W.code ⟨false, x⟩ t p σ4 hc5
    have s6 : Vm.step W.code σ5 = .next σ6 := by
      have h7' : W.code[σ5.pc]? = some (CInstr.label (labelName "end-dim" p sfx), p) := h7
      simp only [Vm.step, h7'] <;> rfl
    have hrel4 : Rel W sc [] below s σ4 := hr.same rfl rfl rfl rfl rfl rfl
    have hrel5 : Rel W sc [] below (s.set ⟨false, x⟩ (zeroOf t)) σ5 := hrel4.storeSt hx' (zeroOf_tag t)
    have hget : s.get ⟨false, x⟩ t = zeroOf t := by
      have h := hfr.get x t hxl
      rw [getVar_eq_join, hj] at h
      show s.locals.getD x (zeroOf t) = zeroOf t
      rw [← h]; rfl
    have hset : s.set ⟨false, x⟩ (zeroOf t) = s := by
      have := set_get_self hr hx'
      rwa [hget] at this
    rw [hset] at hrel5
    exact ⟨σ6, Steps.cons s1 (Steps.cons s2 (Steps.cons s3 (Steps.cons s4 (s5.trans (Steps.one s6))))), rfl,
      hrel5.advance,
      (show SameStacks σ σ4 from ⟨rfl, rfl, rfl, rfl, rfl, rfl, id⟩).trans
        ((SameStacks.storeSt σ4 ⟨false, x⟩).trans ⟨rfl, rfl, rfl, rfl, rfl, rfl, id⟩)⟩

theorem case_end (W : World) (fuel : Nat) (p : Pos)
    (sc : Scope) (sfx : String) (fd sd off : Nat) (below : List CtxState) (s : St) (σ : Vm)
    (hc : CodeAt W.code off (compileStmt W.lay sfx fd sd off (.end_ p))) (hpc : σ.pc = off)
    (hr : Rel W sc [] below s σ) :
    StmtPost W sc below fd sd (sizeStmt fd sd (.end_ p)) off σ
      (ProcArr.Ref.exec W.P (fuel + 1) (desugar (.end_ p)) s) := by
  simp only [compileStmt] at hc
  subst hpc
  have h0 : W.code[σ.pc]? = some (CInstr.halt, p) := hc.head
  simp only [desugar, ProcArr.Ref.exec, StmtPost]
  exact ⟨σ, σ, Steps.refl σ, by simp only [Vm.step, h0], hr.out⟩

/-- everything but the program counter, the registers, the register stack and the value stack is as it was -/
structure Keeps (σ τ : Vm) : Prop where
  paths : τ.paths = σ.paths
  ctx : τ.ctx = σ.ctx
  glob : τ.glob = σ.glob
  statics : τ.statics = σ.statics
  out : τ.out = σ.out
  skipNewline : τ.skipNewline = σ.skipNewline
  data : τ.data = σ.data
  dataIdx : τ.dataIdx = σ.dataIdx
  queue : τ.queue = σ.queue
  funRes : τ.funRes = σ.funRes
  rets : τ.rets = σ.rets
  marks : τ.marks = σ.marks
  trace : τ.trace = σ.trace
  arrA : τ.arrA = σ.arrA

theorem Keeps.refl (σ : Vm) : Keeps σ σ := ⟨rfl, rfl, rfl, rfl, rfl, rfl, rfl, rfl, rfl, rfl, rfl, rfl, rfl, rfl⟩

theorem Keeps.trans {a b c : Vm} (h₁ : Keeps a b) (h₂ : Keeps b c) : Keeps a c :=
  ⟨h₂.paths.trans h₁.paths, h₂.ctx.trans h₁.ctx, h₂.glob.trans h₁.glob, h₂.statics.trans h₁.statics,
    h₂.out.trans h₁.out, h₂.skipNewline.trans h₁.skipNewline,
    h₂.data.trans h₁.data, h₂.dataIdx.trans h₁.dataIdx, h₂.queue.trans h₁.queue, h₂.funRes.trans h₁.funRes,
    h₂.rets.trans h₁.rets, h₂.marks.trans h₁.marks, h₂.trace.trans h₁.trace, h₂.arrA.trans h₁.arrA⟩

/-- `n` times `PopRegisters` -/
theorem popRegs_steps (code : Code) (p : Pos) : ∀ (n : Nat) (τ : Vm),
    CodeAt code τ.pc (List.replicate n (CInstr.popRegs, p)) → n ≤ τ.regStack.length →
    ∃ υ, Steps code τ υ ∧ υ.pc = τ.pc + n ∧ υ.regStack = τ.regStack.drop n ∧ υ.vals = τ.vals ∧ Keeps τ υ
  | 0, τ, _, _ => ⟨τ, Steps.refl τ, rfl, rfl, rfl, Keeps.refl τ⟩
  | n + 1, τ, hc, hn => by
    simp only [List.replicate_succ] at hc
    have h0 : code[τ.pc]? = some (CInstr.popRegs, p) := hc.head
    cases hrs : τ.regStack with
    | nil => rw [hrs] at hn; simp at hn
    | cons r rest =>
      let τ1 : Vm := Vm.advance { τ with regs := r, regStack := rest }
      have s1 : Vm.step code τ = .next τ1 := by simp only [Vm.step, h0, hrs]; rfl
      obtain ⟨υ, st, hp, hrg, hv, hk⟩ := popRegs_steps code p n τ1 hc.tail (by
        rw [hrs] at hn; simp only [List.length_cons] at hn; simp only [τ1, Vm.advance]; omega)
      refine ⟨υ, Steps.cons s1 st, by rw [hp]; simp only [τ1, Vm.advance]; omega, ?_, hv,
        Keeps.trans (show Keeps τ τ1 from ⟨rfl, rfl, rfl, rfl, rfl, rfl, rfl, rfl, rfl, rfl, rfl, rfl, rfl, rfl⟩) hk⟩
      rw [hrg]; simp [τ1, Vm.advance]

/-- `n` times `PopValueStackIntoA` -/
theorem popVals_steps (code : Code) (p : Pos) : ∀ (n : Nat) (τ : Vm),
    CodeAt code τ.pc (List.replicate n (CInstr.popA, p)) → n ≤ τ.vals.length →
    ∃ υ, Steps code τ υ ∧ υ.pc = τ.pc + n ∧ υ.vals = τ.vals.drop n ∧ υ.regStack = τ.regStack ∧ Keeps τ υ
  | 0, τ, _, _ => ⟨τ, Steps.refl τ, rfl, rfl, rfl, Keeps.refl τ⟩
  | n + 1, τ, hc, hn => by
    simp only [List.replicate_succ] at hc
    have h0 : code[τ.pc]? = some (CInstr.popA, p) := hc.head
    cases hvs : τ.vals with
    | nil => rw [hvs] at hn; simp at hn
    | cons v rest =>
      let τ1 : Vm := Vm.advance { Vm.setA τ v with vals := rest }
      have s1 : Vm.step code τ = .next τ1 := by simp only [Vm.step, h0, hvs]; rfl
      obtain ⟨υ, st, hp, hv, hrg, hk⟩ := popVals_steps code p n τ1 hc.tail (by
        rw [hvs] at hn; simp only [List.length_cons] at hn; simp only [τ1, Vm.advance]; omega)
      refine ⟨υ, Steps.cons s1 st, by rw [hp]; simp only [τ1, Vm.advance, Vm.setA]; omega, ?_, hrg,
        Keeps.trans (show Keeps τ τ1 from ⟨rfl, rfl, rfl, rfl, rfl, rfl, rfl, rfl, rfl, rfl, rfl, rfl, rfl, rfl⟩) hk⟩
      rw [hv]; simp [τ1, Vm.advance]

/-- `PopRet` when the register stack is exactly as long as the mark says: nothing is cut -/
theorem truncRegs_full (σ : Vm) (m : Nat) (h : σ.regStack.length + 1 = m) : truncRegs σ m = some σ := by
  unfold truncRegs
  simp only [List.length_cons, h, Nat.sub_self, List.drop_zero]

theorem case_exitProc (W : World) (fuel : Nat) (p : Pos)
    (sc : Scope) (sfx : String) (fd sd off : Nat) (below : List CtxState) (s : St) (σ : Vm)
    (hc : CodeAt W.code off (compileStmt W.lay sfx fd sd off (.exitProc p))) (hpc : σ.pc = off)
    (hr : Rel W sc [] below s σ) (hw : Wf W.sg sc (.exitProc p)) (ha : ActInv sc fd sd σ) :
    StmtPost W sc below fd sd (sizeStmt fd sd (.exitProc p)) off σ
      (ProcArr.Ref.exec W.P (fuel + 1) (desugar (.exitProc p)) s) := by
  simp only [compileStmt] at hc
  simp only [Wf] at hw
  subst hpc
  obtain ⟨a, rets, m, marks, hrets, hmarks, hlen, hm1, hsd⟩ := ha.act hw
  obtain ⟨υ1, st1, hp1, hrg1, hv1, hk1⟩ := popRegs_steps W.code p fd σ hc.append_left.append_left (by omega)
  have hc2 : CodeAt W.code υ1.pc (List.replicate sd (CInstr.popA, p)) := by
    have := hc.append_left.append_right
    simp only [List.length_replicate] at this
    rw [hp1]; exact this
  obtain ⟨υ2, st2, hp2, hv2, hrg2, hk2⟩ := popVals_steps W.code p sd υ1 hc2 (by rw [hv1]; exact hsd)
  have h3 : W.code[υ2.pc]? = some (CInstr.popRet, p) := by
    have := hc.append_right.head
    simp only [List.length_append, List.length_replicate] at this
    rw [hp2, hp1, Nat.add_assoc]; exact this
  have hk := hk1.trans hk2
  have htr : truncRegs υ2 m = some υ2 := truncRegs_full υ2 m (by
    rw [hrg2, hrg1, List.length_drop]; omega)
  let υ3 : Vm := { υ2 with pc := a, rets := rets, marks := marks }
  have s3 : Vm.step W.code υ2 = .next υ3 := by
    simp only [Vm.step, h3, hk.rets, hk.marks, hrets, hmarks, htr]; rfl
  simp only [desugar, ProcArr.Ref.exec, StmtPost]
  refine ⟨υ3, (st1.trans st2).trans (Steps.one s3), ?_, ?_⟩
  · exact ⟨⟨a, m, hrets, hmarks, rfl⟩, by simp only [υ3]; rw [hrg2, hrg1], by simp only [υ3]; rw [hv2, hv1],
      hk.paths, hk.trace, fun h => by simp only [υ3]; rw [hk.skipNewline]; exact h⟩
  · exact hr.same hk.ctx hk.out hk.data hk.dataIdx hk.queue hk.funRes hk.glob hk.statics hk.arrA

theorem case_callSub (W : World) (fuel : Nat) (ih : IHle W fuel) (f : Nat) (args : Args) (p : Pos)
    (sc : Scope) (sfx : String) (fd sd off : Nat) (below : List CtxState) (s : St) (σ : Vm)
    (hc : CodeAt W.code off (compileStmt W.lay sfx fd sd off (.callSub f args p))) (hpc : σ.pc = off)
    (hr : Rel W sc [] below s σ) (hw : Wf W.sg sc (.callSub f args p)) (ha : ActInv sc fd sd σ) :
    StmtPost W sc below fd sd (sizeStmt fd sd (.callSub f args p)) off σ
      (ProcArr.Ref.exec W.P (fuel + 1) (desugar (.callSub f args p)) s) := by
  simp only [compileStmt] at hc
  simp only [Wf] at hw
  rw [callCode_sub] at hc
  have h := ih.self.call sc f args p none off [] below s σ hc hpc hr hw.1 hw.2
  simp only [desugar, ProcArr.Ref.exec, sizeStmt, sizeCall_sub]
  generalize ProcArr.Ref.call W.P fuel f args s = r at h ⊢
  obtain ⟨s1, rv⟩ := r
  cases rv with
  | error o => exact StmtPost.of_err h
  | ok v =>
    obtain ⟨τ, st, hp, hrel, hss, _⟩ := h
    exact ⟨τ, st, hp, hrel, hss⟩

end RbThm.ProcArrSim
