import RbModel.RecL.Ref
import RbModel.RecL.Vm
import RbModel.RecL.Spec
import Thm.RecLLen
import Thm.RecLTyping
import Thm.ArrLNum
import Thm.C04
/-!
Records layer (core language + TYPE records with nesting + `STRING * n`), simulation part — the infrastructure.

The code the generator model `RecL.Compile.compile*` emits, run on the VM model `RecL.Vm.step`, computes what the
reference semantics `RecL.Ref` prescribes.  Expressions are pure and need no fuel (`RvSpec` is proved by structural
induction in `Thm/RecLSimExpr.lean`); statements are proved by induction on the fuel of `RecL.Ref.exec`: `IH code fuel` is
the statement specification at a given amount of fuel and every construct is proved by its own case lemma from
`IHle code fuel`.  The API mirrors `Thm/ArrLSimBase.lean` (same helper names and shapes) so that the control-flow cases
are near-copies.

Contents: `Scope` (type table, slot table), `CodeAt`, `Steps`, `ErrsWith`, `HaltsWith`; the representation lemmas
(a finite-map record of the reference semantics vs the `Variant` tree of the VM: `fields_find_rel`, `fields_set_rel`,
`path_get_rel`, `path_set_rel`, `fresh_rel`), `VarsRel`, `Rel` (which carries the typing invariant — every `STRING * n`
location holds exactly `n` characters — and the no-NUL invariant), `SameStacks`, `ActInv`; well-formedness (`EWf`, `Wf`);
the specifications (`ErrPost`, `RvPost`, `ExprPost`, `CondPost`, `StmtPost`), `IH`, `IHle`; and the derived lemmas every
case needs: `var_steps`, `store_steps`, `conv_tail`, `exprToE_correct`, `exprTo_correct`, `evalE_correct`, `cond_correct`.
-/
namespace RbThm.RecLSim
set_option linter.unusedVariables false
set_option linter.unusedSimpArgs false
open RbModel RbModel.Num RbModel.RecL RbModel.RecL.Compile RbModel.RecL.Vm
open RbModel.Ast (Pos)
open RbThm.RecLLen RbThm.ArrLNum RbThm.RecLTy

abbrev St := RbModel.RecL.Ref.St
abbrev Outcome := RbModel.RecL.Ref.Outcome
abbrev ValRel := RbModel.RecL.Spec.ValRel
abbrev FieldsRel := RbModel.RecL.Spec.FieldsRel
abbrev HasTy := RbModel.RecL.Spec.HasTy
abbrev FieldsHaveTy := RbModel.RecL.Spec.FieldsHaveTy
abbrev TypesWf := RbModel.RecL.Spec.TypesWf
abbrev EnvTyped := RbModel.RecL.Spec.EnvTyped
abbrev NoNul := RbModel.RecL.Spec.NoNul
abbrev NoNulVal := RbModel.RecL.Spec.NoNulVal
abbrev PathTyped := RbModel.RecL.Spec.PathTyped

/-- the static tables of a program: the record types, the declared types of the variables -/
structure Scope where
  types : List FFields
  slots : List ETy

/-! ### code placement -/

/-- the fragment `frag` sits in `code` at address `off` -/
def CodeAt (code : Code) (off : Nat) (frag : Code) : Prop :=
  ∀ i, i < frag.length → code[off + i]? = frag[i]?

theorem CodeAt.nil (code : Code) (off : Nat) : CodeAt code off [] := by
  intro i hi; simp at hi

theorem CodeAt.append_left {code : Code} {off : Nat} {a b : Code} (h : CodeAt code off (a ++ b)) :
    CodeAt code off a := by
  intro i hi
  have := h i (by simp; omega)
  rw [this, List.getElem?_append_left hi]

theorem CodeAt.append_right {code : Code} {off : Nat} {a b : Code} (h : CodeAt code off (a ++ b)) :
    CodeAt code (off + a.length) b := by
  intro i hi
  have := h (a.length + i) (by simp; omega)
  rw [Nat.add_assoc, this, List.getElem?_append_right (by omega)]
  congr 1; omega

theorem CodeAt.head {code : Code} {off : Nat} {x : CInstr × Pos} {rest : Code}
    (h : CodeAt code off (x :: rest)) : code[off]? = some x := by
  have := h 0 (by simp)
  simpa using this

theorem CodeAt.tail {code : Code} {off : Nat} {x : CInstr × Pos} {rest : Code}
    (h : CodeAt code off (x :: rest)) : CodeAt code (off + 1) rest := by
  have := CodeAt.append_right (a := [x]) (b := rest) (by simpa using h)
  simpa using this

/-- re-addressing: the same fragment at a provably equal address -/
theorem CodeAt.at {code : Code} {off off' : Nat} {frag : Code} (h : CodeAt code off frag) (e : off = off') :
    CodeAt code off' frag := e ▸ h

/-- re-addressing with a provably equal fragment -/
theorem CodeAt.cast {code : Code} {off off' : Nat} {frag frag' : Code} (h : CodeAt code off frag) (e : off = off')
    (e' : frag = frag') : CodeAt code off' frag' := e ▸ e' ▸ h

/-! ### execution -/

/-- zero or more successful steps -/
inductive Steps (code : Code) : Vm → Vm → Prop
  | refl (σ : Vm) : Steps code σ σ
  | cons {σ τ υ : Vm} : Vm.step code σ = .next τ → Steps code τ υ → Steps code σ υ

theorem Steps.trans {code : Code} {a b c : Vm} (h₁ : Steps code a b) (h₂ : Steps code b c) : Steps code a c := by
  induction h₁ with
  | refl => exact h₂
  | cons hs _ ih => exact Steps.cons hs (ih h₂)

theorem Steps.one {code : Code} {σ τ : Vm} (h : Vm.step code σ = .next τ) : Steps code σ τ :=
  Steps.cons h (Steps.refl τ)

theorem Steps.cast {code : Code} {σ τ τ' : Vm} (h : Steps code σ τ) (e : τ = τ') : Steps code σ τ' := e ▸ h

/-- the run reaches a state whose next step raises the BASIC error `(c, p)`, with the output `out` -/
def ErrsWith (code : Code) (σ : Vm) (c : Nat) (p : Pos) (out : Print.WritePrinter) : Prop :=
  ∃ τ υ, Steps code σ τ ∧ Vm.step code τ = .error c p υ ∧ υ.out = out

/-- the run reaches a `Halt` (END / the end of the program) with the output `out` -/
def HaltsWith (code : Code) (σ : Vm) (out : Print.WritePrinter) : Prop :=
  ∃ τ υ, Steps code σ τ ∧ Vm.step code τ = .halt υ ∧ υ.out = out

theorem ErrsWith.of_steps {code : Code} {σ τ : Vm} {c : Nat} {p : Pos} {out}
    (h₁ : Steps code σ τ) (h₂ : ErrsWith code τ c p out) : ErrsWith code σ c p out := by
  obtain ⟨a, b, h, hs, ho⟩ := h₂
  exact ⟨a, b, h₁.trans h, hs, ho⟩

theorem HaltsWith.of_steps {code : Code} {σ τ : Vm} {out}
    (h₁ : Steps code σ τ) (h₂ : HaltsWith code τ out) : HaltsWith code σ out := by
  obtain ⟨a, b, h, hs, ho⟩ := h₂
  exact ⟨a, b, h₁.trans h, hs, ho⟩

/-! ### records: finite map (reference) vs `Variant` tree (VM) -/

/-- the names of a record type are their own case-folded keys -/
def FoldedNames (fs : FFields) : Prop := ∀ f ∈ fs.names, Arr.foldName f.toList = f.toList

theorem FoldedNames.tail {g : String} {t : FTy} {rest : FFields} (h : FoldedNames (.cons g t rest)) :
    FoldedNames rest := fun f hf => h f (by simp [FFields.names, hf])

/-- one field, read: the reference finds the declared field by name, the VM finds the related value under the folded
name -/
theorem fields_find_rel : ∀ (fs : FFields) (rfs : RFs) (vfs : List (List Char × RV)) (f : String) (t : FTy),
    FieldsHaveTy fs rfs → FieldsRel rfs vfs → FoldedNames fs → fs.find f = some t →
    ∃ v w, rfs.find f = some v ∧ Arr.lookupField vfs (Arr.foldName f.toList) = some w ∧ ValRel v w ∧ HasTy t v
  | .nil, _, _, _, _, _, _, _, hf => by simp [FFields.find] at hf
  | .cons g t' rest, rfs, vfs, f, t, h, hrel, hfold, hf => by
    have hff : Arr.foldName f.toList = f.toList := hfold f (find_mem_names _ f t hf)
    simp only [FieldsHaveTy, Spec.FieldsHaveTy] at h
    obtain ⟨v, rr, rfl, hv, hrr⟩ := h
    simp only [FieldsRel, Spec.FieldsRel] at hrel
    obtain ⟨w, tail, rfl, hvw, htail⟩ := hrel
    simp only [FFields.find] at hf
    by_cases hg : g = f
    · simp only [hg, if_true] at hf
      injection hf with hf; subst hf
      exact ⟨v, w, by simp [RecL.Ref.RFs.find, hg], by simp [Arr.lookupField, hff, hg], hvw, hv⟩
    · simp only [hg, if_false] at hf
      obtain ⟨v', w', h1, h2, h3, h4⟩ := fields_find_rel rest rr tail f t hrr htail hfold.tail hf
      have hne : ¬ g.toList = f.toList := fun e => hg (String.toList_inj.mp e)
      refine ⟨v', w', by simp [RecL.Ref.RFs.find, hg, h1], ?_, h3, h4⟩
      rw [hff] at h2 ⊢
      simp [Arr.lookupField, hne, h2]

/-- one field, store: both stores succeed and the results are related and typed -/
theorem fields_set_rel : ∀ (fs : FFields) (rfs : RFs) (vfs : List (List Char × RV)) (f : String) (t : FTy)
    (nv : RRV) (nw : RV),
    FieldsHaveTy fs rfs → FieldsRel rfs vfs → FoldedNames fs → fs.find f = some t → HasTy t nv → ValRel nv nw →
    ∃ rfs' vfs', rfs.set f nv = some rfs' ∧ Arr.updateField vfs (Arr.foldName f.toList) nw = some vfs' ∧
      FieldsHaveTy fs rfs' ∧ FieldsRel rfs' vfs'
  | .nil, _, _, _, _, _, _, _, _, _, hf, _, _ => by simp [FFields.find] at hf
  | .cons g t' rest, rfs, vfs, f, t, nv, nw, h, hrel, hfold, hf, hnv, hnw => by
    have hff : Arr.foldName f.toList = f.toList := hfold f (find_mem_names _ f t hf)
    simp only [FieldsHaveTy, Spec.FieldsHaveTy] at h
    obtain ⟨v, rr, rfl, hv, hrr⟩ := h
    simp only [FieldsRel, Spec.FieldsRel] at hrel
    obtain ⟨w, tail, rfl, hvw, htail⟩ := hrel
    simp only [FFields.find] at hf
    by_cases hg : g = f
    · simp only [hg, if_true] at hf
      injection hf with hf; subst hf
      refine ⟨.cons g nv rr, (g.toList, nw) :: tail, by simp [RecL.Ref.RFs.set, hg], by simp [Arr.updateField, hff, hg],
        ?_, ?_⟩
      · simp only [FieldsHaveTy, Spec.FieldsHaveTy]; exact ⟨nv, rr, rfl, hnv, hrr⟩
      · simp only [FieldsRel, Spec.FieldsRel]; exact ⟨nw, tail, rfl, hnw, htail⟩
    · simp only [hg, if_false] at hf
      obtain ⟨rr', tail', h1, h2, h3, h4⟩ := fields_set_rel rest rr tail f t nv nw hrr htail hfold.tail hf hnv hnw
      have hne : ¬ g.toList = f.toList := fun e => hg (String.toList_inj.mp e)
      refine ⟨.cons g v rr', (g.toList, w) :: tail', by simp [RecL.Ref.RFs.set, hg, h1], ?_, ?_, ?_⟩
      · rw [hff] at h2 ⊢
        simp [Arr.updateField, hne, h2]
      · simp only [FieldsHaveTy, Spec.FieldsHaveTy]; exact ⟨v, rr', rfl, hv, h3⟩
      · simp only [FieldsRel, Spec.FieldsRel]; exact ⟨w, tail', rfl, hvw, h4⟩

/-- the navigation steps of a field path -/
def stepsOf (path : List String) : List ArrPath.Step := path.map fun f => .fld f.toList

theorem foldedNames_of {types : List FFields} (hw : TypesWf types) {k : Nat} {fs : FFields}
    (h : TyIn types (.udt k fs)) : FoldedNames fs := (hw k fs h).2.1

/-- **reading a location**: `RV.getPath` on the finite map and `ArrPath.getAt` on the tree find related values -/
theorem path_get_rel {types : List FFields} (hw : TypesWf types) : ∀ (path : List String) (ft ft' : FTy) (v : RRV)
    (w : RV), TyIn types ft → HasTy ft v → ValRel v w → ft.at path = some ft' →
    ∃ v' w', v.getPath path = some v' ∧ ArrPath.getAt w (stepsOf path) = some w' ∧ ValRel v' w' ∧ HasTy ft' v'
  | [], ft, ft', v, w, _, h, hvw, ha => by
    simp only [FTy.at] at ha
    injection ha with ha; subst ha
    exact ⟨v, w, rfl, rfl, hvw, h⟩
  | f :: rest, .sc _, _, _, _, _, _, _, ha => by simp [FTy.at] at ha
  | f :: rest, .fix _, _, _, _, _, _, _, ha => by simp [FTy.at] at ha
  | f :: rest, .udt k fs, ft', v, w, hin, h, hvw, ha => by
    simp only [HasTy, Spec.HasTy] at h
    obtain ⟨rfs, rfl, hfs⟩ := h
    simp only [ValRel, Spec.ValRel] at hvw
    obtain ⟨vfs, rfl, hrel⟩ := hvw
    simp only [FTy.at] at ha
    cases hfind : fs.find f with
    | none => simp [hfind] at ha
    | some t =>
      simp only [hfind] at ha
      obtain ⟨c, cw, h1, h2, h3, h4⟩ := fields_find_rel fs rfs vfs f t hfs hrel (foldedNames_of hw hin) hfind
      obtain ⟨v', w', h5, h6, h7, h8⟩ := path_get_rel hw rest t ft' c cw (tyIn_find hw hin hfind) h4 h3 ha
      refine ⟨v', w', by simp [RecL.Ref.RV.getPath, h1, h5], ?_, h7, h8⟩
      simp only [stepsOf, List.map_cons, ArrPath.getAt, ArrPath.stepGet, Arr.getField, h2]
      exact h6

/-- **storing into a location**: `RV.setPath` on the finite map and `ArrPath.modAt` on the tree both succeed, the
results are related and the whole keeps its type -/
theorem path_set_rel {types : List FFields} (hw : TypesWf types) : ∀ (path : List String) (ft ft' : FTy) (v : RRV)
    (w : RV) (nv : RRV) (nw : RV), TyIn types ft → HasTy ft v → ValRel v w → ft.at path = some ft' → HasTy ft' nv →
    ValRel nv nw →
    ∃ v' w', v.setPath path nv = some v' ∧ ArrPath.modAt w (stepsOf path) (fun _ => some nw) = some w' ∧
      ValRel v' w' ∧ HasTy ft v'
  | [], ft, ft', v, w, nv, nw, _, h, hvw, ha, hnv, hnw => by
    simp only [FTy.at] at ha
    injection ha with ha; subst ha
    exact ⟨nv, nw, rfl, rfl, hnw, hnv⟩
  | f :: rest, .sc _, _, _, _, _, _, _, _, _, ha, _, _ => by simp [FTy.at] at ha
  | f :: rest, .fix _, _, _, _, _, _, _, _, _, ha, _, _ => by simp [FTy.at] at ha
  | f :: rest, .udt k fs, ft', v, w, nv, nw, hin, h, hvw, ha, hnv, hnw => by
    simp only [HasTy, Spec.HasTy] at h
    obtain ⟨rfs, rfl, hfs⟩ := h
    simp only [ValRel, Spec.ValRel] at hvw
    obtain ⟨vfs, rfl, hrel⟩ := hvw
    simp only [FTy.at] at ha
    cases hfind : fs.find f with
    | none => simp [hfind] at ha
    | some t =>
      simp only [hfind] at ha
      have hfold := foldedNames_of hw hin
      obtain ⟨c, cw, h1, h2, h3, h4⟩ := fields_find_rel fs rfs vfs f t hfs hrel hfold hfind
      obtain ⟨c', cw', h5, h6, h7, h8⟩ :=
        path_set_rel hw rest t ft' c cw nv nw (tyIn_find hw hin hfind) h4 h3 ha hnv hnw
      obtain ⟨rfs', vfs', h9, h10, h11, h12⟩ := fields_set_rel fs rfs vfs f t c' cw' hfs hrel hfold hfind h8 h7
      refine ⟨.udt rfs', .udt vfs', by simp [RecL.Ref.RV.setPath, h1, h5, h9], ?_, ?_, ?_⟩
      · simp only [stepsOf, List.map_cons, ArrPath.modAt, ArrPath.stepGet, Arr.getField, h2]
        have h6' : ArrPath.modAt cw (List.map (fun f => ArrPath.Step.fld f.toList) rest) (fun _ => some nw) =
            some cw' := h6
        simp only [h6', ArrPath.stepSet, Arr.setField, h10, Option.map_some]
      · simp only [ValRel, Spec.ValRel]; exact ⟨vfs', rfl, h12⟩
      · simp only [HasTy, Spec.HasTy]; exact ⟨rfs', rfl, h11⟩

/-! ### allocation: `fresh` vs `allocTy` -/

theorem insertField_append {κ α : Type} [DecidableEq κ] : ∀ (l : List (κ × α)) (k : κ) (v : α),
    k ∉ l.map (·.1) → Arr.insertField l k v = l ++ [(k, v)]
  | [], _, _, _ => rfl
  | (k', v') :: rest, k, v, h => by
    simp only [List.map_cons, List.mem_cons, not_or] at h
    have hne : ¬ k' = k := fun e => h.1 e.symm
    simp only [Arr.insertField, hne, if_false, List.cons_append, insertField_append rest k v h.2]

/-- `UserDefinedTypeValue::new` on pairwise distinct, already folded names keeps the list as it is -/
theorem foldl_insert_id : ∀ (arr acc : List (List Char × RV)), (acc.map (·.1) ++ arr.map (·.1)).Nodup →
    (∀ p ∈ arr, Arr.foldName p.1 = p.1) →
    arr.foldl (fun acc p => Arr.insertField acc (Arr.foldName p.1) p.2) acc = acc ++ arr
  | [], acc, _, _ => by simp
  | p :: rest, acc, hnd, hf => by
    have hp : Arr.foldName p.1 = p.1 := hf p (List.mem_cons_self ..)
    have hnot : p.1 ∉ acc.map (·.1) := by
      intro hm
      have := List.nodup_append.mp hnd
      exact this.2.2 _ hm _ (by simp) rfl
    simp only [List.foldl_cons, hp]
    rw [insertField_append acc p.1 p.2 hnot]
    have hnd' : ((acc ++ [(p.1, p.2)]).map (·.1) ++ rest.map (·.1)).Nodup := by
      simpa [List.map_append, List.append_assoc] using hnd
    rw [foldl_insert_id rest _ hnd' (fun q hq => hf q (List.mem_cons_of_mem _ hq))]
    simp

theorem recNew_id (arr : List (List Char × RV)) (hnd : (arr.map (·.1)).Nodup)
    (hf : ∀ p ∈ arr, Arr.foldName p.1 = p.1) : (Arr.Rec.new arr).fields = arr := by
  simp only [Arr.Rec.new]
  have := foldl_insert_id arr [] (by simpa using hnd) hf
  simpa using this

theorem allocFields_keys : ∀ fs : FFields, (allocFields fs).map (·.1) = fs.names.map String.toList
  | .nil => rfl
  | .cons f t rest => by simp [allocFields, FFields.names, allocFields_keys rest]

theorem nodup_map_toList : ∀ l : List String, l.Nodup → (l.map String.toList).Nodup
  | [], _ => by simp
  | a :: rest, h => by
    simp only [List.nodup_cons] at h
    simp only [List.map_cons, List.nodup_cons, List.mem_map, not_exists, not_and]
    refine ⟨?_, nodup_map_toList rest h.2⟩
    intro b hb e
    exact h.1 (String.toList_inj.mp e ▸ hb)

mutual
/-- **a fresh value of a type of the table is represented by what the VM allocates for it** -/
theorem fresh_rel {types : List FFields} (hw : TypesWf types) : ∀ ft : FTy, TyIn types ft →
    ValRel (RecL.Ref.fresh ft) (allocTy ft)
  | .sc t, _ => by simp only [RecL.Ref.fresh, allocTy, ValRel, Spec.ValRel]
  | .fix n, _ => by simp only [RecL.Ref.fresh, allocTy, ValRel, Spec.ValRel]
  | .udt k fs, hin => by
    simp only [RecL.Ref.fresh, allocTy, ValRel, Spec.ValRel]
    obtain ⟨hnd, hfold, hnest⟩ := hw k fs hin
    refine ⟨_, rfl, ?_⟩
    rw [recNew_id (allocFields fs) (by rw [allocFields_keys]; exact nodup_map_toList _ hnd) ?_]
    · exact freshFs_rel hw fs hnd (fun f t hf => tyIn_find hw hin hf)
    · intro p hp
      have : p.1 ∈ (allocFields fs).map (·.1) := List.mem_map.mpr ⟨p, hp, rfl⟩
      rw [allocFields_keys] at this
      obtain ⟨f, hf, e⟩ := List.mem_map.mp this
      rw [← e]; exact hfold f hf
theorem freshFs_rel {types : List FFields} (hw : TypesWf types) : ∀ fs : FFields, fs.names.Nodup →
    (∀ f t, fs.find f = some t → TyIn types t) → FieldsRel (RecL.Ref.freshFs fs) (allocFields fs)
  | .nil, _, _ => by simp only [RecL.Ref.freshFs, allocFields, FieldsRel, Spec.FieldsRel]
  | .cons g t rest, hnd, hin => by
    simp only [FFields.names, List.nodup_cons] at hnd
    simp only [RecL.Ref.freshFs, allocFields, FieldsRel, Spec.FieldsRel]
    refine ⟨_, _, rfl, fresh_rel hw t (hin g t (by simp [FFields.find])), freshFs_rel hw rest hnd.2 ?_⟩
    intro f t' hf
    have hne : ¬ g = f := fun e => hnd.1 (e ▸ find_mem_names rest f t' hf)
    exact hin f t' (by simp [FFields.find, hne, hf])
end

/-! ### the state relation -/

/-- the variables of the two states correspond slot by slot: a variable that exists by `ValRel`; a record / `STRING * n`
variable whose `DIM` has not run is still what `get_or_create` makes of its name -/
structure VarsRel (slots : List ETy) (env : RecL.Ref.Env) (vars : List RV) : Prop where
  lenR : env.length = slots.length
  lenV : vars.length = slots.length
  at_ : ∀ (x : Nat) (st : ETy), slots[x]? = some st →
    (env[x]? = some none ∧ vars[x]? = some (defaultVar st)) ∨
      ∃ rv w, env[x]? = some (some rv) ∧ vars[x]? = some w ∧ ValRel rv w

theorem VarsRel.set {slots : List ETy} {env : RecL.Ref.Env} {vars : List RV} (h : VarsRel slots env vars) {x : Nat}
    {st : ETy} {v : RRV} {w : RV} (hx : slots[x]? = some st) (hvw : ValRel v w) :
    VarsRel slots (env.set x (some v)) (vars.set x w) := by
  have hlt : x < slots.length := (List.getElem?_eq_some_iff.mp hx).1
  refine ⟨by rw [List.length_set]; exact h.lenR, by rw [List.length_set]; exact h.lenV, ?_⟩
  intro y su hy
  by_cases hxy : x = y
  · subst hxy
    exact Or.inr ⟨v, w, List.getElem?_set_self (by rw [h.lenR]; exact hlt),
      List.getElem?_set_self (by rw [h.lenV]; exact hlt), hvw⟩
  · rw [List.getElem?_set_ne hxy, List.getElem?_set_ne hxy]
    exact h.at_ y su hy

/-- the VM state represents the state `s` of the reference semantics over the tables `sc` -/
structure Rel (sc : Scope) (s : St) (σ : Vm) : Prop where
  /-- the type table is closed and consistent -/
  twf : TypesWf sc.types
  types : s.types = sc.types
  vtypes : σ.types = sc.types
  vars : VarsRel sc.slots s.env σ.vars
  /-- every variable that exists has its declared type: in particular every `STRING * n` location holds `n` characters -/
  typed : EnvTyped sc.types sc.slots s.env
  /-- no NUL character in any variable -/
  nonul : ∀ (x : Nat) (v : RRV), s.env[x]? = some (some v) → NoNul v
  out : σ.out = s.out
  data : σ.data = s.data
  dataIdx : σ.dataIdx = s.dataIdx
  /-- nothing is waiting in the by-reference return queue -/
  queue : σ.queue = []
  /-- no NUL character in the DATA items -/
  dnonul : ∀ v ∈ s.data, NoNulVal v

/-- a VM state that agrees with a related one on the variables is related to a reference state that agrees with the old
one on the variables -/
theorem Rel.congr {sc : Scope} {s s' : St} {σ τ : Vm} (h : Rel sc s σ)
    (hv : τ.vars = σ.vars) (ht : τ.types = σ.types) (he : s'.env = s.env) (hty : s'.types = s.types)
    (ho : τ.out = s'.out) (hd : τ.data = s'.data) (hds : s'.data = s.data) (hi : τ.dataIdx = s'.dataIdx)
    (hq : τ.queue = []) : Rel sc s' τ :=
  ⟨h.twf, by rw [hty]; exact h.types, by rw [ht]; exact h.vtypes, by rw [hv, he]; exact h.vars,
    by rw [he]; exact h.typed, by rw [he]; exact h.nonul, ho, hd, hi, hq, by rw [hds]; exact h.dnonul⟩

/-- only the program counter, the registers, the stacks and the open argument lists differ -/
theorem Rel.same {sc : Scope} {s : St} {σ τ : Vm} (h : Rel sc s σ)
    (hv : τ.vars = σ.vars) (ht : τ.types = σ.types) (ho : τ.out = σ.out) (hd : τ.data = σ.data)
    (hi : τ.dataIdx = σ.dataIdx) (hq : τ.queue = σ.queue) : Rel sc s τ :=
  h.congr hv ht rfl rfl (by rw [ho, h.out]) (by rw [hd, h.data]) rfl (by rw [hi, h.dataIdx]) (by rw [hq, h.queue])

theorem Rel.advance {sc : Scope} {s : St} {σ : Vm} (h : Rel sc s σ) : Rel sc s (advance σ) :=
  h.same rfl rfl rfl rfl rfl rfl

theorem Rel.setPc {sc : Scope} {s : St} {σ : Vm} (h : Rel sc s σ) (a : Nat) : Rel sc s { σ with pc := a } :=
  h.same rfl rfl rfl rfl rfl rfl

theorem Rel.setA {sc : Scope} {s : St} {σ : Vm} (h : Rel sc s σ) (v : Val) : Rel sc s (setA σ v) :=
  h.same rfl rfl rfl rfl rfl rfl

theorem Rel.setRA {sc : Scope} {s : St} {σ : Vm} (h : Rel sc s σ) (v : RV) : Rel sc s (setRA σ v) :=
  h.same rfl rfl rfl rfl rfl rfl

theorem Rel.lt {sc : Scope} {s : St} {τ : Vm} (h : Rel sc s τ) {x : Nat} {st : ETy} (hx : sc.slots[x]? = some st) :
    x < τ.vars.length := by
  rw [h.vars.lenV]; exact (List.getElem?_eq_some_iff.mp hx).1

/-- storing a typed, NUL-free value into variable `x` (as a whole) on both sides -/
theorem Rel.storeVar {sc : Scope} {s : St} {σ τ : Vm} (h : Rel sc s σ)
    {x : Nat} {st : ETy} {ft : FTy} {v : RRV} {w : RV} (hx : sc.slots[x]? = some st)
    (he : expand sc.types st = some ft) (hv : HasTy ft v) (hvw : ValRel v w) (hn : NoNul v)
    (hc : τ.vars = σ.vars.set x w) (ht : τ.types = σ.types) (ho : τ.out = σ.out) (hd : τ.data = σ.data)
    (hi : τ.dataIdx = σ.dataIdx) (hq : τ.queue = σ.queue) :
    Rel sc (s.setRV x v) τ := by
  refine ⟨h.twf, h.types, by rw [ht]; exact h.vtypes, ?_, ?_, ?_, ?_, ?_, ?_, ?_, h.dnonul⟩
  · rw [hc]; exact h.vars.set hx hvw
  · exact envTyped_setRV h.typed hx he hv
  · intro y u hy
    simp only [RecL.Ref.St.setRV] at hy
    by_cases hxy : x = y
    · subst hxy
      have hlt : x < s.env.length := by rw [h.vars.lenR]; exact (List.getElem?_eq_some_iff.mp hx).1
      rw [List.getElem?_set_self hlt] at hy
      injection hy with hy; injection hy with hy; subst hy; exact hn
    · rw [List.getElem?_set_ne hxy] at hy
      exact h.nonul y u hy
  · rw [ho, h.out]; rfl
  · rw [hd, h.data]; rfl
  · rw [hi, h.dataIdx]; rfl
  · rw [hq, h.queue]

/-- storing a scalar of the slot's type into a scalar variable -/
theorem Rel.store {sc : Scope} {s : St} {σ τ : Vm} (h : Rel sc s σ)
    {x : Nat} {t : Ty} {v : Val} (hx : sc.slots[x]? = some (.sc t)) (hv : v.tag = t) (hn : NoNulVal v)
    (hc : τ.vars = σ.vars.set x (.leaf v)) (ht : τ.types = σ.types) (ho : τ.out = σ.out) (hd : τ.data = σ.data)
    (hi : τ.dataIdx = σ.dataIdx) (hq : τ.queue = σ.queue) :
    Rel sc (s.set x v) τ :=
  h.storeVar (ft := .sc t) (v := .sc v) hx rfl (by simp only [HasTy, Spec.HasTy]; exact ⟨v, rfl, hv⟩)
    (by simp only [ValRel, Spec.ValRel]) (by simpa only [NoNul, Spec.NoNul] using hn) hc ht ho hd hi hq

/-- the current value of a scalar slot, as the VM reads it (also before the variable's `DIM` has run) -/
theorem Rel.getS {sc : Scope} {s : St} {σ : Vm} (h : Rel sc s σ) {x : Nat} {t : Ty}
    (hx : sc.slots[x]? = some (.sc t)) :
    σ.vars[x]? = some (.leaf (s.getS x t)) ∧ (s.getS x t).tag = t ∧ NoNulVal (s.getS x t) := by
  rcases h.vars.at_ x _ hx with ⟨h1, h2⟩ | ⟨rv, w, h1, h2, h3⟩
  · have hg : s.getS x t = zeroOf t := by simp only [RecL.Ref.St.getS, h1]
    rw [hg]
    exact ⟨h2, by cases t <;> rfl, noNul_zeroOf t⟩
  · have hty := envTyped_lookup h.typed hx rfl h1
    obtain ⟨a, rfl, hat⟩ := hasTy_sc hty
    have hnn := h.nonul x _ h1
    simp only [ValRel, Spec.ValRel] at h3
    subst h3
    have hg : s.getS x t = a := by simp only [RecL.Ref.St.getS, h1]
    rw [hg]
    exact ⟨h2, hat, by simpa only [NoNul, Spec.NoNul] using hnn⟩

/-- what a construct leaves alone: value stack, path stack, register stack, the open argument lists, the stack trace;
and it does not raise the "skip the newline" flag of PRINT -/
structure SameStacks (σ τ : Vm) : Prop where
  vals : τ.vals = σ.vals
  paths : τ.paths = σ.paths
  regStack : τ.regStack = σ.regStack
  ctx : τ.ctx = σ.ctx
  trace : τ.trace = σ.trace
  skip : σ.skipNewline = false → τ.skipNewline = false

theorem SameStacks.refl (σ : Vm) : SameStacks σ σ := ⟨rfl, rfl, rfl, rfl, rfl, id⟩

theorem SameStacks.trans {a b c : Vm} (h₁ : SameStacks a b) (h₂ : SameStacks b c) : SameStacks a c :=
  ⟨h₂.vals.trans h₁.vals, h₂.paths.trans h₁.paths, h₂.regStack.trans h₁.regStack, h₂.ctx.trans h₁.ctx,
    h₂.trace.trans h₁.trace, fun h => h₂.skip (h₁.skip h)⟩

/-- the states agree on everything `SameStacks` mentions -/
theorem SameStacks.of_eq {σ τ : Vm} (h1 : τ.vals = σ.vals) (h2 : τ.paths = σ.paths) (h3 : τ.regStack = σ.regStack)
    (h4 : τ.ctx = σ.ctx) (h6 : τ.trace = σ.trace) (h7 : τ.skipNewline = σ.skipNewline) :
    SameStacks σ τ := ⟨h1, h2, h3, h4, h6, fun h => by rw [h7]; exact h⟩

/-- the invariant between statements: the PRINT flag is down -/
structure ActInv (σ : Vm) : Prop where
  quiet : σ.skipNewline = false

theorem ActInv.of_same {σ τ : Vm} (h : ActInv σ) (hs : SameStacks σ τ) : ActInv τ := ⟨hs.skip h.quiet⟩

/-! ### well-formedness -/

/-- static well-formedness of an expression as the linter establishes it (`Spec.ExprTyped`): a variable / field path
leads to a declared location of the type the node carries, operators see scalars and carry the result type of the
checker's table, string literals hold no NUL -/
def EWf (sc : Scope) (e : RecL.Expr) : Prop := Spec.ExprTyped sc.types sc.slots e

/-- a built-in numeric type (conditions) -/
def NumTy (t : ETy) : Prop := ∃ q, t = .sc q ∧ q ≠ .str

def ItemsWf (sc : Scope) : List PrintItem → Prop
  | [] => True
  | .expr e :: rest => EWf sc e ∧ ItemsWf sc rest
  | _ :: rest => ItemsWf sc rest

/-- the six relational operators (after `CASE IS` the parser accepts nothing else) -/
def SelRelOp (op : Op) : Prop :=
  op = .less ∨ op = .lessOrEqual ∨ op = .equal ∨ op = .greaterOrEqual ∨ op = .greater ∨ op = .notEqual

def CaseWf (sc : Scope) : CaseExpr → Prop
  | .simple e => EWf sc e
  | .is op e => SelRelOp op ∧ EWf sc e
  | .range lo hi => EWf sc lo ∧ EWf sc hi

def CondsWf (sc : Scope) : List CaseExpr → Prop
  | [] => True
  | c :: rest => CaseWf sc c ∧ CondsWf sc rest

def TargetWf (sc : Scope) (tg : ReadTarget) : Prop := sc.slots[tg.x]? = some (.sc tg.t)

mutual
/-- well-formed statements: a `DIM` names the slot's declared type (a type of the table); an assignment goes to a declared
location of the type the statement carries (whatever the static type of the right-hand side: a conversion the linter
would reject is the same Type mismatch on both sides); READ targets and FOR counters are
scalar variables used at their declared type (a FOR counter is not a string); expressions are well formed; conditions of
IF / WHILE / DO are numbers; a missing ELSE part is empty; DATA does not occur (it is hoisted: see the program theorem) -/
def Wf (sc : Scope) : SStmt → Prop
  | .skip => True
  | .comment => True
  | .seq a b => Wf sc a ∧ Wf sc b
  | .dim x t _ => sc.slots[x]? = some t ∧ (expand sc.types t).isSome
  | .assign x path t e _ => PathTyped sc.types sc.slots x path t ∧ EWf sc e
  | .print items _ => ItemsWf sc items
  | .ifBlock c thn elifs hasElse els _ =>
    EWf sc c ∧ NumTy c.ty ∧ Wf sc thn ∧ WfElifs sc elifs ∧ Wf sc els ∧ (hasElse = false → els = .skip)
  | .while c body _ => EWf sc c ∧ NumTy c.ty ∧ Wf sc body
  | .doLoop c _ _ body _ => EWf sc c ∧ NumTy c.ty ∧ Wf sc body
  | .end_ _ => True
  | .data _ _ => False
  | .read tgs _ => ∀ tg ∈ tgs, TargetWf sc tg
  | .select e cases hasElse els _ =>
    EWf sc e ∧ WfCases sc cases ∧ Wf sc els ∧ (hasElse = false → els = .skip)
  | .forLoop x t lo hi step body _ =>
    sc.slots[x]? = some (.sc t) ∧ t ≠ .str ∧ EWf sc lo ∧ EWf sc hi ∧ (∀ se, step = some se → EWf sc se) ∧ Wf sc body
def WfElifs (sc : Scope) : ElseIfs → Prop
  | .nil => True
  | .cons c body rest => EWf sc c ∧ NumTy c.ty ∧ Wf sc body ∧ WfElifs sc rest
def WfCases (sc : Scope) : SCases → Prop
  | .nil => True
  | .cons conds body rest => conds ≠ [] ∧ CondsWf sc conds ∧ Wf sc body ∧ WfCases sc rest
end

/-! ### specifications -/

/-- an evaluation that does not yield a value: the run ends with the error; the outcomes outside the modelled language
(`illFormed`: a record / `STRING * n` variable used before its DIM ran; `inexact`; `outOfFuel`) claim nothing -/
def ErrPost (code : Code) (σ : Vm) (s' : St) : Outcome → Prop
  | .error c p => ErrsWith code σ c p s'.out
  | .halted => HaltsWith code σ s'.out
  | .inexact => True
  | .outOfFuel => True
  | .illFormed => True
  | .normal => False

theorem ErrPost.of_steps {code : Code} {σ τ : Vm} {s' : St} {o : Outcome} (h₁ : Steps code σ τ)
    (h₂ : ErrPost code τ s' o) : ErrPost code σ s' o := by
  cases o with
  | error c p => exact ErrsWith.of_steps h₁ h₂
  | halted => exact HaltsWith.of_steps h₁ h₂
  | inexact => trivial
  | outOfFuel => trivial
  | illFormed => trivial
  | normal => exact h₂

/-- code that leaves a value — a scalar or a whole record — in A: `n` instructions starting at `off`.  The reference
state `s` does not change (expressions are pure) -/
def RvPost (code : Code) (sc : Scope) (n : Nat) (off : Nat) (s : St) (σ : Vm) : ERes RRV → Prop
  | .ok v => ∃ τ, Steps code σ τ ∧ τ.pc = off + n ∧ ValRel v τ.regs.a ∧ Rel sc s τ ∧ SameStacks σ τ
  | .err c p => ErrsWith code σ c p s.out
  | .inexact => True
  | .illFormed => True

/-- code that leaves a scalar in A -/
def ExprPost (code : Code) (sc : Scope) (n : Nat) (off : Nat) (s : St) (σ : Vm) : ERes Val → Prop
  | .ok v => ∃ τ, Steps code σ τ ∧ τ.pc = off + n ∧ τ.regs.a = .leaf v ∧ Rel sc s τ ∧ SameStacks σ τ
  | .err c p => ErrsWith code σ c p s.out
  | .inexact => True
  | .illFormed => True

theorem ExprPost.of_steps {code : Code} {sc : Scope} {n : Nat} {off : Nat} {s : St} {σ τ : Vm} {r : ERes Val}
    (h₁ : Steps code σ τ) (hs : SameStacks σ τ) (h₂ : ExprPost code sc n off s τ r) :
    ExprPost code sc n off s σ r := by
  cases r with
  | ok v =>
    obtain ⟨υ, st, hp, ha, hr, hss⟩ := h₂
    exact ⟨υ, h₁.trans st, hp, ha, hr, hs.trans hss⟩
  | err c p => exact ErrsWith.of_steps h₁ h₂
  | inexact => trivial
  | illFormed => trivial

/-- a tree in A that represents a scalar is that scalar -/
theorem ExprPost.of_rv {code : Code} {sc : Scope} {n : Nat} {off : Nat} {s : St} {σ : Vm} {r : ERes RRV}
    (h : RvPost code sc n off s σ r) : ExprPost code sc n off s σ (r.bind RecL.Ref.asScalar) := by
  cases r with
  | ok v =>
    cases v with
    | sc a =>
      obtain ⟨τ, st, hp, ha, hr, hss⟩ := h
      simp only [ValRel, Spec.ValRel] at ha
      exact ⟨τ, st, hp, ha, hr, hss⟩
    | udt fs => trivial
  | err c p => exact h
  | inexact => trivial
  | illFormed => trivial

/-- expressions: the code of `e` puts `Ref.eval e` into A -/
def RvSpec (code : Code) (sc : Scope) (e : RecL.Expr) : Prop :=
  ∀ (off : Nat) (s : St) (σ : Vm), CodeAt code off (compileExpr e) → σ.pc = off → Rel sc s σ → EWf sc e →
    RvPost code sc (compileExpr e).length off s σ (RecL.Ref.eval s.env e)

/-- what the code of a statement does, given what the reference semantics says the statement does -/
def StmtPost (code : Code) (sc : Scope) (n off : Nat) (σ : Vm) : St × Outcome → Prop
  | (s', .normal) => ∃ τ, Steps code σ τ ∧ τ.pc = off + n ∧ Rel sc s' τ ∧ SameStacks σ τ
  | (s', .halted) => HaltsWith code σ s'.out
  | (s', .error c p) => ErrsWith code σ c p s'.out
  | (_, .inexact) => True
  | (_, .outOfFuel) => True
  | (_, .illFormed) => True

def StmtIH (code : Code) (fuel : Nat) : Prop :=
  ∀ (sc : Scope) (stmt : SStmt) (sfx : String) (off : Nat) (s : St) (σ : Vm),
    CodeAt code off (compileStmt sfx off stmt) → σ.pc = off → Rel sc s σ → Wf sc stmt → ActInv σ →
    StmtPost code sc (sizeStmt stmt) off σ (RecL.Ref.exec fuel (desugar stmt) s)

/-- the induction hypothesis at a given amount of fuel (expressions are pure and need none) -/
structure IH (code : Code) (fuel : Nat) : Prop where
  stmt : StmtIH code fuel

/-- the induction hypothesis at every smaller or equal amount of fuel -/
def IHle (code : Code) (fuel : Nat) : Prop := ∀ f, f ≤ fuel → IH code f

theorem IHle.self {code : Code} {fuel : Nat} (h : IHle code fuel) : IH code fuel := h fuel (Nat.le_refl _)

theorem IHle.mono {code : Code} {fuel f : Nat} (h : IHle code fuel) (hf : f ≤ fuel) : IHle code f :=
  fun g hg => h g (Nat.le_trans hg hf)

/-- an evaluation that ended the run ends the statement the same way -/
theorem StmtPost.of_err {code : Code} {sc : Scope} {n off : Nat} {σ : Vm} {s' : St}
    {o : Outcome} (h : ErrPost code σ s' o) : StmtPost code sc n off σ (s', o) := by
  cases o with
  | error c p => exact h
  | halted => exact h
  | inexact => trivial
  | outOfFuel => trivial
  | illFormed => trivial
  | normal => exact h.elim

/-- an expression that did not yield a value ends the statement with its outcome -/
theorem ErrPost.of_expr {code : Code} {sc : Scope} {n : Nat} {off : Nat} {s : St} {σ : Vm} {r : ERes Val}
    (h : ExprPost code sc n off s σ r) (hn : ∀ v, r ≠ .ok v) : ErrPost code σ s (RecL.Ref.outcomeOf r) := by
  cases r with
  | ok v => exact absurd rfl (hn v)
  | err c p => exact h
  | inexact => trivial
  | illFormed => trivial

theorem ErrPost.of_rv {code : Code} {sc : Scope} {n : Nat} {off : Nat} {s : St} {σ : Vm} {r : ERes RRV}
    (h : RvPost code sc n off s σ r) (hn : ∀ v, r ≠ .ok v) : ErrPost code σ s (RecL.Ref.outcomeOf r) := by
  cases r with
  | ok v => exact absurd rfl (hn v)
  | err c p => exact h
  | inexact => trivial
  | illFormed => trivial

/-- the statement's code is reached after some steps that leave the stacks alone -/
theorem StmtPost.of_steps {code : Code} {sc : Scope} {n off : Nat} {σ τ : Vm}
    {r : St × Outcome} (h₁ : Steps code σ τ) (hs : SameStacks σ τ)
    (h₂ : StmtPost code sc n off τ r) : StmtPost code sc n off σ r := by
  obtain ⟨s', o⟩ := r
  cases o with
  | normal =>
    obtain ⟨υ, st, hp, hr, hss⟩ := h₂
    exact ⟨υ, h₁.trans st, hp, hr, hs.trans hss⟩
  | halted => exact HaltsWith.of_steps h₁ h₂
  | error c p => exact ErrsWith.of_steps h₁ h₂
  | inexact => trivial
  | outOfFuel => trivial
  | illFormed => trivial

/-- the same specification with the end address written differently -/
theorem StmtPost.addr {code : Code} {sc : Scope} {n off n' off' : Nat} {σ : Vm}
    {r : St × Outcome} (e : off + n = off' + n') (h : StmtPost code sc n off σ r) :
    StmtPost code sc n' off' σ r := by
  obtain ⟨s', o⟩ := r
  cases o with
  | normal =>
    obtain ⟨υ, st, hp, hr, hss⟩ := h
    exact ⟨υ, st, by rw [hp, e], hr, hss⟩
  | halted => exact h
  | error c p => exact h
  | inexact => trivial
  | outOfFuel => trivial
  | illFormed => trivial

/-! ### loads, stores, conversions, conditions -/

/-- the state after `VarPathName x; CopyVarPathToA; PopVarPath` -/
def loadSt (τ : Vm) (v : Val) : Vm := { τ with pc := τ.pc + 3, regs := { τ.regs with a := .leaf v } }

/-- reading a scalar variable into A: only A and the program counter change -/
theorem var_steps (code : Code) (sc : Scope) (s : St) (x : Nat) (t : Ty) (p : Pos)
    (τ : Vm) (hc : CodeAt code τ.pc (loadVar x p)) (hr : Rel sc s τ) (hx : sc.slots[x]? = some (.sc t)) :
    Steps code τ (loadSt τ (s.getS x t)) := by
  have hv := (hr.getS hx).1
  have h0 : code[τ.pc]? = some (CInstr.varPath x, p) := hc.head
  have h1 : code[τ.pc + 1]? = some (CInstr.copyVarPathToA, p) := hc.tail.head
  have h2 : code[τ.pc + 1 + 1]? = some (CInstr.popVarPath, p) := hc.tail.tail.head
  let τ1 : Vm := Vm.advance { τ with paths := ⟨x, []⟩ :: τ.paths }
  let τ2 : Vm := Vm.advance (Vm.setRA τ1 (.leaf (s.getS x t)))
  have s1 : Vm.step code τ = .next τ1 := by simp only [Vm.step, h0]; rfl
  have s2 : Vm.step code τ1 = .next τ2 := by
    simp only [Vm.step, τ1, Vm.advance, h1, readPath, hv, Path.steps, List.map_nil, ArrPath.getAt]; rfl
  have s3 : Vm.step code τ2 = .next (loadSt τ (s.getS x t)) := by
    simp only [Vm.step, τ2, τ1, Vm.advance, Vm.setRA, h2, loadSt]
  exact Steps.cons s1 (Steps.cons s2 (Steps.one s3))

theorem Rel.loadSt {sc : Scope} {s : St} {τ : Vm} (h : Rel sc s τ) (v : Val) :
    Rel sc s (loadSt τ v) := h.same rfl rfl rfl rfl rfl rfl

theorem SameStacks.loadSt (τ : Vm) (v : Val) : SameStacks τ (loadSt τ v) := ⟨rfl, rfl, rfl, rfl, rfl, id⟩

/-- the state after `VarPathName x; CopyAToVarPath` with the scalar `w` in A -/
def storeSt (τ : Vm) (x : Nat) (w : Val) : Vm :=
  { τ with pc := τ.pc + 2, vars := τ.vars.set x (.leaf w) }

/-- `VarPathName x; CopyAToVarPath`: store the scalar in A into variable `x`; the registers and the stacks are as they
were -/
theorem store_steps (code : Code) (x : Nat) (p : Pos) (τ : Vm) (w : Val) (hc : CodeAt code τ.pc (storeVar x p))
    (ha : τ.regs.a = .leaf w) (hx : x < τ.vars.length) : Steps code τ (storeSt τ x w) := by
  have h0 : code[τ.pc]? = some (CInstr.varPath x, p) := hc.head
  have h1 : code[τ.pc + 1]? = some (CInstr.copyAToVarPath, p) := hc.tail.head
  have hv : τ.vars[x]? = some τ.vars[x] := List.getElem?_eq_getElem hx
  refine Steps.cons (τ := Vm.advance { τ with paths := ⟨x, []⟩ :: τ.paths }) ?_ (Steps.one ?_)
  · simp only [Vm.step, h0]
  · simp only [Vm.step, Vm.advance, h1, writePath, hv, Path.steps, List.map_nil, ArrPath.modAt, ha, storeSt]

theorem Rel.storeSt {sc : Scope} {s : St} {τ : Vm} (h : Rel sc s τ) {x : Nat} {t : Ty} {w : Val}
    (hx : sc.slots[x]? = some (.sc t)) (hv : w.tag = t) (hn : NoNulVal w) : Rel sc (s.set x w) (storeSt τ x w) :=
  h.store hx hv hn rfl rfl rfl rfl rfl rfl

theorem SameStacks.storeSt (τ : Vm) (x : Nat) (w : Val) : SameStacks τ (storeSt τ x w) :=
  ⟨rfl, rfl, rfl, rfl, rfl, id⟩

/-- one instruction that rewrites A by a `Res`-valued operation -/
theorem resA_ok {code : Code} {σ : Vm} {p : Pos} {r : Res Val} {w : Val} (hstep : Vm.step code σ = Vm.resA σ p r)
    (h : r = .ok w) : Steps code σ (Vm.advance (Vm.setA σ w)) := by
  subst h; exact Steps.one (by rw [hstep]; rfl)

theorem resA_err {code : Code} {σ : Vm} {p : Pos} {r : Res Val} {e : Err} (hstep : Vm.step code σ = Vm.resA σ p r)
    (h : r = .err e) : ErrsWith code σ (RecL.Ref.codeOf e) p σ.out := by
  subst h; exact ⟨σ, σ, Steps.refl _, (by rw [hstep]; rfl), rfl⟩

/-- `fix_length` on a string without NUL is the reference's `padTrunc` -/
theorem fixLength_eq_padTrunc (cs : List Char) (n : Nat) (h : Char.ofNat 0 ∉ cs) :
    Arr.fixLength cs n = RecL.Ref.padTrunc n cs := by
  rw [RbThm.C04.fixLength_eq, RbThm.C04.cutNul_of_no_nul cs h]; rfl

/-- the optional conversion after an expression whose static type is `st` (`generate_expression_instructions_casting`):
nothing, `Cast t` or `FixLength n` -/
theorem conv_tail (code : Code) (sc : Scope) (s : St) (st tt : ETy) (p : Pos) (τ : Vm) (v : RRV)
    (hc : CodeAt code τ.pc (if st = tt then [] else convInstr tt p)) (hr : Rel sc s τ)
    (ha : ValRel v τ.regs.a) (hn : NoNul v) :
    RvPost code sc (if st = tt then ([] : Code) else convInstr tt p).length τ.pc s τ (RecL.Ref.conv p st tt v) := by
  unfold RecL.Ref.conv
  by_cases hty : st = tt
  · simp only [hty, if_true, RvPost, List.length_nil, Nat.add_zero]
    exact ⟨τ, Steps.refl τ, rfl, ha, hr, SameStacks.refl τ⟩
  · simp only [hty, if_false] at hc ⊢
    cases tt with
    | sc t =>
      cases v with
      | udt fs => simp only [RvPost]
      | sc a =>
        simp only [ValRel, Spec.ValRel] at ha
        simp only [convInstr] at hc ⊢
        have h0 : code[τ.pc]? = some (CInstr.cast t, p) := hc.head
        have hs : Vm.step code τ = Vm.resA τ p (cast a t) := by simp only [Vm.step, h0, onA, ha]
        cases hcst : cast a t with
        | ok w =>
          simp only [RecL.Ref.lift, RecL.Ref.ERes.bind, RvPost, List.length_singleton]
          exact ⟨_, resA_ok hs hcst, rfl, by simp [Vm.advance, Vm.setA, ValRel, Spec.ValRel],
            (hr.setA w).advance, ⟨rfl, rfl, rfl, rfl, rfl, id⟩⟩
        | err e =>
          simp only [RecL.Ref.lift, RecL.Ref.ERes.bind, RvPost]
          rw [← hr.out]; exact resA_err hs hcst
        | inexact => simp only [RecL.Ref.lift, RecL.Ref.ERes.bind, RvPost]
    | fix n =>
      cases v with
      | udt fs => simp only [RvPost]
      | sc a =>
        simp only [ValRel, Spec.ValRel] at ha
        simp only [convInstr] at hc ⊢
        have h0 : code[τ.pc]? = some (CInstr.fixLength n, p) := hc.head
        have hs : Vm.step code τ = Vm.resA τ p (ArrPath.fixLengthInA n a) := by simp only [Vm.step, h0, onA, ha]
        cases a with
        | str cs =>
          simp only [NoNul, Spec.NoNul, NoNulVal, Spec.NoNulVal] at hn
          have hf : ArrPath.fixLengthInA n (.str cs) = .ok (.str (RecL.Ref.padTrunc n cs)) := by
            simp only [ArrPath.fixLengthInA, Num.cast, Res.bind, fixLength_eq_padTrunc cs n hn]
          simp only [RvPost, List.length_singleton]
          exact ⟨_, resA_ok hs hf, rfl, by simp [Vm.advance, Vm.setA, ValRel, Spec.ValRel],
            (hr.setA _).advance, ⟨rfl, rfl, rfl, rfl, rfl, id⟩⟩
        | int i =>
          simp only [RvPost]
          rw [← hr.out]; exact resA_err (e := .typeMismatch) hs rfl
        | long i =>
          simp only [RvPost]
          rw [← hr.out]; exact resA_err (e := .typeMismatch) hs rfl
        | sgl q =>
          simp only [RvPost]
          rw [← hr.out]; exact resA_err (e := .typeMismatch) hs rfl
        | dbl q =>
          simp only [RvPost]
          rw [← hr.out]; exact resA_err (e := .typeMismatch) hs rfl
    | udt k => cases v <;> simp only [RvPost]

theorem len_path (x : Nat) (path : List String) (p : Pos) : (compilePath x path p).length = 1 + path.length := by
  simp [compilePath]; omega

/-- evaluating an expression and converting it to the type of the receiving location:
`generate_expression_instructions_casting` -/
theorem exprToE_correct (code : Code) (sc : Scope) (e : RecL.Expr) (hE : RvSpec code sc e) (t : ETy) (off : Nat)
    (s : St) (σ : Vm)
    (hc : CodeAt code off (compileExprToE e t)) (hpc : σ.pc = off) (hr : Rel sc s σ) (hw : EWf sc e) :
    RvPost code sc (compileExprToE e t).length off s σ (RecL.Ref.evalTo s.env e t) := by
  simp only [compileExprToE] at hc
  have he := hE off s σ hc.append_left hpc hr hw
  simp only [RecL.Ref.evalTo, compileExprToE, List.length_append]
  cases hev : RecL.Ref.eval s.env e with
  | err c p => rw [hev] at he; exact he
  | inexact => trivial
  | illFormed => trivial
  | ok v =>
    rw [hev] at he
    obtain ⟨τ, st, hp, ha, hrel, hss⟩ := he
    have hct : CodeAt code τ.pc (if e.ty = t then [] else convInstr t e.pos) := by
      have := hc.append_right
      rw [hp]; exact this
    have hnn : NoNul v := eval_noNul hr.nonul e v hw hev
    have := conv_tail code sc s e.ty t e.pos τ v hct hrel ha hnn
    simp only [RecL.Ref.ERes.bind]
    generalize RecL.Ref.conv e.pos e.ty t v = r2 at this ⊢
    cases r2 with
    | err c p => exact ErrsWith.of_steps st this
    | inexact => trivial
    | illFormed => trivial
    | ok w =>
      obtain ⟨υ, st2, hp2, ha2, hrel2, hss2⟩ := this
      exact ⟨υ, st.trans st2, by rw [hp2, hp]; omega, ha2, hrel2, hss.trans hss2⟩

/-- the same for a built-in target, stated on its own for the FOR bounds -/
theorem conv_tail_sc (code : Code) (sc : Scope) (s : St) (st : ETy) (t : Ty) (p : Pos) (τ : Vm) (v : RRV)
    (hc : CodeAt code τ.pc (if st = .sc t then [] else convInstr (.sc t) p)) (hr : Rel sc s τ)
    (ha : ValRel v τ.regs.a) :
    RvPost code sc (if st = .sc t then ([] : Code) else convInstr (.sc t) p).length τ.pc s τ
      (RecL.Ref.conv p st (.sc t) v) := by
  unfold RecL.Ref.conv
  by_cases hty : st = .sc t
  · simp only [hty, if_true, RvPost, List.length_nil, Nat.add_zero]
    exact ⟨τ, Steps.refl τ, rfl, ha, hr, SameStacks.refl τ⟩
  · simp only [hty, if_false] at hc ⊢
    cases v with
    | udt fs => simp only [RvPost]
    | sc a =>
      simp only [ValRel, Spec.ValRel] at ha
      simp only [convInstr] at hc ⊢
      have h0 : code[τ.pc]? = some (CInstr.cast t, p) := hc.head
      have hs : Vm.step code τ = Vm.resA τ p (cast a t) := by simp only [Vm.step, h0, onA, ha]
      cases hcst : cast a t with
      | ok w =>
        simp only [RecL.Ref.lift, RecL.Ref.ERes.bind, RvPost, List.length_singleton]
        exact ⟨_, resA_ok hs hcst, rfl, by simp [Vm.advance, Vm.setA, ValRel, Spec.ValRel],
          (hr.setA w).advance, ⟨rfl, rfl, rfl, rfl, rfl, id⟩⟩
      | err e =>
        simp only [RecL.Ref.lift, RecL.Ref.ERes.bind, RvPost]
        rw [← hr.out]; exact resA_err hs hcst
      | inexact => simp only [RecL.Ref.lift, RecL.Ref.ERes.bind, RvPost]

/-- evaluating an expression and converting it to a built-in type (FOR bounds): the scalar ends up in A and has the
target type -/
theorem exprTo_correct (code : Code) (sc : Scope) (e : RecL.Expr) (hE : RvSpec code sc e) (t : Ty) (off : Nat)
    (s : St) (σ : Vm)
    (hc : CodeAt code off (compileExprTo e t)) (hpc : σ.pc = off) (hr : Rel sc s σ) (hw : EWf sc e) :
    ExprPost code sc (compileExprTo e t).length off s σ (RecL.Ref.evalToS s.env e t) ∧
      ∀ v, RecL.Ref.evalToS s.env e t = .ok v → v.tag = t ∧ NoNulVal v := by
  constructor
  · simp only [compileExprTo, compileExprToE] at hc
    have he := hE off s σ hc.append_left hpc hr hw
    simp only [RecL.Ref.evalToS, RecL.Ref.evalTo, compileExprTo, compileExprToE, List.length_append]
    cases hev : RecL.Ref.eval s.env e with
    | err c p => rw [hev] at he; exact he
    | inexact => trivial
    | illFormed => trivial
    | ok v =>
      rw [hev] at he
      obtain ⟨τ, st, hp, ha, hrel, hss⟩ := he
      have hct : CodeAt code τ.pc (if e.ty = .sc t then [] else convInstr (.sc t) e.pos) := by
        have := hc.append_right
        rw [hp]; exact this
      have := conv_tail_sc code sc s e.ty t e.pos τ v hct hrel ha
      simp only [RecL.Ref.ERes.bind]
      generalize RecL.Ref.conv e.pos e.ty (.sc t) v = r2 at this ⊢
      cases r2 with
      | err c p => exact ErrsWith.of_steps st this
      | inexact => trivial
      | illFormed => trivial
      | ok w =>
        have h2 := ExprPost.of_rv this
        simp only [RecL.Ref.ERes.bind] at h2 ⊢
        refine ExprPost.of_steps st hss ?_
        generalize RecL.Ref.asScalar w = r3 at h2 ⊢
        cases r3 with
        | ok a =>
          obtain ⟨υ, st2, hp2, ha2, hrel2, hss2⟩ := h2
          exact ⟨υ, st2, by rw [hp2, hp]; omega, ha2, hrel2, hss2⟩
        | err c p => exact h2
        | inexact => trivial
        | illFormed => trivial
  · intro a h
    simp only [RecL.Ref.evalToS, RecL.Ref.evalTo] at h
    obtain ⟨w, h1, h2⟩ := eres_bind_ok h
    obtain ⟨v, h3, h4⟩ := eres_bind_ok h1
    have hwa := asScalar_ok h2
    subst hwa
    obtain ⟨ft, hft, hv⟩ := eval_typed hr.twf hr.typed e v hw h3
    have hnn : NoNul v := eval_noNul hr.nonul e v hw h3
    have hnw := conv_noNul hnn h4
    rcases conv_typed hft hv h4 with ⟨h5, h6⟩ | ⟨_, ft', h5, h6⟩
    · subst h6
      rw [h5] at hft
      simp only [expand] at hft; injection hft with hft; subst hft
      obtain ⟨a', ha', hat⟩ := hasTy_sc hv
      injection ha' with ha'; subst ha'
      exact ⟨hat, by simpa only [NoNul, Spec.NoNul] using hnw⟩
    · simp only [expand] at h5; injection h5 with h5; subst h5
      obtain ⟨a', ha', hat⟩ := hasTy_sc h6
      injection ha' with ha'; subst ha'
      exact ⟨hat, by simpa only [NoNul, Spec.NoNul] using hnw⟩

/-- a scalar-valued expression -/
theorem evalS_correct (code : Code) (sc : Scope) (e : RecL.Expr) (hE : RvSpec code sc e) (off : Nat)
    (s : St) (σ : Vm) (hc : CodeAt code off (compileExpr e)) (hpc : σ.pc = off) (hr : Rel sc s σ) (hw : EWf sc e) :
    ExprPost code sc (compileExpr e).length off s σ (RecL.Ref.evalS s.env e) :=
  ExprPost.of_rv (hE off s σ hc hpc hr hw)

/-- a value or the outcome that ends the statement (`Ref.evalE`) -/
def ValPost (code : Code) (sc : Scope) (n : Nat) (off : Nat) (s : St) (σ : Vm) : Except Outcome Val → Prop
  | .ok v => ∃ τ, Steps code σ τ ∧ τ.pc = off + n ∧ τ.regs.a = .leaf v ∧ Rel sc s τ ∧ SameStacks σ τ
  | .error o => ErrPost code σ s o

theorem evalE_correct (code : Code) (sc : Scope) (e : RecL.Expr) (hE : RvSpec code sc e) (off : Nat)
    (s : St) (σ : Vm) (hc : CodeAt code off (compileExpr e)) (hpc : σ.pc = off) (hr : Rel sc s σ) (hw : EWf sc e) :
    ValPost code sc (compileExpr e).length off s σ (RecL.Ref.evalE s e) := by
  have he := evalS_correct code sc e hE off s σ hc hpc hr hw
  simp only [RecL.Ref.evalE]
  generalize RecL.Ref.evalS s.env e = r at he ⊢
  cases r with
  | ok v => exact he
  | err c p => exact he
  | inexact => trivial
  | illFormed => trivial

/-- a condition followed by `JumpIfFalse no`: control arrives at `yes` (true) or `no` (false) -/
def CondPost (code : Code) (sc : Scope) (yes no : Nat) (s : St) (σ : Vm) : Except Outcome Bool → Prop
  | .ok true => ∃ τ, Steps code σ τ ∧ τ.pc = yes ∧ Rel sc s τ ∧ SameStacks σ τ
  | .ok false => ∃ τ, Steps code σ τ ∧ τ.pc = no ∧ Rel sc s τ ∧ SameStacks σ τ
  | .error o => ErrPost code σ s o

theorem truthy_of_tag {v : Val} (h : v.tag ≠ .str) : ∃ b, RecL.Ref.truthy v = some b := by
  cases v with
  | int i => exact ⟨_, rfl⟩
  | long i => exact ⟨_, rfl⟩
  | sgl q => exact ⟨_, rfl⟩
  | dbl q => exact ⟨_, rfl⟩
  | str l => exact absurd rfl h

/-- the scalar value of a numerically typed expression is a number -/
theorem evalS_numTag {sc : Scope} {s : St} {σ : Vm} (hr : Rel sc s σ) {e : RecL.Expr} (hw : EWf sc e)
    (hn : NumTy e.ty) {v : Val} (h : RecL.Ref.evalS s.env e = .ok v) : v.tag ≠ .str := by
  simp only [RecL.Ref.evalS] at h
  obtain ⟨w, h1, h2⟩ := eres_bind_ok h
  have hwa := asScalar_ok h2
  subst hwa
  obtain ⟨ft, hft, hv⟩ := eval_typed hr.twf hr.typed e _ hw h1
  obtain ⟨q, hq, hqs⟩ := hn
  rw [hq] at hft
  simp only [expand] at hft; injection hft with hft; subst hft
  obtain ⟨a', ha', hat⟩ := hasTy_sc hv
  injection ha' with ha'; subst ha'
  rw [hat]; exact hqs

/-- `<cond>; JumpIfFalse target` -/
theorem cond_correct (code : Code) (sc : Scope) (c : RecL.Expr) (hE : RvSpec code sc c) (target : Nat) (p : Pos)
    (off : Nat) (s : St) (σ : Vm)
    (hc : CodeAt code off (compileExpr c ++ [(CInstr.jumpIfFalse target, p)])) (hpc : σ.pc = off)
    (hr : Rel sc s σ) (hw : EWf sc c) (hn : NumTy c.ty) :
    CondPost code sc (off + (compileExpr c).length + 1) target s σ (RecL.Ref.evalCond s c) := by
  have he := evalS_correct code sc c hE off s σ hc.append_left hpc hr hw
  have hj : code[off + (compileExpr c).length]? = some (CInstr.jumpIfFalse target, p) := hc.append_right.head
  simp only [RecL.Ref.evalCond]
  cases hev : RecL.Ref.evalS s.env c with
  | err c p => rw [hev] at he; exact he
  | inexact => trivial
  | illFormed => trivial
  | ok v =>
    rw [hev] at he
    obtain ⟨τ, st, hp, ha, hrel, hss⟩ := he
    obtain ⟨b, hb⟩ := truthy_of_tag (v := v) (evalS_numTag hr hw hn hev)
    have hj' : code[τ.pc]? = some (CInstr.jumpIfFalse target, p) := by rw [hp]; exact hj
    have hb' : RbModel.Ref.truthy v = some b := hb
    simp only [hb]
    cases b with
    | true =>
      refine ⟨Vm.advance τ, st.trans (Steps.one ?_), by simp [Vm.advance, hp], hrel.advance,
        hss.trans ⟨rfl, rfl, rfl, rfl, rfl, id⟩⟩
      simp only [Vm.step, hj', onA, ha, hb']
    | false =>
      refine ⟨{ τ with pc := target }, st.trans (Steps.one ?_), rfl, hrel.setPc target,
        hss.trans ⟨rfl, rfl, rfl, rfl, rfl, id⟩⟩
      simp only [Vm.step, hj', onA, ha, hb']

/-- with no fuel every specification holds (the reference semantics says `outOfFuel`) -/
theorem ih_zero (code : Code) : IH code 0 := by
  refine ⟨?_⟩
  intro sc stmt sfx off s σ _ _ _ _ _; simp only [RecL.Ref.exec, StmtPost]

end RbThm.RecLSim
